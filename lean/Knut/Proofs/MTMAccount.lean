import Knut.Proofs.MTMSpec
/-!
# C03: from one position to the account row — helper lemmas

* `run_idle`, `traceOfRun_idle` – a position that is closed and never booked contributes nothing and takes no step;
* `traceOfRun_steps_le` – **explicit step bound**: the number of truncations of the trace over a list of days is at most
  (number of days with a price declaration) + (number of non-zero bookings on the position);
* `nzCount_spec`, `priceDays_spec` – those two numbers as `Spec.stepCount` counts them (over `Spec.userPostings`);
* `pipelineRun_valOn_v` – in the valuation commodity itself the values are the quantities (no truncation);
* `alignIn_le`, `alignIn_gt` – `Partition.Align` against a period end.
-/
namespace Knut.MTM
open Knut Knut.Dec Knut.Spec

/-! ### idle positions -/

theorem stepDay_idle (s : St) (d : DayStep) (hQ : s.Q = 0) (hq : d.qs = []) : stepDay s d = s := by
  cases s with
  | mk W Q steps =>
    simp only at hQ
    subst hQ
    unfold stepDay adjustment adjSkipped booked
    simp [hq, Rat.add_zero]

theorem run_idle : ∀ (tr : List DayStep) (s : St), s.Q = 0 → (∀ d ∈ tr, d.qs = []) → run s tr = s
  | [], _, _, _ => rfl
  | d :: tr, s, hQ, h => by
    have e : run s (d :: tr) = run (stepDay s d) tr := rfl
    rw [e, stepDay_idle s d hQ (h d List.mem_cons_self)]
    exact run_idle tr s hQ (fun x hx => h x (List.mem_cons_of_mem _ hx))

theorem traceOfRun_qs (cfg : BalCfg) (a : Account) (c : Commodity) :
    ∀ (ds : List Day) (p : Rat) (st : BalState), ∀ x ∈ traceOfRun cfg a c p st ds, ∃ d ∈ ds, x.qs = qtysOn a c d.transactions
  | [], _, _, x, hx => by cases hx
  | d :: ds, p, st, x, hx => by
    unfold traceOfRun at hx
    split at hx
    · cases hx
    · rcases List.mem_cons.mp hx with rfl | hx
      · exact ⟨d, List.mem_cons_self, rfl⟩
      · obtain ⟨d', hd', e⟩ := traceOfRun_qs cfg a c ds _ _ x hx
        exact ⟨d', List.mem_cons_of_mem _ hd', e⟩

/-- the commodities booked on `a` -/
theorem mem_commoditiesOf {days : List Day} {a : Account} {c : Commodity} {d : Day} {t : Transaction} {p : Posting}
    (hd : d ∈ days) (ht : t ∈ d.transactions) (hp : p ∈ t.postings) (ha : p.account = a) (hc : p.commodity = c) :
    c ∈ Spec.commoditiesOf days a := by
  unfold Spec.commoditiesOf
  rw [List.mem_eraseDups]
  apply List.mem_map.mpr
  refine ⟨(t.date, p), ?_, hc⟩
  rw [List.mem_filter]
  refine ⟨?_, by simp [ha]⟩
  unfold Spec.userPostings
  rw [List.mem_flatMap]
  refine ⟨d, hd, ?_⟩
  rw [List.mem_flatMap]
  exact ⟨t, ht, List.mem_map.mpr ⟨p, hp, rfl⟩⟩

theorem posOn_nil_of_not_mem {days : List Day} {a : Account} {c : Commodity} (hc : c ∉ Spec.commoditiesOf days a) :
    ∀ d ∈ days, posOn a c d.transactions = [] := by
  intro d hd
  unfold posOn
  rw [List.filter_eq_nil_iff]
  intro p hp ho
  obtain ⟨t, ht, hpt⟩ := List.mem_flatMap.mp hp
  unfold onPos at ho
  simp only [Bool.and_eq_true, decide_eq_true_eq] at ho
  exact hc (mem_commoditiesOf hd ht hpt ho.1 ho.2)

/-! ### the explicit step bound -/

theorem priceOr_of_priceIs {np : Option Prices.NPrices} {c : Commodity} {p : Rat} (h : PriceIs np c p) :
    priceOr np c p = p := by
  unfold priceOr
  cases hl : Balance.lookupPrice np c with
  | ok x => exact h x hl
  | error e => rfl

/-- non-zero bookings on `(a, c)` over a list of days -/
def nzCount (a : Account) (c : Commodity) (L : List Day) : Nat :=
  (L.map (fun d => ((qtysOn a c d.transactions).filter (fun q => q ≠ 0)).length)).sum

/-- days with a price declaration -/
def priceDays (L : List Day) : Nat := (L.filter (fun d => !d.prices.isEmpty)).length

/-- **step bound**: over any list of days, the trace of `(a, c)` takes at most one step per day with a price declaration
(the only days on which a price can move) plus one per non-zero booking -/
theorem traceOfRun_steps_le (cfg : BalCfg) (v : Commodity) (a : Account) (c : Commodity) (hv : cfg.valuation = some v) :
    ∀ (ds L : List Day) (st st' : BalState) (txs : List Transaction) (p : Rat) (s : St),
      PriceInv v L st → PriceIs st.vPrev c p → pipelineRun cfg st ds = .ok (st', txs) →
      (run s (traceOfRun cfg a c p st ds)).steps ≤ s.steps + priceDays ds + nzCount a c ds
  | [], _, _, _, _, _, s, _, _, _ => by
    unfold traceOfRun run priceDays nzCount
    simp
  | d :: ds, L, st, st', txs, p, s, hi, hp, h => by
    unfold pipelineRun at h
    unfold traceOfRun
    cases hq : dayQ cfg st d with
    | error e => rw [hq] at h; cases h
    | ok r =>
      obtain ⟨sd, td⟩ := r
      rw [hq] at h; simp only at h ⊢
      cases hr : pipelineRun cfg sd ds with
      | error e => rw [hr] at h; cases h
      | ok r2 =>
        obtain ⟨s2, rest⟩ := r2
        rw [hr] at h; simp only at h
        have ih := traceOfRun_steps_le cfg v a c hv ds (L ++ [d]) sd s2 rest (priceOr sd.vPrev c p)
          (stepDay s ⟨p, priceOr sd.vPrev c p, qtysOn a c d.transactions⟩)
          (priceInv_day cfg v L st sd d td hv hi hq) (priceIs_priceOr _ _ _) hr
        have hrun : ∀ (x : DayStep) (xs : List DayStep), run s (x :: xs) = run (stepDay s x) xs := fun _ _ => rfl
        rw [hrun]
        have hstep : (stepDay s ⟨p, priceOr sd.vPrev c p, qtysOn a c d.transactions⟩).steps ≤
            s.steps + (if d.prices.isEmpty then 0 else 1) + ((qtysOn a c d.transactions).filter (fun q => q ≠ 0)).length := by
          unfold stepDay
          simp only
          by_cases he : d.prices.isEmpty = true
          · obtain ⟨_, p2, p3⟩ := dayQ_prices cfg v st sd d td hv hq
            have : priceOr sd.vPrev c p = p := by
              rw [p3, p2]
              simp only [he, if_true]
              rw [← hi.2.2]
              exact priceOr_of_priceIs hp
            have hsk : adjSkipped s.Q p (priceOr sd.vPrev c p) := by
              right; rw [this]; grind
            simp only [hsk, if_true, he]
            omega
          · simp only [he, Bool.false_eq_true, if_false]
            split <;> omega
        unfold priceDays nzCount at ih ⊢
        rw [List.filter_cons, List.map_cons, List.sum_cons]
        by_cases he : d.prices.isEmpty = true
        · simp only [he, if_true, Bool.not_true, Bool.false_eq_true, if_false] at hstep ⊢
          omega
        · simp only [he, Bool.false_eq_true, if_false, Bool.not_false, if_true, List.length_cons] at hstep ⊢
          omega

/-- a position that is closed at the start and never booked on takes no step and gains no value -/
theorem traceOfRun_idle (cfg : BalCfg) (a : Account) (c : Commodity) (ds : List Day) (p : Rat) (st : BalState) (s : St)
    (hQ : s.Q = 0) (hno : ∀ d ∈ ds, posOn a c d.transactions = []) :
    run s (traceOfRun cfg a c p st ds) = s := by
  apply run_idle _ _ hQ
  intro x hx
  obtain ⟨d, hd, e⟩ := traceOfRun_qs cfg a c ds p st x hx
  rw [e]
  unfold qtysOn
  rw [hno d hd]
  rfl

/-! ### the counts of `Spec.stepCount` -/

theorem day_postings_count (a : Account) (c : Commodity) (F D dd : Int) :
    ∀ (ts : List Transaction), (∀ t ∈ ts, t.date = dd) →
    ((ts.flatMap (fun t => t.postings.map (fun p => (t.date, p)))).filter
        (fun (x : Int × Posting) => decide (F < x.1) && decide (x.1 ≤ D) && decide (x.2.account = a) &&
          decide (x.2.commodity = c) && decide (x.2.quantity ≠ 0))).length =
      if F < dd ∧ dd ≤ D then ((qtysOn a c ts).filter (fun q => q ≠ 0)).length else 0
  | [], _ => by unfold qtysOn posOn; simp
  | t :: rest, h => by
    have ih := day_postings_count a c F D dd rest (fun x hx => h x (List.mem_cons_of_mem _ hx))
    have ht : t.date = dd := h t List.mem_cons_self
    rw [List.flatMap_cons, List.filter_append, List.length_append, ih]
    unfold qtysOn
    rw [posOn_cons, List.map_append, List.filter_append, List.length_append]
    rw [List.filter_map, List.length_map]
    by_cases hr : F < dd ∧ dd ≤ D
    · simp only [hr, and_self, if_true]
      congr 1
      rw [List.filter_map, List.length_map, List.filter_filter]
      congr 1
      apply List.filter_congr
      intro p _
      simp only [Function.comp, ht, hr.1, hr.2, decide_true, Bool.true_and, onPos]
      rw [Bool.and_comm]
    · simp only [hr, if_false, Nat.add_zero]
      have : t.postings.filter ((fun (x : Int × Posting) => decide (F < x.1) && decide (x.1 ≤ D) && decide (x.2.account = a) &&
          decide (x.2.commodity = c) && decide (x.2.quantity ≠ 0)) ∘ fun p => (t.date, p)) = [] := by
        rw [List.filter_eq_nil_iff]
        intro p _
        simp only [Function.comp, ht]
        have : (decide (F < dd) && decide (dd ≤ D)) = false := by
          simp only [Bool.and_eq_false_iff, decide_eq_false_iff_not]
          by_cases h1 : F < dd
          · right; exact fun h2 => hr ⟨h1, h2⟩
          · left; exact h1
        simp [this]
      rw [this]
      rfl

/-- the non-zero bookings on `(a, c)` dated in `(F, D]`, as `Spec.stepCount` counts them -/
theorem nzCount_spec (a : Account) (c : Commodity) (F D : Int) : ∀ (days : List Day),
    (∀ d ∈ days, ∀ t ∈ d.transactions, t.date = d.date) →
    ((Spec.userPostings days).filter (fun (x : Int × Posting) => decide (F < x.1) && decide (x.1 ≤ D) && decide (x.2.account = a) &&
        decide (x.2.commodity = c) && decide (x.2.quantity ≠ 0))).length =
      nzCount a c (days.filter (fun d => decide (F < d.date) && decide (d.date ≤ D)))
  | [], _ => rfl
  | d :: ds, h => by
    have ih := nzCount_spec a c F D ds (fun x hx => h x (List.mem_cons_of_mem _ hx))
    rw [userPostings_cons, List.filter_append, List.length_append, ih,
      day_postings_count a c F D d.date d.transactions (h d List.mem_cons_self), List.filter_cons]
    unfold nzCount
    by_cases hr : F < d.date ∧ d.date ≤ D
    · simp only [hr, and_self, if_true, decide_true, Bool.and_self, List.map_cons, List.sum_cons]
    · have : (decide (F < d.date) && decide (d.date ≤ D)) = false := by
        simp only [Bool.and_eq_false_iff, decide_eq_false_iff_not]
        by_cases h1 : F < d.date
        · right; exact fun h2 => hr ⟨h1, h2⟩
        · left; exact h1
      simp only [hr, if_false, this, Bool.false_eq_true, Nat.zero_add]

theorem priceDays_spec (F D : Int) (days : List Day) :
    (days.filter (fun d => decide (F < d.date) && decide (d.date ≤ D) && !d.prices.isEmpty)).length =
      priceDays (days.filter (fun d => decide (F < d.date) && decide (d.date ≤ D))) := by
  unfold priceDays
  rw [List.filter_filter]
  congr 1
  apply List.filter_congr
  intro d _
  rw [Bool.and_comm]

/-! ### the valuation commodity itself -/

/-- what `Valuate.Posting` leaves on a posting in the valuation commodity -/
def valuedV (p : Posting) : Rat := if p.quantity = 0 then p.value else p.quantity

theorem valuePosting_v (v : Commodity) (cur : Option Prices.NPrices) (p p' : Posting)
    (h : Balance.valuePosting v cur p = .ok p') :
    p'.account = p.account ∧ p'.commodity = p.commodity ∧ (p.commodity = v → p'.value = valuedV p) := by
  unfold Balance.valuePosting at h
  unfold valuedV
  by_cases hq : p.quantity = 0
  · simp only [hq, if_true] at h ⊢
    injection h with h; subst h
    exact ⟨rfl, rfl, fun _ => rfl⟩
  · simp only [hq, if_false] at h ⊢
    by_cases hv : p.commodity = v
    · simp only [hv, if_true] at h
      injection h with h; subst h
      exact ⟨rfl, hv.symm, fun _ => rfl⟩
    · simp only [hv, if_false, bind, Except.bind] at h
      cases hl : Balance.lookupPrice cur p.commodity with
      | error x => rw [hl] at h; cases h
      | ok pr =>
        rw [hl] at h; simp only at h
        injection h with h; subst h
        exact ⟨rfl, rfl, fun e => absurd e hv⟩

theorem mapM_valuePosting_v (v : Commodity) (cur : Option Prices.NPrices) (a : Account) :
    ∀ (ps ps' : List Posting), ps.mapM (Balance.valuePosting v cur) = .ok ps' →
      ((ps'.filter (onPos a v)).map (·.value)).sum = ((ps.filter (onPos a v)).map valuedV).sum
  | [], ps', h => by
    simp only [List.mapM_nil, pure, Except.pure] at h
    injection h with h; subst h
    rfl
  | p :: rest, ps', h => by
    simp only [List.mapM_cons, bind, Except.bind] at h
    cases hp : Balance.valuePosting v cur p with
    | error e => rw [hp] at h; cases h
    | ok p' =>
      rw [hp] at h; simp only at h
      cases hr : rest.mapM (Balance.valuePosting v cur) with
      | error e => rw [hr] at h; cases h
      | ok rest' =>
        rw [hr] at h; simp only [pure, Except.pure] at h
        injection h with h; subst h
        have ih := mapM_valuePosting_v v cur a rest rest' hr
        obtain ⟨h1, h2, h3⟩ := valuePosting_v v cur p p' hp
        have hon : onPos a v p' = onPos a v p := by unfold onPos; rw [h1, h2]
        rw [List.filter_cons, List.filter_cons, hon]
        by_cases ho : onPos a v p = true
        · have hpc : p.commodity = v := by
            unfold onPos at ho
            simp only [Bool.and_eq_true, decide_eq_true_eq] at ho
            exact ho.2
          simp only [ho, if_true, List.map_cons, List.sum_cons, ih, h3 hpc]
        · simp only [ho, if_false, Bool.false_eq_true, ih]

theorem mapM_valueTx_v (v : Commodity) (cur : Option Prices.NPrices) (a : Account) :
    ∀ (ts ts' : List Transaction), ts.mapM (Balance.valueTx v cur) = .ok ts' →
      valOn a v ts' = ((posOn a v ts).map valuedV).sum
  | [], ts', h => by
    simp only [List.mapM_nil, pure, Except.pure] at h
    injection h with h; subst h
    rfl
  | t :: rest, ts', h => by
    simp only [List.mapM_cons, bind, Except.bind] at h
    cases ht : Balance.valueTx v cur t with
    | error e => rw [ht] at h; cases h
    | ok t' =>
      rw [ht] at h; simp only at h
      cases hr : rest.mapM (Balance.valueTx v cur) with
      | error e => rw [hr] at h; cases h
      | ok rest' =>
        rw [hr] at h; simp only [pure, Except.pure] at h
        injection h with h; subst h
        have ih := mapM_valueTx_v v cur a rest rest' hr
        unfold valOn at ih ⊢
        rw [posOn_cons, posOn_cons, List.map_append, List.map_append, sum_append_rat, sum_append_rat, ih]
        unfold Balance.valueTx at ht
        simp only [bind, Except.bind] at ht
        cases hm : t.postings.mapM (Balance.valuePosting v cur) with
        | error e => rw [hm] at ht; cases ht
        | ok ps =>
          rw [hm] at ht; simp only at ht
          injection ht with ht; subst ht
          simp only
          rw [mapM_valuePosting_v v cur a _ _ hm]

theorem build_commodity (cr dr : Account) (c : Commodity) (q g : Rat) :
    ∀ p ∈ postingBuild cr dr c q g, p.commodity = c := by
  intro p hp
  unfold postingBuild at hp
  simp only [List.mem_cons, List.not_mem_nil, or_false] at hp
  rcases hp with rfl | rfl <;> rfl

/-- value adjustments are never booked in the valuation commodity -/
theorem adjustments_not_v (v : Commodity) (date : Int) (prev cur : Option Prices.NPrices)
    (q : AMap Position Rat) (adj : List Transaction) (h : Balance.adjustments v date prev cur q = .ok adj) :
    ∀ t ∈ adj, ∀ p ∈ t.postings, p.commodity ≠ v := by
  unfold Balance.adjustments at h
  suffices hs : ∀ (q : AMap Position Rat) (acc res : List Transaction),
      q.foldlM (Balance.adjustStep v date prev cur) acc = .ok res →
      (∀ t ∈ acc, ∀ p ∈ t.postings, p.commodity ≠ v) → ∀ t ∈ res, ∀ p ∈ t.postings, p.commodity ≠ v from
    hs q [] adj h (fun t ht => by cases ht)
  intro q
  induction q with
  | nil =>
    intro acc res h hacc
    simp only [List.foldlM_nil, pure, Except.pure] at h
    injection h with h; subst h; exact hacc
  | cons e rest ih =>
    intro acc res h hacc
    simp only [List.foldlM_cons, bind, Except.bind] at h
    cases hs : Balance.adjustStep v date prev cur acc e with
    | error x => rw [hs] at h; cases h
    | ok acc' =>
      rw [hs] at h; simp only at h
      apply ih acc' res h
      unfold Balance.adjustStep at hs
      split at hs
      · injection hs with hs; subst hs; exact hacc
      · rename_i hcond
        simp only [bind, Except.bind] at hs
        split at hs
        · cases hs
        · split at hs
          · cases hs
          · split at hs
            · injection hs with hs; subst hs; exact hacc
            · injection hs with hs; subst hs
              intro t ht
              rcases List.mem_append.mp ht with ht | ht
              · exact hacc t ht
              · simp only [List.mem_cons, List.not_mem_nil, or_false] at ht
                subst ht
                intro p hp
                simp only at hp
                rw [build_commodity _ _ _ _ _ p hp]
                intro he
                apply hcond
                simp [he]

/-- the valuation stage on one day, seen from a position in the valuation commodity: values = quantities -/
theorem valuationStage_valOn_v (cfg : BalCfg) (v : Commodity) (st st' : BalState) (d : Day) (txs : List Transaction)
    (a : Account) (hv : cfg.valuation = some v) (hu : Unvalued a v d.transactions)
    (h : Balance.valuationStage cfg st d = .ok (st', txs)) :
    valOn a v txs = (qtysOn a v d.transactions).sum := by
  unfold Balance.valuationStage at h
  rw [hv] at h
  simp only [bind, Except.bind] at h
  cases hp : Balance.pricesDay v st d with
  | error e => rw [hp] at h; cases h
  | ok stp =>
    rw [hp] at h; simp only at h
    unfold Balance.valuateDay at h
    simp only [bind, Except.bind] at h
    cases ha : Balance.adjustments v d.date stp.vPrev stp.norm stp.vQty with
    | error e => rw [ha] at h; cases h
    | ok adj =>
      rw [ha] at h; simp only at h
      cases hm : (d.transactions ++ adj).mapM (Balance.valueTx v stp.norm) with
      | error e => rw [hm] at h; cases h
      | ok txsv =>
        rw [hm] at h; simp only at h
        injection h with h; injection h with h1 h2; subst h2
        rw [mapM_valueTx_v v stp.norm a _ _ hm, posOn_append]
        have hadj : posOn a v adj = [] := by
          unfold posOn
          rw [List.filter_eq_nil_iff]
          intro p hp' ho
          obtain ⟨t, ht, hpt⟩ := List.mem_flatMap.mp hp'
          unfold onPos at ho
          simp only [Bool.and_eq_true, decide_eq_true_eq] at ho
          exact adjustments_not_v v d.date _ _ _ adj ha t ht p hpt ho.2
        rw [hadj, List.append_nil]
        unfold qtysOn
        congr 1
        apply List.map_congr_left
        intro p hp'
        obtain ⟨t, ht, hpt, e1, e2⟩ := mem_posOn hp'
        unfold valuedV
        split
        · rename_i hq0
          rw [hu t ht p hpt e1 e2 hq0, hq0]
        · rfl

/-- one day inside the window, all stages -/
theorem dayQ_valOn_v (cfg : BalCfg) (v : Commodity) (st st' : BalState) (d : Day) (txs : List Transaction)
    (a : Account) (hv : cfg.valuation = some v) (hal : a.isAL = true) (hinv : CloseInv st)
    (hspan : cfg.span.contains d.date = true) (hu : Unvalued a v d.transactions)
    (h : dayQ cfg st d = .ok (st', txs)) :
    valOn a v txs = (qtysOn a v d.transactions).sum := by
  unfold dayQ at h
  cases hd : Balance.dayTxs cfg st d with
  | error e => rw [hd] at h; cases h
  | ok r =>
    obtain ⟨st3, txs3⟩ := r
    rw [hd] at h; simp only at h
    injection h with h; injection h with h1 h2; subst h1; subst h2
    unfold Balance.dayTxs at hd
    simp only [bind, Except.bind] at hd
    cases hck : Balance.checkStage st d with
    | error e => rw [hck] at hd; cases hd
    | ok stc =>
      rw [hck] at hd; simp only at hd
      cases hvs : Balance.valuationStage cfg stc d with
      | error e => rw [hvs] at hd; cases hd
      | ok r2 =>
        obtain ⟨st1, txs1⟩ := r2
        rw [hvs] at hd; simp only at hd
        injection hd with hd
        obtain ⟨_, c3⟩ := checkStage_frame st stc d hck
        have hinv1 : CloseInv st1 := by
          unfold CloseInv
          rw [(valuationStage_frame cfg stc st1 d txs1 hvs).1, c3]
          exact hinv
        obtain ⟨_, _, k4⟩ := closeStage_position_any cfg st1 st3 d txs1 txs3 a v hal hinv1 hd
        simp only [hspan, if_true] at k4
        unfold valOn
        rw [k4]
        exact valuationStage_valOn_v cfg v stc st1 d txs1 a hv hu hvs

/-- **the valuation commodity**: over days inside the window the report inserts on `(a, V)` total the quantities
booked — exactly, no truncation is involved -/
theorem pipelineRun_valOn_v (cfg : BalCfg) (v : Commodity) (a : Account)
    (hv : cfg.valuation = some v) (hal : a.isAL = true) :
    ∀ (ds : List Day) (st st' : BalState) (txs : List Transaction), CloseInv st →
      (∀ d ∈ ds, cfg.span.contains d.date = true) → (∀ d ∈ ds, Unvalued a v d.transactions) →
      pipelineRun cfg st ds = .ok (st', txs) → valOn a v txs = qtySum a v ds
  | [], st, st', txs, _, _, _, h => by
    unfold pipelineRun at h
    injection h with h; injection h with h1 h2; subst h2
    rfl
  | d :: ds, st, st', txs, hinv, hsp, hu, h => by
    unfold pipelineRun at h
    cases hq : dayQ cfg st d with
    | error e => rw [hq] at h; cases h
    | ok r =>
      obtain ⟨sd, td⟩ := r
      rw [hq] at h; simp only at h
      cases hr : pipelineRun cfg sd ds with
      | error e => rw [hr] at h; cases h
      | ok r2 =>
        obtain ⟨s2, rest⟩ := r2
        rw [hr] at h; simp only at h
        injection h with h; injection h with h1 h2; subst h1; subst h2
        obtain ⟨_, _, a3, _⟩ := dayQ_any cfg v st sd d td a v hv hal hinv hq
        rw [valOn_append, dayQ_valOn_v cfg v st sd d td a hv hal hinv (hsp d List.mem_cons_self) (hu d List.mem_cons_self) hq,
          pipelineRun_valOn_v cfg v a hv hal ds sd s2 rest a3 (fun x hx => hsp x (List.mem_cons_of_mem _ hx))
            (fun x hx => hu x (List.mem_cons_of_mem _ hx)) hr]
        unfold qtySum
        rw [List.map_cons, List.sum_cons]

/-! ### `Partition.Align` against a period end -/

/-- a date after `D` aligns to nothing or to a date after `D` -/
theorem alignIn_gt (ps : List Period) (t D D' : Int) (ht : D < t) (h : alignIn ps t = some D') : D < D' := by
  unfold alignIn at h
  cases hf : ps.find? (fun p => !decide (p.stop < t)) with
  | none => rw [hf] at h; cases h
  | some p =>
    rw [hf] at h
    simp only [Option.map_some, Option.some.injEq] at h
    have := List.find?_some hf
    simp only [Bool.not_eq_true', decide_eq_false_iff_not] at this
    omega

/-- with increasing period ends, a date up to the period end `D` aligns to a period end up to `D` -/
theorem alignIn_le : ∀ (ps : List Period) (t D : Int), List.Pairwise (· < ·) (ps.map (·.stop)) →
    D ∈ ps.map (·.stop) → t ≤ D → ∃ D', alignIn ps t = some D' ∧ D' ≤ D
  | [], _, _, _, hD, _ => by cases hD
  | p :: rest, t, D, hp, hD, ht => by
    rw [List.map_cons, List.pairwise_cons] at hp
    rw [List.map_cons] at hD
    unfold alignIn
    rw [List.find?_cons]
    by_cases hs : p.stop < t
    · simp only [hs, decide_true, Bool.not_true]
      have hD' : D ∈ rest.map (·.stop) := by
        rcases List.mem_cons.mp hD with e | e
        · omega
        · exact e
      exact alignIn_le rest t D hp.2 hD' ht
    · simp only [hs, decide_false, Bool.not_false, Option.map_some]
      refine ⟨p.stop, rfl, ?_⟩
      rcases List.mem_cons.mp hD with e | e
      · omega
      · have := hp.1 D e; omega

end Knut.MTM
