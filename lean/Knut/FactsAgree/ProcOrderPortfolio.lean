import Knut.Generated.ProcOrder
/-! # Processor order of `knut portfolio returns` and `knut portfolio weights`: the extracted list is the one the composition modules assume

Part of the tie described in `FactsAgree/ProcOrder.lean` (extractor `harness/facts_procorder.go`, regenerated on every run of `bin/check`);
a module of its own so that a change of another command's processor list does not break the properties of this one (C20). -/
namespace Knut.FactsAgree.ProcOrder
open Knut.Generated.ProcOrder

/-- `knut portfolio returns` (`cmd/commands/portfolio/returns.go`): the six stages of `TransProcessAllReturns.returnsSys`:
ComputePrices, check, Valuate, ComputeValues, ComputeFlows (both of the ONE local `calculator := &performance.Calculator{…}`), Perf. -/
theorem returnsOrder_eq : returnsOrder =
    ["journal.ComputePrices", "check.Check", "journal.Valuate", "(*performance.Calculator).ComputeValues",
     "(*performance.Calculator).ComputeFlows", "performance.Perf"] := by decide

theorem returnsCalls_eq : returnsCalls =
    [("journal.ComputePrices", ["valuation"]), ("check.Check", []), ("journal.Valuate", ["reg", "valuation"]),
     ("(*performance.Calculator).ComputeValues", []), ("(*performance.Calculator).ComputeFlows", []),
     ("performance.Perf", ["j", "partition"])] := by decide

/-- `knut portfolio weights` (`cmd/commands/portfolio/weights.go`): the four translated stages of `TransProcessAllWeights.weightsSys`
— ComputePrices, check, Valuate, ComputeValues — followed by the (untranslated) `weights.Query{…}.Execute(j, rep)` as LAST stage. -/
theorem weightsOrder_eq : weightsOrder =
    ["journal.ComputePrices", "check.Check", "journal.Valuate", "(*performance.Calculator).ComputeValues",
     "weights.Query.Execute"] := by decide

theorem weightsCalls_eq : weightsCalls =
    [("journal.ComputePrices", ["valuation"]), ("check.Check", []), ("journal.Valuate", ["reg", "valuation"]),
     ("(*performance.Calculator).ComputeValues", []), ("weights.Query.Execute", ["j", "rep"])] := by decide

end Knut.FactsAgree.ProcOrder
