import Knut.Model.Prices
import Knut.Spec.PriceSpec
/-!
# Lemmas about the price model: map operations, the traversal loop and its invariants
-/
namespace Knut.Prices
open Knut Knut.Dec Knut.Spec

/-! ## association lists -/

theorem find_set {β : Type} (m : AMap β) (k d : Commodity) (v : β) :
    find d (set m k v) = if d = k then some v else find d m := by
  by_cases h : d = k
  · subst h; simp [find_set_self]
  · simp [h, find_set_ne m k d v h]

theorem del_eq_of_find_none {β : Type} (m : AMap β) (k : Commodity) (h : find k m = none) : del k m = m := by
  induction m with
  | nil => rfl
  | cons e rest ih =>
    obtain ⟨a, b⟩ := e
    by_cases hak : a = k
    · simp [find, hak] at h
    · simp only [find, hak, if_false] at h
      simp [del, hak, ih h]

theorem length_set_of_none {β : Type} (m : AMap β) (k : Commodity) (v : β) (h : find k m = none) :
    (set m k v).length = m.length + 1 := by
  simp [set, del_eq_of_find_none m k h]

theorem isSome_iff_mem_keys {β : Type} (m : AMap β) (k : Commodity) : (find k m).isSome ↔ k ∈ keys m := by
  constructor
  · intro h
    cases hf : find k m with
    | none => simp [hf] at h
    | some v => exact mem_keys_of_find hf
  · exact find_isSome_of_mem_keys

/-! ## edges and neighbours -/

theorem mem_neighbors_iff (ps : Prices) (c n : Commodity) : n ∈ neighbors ps c ↔ (edge ps c n).isSome := by
  unfold neighbors edge
  rw [mem_sortNames]
  cases hf : find c ps with
  | none => simp [keys]
  | some m => simp [← isSome_iff_mem_keys]

theorem price_of_edge {ps : Prices} {c n : Commodity} {p : Rat} (h : edge ps c n = some p) : price ps c n = p := by
  simp [price, h]

/-! ## one pass over the neighbours of `c` -/

theorem foldl_inv {σ α : Type} (f : σ → α → σ) (J : σ → Prop) (ns : List α) (st : σ)
    (hstep : ∀ s n, n ∈ ns → J s → J (f s n)) (h0 : J st) : J (ns.foldl f st) := by
  induction ns generalizing st with
  | nil => exact h0
  | cons n rest ih =>
    simp only [List.foldl_cons]
    exact ih (f st n) (fun s m hm hs => hstep s m (List.mem_cons_of_mem _ hm) hs)
      (hstep st n List.mem_cons_self h0)

theorem visit_mono (ps : Prices) (c n : Commodity) (st : List Commodity × NPrices) (k : Commodity) (x : Rat)
    (h : find k st.2 = some x) : find k (visit ps c st n).2 = some x := by
  unfold visit
  split
  · exact h
  · rename_i hn
    have : k ≠ n := by
      intro e; subst e; simp [h] at hn
    simp [find_set_ne _ _ _ _ this, h]

theorem visitAll_mono (ps : Prices) (c : Commodity) (ns : List Commodity) (st : List Commodity × NPrices)
    (k : Commodity) (x : Rat) (h : find k st.2 = some x) : find k (ns.foldl (visit ps c) st).2 = some x :=
  foldl_inv (visit ps c) (fun s => find k s.2 = some x) ns st (fun s n _ hs => visit_mono ps c n s k x hs) h

theorem visitAll_mono_isSome (ps : Prices) (c : Commodity) (ns : List Commodity) (st : List Commodity × NPrices)
    (k : Commodity) (h : (find k st.2).isSome) : (find k (ns.foldl (visit ps c) st).2).isSome := by
  cases hf : find k st.2 with
  | none => simp [hf] at h
  | some x => simp [visitAll_mono ps c ns st k x hf]

theorem visit_covers (ps : Prices) (c n : Commodity) (st : List Commodity × NPrices) :
    (find n (visit ps c st n).2).isSome := by
  unfold visit
  split
  · assumption
  · simp [find_set_self]

theorem visitAll_covers (ps : Prices) (c : Commodity) (ns : List Commodity) (st : List Commodity × NPrices)
    (n : Commodity) (hn : n ∈ ns) : (find n (ns.foldl (visit ps c) st).2).isSome := by
  induction ns generalizing st with
  | nil => simp at hn
  | cons m rest ih =>
    simp only [List.foldl_cons]
    rcases List.mem_cons.mp hn with rfl | h
    · exact visitAll_mono_isSome ps c rest _ n (visit_covers ps c n st)
    · exact ih _ h

/-- a neighbour that had no price gets `Multiply(ps[c][n], res[c])` -/
theorem visitAll_new (ps : Prices) (c : Commodity) (rc : Rat) (ns : List Commodity) (st : List Commodity × NPrices)
    (n : Commodity) (hn : n ∈ ns) (hnone : find n st.2 = none) (hc : find c st.2 = some rc) :
    find n (ns.foldl (visit ps c) st).2 = some (multiply (price ps c n) rc) := by
  induction ns generalizing st with
  | nil => simp at hn
  | cons m rest ih =>
    simp only [List.foldl_cons]
    by_cases hmn : m = n
    · subst hmn
      apply visitAll_mono
      unfold visit
      simp [hnone, hc, find_set_self]
    · have hn' : n ∈ rest := by
        rcases List.mem_cons.mp hn with h | h
        · exact absurd h.symm hmn
        · exact h
      apply ih _ hn'
      · unfold visit
        split
        · exact hnone
        · have : n ≠ m := fun e => hmn e.symm
          simp [find_set_ne _ _ _ _ this, hnone]
      · exact visit_mono ps c m st c rc hc

theorem visit_queue_sub (ps : Prices) (c n : Commodity) (st : List Commodity × NPrices) (k : Commodity)
    (h : k ∈ st.1) : k ∈ (visit ps c st n).1 := by
  unfold visit
  split
  · exact h
  · simp [h]

theorem visitAll_queue_sub (ps : Prices) (c : Commodity) (ns : List Commodity) (st : List Commodity × NPrices)
    (k : Commodity) (h : k ∈ st.1) : k ∈ (ns.foldl (visit ps c) st).1 :=
  foldl_inv (visit ps c) (fun s => k ∈ s.1) ns st (fun s n _ hs => visit_queue_sub ps c n s k hs) h

/-- everything in the queue has a price -/
theorem visitAll_queued (ps : Prices) (c : Commodity) (ns : List Commodity) (st : List Commodity × NPrices)
    (h : ∀ k ∈ st.1, (find k st.2).isSome) :
    ∀ k ∈ (ns.foldl (visit ps c) st).1, (find k (ns.foldl (visit ps c) st).2).isSome := by
  refine foldl_inv (visit ps c) (fun s => ∀ k ∈ s.1, (find k s.2).isSome) ns st ?_ h
  intro s n _ hs k hk
  unfold visit at hk ⊢
  split
  · rename_i hn
    simp only [hn, if_true] at hk
    exact hs k hk
  · rename_i hn
    simp only [hn] at hk
    simp only [Bool.false_eq_true, if_false, List.mem_append, List.mem_singleton] at hk
    by_cases hkn : k = n
    · subst hkn; simp [find_set_self]
    · rcases hk with hk | hk
      · rw [find_set_ne _ _ _ _ hkn]; exact hs k hk
      · exact absurd hk hkn

/-- everything that got a price during the pass was put into the queue -/
theorem visitAll_fresh_queued (ps : Prices) (c : Commodity) (ns : List Commodity) (st : List Commodity × NPrices) :
    ∀ k, (find k (ns.foldl (visit ps c) st).2).isSome → (find k st.2).isSome ∨ k ∈ (ns.foldl (visit ps c) st).1 := by
  refine foldl_inv (visit ps c) (fun s => ∀ k, (find k s.2).isSome → (find k st.2).isSome ∨ k ∈ s.1) ns st ?_ ?_
  · intro s n _ hs k hk
    unfold visit at hk ⊢
    split
    · rename_i hn
      simp only [hn, if_true] at hk
      exact hs k hk
    · rename_i hn
      simp only [hn] at hk
      simp only [Bool.false_eq_true, if_false] at hk
      by_cases hkn : k = n
      · right; simp [hkn]
      · rw [find_set_ne _ _ _ _ hkn] at hk
        rcases hs k hk with h | h
        · exact Or.inl h
        · right; simp [h]
  · intro k hk; exact Or.inl hk

/-! ## the invariant: every price in the table is derived along a simple chain from `v` -/

theorem chainFrom_append (e : Commodity → Commodity → Option Rat) (cur : Commodity) (x : Rat)
    (path : List Commodity) (n : Commodity) :
    chainFrom e cur x (path ++ [n]) =
      match chainFrom e cur x path with
      | some (c, y) => (match e c n with | some q => some (n, multiply q y) | none => none)
      | none => none := by
  induction path generalizing cur x with
  | nil =>
    simp only [List.nil_append, chainFrom]
    cases e cur n <;> rfl
  | cons m rest ih =>
    simp only [List.cons_append, chainFrom]
    cases e cur m with
    | none => rfl
    | some p => exact ih m (multiply p x)

structure Inv (ps : Prices) (v : Commodity) (res : NPrices) : Prop where
  self : find v res = some 1
  chain : ∀ c x, find c res = some x →
    ∃ path, chainFrom (edge ps) v 1 path = some (c, x) ∧ (v :: path).Nodup ∧
      path.length + 1 ≤ res.length ∧ ∀ d ∈ path, (find d res).isSome

theorem inv_set (ps : Prices) (v c n : Commodity) (rc p : Rat) (res : NPrices)
    (hI : Inv ps v res) (hc : find c res = some rc) (he : edge ps c n = some p) (hnone : find n res = none) :
    Inv ps v (set res n (multiply p rc)) := by
  have hlen := length_set_of_none res n (multiply p rc) hnone
  have hvn : v ≠ n := by
    intro e; subst e; rw [hI.self] at hnone; cases hnone
  constructor
  · rw [find_set_ne _ _ _ _ hvn]; exact hI.self
  · intro c' x hx
    rw [hlen]
    by_cases hcn : c' = n
    · subst hcn
      simp only [find_set_self, Option.some.injEq] at hx
      obtain ⟨pc, h1, h2, h3, h4⟩ := hI.chain c rc hc
      refine ⟨pc ++ [c'], ?_, ?_, ?_, ?_⟩
      · rw [chainFrom_append, h1]; simp [he, hx]
      · have hnotin : c' ∉ pc := by
          intro hm
          have := h4 c' hm
          simp [hnone] at this
        have : (v :: (pc ++ [c'])) = (v :: pc) ++ [c'] := rfl
        rw [this, List.nodup_append]
        refine ⟨h2, by simp, ?_⟩
        intro a ha b hb
        simp only [List.mem_singleton] at hb
        subst hb
        rcases List.mem_cons.mp ha with rfl | ha'
        · exact hvn
        · intro e; subst e; exact hnotin ha'
      · simp only [List.length_append, List.length_cons, List.length_nil]; omega
      · intro d hd
        rcases List.mem_append.mp hd with hd1 | hd2
        · have hdn : d ≠ c' := by
            intro e
            have := h4 d hd1
            rw [e, hnone] at this
            simp at this
          rw [find_set_ne _ _ _ _ hdn]; exact h4 d hd1
        · simp only [List.mem_singleton] at hd2
          subst hd2; simp [find_set_self]
    · rw [find_set_ne _ _ _ _ hcn] at hx
      obtain ⟨path, h1, h2, h3, h4⟩ := hI.chain c' x hx
      refine ⟨path, h1, h2, by omega, ?_⟩
      intro d hd
      have hdn : d ≠ n := by
        intro e; subst e
        have := h4 d hd
        simp [hnone] at this
      rw [find_set_ne _ _ _ _ hdn]; exact h4 d hd

theorem visit_inv (ps : Prices) (v c n : Commodity) (rc p : Rat) (st : List Commodity × NPrices)
    (hI : Inv ps v st.2) (hc : find c st.2 = some rc) (he : edge ps c n = some p) :
    Inv ps v (visit ps c st n).2 := by
  unfold visit
  split
  · exact hI
  · rename_i hn
    have hnone : find n st.2 = none := by
      cases hf : find n st.2 with
      | none => rfl
      | some y => simp [hf] at hn
    simpa [price_of_edge he, hc] using inv_set ps v c n rc p st.2 hI hc he hnone

theorem visitAll_inv (ps : Prices) (v c : Commodity) (rc : Rat) (ns : List Commodity) (st : List Commodity × NPrices)
    (hns : ∀ n ∈ ns, (edge ps c n).isSome) (hI : Inv ps v st.2) (hc : find c st.2 = some rc) :
    Inv ps v (ns.foldl (visit ps c) st).2 := by
  have := foldl_inv (visit ps c) (fun s => Inv ps v s.2 ∧ find c s.2 = some rc) ns st ?_ ⟨hI, hc⟩
  · exact this.1
  · intro s n hn hs
    cases he : edge ps c n with
    | none => have := hns n hn; simp [he] at this
    | some p => exact ⟨visit_inv ps v c n rc p s hs.1 hs.2 he, visit_mono ps c n s c rc hs.2⟩

/-! ## the loop -/

theorem normLoop_nil (ps : Prices) (res : NPrices) : normLoop ps [] res = res := by
  rw [normLoop]

theorem normLoop_cons (ps : Prices) (c : Commodity) (rest : List Commodity) (res : NPrices) :
    normLoop ps (c :: rest) res =
      normLoop ps ((neighbors ps c).foldl (visit ps c) (rest, res)).1
        ((neighbors ps c).foldl (visit ps c) (rest, res)).2 := by
  rw [normLoop]

/-- loop-invariant rule for `normLoop` -/
theorem normLoop_induction (ps : Prices) (I : List Commodity → NPrices → Prop)
    (step : ∀ c rest res, I (c :: rest) res →
      I ((neighbors ps c).foldl (visit ps c) (rest, res)).1 ((neighbors ps c).foldl (visit ps c) (rest, res)).2)
    (queue : List Commodity) (res : NPrices) (h : I queue res) : I [] (normLoop ps queue res) := by
  fun_induction normLoop ps queue res with
  | case1 res => exact h
  | case2 res c rest ih => exact ih (step c rest res h)

theorem normLoop_mono (ps : Prices) (queue : List Commodity) (res : NPrices) (k : Commodity) (x : Rat)
    (h : find k res = some x) : find k (normLoop ps queue res) = some x :=
  normLoop_induction ps (fun _ r => find k r = some x)
    (fun c rest r hr => visitAll_mono ps c _ (rest, r) k x hr) queue res h

structure LoopInv (ps : Prices) (v : Commodity) (queue : List Commodity) (res : NPrices) : Prop where
  inv : Inv ps v res
  queued : ∀ c ∈ queue, (find c res).isSome
  closed : ∀ k, (find k res).isSome → k ∈ queue ∨ ∀ n, (edge ps k n).isSome → (find n res).isSome

theorem loopInv_step (ps : Prices) (v c : Commodity) (rest : List Commodity) (res : NPrices)
    (h : LoopInv ps v (c :: rest) res) :
    LoopInv ps v ((neighbors ps c).foldl (visit ps c) (rest, res)).1
      ((neighbors ps c).foldl (visit ps c) (rest, res)).2 := by
  have hcq := h.queued c List.mem_cons_self
  cases hc : find c res with
  | none => simp [hc] at hcq
  | some rc =>
    constructor
    · exact visitAll_inv ps v c rc _ (rest, res) (fun n hn => (mem_neighbors_iff ps c n).mp hn) h.inv hc
    · exact visitAll_queued ps c _ (rest, res) (fun k hk => h.queued k (List.mem_cons_of_mem _ hk))
    · intro k hk
      rcases visitAll_fresh_queued ps c (neighbors ps c) (rest, res) k hk with hold | hq
      · rcases h.closed k hold with hmem | hcl
        · rcases List.mem_cons.mp hmem with rfl | hr
          · right
            intro n hn
            exact visitAll_covers ps k _ _ n ((mem_neighbors_iff ps k n).mpr hn)
          · left; exact visitAll_queue_sub ps c _ (rest, res) k hr
        · right
          intro n hn
          exact visitAll_mono_isSome ps c _ (rest, res) n (hcl n hn)
      · exact Or.inl hq

theorem loopInv_init (ps : Prices) (v : Commodity) : LoopInv ps v [v] [(v, 1)] := by
  constructor
  · constructor
    · simp [find]
    · intro c x hx
      by_cases hcv : v = c
      · simp only [find, hcv, if_true, Option.some.injEq] at hx
        subst hcv; subst hx
        exact ⟨[], rfl, by simp, by simp, by simp⟩
      · simp [find, hcv] at hx
  · intro c hc
    simp only [List.mem_singleton] at hc
    subst hc; simp [find]
  · intro k hk
    by_cases hkv : v = k
    · left; simp [hkv]
    · simp [find, hkv] at hk

theorem normalize_loopInv (ps : Prices) (v : Commodity) : LoopInv ps v [] (normalize ps v) :=
  normLoop_induction ps (LoopInv ps v) (loopInv_step ps v) [v] [(v, 1)] (loopInv_init ps v)

/-! ## consequences for `Normalize` -/

theorem normalize_self (ps : Prices) (v : Commodity) : find v (normalize ps v) = some 1 :=
  (normalize_loopInv ps v).inv.self

/-- a stored price of `c` in `v` is used as it is (times the price 1 of `v`) -/
theorem normalize_direct (ps : Prices) (v c : Commodity) (p : Rat) (hcv : c ≠ v) (he : edge ps v c = some p) :
    find c (normalize ps v) = some (multiply p 1) := by
  unfold normalize
  rw [normLoop_cons]
  apply normLoop_mono
  have hn : c ∈ neighbors ps v := (mem_neighbors_iff ps v c).mpr (by simp [he])
  have := visitAll_new ps v 1 (neighbors ps v) ([], [(v, 1)]) c hn
    (by have : v ≠ c := fun e => hcv e.symm
        simp [find, this])
    (by simp [find])
  rw [price_of_edge he] at this
  exact this

theorem chainFrom_connected (e : Commodity → Commodity → Option Rat) (v cur : Commodity) (x : Rat)
    (path : List Commodity) (c : Commodity) (y : Rat) (h : chainFrom e cur x path = some (c, y))
    (hcur : Connected e v cur) : Connected e v c := by
  induction path generalizing cur x with
  | nil =>
    simp only [chainFrom, Option.some.injEq, Prod.mk.injEq] at h
    rw [← h.1]; exact hcur
  | cons n rest ih =>
    simp only [chainFrom] at h
    cases he : e cur n with
    | none => simp [he] at h
    | some p =>
      simp only [he] at h
      exact ih n (multiply p x) h (Connected.step hcur (by simp [he]))

theorem normalize_chain (ps : Prices) (v c : Commodity) (x : Rat) (h : find c (normalize ps v) = some x) :
    ∃ path, chainFrom (edge ps) v 1 path = some (c, x) ∧ (v :: path).Nodup ∧
      path.length + 1 ≤ (normalize ps v).length :=
  let ⟨path, h1, h2, h3, _⟩ := (normalize_loopInv ps v).inv.chain c x h
  ⟨path, h1, h2, h3⟩

/-- a commodity has a price exactly if it is connected to `v` through stored prices -/
theorem normalize_isSome_iff (ps : Prices) (v c : Commodity) :
    (find c (normalize ps v)).isSome ↔ Connected (edge ps) v c := by
  constructor
  · intro h
    cases hf : find c (normalize ps v) with
    | none => simp [hf] at h
    | some x =>
      obtain ⟨path, h1, _⟩ := normalize_chain ps v c x hf
      exact chainFrom_connected (edge ps) v v 1 path c x h1 Connected.refl
  · intro h
    induction h with
    | refl => simp [normalize_self]
    | step _ hab ih =>
      rcases (normalize_loopInv ps v).closed _ ih with hq | hcl
      · simp at hq
      · exact hcl _ hab

/-! ## the result depends on the price map only through lookups and sorted keys -/

theorem visit_congr (ps ps' : Prices) (hp : ∀ c n, price ps c n = price ps' c n) (c : Commodity) :
    visit ps c = visit ps' c := by
  funext st n
  simp [visit, hp]

theorem normLoop_congr (ps ps' : Prices) (hn : ∀ c, neighbors ps c = neighbors ps' c)
    (hp : ∀ c n, price ps c n = price ps' c n) (queue : List Commodity) (res : NPrices) :
    normLoop ps queue res = normLoop ps' queue res := by
  fun_induction normLoop ps queue res with
  | case1 res => rw [normLoop_nil]
  | case2 res c rest ih =>
    rw [normLoop_cons ps', ← hn c, ← visit_congr ps ps' hp c]
    exact ih

end Knut.Prices
