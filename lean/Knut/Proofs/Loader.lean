import Knut.Model.Loader
/-! Helper lemmas for C14: the loader's call tree, its depth, errors and cycles. -/
namespace Knut.Loader

variable {E F : Type}

/-! ### unfolding -/

theorem loadRec_cycle (fs : FileSys) (parse : Path → Bytes → Parsed E F) (file : Path) (anc : List Path)
    (h : inChain anc file = true) : loadRec fs parse file anc = .error (.cycle file) := by
  rw [loadRec]; simp [h]

theorem loadRec_unreadable (fs : FileSys) (parse : Path → Bytes → Parsed E F) (file : Path) (anc : List Path)
    (h : inChain anc file = false) (hr : fs.read file = none) : loadRec fs parse file anc = .error (.unreadable file) := by
  rw [loadRec]; simp only [h, Bool.false_eq_true, dite_false]; split
  · rfl
  · next text ht => rw [hr] at ht; cases ht

/-- the body of `parseRec` once the file has been read -/
def body (fs : FileSys) (parse : Path → Bytes → Parsed E F) (file : Path) (anc : List Path) (text : Bytes) :
    Except (LoadErr E) (List (Path × F)) :=
  match (parse file text).result with
  | .error e => .error (.parse file e)
  | .ok f =>
    match collect ((parse file text).includes.map (fun inc => loadRec fs parse (resolve file inc) (anc ++ [file]))) with
    | .error e => .error e
    | .ok fs' => .ok ((file, f) :: fs')

theorem loadRec_read (fs : FileSys) (parse : Path → Bytes → Parsed E F) (file : Path) (anc : List Path) (text : Bytes)
    (h : inChain anc file = false) (hr : fs.read file = some text) :
    loadRec fs parse file anc = body fs parse file anc text := by
  rw [loadRec]; simp only [h, Bool.false_eq_true, dite_false]; split
  · next hn => rw [hr] at hn; cases hn
  · next t ht =>
    rw [hr] at ht; cases ht
    rfl

/-! ### collect -/

theorem collect_ok_iff {ε α : Type} : ∀ (l : List (Except ε (List α))),
    (∃ xs, collect l = .ok xs) ↔ ∀ r ∈ l, ∃ x, r = .ok x
  | [] => by simp [collect]
  | .error e :: rest => by
    simp only [collect, List.mem_cons, forall_eq_or_imp]
    constructor
    · rintro ⟨_, h⟩; cases h
    · rintro ⟨⟨_, h⟩, _⟩; cases h
  | .ok xs :: rest => by
    have ih := collect_ok_iff rest
    simp only [collect, List.mem_cons, forall_eq_or_imp]
    constructor
    · rintro ⟨ys, h⟩
      refine ⟨⟨xs, rfl⟩, ih.mp ?_⟩
      cases hc : collect rest with
      | error e => rw [hc] at h; cases h
      | ok zs => exact ⟨zs, rfl⟩
    · rintro ⟨_, h⟩
      obtain ⟨zs, hz⟩ := ih.mpr h
      exact ⟨xs ++ zs, by rw [hz]⟩

theorem collect_error {ε α : Type} : ∀ (l : List (Except ε (List α))) (e : ε), collect l = .error e → .error e ∈ l
  | [], e, h => by simp [collect] at h
  | .error e' :: rest, e, h => by
    simp only [collect] at h; cases h; exact List.mem_cons_self
  | .ok xs :: rest, e, h => by
    simp only [collect] at h
    cases hc : collect rest with
    | error e' => rw [hc] at h; cases h; exact List.mem_cons_of_mem _ (collect_error rest e hc)
    | ok zs => rw [hc] at h; cases h

theorem collect_ok_or_error {ε α : Type} (l : List (Except ε (List α))) :
    (∃ xs, collect l = .ok xs) ∨ (∃ e, collect l = .error e) := by
  cases collect l with
  | ok xs => exact Or.inl ⟨xs, rfl⟩
  | error e => exact Or.inr ⟨e, rfl⟩

/-! ### the call tree -/

/-- the call `parseRec(file, anc)` returns an error itself: cycle, unreadable file, or rejected by the parser -/
def Fails (fs : FileSys) (parse : Path → Bytes → Parsed E F) (file : Path) (anc : List Path) : Prop :=
  inChain anc file = true ∨ fs.read file = none ∨ ∃ text e, fs.read file = some text ∧ (parse file text).result = .error e

/-- `Calls file anc file' anc'`: the call `parseRec(file, anc)` is, or (transitively) starts, the call
`parseRec(file', anc')`. A call starts one call per include path its parser delivers, whether or not the parse
succeeds in the end. -/
inductive Calls (fs : FileSys) (parse : Path → Bytes → Parsed E F) : Path → List Path → Path → List Path → Prop
  | refl (file : Path) (anc : List Path) : Calls fs parse file anc file anc
  | step {file : Path} {anc : List Path} {text : Bytes} {inc : String} {file' : Path} {anc' : List Path} :
      inChain anc file = false → fs.read file = some text → inc ∈ (parse file text).includes →
      Calls fs parse (resolve file inc) (anc ++ [file]) file' anc' → Calls fs parse file anc file' anc'

theorem Calls.trans {fs : FileSys} {parse : Path → Bytes → Parsed E F} {f1 f2 f3 : Path} {a1 a2 a3 : List Path}
    (h1 : Calls fs parse f1 a1 f2 a2) (h2 : Calls fs parse f2 a2 f3 a3) : Calls fs parse f1 a1 f3 a3 := by
  induction h1 with
  | refl => exact h2
  | step hc hr hi _ ih => exact .step hc hr hi (ih h2)

/-- a load succeeds exactly if no call of its call tree fails -/
theorem loadRec_ok_iff (fs : FileSys) (parse : Path → Bytes → Parsed E F) (file : Path) (anc : List Path) :
    (∃ files, loadRec fs parse file anc = .ok files) ↔
      ∀ file' anc', Calls fs parse file anc file' anc' → ¬ Fails fs parse file' anc' := by
  induction file, anc using loadRec.induct fs parse with
  | case1 file anc hc =>
    rw [loadRec_cycle _ _ _ _ hc]
    constructor
    · rintro ⟨_, h⟩; cases h
    · intro h; exact absurd (Or.inl hc) (h _ _ (.refl _ _))
  | case2 file anc hc hr =>
    have hc' : inChain anc file = false := by simpa using hc
    rw [loadRec_unreadable _ _ _ _ hc' hr]
    constructor
    · rintro ⟨_, h⟩; cases h
    · intro h; exact absurd (Or.inr (Or.inl hr)) (h _ _ (.refl _ _))
  | case3 file anc hc text hr p e he ih =>
    have hc' : inChain anc file = false := by simpa using hc
    rw [loadRec_read _ _ _ _ _ hc' hr]
    simp only [body]
    have he' : (parse file text).result = .error e := he
    rw [he']
    constructor
    · rintro ⟨_, h⟩; cases h
    · intro h; exact absurd (Or.inr (Or.inr ⟨text, e, hr, he'⟩)) (h _ _ (.refl _ _))
  | case4 file anc hc text hr p kids f hf e hcol ih =>
    have hc' : inChain anc file = false := by simpa using hc
    rw [loadRec_read _ _ _ _ _ hc' hr]
    simp only [body]
    have hf' : (parse file text).result = .ok f := hf
    have hcol' : collect ((parse file text).includes.map (fun inc => loadRec fs parse (resolve file inc) (anc ++ [file]))) = .error e := hcol
    rw [hf', hcol']
    constructor
    · rintro ⟨_, h⟩; cases h
    · intro h
      exfalso
      have hm := collect_error _ _ hcol'
      obtain ⟨inc, hinc, hk⟩ := List.mem_map.mp hm
      have : ∃ files, loadRec fs parse (resolve file inc) (anc ++ [file]) = .ok files :=
        (ih inc).mpr (fun f' a' hcl => h f' a' (.step hc' hr hinc hcl))
      obtain ⟨_, hh⟩ := this
      rw [hh] at hk; cases hk
  | case5 file anc hc text hr p kids f hf fs' hcol ih =>
    have hc' : inChain anc file = false := by simpa using hc
    rw [loadRec_read _ _ _ _ _ hc' hr]
    simp only [body]
    have hf' : (parse file text).result = .ok f := hf
    have hcol' : collect ((parse file text).includes.map (fun inc => loadRec fs parse (resolve file inc) (anc ++ [file]))) = .ok fs' := hcol
    rw [hf', hcol']
    constructor
    · intro _ f' a' hcl
      cases hcl with
      | refl =>
        rintro (h | h | ⟨t, e, h1, h2⟩)
        · rw [hc'] at h; cases h
        · rw [hr] at h; cases h
        · rw [hr] at h1; cases h1; rw [hf'] at h2; cases h2
      | step hc2 hr2 hi hcl' =>
        rw [hr] at hr2; cases hr2
        have hall := (collect_ok_iff _).mp ⟨fs', hcol'⟩
        have := hall _ (List.mem_map.mpr ⟨_, hi, rfl⟩)
        exact (ih _).mp this _ _ hcl'
    · intro _; exact ⟨_, rfl⟩

theorem loadRec_ok_or_error (fs : FileSys) (parse : Path → Bytes → Parsed E F) (file : Path) (anc : List Path) :
    (∃ files, loadRec fs parse file anc = .ok files) ∨ (∃ e, loadRec fs parse file anc = .error e) := by
  cases loadRec fs parse file anc with
  | ok xs => exact Or.inl ⟨xs, rfl⟩
  | error e => exact Or.inr ⟨e, rfl⟩

theorem loadRec_error_iff (fs : FileSys) (parse : Path → Bytes → Parsed E F) (file : Path) (anc : List Path) :
    (∃ e, loadRec fs parse file anc = .error e) ↔
      ∃ file' anc', Calls fs parse file anc file' anc' ∧ Fails fs parse file' anc' := by
  have h := loadRec_ok_iff fs parse file anc
  constructor
  · rintro ⟨e, he⟩
    apply Classical.byContradiction
    intro hn
    have : ∃ files, loadRec fs parse file anc = .ok files :=
      h.mpr (fun f' a' hc hf => hn ⟨f', a', hc, hf⟩)
    obtain ⟨_, hh⟩ := this
    rw [hh] at he; cases he
  · rintro ⟨f', a', hc, hf⟩
    rcases loadRec_ok_or_error fs parse file anc with hok | herr
    · exact absurd hf (h.mp hok f' a' hc)
    · exact herr


/-! ### depth -/

theorem mapM_some_of_forall {α β : Type} (f : α → Option β) (g : α → β) :
    ∀ (l : List α), (∀ x ∈ l, f x = some (g x)) → l.mapM f = some (l.map g)
  | [], _ => rfl
  | x :: xs, h => by
    have h1 := h x List.mem_cons_self
    have h2 := mapM_some_of_forall f g xs (fun y hy => h y (List.mem_cons_of_mem _ hy))
    simp [List.mapM_cons, h1, h2]

theorem remaining_le_length (fs : FileSys) (anc : List Path) : remaining fs anc ≤ fs.paths.length := by
  unfold remaining; exact List.length_filter_le _ _

/-- a depth budget above the number of readable paths not yet in the chain is never exhausted, and the budgeted
recursion computes `loadRec` -/
theorem loadFuel_eq (fs : FileSys) (parse : Path → Bytes → Parsed E F) :
    ∀ (n : Nat) (file : Path) (anc : List Path), remaining fs anc < n →
      loadFuel fs parse n file anc = some (loadRec fs parse file anc)
  | 0, _, _, h => by omega
  | n + 1, file, anc, h => by
    unfold loadFuel
    cases hc : inChain anc file with
    | true => simp [loadRec_cycle _ _ _ _ hc]
    | false =>
      cases hr : fs.read file with
      | none => simp [loadRec_unreadable _ _ _ _ hc hr]
      | some text =>
        have hlt := remaining_lt fs anc file hc (by simp [hr])
        have hk := mapM_some_of_forall
          (fun inc => loadFuel fs parse n (resolve file inc) (anc ++ [file]))
          (fun inc => loadRec fs parse (resolve file inc) (anc ++ [file])) (parse file text).includes
          (fun inc _ => loadFuel_eq fs parse n _ _ (by omega))
        simp only [Bool.false_eq_true, if_false, hk, loadRec_read _ _ _ _ _ hc hr, body]
        cases (parse file text).result with
        | error e => rfl
        | ok f =>
          simp only
          cases collect ((parse file text).includes.map (fun inc => loadRec fs parse (resolve file inc) (anc ++ [file]))) <;> rfl

/-! ### include walks -/

/-- `b` is named by an include directive the parser delivers for the readable file `a` -/
def Includes (fs : FileSys) (parse : Path → Bytes → Parsed E F) (a b : Path) : Prop :=
  ∃ text inc, fs.read a = some text ∧ inc ∈ (parse a text).includes ∧ b = resolve a inc

/-- `Walk a vs c`: following include directives from `a` one reaches `c`; `vs` are the files passed on the way,
in order, starting with `a` and without `c` (empty for `a = c`, no step) -/
inductive Walk (fs : FileSys) (parse : Path → Bytes → Parsed E F) : Path → List Path → Path → Prop
  | nil (a : Path) : Walk fs parse a [] a
  | cons {a b c : Path} {vs : List Path} : Includes fs parse a b → Walk fs parse b vs c → Walk fs parse a (a :: vs) c

/-- if no call fails, the loader follows every walk, carrying the files passed as the chain -/
theorem calls_of_walk {fs : FileSys} {parse : Path → Bytes → Parsed E F} {a c : Path} {vs : List Path}
    (w : Walk fs parse a vs c) : ∀ (anc : List Path),
    (∀ f' a', Calls fs parse a anc f' a' → ¬ Fails fs parse f' a') → Calls fs parse a anc c (anc ++ vs) := by
  induction w with
  | nil a => intro anc _; simpa using Calls.refl a anc
  | @cons a0 b0 c0 vs0 hinc _ ih =>
    intro anc hno
    obtain ⟨text, inc, hr, hi, rfl⟩ := hinc
    have hnf := hno _ _ (.refl _ _)
    have hc : inChain anc a0 = false := by
      cases h : inChain anc a0 with
      | false => rfl
      | true => exact absurd (Or.inl h) hnf
    have hstep : ∀ f' a', Calls fs parse (resolve a0 inc) (anc ++ [a0]) f' a' → ¬ Fails fs parse f' a' :=
      fun f' a' hcl => hno f' a' (.step hc hr hi hcl)
    have := ih (anc ++ [a0]) hstep
    refine .step hc hr hi ?_
    simpa using this

/-- a walk from the root to a call that fails makes the load fail -/
theorem load_error_of_walk {fs : FileSys} {parse : Path → Bytes → Parsed E F} {root c : Path} {vs : List Path}
    (w : Walk fs parse root vs c) (hf : Fails fs parse c vs) : ∃ e, load fs parse root = .error e := by
  unfold load
  rcases loadRec_ok_or_error fs parse root [] with hok | herr
  · have hno := (loadRec_ok_iff fs parse root []).mp hok
    have hc := calls_of_walk w [] hno
    simp only [List.nil_append] at hc
    exact absurd hf (hno _ _ hc)
  · exact herr


/-- every call of the call tree is the end of an include walk whose files are the chain -/
theorem walk_of_calls {fs : FileSys} {parse : Path → Bytes → Parsed E F} {a c : Path} {anc anc' : List Path}
    (h : Calls fs parse a anc c anc') : ∃ vs, anc' = anc ++ vs ∧ Walk fs parse a vs c := by
  induction h with
  | refl file anc => exact ⟨[], by simp, .nil _⟩
  | @step file anc text inc file' anc' _ hr hi _ ih =>
    obtain ⟨vs, h1, h2⟩ := ih
    exact ⟨file :: vs, by simp [h1], .cons ⟨text, inc, hr, hi, rfl⟩ h2⟩

/-- the load succeeds exactly if no include walk from the root ends in a failing call -/
theorem load_ok_iff (fs : FileSys) (parse : Path → Bytes → Parsed E F) (root : Path) :
    (∃ files, load fs parse root = .ok files) ↔ ∀ vs c, Walk fs parse root vs c → ¬ Fails fs parse c vs := by
  constructor
  · rintro ⟨files, hok⟩ vs c w hf
    obtain ⟨e, he⟩ := load_error_of_walk w hf
    rw [hok] at he; cases he
  · intro h
    apply (loadRec_ok_iff fs parse root []).mpr
    intro f' a' hc
    obtain ⟨vs, h1, h2⟩ := walk_of_calls hc
    simp only [List.nil_append] at h1
    subst h1
    exact h _ _ h2


/-! ### what a successful load returns -/

theorem collect_mem {ε α : Type} : ∀ (l : List (Except ε (List α))) (xs : List α), collect l = .ok xs →
    ∀ x ∈ xs, ∃ ys, .ok ys ∈ l ∧ x ∈ ys
  | [], xs, h, x, hx => by simp [collect] at h; subst h; cases hx
  | .error e :: rest, xs, h, x, hx => by simp [collect] at h
  | .ok ys :: rest, xs, h, x, hx => by
    simp only [collect] at h
    cases hc : collect rest with
    | error e => rw [hc] at h; cases h
    | ok zs =>
      rw [hc] at h
      cases h
      rcases List.mem_append.mp hx with h1 | h2
      · exact ⟨ys, List.mem_cons_self, h1⟩
      · obtain ⟨ws, hw, hxw⟩ := collect_mem rest zs hc x h2
        exact ⟨ws, List.mem_cons_of_mem _ hw, hxw⟩

/-- every file of a successful load was read and accepted by the parser -/
theorem loadRec_mem (fs : FileSys) (parse : Path → Bytes → Parsed E F) (file : Path) (anc : List Path) :
    ∀ files, loadRec fs parse file anc = .ok files →
      ∀ pf ∈ files, ∃ text, fs.read pf.1 = some text ∧ (parse pf.1 text).result = .ok pf.2 := by
  induction file, anc using loadRec.induct fs parse with
  | case1 file anc hc => intro files h; rw [loadRec_cycle _ _ _ _ hc] at h; cases h
  | case2 file anc hc hr =>
    intro files h; rw [loadRec_unreadable _ _ _ _ (by simpa using hc) hr] at h; cases h
  | case3 file anc hc text hr p e he ih =>
    intro files h
    rw [loadRec_read _ _ _ _ _ (by simpa using hc) hr] at h
    have he' : (parse file text).result = .error e := he
    simp only [body, he'] at h; cases h
  | case4 file anc hc text hr p kids f hf e hcol ih =>
    intro files h
    rw [loadRec_read _ _ _ _ _ (by simpa using hc) hr] at h
    have hf' : (parse file text).result = .ok f := hf
    have hcol' : collect ((parse file text).includes.map (fun inc => loadRec fs parse (resolve file inc) (anc ++ [file]))) = .error e := hcol
    simp only [body, hf', hcol'] at h; cases h
  | case5 file anc hc text hr p kids f hf fs' hcol ih =>
    intro files h pf hpf
    rw [loadRec_read _ _ _ _ _ (by simpa using hc) hr] at h
    have hf' : (parse file text).result = .ok f := hf
    have hcol' : collect ((parse file text).includes.map (fun inc => loadRec fs parse (resolve file inc) (anc ++ [file]))) = .ok fs' := hcol
    simp only [body, hf', hcol'] at h
    cases h
    rcases List.mem_cons.mp hpf with rfl | hin
    · exact ⟨text, hr, hf'⟩
    · obtain ⟨ys, hys, hx⟩ := collect_mem _ _ hcol' pf hin
      obtain ⟨inc, _, hk⟩ := List.mem_map.mp hys
      exact ih inc ys hk pf hx

end Knut.Loader
