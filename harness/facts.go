package main

import (
	"flag"
	"fmt"
	"go/ast"
	"go/parser"
	"go/token"
	"os"
	"path/filepath"
	"sort"
	"strconv"
	"strings"
)

// extractFacts regenerates lean/Knut/Generated/Facts.lean from the Go sources of /repo
// (and the pinned shopspring/decimal in the module cache). Every fact is a plain Lean
// definition; Knut/FactsAgree/*.lean proves them equal to what the model assumes.

type factFile struct {
	fset *token.FileSet
	file *ast.File
}

func parseGo(path string) (*factFile, error) {
	fset := token.NewFileSet()
	f, err := parser.ParseFile(fset, path, nil, parser.ParseComments)
	if err != nil {
		return nil, err
	}
	return &factFile{fset, f}, nil
}

func (ff *factFile) funcDecl(name string) *ast.FuncDecl {
	for _, d := range ff.file.Decls {
		if fd, ok := d.(*ast.FuncDecl); ok && fd.Name.Name == name {
			return fd
		}
	}
	return nil
}

// callsIn returns all calls `x.sel(...)` (or `sel(...)`) inside node.
func callsIn(node ast.Node, sel string) []*ast.CallExpr {
	var res []*ast.CallExpr
	if node == nil {
		return nil
	}
	ast.Inspect(node, func(n ast.Node) bool {
		c, ok := n.(*ast.CallExpr)
		if !ok {
			return true
		}
		switch f := c.Fun.(type) {
		case *ast.SelectorExpr:
			if f.Sel.Name == sel {
				res = append(res, c)
			}
		case *ast.Ident:
			if f.Name == sel {
				res = append(res, c)
			}
		}
		return true
	})
	return res
}

func intLit(e ast.Expr) (int, bool) {
	if b, ok := e.(*ast.BasicLit); ok && b.Kind == token.INT {
		n, err := strconv.Atoi(b.Value)
		return n, err == nil
	}
	return 0, false
}

func strLits(e ast.Node) []string {
	var res []string
	ast.Inspect(e, func(n ast.Node) bool {
		if b, ok := n.(*ast.BasicLit); ok && b.Kind == token.STRING {
			s, err := strconv.Unquote(b.Value)
			if err == nil {
				res = append(res, s)
			}
		}
		return true
	})
	return res
}

func leanStr(s string) string {
	var b strings.Builder
	b.WriteByte('"')
	for _, r := range s {
		switch r {
		case '"':
			b.WriteString("\\\"")
		case '\\':
			b.WriteString("\\\\")
		case '\n':
			b.WriteString("\\n")
		case '\t':
			b.WriteString("\\t")
		default:
			b.WriteRune(r)
		}
	}
	b.WriteByte('"')
	return b.String()
}

func leanStrList(ss []string) string {
	parts := make([]string, len(ss))
	for i, s := range ss {
		parts[i] = leanStr(s)
	}
	return "[" + strings.Join(parts, ", ") + "]"
}

type factOut struct {
	lines []string
	errs  []string
}

func (o *factOut) def(name, typ, val string) {
	o.lines = append(o.lines, fmt.Sprintf("def %s : %s := %s", name, typ, val))
}
func (o *factOut) missing(name, why string) {
	// a missing fact is emitted with an impossible value so that FactsAgree fails
	o.errs = append(o.errs, name+": "+why)
	o.lines = append(o.lines, fmt.Sprintf("-- MISSING %s: %s", name, why))
}

func extractFacts(args []string) {
	fs := flag.NewFlagSet("extract", flag.ExitOnError)
	repo := fs.String("repo", "/repo", "repository root")
	out := fs.String("o", "", "output file")
	fs.Parse(args)
	o := &factOut{}

	// ---- price: Truncate(n) in Multiply and Insert
	if ff, err := parseGo(filepath.Join(*repo, "lib/model/price/prices.go")); err != nil {
		o.missing("price", err.Error())
	} else {
		for _, fn := range []string{"Multiply", "Insert"} {
			cs := callsIn(ff.funcDecl(fn), "Truncate")
			if len(cs) == 1 && len(cs[0].Args) == 1 {
				if n, ok := intLit(cs[0].Args[0]); ok {
					o.def("price"+fn+"Truncate", "Nat", strconv.Itoa(n))
					continue
				}
			}
			o.missing("price"+fn+"Truncate", "expected exactly one Truncate(<int>) call")
		}
		// normalize must not range over a map directly (order independence is then by construction)
		norm := ff.funcDecl("normalize")
		rangesOverSorted := false
		if norm != nil {
			ast.Inspect(norm, func(n ast.Node) bool {
				if r, ok := n.(*ast.RangeStmt); ok {
					if c, ok := r.X.(*ast.CallExpr); ok {
						if s, ok := c.Fun.(*ast.SelectorExpr); ok && s.Sel.Name == "SortedKeys" {
							rangesOverSorted = true
						}
					}
				}
				return true
			})
		}
		o.def("priceNormalizeSortedNeighbors", "Bool", fmt.Sprint(rangesOverSorted))
	}
	// ---- transaction.expand: QuoRem(_, precision)
	if ff, err := parseGo(filepath.Join(*repo, "lib/model/transaction/transaction.go")); err != nil {
		o.missing("transaction", err.Error())
	} else {
		cs := callsIn(ff.funcDecl("expand"), "QuoRem")
		if len(cs) == 1 && len(cs[0].Args) == 2 {
			if n, ok := intLit(cs[0].Args[1]); ok {
				o.def("accrualQuoRemPrecision", "Nat", strconv.Itoa(n))
			} else {
				o.missing("accrualQuoRemPrecision", "precision is not a literal")
			}
		} else {
			o.missing("accrualQuoRemPrecision", "expected exactly one QuoRem call in expand")
		}
	}
	// ---- parser keyword tables
	if ff, err := parseGo(filepath.Join(*repo, "lib/syntax/parser/parser.go")); err != nil {
		o.missing("parser", err.Error())
	} else {
		for _, kv := range [][2]string{{"readComment", "commentLeaders"}, {"parseDirective", "directiveKeywords"}, {"parseAddons", "addonKeywords"}, {"parseInterval", "intervalKeywords"}} {
			cs := callsIn(ff.funcDecl(kv[0]), "ReadAlternative")
			if len(cs) == 1 && len(cs[0].Args) == 1 {
				o.def(kv[1], "List String", leanStrList(strLits(cs[0].Args[0])))
			} else {
				o.missing(kv[1], "expected exactly one ReadAlternative call in "+kv[0])
			}
		}
	}
	// ---- account types
	if ff, err := parseGo(filepath.Join(*repo, "lib/model/account/account.go")); err != nil {
		o.missing("account", err.Error())
	} else {
		var names []string
		if fd := ff.funcDecl("String"); fd != nil {
			// first String method is Type.String
			names = strLits(fd.Body)
		}
		var real []string
		for _, n := range names {
			if n != "" {
				real = append(real, n)
			}
		}
		o.def("accountTypeNames", "List String", leanStrList(real))
	}
	// ---- processor order of the balance command
	if ff, err := parseGo(filepath.Join(*repo, "cmd/commands/balance.go")); err != nil {
		o.missing("balance", err.Error())
	} else {
		var order []string
		if fd := ff.funcDecl("execute"); fd != nil {
			ast.Inspect(fd, func(n ast.Node) bool {
				cl, ok := n.(*ast.CompositeLit)
				if !ok {
					return true
				}
				if at, ok := cl.Type.(*ast.ArrayType); ok {
					if st, ok := at.Elt.(*ast.StarExpr); ok {
						if se, ok := st.X.(*ast.SelectorExpr); ok && se.Sel.Name == "Processor" {
							for _, e := range cl.Elts {
								order = append(order, callName(e))
							}
						}
					}
				}
				return true
			})
		}
		o.def("balanceProcessorOrder", "List String", leanStrList(order))
		factsBalanceCmd(o, ff) // the arguments of the processors, the setup statements, the renderer literals, the flags (facts_balancecmd.go)
	}
	// ---- per-day callback order in Processor.Process
	if ff, err := parseGo(filepath.Join(*repo, "lib/journal/journal.go")); err != nil {
		o.missing("journal", err.Error())
	} else {
		var order []string
		if fd := ff.funcDecl("Process"); fd != nil {
			// the second Process is the Processor method (first is Journal.Process): scan all and keep the longest
			best := []string{}
			for _, d := range ff.file.Decls {
				fd, ok := d.(*ast.FuncDecl)
				if !ok || fd.Name.Name != "Process" || fd.Body == nil {
					continue
				}
				var seq []string
				for _, st := range fd.Body.List {
					if is, ok := st.(*ast.IfStmt); ok {
						if be, ok := is.Cond.(*ast.BinaryExpr); ok {
							if se, ok := be.X.(*ast.SelectorExpr); ok {
								seq = append(seq, se.Sel.Name)
							}
						}
					}
				}
				if len(seq) > len(best) {
					best = seq
				}
			}
			order = best
		}
		o.def("processorCallbackOrder", "List String", leanStrList(order))
	}
	// ---- shopspring DivisionPrecision
	if gomod := os.Getenv("GOMODCACHE"); true {
		if gomod == "" {
			gomod = filepath.Join(os.Getenv("HOME"), "go/pkg/mod")
		}
		ms, _ := filepath.Glob(filepath.Join(gomod, "github.com/shopspring/decimal@v1.3.1/decimal.go"))
		found := false
		for _, m := range ms {
			ff, err := parseGo(m)
			if err != nil {
				continue
			}
			for _, d := range ff.file.Decls {
				gd, ok := d.(*ast.GenDecl)
				if !ok {
					continue
				}
				for _, sp := range gd.Specs {
					vs, ok := sp.(*ast.ValueSpec)
					if !ok {
						continue
					}
					for i, n := range vs.Names {
						if n.Name == "DivisionPrecision" && i < len(vs.Values) {
							if v, ok := intLit(vs.Values[i]); ok {
								o.def("divisionPrecision", "Nat", strconv.Itoa(v))
								found = true
							}
						}
					}
				}
			}
		}
		if !found {
			o.missing("divisionPrecision", "shopspring/decimal v1.3.1 source not found in the module cache")
		}
	}
	// ---- go statements / pools per package (structure of the concurrency)
	for _, pkg := range []string{"lib/common/cpr", "lib/syntax", "lib/model", "lib/journal"} {
		files, _ := filepath.Glob(filepath.Join(*repo, pkg, "*.go"))
		sort.Strings(files)
		goStmts := 0
		for _, f := range files {
			if strings.HasSuffix(f, "_test.go") || strings.HasSuffix(f, "hook_verif.go") {
				continue
			}
			ff, err := parseGo(f)
			if err != nil {
				continue
			}
			ast.Inspect(ff.file, func(n ast.Node) bool {
				switch x := n.(type) {
				case *ast.GoStmt:
					goStmts++
				case *ast.CallExpr:
					if se, ok := x.Fun.(*ast.SelectorExpr); ok && se.Sel.Name == "Go" {
						goStmts++
					}
				}
				return true
			})
		}
		o.def("goSites_"+strings.ReplaceAll(strings.TrimPrefix(pkg, "lib/"), "/", "_"), "Nat", strconv.Itoa(goStmts))
	}

	extractFactsC14(o, *repo)
	extractFactsC19(o, *repo)
	extractFactsC08(o, *repo)

	var b strings.Builder
	b.WriteString("/- GENERATED by `harness extract` from the Go sources of /repo on every run of bin/check. Do not edit. -/\n")
	b.WriteString("namespace Knut.Generated\n\n")
	for _, l := range o.lines {
		b.WriteString(l + "\n")
	}
	b.WriteString("\nend Knut.Generated\n")
	if *out == "" {
		fmt.Print(b.String())
	} else if err := os.WriteFile(*out, []byte(b.String()), 0o644); err != nil {
		fatalf("%v", err)
	}
	for _, e := range o.errs {
		fmt.Fprintln(os.Stderr, "fact missing:", e)
	}
	if *out != "" {
		extractUnicode(filepath.Join(filepath.Dir(*out), "Unicode.lean"))
		// Go→Lean translator (trans*.go): Trans.lean, Trans<Pkg>.lean next to the facts; rejections are printed as `trans-reject …`
		trWrite(*repo, filepath.Dir(*out))
		// the same for the syntax layer (trans_syntax*.go): TransDirectives/TransScanner/TransParser.lean, TransSyntax.lean
		tsWrite(*repo, filepath.Dir(*out))
		// natefinch/atomic.WriteFile in an explicit world (trans_units_atomic.go): TransAtomic.lean
		atWrite(*repo, filepath.Dir(*out))
		// census of order-sensitive sites (facts_c06.go): Census.lean; differences to the reviewed expectation are printed as `census-…-site …`
		extractCensusC06(*repo, filepath.Dir(*out))
		// processor order of every pipeline command (facts_procorder.go): ProcOrder.lean; an unreadable list is printed as `census-gone-site ProcOrder …`
		extractProcOrder(*repo, filepath.Dir(*out))
	}
}

func callName(e ast.Expr) string {
	switch x := e.(type) {
	case *ast.CallExpr:
		return callName(x.Fun)
	case *ast.SelectorExpr:
		if id, ok := x.X.(*ast.Ident); ok {
			return id.Name + "." + x.Sel.Name
		}
		return callName(x.X) + "." + x.Sel.Name
	case *ast.CompositeLit:
		return callName(x.Type)
	case *ast.Ident:
		return x.Name
	}
	return "?"
}
