package main

// Loops of the Go→Lean translator.
//
// for init; cond; post { body }   →   def F.loopN (free…) (fuel : Nat) (state…) : Outcome R :=
//                                        if cond then match fuel with | 0 => Outcome.outOfFuel | fuel+1 => body; post; F.loopN … fuel state'
//                                        else Outcome.ok state
//   called with the fuel derived from the FIRST comparison of the loop condition, evaluated at loop entry:
//     a < b → fuelLt a b = (b-a).toNat     a <= b → fuelGe b a = (b-a+1).toNat     (and symmetrically for >, >=,
//     !t.Before(u) → fuelGe t u, t.After(u) → fuelLt u t, !t.After(u) → fuelGe u t, t.Before(u) → fuelLt t u, len(q) > 0 is
//     not a bound).  The fuel is a heuristic; that it suffices is part of the agreement theorem (outOfFuel ≠ model result).
// for _, v := range xs { body }   →   List.foldl (or foldlE in the monad) over xs (xs.zipIdx when the index is used)

import (
	"go/ast"
	"go/token"
	"go/types"
	"sort"
	"strings"
)

// freeVars: local variables (parameters included) read inside the nodes and declared outside, minus `except`
func (c *trCtx) freeVars(except []types.Object, nodes ...ast.Node) []types.Object {
	defined := map[types.Object]bool{}
	used := map[types.Object]bool{}
	for _, n := range nodes {
		if n == nil || isNilNode(n) {
			continue
		}
		ast.Inspect(n, func(n ast.Node) bool {
			if id, ok := n.(*ast.Ident); ok {
				if o := c.info().Defs[id]; o != nil {
					defined[o] = true
				}
				if o, ok := c.info().Uses[id].(*types.Var); ok && !o.IsField() && !(o.Pkg() != nil && o.Parent() == o.Pkg().Scope()) {
					used[o] = true
				}
			}
			return true
		})
	}
	ex := map[types.Object]bool{}
	for _, o := range except {
		ex[o] = true
	}
	var res []types.Object
	for o := range used {
		if !defined[o] && !ex[o] {
			if _, known := c.names[o]; known {
				res = append(res, o)
			}
		}
	}
	sort.Slice(res, func(i, j int) bool { return res[i].Pos() < res[j].Pos() })
	return res
}

// fuelOf derives the fuel expression from the first comparison of the loop condition
func (c *trCtx) fuelOf(cond ast.Expr) string {
	e := trUnparen(cond)
	for {
		if b, ok := e.(*ast.BinaryExpr); ok && b.Op == token.LAND {
			e = trUnparen(b.X)
			continue
		}
		break
	}
	neg := false
	if u, ok := e.(*ast.UnaryExpr); ok && u.Op == token.NOT {
		neg = true
		e = trUnparen(u.X)
	}
	switch x := e.(type) {
	case *ast.BinaryExpr:
		if !trIsInt(c.typeOf(x.X)) || neg {
			break
		}
		a, b := c.expr(x.X), c.expr(x.Y)
		switch x.Op {
		case token.LSS:
			return "fuelLt " + a + " " + b
		case token.LEQ:
			return "fuelGe " + b + " " + a
		case token.GTR:
			return "fuelLt " + b + " " + a
		case token.GEQ:
			return "fuelGe " + a + " " + b
		}
	case *ast.CallExpr:
		sel, ok := x.Fun.(*ast.SelectorExpr)
		if !ok || len(x.Args) != 1 || !trIsTime(c.typeOf(sel.X)) {
			break
		}
		a, b := c.expr(sel.X), c.expr(x.Args[0])
		switch {
		case sel.Sel.Name == "Before" && neg: // a >= b
			return "fuelGe " + a + " " + b
		case sel.Sel.Name == "Before": // a < b
			return "fuelLt " + a + " " + b
		case sel.Sel.Name == "After" && neg: // a <= b
			return "fuelGe " + b + " " + a
		case sel.Sel.Name == "After": // a > b
			return "fuelLt " + b + " " + a
		}
	}
	trFail(cond.Pos(), "cannot derive a bound for this loop: its condition does not start with a comparison of integers or dates")
	return ""
}

func (c *trCtx) forStmt(x *ast.ForStmt, k trK) trLines {
	c.needEffect(x.Pos(), "for loop")
	if x.Init != nil {
		return c.stmt(x.Init, func() trLines {
			y := *x
			y.Init = nil
			return c.forStmt(&y, k)
		})
	}
	if x.Cond == nil {
		trFail(x.Pos(), "for without a condition is outside the subset")
	}
	var post ast.Node
	if x.Post != nil {
		post = x.Post
	}
	state := c.assignedIn(x.Body, post)
	free := c.freeVars(state, x.Cond, x.Body, post)
	// the variables that are live after the loop: all state variables (those declared by the init statement are simply unused later)
	flow := trHasReturn(x.Body)
	c.nloop++
	name := c.fn.leanName + ".loop" + itoa(c.nloop)

	fuel := c.fuelOf(x.Cond)
	if len(c.pre) > 0 {
		trFail(x.Cond.Pos(), "a loop bound that can panic is outside the subset")
	}
	tuple, ttyp := c.tupleOf(state)
	resTy := ttyp
	exit := "Outcome.ok " + tuple
	if flow {
		resTy = "(Flow " + ttyp + " " + c.fn.resType + ")"
		exit = "Outcome.ok (Flow.next " + tuple + ")"
	}

	// ---- the loop function
	var params []string
	var callArgs []string
	for _, o := range free {
		params = append(params, "("+c.names[o]+" : "+c.leanType(o.Type(), o.Pos())+")")
		callArgs = append(callArgs, c.names[o])
	}
	var sparams, sargs []string
	for _, o := range state {
		sparams = append(sparams, "("+c.names[o]+" : "+c.leanType(o.Type(), o.Pos())+")")
		sargs = append(sargs, c.names[o])
	}
	savedLoop, savedPre := c.loop, c.takePre()
	lc := &trLoopCtx{kind: "for", flow: flow, outer: savedLoop}
	rec := func() trLines {
		return trOne(name + " " + strings.Join(append(append([]string{}, callArgs...), append([]string{"fuel"}, sargs...)...), " "))
	}
	afterBody := func() trLines {
		if x.Post == nil {
			return rec()
		}
		saved := c.loop
		c.loop = nil // the post statement is not inside the body
		defer func() { c.loop = saved }()
		return c.stmt(x.Post, rec)
	}
	lc.brk = func() trLines { return trOne(exit) }
	lc.cont = afterBody
	c.loop = lc
	cond := c.expr(x.Cond)
	condPre := c.takePre()
	body := c.stmts(x.Body.List, afterBody)
	c.loop = savedLoop
	c.pre = savedPre
	m := trLines{"match fuel with", "| 0 => Outcome.outOfFuel", "| fuel + 1 =>"}
	m = append(m, body.indent(2)...)
	def := trWrapPre(condPre, trIte(cond, m, trOne(exit)))
	head := "def " + name + " " + strings.Join(append(append(params, "(fuel : Nat)"), sparams...), " ") + " : Outcome " + resTy + " :="
	c.aux = append(c.aux, "/-- loop of `"+c.fn.leanName+"` at "+c.t.l.relPos(x.Pos())+"; state: "+strings.Join(sargs, ", ")+" -/\n"+head+"\n"+def.indent(2).String()+"\n")

	// ---- the call
	call := name + " " + strings.Join(append(append([]string{}, callArgs...), append([]string{"(" + fuel + ")"}, sargs...)...), " ")
	st := c.fresh("st")
	if !flow {
		if len(state) == 1 {
			st = c.names[state[0]]
		}
		return trBind(st, call, c.unpack(st, state, k()))
	}
	r := c.fresh("r")
	next := c.unpack(st, state, k())
	out := trLines{"match " + r + " with", "| Flow.ret v => " + c.retRaw("v", x.Pos())[0], "| Flow.next " + st + " =>"}
	out = append(out, next.indent(2)...)
	return trBind(r, call, out)
}


func (c *trCtx) rangeStmt(x *ast.RangeStmt, k trK) trLines {
	tx := c.typeOf(x.X)
	var elemTy types.Type
	switch u := tx.Underlying().(type) {
	case *types.Slice:
		elemTy = u.Elem()
	case *types.Map:
		return c.rangeMap(x, u, k)
	default:
		trFail(x.Pos(), "range over %s is outside the subset", tx)
	}
	if x.Tok == token.ASSIGN {
		trFail(x.Pos(), "range with = (assignment to existing variables) is outside the subset")
	}
	if trHasReturn(x.Body) {
		trFail(x.Pos(), "return inside a range loop is outside the subset")
	}
	xs := c.expr(x.X)
	pre := c.takePre()
	state := c.assignedIn(x.Body)
	tuple, ttyp := c.tupleOf(state)
	keyName, valName := "", ""
	if id, ok := x.Key.(*ast.Ident); ok && id.Name != "_" {
		keyName = c.local(c.info().Defs[id])
	}
	if x.Value != nil {
		if id, ok := x.Value.(*ast.Ident); ok && id.Name != "_" {
			valName = c.local(c.info().Defs[id])
		}
	}
	et := c.leanType(elemTy, x.Pos())
	st := c.fresh("st")
	el := c.fresh("el")
	// the lambda: fun (st : σ) (el : τ [× Nat]) => let vars := st.i; let v := el; body; tuple
	mk := func(okWrap bool) trLines {
		savedLoop := c.loop
		cont := func() trLines {
			if okWrap {
				return trOne("Outcome.ok " + tuple)
			}
			return trOne(tuple)
		}
		c.loop = &trLoopCtx{kind: "range", cont: cont, outer: savedLoop}
		defer func() { c.loop = savedLoop }()
		body := c.stmts(x.Body.List, cont)
		elTy := et
		if keyName != "" {
			elTy = "(" + et + " × Nat)"
			body = trLet(keyName, "Int", trOne("("+el+".2 : Int)"), body)
			if valName != "" {
				body = trLet(valName, et, trOne(el+".1"), body)
			}
		} else if valName != "" {
			body = trLet(valName, et, trOne(el), body)
		}
		body = c.unpack(st, state, body)
		lam := trLines{"(fun (" + st + " : " + ttyp + ") (" + el + " : " + elTy + ") =>"}
		lam = append(lam, body.indent(2)...)
		lam[len(lam)-1] += ")"
		return lam
	}
	list := xs
	if keyName != "" {
		list = "(List.zipIdx " + xs + ")"
	}
	res := c.fresh("st")
	if len(state) == 1 {
		res = c.names[state[0]]
	}
	if lam, ok := c.tryPure(func() trLines { return mk(false) }); ok {
		t := trLines{"List.foldl"}
		t = append(t, lam.indent(2)...)
		t = append(t, "  "+tuple+" "+list)
		if len(state) == 0 {
			return trWrapPre(pre, k())
		}
		return trWrapPre(pre, trLet(res, ttyp, t, c.unpack(res, state, k())))
	}
	c.needEffect(x.Pos(), "range loop with effects")
	lam := mk(true)
	t := trLines{"Outcome.bind (foldlE"}
	t = append(t, lam.indent(2)...)
	t = append(t, "  "+tuple+" "+list+") (fun "+res+" =>")
	body := c.unpack(res, state, k())
	t = append(t, body.indent(2)...)
	t[len(t)-1] += ")"
	return trWrapPre(pre, t)
}

// rangeMap: the iteration order of a Go map is unspecified: the translated function ranges over an explicit list of keys
// (an extra parameter `order…` of the function, see trFunc.orders); keys that are no longer in the map are skipped, as Go does
// for entries deleted during the iteration.
func (c *trCtx) rangeMap(x *ast.RangeStmt, m *types.Map, k trK) trLines {
	trFail(x.Pos(), "range over a map is outside the subset")
	return nil
}
