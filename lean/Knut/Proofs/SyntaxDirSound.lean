import Knut.Proofs.SyntaxGrammar
import Knut.Proofs.SyntaxFormat
/-!
# What a successfully parsed directive consists of (soundness half of the C08 round trip)

`DirT` is the token-level counterpart of `DirV`: the fields of a directive as token lists. For every parser of a
composite element: if it succeeds, the fields it recorded are token lists of the right lexical class, all validly
encoded, and `Extract()` of each recorded range is the bytes of those tokens (`view… = some (….bytes)`).
-/
namespace Knut.Syntax
open Knut.Utf8 Knut.Spec.Syntax
set_option linter.unusedVariables false

structure BookingT where
  credit : List Tok
  debit : List Tok
  quantity : List Tok
  commodity : List Tok

structure BalanceT where
  account : List Tok
  quantity : List Tok
  commodity : List Tok

structure AccrualT where
  interval : List Tok
  start : List Tok
  stop : List Tok
  account : List Tok

inductive DirT where
  | transaction (accrual : Option AccrualT) (performance : Option (List (List Tok))) (date desc : List Tok)
      (bookings : List BookingT)
  | «open» (date account : List Tok)
  | close (date account : List Tok)
  | assertion (date : List Tok) (balances : List BalanceT)
  | price (date commodity price target : List Tok)
  | «include» (path : List Tok)

def BookingT.bytes (b : BookingT) : BookingV := ⟨flat b.credit, flat b.debit, flat b.quantity, flat b.commodity⟩
def BalanceT.bytes (b : BalanceT) : BalanceV := ⟨flat b.account, flat b.quantity, flat b.commodity⟩
def AccrualT.bytes (a : AccrualT) : AccrualV := ⟨flat a.interval, flat a.start, flat a.stop, flat a.account⟩

def DirT.bytes : DirT → DirV
  | .transaction accr perf date desc bs =>
    .transaction (accr.map AccrualT.bytes) (perf.map (·.map flat)) (flat date) (flat desc) (bs.map BookingT.bytes)
  | .open d a => .open (flat d) (flat a)
  | .close d a => .close (flat d) (flat a)
  | .assertion d bs => .assertion (flat d) (bs.map BalanceT.bytes)
  | .price d c p t => .price (flat d) (flat c) (flat p) (flat t)
  | .include p => .include (flat p)

/-- a valid account token list -/
def AccountOK (c : List Tok) : Prop := (∃ m, IsAccount m c) ∧ Valid c
def DateOK (c : List Tok) : Prop := IsDate c ∧ Valid c
def DecimalOK (c : List Tok) : Prop := IsDecimal c ∧ Valid c
def CommodityOK (c : List Tok) : Prop := IsCommodity c ∧ Valid c
def IntervalOK (c : List Tok) : Prop := IsInterval c ∧ Valid c
def ContentOK (c : List Tok) : Prop := IsContent c ∧ Valid c

def BookingT.ok (b : BookingT) : Prop :=
  AccountOK b.credit ∧ AccountOK b.debit ∧ DecimalOK b.quantity ∧ CommodityOK b.commodity
def BalanceT.ok (b : BalanceT) : Prop := AccountOK b.account ∧ DecimalOK b.quantity ∧ CommodityOK b.commodity
def AccrualT.ok (a : AccrualT) : Prop := IntervalOK a.interval ∧ DateOK a.start ∧ DateOK a.stop ∧ AccountOK a.account

def DirT.ok : DirT → Prop
  | .transaction accr perf date desc bs =>
    (∀ a, accr = some a → a.ok) ∧ (∀ ts, perf = some ts → ∀ t ∈ ts, CommodityOK t) ∧ DateOK date ∧ ContentOK desc ∧
      bs ≠ [] ∧ ∀ b ∈ bs, b.ok
  | .open d a => DateOK d ∧ AccountOK a
  | .close d a => DateOK d ∧ AccountOK a
  | .assertion d bs => DateOK d ∧ bs ≠ [] ∧ ∀ b ∈ bs, b.ok
  | .price d c p t => DateOK d ∧ CommodityOK c ∧ DecimalOK p ∧ CommodityOK t
  | .include p => ContentOK p

/-- the bytes of consumed tokens are the slice of the text between the two offsets -/
theorem Good.extract {text : Bytes} {s s' : St} {c : List Tok} (hG : Good text s) (hc : Consumed s c s') :
    Range.extract text ⟨s.off, s'.off⟩ = some (flat c) ∧ Good text s' := by
  obtain ⟨G', sl⟩ := hG.consumed hc
  refine ⟨?_, G'⟩
  rw [extract_some (r := ⟨s.off, s'.off⟩) hc.ext.off_le G'.le, sl]

theorem ws_okV {desc : String} {s : St} {r : Range} {s' : St} (h : readWhile1 desc isWhitespace s = .ok r s')
    (hv : HeadValid s.toks) : ∃ c, Consumed s c s' ∧ HeadValid s'.toks := by
  obtain ⟨c, _, hc, _, _, v, _, _⟩ := readWhile1_okV h hv
  exact ⟨c, hc, v⟩

theorem readWhitespace1_okV {s : St} {r : Range} {s' : St} (h : readWhitespace1 s = .ok r s') (hv : HeadValid s.toks) :
    ∃ c, Consumed s c s' ∧ HeadValid s'.toks := by
  unfold readWhitespace1 at h
  split at h
  · cases h
  · obtain ⟨c, hc, _, _, v, _, _⟩ := readWhile_okV h hv
    exact ⟨c, hc, v⟩

theorem readRest_okV {s : St} {r : Range} {s' : St} (h : readRestOfWhitespaceLine s = .ok r s') (hv : HeadValid s.toks) :
    ∃ c, Consumed s c s' ∧ HeadValid s'.toks := by
  unfold readRestOfWhitespaceLine at h
  simp only [Res.bind_eq_ok] at h
  obtain ⟨_, s1, g1, h⟩ := h
  obtain ⟨c, hc, _, _, v, _, _⟩ := readWhile_okV g1 hv
  split at h
  · injection h with _ h2; subst h2
    exact ⟨c, hc, v⟩
  · simp only [Res.bind_eq_ok] at h
    obtain ⟨_, s2, g2, h⟩ := h
    injection h with _ h2; subst h2
    obtain ⟨t, ct, _, _, v2⟩ := readCharacter_okV g2
    exact ⟨c ++ [t], hc.trans ct, v2⟩

theorem parseBooking_sound {text : Bytes} {s : St} {b : Booking} {s' : St} (h : parseBooking s = .ok b s')
    (hG : Good text s) (hv : HeadValid s.toks) :
    ∃ bT : BookingT, bT.ok ∧ viewBooking text b = some bT.bytes ∧ HeadValid s'.toks ∧ Good text s' := by
  unfold parseBooking at h
  simp only [Res.bind_eq_ok] at h
  obtain ⟨cr, s1, h1, _, s2, h2, db, s3, h3, _, s4, h4, q, s5, h5, _, s6, h6, cm, s7, h7, h⟩ := h
  injection h with hb hs
  subst hs
  obtain ⟨c1, k1, a1, w1, v1, r1⟩ := parseAccount_sound h1 hv
  obtain ⟨_, k2, v2⟩ := ws_okV h2 v1
  obtain ⟨c3, k3, a3, w3, v3, r3⟩ := parseAccount_sound h3 v2
  obtain ⟨_, k4, v4⟩ := ws_okV h4 v3
  obtain ⟨c5, k5, a5, w5, v5, r5⟩ := parseDecimal_sound h5 v4
  obtain ⟨_, k6, v6⟩ := ws_okV h6 v5
  obtain ⟨c7, k7, a7, w7, v7, r7, _⟩ := parseCommodity_sound h7 v6
  obtain ⟨e1, G1⟩ := hG.extract k1
  obtain ⟨_, G2⟩ := G1.extract k2
  obtain ⟨e3, G3⟩ := G2.extract k3
  obtain ⟨_, G4⟩ := G3.extract k4
  obtain ⟨e5, G5⟩ := G4.extract k5
  obtain ⟨_, G6⟩ := G5.extract k6
  obtain ⟨e7, G7⟩ := G6.extract k7
  refine ⟨⟨c1, c3, c5, c7⟩, ⟨⟨⟨_, a1⟩, w1⟩, ⟨⟨_, a3⟩, w3⟩, ⟨a5, w5⟩, ⟨a7, w7⟩⟩, ?_, v7, G7⟩
  rw [← hb]
  subst r5 r7
  simp [viewBooking, r1, r3, e1, e3, e5, e7, BookingT.bytes]

theorem parseBalance_sound {text : Bytes} {s : St} {b : Balance} {s' : St} (h : parseBalance s = .ok b s')
    (hG : Good text s) (hv : HeadValid s.toks) :
    ∃ bT : BalanceT, bT.ok ∧ viewBalance text b = some bT.bytes ∧ HeadValid s'.toks ∧ Good text s' := by
  unfold parseBalance at h
  simp only [Res.bind_eq_ok] at h
  obtain ⟨ac, s1, h1, _, s2, h2, q, s3, h3, _, s4, h4, cm, s5, h5, h⟩ := h
  injection h with hb hs
  subst hs
  obtain ⟨c1, k1, a1, w1, v1, r1⟩ := parseAccount_sound h1 hv
  obtain ⟨_, k2, v2⟩ := readWhitespace1_okV h2 v1
  obtain ⟨c3, k3, a3, w3, v3, r3⟩ := parseDecimal_sound h3 v2
  obtain ⟨_, k4, v4⟩ := readWhitespace1_okV h4 v3
  obtain ⟨c5, k5, a5, w5, v5, r5, _⟩ := parseCommodity_sound h5 v4
  obtain ⟨e1, G1⟩ := hG.extract k1
  obtain ⟨_, G2⟩ := G1.extract k2
  obtain ⟨e3, G3⟩ := G2.extract k3
  obtain ⟨_, G4⟩ := G3.extract k4
  obtain ⟨e5, G5⟩ := G4.extract k5
  refine ⟨⟨c1, c3, c5⟩, ⟨⟨⟨_, a1⟩, w1⟩, ⟨a3, w3⟩, ⟨a5, w5⟩⟩, ?_, v5, G5⟩
  rw [← hb]
  subst r3 r5
  simp [viewBalance, r1, e1, e3, e5, BalanceT.bytes]

theorem parseAccrual_sound {text : Bytes} {s : St} {a : Accrual} {s' : St} (h : parseAccrual s = .ok a s')
    (hG : Good text s) (hv : HeadValid s.toks) :
    ∃ aT : AccrualT, aT.ok ∧ viewAccrual text a = some aT.bytes ∧ HeadValid s'.toks ∧ Good text s' := by
  unfold parseAccrual at h
  simp only [Res.bind_eq_ok] at h
  obtain ⟨_, s1, h1, iv, s2, h2, _, s3, h3, d0, s4, h4, _, s5, h5, d1, s6, h6, _, s7, h7, ac, s8, h8, h⟩ := h
  injection h with hb hs
  subst hs
  obtain ⟨_, k1, v1⟩ := readWhitespace1_okV h1 hv
  obtain ⟨c2, k2, a2, w2, v2, r2⟩ := parseInterval_sound h2 v1
  obtain ⟨_, k3, v3⟩ := readWhitespace1_okV h3 v2
  obtain ⟨c4, k4, a4, w4, v4, r4⟩ := parseDate_sound h4 v3
  obtain ⟨_, k5, v5⟩ := readWhitespace1_okV h5 v4
  obtain ⟨c6, k6, a6, w6, v6, r6⟩ := parseDate_sound h6 v5
  obtain ⟨_, k7, v7⟩ := readWhitespace1_okV h7 v6
  obtain ⟨c8, k8, a8, w8, v8, r8⟩ := parseAccount_sound h8 v7
  obtain ⟨_, G1⟩ := hG.extract k1
  obtain ⟨e2, G2⟩ := G1.extract k2
  obtain ⟨_, G3⟩ := G2.extract k3
  obtain ⟨e4, G4⟩ := G3.extract k4
  obtain ⟨_, G5⟩ := G4.extract k5
  obtain ⟨e6, G6⟩ := G5.extract k6
  obtain ⟨_, G7⟩ := G6.extract k7
  obtain ⟨e8, G8⟩ := G7.extract k8
  refine ⟨⟨c2, c4, c6, c8⟩, ⟨⟨a2, w2⟩, ⟨a4, w4⟩, ⟨a6, w6⟩, ⟨⟨_, a8⟩, w8⟩⟩, ?_, v8, G8⟩
  rw [← hb]
  subst r2 r4 r6
  simp [viewAccrual, r8, e2, e4, e6, e8, AccrualT.bytes]

end Knut.Syntax
