import Knut.Proofs.MTMMapped
/-!
# C03: single positions (the per-commodity lines of a `-s` row)

`posCum a c es D` is what a cumulative report with `-s` shows for account `a`, commodity `c` in the column of the period
end `D`.  `run_position_delta`: over `(F, D]` (`F` the eve of the window or an earlier period end) the inserts on the
asset/liability position `(a, c)` total `Spec.mtmPos … D − Spec.mtmPos … F` — quantity × normalised price — up to
`Spec.stepCount` units of the 8th decimal, exactly 0 for a commodity the account is never booked in.
`run_posrow_mapped`: the same summed over the accounts a mapped row collects.
-/
namespace Knut.MTM
open Knut Knut.Dec Knut.Spec
open Knut.BalanceReport (sumAmounts)

/-- the inserts on account `a` selected by `Q`, summed -/
def selCum (Q : Entry → Bool) (a : Account) (es : List Entry) : Rat :=
  sumAmounts (es.filter (fun e => decide (e.account = a) && Q e))

def posQ (c : Commodity) (D : Int) (e : Entry) : Bool := decide (e.commodity = c) && dateLe D e

/-- the inserts on the position `(a, c)` aligned to a column date `≤ D`, summed -/
def posCum (a : Account) (c : Commodity) (es : List Entry) (D : Int) : Rat := selCum (posQ c D) a es

theorem selCum_append (Q : Entry → Bool) (a : Account) (xs ys : List Entry) :
    selCum Q a (xs ++ ys) = selCum Q a xs + selCum Q a ys := by
  unfold selCum
  rw [List.filter_append, sumAmounts_append]

theorem posCum_append (a : Account) (c : Commodity) (xs ys : List Entry) (D : Int) :
    posCum a c (xs ++ ys) D = posCum a c xs D + posCum a c ys D := selCum_append _ a xs ys

theorem posCum_zero_of (a : Account) (c : Commodity) (es : List Entry) (D : Int)
    (h : ∀ e ∈ es, e.account = a → ¬ ∃ D', e.date = some D' ∧ D' ≤ D) : posCum a c es D = 0 := by
  unfold posCum selCum
  have : es.filter (fun e => decide (e.account = a) && posQ c D e) = [] := by
    rw [List.filter_eq_nil_iff]
    intro e he hc
    simp only [Bool.and_eq_true, decide_eq_true_eq] at hc
    apply h e he hc.1
    unfold posQ dateLe at hc
    cases hd : e.date with
    | none => rw [hd] at hc; simp at hc
    | some D' =>
      rw [hd] at hc
      simp only [Bool.and_eq_true, decide_eq_true_eq] at hc
      exact ⟨D', rfl, hc.2.2⟩
  rw [this]
  rfl

theorem posCum_eq_entryVal (a : Account) (c : Commodity) (es : List Entry) (D : Int)
    (h : ∀ e ∈ es, e.account = a → ∃ D', e.date = some D' ∧ D' ≤ D) : posCum a c es D = entryVal a c es := by
  unfold posCum selCum entryVal sumAmounts
  congr 2
  apply List.filter_congr
  intro e he
  by_cases ha : e.account = a
  · obtain ⟨D', h1, h2⟩ := h e he ha
    unfold posQ dateLe
    rw [h1]
    simp [h2, ha]
  · simp [ha]

/-- the position term of the specification exists and is quantity × price whenever the pipeline accepts the days up to `D` -/
theorem run_mtmPos_spec (cfg : BalCfg) (v : Commodity) (hv : cfg.valuation = some v) (days : List Day) (D : Int)
    (hcons : ∀ d ∈ days, ∀ t ∈ d.transactions, t.date = d.date)
    (a : Account) (hal : a.isAL = true) (c : Commodity)
    (st : BalState) (h : Balance.run cfg (days.filter (fun d => d.date ≤ D)) = .ok st) :
    Spec.mtmPos v days a c D = some (Spec.qtyAt days a c D * specPrice v days D c) := by
  have hq := run_qty_spec cfg v hv days D hcons a c hal st h
  obtain ⟨_, hpv⟩ := run_prices_spec cfg v hv days D st h
  unfold Spec.mtmPos specPrice
  simp only
  by_cases h0 : Spec.qtyAt days a c D = 0
  · simp only [h0, if_true, Rat.zero_mul]
  · simp only [h0, if_false]
    by_cases hcv : c = v
    · simp only [hcv, if_true, Rat.mul_one]
    · simp only [hcv, if_false]
      obtain ⟨txs, hp, _⟩ := run_pipelineRun cfg _ st h
      have hne : days.filter (fun d => d.date ≤ D) ≠ [] := by
        intro he
        rw [he] at hp
        unfold pipelineRun at hp
        injection hp with hp; injection hp with e1 e2; subst e1
        exact h0 hq.symm
      obtain ⟨p, hl⟩ := pipelineRun_open_price cfg v a c hv hcv hal _ {} st txs hp hne (by rw [hq]; exact h0)
      rw [hpv] at hl
      rw [priceOr_of_ok 0 hl]
      unfold Balance.lookupPrice at hl
      cases hnp : Spec.pricesAt v days D with
      | none => rw [hnp] at hl; cases hl
      | some np =>
        rw [hnp] at hl; simp only at hl ⊢
        cases hf : Prices.find c np with
        | none => rw [hf] at hl; cases hl
        | some x =>
          rw [hf] at hl; injection hl with hl; subst hl
          rfl

theorem posOn_nil_of_not_com {days : List Day} {a : Account} {c : Commodity} (hc : c ∉ Spec.commoditiesOf days a) :
    ∀ d ∈ days, posOn a c d.transactions = [] := posOn_nil_of_not_mem hc

/-- **one asset/liability position of a plain report over `(F, D]`**, `F` the eve of the window or an earlier period end -/
theorem run_position_delta (cfg : BalCfg) (v : Commodity) (a : Account) (c : Commodity) (days : List Day) (stF : BalState)
    (F D : Int)
    (hv : cfg.valuation = some v) (hal : a.isAL = true) (hpl : Plain cfg) (hs : Sorted days)
    (hcons : ∀ d ∈ days, ∀ t ∈ d.transactions, t.date = d.date)
    (hz : ∀ d ∈ days, ∀ t ∈ d.transactions, ∀ p ∈ t.postings, p.value = 0)
    (hinc : List.Pairwise (· < ·) (cfg.periods.map (·.stop))) (hD : D ∈ cfg.periods.map (·.stop))
    (hF : IsEve cfg F D) (hDin : cfg.span.contains D = true)
    (h : Balance.run cfg days = .ok stF) :
    ∃ mD mF, Spec.mtmPos v days a c D = some mD ∧ Spec.mtmPos v days a c F = some mF ∧
      -((Spec.stepCount v days a F D c : Rat) * ulp 8) ≤ (posCum a c stF.entries D - posCum a c stF.entries F) - (mD - mF) ∧
      (posCum a c stF.entries D - posCum a c stF.entries F) - (mD - mF) ≤ (Spec.stepCount v days a F D c : Rat) * ulp 8 ∧
      (c ∉ Spec.commoditiesOf days a → posCum a c stF.entries D - posCum a c stF.entries F = 0) ∧
      (F = cfg.span.start - 1 → posCum a c stF.entries F = 0) := by
  have hvs : cfg.valuation.isSome = true := by rw [hv]; rfl
  have hbnd : ¬ (D < cfg.span.start) ∧ ¬ (D > cfg.span.stop) := by
    unfold Period.contains at hDin
    simpa using hDin
  have hFlo : cfg.span.start ≤ F + 1 ∧ F ≤ D := by
    rcases hF with rfl | ⟨_, h2, h3⟩
    · omega
    · unfold Period.contains at h3
      have : ¬ (F < cfg.span.start) ∧ ¬ (F > cfg.span.stop) := by simpa using h3
      omega
  have hlo : F + 1 ≤ D + 1 := by omega
  obtain ⟨hsplit, hpre⟩ := sorted_split3 (F + 1) D hlo days hs
  generalize hA' : days.filter (fun d => decide (d.date < F + 1)) = A at hsplit hpre
  generalize hB1' : days.filter (fun d => !decide (d.date < F + 1) && decide (d.date ≤ D)) = B1 at hsplit hpre
  generalize hB2' : days.filter (fun d => !decide (d.date < F + 1) && !decide (d.date ≤ D)) = B2 at hsplit
  have hAsub : ∀ d ∈ A, d ∈ days ∧ d.date < F + 1 := by
    intro d hd; rw [← hA'] at hd
    have := List.mem_filter.mp hd
    exact ⟨this.1, by simpa using this.2⟩
  have hB1sub : ∀ d ∈ B1, d ∈ days ∧ ¬ d.date < F + 1 ∧ d.date ≤ D := by
    intro d hd; rw [← hB1'] at hd
    have := List.mem_filter.mp hd
    exact ⟨this.1, by simpa using this.2⟩
  have hB2sub : ∀ d ∈ B2, d ∈ days ∧ D < d.date := by
    intro d hd; rw [← hB2'] at hd
    have := List.mem_filter.mp hd
    refine ⟨this.1, ?_⟩
    have h2 := this.2
    simp only [Bool.and_eq_true, Bool.not_eq_true', decide_eq_false_iff_not] at h2
    omega
  have hB1in : ∀ d ∈ B1, cfg.span.contains d.date = true := by
    intro d hd
    obtain ⟨_, h1, h2⟩ := hB1sub d hd
    unfold Period.contains
    have h3 : ¬ d.date > cfg.span.stop := by omega
    have h4 : ¬ d.date < cfg.span.start := by omega
    simp [h3, h4]
  -- the run, split
  obtain ⟨txs, hp, he⟩ := run_pipelineRun cfg days stF h
  rw [hsplit] at hp
  obtain ⟨stB, tAB, tB2, h12, h3, e1⟩ := pipelineRun_append cfg _ _ _ _ _ hp
  obtain ⟨stA, tA, tB1, hA, hB, e2⟩ := pipelineRun_append cfg _ _ _ _ _ h12
  have hAB := pipelineRun_append_ok cfg A B1 {} stA stB tA tB1 hA hB
  have rB : Balance.run cfg (days.filter (fun d => d.date ≤ D)) = .ok stB := by
    rw [hpre]; exact run_of_pipelineRun cfg _ _ _ hAB
  have hFA : days.filter (fun d => d.date ≤ F) = A := by
    rw [← hA']
    apply List.filter_congr
    intro d _
    by_cases hd : d.date < F + 1
    · have : d.date ≤ F := by omega
      simp [hd, this]
    · have : ¬ d.date ≤ F := by omega
      simp [hd, this]
  have rA : Balance.run cfg (days.filter (fun d => d.date ≤ F)) = .ok stA := by
    rw [hFA]; exact run_of_pipelineRun cfg _ _ _ hA
  have mD := run_mtmPos_spec cfg v hv days D hcons a hal c stB rB
  have mF := run_mtmPos_spec cfg v hv days F hcons a hal c stA rA
  refine ⟨_, _, mD, mF, ?_⟩
  have hinv0 : CloseInv {} := by intro k hk; cases hk
  -- the inserts, split
  have hes : stF.entries = tA.flatMap (Balance.queryTx cfg) ++ tB1.flatMap (Balance.queryTx cfg) ++
      tB2.flatMap (Balance.queryTx cfg) := by
    rw [he, e1, e2, List.flatMap_append, List.flatMap_append]
  -- before `F`: aligned up to `F` (an earlier period end), or nothing at all (the days before the window)
  have hcA : posCum a c (tA.flatMap (Balance.queryTx cfg)) D - posCum a c (tA.flatMap (Balance.queryTx cfg)) F = 0 ∧
      (F = cfg.span.start - 1 → posCum a c (tA.flatMap (Balance.queryTx cfg)) F = 0) := by
    rcases hF with rfl | ⟨hF1, hF2, hF3⟩
    · have hAout : ∀ d ∈ A, cfg.span.contains d.date = false := by
        intro d hd
        have := (hAsub d hd).2
        unfold Period.contains
        have h5 : d.date < cfg.span.start := by omega
        simp [h5]
      have hno : ∀ e ∈ tA.flatMap (Balance.queryTx cfg), e.account = a → False := by
        intro e hem hc
        obtain ⟨t, ht, p, hpt, rfl⟩ := mem_entries_plain cfg hpl hvs tA e hem
        obtain ⟨_, _, _, q4⟩ := pipelineRun_any cfg v a p.commodity hv hal A {} stA tA hinv0 hA
        have hnil := q4 hAout
        have : p ∈ posOn a p.commodity tA := by
          unfold posOn
          rw [List.mem_filter]
          have h1 : p.account = a := hc
          exact ⟨List.mem_flatMap.mpr ⟨t, ht, hpt⟩, by unfold onPos; simp [h1]⟩
        rw [hnil] at this
        cases this
      have z1 := posCum_zero_of a c _ D (fun e he ha _ => hno e he ha)
      have z2 := posCum_zero_of a c _ (cfg.span.start - 1) (fun e he ha _ => hno e he ha)
      rw [z1, z2]
      exact ⟨by grind, fun _ => rfl⟩
    · have hAF : ∀ e ∈ tA.flatMap (Balance.queryTx cfg), e.account = a → ∃ D', e.date = some D' ∧ D' ≤ F := by
        intro e hem _
        obtain ⟨t, ht, p, hpt, rfl⟩ := mem_entries_plain cfg hpl hvs tA e hem
        obtain ⟨d, hd, hdt⟩ := pipelineRun_dates cfg A {} stA tA (fun d hd => hcons d (hAsub d hd).1) hA t ht
        have := (hAsub d hd).2
        exact alignIn_le cfg.periods t.date F hinc hF1 (by rw [hdt]; omega)
      rw [posCum_eq_entryVal a c _ F hAF, posCum_eq_entryVal a c _ D (fun e he ha => by
        obtain ⟨D', h1, h2⟩ := hAF e he ha
        exact ⟨D', h1, by omega⟩)]
      refine ⟨by grind, ?_⟩
      intro hFe
      unfold Period.contains at hF3
      have : ¬ (F < cfg.span.start) ∧ ¬ (F > cfg.span.stop) := by simpa using hF3
      omega
  have hcB2 : ∀ X, X ≤ D → posCum a c (tB2.flatMap (Balance.queryTx cfg)) X = 0 := by
    intro X hX
    apply posCum_zero_of
    intro e hem _ hc
    obtain ⟨t, ht, p, hpt, rfl⟩ := mem_entries_plain cfg hpl hvs tB2 e hem
    obtain ⟨d, hd, hdt⟩ := pipelineRun_dates cfg B2 stB stF tB2 (fun d hd => hcons d (hB2sub d hd).1) h3 t ht
    obtain ⟨D', h1, h2⟩ := hc
    simp only at h1
    have := alignIn_gt cfg.periods t.date D D' (by rw [hdt]; exact (hB2sub d hd).2) h1
    omega
  have hcB1 : posCum a c (tB1.flatMap (Balance.queryTx cfg)) D = entryVal a c (tB1.flatMap (Balance.queryTx cfg)) := by
    apply posCum_eq_entryVal
    intro e hem _
    obtain ⟨t, ht, p, hpt, rfl⟩ := mem_entries_plain cfg hpl hvs tB1 e hem
    obtain ⟨d, hd, hdt⟩ := pipelineRun_dates cfg B1 stA stB tB1 (fun d hd => hcons d (hB1sub d hd).1) hB t ht
    exact alignIn_le cfg.periods t.date D hinc hD (by rw [hdt]; exact (hB1sub d hd).2.2)
  have hcB1F : posCum a c (tB1.flatMap (Balance.queryTx cfg)) F = 0 := by
    apply posCum_zero_of
    intro e hem _ hc
    obtain ⟨t, ht, p, hpt, rfl⟩ := mem_entries_plain cfg hpl hvs tB1 e hem
    obtain ⟨d, hd, hdt⟩ := pipelineRun_dates cfg B1 stA stB tB1 (fun d hd => hcons d (hB1sub d hd).1) hB t ht
    obtain ⟨D', h1, h2⟩ := hc
    simp only at h1
    have h5 := (hB1sub d hd).2.1
    have := alignIn_gt cfg.periods t.date F D' (by rw [hdt]; omega) h1
    omega
  have hdiff : posCum a c stF.entries D - posCum a c stF.entries F = entryVal a c (tB1.flatMap (Balance.queryTx cfg)) := by
    rw [hes, posCum_append, posCum_append, posCum_append, posCum_append, hcB2 D (Int.le_refl _),
      hcB2 F hFlo.2, hcB1, hcB1F]
    have := hcA.1
    grind
  have hzeroF : F = cfg.span.start - 1 → posCum a c stF.entries F = 0 := by
    intro hFe
    rw [hes, posCum_append, posCum_append, hcA.2 hFe, hcB1F, hcB2 F hFlo.2]
    grind
  rw [hdiff]
  have hval : entryVal a c (tB1.flatMap (Balance.queryTx cfg)) = valOn a c tB1 := entryVal_flatMap cfg hpl hvs a c tB1
  rw [hval]
  have hidle : c ∉ Spec.commoditiesOf days a → valOn a c tB1 = 0 := by
    intro hcn
    exact window_position_idle cfg v a c hv hal A B1 stA stB tA tB1 hA hB hB1in
      (fun d hd => posOn_nil_of_not_mem hcn d (hAsub d hd).1)
      (fun d hd => posOn_nil_of_not_mem hcn d (hB1sub d hd).1)
  have hb : -((Spec.stepCount v days a F D c : Rat) * ulp 8) ≤
        valOn a c tB1 - (Spec.qtyAt days a c D * specPrice v days D c - Spec.qtyAt days a c F * specPrice v days F c) ∧
      valOn a c tB1 - (Spec.qtyAt days a c D * specPrice v days D c - Spec.qtyAt days a c F * specPrice v days F c) ≤
        (Spec.stepCount v days a F D c : Rat) * ulp 8 := by
    have qD := run_qty_spec cfg v hv days D hcons a c hal stB rB
    have qF := run_qty_spec cfg v hv days F hcons a c hal stA rA
    have hu : ∀ d ∈ B1, Unvalued a c d.transactions := by
      intro d hd t ht p hp _ _ _
      exact hz d (hB1sub d hd).1 t ht p hp
    obtain ⟨_, _, pA3, _⟩ := pipelineRun_any cfg v a c hv hal A {} stA tA hinv0 hA
    by_cases hc : c = v
    · subst hc
      have e1 : valOn a c tB1 = qtySum a c B1 := pipelineRun_valOn_v cfg c a hv hal B1 stA stB tB1 pA3 hB1in hu hB
      obtain ⟨qB, _⟩ := pipelineRun_any cfg c a c hv hal B1 stA stB tB1 pA3 hB
      unfold specPrice Spec.stepCount
      simp only [if_true, Rat.mul_one]
      rw [← qD, ← qF, qB, e1]
      unfold qtySum
      have e0 : (((0 : Nat) : Rat)) = 0 := rfl
      constructor <;> grind
    · obtain ⟨b1, b2⟩ := window_position_bound cfg v a c hv hc hal A B1 stA stB tA tB1 hA hB hB1in hu
      obtain ⟨_, pvD⟩ := run_prices_spec cfg v hv days D stB rB
      obtain ⟨_, pvF⟩ := run_prices_spec cfg v hv days F stA rA
      have hcount : Spec.stepCount v days a F D c = priceDays B1 + nzCount a c B1 := by
        unfold Spec.stepCount
        simp only [hc, if_false]
        have hwin : days.filter (fun d => decide (F < d.date) && decide (d.date ≤ D)) = B1 := by
          rw [← hB1']
          apply List.filter_congr
          intro d _
          by_cases hd : d.date < F + 1
          · have : ¬ F < d.date := by omega
            simp [hd, this]
          · have : F < d.date := by omega
            simp [hd, this]
        have e : (fun (x : Int × Posting) => match x with
            | (d, p) => decide (F < d) && decide (d ≤ D) && decide (p.account = a) &&
                decide (p.commodity = c) && decide (p.quantity ≠ 0)) =
            (fun (x : Int × Posting) => decide (F < x.1) && decide (x.1 ≤ D) && decide (x.2.account = a) &&
                decide (x.2.commodity = c) && decide (x.2.quantity ≠ 0)) := by
          funext x; obtain ⟨x1, x2⟩ := x; rfl
        rw [e, nzCount_spec a c _ D days hcons, priceDays_spec, hwin]
        omega
      unfold specPrice
      simp only [hc, if_false]
      rw [← qD, ← qF, ← pvD, ← pvF, hcount]
      exact ⟨b1, b2⟩
  exact ⟨hb.1, hb.2, hidle, hzeroF⟩

/-! ### mapped rows, any selection that does not look at the account -/

theorem selCum_mapped (cfg : BalCfg) (hcom : ∀ s, cfg.commodityFilter s = true) (r : Account) (Q : Entry → Bool)
    (hQ : ∀ (e : Entry) (a' : Account), Q { e with account := a' } = Q e) :
    ∀ (esP : List Entry), selCum Q r (esP.filterMap (reEntry cfg)) =
      sumAmounts (esP.filter (fun e => srcSel cfg r e.account && Q e))
  | [] => rfl
  | e :: rest => by
    have ih := selCum_mapped cfg hcom r Q hQ rest
    unfold selCum at ih ⊢
    have hre : reEntry cfg e = if cfg.accountFilter e.account.name = true then
        (mapAccount cfg e.account).map (fun a => { e with account := a }) else none := by
      unfold reEntry; rw [hcom, Bool.and_true]
    have hss : srcSel cfg r e.account =
        (cfg.accountFilter e.account.name && decide (mapAccount cfg e.account = some r)) := rfl
    rw [List.filterMap_cons, List.filter_cons, hre, hss]
    cases hf : cfg.accountFilter e.account.name with
    | false =>
      simp only [Bool.false_eq_true, if_false, Bool.false_and]
      exact ih
    | true =>
      simp only [if_true, Bool.true_and]
      cases hm : mapAccount cfg e.account with
      | none =>
        simp only [Option.map_none, reduceCtorEq, decide_false, Bool.false_and, Bool.false_eq_true, if_false]
        exact ih
      | some a' =>
        simp only [Option.map_some, List.filter_cons, Option.some.injEq]
        rw [hQ e a']
        by_cases h1 : a' = r
        · subst h1
          simp only [decide_true, Bool.true_and]
          cases Q e with
          | false => simp only [Bool.false_eq_true, if_false]; exact ih
          | true =>
            simp only [if_true]
            unfold sumAmounts at ih ⊢
            simp only [List.map_cons, List.sum_cons]
            rw [ih]
        · simp only [h1, decide_false, Bool.false_and, Bool.false_eq_true, if_false]
          exact ih

theorem selCum_mapped_sum (cfg : BalCfg) (hcom : ∀ s, cfg.commodityFilter s = true) (r : Account) (Q : Entry → Bool)
    (hQ : ∀ (e : Entry) (a' : Account), Q { e with account := a' } = Q e)
    (esP : List Entry) (S : List Account) (hS : S.Nodup) (hsel : ∀ a ∈ S, srcSel cfg r a = true)
    (hcov : ∀ e ∈ esP, srcSel cfg r e.account = true → e.account ∈ S) :
    selCum Q r (esP.filterMap (reEntry cfg)) = (S.map (fun a => selCum Q a esP)).sum := by
  rw [selCum_mapped cfg hcom r Q hQ esP,
    sum_by_account S hS (fun e => srcSel cfg r e.account && Q e) esP (fun e he hq => by
      simp only [Bool.and_eq_true] at hq
      exact hcov e he hq.1)]
  congr 1
  apply List.map_congr_left
  intro a ha
  unfold selCum
  congr 1
  apply List.filter_congr
  intro e _
  by_cases h1 : e.account = a
  · rw [h1, hsel a ha]; simp
  · simp [h1]

theorem commoditiesOf_nil_not_mem {days : List Day} {a : Account} (h : Spec.commoditiesOf days a = []) (c : Commodity) :
    c ∉ Spec.commoditiesOf days a := by rw [h]; exact List.not_mem_nil

/-- **one commodity of the row `r` of a mapped valued report over `(F, D]`**: the inserts on the asset/liability row
account `r` in commodity `c` aligned to column dates in `(F, D]` total `Spec.mtmPosOver … S c D − Spec.mtmPosOver … S c F`
(`S` the journal's accounts collected in `r`) up to `Spec.stepCountOver … S F D c` units of the 8th decimal -/
theorem run_posrow_mapped (cfg : BalCfg) (v : Commodity) (r : Account) (c : Commodity) (days : List Day) (stF : BalState)
    (F D : Int)
    (hv : cfg.valuation = some v) (hcom : ∀ s, cfg.commodityFilter s = true) (hal : r.isAL = true) (hs : Sorted days)
    (hcons : ∀ d ∈ days, ∀ t ∈ d.transactions, t.date = d.date)
    (hz : ∀ d ∈ days, ∀ t ∈ d.transactions, ∀ p ∈ t.postings, p.value = 0)
    (hinc : List.Pairwise (· < ·) (cfg.periods.map (·.stop))) (hD : D ∈ cfg.periods.map (·.stop))
    (hF : IsEve cfg F D) (hDin : cfg.span.contains D = true)
    (h : Balance.run cfg days = .ok stF) :
    ∃ mD mF, Spec.mtmPosOver v days (Spec.sourceAccounts (srcSel cfg r) days) c D = some mD ∧
      Spec.mtmPosOver v days (Spec.sourceAccounts (srcSel cfg r) days) c F = some mF ∧
      -((Spec.stepCountOver v days (Spec.sourceAccounts (srcSel cfg r) days) F D c : Rat) * ulp 8) ≤
        (posCum r c stF.entries D - posCum r c stF.entries F) - (mD - mF) ∧
      (posCum r c stF.entries D - posCum r c stF.entries F) - (mD - mF) ≤
        (Spec.stepCountOver v days (Spec.sourceAccounts (srcSel cfg r) days) F D c : Rat) * ulp 8 ∧
      (F = cfg.span.start - 1 → posCum r c stF.entries F = 0) := by
  obtain ⟨stP, hrunP, hes⟩ := run_plainOf cfg days stF h
  have hvP : (plainOf cfg).valuation = some v := hv
  have hplP := plain_plainOf cfg
  generalize hS : Spec.sourceAccounts (srcSel cfg r) days = S
  have hSn : S.Nodup := by
    rw [← hS]; unfold Spec.sourceAccounts
    exact List.Pairwise.sublist List.filter_sublist (ReportPerm.nodup_eraseDups _ _ (Nat.le_refl _))
  have hSsel : ∀ a ∈ S, srcSel cfg r a = true := by
    intro a ha; rw [← hS] at ha; unfold Spec.sourceAccounts at ha
    exact (List.mem_filter.mp ha).2
  have hselAL : ∀ a, srcSel cfg r a = true → a.isAL = true := by
    intro a ha
    unfold srcSel at ha
    simp only [Bool.and_eq_true, decide_eq_true_eq] at ha
    rw [← mapAccount_isAL cfg ha.2]; exact hal
  have hacc := fun a (ha : a.isAL = true) =>
    run_position_delta (plainOf cfg) v a c days stP F D hvP ha hplP hs hcons hz hinc hD hF hDin hrunP
  let X := (((stP.entries.map (·.account)).eraseDups).filter (srcSel cfg r)).filter (fun a => !decide (a ∈ S))
  have hXn : X.Nodup :=
    List.Pairwise.sublist List.filter_sublist
      (List.Pairwise.sublist List.filter_sublist (ReportPerm.nodup_eraseDups _ _ (Nat.le_refl _)))
  have hXS : ∀ a ∈ X, a ∉ S := by
    intro a ha
    have := (List.mem_filter.mp ha).2
    simpa using this
  have hXsel : ∀ a ∈ X, srcSel cfg r a = true := by
    intro a ha
    exact (List.mem_filter.mp (List.mem_filter.mp ha).1).2
  have hSXn : (S ++ X).Nodup := by
    rw [List.nodup_append]
    refine ⟨hSn, hXn, ?_⟩
    intro x hx y hy e
    exact hXS y hy (e ▸ hx)
  have hcov : ∀ e ∈ stP.entries, srcSel cfg r e.account = true → e.account ∈ S ++ X := by
    intro e he hsel
    by_cases hc : e.account ∈ S
    · exact List.mem_append_left _ hc
    · apply List.mem_append_right
      rw [List.mem_filter]
      refine ⟨?_, by simp [hc]⟩
      rw [List.mem_filter]
      refine ⟨?_, hsel⟩
      rw [List.mem_eraseDups]
      exact List.mem_map.mpr ⟨e, he, rfl⟩
  have hsum : ∀ Y, posCum r c stF.entries Y = (S.map (fun a => posCum a c stP.entries Y)).sum +
      (X.map (fun a => posCum a c stP.entries Y)).sum := by
    intro Y
    unfold posCum
    rw [hes, selCum_mapped_sum cfg hcom r (posQ c Y) (fun _ _ => rfl) stP.entries (S ++ X) hSXn
      (fun a ha => by
        rcases List.mem_append.mp ha with h1 | h1
        · exact hSsel a h1
        · exact hXsel a h1) hcov, List.map_append, sum_append_rat]
  have hXzero : (X.map (fun a => posCum a c stP.entries D - posCum a c stP.entries F)).sum = 0 := by
    apply sum_map_zero
    intro a ha
    have hnot : a ∉ ((Spec.userPostings days).map (fun x => x.2.account)) := by
      intro hm
      apply hXS a ha
      rw [← hS]
      unfold Spec.sourceAccounts
      rw [List.mem_filter, List.mem_eraseDups]
      exact ⟨hm, hXsel a ha⟩
    obtain ⟨_, _, _, _, _, _, h5, _⟩ := hacc a (hselAL a (hXsel a ha))
    exact h5 (commoditiesOf_nil_not_mem (commoditiesOf_nil_of_not_mem hnot) c)
  have hmD : Spec.mtmPosOver v days S c D = some ((S.map (fun a => (Spec.mtmPos v days a c D).getD 0)).sum) := by
    unfold Spec.mtmPosOver
    rw [mapM_some_getD _ S (fun a ha => by
      obtain ⟨mD, _, h1, _⟩ := hacc a (hselAL a (hSsel a ha)); exact ⟨mD, h1⟩)]
    rfl
  have hmF : Spec.mtmPosOver v days S c F = some ((S.map (fun a => (Spec.mtmPos v days a c F).getD 0)).sum) := by
    unfold Spec.mtmPosOver
    rw [mapM_some_getD _ S (fun a ha => by
      obtain ⟨_, mF, _, h2, _⟩ := hacc a (hselAL a (hSsel a ha)); exact ⟨mF, h2⟩)]
    rfl
  refine ⟨_, _, hmD, hmF, ?_⟩
  have hdev : ∀ a ∈ S,
      -((Spec.stepCount v days a F D c : Rat) * ulp 8) ≤
        (posCum a c stP.entries D - posCum a c stP.entries F) -
          ((Spec.mtmPos v days a c D).getD 0 - (Spec.mtmPos v days a c F).getD 0) ∧
      (posCum a c stP.entries D - posCum a c stP.entries F) -
          ((Spec.mtmPos v days a c D).getD 0 - (Spec.mtmPos v days a c F).getD 0) ≤
        (Spec.stepCount v days a F D c : Rat) * ulp 8 := by
    intro a ha
    obtain ⟨mD, mF, h1, h2, h3, h4, _⟩ := hacc a (hselAL a (hSsel a ha))
    rw [h1, h2]
    exact ⟨h3, h4⟩
  obtain ⟨s1, s2⟩ := sum_bounds _ _ S hdev
  rw [sum_map_sub, sum_map_sub, sum_map_sub] at s1 s2
  rw [sum_map_sub] at hXzero
  have hzeroF : F = cfg.span.start - 1 → posCum r c stF.entries F = 0 := by
    intro hFe
    rw [hsum F, sum_map_zero _ S (fun a ha => by
        obtain ⟨_, _, _, _, _, _, _, h6⟩ := hacc a (hselAL a (hSsel a ha)); exact h6 hFe),
      sum_map_zero _ X (fun a ha => by
        obtain ⟨_, _, _, _, _, _, _, h6⟩ := hacc a (hselAL a (hXsel a ha)); exact h6 hFe)]
    exact Rat.add_zero 0
  unfold Spec.stepCountOver
  rw [natCast_sum_mul, List.map_map, hsum D, hsum F]
  obtain ⟨r1, r2⟩ := arith_row _ _ _ _ _ _ _ hXzero s1 s2
  exact ⟨r1, r2, by rw [← hsum F]; exact hzeroF⟩

end Knut.MTM
