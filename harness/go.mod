module verifharness

go 1.21

require (
	github.com/fatih/color v1.15.0
	github.com/sboehler/knut v0.0.0
	github.com/shopspring/decimal v1.3.1
)

require (
	github.com/mattn/go-colorable v0.1.13 // indirect
	github.com/mattn/go-isatty v0.0.19 // indirect
	github.com/sourcegraph/conc v0.3.0 // indirect
	golang.org/x/exp v0.0.0-20230817173708-d852ddb80c63 // indirect
	golang.org/x/sync v0.3.0 // indirect
	golang.org/x/sys v0.11.0 // indirect
	gopkg.in/yaml.v2 v2.4.0 // indirect
)

replace github.com/sboehler/knut => /repo
