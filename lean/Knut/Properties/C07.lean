import Knut.Proofs.SyntaxFile
import Knut.Proofs.SyntaxExamples
/-!
# C07 — The parser is total and its tree is a lossless cover of the text

`parseText path text` is the model of `syntax.ParseFile` after reading the file
(`parser.New(text, path)`, `Advance()`, `ParseFile()`); `text` ranges over all byte strings (`List UInt8`),
valid UTF-8 or not. A result is `.ok file` or `.error chain`. Only property theorems and their non-vacuity
examples live here; the predicates are those of `Knut/Spec/SyntaxTree.lean`, which the monitor evaluates on
the Go parser's output.
-/
namespace Knut.C07
open Knut Knut.Syntax Knut.Spec.Syntax Knut.Utf8

/-- **total**: every byte string yields a tree or an error chain. (The model has no other outcome: the parser
functions are total Lean functions whose loops are defined by well-founded recursion on the number of
unconsumed tokens — `accountLoop`, `perfLoop`, `addonsLoop`, `bookingsLoop`, `balancesLoop`, `fileLoop`,
`readWhileL`, … — so "terminates" is part of the definitions being accepted.) -/
theorem C07_total (path : String) (text : List UInt8) :
    (∃ f, parseText path text = .ok f) ∨ (∃ e, parseText path text = .error e) := by
  cases h : parseText path text with
  | ok f => exact Or.inl ⟨f, rfl⟩
  | error e => exact Or.inr ⟨e, rfl⟩

/-- **no out-of-range slice while scanning**: every scanner state reachable by consuming tokens from the initial
state has its offset inside the text, and the unread tokens spell exactly the rest of the text
(so `s.text[s.offset:]` in `Advance`/`Backtrack` never panics). -/
theorem C07_offsets_in_text (text : List UInt8) (s : St) (h : Ext ⟨0, decodeAll text⟩ s) :
    s.off ≤ text.length ∧ text.drop s.off = flat s.toks :=
  let g := (good_start text).ext h
  ⟨g.le, g.drop⟩

/-- every state the parser ends in, whatever the outcome, is such a state -/
theorem C07_parse_stays_in_text (path : String) (text : List UInt8) :
    Ext ⟨0, decodeAll text⟩ (parseFile path ⟨0, decodeAll text⟩).st :=
  fileLoop_ext path 0 [] _

/-- **error position inside the input**: every link of a returned error chain that carries a position has
`start ≤ end ≤ len(text)` (`Error{}` and `io.EOF` carry none). -/
theorem C07_error_in_bounds {path : String} {text : List UInt8} {e : Err}
    (h : parseText path text = .error e) :
    ∀ fr ∈ e, ∀ msg r, fr = Frame.at msg r → r.start ≤ r.stop ∧ r.stop ≤ text.length := by
  have := parseText_err h
  simp only [errOK, List.all_eq_true] at this
  intro fr hfr msg r hf
  have := this fr hfr
  subst hf
  simp only [frameOK, within_iff] at this
  omega

/-- the same, as the executable predicate the monitor uses -/
theorem C07_errOK {path : String} {text : List UInt8} {e : Err} (h : parseText path text = .error e) :
    errOK text.length e = true := parseText_err h

/-- **renderable**: `Error()` of the chain is a total function of (path, text, chain) — it indexes nothing —
and every reported location is a proper `line:col` (both ≥ 1). -/
theorem C07_error_renderable (path : String) (text : List UInt8) (e : Err) :
    (∃ s : String, renderErr path (decodeAll text) e = s) ∧
    ∀ stop, 1 ≤ (location (decodeAll text) stop).1 ∧ 1 ≤ (location (decodeAll text) stop).2 :=
  ⟨⟨_, rfl⟩, fun stop => locationL_pos stop 0 1 1 _ (Nat.le_refl _) (Nat.le_refl _)⟩

/-- **ranges in the text, children in their parents**: the whole tree is nested inside `[0, len(text)]`. -/
theorem C07_ranges_nested {path : String} {text : List UInt8} {f : File} (h : parseText path text = .ok f) :
    nodeWF 0 text.length f.toNode = true := by
  obtain ⟨h1, _, h3, _⟩ := parseText_ok h
  simp only [File.toNode, nodeWF_mk, h1, nodesWF_map]
  exact ⟨⟨Nat.le_refl _, Nat.zero_le _, Nat.le_refl _⟩, h3⟩

/-- the file's own range is the whole text -/
theorem C07_file_range {path : String} {text : List UInt8} {f : File} (h : parseText path text = .ok f) :
    f.range = ⟨0, text.length⟩ := (parseText_ok h).1

/-- **top-level directives in increasing order, disjoint** (and non-empty). -/
theorem C07_top_level_sorted_disjoint {path : String} {text : List UInt8} {f : File} (h : parseText path text = .ok f) :
    sortedDisjoint 0 (f.directives.map (·.range)) = true := (parseText_ok h).2.1

/-- **each element's text is the slice it points to**: for every element of the tree `Extract()` is defined
(no slice bound is violated) and equals `text[start:end]`. -/
theorem C07_extract_is_slice {path : String} {text : List UInt8} {f : File} (h : parseText path text = .ok f) :
    nodeAll (extractOK text) f.toNode = true :=
  nodeAll_of_wf text _ 0 text.length (C07_ranges_nested h) (Nat.le_refl _)

/-- **outside the directives only whitespace and comment lines**. -/
theorem C07_gaps_blank_or_comment {path : String} {text : List UInt8} {f : File} (h : parseText path text = .ok f) :
    ∀ g ∈ gapsOf text 0 (f.directives.map (·.range)), gapOK g = true := by
  have := (parseText_ok h).2.2.2
  simpa [List.all_eq_true] using this

/-- **gaps and directives interleave to the exact input**. -/
theorem C07_cover {path : String} {text : List UInt8} {f : File} (h : parseText path text = .ok f) :
    interleave (gapsOf text 0 (f.directives.map (·.range)))
      ((f.directives.map (·.range)).map fun r => slice text r.start r.stop) = text := by
  obtain ⟨_, h2, h3, _⟩ := parseText_ok h
  have := interleave_cover text 0 (f.directives.map (·.range)) h2 (by
    intro r hr
    obtain ⟨d, hd, rfl⟩ := List.mem_map.mp hr
    have := h3 d hd
    simp only [Directive.toNode, nodeWF_mk] at this
    exact this.1.2.2) (Nat.zero_le _)
  simpa using this

/-- all clauses about a returned tree at once: the monitor's predicate holds of the model's tree. -/
theorem C07_treeOK {path : String} {text : List UInt8} {f : File} (h : parseText path text = .ok f) :
    treeOK text f.toNode = true := by
  have hc := C07_cover h
  have hg := (parseText_ok h).2.2.2
  have hs := C07_top_level_sorted_disjoint h
  have hw := C07_ranges_nested h
  have e : (f.toNode.children.map Node.range) = f.directives.map (·.range) := by
    simp [File.toNode, Node.children, Directive.toNode, Node.range, Function.comp_def]
  simp only [treeOK, e, hw, hs, hg, hc, Bool.and_self, beq_self_eq_true]

/-! ## Non-vacuity -/

/-- a text that parses: a comment line and an `open` directive … -/
example : parseText "j.knut" (bytesOf "#c\n2020-01-01 open A:B\n") =
    .ok ⟨⟨0, 23⟩, [⟨⟨3, 22⟩, .open ⟨⟨3, 22⟩, ⟨⟨3, 13⟩⟩, ⟨⟨19, 22⟩, false⟩⟩⟩]⟩ := ex_parse

/-- … whose gaps are the comment line and the final line break -/
example : gapsOf (bytesOf "#c\n2020-01-01 open A:B\n") 0 [⟨3, 22⟩] = [bytesOf "#c\n", bytesOf "\n"] := by decide

/-- a text that does not parse (invalid UTF-8 after the first digit), with its error chain -/
example : ∃ e, parseText "j.knut" [0x32, 0xff] = .error e ∧ e.length = 5 := ⟨_, ex_invalid, rfl⟩

/-- the predicates can fail: a child outside its parent, an unsorted pair, a gap with text in it -/
example : nodeWF 0 10 (.mk 1 ⟨0, 5⟩ [.mk 8 ⟨4, 6⟩ []]) = false := by decide
example : sortedDisjoint 0 [⟨5, 8⟩, ⟨7, 9⟩] = false := by decide
example : gapOK (bytesOf "\n  x\n") = false := by decide
example : gapOK (bytesOf " \t\r\n* heading\n// c\n#\n\n") = true := by decide
example : errOK 3 [Frame.at "m" ⟨2, 4⟩] = false := by decide

end Knut.C07
