import Knut.GoSem.Basic
/-!
# Meaning of `lib/common/multimap` (the tree of report nodes) for the translated code

`multimap.Node[V]` is a tree with a `map[string]*Node[V]` of children and a slice `Sorted` of pointers to the same
children.  The translator does not translate the package (generic recursive type, recursive methods, pointers into the
tree); it PINS the source text of the declarations below (`harness/trans_tree.go`: a change of `multimap.go` rejects every
user) and gives them this meaning:

* a node is a VALUE; `Children` is an association list; `Sorted` is kept as the list of the children's KEYS in sorted
  order (`SortedKeys`) and read back through the children (`MNode.Sorted`), so that — as with the pointers of the Go
  code — a child updated after sorting is seen updated through `Sorted`.  (The Go API never deletes or replaces a child.)
* `n.GetOrCreate(ss)` returns a pointer INTO the tree: the translation creates the path (`MNode.create`), binds the result
  to the node at the path (`MNode.getAt`) and writes every assignment through it back (`MNode.setAt`).
* `n.Sort(f)` with a pure comparator: every node's `SortedKeys` are its children's keys ordered by `f` on the children
  (`less = (f = Smaller)` of the unstable `sort.Slice`: exact when `f` is a strict total order on each node's children, as
  for `sortedValues`).
* `n.PostOrder(f)`: the children in the map's iteration order — a parameter `ord : path ↦ keys`, over which agreement
  theorems quantify — each traversed before `f` runs on the node; `f` is a state transformer on (captured state, node)
  and is told the node's path (so that iteration orders inside `f` may differ from node to node).  The recursion runs on
  fuel `MNode.height`; `postOrder_fuel` (Proofs) shows that it suffices.

Differential test: stream `gosem` (harness/gosem_tree.go) runs random programs of these operations on the real package.
-/
namespace Knut.GoSem

/-- `multimap.Node[V]` -/
structure MNode (V : Type) where
  Segment : String
  Value : V
  Children : List (String × MNode V)
  SortedKeys : List String

namespace MNode
variable {V : Type}

/-- `multimap.New[V](segment)` -/
def new [GoZero V] (segment : String) : MNode V := ⟨segment, GoZero.zero, [], []⟩

instance [GoZero V] : GoZero (MNode V) := ⟨new ""⟩

/-- `n.Children[k]` -/
def child? (n : MNode V) (k : String) : Option (MNode V) := AMap.find? n.Children k

/-- `n.Sorted`: the children in the order of the last `Sort` -/
def Sorted (n : MNode V) : List (MNode V) := n.SortedKeys.filterMap (fun k => AMap.find? n.Children k)

/-- the tree after `n.GetOrCreate(ss)`: missing nodes of the path are created with the zero value -/
def create [GoZero V] : List String → MNode V → MNode V
  | [], n => n
  | s :: rest, n => { n with Children := AMap.set n.Children s (create rest ((AMap.find? n.Children s).getD (new s))) }

/-- the node `n.GetOrCreate(ss)` points to (after `create`) -/
def getAt [GoZero V] : MNode V → List String → MNode V
  | n, [] => n
  | n, s :: rest => getAt ((AMap.find? n.Children s).getD (new s)) rest

/-- assignment through the pointer `n.GetOrCreate(ss)`: the node at the path is replaced -/
def setAt : MNode V → List String → MNode V → MNode V
  | _, [], v => v
  | n, s :: rest, v =>
    match AMap.find? n.Children s with
    | some c => { n with Children := AMap.set n.Children s (setAt c rest v) }
    | none => n

/-- `multimap.SortAlpha(n1, n2)` -/
def sortAlpha (n1 n2 : MNode V) : Int := cmpOrdered n1.Segment n2.Segment

mutual
/-- `n.Sort(f)` -/
def sort (cmp : MNode V → MNode V → Int) : MNode V → MNode V
  | ⟨seg, v, cs, _⟩ =>
    let cs' := sortChildren cmp cs
    ⟨seg, v, cs', (cs'.mergeSort (fun a b => decide (cmp a.2 b.2 ≠ 1))).map Prod.fst⟩
def sortChildren (cmp : MNode V → MNode V → Int) : List (String × MNode V) → List (String × MNode V)
  | [] => []
  | (k, c) :: rest => (k, sort cmp c) :: sortChildren cmp rest
end

mutual
/-- number of levels of the tree (a leaf has height 1) -/
def height : MNode V → Nat
  | ⟨_, _, cs, _⟩ => heightL cs + 1
def heightL : List (String × MNode V) → Nat
  | [] => 0
  | (_, c) :: rest => max (height c) (heightL rest)
end

/-- `n.PostOrder(f)` on fuel -/
def postOrderF {σ : Type} (f : List String → σ → MNode V → Outcome (σ × MNode V)) (ord : List String → List String) :
    Nat → List String → σ → MNode V → Outcome (σ × MNode V)
  | 0, _, _, _ => .outOfFuel
  | fuel + 1, path, s, n =>
    (foldlE (fun (st : σ × List (String × MNode V)) key =>
        match AMap.find? st.2 key with
        | none => .ok st
        | some ch => (postOrderF f ord fuel (path ++ [key]) st.1 ch).bind fun r => .ok (r.1, AMap.set st.2 key r.2))
      (s, n.Children) (ord path)).bind fun st => f path st.1 { n with Children := st.2 }

/-- `n.PostOrder(f)`: `ord path` is the order in which Go's `range n.Children` yields the keys of the node at `path` -/
def postOrder {σ : Type} (f : List String → σ → MNode V → Outcome (σ × MNode V)) (ord : List String → List String)
    (s : σ) (n : MNode V) : Outcome (σ × MNode V) :=
  postOrderF f ord (height n) [] s n

end MNode
end Knut.GoSem
