import Knut.Proofs.DecRoundTrip
/-!
# C09 (and the decimal clause of C17) — decimals re-read to the same value

`showScaled`/`showDec` model shopspring's `StringFixed`/`String()` (what `knut print` and the table
renderer write), `parseDec` models `NewFromString` on the decimals the journal grammar admits (both are
tied to the Go code by the byte-exact `dec` correspondence streams).  Proved here, for ALL integers,
scales and decimal rationals:

* `C09_dec_scaled_roundtrip` – the text with exactly `k` fractional digits of `m / 10^k` re-reads to `m / 10^k`;
* `C09_dec_string_roundtrip` – `String()` of any rational whose denominator divides a power of ten
  re-reads to that rational; `C09_dec_string_roundtrip_mkRat` is the same for `r = m / 10^k`;
* `C09_dec_string_shortest` – `String()` prints the least number of decimals that represents `r` exactly
  (`C09_dec_scale_exact`: that number does represent it).

The digit function is core's `toString : Nat → String` itself (see `Proofs/DecRoundTrip.lean`).
The hypothesis "decimal rational" is necessary (see the `1/3` example) and is satisfied by every amount
of a journal: the parser builds amounts as `mkRat m (10^k)` and sums/negations of such.
-/
namespace Knut.C09
open Knut Knut.Dec

/-- printed with `k` fractional digits, `m / 10^k` re-reads to exactly `m / 10^k` (every integer `m`, every scale `k`) -/
theorem C09_dec_scaled_roundtrip (m : Int) (k : Nat) :
    parseDec (showScaled m k) = some (mkRat m (10 ^ k)) :=
  parseDec_showScaled m k

/-- `String()` then `NewFromString` is the identity on every decimal rational -/
theorem C09_dec_string_roundtrip (r : Rat) (k : Nat) (h : r.den ∣ 10 ^ k) :
    parseDec (showDec r) = some r :=
  parseDec_showDec r k h

theorem C09_dec_string_roundtrip_mkRat (m : Int) (k : Nat) :
    parseDec (showDec (mkRat m (10 ^ k))) = some (mkRat m (10 ^ k)) :=
  parseDec_showDec _ k (den_mkRat_pow10_dvd m k)

/-- the scale `String()` chooses represents a decimal rational exactly … -/
theorem C09_dec_scale_exact (r : Rat) (k : Nat) (h : r.den ∣ 10 ^ k) :
    mkRat (r.num * pow10 (scaleOf r) / r.den) (10 ^ scaleOf r) = r :=
  mkRat_scaled r (scaleOf r) (den_dvd_scaleOf r k h)

/-- … and no smaller scale does: `String()` is the shortest plain decimal -/
theorem C09_dec_string_shortest (r : Rat) (j : Nat) (h : j < scaleOf r) : ¬ r.den ∣ 10 ^ j :=
  scaleOf_min r j h

/-- what the parser reads (`mkRat m (10^k)`) is a decimal rational, and sums, negations and products of
decimal rationals are decimal rationals: every amount a journal can produce (quantities, balances,
quantity × price) satisfies the hypothesis of `C09_dec_string_roundtrip` -/
theorem C09_dec_parsed_is_decimal (m : Int) (k : Nat) : (mkRat m (10 ^ k)).den ∣ 10 ^ k :=
  den_mkRat_pow10_dvd m k

theorem C09_dec_closed_add (a b : Rat) (i j : Nat) (ha : a.den ∣ 10 ^ i) (hb : b.den ∣ 10 ^ j) :
    (a + b).den ∣ 10 ^ (i + j) := dec_add a b i j ha hb

theorem C09_dec_closed_mul (a b : Rat) (i j : Nat) (ha : a.den ∣ 10 ^ i) (hb : b.den ∣ 10 ^ j) :
    (a * b).den ∣ 10 ^ (i + j) := dec_mul a b i j ha hb

theorem C09_dec_closed_neg (r : Rat) (k : Nat) (h : r.den ∣ 10 ^ k) : (-r).den ∣ 10 ^ k := by
  rw [Rat.neg_den]; exact h

/-! Non-vacuity: `5/4 = 125/10^2` satisfies the hypothesis and prints as `1.25`.  `1/3` does not; the model
prints `0.333` for it and the round trip fails, so the hypothesis cannot be dropped. -/
example : (mkRat 5 4).den ∣ 10 ^ 2 := by decide
example : parseDec (showDec (mkRat 5 4)) = some (mkRat 5 4) :=
  C09_dec_string_roundtrip _ 2 (by decide)
example : showDec (mkRat 5 4) = "1.25" := by decide
example : showDec (mkRat (-5) 4) = "-1.25" := by decide
example : showScaled (-5) 3 = "-0.005" := by decide
example : showDec (mkRat 1 3) = "0.333" := by decide
example : parseDec (showDec (mkRat 1 3)) ≠ some (mkRat 1 3) := by decide

end Knut.C09
