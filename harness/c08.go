package main

import (
	"bytes"
	"encoding/hex"
	"fmt"
	"os"
	"os/exec"
	"path/filepath"
	"strings"
	"time"

	"github.com/sboehler/knut/lib/syntax"
)

func init() { runners["C08"] = runC08 }

// implFormat runs syntax.FormatFile on a parsed file (what formatRunner.formatFile does after parsing).
func implFormat(res synResult) (out string, outcome string) {
	defer func() {
		if r := recover(); r != nil {
			outcome = "panic " + fmt.Sprint(r)
		}
	}()
	var buf bytes.Buffer
	if err := syntax.FormatFile(&buf, res.File); err != nil {
		return "", "error " + err.Error()
	}
	return buf.String(), "ok"
}

type c08run struct {
	c        *Ctx
	bt       *Batch
	suspects []string
}

// one: in-process parse + format of one text; model comparison and the property monitors on the real output.
func (x *c08run) one(stream string, index int, text string, kinds []string) {
	c := x.c
	c.Evals++
	path := c07Path
	res := implParse(text, path)
	in := textInput(text, kinds)
	var impl, out string
	switch res.Outcome {
	case "err":
		impl = "rejected"
	case "ok":
		var oc string
		out, oc = implFormat(res)
		if oc == "ok" {
			impl = "ok " + Hex(out)
		} else {
			impl = oc
		}
	default:
		impl = res.Outcome
	}
	x.bt.Add(func(model string) {
		if !c.Compare(stream, index, "c08format", in, impl, model) && len(x.suspects) < 8 && len(text) < 5000 {
			x.suspects = append(x.suspects, text)
		}
	}, "c08format", Hex(path), Hex(text))
	if res.Outcome != "ok" {
		c.Class("rejected/" + synClass(res, nil))
		c.Tag(stream + "/rejected")
		return
	}
	changed := "same"
	if out != text {
		changed = "changed"
	}
	c.Class("formatted/" + changed + "/" + synClass(res, kinds))
	c.Tag(stream + "/" + changed)
	if index >= 0 && index < 2 {
		c.Sample(map[string]any{"stream": stream, "input": in, "formatted": clipTo(out, 400)})
	}
	if !strings.HasPrefix(impl, "ok") {
		c.Monitor(stream, index, "C08_format_total", in, false, impl)
		return
	}
	// monitor 1: the output parses
	res2 := implParse(out, path)
	if !c.Monitor(stream, index, "C08_reparse(output parses)", in, res2.Outcome == "ok", "formatted text "+clipTo(fmt.Sprintf("%q", out), 600)+" => "+clipTo(res2.String(), 300)) {
		return
	}
	// monitor 2: same directives and fields, gaps byte for byte (Lean predicate formatOK on the two real trees)
	x.bt.Add(func(mon string) {
		c.Monitor(stream, index, "formatOK", in, mon == "ok", "formatted text "+clipTo(fmt.Sprintf("%q", out), 600)+" => "+mon)
	}, "c08mon", Hex(text), res.Dump, Hex(out), res2.Dump)
	// monitor 3: formatting the result again changes nothing
	out2, oc2 := implFormat(res2)
	c.Monitor(stream, index, "C08_idempotent", in, oc2 == "ok" && out2 == out, "first "+clipTo(fmt.Sprintf("%q", out), 400)+" second "+clipTo(fmt.Sprintf("%q", out2), 400)+" "+oc2)
}

// runFormatCLI runs `knut format files...` and returns exit status and stderr.
func runFormatCLI(knut string, files ...string) (int, string) {
	cmd := exec.Command(knut, append([]string{"format"}, files...)...)
	var stderr bytes.Buffer
	cmd.Stderr = &stderr
	cmd.Stdout = &stderr
	done := make(chan error, 1)
	if err := cmd.Start(); err != nil {
		return -1, err.Error()
	}
	go func() { done <- cmd.Wait() }()
	select {
	case err := <-done:
		if err == nil {
			return 0, stderr.String()
		}
		if ee, ok := err.(*exec.ExitError); ok {
			return ee.ExitCode(), stderr.String()
		}
		return -1, err.Error()
	case <-time.After(20 * time.Second):
		cmd.Process.Kill()
		return -2, "timeout"
	}
}

// cli: the command on real files (one or two files per invocation).
func (x *c08run) cli(index int, texts []string) {
	c := x.c
	dir := filepath.Join(c.WorkDir, fmt.Sprintf("c08-%d", index))
	os.MkdirAll(dir, 0o755)
	defer os.RemoveAll(dir)
	var files []string
	for i, t := range texts {
		f := filepath.Join(dir, fmt.Sprintf("f%d.knut", i))
		if err := os.WriteFile(f, []byte(t), 0o644); err != nil {
			fatalf("%v", err)
		}
		files = append(files, f)
	}
	status, stderr := runFormatCLI(c.KnutBin, files...)
	anyRejected := false
	for i, t := range texts {
		c.Evals++
		after, err := os.ReadFile(files[i])
		in := textInput(t, nil)
		in["files_in_invocation"] = len(texts)
		if err != nil {
			c.Monitor("cli", index, "C08_file_survives", in, false, err.Error())
			continue
		}
		impl := "ok " + Hex(string(after))
		parsed := implParse(t, files[i]).Outcome == "ok"
		if !parsed {
			anyRejected = true
			impl = "rejected"
			// monitor: a file that does not parse is left exactly as it was
			c.Monitor("cli", index, "C08_unparseable_untouched", in, string(after) == t, fmt.Sprintf("file after: %q (exit %d, %s)", clipTo(string(after), 300), status, clipTo(stderr, 200)))
			c.Tag("cli/rejected")
		} else {
			c.Tag("cli/formatted")
		}
		i := i
		x.bt.Add(func(model string) {
			c.Compare("cli", index, fmt.Sprintf("c08format(file %d of %d)", i, len(texts)), in, impl, model)
		}, "c08format", Hex(files[i]), Hex(t))
		// other leftovers in the directory (temp files of the atomic write) would show a partial write
	}
	ents, _ := os.ReadDir(dir)
	c.Monitor("cli", index, "C08_no_leftover_files", map[string]any{"files": len(texts)}, len(ents) == len(texts), fmt.Sprintf("%d entries in the directory", len(ents)))
	wantStatus := 0
	if anyRejected {
		wantStatus = 1
	}
	c.Compare("cli", index, "exit status", map[string]any{"texts_hex": hexAll(texts)}, fmt.Sprint(status), fmt.Sprint(wantStatus))
	c.Class(fmt.Sprintf("cli/files%d/status%d", len(texts), status))
}

func hexAll(ts []string) []string {
	r := make([]string, len(ts))
	for i, t := range ts {
		r[i] = hex.EncodeToString([]byte(t))
	}
	return r
}

// synFormatStress builds layouts the formatter has to normalise: wide amounts, Unicode accounts (padding counts
// runes), addons in both orders, one-balance multi-line assertions, no final newline, tabs and CRs inside directives.
func synFormatStress(r *RNG) (string, []string) {
	g := &synGen{r: r, nl: Pick(r, []string{"\n", "\n", "\r\n"}), ws: []string{" ", "\t", "  ", "\r"}, tags: map[string]bool{}, unicode: true}
	var b strings.Builder
	var kinds []string
	n := r.Range(1, 4)
	for i := 0; i < n; i++ {
		if r.Chance(1, 3) {
			b.WriteString(g.comment() + g.nl)
		}
		switch r.Intn(5) {
		case 0: // one-balance multi-line assertion
			b.WriteString(g.date() + g.sp() + "balance" + g.eol() + g.balance())
			if i < n-1 || r.Chance(1, 2) {
				b.WriteString(g.eol())
			}
			kinds = append(kinds, "balanceN1")
		case 1: // addons, then a non-transaction directive (the annotations are dropped by the parser)
			b.WriteString(g.performance() + g.eol() + g.date() + g.sp() + "open" + g.sp() + g.account() + g.eol())
			kinds = append(kinds, "addons+open")
		default:
			kind := "trx"
			switch r.Intn(4) {
			case 0:
				b.WriteString(g.performance() + g.eol() + g.accrual() + g.eol())
				kind += "+perf+accrue"
			case 1:
				b.WriteString(g.accrual() + g.eol() + g.performance() + g.eol())
				kind += "+accrue+perf"
			}
			b.WriteString(g.date() + g.sp() + "\"" + g.description() + "\"" + g.eol())
			m := r.Range(1, 3)
			for k := 0; k < m; k++ {
				amt := g.decimal()
				if r.Chance(1, 3) {
					amt = strings.Repeat("9", r.Range(9, 14)) + "." + strings.Repeat("1", r.Range(1, 3))
				}
				b.WriteString(g.account() + g.sp() + g.account() + g.sp() + amt + g.sp() + g.commodity())
				if k < m-1 || i < n-1 || r.Chance(1, 2) {
					b.WriteString(g.eol())
				} else {
					kind += "+eof"
				}
			}
			if i < n-1 {
				b.WriteString(g.eol())
			}
			kinds = append(kinds, kind)
		}
		if i < n-1 && r.Chance(1, 2) {
			b.WriteString(g.nl)
		}
	}
	for t := range g.tags {
		kinds = append(kinds, "~"+t)
	}
	return b.String(), kinds
}

func runC08(c *Ctx) {
	x := &c08run{c: c, bt: c.NewBatch()}
	x.bt.Limit = 3000
	defer x.bt.Flush()

	if c.Replay && c.ReplayInput != nil {
		if h, ok := c.ReplayInput["text_hex"].(string); ok && !strings.HasSuffix(h, "...") {
			if b, err := hex.DecodeString(h); err == nil {
				c.Replay = false
				if c.OnlyStr == "cli" {
					x.cli(c.OnlyIndex, []string{string(b)})
				} else {
					x.one(c.OnlyStr, c.OnlyIndex, string(b), nil)
				}
				return
			}
		}
	}

	// ---- corpus
	corpus := synCorpus()
	names := make([]string, 0, len(corpus))
	for k := range corpus {
		names = append(names, k)
	}
	sortStrings(names)
	for i, name := range names {
		if c.Want("corpus", i) {
			x.one("corpus", i, corpus[name], []string{"corpus:" + name})
		}
	}

	// ---- journal: grammar-based layouts, mostly parseable
	nJ := c.N(9000, 350000)
	for i := 0; i < nJ; i++ {
		if !c.Want("journal", i) {
			continue
		}
		text, kinds := synJournal(c.Rng("journal", i))
		x.one("journal", i, text, kinds)
	}

	// ---- stress: layouts the formatter must normalise
	nS := c.N(4000, 120000)
	for i := 0; i < nS; i++ {
		if !c.Want("stress", i) {
			continue
		}
		text, kinds := synFormatStress(c.Rng("stress", i))
		x.one("stress", i, text, kinds)
	}

	// ---- mutated: mostly unparseable files, and parseable ones in odd layouts
	nM := c.N(3000, 100000)
	for i := 0; i < nM; i++ {
		if !c.Want("mutated", i) {
			continue
		}
		r := c.Rng("mutated", i)
		text, _ := synJournal(r)
		x.one("mutated", i, synMutate(r, text), []string{"mutated"})
	}

	// ---- fixpoints: formatting already formatted text (second generation inputs)
	nF := c.N(1500, 30000)
	for i := 0; i < nF; i++ {
		if !c.Want("formatted", i) {
			continue
		}
		text, kinds := synJournal(c.Rng("formatted", i))
		res := implParse(text, c07Path)
		if res.Outcome != "ok" {
			continue
		}
		if out, oc := implFormat(res); oc == "ok" {
			x.one("formatted", i, out, append(kinds, "~already-formatted"))
		}
	}
	x.bt.Flush()

	// ---- long: accounts above fmt's width limit of 10^6 runes (c08_long.go)
	for i, w := range c08LongWidths(c) {
		if c.Want("long", i) {
			x.one("long", i, c08LongText(i, w), []string{"long"})
		}
	}
	x.bt.Flush()

	// ---- cli: the command on files (in place), one or two files per run
	nC := c.N(300, 4000)
	for i := 0; i < nC; i++ {
		if !c.Want("cli", i) {
			continue
		}
		r := c.Rng("cli", i)
		gen := func() string {
			switch r.Intn(5) {
			case 0:
				t, _ := synJournal(r)
				return synMutate(r, t)
			case 1:
				t, _ := synFormatStress(r)
				return t
			case 2:
				return synRaw(r)
			}
			t, _ := synJournal(r)
			return t
		}
		texts := []string{gen()}
		if r.Chance(1, 5) {
			texts = append(texts, gen())
		}
		x.cli(i, texts)
	}
	x.bt.Flush()

	// ---- flags, flags-infer: every subset of the flags `--help` offers, judged by what is on disk afterwards (c08_cli.go)
	x.flagStreams()

	// ---- directed search around disagreements
	if len(x.suspects) > 0 && !c.Replay {
		n := 0
		for si, s := range x.suspects {
			r := c.Rng("directed", si)
			for p := 0; p <= len(s) && n < 20000; p++ {
				n++
				x.one("directed", -n, s[:p], []string{"directed-prefix"})
				if p < len(s) {
					n++
					x.one("directed", -n, s[:p]+s[p+1:], []string{"directed-delete"})
					n++
					x.one("directed", -n, s[:p]+Pick(r, synInteresting)+s[p:], []string{"directed-insert"})
				}
			}
			for k := 0; k < 300 && n < 20000; k++ {
				n++
				x.one("directed", -n, synMutate(r, s), []string{"directed-mutation"})
			}
		}
		c.Notes = append(c.Notes, fmt.Sprintf("directed search: %d cases around %d inputs on which format and the model differ", n, len(x.suspects)))
	}
}
