import Knut.Model.Pipeline
/-!
# The journal builder receives every directive exactly once, whatever the arrival order
-/
namespace Knut.Pipeline

/-- the directives of date `d` and kind `k` in a list, in order -/
def sel (d : Int) (k : Kind) (l : List Dir) : List Dir := l.filter (fun x => x.date == d && x.kind == k)

theorem Day.get_add (dy : Day) (x : Dir) (k : Kind) :
    (dy.add x).get k = dy.get k ++ (if x.kind = k then [x] else []) := by
  cases hk : x.kind <;> cases k <;> simp [Day.add, Day.get, hk]

@[simp] theorem Day.add_date (dy : Day) (x : Dir) : (dy.add x).date = dy.date := by
  cases hk : x.kind <;> simp [Day.add, hk]

theorem Builder.get_nil (d : Int) (k : Kind) : Builder.get [] d k = [] := rfl

theorem Builder.get_cons (dy : Day) (ds : List Day) (d : Int) (k : Kind) :
    Builder.get (dy :: ds) d k = if dy.date = d then dy.get k else Builder.get ds d k := by
  by_cases h : dy.date = d
  · simp [Builder.get, h]
  · have : (dy.date == d) = false := by simpa using h
    simp [Builder.get, h, this]

theorem Builder.get_add (b : Builder) (x : Dir) (d : Int) (k : Kind) :
    (Builder.add b x).get d k = b.get d k ++ (if x.date = d ∧ x.kind = k then [x] else []) := by
  induction b with
  | nil =>
    simp only [Builder.add, Builder.get_cons, Builder.get_nil, Day.add_date, Day.get_add]
    by_cases hd : x.date = d
    · simp [hd, Day.get]; cases k <;> simp
    · simp [hd]
  | cons dy ds ih =>
    simp only [Builder.add]
    by_cases hx : dy.date = x.date
    · simp only [hx, if_true, Builder.get_cons, Day.add_date, Day.get_add]
      by_cases hd : x.date = d
      · simp [hd]
      · simp [hd]
    · simp only [hx, if_false, Builder.get_cons, ih]
      by_cases hd : dy.date = d
      · have : ¬ x.date = d := by rw [← hd]; exact fun h => hx h.symm
        simp [hd, this]
      · simp [hd]

theorem foldl_add_get (ds : List Dir) (b : Builder) (d : Int) (k : Kind) :
    (ds.foldl Builder.add b).get d k = b.get d k ++ sel d k ds := by
  induction ds generalizing b with
  | nil => simp [sel]
  | cons x xs ih =>
    simp only [List.foldl_cons, ih, Builder.get_add, sel, List.filter_cons]
    by_cases h : x.date = d ∧ x.kind = k
    · simp [h.1, h.2]
    · have : (x.date == d && x.kind == k) = false := by
        simp only [Bool.and_eq_false_iff, beq_eq_false_iff_ne]
        by_cases h1 : x.date = d
        · right; exact fun h2 => h ⟨h1, h2⟩
        · left; exact h1
      simp [h, this]

theorem stream_get_aux (arrival : List (List Dir)) (b : Builder) (d : Int) (k : Kind) :
    (arrival.foldl (fun b ds => ds.foldl Builder.add b) b).get d k = b.get d k ++ sel d k arrival.flatten := by
  induction arrival generalizing b with
  | nil => simp [sel]
  | cons ds rest ih =>
    simp only [List.foldl_cons, ih, foldl_add_get, List.flatten_cons, sel, List.filter_append, List.append_assoc]

/-- the builder's slice for (date, kind) is exactly the matching directives of the arriving lists, in arrival order -/
theorem stream_get (arrival : List (List Dir)) (d : Int) (k : Kind) :
    (fromModelStream arrival).get d k = sel d k arrival.flatten := by
  have := stream_get_aux arrival [] d k
  simpa [fromModelStream, Builder.get] using this

/-! ### `Build`: the days sorted by date -/

theorem insertDay_perm (d : Day) (l : List Day) : (insertDay d l).Perm (d :: l) := by
  induction l with
  | nil => exact List.Perm.refl _
  | cons e es ih =>
    simp only [insertDay]
    split
    · exact List.Perm.refl _
    · exact (List.Perm.cons e ih).trans (List.Perm.swap d e es)

theorem build_perm (b : Builder) : b.build.Perm b := by
  induction b with
  | nil => exact List.Perm.refl _
  | cons d ds ih =>
    simp only [Builder.build, List.foldr_cons]
    exact (insertDay_perm d _).trans (List.Perm.cons d ih)

theorem insertDay_sorted (d : Day) (l : List Day) (h : l.Pairwise (fun a b => a.date ≤ b.date)) :
    (insertDay d l).Pairwise (fun a b => a.date ≤ b.date) := by
  induction l with
  | nil => simp [insertDay]
  | cons e es ih =>
    simp only [insertDay]
    have ⟨h1, h2⟩ := List.pairwise_cons.mp h
    split
    · rename_i hle
      refine List.pairwise_cons.mpr ⟨?_, h⟩
      intro x hx
      rcases List.mem_cons.mp hx with rfl | hx
      · exact hle
      · exact Int.le_trans hle (h1 x hx)
    · rename_i hnle
      refine List.pairwise_cons.mpr ⟨?_, ih h2⟩
      intro x hx
      have := (insertDay_perm d es).mem_iff.mp hx
      rcases List.mem_cons.mp this with rfl | hx
      · omega
      · exact h1 x hx

theorem build_sorted (b : Builder) : b.build.Pairwise (fun a b => a.date ≤ b.date) := by
  induction b with
  | nil => simp [Builder.build]
  | cons d ds ih =>
    simp only [Builder.build, List.foldr_cons]
    exact insertDay_sorted d _ ih

end Knut.Pipeline
