import Knut.Generated.TransTable
import Knut.Model.Table
import Knut.Proofs.GoSem
import Knut.Proofs.TableNum
/-!
# The translated `lib/common/table` number formatting (`addThousandsSep`, `TextRenderer.numToString`) agrees with the model

`Knut/Generated/TransTable.lean` is regenerated from /repo's `renderer.go` on every run.  The Go code works on the BYTES of the string
(`strings.Index`, the byte offset of `range`, `e[i:]`) and asks `unicode.IsDigit`; the model works on the list of characters with their
positions and ASCII digits.  They agree on ASCII strings — and `StringFixed` only produces ASCII (`showFixed_ascii` is assumed here as a
hypothesis on the argument and discharged for `numToString` by the model's own lemma where available).
-/
namespace Knut.FactsAgree.TransTable
open Knut Knut.GoSem
open Knut.Generated.Go

def Ascii (cs : List Char) : Prop := ∀ c ∈ cs, c.toNat < 128

theorem utf8Size_ascii {c : Char} (h : c.toNat < 128) : c.utf8Size = 1 := by
  unfold Char.utf8Size
  have : c.val.toNat < 128 := h
  simp only [UInt32.le_iff_toNat_le]
  split
  · rfl
  · rename_i h1; exfalso; apply h1; simp; omega

theorem byteLen_ascii (cs : List Char) (h : Ascii cs) : Strings.byteLen (String.ofList cs) = (cs.length : Int) := by
  unfold Strings.byteLen
  rw [String.toList_ofList]
  induction cs with
  | nil => rfl
  | cons c rest ih =>
    have hc := utf8Size_ascii (h c (by simp))
    have := ih (fun x hx => h x (by simp [hx]))
    simp only [List.map_cons, List.sum_cons, hc, List.length_cons]
    omega

theorem runesFrom_cons_ascii (off : Int) (c : Char) (rest : List Char) (h : c.toNat < 128) :
    Strings.runesFrom off (c :: rest) = (off, c) :: Strings.runesFrom (off + 1) rest := by
  simp [Strings.runesFrom, utf8Size_ascii h]

theorem runesFrom_any (cs : List Char) (h : Ascii cs) : ∀ (off o : Int),
    (Strings.runesFrom off cs).any (fun r => decide (r.1 = o)) = decide (off ≤ o ∧ o < off + cs.length) := by
  induction cs with
  | nil => intro off o; simp [Strings.runesFrom] <;> omega
  | cons c rest ih =>
    intro off o
    rw [runesFrom_cons_ascii off c rest (h c (by simp))]
    simp only [List.any_cons, ih (fun x hx => h x (by simp [hx])), List.length_cons]
    by_cases e : off = o
    · subst e; simp; omega
    · simp only [e, decide_false, Bool.false_or]
      congr 1
      apply propext
      constructor <;> intro hh <;> omega

theorem runesFrom_filter (cs : List Char) (h : Ascii cs) : ∀ (off lo : Int), lo ≤ off + cs.length →
    ((Strings.runesFrom off cs).filter (fun r => decide (lo ≤ r.1) && decide (r.1 < off + cs.length))).map (·.2)
      = cs.drop (lo - off).toNat := by
  induction cs with
  | nil => intro off lo _; simp [Strings.runesFrom]
  | cons c rest ih =>
    intro off lo hlo
    rw [runesFrom_cons_ascii off c rest (h c (by simp))]
    have ih' := ih (fun x hx => h x (by simp [hx])) (off + 1) lo (by simp only [List.length_cons] at hlo; omega)
    have e : off + 1 + (rest.length : Int) = off + ((c :: rest).length : Int) := by simp only [List.length_cons]; omega
    rw [e] at ih'
    simp only [List.filter_cons]
    by_cases hle : lo ≤ off
    · have h1 : (lo - off).toNat = 0 := by omega
      have h2 : (lo - (off + 1)).toNat = 0 := by omega
      have h3 : off < off + ((c :: rest).length : Int) := by simp only [List.length_cons]; omega
      simp only [hle, h3, decide_true, Bool.and_self, if_true, List.map_cons, ih', h1, h2, List.drop_zero]
    · have h1 : (lo - off).toNat = (lo - (off + 1)).toNat + 1 := by omega
      simp only [hle, decide_false, Bool.false_and, Bool.false_eq_true, if_false, ih', h1, List.drop_succ_cons]

/-- `e[i:]` on an ASCII string is the list of characters from position `i` on -/
theorem slice_ascii (pre suf : List Char) (h : Ascii (pre ++ suf)) :
    Strings.slice (String.ofList (pre ++ suf)) (pre.length : Int) (Strings.byteLen (String.ofList (pre ++ suf)))
      = GoSem.Outcome.ok (String.ofList suf) := by
  have hb := byteLen_ascii (pre ++ suf) h
  unfold Strings.slice
  simp only [hb, Strings.runes, String.toList_ofList]
  have hlen : ((pre ++ suf).length : Int) = pre.length + suf.length := by simp
  have c1 : ¬ ((pre.length : Int) < 0 ∨ ((pre ++ suf).length : Int) < pre.length ∨ ((pre ++ suf).length : Int) < (pre ++ suf).length) := by
    omega
  simp only [c1, if_false, runesFrom_any _ h]
  have c2 : (decide ((pre.length : Int) = ((pre ++ suf).length : Int)) ||
      decide ((0 : Int) ≤ (pre.length : Int) ∧ (pre.length : Int) < 0 + ((pre ++ suf).length : Int))) = true := by
    by_cases hs : suf.length = 0
    · have : (pre.length : Int) = ((pre ++ suf).length : Int) := by omega
      simp only [this, decide_true, Bool.true_or]
    · have h1 : (pre.length : Int) < 0 + ((pre ++ suf).length : Int) := by omega
      have h2 : (0 : Int) ≤ (pre.length : Int) := by omega
      simp only [h1, h2, and_self, decide_true, Bool.or_true]
  simp only [c2, decide_true, Bool.true_or, Bool.and_self, if_true]
  have := runesFrom_filter (pre ++ suf) h 0 pre.length (by omega)
  simp only [Int.zero_add, Int.sub_zero, Int.toNat_natCast] at this
  rw [this]
  simp

theorem isDigit_ascii : ∀ n : Fin 128, Knut.Syntax.isDigit n.val = (decide (48 ≤ n.val) && decide (n.val ≤ 57)) := by
  decide +kernel

theorem IsDigit_agrees (c : Char) (h : c.toNat < 128) : Unicode.IsDigit c = Knut.Dec.isDigit c := by
  unfold Unicode.IsDigit Knut.Dec.isDigit
  have := isDigit_ascii ⟨c.toNat, h⟩
  simp only at this
  rw [this]
  simp [Char.le_def, UInt32.le_iff_toNat_le]
  try rfl

/-- `strings.Index(e, ".")` on an ASCII string: the position of the first point (offset `off`), or `-1` -/
theorem indexFrom_point (cs : List Char) (h : Ascii cs) : ∀ off : Int,
    Strings.indexFrom ['.'] off cs = if '.' ∈ cs then off + (cs.idxOf '.' : Int) else -1 := by
  induction cs with
  | nil => intro off; simp [Strings.indexFrom]
  | cons c rest ih =>
    intro off
    have ih' := ih (fun x hx => h x (by simp [hx])) (off + 1)
    by_cases hc : c = '.'
    · subst hc; simp [Strings.indexFrom, List.isPrefixOf, List.idxOf_cons]
    · have hc' : ¬ '.' = c := fun e => hc e.symm
      have hb : (c == '.') = false := by simpa using hc
      have hpre : List.isPrefixOf ['.'] (c :: rest) = false := by simp [List.isPrefixOf, hc']
      simp only [Strings.indexFrom, hpre, Bool.false_eq_true, if_false, utf8Size_ascii (h c (by simp)), Int.natCast_one, ih']
      have hidx : (c :: rest).idxOf '.' = rest.idxOf '.' + 1 := by simp [List.idxOf_cons, hb]
      by_cases hm : '.' ∈ rest
      · have : '.' ∈ c :: rest := by simp [hm]
        simp only [hm, this, if_true, hidx, Int.natCast_add, Int.natCast_one]; omega
      · have : ¬ '.' ∈ c :: rest := by simp [hm, hc']
        simp only [hm, this, if_false]

/-- the loop of `addThousandsSep` from position `|pre|` on is the model's `sepLoop`: the builder receives exactly its characters -/
theorem range1_agrees (all : List Char) (hasc : Ascii all) (index : Int) :
    ∀ (suf pre : List Char), all = pre ++ suf → ∀ (b : String) (ok : Bool),
      ∃ ok', table.addThousandsSep.range1 (String.ofList all) index (Strings.runesFrom (pre.length : Int) suf) b ok
        = GoSem.Outcome.ok (b ++ String.ofList (Table.sepLoop index (pre.length : Int) ok suf), ok') := by
  intro suf
  induction suf with
  | nil =>
    intro pre _ b ok
    refine ⟨ok, ?_⟩
    simp only [Strings.runesFrom, table.addThousandsSep.range1, Table.sepLoop]
    congr 2
    apply String.ext; simp
  | cons ch rest ih =>
    intro pre hall b ok
    have hch : ch.toNat < 128 := hasc ch (by rw [hall]; simp)
    rw [runesFrom_cons_ascii _ ch rest hch]
    unfold table.addThousandsSep.range1 Table.sepLoop
    have hdash : (Char.ofNat 45) = '-' := rfl
    simp only [hdash]
    by_cases hbrk : (pre.length : Int) ≥ index ∧ ch ≠ '-'
    · have hb : (decide ((pre.length : Int) ≥ index) && !decide (ch = '-')) = true := by simp [hbrk.1, hbrk.2]
      rw [if_pos hb, if_pos hbrk]
      have hs := slice_ascii pre (ch :: rest) (by rw [← hall]; exact hasc)
      rw [← hall] at hs
      rw [hs]
      exact ⟨ok, by simp [GoSem.Outcome.bind]⟩
    · have hb : (decide ((pre.length : Int) ≥ index) && !decide (ch = '-')) = false := by
        by_cases h1 : (pre.length : Int) ≥ index
        · have h2 : ch = '-' := by
            by_cases h2 : ch = '-'
            · exact h2
            · exact absurd ⟨h1, h2⟩ hbrk
          simp [h1, h2]
        · simp [h1]
      rw [if_neg (by simp [hb]), if_neg hbrk]
      have hall' : all = (pre ++ [ch]) ++ rest := by rw [hall]; simp
      have hlen : (((pre ++ [ch]).length : Nat) : Int) = (pre.length : Int) + 1 := by simp
      obtain ⟨ok', hih⟩ := ih (pre ++ [ch]) hall'
        (Strings.Builder.WriteRune (if (decide (imod (index - (pre.length : Int)) 3 = 0) && ok) = true
          then Strings.Builder.WriteRune b (Char.ofNat 44) else b) ch)
        (if Unicode.IsDigit ch = true then true else ok)
      rw [hlen] at hih
      refine ⟨ok', ?_⟩
      rw [hih]
      have hd : (if Unicode.IsDigit ch = true then true else ok) = (ok || Knut.Dec.isDigit ch) := by
        rw [IsDigit_agrees ch hch]
        cases ok <;> cases Knut.Dec.isDigit ch <;> rfl
      rw [hd]
      congr 2
      apply String.ext
      have hcomma : (Char.ofNat 44) = ',' := rfl
      cases ok <;> by_cases h1 : Int.tmod (index - (pre.length : Int)) 3 = 0 <;>
        simp [imod, h1, hcomma, String.toList_append, String.toList_push]

/-- `addThousandsSep` on ASCII text (all that `StringFixed` produces): never a panic, the model's characters -/
theorem addThousandsSep_agrees (e : List Char) (h : Ascii e) :
    table.addThousandsSep (String.ofList e) = GoSem.Outcome.ok (String.ofList (Table.addThousandsSep e)) := by
  unfold table.addThousandsSep Table.addThousandsSep
  have hidx : Strings.Index (String.ofList e) "." = if '.' ∈ e then ((e.idxOf '.' : Nat) : Int) else -1 := by
    unfold Strings.Index
    rw [String.toList_ofList]
    have := indexFrom_point e h 0
    simpa using this
  have hindex : (if decide (Strings.Index (String.ofList e) "." < 0) = true then Strings.byteLen (String.ofList e)
      else Strings.Index (String.ofList e) ".") = ((e.idxOf '.' : Nat) : Int) := by
    rw [hidx, byteLen_ascii e h]
    by_cases hm : '.' ∈ e
    · have : ¬ (((e.idxOf '.' : Nat) : Int) < 0) := by omega
      simp [hm, this]
    · have : e.idxOf '.' = e.length := List.idxOf_eq_length hm
      simp [hm, this]
  simp only [hindex, zero_string, zero_bool, Strings.runes, String.toList_ofList]
  obtain ⟨ok', hr⟩ := range1_agrees e h ((e.idxOf '.' : Nat) : Int) e [] (by simp) "" false
  simp only [List.length_nil, Int.natCast_zero] at hr
  rw [hr]
  simp only [GoSem.Outcome.bind, Strings.Builder.String]
  congr 1
  try (apply String.ext; simp)

theorem ascii_of_isDigit {c : Char} (h : c.isDigit = true) : c.toNat < 128 := by
  simp [Char.isDigit, UInt32.le_iff_toNat_le] at h
  have : c.toNat = c.val.toNat := rfl
  omega

/-- `StringFixed` prints ASCII only: sign, digits, point -/
theorem showFixed_ascii (p : Int) (x : Rat) : Ascii (Dec.showFixed p x).toList := by
  rw [Table.showFixed_eq, Table.showScaled_toList]
  intro c hc
  have hd : ∀ n, ∀ c ∈ Table.digitsOf n, c.toNat < 128 := fun n c hc =>
    ascii_of_isDigit (Nat.isDigit_of_mem_toDigits (by decide) (by decide) hc)
  simp only [List.mem_append] at hc
  rcases hc with (hc | hc) | hc
  · unfold Table.signPart at hc
    split at hc
    · simp at hc; subst hc; decide
    · simp at hc
  · exact hd _ c hc
  · unfold Table.fracPart at hc
    split at hc
    · simp at hc
    · simp only [List.mem_cons, List.mem_append, List.mem_replicate] at hc
      rcases hc with hc | hc | hc
      · subst hc; decide
      · rw [hc.2]; decide
      · exact hd _ c hc

theorem Shift_thousand (d : Rat) : Decimal.Shift d (-3) = d / 1000 := by
  simp [Decimal.Shift]

/-- `TextRenderer.numToString`: `--thousands` shifts by three places exactly, `StringFixed(r.Round)`, thousands separators -/
theorem numToString_agrees (tr : table.TextRenderer) (d : Rat) :
    table.TextRenderer.numToString tr d
      = GoSem.Outcome.ok (String.ofList (Table.numToString ⟨tr.Thousands, tr.Round⟩ d)) := by
  unfold table.TextRenderer.numToString Table.numToString Table.scaled
  have key : ∀ x : Rat, table.addThousandsSep (Decimal.StringFixed x tr.Round)
      = GoSem.Outcome.ok (String.ofList (Table.addThousandsSep (Dec.showFixed tr.Round x).toList)) := by
    intro x
    have := addThousandsSep_agrees (Dec.showFixed tr.Round x).toList (showFixed_ascii _ _)
    rw [String.ofList_toList] at this
    exact this
  by_cases ht : tr.Thousands = true
  · simp only [ht, if_true, Shift_thousand, key, GoSem.Outcome.bind]
  · have ht' : tr.Thousands = false := by simpa using ht
    simp only [ht', Bool.false_eq_true, if_false, key, GoSem.Outcome.bind]

/-- non-vacuity: 1234567.891 with two decimals; with `--thousands` -/
example : table.addThousandsSep "-1234567.89" = GoSem.Outcome.ok "-1,234,567.89" := by
  have := addThousandsSep_agrees "-1234567.89".toList (by intro c hc; simp at hc; rcases hc with h | h | h | h | h | h | h | h | h | h | h <;> subst h <;> decide)
  rw [String.ofList_toList] at this
  rw [this]; decide

end Knut.FactsAgree.TransTable
