import Knut.Properties.C13Text
import Knut.Properties.C09Go
/-!
# C13 (the text clause) on the generated definitions

Every importer ends with `journal.Print(w, builder.Build())`.  `Properties/C13Text.lean` states the text-level clause of C13 about the
model of that call, `render ds = JournalPrinter.print (Builder.ofList ds).build`; `FactsAgree/TransJPrinter2.lean` proves that the
translated `journal.Print` writes exactly `JournalPrinter.print` (`PrintJournal_agrees`).  This module composes them: the clause is
stated about the text the GENERATED `Go.journal.Print` writes for a Go journal that stands for the journal the importer's builder holds.

What stays a hypothesis (besides those of `C09Go.Print_writes_go`: `SortOK` for the unstable sort, `TargetsOK` — importers write no
`@performance` annotation): `hr`, that the Go journal `gds` stands for `(Builder.ofList ds).build` — the importers themselves
(CSV readers, regular expressions, `journal.Builder`) are not translated; their models are tied by the differential runs of C13.
`ds` is the importer's directive list; `PrintableDir` is proved of it for all eleven importers (`C13_<importer>_printable`).
-/
namespace Knut.C13Go
open Knut Knut.Import Knut.Spec.Import Knut.Proofs.Import Knut.FromSyntax Knut.JournalPrinter Knut.Utf8
open Knut.Generated.Go
open Knut.FactsAgree.TransJPrinter Knut.FactsAgree.TransJPrinter2 Knut.FactsAgree.TransProcess

/-- **the bridge**: for the directives `ds` an importer added to its builder, the translated `journal.Print` writes the model's
`render ds` -/
theorem Print_writes_render_go (cur : String → Bool) (srt : List transaction.Transaction → List transaction.Transaction)
    (gds : List journal.Day) (ds : List Directive) (hs : ∀ g ∈ gds, SortOK srt g.Transactions)
    (hr : AllRel (DayRelE cur) gds (Builder.ofList ds).build) (h : ∀ d ∈ ds, PrintableDir d)
    (ht : ∀ d ∈ (Builder.ofList ds).build, TargetsOK d) :
    ∃ e, processExt srt ⟨gds⟩ (printer.New "") = .ok e ∧ journal.Print "" ⟨gds⟩ e = .ok (render ds, e.1, none) := by
  obtain ⟨e, he, _, hP⟩ := C09Go.Print_writes_go cur srt "" gds _ hs hr (printable_built ds h) ht
  exact ⟨e, he, by simpa [render] using hP⟩

/-- **the text the translated `Print` emits parses to exactly the directives the importer built** (in the order `Print` writes them, a
permutation of the order in which they were added), and printing the reloaded journal gives the same text again -/
theorem C13_text_parses_go (cur : String → Bool) (srt : List transaction.Transaction → List transaction.Transaction)
    (path : String) (gds : List journal.Day) (ds : List Directive) (hs : ∀ g ∈ gds, SortOK srt g.Transactions)
    (hr : AllRel (DayRelE cur) gds (Builder.ofList ds).build) (h : ∀ d ∈ ds, PrintableDir d)
    (ht : ∀ d ∈ (Builder.ofList ds).build, TargetsOK d) :
    ∃ e T ds', processExt srt ⟨gds⟩ (printer.New "") = .ok e ∧ journal.Print "" ⟨gds⟩ e = .ok (T, e.1, none) ∧
      loadText path (strBytes T) = .ok ds' ∧ ds'.Perm ds ∧ print (Builder.ofList ds').build = T := by
  obtain ⟨e, he, hP⟩ := Print_writes_render_go cur srt gds ds hs hr h ht
  obtain ⟨ds', hl, hperm, _, hpr⟩ := C13.C13_text_parses path ds h
  exact ⟨e, render ds, ds', he, hP, hl, hperm, hpr⟩

/-- in particular the text is valid for knut's parser -/
theorem C13_text_parser_accepts_go (cur : String → Bool) (srt : List transaction.Transaction → List transaction.Transaction)
    (path : String) (gds : List journal.Day) (ds : List Directive) (hs : ∀ g ∈ gds, SortOK srt g.Transactions)
    (hr : AllRel (DayRelE cur) gds (Builder.ofList ds).build) (h : ∀ d ∈ ds, PrintableDir d)
    (ht : ∀ d ∈ (Builder.ofList ds).build, TargetsOK d) :
    ∃ e T f, processExt srt ⟨gds⟩ (printer.New "") = .ok e ∧ journal.Print "" ⟨gds⟩ e = .ok (T, e.1, none) ∧
      Syntax.parseText path (strBytes T) = .ok f := by
  obtain ⟨e, he, hP⟩ := Print_writes_render_go cur srt gds ds hs hr h ht
  obtain ⟨f, hf⟩ := C13.C13_text_parser_accepts path ds h
  exact ⟨e, render ds, f, he, hP, hf⟩

/-- **the text-level clause**, for output without assertions: with every account booked on opened once on a day before the first
directive, `knut print` accepts "opens, blank line, what the translated `Print` wrote" and reproduces it byte for byte -/
theorem C13_text_valid_go (cur : String → Bool) (srt : List transaction.Transaction → List transaction.Transaction)
    (path : String) (gds : List journal.Day) (o : Int) (accts : List Account) (ds : List Directive)
    (hs : ∀ g ∈ gds, SortOK srt g.Transactions) (hr : AllRel (DayRelE cur) gds (Builder.ofList ds).build)
    (ht : ∀ d ∈ (Builder.ofList ds).build, TargetsOK d)
    (h : ∀ d ∈ ds, PrintableDir d) (hna : ∀ d ∈ ds, TxOrPrice d) (hne : accts ≠ []) (hnd : accts.Nodup) (ho : PrintableDate o)
    (ha : ∀ a ∈ accts, PrintableAccount a = true) (hlt : ∀ d ∈ ds, o < d.date)
    (hacc : ∀ t, Directive.tx t ∈ ds → ∀ p ∈ t.postings, p.account ∈ accts) :
    ∃ e T, processExt srt ⟨gds⟩ (printer.New "") = .ok e ∧ journal.Print "" ⟨gds⟩ e = .ok (T, e.1, none) ∧
      printFile path (strBytes (opensText o accts ++ T)) = .ok (opensText o accts ++ T) := by
  obtain ⟨e, he, hP⟩ := Print_writes_render_go cur srt gds ds hs hr h ht
  exact ⟨e, render ds, he, hP, C13.C13_text_valid path o accts ds h hna hne hnd ho ha hlt hacc⟩

/-! ### Non-vacuity: an importer that emitted nothing (an empty statement): every hypothesis holds -/
example : ∃ e, processExt (fun xs => xs) ⟨[]⟩ (printer.New "") = .ok e ∧ journal.Print "" ⟨[]⟩ e = .ok (render [], e.1, none) :=
  Print_writes_render_go (fun _ => true) (fun xs => xs) [] [] (by intro g hg; cases hg) .nil (by intro d hd; cases hd)
    (by intro d hd; cases hd)

end Knut.C13Go
