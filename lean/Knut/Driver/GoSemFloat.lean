import Knut.Wire
import Knut.GoSem.Float
/-! Driver ops `gosemfloat …`: the primitives of `Knut/GoSem/Float.lean` (`float64` read as an exact rational) evaluated for the
differential stream `gosemfloat` of C11 (`harness/gosem_float.go`).  The stream draws DYADIC operands (`k / 2^j`, small) on which IEEE-754
arithmetic is exact, so that the exact-arithmetic reading and the real `float64` must agree to the last bit; a division by zero must be
the distinct outcome `undef` where Go computes `±Inf`/`NaN`.  Operands and results travel as `numerator/denominator`. -/
namespace Knut.Driver.GoSemFloat
open Knut Knut.Wire Knut.GoSem

def pow2 (j : Nat) : Nat := 2 ^ j

/-- `k / 2^j` -/
def dyadic (k : Int) (j : Nat) : Rat := (k : Rat) / ((pow2 j : Nat) : Rat)

def showRat (x : Rat) : String := s!"{x.num}/{x.den}"

def showOutcome : GoSem.Outcome Rat → String
  | .ok x => showRat x
  | .panic m => if m = F64.undefined then "undef" else "panic"
  | .outOfFuel => "fuel"

def handle (fields : List String) : Option String :=
  match fields with
  | ["gosemfloat", op, k1, j1, k2, j2] =>
    match parseInt k1, j1.toNat?, parseInt k2, j2.toNat? with
    | some k1, some j1, some k2, some j2 =>
      let a := dyadic k1 j1
      let b := dyadic k2 j2
      match op with
      | "add" => some (showRat (a + b))
      | "sub" => some (showRat (a - b))
      | "mul" => some (showRat (a * b))
      | "neg" => some (showRat (-a))
      | "div" => some (showOutcome (F64.divE a b))
      | "max" => some (showRat (F64.max a b))
      | "min" => some (showRat (F64.min a b))
      | "lt" => some (toString (decide (a < b)))
      | "le" => some (toString (decide (a ≤ b)))
      | "eq" => some (toString (decide (a = b)))
      | "ofint" => some (showRat ((k1 : Int) : Rat))
      | "ofdec" => some (showRat (F64.ofDecimal a) ++ " " ++ showRat (F64.ofDecimal2 a).1 ++ " " ++ toString (F64.ofDecimal2 a).2)
      | _ => some "bad-op"
    | _, _, _, _ => some "bad-op"
  | _ => none

end Knut.Driver.GoSemFloat
