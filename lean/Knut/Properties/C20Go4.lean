import Knut.Properties.C20Go3Ex
import Knut.FactsAgree.TransProcessAllWeights
/-!
# C20 on the generated definitions: the weights clauses over the pipeline of `knut portfolio weights` — up to the untranslated query

`C20.C20_weights_share` / `C20.C20_top_sums_to_one` are about the model's `Weights.queryDay` / `weightAdds`: the adds of a period end
day are, commodity by commodity of the day's `V1`, value / total value, and the top level of the report sums to 100 %.  The model's
query is run on the `DayPerf`s of the model's `perfFrom`.  Here the four translated processors of `cmd/commands/portfolio/weights.go`
BEFORE `weights.Query.Execute` (`ComputePrices`, `check`, `Valuate`, `ComputeValues` — order read off the source by hand,
`FactsAgree/TransProcessAllWeights.lean`) are composed over the journal, so that the day-level hypothesis "the Go day that reaches the
query carries the model's `V1`" is DISCHARGED (`DayRelW`, from `DayRelP` on the days of the built journal before the pipeline).

* **`C20_weights_process_go_partial`** (without `-v`): whenever the model's `weightAdds f ds` succeeds with `adds`, the sequential run
  `processAllWeights` of the four translated stages SUCCEEDS for every admissible family of iteration orders (`RetParOK`), the days `out`
  that reach `weights.Query.Execute` carry one by one the `v0`/`v1` of the model's `perfs` (`DayRelW`), `adds` is the model's
  `queryFrom` over these `perfs`, on every period end day among them the weights added are `v1`'s values over their total
  (`queryFrom_shares`, the clause of `C20_weights_share`), and the top level sums to 1 on every reported date
  (`C20_top_sums_to_one`).

PARTIAL, and why: **`weights.Query.Execute` is not translated** (it ranges over the map `Performance.V1`, calls `Universe.Locate`,
`shortenPath`, `Report.Add`).  The theorem ties the INPUT of the Go query (the days `out`, their `V1`) to the input of the model's
`queryFrom`; that the Go query adds to the report what `queryFrom` says is the hand-written model's claim (checked by the
correspondence tests of C20), not a theorem about generated code.  From the `Add` log on, `Report.Add`/`PropagateWeights`/
`SortWeighted` are translated again (`C20Go.C20_nodeWeight_is_wsum_go`, `C20_group_sum_go`).

Hypotheses that STAY (named): `hdays` (`DayRelP`: the Go days handed to `Process` stand for the days of the model's built journal and
have `Performance == nil`), `RetParOK` (parameters and admissible iteration orders; satisfiable on a non-empty journal:
`Properties/C20Go3Ex.lean`), the reading "exact arithmetic" of `float64`, and `Pipeline.seqRun` as the meaning of `cpr.Seq`
(`C19_confluent`).  With `-v` only the re-listed statement `TransProcessAllWeights.processAllWeights_agrees` is available.
-/
namespace Knut.C20Go4
open Knut Knut.GoSem Knut.Performance Knut.Weights Knut.PortfolioSpec Knut.Pipeline
open Knut.Generated.Go
open Knut.FactsAgree.TransPerformance (perfDaysV valuedDays)
open Knut.FactsAgree.TransProcess (AllRel)
open Knut.FactsAgree.TransProcessAllReturns
open Knut.FactsAgree.TransProcessAllWeights

/-- **every period end day contributes its value shares**: in a successful `queryFrom`, each day `dp` on a period end was queried
(`queryDay` on its `v1`, under the universe reached so far), its adds are part of the result, dated with the day, and their weights
are `v1`'s values over their total -/
theorem queryFrom_shares (mapping : List MapRule) (ends : List Int) : ∀ (perfs : List DayPerf) (u : Universe) (adds : List Add),
    queryFrom mapping ends u perfs = some adds → ∀ dp ∈ perfs, ends.contains dp.date = true →
      ∃ u0 adds' u', queryDay mapping u0 dp.date dp.v1 = some (adds', u') ∧ adds'.Sublist adds ∧
        adds'.map (·.weight) = dp.v1.map (fun e => e.2 / sumVals dp.v1) ∧ ∀ a ∈ adds', a.date = dp.date := by
  intro perfs
  induction perfs with
  | nil => intro u adds _ dp hdp; cases hdp
  | cons p rest ih =>
    intro u adds h dp hdp hend
    unfold queryFrom at h
    by_cases hc : ends.contains p.date = true
    · simp only [hc, if_true] at h
      cases hq : queryDay mapping u p.date p.v1 with
      | none => simp [hq] at h
      | some r =>
        obtain ⟨adds1, u1⟩ := r
        simp only [hq, Option.map_eq_some_iff] at h
        obtain ⟨restAdds, hr, rfl⟩ := h
        cases hdp with
        | head =>
          obtain ⟨s1, s2⟩ := C20.C20_weights_share mapping u u1 p.date p.v1 adds1 hq
          exact ⟨u, adds1, u1, hq, List.sublist_append_left _ _, s1, s2⟩
        | tail _ hmem =>
          obtain ⟨u0, adds', u', h1, h2, h3⟩ := ih u1 restAdds hr dp hmem hend
          exact ⟨u0, adds', u', h1, h2.trans (List.sublist_append_right _ _), h3⟩
    · simp only [hc, Bool.false_eq_true, if_false] at h
      cases hdp with
      | head => exact absurd hend hc
      | tail _ hmem => exact ih u adds h dp hmem hend

/-- a successful `weightAdds` has a successful `setup`, successful valued days, and is `queryFrom` over `perfDaysV` of them -/
theorem weightAdds_ok_parts (f : WFlags) (ds : List Directive) (adds : List Add) (h : weightAdds f ds = .ok (some adds)) :
    ∃ part days ms, setup f.toFlags ds = .ok (part, days) ∧ valuedDays f.toFlags.cfg ({} : PState).bal days = some ms ∧
      queryFrom f.mapping part.endDates f.classes (perfDaysV f.toFlags.cfg ([], []) ms) = some adds := by
  unfold weightAdds at h
  cases hs : setup f.toFlags ds with
  | panic s => rw [hs] at h; cases h
  | error e => rw [hs] at h; cases h
  | ok r =>
    obtain ⟨part, days⟩ := r
    rw [hs] at h; simp only at h
    cases hp : perfFrom f.toFlags.cfg {} days with
    | error e => rw [hp] at h; cases h
    | ok perfs =>
      rw [hp] at h; simp only at h
      injection h with h
      obtain ⟨ms, hms⟩ := C20Go2.valuedDays_of_perfFrom f.toFlags.cfg days {} perfs hp
      have hpf := Knut.FactsAgree.TransPerformance.perfFrom_perfDaysV f.toFlags.cfg days ({} : PState) ms hms
      rw [hp] at hpf
      injection hpf with hpf
      subst hpf
      exact ⟨part, days, ms, rfl, hms, h⟩

/-- **the weights clauses of C20 with the day-level hypotheses discharged by the composition — PARTIAL in the untranslated
`weights.Query.Execute`** (see the header): without `-v`, whenever the model's `weightAdds f ds` gives `adds`, the four translated
stages before the query succeed on the whole journal, the days that reach the query carry the model's `v0`/`v1`, on each period end
day the model's adds are the value shares of that `v1`, and the top level sums to 100 % -/
theorem C20_weights_process_go_partial (cur : String → Bool) (f : WFlags) (hv : f.valuation = none) (ds : List Directive)
    (adds : List Add) (h : weightAdds f ds = .ok (some adds)) :
    ∃ (part : Knut.Partition) (days : List Knut.Day) (ms : List (Int × List Knut.Transaction)),
      setup f.toFlags ds = .ok (part, days) ∧ valuedDays f.toFlags.cfg ({} : PState).bal days = some ms ∧
      queryFrom f.mapping part.endDates f.classes (perfDaysV f.toFlags.cfg ([], []) ms) = some adds ∧
      (∀ (P : RetPar), RetParOK cur f.toFlags.cfg P →
        ∀ (cf : performance.Calculator.ComputeFlows.State) (pf : performance.Perf.State)
          (gdays : List journal.Day), AllRel (DayRelP cur) gdays days →
          ∃ out, processAllWeights P (weightsInit cur f.toFlags.cfg cf pf) gdays = some out ∧
            AllRel (DayRelW cur) out (perfDaysV f.toFlags.cfg ([], []) ms)) ∧
      (∀ dp ∈ perfDaysV f.toFlags.cfg ([], []) ms, part.endDates.contains dp.date = true →
        ∃ u0 adds' u', queryDay f.mapping u0 dp.date dp.v1 = some (adds', u') ∧ adds'.Sublist adds ∧
          adds'.map (·.weight) = dp.v1.map (fun e => e.2 / sumVals dp.v1) ∧ ∀ a ∈ adds', a.date = dp.date) ∧
      (rooted adds = true → ∀ D ∈ adds.map (·.date), ((childSegs adds []).map (fun s => wsum adds [s] D)).sum = 1) := by
  obtain ⟨part, days, ms, hs, hms, hq⟩ := weightAdds_ok_parts f ds adds h
  have hv' : f.toFlags.cfg.valuation = none := hv
  refine ⟨part, days, ms, hs, hms, hq, ?_, queryFrom_shares f.mapping part.endDates _ f.classes adds hq,
    fun hr D hD => C20.C20_top_sums_to_one f ds adds h hr D hD⟩
  intro P hP cf pf gdays hdays
  have key := processAllWeights_agrees cur f.toFlags.cfg P hP cf pf gdays days hdays
  revert key
  cases processAllWeights P (weightsInit cur f.toFlags.cfg cf pf) gdays with
  | none =>
    intro key
    have := valuedDays_none_of_ValuedFail f.toFlags.cfg hv' days _ key
    rw [this] at hms
    cases hms
  | some out =>
    intro key
    obtain ⟨ms', hvo, hall⟩ := key
    have hms' := valuedDays_of_ValuedOrd f.toFlags.cfg hv' days _ ms' hvo
    rw [hms'] at hms
    injection hms with hms
    subst hms
    exact ⟨out, rfl, hall⟩

/-! ### Non-vacuity: the model's worked example of `C20.lean` has a successful `weightAdds`; here the journal without directives -/
theorem weightAdds_empty : weightAdds { to := 10, from? := some 1 } [] = .ok (some []) := by rfl

example (cur : String → Bool) : ∃ part days ms, setup ({ to := 10, from? := some 1 } : WFlags).toFlags [] = .ok (part, days) ∧
    valuedDays ({ to := 10, from? := some 1 } : WFlags).toFlags.cfg ({} : PState).bal days = some ms := by
  obtain ⟨part, days, ms, h1, h2, _⟩ := C20_weights_process_go_partial cur _ rfl _ _ weightAdds_empty
  exact ⟨part, days, ms, h1, h2⟩

/-! ### Non-vacuity on a NON-EMPTY journal: the two days of `Properties/C20Go3Ex.lean` (a deposit, a purchase; no `-v`) with the concrete
admissible parameters `genPar` — the four translated stages succeed and the two days that reach the query carry the model's values
(without `-v` every posting value is 0: the maps of values are empty and the model's query adds nothing) -/
open Knut.C20Go3Ex in
def exW : WFlags := { exF with }

open Knut.C20Go3Ex in
theorem ex_weightAdds : ∃ adds, weightAdds exW exDs = .ok (some adds) := by
  have hpf := Knut.FactsAgree.TransPerformance.perfFrom_perfDaysV exF.cfg exDays ({} : PState) _ ex_valued
  unfold weightAdds
  have hs : setup exW.toFlags exDs = .ok (exPart, exDays) := ex_setup
  rw [hs]
  simp only
  have hpf' : perfFrom exW.toFlags.cfg {} exDays = _ := hpf
  rw [hpf']
  simp only
  have hq : (queryFrom exW.mapping exPart.endDates exW.classes
      (perfDaysV exF.cfg ([], []) (exDays.map (fun d => (d.date, d.transactions))))).isSome = true := by decide +kernel
  obtain ⟨adds, ha⟩ := Option.isSome_iff_exists.1 hq
  exact ⟨adds, by rw [ha]⟩

open Knut.C20Go3Ex in
theorem ex_weights_pipeline (pg : date.Partition) (cf : performance.Calculator.ComputeFlows.State) (pf : performance.Perf.State) :
    ∃ out, processAllWeights (genPar exF.cfg pg) (weightsInit cur exF.cfg cf pf) exGDays = some out ∧
      AllRel (DayRelW cur) out (perfDaysV exF.cfg ([], []) (exDays.map (fun d => (d.date, d.transactions)))) ∧ out.length = 2 := by
  obtain ⟨adds, hadds⟩ := ex_weightAdds
  obtain ⟨part, days, ms, hs, hms, _, H, _⟩ := C20_weights_process_go_partial cur exW rfl exDs adds hadds
  have hs' : setup exF exDs = .ok (part, days) := hs
  rw [ex_setup] at hs'
  injection hs' with hs'
  injection hs' with hp hd
  subst hp hd
  have hms' : valuedDays exF.cfg ({} : PState).bal exDays = some ms := hms
  rw [ex_valued] at hms'
  injection hms' with hms'
  subst hms'
  obtain ⟨out, h1, h2⟩ := H (genPar exF.cfg pg) (genPar_ok _ rfl _) cf pf exGDays exDays_rel
  refine ⟨out, h1, h2, ?_⟩
  have hl : ∀ {α β : Type} {R : α → β → Prop} {l : List α} {m : List β}, AllRel R l m → l.length = m.length := by
    intro α β R l m h
    induction h with
    | nil => rfl
    | cons _ _ ih => simp [ih]
  rw [hl h2]
  rfl

end Knut.C20Go4
