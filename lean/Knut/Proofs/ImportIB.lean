import Knut.Proofs.ImportBrokers
/-!
# C13: us.interactivebrokers — the chain of record parsers agrees with the chain of record readers
-/
set_option linter.unusedSimpArgs false
namespace Knut.Proofs.Import
open Knut Knut.Import Knut.Spec.Import

theorem fld_bind {α : Type} {r : Rec} {i : Nat} {f : String → Res α} {x : α} (h : (fld r i).bind f = .ok x) :
    f (fldD r i) = .ok x := by
  obtain ⟨s, hs, h⟩ := Res.bind_eq_ok h
  rw [fld_eq_ok hs]; exact h

theorem rounded_eq {s : String} {q : Rat} (h : IB.rounded s = .ok q) : q = round2 s := by
  unfold IB.rounded at h
  obtain ⟨a, ha, h⟩ := Res.bind_eq_ok h
  simp at h
  simp [round2, numComma, ofOption_eq_ok ha, h]

/-- parser `p` and reader `sp` agree on every record: handled ↔ recognised, same new state, matching directives -/
def Agrees (acct : Account) (p : IB.St → Rec → Res IB.Out) (sp : IB.St → Rec → SOut) : Prop :=
  ∀ st r o, p st r = .ok o →
    match o with
    | some (st', ds) => ∃ items, sp st r = some (st', items) ∧ All2 (Matches acct) items ds
    | none => sp st r = none

theorem isTrue_ok {x : Res Bool} {b : Bool} (h : x = .ok b) : isTrue x = b := by rw [h]; rfl

theorem agrees_baseCurrency (acct : Account) : Agrees acct IB.parseBaseCurrency ibBaseCurrency := by
  intro st r o h
  unfold IB.parseBaseCurrency at h
  obtain ⟨b, hb, h⟩ := Res.bind_eq_ok h
  unfold ibBaseCurrency
  rw [isTrue_ok hb]
  cases b with
  | false => simp at h; subst h; simp
  | true =>
    simp only [Bool.not_true, Bool.false_eq_true, if_false] at h
    obtain ⟨v, hv, h⟩ := Res.bind_eq_ok h
    obtain ⟨c, hc, h⟩ := Res.bind_eq_ok h
    simp at h; subst h
    simp only [if_true]
    refine ⟨[], ?_, All2.nil⟩
    rw [fld_eq_ok hv, (getCommodity_eq_ok hc).1]

theorem agrees_period (acct : Account) : Agrees acct IB.parsePeriod ibPeriod := by
  intro st r o h
  unfold IB.parsePeriod at h
  obtain ⟨b, hb, h⟩ := Res.bind_eq_ok h
  unfold ibPeriod
  rw [isTrue_ok hb]
  cases b with
  | false => simp at h; subst h; simp
  | true =>
    simp only [Bool.not_true, Bool.false_eq_true, if_false] at h
    obtain ⟨v, hv, h⟩ := Res.bind_eq_ok h
    obtain ⟨d0, hd0, h⟩ := Res.bind_eq_ok h
    obtain ⟨_, _, h⟩ := Res.bind_eq_ok h
    obtain ⟨d1, hd1, h⟩ := Res.bind_eq_ok h
    obtain ⟨dt, hdt, h⟩ := Res.bind_eq_ok h
    simp at h; subst h
    simp only [if_true]
    refine ⟨[], ?_, All2.nil⟩
    rw [fld_eq_ok hv, fld_eq_ok hd1]
    simp [dateOf, ofOption_eq_ok hdt]

theorem effect_forex (acct trading fee : Account) (h1 : acct ≠ trading) (h2 : acct ≠ fee) (stock cur base : Commodity)
    (qty proceeds f : Rat) (c' : Commodity) :
    pbSum acct c' ([⟨trading, acct, stock, qty⟩, ⟨trading, acct, cur, proceeds⟩] ++ (if f = 0 then [] else [⟨fee, acct, base, f⟩])) =
      expected ([(stock, qty), (cur, proceeds)] ++ (if f = 0 then [] else [(base, f)])) c' := by
  by_cases hz : f = 0
  · simp [pbSum, pbEffect, expected, h1.symm, hz]; grind
  · simp [pbSum, pbEffect, expected, h1.symm, h2.symm, hz]; grind

theorem effect_debit3 (acct trading fee : Account) (h1 : acct ≠ trading) (h2 : acct ≠ fee) (stock cur : Commodity)
    (qty proceeds f : Rat) (c' : Commodity) :
    pbSum acct c' [⟨trading, acct, stock, qty⟩, ⟨trading, acct, cur, proceeds⟩, ⟨fee, acct, cur, f⟩] =
      expected [(stock, qty), (cur, proceeds), (cur, f)] c' := by
  simp [pbSum, pbEffect, expected, h1.symm, h2.symm]; grind

theorem agrees_forex (a : Swissquote.Accts) (ok : AcctsOK a) : Agrees a.account (IB.parseForex a) ibForex := by
  intro st r o h
  unfold IB.parseForex at h
  obtain ⟨b, hb, h⟩ := Res.bind_eq_ok h
  unfold ibForex
  rw [isTrue_ok hb]
  cases b with
  | false => simp at h; subst h; simp
  | true =>
    simp only [Bool.not_true, Bool.false_eq_true, if_false] at h
    split at h
    · cases h
    · rename_i base hbase
      obtain ⟨cur, hcur, h⟩ := Res.bind_eq_ok h
      obtain ⟨sym, hsym, h⟩ := Res.bind_eq_ok h
      obtain ⟨stock, hstock, h⟩ := Res.bind_eq_ok h
      obtain ⟨d, hd, h⟩ := Res.bind_eq_ok h
      obtain ⟨qty, hqty, h⟩ := Res.bind_eq_ok h
      obtain ⟨price, hprice, h⟩ := Res.bind_eq_ok h
      obtain ⟨proceeds, hproc, h⟩ := Res.bind_eq_ok h
      obtain ⟨fee, hfee, h⟩ := Res.bind_eq_ok h
      simp at h; subst h
      simp only [if_true]
      refine ⟨_, rfl, All2.cons ?_ All2.nil⟩
      have e1 := (getCommodity_eq_ok (fld_bind hcur)).1
      have e2 := (getCommodity_eq_ok hstock).1
      have e3 := dateOf10_eq (fld_bind hd)
      have e4 := rounded_eq (fld_bind hqty)
      have e5 := rounded_eq (fld_bind hproc)
      have e6 := rounded_eq (fld_bind hfee)
      rw [fld_eq_ok hsym, ← e1, ← e2, e3, ← e4, ← e5, ← e6, hbase]
      simp only [Option.getD_some]
      refine mkTx_matches _ _ _ _ _ _ ?_ (by simp)
      intro c'
      exact effect_forex a.account a.trading a.fee ok.trading ok.fee _ _ _ _ _ _ c'

theorem agrees_trade (a : Swissquote.Accts) (ok : AcctsOK a) : Agrees a.account (IB.parseTrade a) ibTrade := by
  intro st r o h
  unfold IB.parseTrade at h
  obtain ⟨b, hb, h⟩ := Res.bind_eq_ok h
  unfold ibTrade
  rw [isTrue_ok hb]
  cases b with
  | false => simp at h; subst h; simp
  | true =>
    simp only [Bool.not_true, Bool.false_eq_true, if_false] at h
    obtain ⟨cur, hcur, h⟩ := Res.bind_eq_ok h
    obtain ⟨stock, hstock, h⟩ := Res.bind_eq_ok h
    obtain ⟨d, hd, h⟩ := Res.bind_eq_ok h
    obtain ⟨qty, hqty, h⟩ := Res.bind_eq_ok h
    obtain ⟨price, hprice, h⟩ := Res.bind_eq_ok h
    obtain ⟨proceeds, hproc, h⟩ := Res.bind_eq_ok h
    obtain ⟨fee, hfee, h⟩ := Res.bind_eq_ok h
    simp at h; subst h
    simp only [if_true]
    refine ⟨_, rfl, All2.cons ?_ All2.nil⟩
    have e1 := (getCommodity_eq_ok (fld_bind hcur)).1
    have e2 := (getCommodity_eq_ok (fld_bind hstock)).1
    have e3 := dateOf10_eq (fld_bind hd)
    have e4 := rounded_eq (fld_bind hqty)
    have e5 := rounded_eq (fld_bind hproc)
    have e6 : num (fldD r 11) = fee := by simp [num, ofOption_eq_ok (fld_bind hfee)]
    rw [← e1, ← e2, e3, ← e4, ← e5, e6]
    refine mkTx_matches _ _ _ _ _ _ ?_ (by simp)
    intro c'
    exact effect_debit3 a.account a.trading a.fee ok.trading ok.fee _ _ _ _ _ c'

theorem agrees_deposit (a : Swissquote.Accts) (ok : AcctsOK a) : Agrees a.account (IB.parseDeposit a) ibDeposit := by
  intro st r o h
  unfold IB.parseDeposit at h
  obtain ⟨b, hb, h⟩ := Res.bind_eq_ok h
  unfold ibDeposit
  rw [isTrue_ok hb]
  cases b with
  | false => simp at h; subst h; simp
  | true =>
    simp only [Bool.not_true, Bool.false_eq_true, if_false] at h
    obtain ⟨cur, hcur, h⟩ := Res.bind_eq_ok h
    obtain ⟨d, hd, h⟩ := Res.bind_eq_ok h
    obtain ⟨q, hq, h⟩ := Res.bind_eq_ok h
    simp at h; subst h
    simp only [if_true]
    refine ⟨_, rfl, All2.cons ?_ All2.nil⟩
    have e1 := (getCommodity_eq_ok (fld_bind hcur)).1
    have e2 : dateOf layoutYMD (fldD r 3) = d := by simp [dateOf, ofOption_eq_ok (fld_bind hd)]
    have e3 := rounded_eq (fld_bind hq)
    rw [← e1, e2, ← e3]
    refine mkTx_matches _ _ _ _ _ _ ?_ (by simp)
    intro c'
    exact effect_debit a.account tbd ok.tbd _ _ c'

/-- dividends, interest, withholding tax: one posting pair between the cash account and the flag's account -/
theorem cash_row (acct other : Account) (hne : acct ≠ other) {r : Rec} {cur : Commodity} {d : Int} {q : Rat}
    (hcur : (fld r 2).bind getCommodity = .ok cur)
    (hd : ((fld r 3).bind fun s => Res.ofOption (parseDate layoutYMD s)) = .ok d)
    (hq : ((fld r 5).bind fun s => Res.ofOption (parseDecimalComma s)) = .ok q) (desc : String) (tg : Option (List Commodity)) :
    Matches acct (.booking (dateOf layoutYMD (fldD r 3)) [(fldD r 2, numComma (fldD r 5))])
      (mkTx d desc [⟨other, acct, cur, q⟩] tg) := by
  have e1 := (getCommodity_eq_ok (fld_bind hcur)).1
  have e2 : dateOf layoutYMD (fldD r 3) = d := by simp [dateOf, ofOption_eq_ok (fld_bind hd)]
  have e3 : numComma (fldD r 5) = q := by simp [numComma, ofOption_eq_ok (fld_bind hq)]
  rw [← e1, e2, e3]
  refine mkTx_matches _ _ _ _ _ _ ?_ (by simp)
  intro c'
  exact effect_debit acct other hne _ _ c'

theorem agrees_dividend (a : Swissquote.Accts) (ok : AcctsOK a) :
    Agrees a.account (IB.parseDividend a) (ibCash "Dividends" true) := by
  intro st r o h
  unfold IB.parseDividend at h
  obtain ⟨b, hb, h⟩ := Res.bind_eq_ok h
  unfold ibCash
  rw [isTrue_ok hb]
  cases b with
  | false => simp at h; subst h; simp
  | true =>
    cases hl : (r.length == 6) with
    | false => simp [hl] at h; subst h; simp [hl]
    | true =>
      simp only [hl, Bool.and_self, Bool.not_true, Bool.false_eq_true, if_false] at h
      obtain ⟨cur, hcur, h⟩ := Res.bind_eq_ok h
      obtain ⟨d, hd, h⟩ := Res.bind_eq_ok h
      obtain ⟨q, hq, h⟩ := Res.bind_eq_ok h
      obtain ⟨desc, hdesc, h⟩ := Res.bind_eq_ok h
      split at h
      · cases h
      · simp at h; subst h
        simp only [hl, Bool.not_true, Bool.false_or, Bool.and_self, if_true]
        exact ⟨_, rfl, All2.cons (cash_row a.account a.dividend ok.dividend hcur hd hq _ _) All2.nil⟩

theorem agrees_interest (a : Swissquote.Accts) (ok : AcctsOK a) :
    Agrees a.account (IB.parseInterest a) (ibCash "Interest" true) := by
  intro st r o h
  unfold IB.parseInterest at h
  obtain ⟨b, hb, h⟩ := Res.bind_eq_ok h
  unfold ibCash
  rw [isTrue_ok hb]
  cases b with
  | false => simp at h; subst h; simp
  | true =>
    cases hl : (r.length == 6) with
    | false => simp [hl] at h; subst h; simp [hl]
    | true =>
      simp only [hl, Bool.and_self, Bool.not_true, Bool.false_eq_true, if_false] at h
      obtain ⟨cur, hcur, h⟩ := Res.bind_eq_ok h
      obtain ⟨d, hd, h⟩ := Res.bind_eq_ok h
      obtain ⟨q, hq, h⟩ := Res.bind_eq_ok h
      obtain ⟨desc, hdesc, h⟩ := Res.bind_eq_ok h
      simp at h; subst h
      simp only [hl, Bool.not_true, Bool.false_or, Bool.and_self, if_true]
      exact ⟨_, rfl, All2.cons (cash_row a.account a.interest ok.interest hcur hd hq _ _) All2.nil⟩

theorem agrees_withholding (a : Swissquote.Accts) (ok : AcctsOK a) :
    Agrees a.account (IB.parseWithholdingTax a) (ibCash "Withholding Tax" false) := by
  intro st r o h
  unfold IB.parseWithholdingTax at h
  obtain ⟨b, hb, h⟩ := Res.bind_eq_ok h
  unfold ibCash
  rw [isTrue_ok hb]
  simp only [Bool.not_false, Bool.true_or, Bool.and_true]
  cases b with
  | false => simp at h; subst h; simp
  | true =>
    simp only [Bool.not_true, Bool.false_eq_true, if_false] at h
    obtain ⟨desc, hdesc, h⟩ := Res.bind_eq_ok h
    obtain ⟨cur, hcur, h⟩ := Res.bind_eq_ok h
    obtain ⟨d, hd, h⟩ := Res.bind_eq_ok h
    obtain ⟨q, hq, h⟩ := Res.bind_eq_ok h
    split at h
    · cases h
    · simp at h; subst h
      simp only [if_true]
      exact ⟨_, rfl, All2.cons (cash_row a.account a.tax ok.tax hcur hd hq _ _) All2.nil⟩

theorem agrees_positions (a : Swissquote.Accts) : Agrees a.account (IB.createAssertions a) ibPositions := by
  intro st r o h
  unfold IB.createAssertions at h
  obtain ⟨b, hb, h⟩ := Res.bind_eq_ok h
  unfold ibPositions
  rw [isTrue_ok hb]
  cases b with
  | false => simp at h; subst h; simp
  | true =>
    simp only [Bool.not_true, Bool.false_eq_true, if_false] at h
    split at h
    · cases h
    · obtain ⟨sym, hsym, h⟩ := Res.bind_eq_ok h
      obtain ⟨q, hq, h⟩ := Res.bind_eq_ok h
      simp at h; subst h
      simp only [if_true]
      refine ⟨_, rfl, All2.cons ?_ All2.nil⟩
      have e1 := (getCommodity_eq_ok (fld_bind hsym)).1
      have e2 : num (fldD r 6) = q := by simp [num, ofOption_eq_ok (fld_bind hq)]
      simp [Matches, e1, e2]

theorem agrees_forexBalances (a : Swissquote.Accts) : Agrees a.account (IB.createCurrencyAssertions a) ibForexBalances := by
  intro st r o h
  unfold IB.createCurrencyAssertions at h
  obtain ⟨b, hb, h⟩ := Res.bind_eq_ok h
  unfold ibForexBalances
  rw [isTrue_ok hb]
  cases b with
  | false => simp at h; subst h; simp
  | true =>
    simp only [Bool.not_true, Bool.false_eq_true, if_false] at h
    split at h
    · cases h
    · obtain ⟨sym, hsym, h⟩ := Res.bind_eq_ok h
      obtain ⟨q, hq, h⟩ := Res.bind_eq_ok h
      simp at h; subst h
      simp only [if_true]
      refine ⟨_, rfl, All2.cons ?_ All2.nil⟩
      have e1 := (getCommodity_eq_ok (fld_bind hsym)).1
      have e2 := rounded_eq (fld_bind hq)
      simp [Matches, e1, e2]

theorem tryAll_agrees (acct : Account) {ps : List (IB.St → Rec → Res IB.Out)} {sps : List (IB.St → Rec → SOut)}
    (h : All2 (Agrees acct) ps sps) (st : IB.St) (r : Rec) (st' : IB.St) (ds : List Directive)
    (hrun : IB.tryAll ps st r = .ok (st', ds)) :
    (firstSome sps st r).1 = st' ∧ All2 (Matches acct) (firstSome sps st r).2 ds := by
  induction h with
  | nil => simp [IB.tryAll] at hrun; obtain ⟨h1, h2⟩ := hrun; subst h1 h2; exact ⟨rfl, All2.nil⟩
  | cons hag _ ih =>
    unfold IB.tryAll at hrun
    obtain ⟨o, ho, hrun⟩ := Res.bind_eq_ok hrun
    have := hag st r o ho
    unfold firstSome
    cases o with
    | some x =>
      obtain ⟨st1, ds1⟩ := x
      simp at hrun
      obtain ⟨h1, h2⟩ := hrun
      subst h1 h2
      obtain ⟨items, hsp, hall⟩ := this
      rw [hsp]
      exact ⟨rfl, hall⟩
    | none =>
      simp only at this hrun
      rw [this]
      exact ih hrun

theorem ib_parsers_agree (a : Swissquote.Accts) (ok : AcctsOK a) : All2 (Agrees a.account) (IB.parsers a) ibReaders := by
  unfold IB.parsers ibReaders
  exact All2.cons (agrees_baseCurrency _) <| All2.cons (agrees_period _) <| All2.cons (agrees_forex a ok) <|
    All2.cons (agrees_trade a ok) <| All2.cons (agrees_deposit a ok) <| All2.cons (agrees_dividend a ok) <|
    All2.cons (agrees_interest a ok) <| All2.cons (agrees_withholding a ok) <| All2.cons (agrees_positions a) <|
    All2.cons (agrees_forexBalances a) All2.nil

theorem ib_rows (a : Swissquote.Accts) (ok : AcctsOK a) : ∀ (recs : List Rec) (st : IB.St) (ds : List Directive),
    IB.run' a st recs = .ok ds → All2 (Matches a.account) (ibRows st recs) ds := by
  intro recs
  induction recs with
  | nil => intro st ds h; simp [IB.run'] at h; subst h; exact All2.nil
  | cons r rs ih =>
    intro st ds h
    unfold IB.run' at h
    obtain ⟨⟨st1, ds1⟩, hstep, h⟩ := Res.bind_eq_ok h
    obtain ⟨ds2, hrec, h⟩ := Res.bind_eq_ok h
    simp at h; subst h
    obtain ⟨hst, hall⟩ := tryAll_agrees a.account (ib_parsers_agree a ok) st r st1 ds1 hstep
    unfold ibRows
    rw [hst]
    exact all2_append hall (ih st1 ds2 hrec)

theorem interactivebrokers_faithful (a : Swissquote.Accts) (ok : AcctsOK a) (recs : List Rec) (ds : List Directive)
    (h : IB.run a recs = .ok ds) : Faithful a.account (interactivebrokers recs) ds :=
  ib_rows a ok recs {} ds h

end Knut.Proofs.Import
