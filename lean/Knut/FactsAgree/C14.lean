import Knut.Generated.Facts
/-! Structural facts extracted from `cmd/commands/*.go` and `lib/syntax/syntax.go` on every run agree with what the
C14 model assumes (`harness/facts_c14.go` says how they are read off the syntax trees).

* `stdout_writer_last`: in `execute` of balance, check (and its `writeFile`), infer, print, transcode and portfolio
  weights, the first use of standard output is `bufio.NewWriter(…)` and nothing but the function's final `return`
  follows in that block — no early `return err` after the writer exists. In the model this is why `.error` carries no
  output (`C14_error_stdout_empty`).
* `parseRec_guards`: `parseRec` begins with the chain check (one error return inside a `range ancestors` that compares
  `path.Clean` of both sides), reads the file only afterwards, and resolves an include with
  `path.Join(filepath.Dir(file), …)` — the three ingredients of `Loader.loadRec`.

A source change that invalidates one of them breaks this module, hence `Properties/C14.lean`. -/
namespace Knut.FactsAgree.C14

theorem stdout_writer_last : Generated.c14StdoutWriterLast =
    [("balance.execute", true), ("check.execute", true), ("check.writeFile", true), ("infer.execute", true),
     ("print.execute", true), ("transcode.execute", true), ("weights.execute", true)] := by decide

theorem parseRec_guards : Generated.c14ParseRecGuards =
    [("chain-check-first", true), ("clean-both-sides", true), ("read-after-check", true), ("join-dir-of-includer", true)] := by
  decide

end Knut.FactsAgree.C14
