package main

// Units "Import…" of the Go→Lean translator: the per-record functions of the importers (cmd/importer/*).
//
//   p.reader.Read()        (encoding/csv.Reader, listed in trExtStd) like a call of an untranslated function of /repo: its RESULT
//                          `([]string, error)` is an extra parameter `ext<N> : List String × Option Error` — the record as encoding/csv
//                          decoded it (or its error); the reader, the file and the loop around the per-record function stay outside
//   p.registry.…           the registry field is omitted from the translated `parser` (untranslatable type); the calls through it
//                          (`Commodities().MustGet(x)`, `Accounts().TBDAccount()`) are `ext` parameters as everywhere
//   time.Parse("02.01.2006", s)   prelude `Time.ParseDMYdot` (GoSem/ParseLayout.lean: the model's layout interpreter on `layoutDMYdot`)
//   dateRegex.MatchString(s), replacer.Replace(s), strings.TrimSpace(s)   (ch.swisscard) prelude `Regexp.matchDate`, `Strings.replaceChfApos`,
//                          `Strings.TrimSpace` (GoSem/ImportStr.lean) — the first two only on never-assigned package-level values
//                          initialised with the listed constants (importStrCall)

import (
	"go/ast"
	"go/token"
	"go/types"
	"strings"
)

// trExtStd: functions outside /repo whose calls are external calls (result = an `ext` parameter), by full name
var trExtStd = map[string]bool{}

func init() {
	trUnits = append(trUnits,
		&trUnit{pkg: "cmd/importer/swisscard2", mod: "ImportSwisscard2", funcs: []string{"parser.readBooking"},
			agree: map[string]string{"parser.readBooking": "ImportSwisscard2"}},
		&trUnit{pkg: "cmd/importer/supercard", mod: "ImportSupercard",
			funcs: []string{"parser.parseCurrency", "parser.parseWords", "parser.parseDate", "parser.parseAmount", "parser.parseBooking", "parser.readLine"},
			agree: map[string]string{"parser.parseCurrency": "ImportSupercard", "parser.parseWords": "ImportSupercard", "parser.parseDate": "ImportSupercard",
				"parser.parseAmount": "ImportSupercard", "parser.parseBooking": "ImportSupercard", "parser.readLine": "ImportSupercard"}},
		&trUnit{pkg: "cmd/importer/swisscard", mod: "ImportSwisscard", funcs: []string{"parser.parseBooking", "parser.readLine"},
			agree: map[string]string{"parser.parseBooking": "ImportSwisscard", "parser.readLine": "ImportSwisscard"}},
	)
	// ch.swisscard: strings.TrimSpace, dateRegex.MatchString, replacer.Replace (GoSem/ImportStr.lean)
	trStubEnsure("strings", "func TrimSpace(", "func TrimSpace(s string) string")
	trStubEnsure("strings", "type Replacer struct", "type Replacer struct{ _ int }")
	trStubEnsure("strings", "func NewReplacer(", "func NewReplacer(oldnew ...string) *Replacer")
	trStubEnsure("strings", "func (r *Replacer) Replace(", "func (r *Replacer) Replace(s string) string")
	trStubEnsure("regexp", "func (re *Regexp) MatchString(", "func (re *Regexp) MatchString(s string) bool")
	trPrims["strings.TrimSpace"] = trPrim{lean: "Strings.TrimSpace"}
	trRegexpPrelude[`\s+`] = "Regexp.replaceAllWs" // GoSem/ImportStr.lean
	trStubEnsure("encoding/csv", "type Reader struct", "type Reader struct{ _ int }")
	trStubEnsure("encoding/csv", "func (r *Reader) Read(", "func (r *Reader) Read() (record []string, err error)")
	trExtStd["(*encoding/csv.Reader).Read"] = true
	// time.Parse: the constant layout selects the prelude function (ISO as in the Create units: trans_units_create.go)
	trPrims["time.Parse"] = trPrim{lean: "Time.ParseISO",
		args: func(c *trCtx, call *ast.CallExpr) []ast.Expr {
			trTimeLayout(c, call)
			return call.Args[1:]
		},
		leanOf: trTimeLayout}
}

// trTimeLayouts: the constant layouts of time.Parse that have a meaning in the prelude
var trTimeLayouts = map[string]string{
	`"2006-01-02"`: "Time.ParseISO",    // GoSem/Parse.lean
	`"02.01.2006"`: "Time.ParseDMYdot", // GoSem/ParseLayout.lean
}

func trTimeLayout(c *trCtx, call *ast.CallExpr) string {
	tv := c.info().Types[call.Args[0]]
	if tv.Value != nil {
		if n, ok := trTimeLayouts[tv.Value.ExactString()]; ok {
			return n
		}
	}
	trFail(call.Args[0].Pos(), "time.Parse with a layout other than the constants \"2006-01-02\", \"02.01.2006\" is outside the subset")
	return ""
}

func trImportImports(text string) string {
	res := ""
	if strings.Contains(text, "Time.ParseDMYdot") {
		res += "import Knut.GoSem.ParseLayout\n"
	}
	if strings.Contains(text, "Regexp.replaceAllWs") || strings.Contains(text, "Regexp.matchDate") || strings.Contains(text, "Strings.TrimSpace") ||
		strings.Contains(text, "Strings.replaceChfApos") {
		res += "import Knut.GoSem.ImportStr\n"
	}
	return res
}

// trImportUnits: the importer units (hooks below apply only there)
var trImportUnits = map[string]bool{"ImportSwisscard2": true, "ImportSupercard": true, "ImportSwisscard": true}

func (c *trCtx) importMode() bool {
	return c != nil && c.fn != nil && c.fn.unit != nil && trImportUnits[c.fn.unit.mod]
}

// importReturnCall (hook of the return statement): `return f(…)` for a call with exactly the results of the function
// (`return time.Parse("02.01.2006", r[i])` in parseDate): the value of the call is returned as it is
func (c *trCtx) importReturnCall(x *ast.ReturnStmt) (trLines, bool) {
	if !c.importMode() || len(x.Results) != 1 || c.nresults < 2 {
		return nil, false
	}
	call, ok := trUnparen(x.Results[0]).(*ast.CallExpr)
	if !ok {
		return nil, false
	}
	tup, ok := c.typeOf(call).(*types.Tuple)
	if !ok || tup.Len() != c.nresults {
		return nil, false
	}
	for i := 0; i < tup.Len(); i++ {
		if !types.Identical(tup.At(i).Type(), c.resultTypes[i]) {
			trFail(x.Pos(), "return of a call whose result %d has another type than the result of the function is outside the subset", i)
		}
	}
	if len(c.fn.mutObjs) > 0 || c.statePack != nil {
		return nil, false
	}
	v := c.expr(call)
	pre := c.takePre()
	return trWrapPre(pre, c.retRaw(v, x.Pos())), true
}

// importCasePre (hook of the switch statement): a TAGLESS switch whose case expressions can panic (`case len(r[fieldGutschrift]) > 0:`
// in parseAmount): Go evaluates the expressions of a case when the case is reached, top to bottom; the effectful subterms of a
// case are bound in front of the if/else chain of THAT case (inside the else branch of the cases before it). One expression per case
// only (`case a, b:` would evaluate b only when a is false).
func (c *trCtx) importCasePre(x *ast.SwitchStmt, cc *ast.CaseClause) bool {
	return c.importMode() && x.Tag == nil && len(cc.List) == 1
}

// importShadowsType (hook of local): a local variable with the name of a TYPE of its own package (`field field` in supercard's
// parseAmount) would capture the type name in the `let`s that follow it: it gets a suffix
func (c *trCtx) importShadowsType(obj types.Object) bool {
	if !c.importMode() || obj.Pkg() == nil {
		return false
	}
	_, isType := obj.Pkg().Scope().Lookup(obj.Name()).(*types.TypeName)
	return isType
}

// trRegexpMatchPrelude: the regular expressions (pattern text) whose MatchString has a meaning in the prelude (GoSem/ImportStr.lean)
var trRegexpMatchPrelude = map[string]string{`\d\d.\d\d.\d\d\d\d`: "Regexp.matchDate"}

// trReplacerPrelude: the argument lists of strings.NewReplacer (constants, comma separated) whose Replace has a meaning in the prelude
var trReplacerPrelude = map[string]string{`"CHF","","'",""`: "Strings.replaceChfApos"}

// importStrCall (hook of the call expression, before the regexp hooks of the other units): in the importer units
//   re.MatchString(s)   on a PACKAGE-LEVEL, never assigned `var re = regexp.MustCompile("<constant>")` with a pattern of
//                       trRegexpMatchPrelude: the pure prelude function (a package-level MustCompile that returned cannot be nil)
//   rp.Replace(s)       on a package-level, never assigned `var rp = strings.NewReplacer(<constants>)` of trReplacerPrelude
func (c *trCtx) importStrCall(x *ast.CallExpr) (string, bool) {
	if !c.importMode() {
		return "", false
	}
	sel, ok := trUnparen(x.Fun).(*ast.SelectorExpr)
	if !ok {
		return "", false
	}
	s, ok := c.info().Selections[sel]
	if !ok || s.Kind() != types.MethodVal {
		return "", false
	}
	fo, _ := s.Obj().(*types.Func)
	if fo == nil || len(x.Args) != 1 {
		return "", false
	}
	full := fo.FullName()
	if full != "(*regexp.Regexp).MatchString" && full != "(*strings.Replacer).Replace" {
		return "", false
	}
	id, ok := trUnparen(sel.X).(*ast.Ident)
	if !ok {
		return "", false
	}
	v, ok := c.info().Uses[id].(*types.Var)
	if !ok || v.Pkg() == nil || v.Parent() != v.Pkg().Scope() {
		return "", false
	}
	if full == "(*regexp.Regexp).MatchString" {
		pat := c.t.regexpPattern(v, x.Pos())
		lean, ok := trRegexpMatchPrelude[pat]
		if !ok {
			trFail(x.Pos(), "MatchString of the regular expression %q has no meaning in the prelude", pat)
		}
		return "(" + lean + " " + c.expr(x.Args[0]) + ")", true
	}
	key := c.t.importReplacerArgs(v, x.Pos())
	lean, ok := trReplacerPrelude[key]
	if !ok {
		trFail(x.Pos(), "strings.NewReplacer(%s) has no meaning in the prelude", key)
	}
	return "(" + lean + " " + c.expr(x.Args[0]) + ")", true
}

// importReplacerArgs: the constant arguments of the `strings.NewReplacer(…)` that initialises the package variable o (never assigned,
// its address never taken)
func (t *trTranslator) importReplacerArgs(o *types.Var, pos token.Pos) string {
	p := t.l.pkgs[o.Pkg().Path()]
	if p == nil {
		trFail(pos, "package of %s not loaded", o.Name())
	}
	var init ast.Expr
	for _, f := range p.files {
		for _, d := range f.Decls {
			gd, ok := d.(*ast.GenDecl)
			if !ok || gd.Tok != token.VAR {
				continue
			}
			for _, sp := range gd.Specs {
				vs := sp.(*ast.ValueSpec)
				for i, n := range vs.Names {
					if p.info.Defs[n] == o && len(vs.Values) == len(vs.Names) {
						init = vs.Values[i]
					}
				}
			}
		}
		ast.Inspect(f, func(n ast.Node) bool {
			switch x := n.(type) {
			case *ast.AssignStmt:
				for _, l := range x.Lhs {
					if id := trBaseIdent(l); id != nil && p.info.Uses[id] == o {
						trFail(x.Pos(), "package variable %s is assigned here: outside the subset", o.Name())
					}
				}
			case *ast.UnaryExpr:
				if x.Op == token.AND {
					if id := trBaseIdent(x.X); id != nil && p.info.Uses[id] == o {
						trFail(x.Pos(), "the address of package variable %s is taken here: outside the subset", o.Name())
					}
				}
			}
			return true
		})
	}
	call, ok := init.(*ast.CallExpr)
	if !ok {
		trFail(pos, "package variable %s is not initialised by strings.NewReplacer(<constants>)", o.Name())
	}
	sel, ok := call.Fun.(*ast.SelectorExpr)
	if !ok {
		trFail(pos, "package variable %s is not initialised by strings.NewReplacer(<constants>)", o.Name())
	}
	fo, _ := p.info.Uses[sel.Sel].(*types.Func)
	if fo == nil || fo.FullName() != "strings.NewReplacer" || call.Ellipsis.IsValid() {
		trFail(pos, "package variable %s is not initialised by strings.NewReplacer(<constants>)", o.Name())
	}
	var parts []string
	for _, a := range call.Args {
		tv := p.info.Types[a]
		if tv.Value == nil {
			trFail(pos, "package variable %s is not initialised by strings.NewReplacer(<constants>)", o.Name())
		}
		parts = append(parts, tv.Value.ExactString())
	}
	return strings.Join(parts, ",")
}
