import Knut.Basic.AMap
/-!
# Sums over the values of association lists (`map[K]float64` under exact arithmetic)

Lemmas for the agreement theorems of the translated `lib/journal/performance` and `lib/reports/weights`: a Go map of rationals
and a model association list that answer every lookup alike and have no repeated keys have the same sum of (a function of) the values,
whatever the order of their entries; a `range` over such a map that reaches every key once adds up the same sum.
-/
set_option linter.unusedSectionVars false
namespace Knut.MapSum
open Knut

/-! ### sums of lists of rationals -/

theorem sum_cons (x : Rat) (l : List Rat) : (x :: l).sum = x + l.sum := rfl

theorem sum_append (a b : List Rat) : (a ++ b).sum = a.sum + b.sum := by
  induction a with
  | nil => simp [Rat.zero_add]
  | cons x a ih => simp only [List.cons_append, sum_cons, ih]; grind

theorem sum_perm {a b : List Rat} (h : a.Perm b) : a.sum = b.sum := by
  induction h with
  | nil => rfl
  | cons x _ ih => simp only [sum_cons, ih]
  | swap x y l => simp only [sum_cons]; grind
  | trans _ _ ih1 ih2 => exact ih1.trans ih2

/-- `res := 0; for x in l { res += f x }` -/
theorem foldl_add_eq_sum {α : Type} (f : α → Rat) (l : List α) (z : Rat) :
    l.foldl (fun acc x => acc + f x) z = z + (l.map f).sum := by
  induction l generalizing z with
  | nil => simp [Rat.add_zero]
  | cons x l ih => simp only [List.foldl_cons, ih, List.map_cons, sum_cons]; grind

theorem sum_filter (p : Rat → Bool) (l : List Rat) : (l.filter p).sum = (l.map (fun x => if p x then x else 0)).sum := by
  induction l with
  | nil => rfl
  | cons x l ih =>
    by_cases h : p x = true
    · simp only [List.filter_cons, h, if_true, sum_cons, List.map_cons, ih]
    · simp only [List.filter_cons, h, if_false, Bool.false_eq_true, sum_cons, List.map_cons, ih]; grind

section amap
variable {κ : Type} [DecidableEq κ]

/-- `Σ f(value)` over the entries of a map -/
def msum (f : Rat → Rat) (m : AMap κ Rat) : Rat := (m.map (fun e => f e.2)).sum

/-- the sum of the values -/
def total (m : AMap κ Rat) : Rat := (m.map (·.2)).sum

theorem total_eq_msum (m : AMap κ Rat) : total m = msum (fun x => x) m := rfl

@[simp] theorem msum_nil (f : Rat → Rat) : msum f ([] : AMap κ Rat) = 0 := rfl
theorem msum_cons (f : Rat → Rat) (k : κ) (v : Rat) (m : AMap κ Rat) : msum f ((k, v) :: m) = f v + msum f m := rfl
@[simp] theorem total_nil : total ([] : AMap κ Rat) = 0 := rfl
theorem total_cons (k : κ) (v : Rat) (m : AMap κ Rat) : total ((k, v) :: m) = v + total m := rfl

/-- no key twice -/
def NodupKeys {ν : Type} (m : AMap κ ν) : Prop := (m.map Prod.fst).Nodup

theorem nodupKeys_nil {ν : Type} : NodupKeys ([] : AMap κ ν) := List.nodup_nil

theorem find?_eq_none_of_not_mem {ν : Type} (m : AMap κ ν) (k : κ) (h : k ∉ m.map Prod.fst) : AMap.find? m k = none := by
  induction m with
  | nil => rfl
  | cons e rest ih =>
    obtain ⟨a, b⟩ := e
    simp only [List.map_cons, List.mem_cons, not_or] at h
    have : a ≠ k := fun e => h.1 e.symm
    simp only [AMap.find?, this, if_false]
    exact ih h.2

theorem mem_keys_of_find? {ν : Type} {m : AMap κ ν} {k : κ} (h : (AMap.find? m k).isSome) : k ∈ m.map Prod.fst := by
  induction m with
  | nil => simp at h
  | cons e rest ih =>
    obtain ⟨a, b⟩ := e
    by_cases hak : a = k
    · simp [hak]
    · simp only [AMap.find?, hak, if_false] at h
      exact List.mem_cons_of_mem _ (ih h)

theorem find?_isSome_of_mem_keys {ν : Type} {m : AMap κ ν} {k : κ} (h : k ∈ m.map Prod.fst) : (AMap.find? m k).isSome := by
  induction m with
  | nil => simp at h
  | cons e rest ih =>
    obtain ⟨a, b⟩ := e
    by_cases hak : a = k
    · simp [AMap.find?, hak]
    · simp only [AMap.find?, hak, if_false]
      simp only [List.map_cons, List.mem_cons] at h
      rcases h with h | h
      · exact absurd h.symm hak
      · exact ih h

theorem keys_set_sub {ν : Type} (m : AMap κ ν) (k : κ) (v : ν) (x : κ) (hx : x ∈ (AMap.set m k v).map Prod.fst) :
    x = k ∨ x ∈ m.map Prod.fst := by
  induction m with
  | nil => simp [AMap.set] at hx; exact Or.inl hx
  | cons e rest ih =>
    obtain ⟨a, b⟩ := e
    by_cases hak : a = k
    · simp only [AMap.set, hak, if_true, List.map_cons, List.mem_cons] at hx ⊢
      rcases hx with hx | hx
      · exact Or.inl hx
      · exact Or.inr (Or.inr hx)
    · simp only [AMap.set, hak, if_false, List.map_cons, List.mem_cons] at hx ⊢
      rcases hx with hx | hx
      · exact Or.inr (Or.inl hx)
      · rcases ih hx with h | h
        · exact Or.inl h
        · exact Or.inr (Or.inr h)

theorem nodupKeys_set {ν : Type} (m : AMap κ ν) (k : κ) (v : ν) (hn : NodupKeys m) : NodupKeys (AMap.set m k v) := by
  unfold NodupKeys at *
  induction m with
  | nil => simp [AMap.set]
  | cons e rest ih =>
    obtain ⟨a, b⟩ := e
    simp only [List.map_cons, List.nodup_cons] at hn
    by_cases hak : a = k
    · subst hak
      simp only [AMap.set, if_true, List.map_cons, List.nodup_cons]
      exact hn
    · simp only [AMap.set, hak, if_false, List.map_cons, List.nodup_cons]
      refine ⟨?_, ih hn.2⟩
      intro hx
      rcases keys_set_sub rest k v a hx with h | h
      · exact hak h
      · exact hn.1 h

theorem keys_erase_sublist {ν : Type} (m : AMap κ ν) (k : κ) : ((AMap.erase m k).map Prod.fst).Sublist (m.map Prod.fst) := by
  induction m with
  | nil => simp [AMap.erase]
  | cons e rest ih =>
    obtain ⟨a, b⟩ := e
    by_cases hak : a = k
    · simp only [AMap.erase, hak, if_true, List.map_cons]
      exact List.Sublist.cons _ (by simpa [hak] using ih)
    · simp only [AMap.erase, hak, if_false, List.map_cons]
      exact List.Sublist.cons_cons _ ih

theorem nodupKeys_erase {ν : Type} (m : AMap κ ν) (k : κ) (hn : NodupKeys m) : NodupKeys (AMap.erase m k) :=
  (keys_erase_sublist m k).nodup hn

theorem erase_of_not_mem {ν : Type} (m : AMap κ ν) (k : κ) (h : k ∉ m.map Prod.fst) : AMap.erase m k = m := by
  induction m with
  | nil => rfl
  | cons e rest ih =>
    obtain ⟨a, b⟩ := e
    simp only [List.map_cons, List.mem_cons, not_or] at h
    have hne : a ≠ k := fun e => h.1 e.symm
    simp only [AMap.erase, hne, if_false, ih h.2]

theorem sum_map_zero {α : Type} (l : List α) : (l.map (fun _ => (0 : Rat))).sum = 0 := by
  induction l with
  | nil => rfl
  | cons x l ih => simp only [List.map_cons, sum_cons, ih]; grind

/-- taking one entry out of the sum -/
theorem msum_erase (f : Rat → Rat) {m : AMap κ Rat} {k : κ} {v : Rat} (hn : NodupKeys m) (h : AMap.find? m k = some v) :
    msum f m = f v + msum f (AMap.erase m k) := by
  induction m with
  | nil => simp at h
  | cons e rest ih =>
    obtain ⟨a, b⟩ := e
    have hn' : a ∉ rest.map Prod.fst ∧ NodupKeys rest := by simpa [NodupKeys] using hn
    by_cases hak : a = k
    · subst hak
      simp only [AMap.find?, if_true, Option.some.injEq] at h
      subst h
      have hno : AMap.erase rest a = rest := erase_of_not_mem rest a hn'.1
      simp only [AMap.erase, if_true, hno, msum_cons]
    · simp only [AMap.find?, hak, if_false] at h
      simp only [AMap.erase, hak, if_false, msum_cons, ih hn'.2 h]
      grind

/-- `m[k] += x` adds `x` to the sum of the values -/
theorem total_set_add (m : AMap κ Rat) (k : κ) (x : Rat) : total (AMap.set m k (AMap.get m k 0 + x)) = total m + x := by
  induction m with
  | nil => simp only [AMap.set, AMap.get, AMap.find?, Option.getD_none, total_cons, total_nil]; grind
  | cons e rest ih =>
    obtain ⟨a, b⟩ := e
    by_cases hak : a = k
    · simp only [AMap.set, hak, if_true, AMap.get, AMap.find?, Option.getD_some, total_cons]; grind
    · have hg : AMap.get ((a, b) :: rest) k 0 = AMap.get rest k 0 := by simp [AMap.get, AMap.find?, hak]
      simp only [AMap.set, hak, if_false, hg, total_cons, ih]; grind

/-- a Go map `g` (keys converted by `conv`) and a model map `m`: every lookup agrees, every key of `g` is a converted key, no key twice -/
structure MEquiv {κ' : Type} [DecidableEq κ'] (conv : κ' → κ) (g : AMap κ Rat) (m : AMap κ' Rat) : Prop where
  lookup : ∀ c, AMap.find? g (conv c) = AMap.find? m c
  keys : ∀ k, (AMap.find? g k).isSome → ∃ c, k = conv c
  gnodup : NodupKeys g
  mnodup : NodupKeys m

theorem MEquiv_nil {κ' : Type} [DecidableEq κ'] (conv : κ' → κ) : MEquiv conv ([] : AMap κ Rat) ([] : AMap κ' Rat) :=
  ⟨fun _ => rfl, fun _ h => by simp at h, nodupKeys_nil, nodupKeys_nil⟩

/-- two maps that answer every lookup alike have the same sums -/
theorem msum_congr {κ' : Type} [DecidableEq κ'] {conv : κ' → κ} (hinj : ∀ a b, conv a = conv b → a = b) (f : Rat → Rat) :
    ∀ (m : AMap κ' Rat) (g : AMap κ Rat), MEquiv conv g m → msum f g = msum f m := by
  intro m
  induction m with
  | nil =>
    intro g h
    cases g with
    | nil => rfl
    | cons e rest =>
      obtain ⟨a, b⟩ := e
      have hs : (AMap.find? ((a, b) :: rest) a).isSome := by simp [AMap.find?]
      obtain ⟨c, hc⟩ := h.keys a hs
      have := h.lookup c
      rw [← hc] at this
      simp [AMap.find?] at this
  | cons e m' ih =>
    obtain ⟨c, v⟩ := e
    intro g h
    have hm' : c ∉ m'.map Prod.fst ∧ NodupKeys m' := by simpa [NodupKeys] using h.mnodup
    have hg : AMap.find? g (conv c) = some v := by rw [h.lookup c]; simp [AMap.find?]
    rw [msum_erase f h.gnodup hg, msum_cons]
    congr 1
    apply ih
    refine ⟨?_, ?_, nodupKeys_erase g _ h.gnodup, hm'.2⟩
    · intro c'
      rw [AMap.find?_erase]
      by_cases hcc : c = c'
      · subst hcc
        simp only [if_true]
        exact (find?_eq_none_of_not_mem m' c hm'.1).symm
      · have : conv c ≠ conv c' := fun e => hcc (hinj _ _ e)
        simp only [this, if_false, h.lookup c', AMap.find?, hcc]
    · intro k hk
      rw [AMap.find?_erase] at hk
      by_cases hck : conv c = k
      · simp [hck] at hk
      · simp only [hck, if_false] at hk
        exact h.keys k hk

theorem total_congr {κ' : Type} [DecidableEq κ'] {conv : κ' → κ} (hinj : ∀ a b, conv a = conv b → a = b)
    {m : AMap κ' Rat} {g : AMap κ Rat} (h : MEquiv conv g m) : total g = total m :=
  msum_congr hinj (fun x => x) m g h

/-- what one step of a `range` over the map `g` at key `k` contributes: nothing when `k` is not (or no longer) a key -/
def contrib (f : Rat → Rat) (g : AMap κ Rat) (k : κ) : Rat :=
  match AMap.find? g k with
  | some v => f v
  | none => 0

/-- a `range` that reaches every key of `g` exactly once adds up `msum f g`, whatever its order -/
theorem osum_eq_msum (f : Rat → Rat) : ∀ (g : AMap κ Rat) (o : List κ), NodupKeys g → o.Nodup →
    (∀ k, (AMap.find? g k).isSome → k ∈ o) → (o.map (contrib f g)).sum = msum f g := by
  intro g
  induction g with
  | nil =>
    intro o _ _ _
    have : o.map (contrib f ([] : AMap κ Rat)) = o.map (fun _ => (0 : Rat)) := by
      apply List.map_congr_left; intro k _; rfl
    rw [this, sum_map_zero]; rfl
  | cons e rest ih =>
    obtain ⟨a, b⟩ := e
    intro o hn ho hall
    have hn' : a ∉ rest.map Prod.fst ∧ NodupKeys rest := by simpa [NodupKeys] using hn
    have ha : a ∈ o := hall a (by simp [AMap.find?])
    -- split the contributions: `a` contributes `f b`, every other key what it contributes to `rest`
    have key : ∀ (l : List κ), l.Nodup → (l.map (contrib f ((a, b) :: rest))).sum =
        (if a ∈ l then f b else 0) + (l.map (contrib f rest)).sum := by
      intro l hl
      induction l with
      | nil => simp [Rat.add_zero]
      | cons x l ihl =>
        have hl' : x ∉ l ∧ l.Nodup := by simpa using hl
        simp only [List.map_cons, sum_cons, ihl hl'.2]
        by_cases hxa : a = x
        · subst hxa
          have h0 : contrib f rest a = 0 := by simp [contrib, find?_eq_none_of_not_mem rest a hn'.1]
          have h1 : contrib f ((a, b) :: rest) a = f b := by simp [contrib, AMap.find?]
          simp only [h0, h1, hl'.1, List.mem_cons, true_or, if_true, if_false]
          first | done | grind
        · have h1 : contrib f ((a, b) :: rest) x = contrib f rest x := by simp [contrib, AMap.find?, hxa]
          have hne : ¬ (a = x ∨ a ∈ l) ↔ ¬ a ∈ l := by simp [hxa]
          by_cases hal : a ∈ l
          · simp only [h1, List.mem_cons, hxa, false_or, hal, if_true]; grind
          · simp only [h1, List.mem_cons, hxa, false_or, hal, if_false]; grind
    rw [key o ho, msum_cons]
    simp only [ha, if_true]
    congr 1
    apply ih o hn'.2 ho
    intro k hk
    apply hall k
    have hka : a ≠ k := by
      intro e; subst e
      rw [find?_eq_none_of_not_mem rest a hn'.1] at hk; simp at hk
    simpa [AMap.find?, hka] using hk

end amap
end Knut.MapSum
