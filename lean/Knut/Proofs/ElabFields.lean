import Knut.Proofs.ElabUtf8
import Knut.Proofs.PrintSound
import Knut.Proofs.Commands
/-!
# The two elaboration models read the same fields (C09, link between `FromSyntax.loadText` and `Commands.elabFile`)

`Model/FromSyntax.lean` works on bytes (`Range.extract`, strict UTF-8 decoding, `time.Parse` and the decimal check on bytes);
`Model/Commands.lean` on strings (`textOf`: the slice decoded rune by rune). On the tokens a successful parse consumed —
validly encoded, hence the bytes of a string (`Proofs/ElabUtf8.lean`) — both read the same string, and the two models of
`time.Parse("2006-01-02")` and of `decimal.NewFromString` agree on EVERY string.
-/
namespace Knut.ElabAgree
open Knut Knut.Syntax Knut.Utf8 Knut.FromSyntax Knut.Commands
set_option linter.unusedVariables false

/-! ### strings -/

theorem strOf_strBytes (s : String) : strOf (strBytes s) = s := by
  unfold strOf
  rw [decodeAll_strBytes]
  simp only [strToks, charsToks, List.map_map]
  have : (fun t : Tok => Char.ofNat t.r) ∘ charTok = id := by
    funext c
    simp [charTok, Char.ofNat_toNat]
  rw [this, List.map_id, String.ofList_toList]

theorem slice_of_extract {text : List UInt8} {r : Range} {bs : List UInt8} (h : r.extract text = some bs) :
    Spec.Syntax.slice text r.start r.stop = bs := by
  unfold Range.extract at h
  split at h
  · simpa [Spec.Syntax.slice] using h
  · cases h

/-- a field whose tokens are validly encoded: both elaborations read the same string -/
theorem field_string {text : List UInt8} {r : Range} {c : List Tok} (hx : r.extract text = some (flat c)) (hc : Canon c) (hv : Valid c) :
    ∃ s, c = strToks s ∧ fieldStr text r = some s ∧ textOf text r = s := by
  obtain ⟨s, hs⟩ := toks_are_string c hc hv
  refine ⟨s, hs, ?_, ?_⟩
  · rw [fieldStr_of_extract hx, hs]; exact utf8_str s
  · unfold textOf
    rw [slice_of_extract hx, hs, flat_strToks, strOf_strBytes]



theorem cAscii_iff (c : Char) : Commands.asciiDigit c = true ↔ 48 ≤ c.toNat ∧ c.toNat ≤ 57 := by
  simp only [Commands.asciiDigit, Bool.and_eq_true, decide_eq_true_eq, Char.le_def, UInt32.le_iff_toNat_le]
  exact Iff.rfl

theorem byte_toNat (c : Char) (h : c.toNat < 128) : (UInt8.ofNat c.toNat).toNat = c.toNat := by
  simp [UInt8.toNat_ofNat']; omega

theorem fAscii_iff (c : Char) (h : c.toNat < 128) :
    FromSyntax.asciiDigit (UInt8.ofNat c.toNat) = true ↔ 48 ≤ c.toNat ∧ c.toNat ≤ 57 := by
  simp only [FromSyntax.asciiDigit, Bool.and_eq_true, decide_eq_true_eq, byte_toNat c h]

theorem ascii_agree (c : Char) (h : c.toNat < 128) : FromSyntax.asciiDigit (UInt8.ofNat c.toNat) = Commands.asciiDigit c := by
  rw [Bool.eq_iff_iff, fAscii_iff c h, cAscii_iff]

theorem dash_iff (c : Char) (h : c.toNat < 128) : UInt8.ofNat c.toNat = 45 ↔ c = '-' := by
  constructor
  · intro e
    have := congrArg UInt8.toNat e
    rw [byte_toNat c h] at this
    exact char_of_toNat (c := '-') this
  · rintro rfl; rfl

theorem daysIn_agree (y m : Int) (h1 : 1 ≤ m) (h12 : m ≤ 12) : Commands.daysIn y m = FromSyntax.daysIn y m :=
  cumDays_diff (Date.isLeap y) y m rfl h1 h12

theorem digitVal_eq (c : Char) : Commands.digitVal c = ((c.toNat - 48 : Nat) : Int) := rfl

theorem ite_congr_none {α : Type} (b : Bool) (x y : Option α) (h : b = true → x = y) :
    (if b = true then x else none) = (if b = true then y else none) := by
  cases b
  · rfl
  · simp only [if_true]; exact h rfl

theorem date_core (y y' m m' d d' : Int) (hy : y = y') (hm : m = m') (hd : d = d') :
    (if 1 ≤ m ∧ m ≤ 12 ∧ 1 ≤ d ∧ d ≤ FromSyntax.daysIn y m then some (Date.ofCivil y m d) else none) =
      (if 1 ≤ m' ∧ m' ≤ 12 ∧ 1 ≤ d' ∧ d' ≤ Commands.daysIn y' m' then some (Date.ofCivil y' m' d') else none) := by
  subst hy hm hd
  by_cases hm : 1 ≤ m ∧ m ≤ 12
  · rw [daysIn_agree y m hm.1 hm.2]
  · have n1 : ¬ (1 ≤ m ∧ m ≤ 12 ∧ 1 ≤ d ∧ d ≤ FromSyntax.daysIn y m) := fun h => hm ⟨h.1, h.2.1⟩
    have n2 : ¬ (1 ≤ m ∧ m ≤ 12 ∧ 1 ≤ d ∧ d ≤ Commands.daysIn y m) := fun h => hm ⟨h.1, h.2.1⟩
    rw [if_neg n1, if_neg n2]

/-- the two models of `time.Parse("2006-01-02")` on ten ASCII characters -/
theorem parseDate_explicit (c1 c2 c3 c4 c5 c6 c7 c8 c9 c10 : Char)
    (h : ∀ c ∈ [c1, c2, c3, c4, c5, c6, c7, c8, c9, c10], c.toNat < 128) :
    FromSyntax.parseDate ([c1, c2, c3, c4, c5, c6, c7, c8, c9, c10].map (fun c => UInt8.ofNat c.toNat)) =
      Commands.parseDate (String.ofList [c1, c2, c3, c4, c5, c6, c7, c8, c9, c10]) := by
  simp only [List.mem_cons, List.not_mem_nil, or_false, forall_eq_or_imp, forall_eq] at h
  obtain ⟨a1, a2, a3, a4, a5, a6, a7, a8, a9, a10⟩ := h
  by_cases h5 : c5 = '-'
  · by_cases h8 : c8 = '-'
    · subst h5 h8
      simp only [List.map_cons, List.map_nil, FromSyntax.parseDate, Commands.parseDate, String.toList_ofList,
        List.all_cons, List.all_nil, Bool.and_true, ascii_agree _ a1, ascii_agree _ a2, ascii_agree _ a3, ascii_agree _ a4,
        ascii_agree _ a6, ascii_agree _ a7, ascii_agree _ a9, ascii_agree _ a10]
      have e45 : (UInt8.ofNat '-'.toNat) = 45 := rfl
      simp only [e45, true_and]
      apply ite_congr_none
      intro hb
      · refine date_core _ _ _ _ _ _ ?_ ?_ ?_
        · simp only [FromSyntax.digitsVal, List.foldl_cons, List.foldl_nil, digitVal_eq, byte_toNat _ a1, byte_toNat _ a2,
            byte_toNat _ a3, byte_toNat _ a4]
          push_cast; omega
        · simp only [FromSyntax.digitsVal, List.foldl_cons, List.foldl_nil, digitVal_eq, byte_toNat _ a6, byte_toNat _ a7]
          push_cast; omega
        · simp only [FromSyntax.digitsVal, List.foldl_cons, List.foldl_nil, digitVal_eq, byte_toNat _ a9, byte_toNat _ a10]
          push_cast; omega
    · have n : ¬ (UInt8.ofNat c8.toNat = 45) := fun e => h8 ((dash_iff c8 a8).mp e)
      have lhs : FromSyntax.parseDate ([c1, c2, c3, c4, c5, c6, c7, c8, c9, c10].map (fun c => UInt8.ofNat c.toNat)) = none := by
        simp only [List.map_cons, List.map_nil, FromSyntax.parseDate, n, false_and, and_false, if_false]
      rw [lhs]
      unfold Commands.parseDate
      split
      · rename_i hl
        simp only [String.toList_ofList, List.cons.injEq] at hl
        exact absurd hl.2.2.2.2.2.2.2.1 h8
      · rfl
  · have n : ¬ (UInt8.ofNat c5.toNat = 45) := fun e => h5 ((dash_iff c5 a5).mp e)
    have lhs : FromSyntax.parseDate ([c1, c2, c3, c4, c5, c6, c7, c8, c9, c10].map (fun c => UInt8.ofNat c.toNat)) = none := by
      simp only [List.map_cons, List.map_nil, FromSyntax.parseDate, n, false_and, if_false]
    rw [lhs]
    unfold Commands.parseDate
    split
    · rename_i hl
      simp only [String.toList_ofList, List.cons.injEq] at hl
      exact absurd hl.2.2.2.2.1 h5
    · rfl

theorem cdate_shape {s : String} {z : Int} (h : Commands.parseDate s = some z) :
    ∃ y1 y2 y3 y4 m1 m2 d1 d2, s.toList = [y1, y2, y3, y4, '-', m1, m2, '-', d1, d2] ∧
      [y1, y2, y3, y4, m1, m2, d1, d2].all Commands.asciiDigit = true := by
  unfold Commands.parseDate at h
  split at h
  · rename_i y1 y2 y3 y4 m1 m2 d1 d2 hl
    split at h
    · exact ⟨y1, y2, y3, y4, m1, m2, d1, d2, hl, by assumption⟩
    · cases h
  · cases h

theorem fdate_shape {bs : List UInt8} {z : Int} (h : FromSyntax.parseDate bs = some z) :
    ∃ y1 y2 y3 y4 m1 m2 a1 a2, bs = [y1, y2, y3, y4, 45, m1, m2, 45, a1, a2] ∧
      [y1, y2, y3, y4, m1, m2, a1, a2].all FromSyntax.asciiDigit = true := by
  unfold FromSyntax.parseDate at h
  split at h
  · rename_i y1 y2 y3 y4 d1 m1 m2 d2 a1 a2
    split at h
    · rename_i hc
      obtain ⟨rfl, rfl, hall⟩ := hc
      exact ⟨y1, y2, y3, y4, m1, m2, a1, a2, rfl, hall⟩
    · cases h
  · cases h

theorem ascii_of_enc (c : Char) (h : ∀ b ∈ String.utf8EncodeChar c, b.toNat < 128) : c.toNat < 128 := by
  have hd := decodeRune_charTok c []
  rw [List.append_nil] at hd
  cases he : String.utf8EncodeChar c with
  | nil =>
    have h1 := String.length_utf8EncodeChar c
    have h2 := c.utf8Size_pos
    rw [he] at h1
    simp at h1
    omega
  | cons b0 rest =>
    rw [he] at hd h
    have hb := h b0 List.mem_cons_self
    simp only [decodeRune, hb, if_true, charTok] at hd
    have := congrArg Tok.r hd
    simp only at this
    omega

theorem ascii_of_bytes : ∀ cs : List Char, (∀ b ∈ flat (charsToks cs), b.toNat < 128) → ∀ c ∈ cs, c.toNat < 128
  | [], _, c, hc => by cases hc
  | c0 :: cs, h, c, hc => by
    simp only [charsToks, List.map_cons, flat_cons, List.mem_append] at h
    rcases List.mem_cons.mp hc with rfl | hc
    · exact ascii_of_enc c (fun b hb => h b (Or.inl hb))
    · exact ascii_of_bytes cs (fun b hb => h b (Or.inr hb)) c hc

theorem strBytes_ascii (s : String) (h : ∀ c ∈ s.toList, c.toNat < 128) :
    strBytes s = s.toList.map (fun c => UInt8.ofNat c.toNat) := by
  rw [← flat_strToks]; exact flat_ascii _ h

/-- **the two models of `time.Parse("2006-01-02")` agree on every string** -/
theorem parseDate_agree (s : String) : FromSyntax.parseDate (strBytes s) = Commands.parseDate s := by
  by_cases hA : s.toList.length = 10 ∧ ∀ c ∈ s.toList, c.toNat < 128
  · obtain ⟨hl, ha⟩ := hA
    rw [strBytes_ascii s ha]
    have hs : s = String.ofList s.toList := (String.ofList_toList).symm
    generalize s.toList = l at hl ha hs
    match l, hl with
    | [c1, c2, c3, c4, c5, c6, c7, c8, c9, c10], _ =>
      rw [hs]
      exact parseDate_explicit c1 c2 c3 c4 c5 c6 c7 c8 c9 c10 ha
  · have hC : Commands.parseDate s = none := by
      cases h : Commands.parseDate s with
      | none => rfl
      | some z =>
        exfalso
        obtain ⟨y1, y2, y3, y4, m1, m2, d1, d2, hl, hall⟩ := cdate_shape h
        apply hA
        rw [hl]
        refine ⟨rfl, ?_⟩
        simp only [List.all_cons, List.all_nil, Bool.and_true, Bool.and_eq_true, cAscii_iff] at hall
        intro c hc
        simp only [List.mem_cons, List.not_mem_nil, or_false] at hc
        rcases hc with rfl | rfl | rfl | rfl | rfl | rfl | rfl | rfl | rfl | rfl
        all_goals first | omega | decide
    have hF : FromSyntax.parseDate (strBytes s) = none := by
      cases h : FromSyntax.parseDate (strBytes s) with
      | none => rfl
      | some z =>
        exfalso
        obtain ⟨y1, y2, y3, y4, m1, m2, a1, a2, hl, hall⟩ := fdate_shape h
        have hasc : ∀ c ∈ s.toList, c.toNat < 128 := by
          apply ascii_of_bytes
          rw [← strToks, flat_strToks, hl]
          simp only [List.all_cons, List.all_nil, Bool.and_true, Bool.and_eq_true, FromSyntax.asciiDigit, decide_eq_true_eq] at hall
          intro b hb
          simp only [List.mem_cons, List.not_mem_nil, or_false] at hb
          rcases hb with rfl | rfl | rfl | rfl | rfl | rfl | rfl | rfl | rfl | rfl
          all_goals first | omega | decide
        apply hA
        refine ⟨?_, hasc⟩
        have := congrArg List.length hl
        rw [strBytes_ascii s hasc] at this
        simpa using this
    rw [hC, hF]

theorem mem_takeWhile_imp {p : Char → Bool} {l : List Char} {c : Char} (h : c ∈ l.takeWhile p) : p c = true := by
  induction l with
  | nil => cases h
  | cons a l ih =>
    simp only [List.takeWhile_cons] at h
    split at h
    · rcases List.mem_cons.mp h with rfl | h
      · assumption
      · exact ih h
    · cases h

theorem parseDec_tail (neg : Bool) (cs : List Char) (q : Rat)
    (h : (let ip := cs.takeWhile Dec.isDigit
      let rest := cs.dropWhile Dec.isDigit
      if ip.isEmpty then none else
      match rest with
      | [] =>
        let v : Int := Dec.digitsToNat ip
        some ((if neg then -v else v : Int) : Rat)
      | '.' :: fp =>
        if fp.isEmpty || !fp.all Dec.isDigit then none else
        let v : Int := Dec.digitsToNat (ip ++ fp)
        some (mkRat (if neg then -v else v) (10 ^ fp.length))
      | _ => none) = some q) : ∀ c ∈ cs, c = '.' ∨ Dec.isDigit c = true := by
  intro c hc
  rw [← List.takeWhile_append_dropWhile (p := Dec.isDigit) (l := cs)] at hc
  simp only at h
  split at h
  · cases h
  · rcases List.mem_append.mp hc with hc | hc
    · exact Or.inr (mem_takeWhile_imp hc)
    · split at h
      · rename_i hr; rw [hr] at hc; cases hc
      · rename_i fp hr
        rw [hr] at hc
        split at h
        · cases h
        · rename_i hfp
          simp only [Bool.or_eq_true, Bool.not_eq_true', not_or, Bool.not_eq_false] at hfp
          rcases List.mem_cons.mp hc with rfl | hc
          · exact Or.inl rfl
          · exact Or.inr (List.all_eq_true.mp hfp.2 c hc)
      · cases h

theorem parseDec_chars {s : String} {q : Rat} (h : Dec.parseDec s = some q) :
    ∀ c ∈ s.toList, c = '-' ∨ c = '.' ∨ Dec.isDigit c = true := by
  unfold Dec.parseDec at h
  simp only at h
  split at h
  · rename_i cs hl
    intro c hc
    rw [hl] at hc
    rcases List.mem_cons.mp hc with rfl | hc
    · exact Or.inl rfl
    · exact Or.inr (parseDec_tail _ _ q h c hc)
  · intro c hc
    exact Or.inr (parseDec_tail _ _ q h c hc)


theorem decDigit_iff (c : Char) : Dec.isDigit c = true ↔ 48 ≤ c.toNat ∧ c.toNat ≤ 57 := by
  simp only [Dec.isDigit, Bool.and_eq_true, decide_eq_true_eq, Char.le_def, UInt32.le_iff_toNat_le]
  exact Iff.rfl

theorem utf8_strBytes (s : String) : utf8 (strBytes s) = some s := by
  rw [← flat_strToks]; exact utf8_str s

/-- **the two models of `decimal.NewFromString` agree on every string** -/
theorem decimal_agree (s : String) : decimalV (strBytes s) = Dec.parseDec s := by
  unfold decimalV
  rw [utf8_strBytes, Option.bind_some]
  split
  · rfl
  · rename_i hn
    cases hp : Dec.parseDec s with
    | none => rfl
    | some q =>
      exfalso
      apply hn
      have hch := parseDec_chars hp
      have hasc : ∀ c ∈ s.toList, c.toNat < 128 := by
        intro c hc
        rcases hch c hc with rfl | rfl | hd
        · decide
        · decide
        · have := (decDigit_iff c).mp hd; omega
      rw [strBytes_ascii s hasc, List.all_map, List.all_eq_true]
      intro c hc
      simp only [Function.comp, Bool.or_eq_true, decide_eq_true_eq]
      rcases hch c hc with rfl | rfl | hd
      · left; right; rfl
      · right; rfl
      · left; left; exact (fAscii_iff c (hasc c hc)).mpr ((decDigit_iff c).mp hd)

end Knut.ElabAgree
