import Knut.GoSem.Basic
/-!
# `float64` under the modelling assumption "exact arithmetic", nilable pointers and maps, `fmt.Printf` as a log

Prelude of the translated packages `lib/journal/performance` and `lib/reports/weights` (`harness/trans_units_perf.go`).

**MODELLING ASSUMPTION "exact arithmetic".**  A Go `float64` is read as an exact rational (`Rat`): `+`, `-`, `*` and unary minus are the
operations of `Rat`, comparisons are comparisons of rationals, `float64(n)` of an int and `decimal.Float64()` /
`decimal.InexactFloat64()` are the value itself (the second result of `Float64`, "exact", is `true`), `math.Max/Min` are the rational
maximum/minimum.  This is NOT what an IEEE-754 machine computes: rounding, the non-associativity of `+` that follows from it, `-0`,
overflow to `±Inf` are outside the reading (the hand-written models `Model/Performance.lean`, `Model/Weights.lean` make the same
assumption; the differential runs of C20 compare with a tolerance).

A division whose IEEE result is not a finite number — `x / 0`, which Go evaluates to `±Inf` or `NaN` WITHOUT panicking — is the distinct,
panic-like outcome `Outcome.panic F64.undefined`.  The translated code stops there, whereas the Go code goes on computing with
`±Inf`/`NaN`: about the Go code's behaviour after such a division the translation says nothing (the hand model says `none`).
Division by a non-zero constant is pure.  What depends on IEEE rounding is not given a meaning: `fmt.Printf("%0.1f", x)` is recorded
with its exact operand (`Stdout.PrintfCall`), not formatted.
-/
namespace Knut.GoSem

namespace F64

/-- the message of the panic-like outcome "not a finite number" (Go itself does not panic here) -/
def undefined : String := "float64: division by zero (±Inf or NaN: outside the exact-arithmetic reading; Go does not panic here)"

/-- `a / b` on float64 for a divisor that is not a non-zero constant -/
def divE (a b : Rat) : Outcome Rat := if b = 0 then .panic undefined else .ok (a / b)

/-- `math.Max(a, b)` on finite values -/
def max (a b : Rat) : Rat := if a < b then b else a
/-- `math.Min(a, b)` on finite values -/
def min (a b : Rat) : Rat := if b < a then b else a

/-- `d.InexactFloat64()`: exact under the assumption -/
def ofDecimal (d : Rat) : Rat := d
/-- `d.Float64()`: the value and "exact" -/
def ofDecimal2 (d : Rat) : Rat × Bool := (d, true)

@[simp] theorem divE_ne {a b : Rat} (h : b ≠ 0) : divE a b = .ok (a / b) := by simp [divE, h]
@[simp] theorem divE_zero (a : Rat) : divE a 0 = .panic undefined := by simp [divE]
@[simp] theorem ofDecimal2_fst (d : Rat) : (ofDecimal2 d).1 = d := rfl
@[simp] theorem ofDecimal_eq (d : Rat) : ofDecimal d = d := rfl

end F64

/-- the message of Go's nil-pointer panic -/
def nilDeref : String := "invalid memory address or nil pointer dereference"

/-- `p.f` for a pointer `p : *T` whose nil-ness is tracked (`Option T`, none = nil) -/
def derefE {α : Type} (p : Option α) : Outcome α :=
  match p with
  | some v => .ok v
  | none => .panic nilDeref

@[simp] theorem derefE_some {α : Type} (v : α) : derefE (some v) = .ok v := rfl
@[simp] theorem derefE_none {α : Type} : derefE (none : Option α) = .panic nilDeref := rfl

/-- `m[k] = v` for a map field whose nil-ness is tracked: storing into a nil map panics -/
def nilMapE {α : Type} (m : Option α) : Outcome α :=
  match m with
  | some v => .ok v
  | none => .panic "assignment to entry in nil map"

@[simp] theorem nilMapE_some {α : Type} (v : α) : nilMapE (some v) = .ok v := rfl
@[simp] theorem nilMapE_none {α : Type} : nilMapE (none : Option α) = .panic "assignment to entry in nil map" := rfl

/-- a slice that was declared `var x []T` and only ever extended by `x = append(x, …)`, where its nil-ness is observed: nil ⇔ empty -/
def nilIfEmpty {α : Type} (xs : List α) : Option (List α) := if xs.isEmpty then none else some xs

@[simp] theorem nilIfEmpty_nil {α : Type} : nilIfEmpty ([] : List α) = none := rfl
@[simp] theorem nilIfEmpty_cons {α : Type} (x : α) (xs : List α) : nilIfEmpty (x :: xs) = some (x :: xs) := rfl

namespace Stdout

/-- an operand of a recorded `fmt.Printf` -/
inductive PrintArg where
  | time (d : Int)
  | float (x : Rat)
  | int (n : Int)
  | str (s : String)
  deriving DecidableEq, Repr

/-- one call `fmt.Printf(format, args…)`: the constant format and the exact operands; the formatting is not interpreted -/
structure PrintfCall where
  format : String
  args : List PrintArg
  deriving DecidableEq, Repr

end Stdout

end Knut.GoSem
