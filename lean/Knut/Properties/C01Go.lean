import Knut.Properties.C01
import Knut.FactsAgree.TransReportTotals
/-!
# C01 (the Delta clause) on the generated definitions

`Properties/C01.lean` proves that every value behind the `Delta` row of the balance report is zero (`C01_delta_cells_zero`) about the
model's entry list.  In Go the row is computed by `Renderer.Render` as

  `totalAL, totalEIE := r.Totals(KeyMapper{Date: Identity, Commodity: IdentityIf(valuation == nil)}.Build()); totalAL.Plus(totalEIE)`

`Report.Insert`, `Report.Totals` and `Amounts.Plus` are translated, and `FactsAgree/TransReport*.lean`, `TransAmountsSum.lean` prove them
equal to the model (`Totals_agrees`, `logSum_cellAt`, `Plus_agrees`) for EVERY iteration order of the maps involved.  This module
composes them: `C01_delta_cells_go` — on the report that ANY log of `Insert` calls leaves, for every admissible family of iteration orders,
the map handed to `render` for the `Delta` row holds, at every column date and commodity, the model's `cellAt` of the entries of the log
— and `C01_delta_zero_go_partial`: that value is ZERO when the entries of the log are those of a balanced run of the model.

**Partial** in that last hypothesis `hlog : esOf log = st.entries`: the log of `Insert` calls that the translated `Query.Into` makes
(per posting proved equal to the model's `queryPosting`: `TransQuery.Query_Posting_model`) over a journal processed by the translated stages
is not composed over the whole journal here.  Hypotheses on the log that stay: commodities interned with non-empty names (`hcom`).
-/
namespace Knut.C01Go
open Knut Knut.GoSem Knut.Balance
open Knut.Generated.Go
open Knut.FactsAgree.TransAmountsSum Knut.FactsAgree.TransReport
open Knut.FactsAgree.TransQuery (entryOf)

/-- the report after a log of `Insert` calls on a new report -/
def reportOf (part : date.Partition) (log : Log) : balance.Report :=
  log.foldl (fun r e => balance.Report.Insert r e.1 e.2) (balance.NewReport part)

theorem cellAt_cons (x : Knut.Entry) (es : List Knut.Entry) (byC : Bool) (c : Option Knut.Commodity) (d : Int) :
    BalanceReport.cellAt (x :: es) byC c d =
      (if (x.date = some d && (if byC then some x.commodity else none) = c) = true then x.amount else 0)
        + BalanceReport.cellAt es byC c d := by
  unfold BalanceReport.cellAt BalanceReport.sumAmounts
  by_cases h : (decide (x.date = some d) && decide ((if byC then some x.commodity else none) = c)) = true
  · simp only [List.filter_cons, h, ↓reduceIte, List.map_cons, List.sum_cons]
  · simp only [List.filter_cons, h]; exact (Rat.zero_add _).symm

/-- the cells of the two sections add up to the cell of all kept inserts -/
theorem cellAt_sec_split (log : Log) (byC : Bool) (c : Option Knut.Commodity) (d : Int) :
    BalanceReport.cellAt (esOf (sec true log)) byC c d + BalanceReport.cellAt (esOf (sec false log)) byC c d
      = BalanceReport.cellAt (esOf log) byC c d := by
  induction log with
  | nil => simp [sec, esOf, BalanceReport.cellAt, BalanceReport.sumAmounts, Rat.add_zero]
  | cons e rest ih =>
    by_cases hz : e.1.Account = GoZero.zero
    · have h1 : sec true (e :: rest) = sec true rest := by simp [sec, hz]
      have h2 : sec false (e :: rest) = sec false rest := by simp [sec, hz]
      have h3 : esOf (e :: rest) = esOf rest := by simp [esOf, entryOf, hz]
      rw [h1, h2, h3, ih]
    · obtain ⟨x, hx⟩ : ∃ x, entryOf e = some x := by simp [entryOf, hz]
      have h3 : esOf (e :: rest) = x :: esOf rest := by simp [esOf, hx]
      by_cases hal : account.Account.IsAL e.1.Account = true
      · have h1 : sec true (e :: rest) = e :: sec true rest := by simp [sec, hz, hal]
        have h2 : sec false (e :: rest) = sec false rest := by simp [sec, hz, hal]
        have h4 : esOf (e :: sec true rest) = x :: esOf (sec true rest) := by simp [esOf, hx]
        rw [h1, h2, h3, h4, cellAt_cons, cellAt_cons, ← ih]
        grind
      · have hal' : account.Account.IsAL e.1.Account = false := by simpa using hal
        have h1 : sec true (e :: rest) = sec true rest := by simp [sec, hz, hal']
        have h2 : sec false (e :: rest) = e :: sec false rest := by simp [sec, hz, hal']
        have h4 : esOf (e :: sec false rest) = x :: esOf (sec false rest) := by simp [esOf, hx]
        rw [h1, h2, h3, h4, cellAt_cons, cellAt_cons, ← ih]
        grind

theorem mem_sec {al : Bool} {log : Log} {e : amounts.Key × Rat} (h : e ∈ sec al log) : e ∈ log ∧ e.1.Account ≠ GoZero.zero := by
  unfold sec at h
  obtain ⟨h1, h2⟩ := List.mem_filter.mp h
  simp only [Bool.and_eq_true, Bool.not_eq_true', decide_eq_false_iff_not] at h2
  exact ⟨h1, h2.1⟩

/-- **the amounts behind the Delta row**: on the report any log of `Insert` calls leaves, `Totals` with the renderer's mapper never
panics, leaves the report unchanged, and `totalAL.Plus(totalEIE)` holds at every column date and commodity the model's cell of the
entries of the log — for EVERY admissible family of iteration orders (of `Totals`: `Orders`; of `Plus`: a permutation of the keys) -/
theorem C01_delta_cells_go (cur : String → Bool) (part : date.Partition) (log : Log) (byCommodity : Bool)
    (hcom : ∀ e ∈ log, e.1.Commodity = Knut.FactsAgree.TransPosting.commodityGo cur e.1.Commodity.name ∧ e.1.Commodity.name ≠ "")
    (o1 o2 o4 o5 : List String → List amounts.Key) (ord3 ord6 : List String → List String)
    (h1 : Orders (sec true log) [] (mfR byCommodity) [] (reportOf part log).AL o1 o2 ord3)
    (h2 : Orders (sec false log) [] (mfR byCommodity) [] (reportOf part log).EIE o4 o5 ord6) :
    ∃ al eie, balance.Report.Totals (reportOf part log) (pureFn (mfR byCommodity)) o1 o2 ord3 o4 o5 ord6 =
        GoSem.Outcome.ok (reportOf part log, al, eie) ∧
      ∀ op : List amounts.Key, op.Perm (AMap.keys eie) →
        ∀ (c : Option Knut.Commodity), (∀ s, c = some s → s ≠ "") → ∀ d : Int, d ≠ 0 →
          AMap.get (amounts.Amounts.Plus al eie op) (amounts.DateCommodityKey d (comGo cur c)) 0 =
            BalanceReport.cellAt (esOf log) byCommodity c d := by
  obtain ⟨al, eie, hT, wa, _, va, we, _, ve⟩ := Totals_agrees part log (mfR byCommodity) o1 o2 o4 o5 ord3 ord6 h1 h2
  refine ⟨al, eie, hT, ?_⟩
  intro op hop c hc d hd
  obtain ⟨_, hplus, _⟩ := Plus_agrees wa we hop
  rw [hplus, va, ve]
  rw [logSum_cellAt cur (sec true log) (fun e he => (mem_sec he).2) (fun e he => hcom e (mem_sec he).1) byCommodity c hc d hd,
    logSum_cellAt cur (sec false log) (fun e he => (mem_sec he).2) (fun e he => hcom e (mem_sec he).1) byCommodity c hc d hd]
  exact cellAt_sec_split log byCommodity c d

/-- **every value behind the Delta row is zero** on the translated code, when the entries of the log of inserts are those of a run
of the model's balance pipeline on a journal of paired transactions, unfiltered -/
theorem C01_delta_zero_go_partial (cur : String → Bool) (part : date.Partition) (log : Log) (byCommodity : Bool)
    (hcom : ∀ e ∈ log, e.1.Commodity = Knut.FactsAgree.TransPosting.commodityGo cur e.1.Commodity.name ∧ e.1.Commodity.name ≠ "")
    (o1 o2 o4 o5 : List String → List amounts.Key) (ord3 ord6 : List String → List String)
    (h1 : Orders (sec true log) [] (mfR byCommodity) [] (reportOf part log).AL o1 o2 ord3)
    (h2 : Orders (sec false log) [] (mfR byCommodity) [] (reportOf part log).EIE o4 o5 ord6)
    (cfg : BalCfg) (hu : Unfiltered cfg) (days : List Day) (hp : C01.PairedDays days) (st : BalState)
    (hrun : Balance.run cfg days = .ok st) (hlog : esOf log = st.entries) :
    ∃ al eie, balance.Report.Totals (reportOf part log) (pureFn (mfR byCommodity)) o1 o2 ord3 o4 o5 ord6 =
        GoSem.Outcome.ok (reportOf part log, al, eie) ∧
      ∀ op : List amounts.Key, op.Perm (AMap.keys eie) →
        ∀ (c : Option Knut.Commodity), (∀ s, c = some s → s ≠ "") → ∀ d : Int, d ≠ 0 →
          AMap.get (amounts.Amounts.Plus al eie op) (amounts.DateCommodityKey d (comGo cur c)) 0 = 0 := by
  obtain ⟨al, eie, hT, hcells⟩ := C01_delta_cells_go cur part log byCommodity hcom o1 o2 o4 o5 ord3 ord6 h1 h2
  refine ⟨al, eie, hT, ?_⟩
  intro op hop c hc d hd
  rw [hcells op hop c hc d hd, hlog]
  exact C01.C01_delta_cells_zero cfg hu days hp st hrun byCommodity c d

/-! ### Non-vacuity: the empty log (a journal without bookings): every order family is admissible, both totals are empty, every Delta
cell is 0 -/
example : ∃ al eie, balance.Report.Totals (reportOf ⟨⟨1, 2⟩, 1, []⟩ []) (pureFn (mfR true)) (fun _ => []) (fun _ => []) (fun _ => [])
    (fun _ => []) (fun _ => []) (fun _ => []) = GoSem.Outcome.ok (reportOf ⟨⟨1, 2⟩, 1, []⟩ [], al, eie) ∧
    AMap.get (amounts.Amounts.Plus al eie []) (amounts.DateCommodityKey 5 (comGo (fun _ => true) (some "CHF"))) 0 = 0 := by
  have hO : ∀ n : Node, n = MNode.new "" → Orders [] [] (mfR true) [] n (fun _ => []) (fun _ => []) (fun _ => []) := by
    intro n hn
    subst hn
    refine ⟨?_, ?_, ?_⟩
    · intro q m hm
      cases q with
      | nil => simp only [MNode.nodeAt?_nil, Option.some.injEq] at hm; subst hm; simp [MNode.new, AMap.keys]; try rfl
      | cons s rest => simp [MNode.nodeAt?_cons, MNode.new, AMap.find?] at hm
    · intro q m hm
      cases q with
      | nil => simp only [MNode.nodeAt?_nil, Option.some.injEq] at hm; subst hm; simp [MNode.new, AMap.keys]
      | cons s rest => simp [MNode.nodeAt?_cons, MNode.new, AMap.find?] at hm
    · intro q x hx
      exfalso
      unfold possible at hx
      simp [AMap.keys] at hx
  obtain ⟨al, eie, hT, hcells⟩ := C01_delta_cells_go (fun _ => true) ⟨⟨1, 2⟩, 1, []⟩ [] true (by intro e he; cases he)
    (fun _ => []) (fun _ => []) (fun _ => []) (fun _ => []) (fun _ => []) (fun _ => [])
    (hO _ rfl) (hO _ rfl)
  refine ⟨al, eie, hT, ?_⟩
  have hk : ([] : List amounts.Key).Perm (AMap.keys eie) := by
    obtain ⟨al', eie', hT', _, _, _, we, ce, ve⟩ := Totals_agrees ⟨⟨1, 2⟩, 1, []⟩ [] (mfR true) (fun _ => []) (fun _ => [])
      (fun _ => []) (fun _ => []) (fun _ => []) (fun _ => []) (hO _ rfl) (hO _ rfl)
    have hT2 := hT
    unfold reportOf at hT2
    rw [hT'] at hT2
    injection hT2 with hT2
    have : eie' = eie := by simpa using congrArg (fun x => x.2.2) hT2
    subst this
    have : AMap.keys eie' = [] := by
      apply List.eq_nil_iff_forall_not_mem.mpr
      intro x hx
      have := (ce x).mp hx
      rw [ve x] at this
      simp [sec, logSum] at this
    rw [this]
  have := hcells [] hk (some "CHF") (by intro s hs; injection hs with hs; subst hs; decide) 5 (by decide)
  rw [this]
  simp [esOf, BalanceReport.cellAt, BalanceReport.sumAmounts]

end Knut.C01Go
