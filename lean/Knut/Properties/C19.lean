import Knut.Proofs.PipelineProgress
import Knut.Proofs.PipelineTrace
import Knut.Proofs.PipelineLoader
import Knut.Proofs.PipelineErrors
import Knut.Proofs.PipelineSim
/-!
# C19 — Concurrent loading and processing is race-free and terminates

Statement (properties.jsonl): under every interleaving of the goroutines that parse included files,
build the model and run the per-day processing pipeline there are no data races and no deadlocks, and
no directive is lost or duplicated: the journal that is processed is exactly the union of the directives
of all files.  When any stage fails, all stages stop and the command returns an error of a failing stage
rather than hanging or reporting success.

What is proved here, for the transition-system model of `cpr.Seq` (`Knut.Pipeline.step?`: any number of
stages, any items, any stage functions with private state, any schedule = any sequence of enabled steps)
and for the builder fan-in (`fromModelStream`, any arrival order):

* `C19_invariant`, `C19_exclusive`  — ownership: every item is owned by at most one stage at a time
* `C19_progress`, `C19_no_deadlock`, `C19_terminates` — no deadlock, every schedule ends after boundedly many steps
* `C19_confluent`                   — every schedule that ends without error delivers exactly the sequential result
* `C19_error_stops`, `C19_error_reported`, `C19_error_never_success` — after a failure nothing new is started,
  the run ends, the reported error is the error of a stage function on the item it held, never success
* `C19_accept_*`, `C19_labelled_*`  — what acceptance of a logged trace by the relaxed acceptor implies
* `C19_fan_progress`, `C19_fan_terminates`, `C19_fan_stuck_without_drain` — the loader's fan-in cannot block while its
  consumer drains, and blocks for ever if it stops early
* `C19_no_loss_no_dup`, `C19_census`, `C19_build_sorted`, `C19_build_same_days` — loader → builder

PARTIAL (`C19_race_free_partial`): "no data races" is a statement about the Go memory model.  The model's
stage functions can by construction touch only their private state and the item they own; that the real
closures do so is *checked* (race detector over the processor matrix), not proved.  What is proved is the
protocol part: exclusive ownership of every item (`C19_exclusive`).
-/
namespace Knut.C19
open Knut.Pipeline

variable {σ α ε : Type}

/-- the invariant (chain of hand-overs, sequential data, genuine errors) holds in every reachable state -/
theorem C19_invariant {S : Sys σ α ε} {s : St σ α ε} (h : Reach S s) : Inv S s := inv_reach h

/-- **exclusive ownership.** Stage `k` (if it holds anything) holds item number `(s.hist k).length` of the
stream.  Two stages never hold the same item number, and the source has not handed out anything a stage
holds twice: the numbers strictly fall along the pipeline and lie below `fed`. -/
theorem C19_exclusive {S : Sys σ α ε} {s : St σ α ε} (h : Reach S s) {j k : Nat}
    (hj : (s.slot j).isSome) (hk : (s.slot k).isSome) (hjk : j < k) :
    (s.hist k).length < (s.hist j).length ∧ (s.hist j).length < s.fed := by
  have hi := inv_reach h
  have ⟨hj1, hjn⟩ := slot_range hi hj
  have ⟨hk1, hkn⟩ := slot_range hi hk
  have h1 := emitted_len_lt hi hjk hkn hk
  have h2 := emitted_len_lt hi (j := 0) (k := j) (by omega) hjn hj
  rw [emitted_pos S s hj1, emitted_pos S s hk1] at h1
  rw [emitted_pos S s hj1, emitted_zero_len hi] at h2
  omega

/-- PARTIAL statement of "no data races": in the model a step of stage `k` changes only stage `k`'s
private state and the slot it owns (plus ghost history).  For the real closures this is the assumption
the race-detector runs check. Here: a `work` step leaves every other stage's state and item untouched. -/
theorem C19_race_free_partial {S : Sys σ α ε} {s s' : St σ α ε} {k : Nat} (h : step? S s (.work k) = some s') :
    ∀ j, j ≠ k → s'.st j = s.st j ∧ s'.slot j = s.slot j := by
  obtain ⟨a, t, a', _, _, _, _, _, rfl⟩ := step_work h
  intro j hj
  exact ⟨upd_other _ _ hj, upd_other _ _ hj⟩

/-- **no deadlock**: a reachable state that is neither the successful end nor the stopped-with-error end
has an enabled step. -/
theorem C19_progress {S : Sys σ α ε} {s : St σ α ε} (h : Reach S s) (hd : ¬ s.done S) (hs : ¬ s.stopped) :
    ∃ l s', step? S s l = some s' := progress (inv_reach h) hd hs

/-- the same, read the other way: where no step is enabled, `p.Wait()` returns (nil or the error) -/
theorem C19_no_deadlock {S : Sys σ α ε} {s : St σ α ε} (h : Reach S s) (hstuck : ∀ l, step? S s l = none) :
    s.done S ∨ s.stopped := by
  apply Classical.byContradiction
  intro hn
  have hd : ¬ s.done S := fun x => hn (Or.inl x)
  have hs : ¬ s.stopped := fun x => hn (Or.inr x)
  obtain ⟨l, s', hl⟩ := progress (inv_reach h) hd hs
  rw [hstuck l] at hl; cases hl

/-- **termination**: no schedule takes more than `2(n+1)m + 1` steps. -/
theorem C19_terminates {S : Sys σ α ε} {s : St σ α ε} {ls : List Label} (h : Run S (St.initial S) ls s) :
    ls.length ≤ 2 * (S.n + 1) * S.items.length + 1 := by
  have := run_measure h (inv_initial S)
  rw [measure_initial] at this
  omega

/-- **sequential result**: whatever the schedule, a run that ends successfully has delivered exactly what
running stage 1 over all items, then stage 2 over its output, … delivers (in particular the sequential
run succeeds, every stage saw every item once, in order, after its predecessor). -/
theorem C19_confluent {S : Sys σ α ε} {s : St σ α ε} (h : Reach S s) (hd : s.done S) : seqRun S = some s.out := by
  have hi := inv_reach h
  rw [hi.out_eq]
  exact done_seq hi hd S.n (Nat.le_refl _)

/-- **error stops the pipeline**: after the cancellation no item is handed over any more (no `feed`, `pass`,
`sink`): only stage functions that are already running finish, and the context stays cancelled. -/
theorem C19_error_stops {S : Sys σ α ε} {s s' : St σ α ε} {l : Label} (hc : s.cancelled = true)
    (h : step? S s l = some s') : (∃ k, l = .work k ∨ l = .fail k) ∧ s'.cancelled = true :=
  cancelled_steps h hc

/-- … a failure is followed by the cancellation as long as it has not happened (it is always enabled) -/
theorem C19_error_cancels {S : Sys σ α ε} {s : St σ α ε} {k : Nat} {e : ε} (he : s.err k = some e) (hc : s.cancelled = false) :
    ∃ s', step? S s (.cancel k) = some s' := by
  simp [step?, hc, he]

/-- **the error returned is an error of a failing stage**: in the stopped state the reported error `e` of
stage `k` is what `f k` returned on the item the stage received, in the state reached by processing its
earlier items in order. -/
theorem C19_error_reported {S : Sys σ α ε} {s : St σ α ε} (h : Reach S s) (hs : s.stopped) :
    ∃ k e a, s.reported = some (k, e) ∧ 1 ≤ k ∧ k ≤ S.n ∧ s.slot k = some (a, false) ∧ S.f k (s.st k) a = .error e := by
  have hi := inv_reach h
  obtain ⟨k, e, hr⟩ := hi.canc hs.1
  obtain ⟨h1, h2, a, hsl, hf⟩ := hi.err_ok k e (hi.rep k e hr)
  exact ⟨k, e, a, hr, h1, h2, hsl, hf⟩

/-- **which errors can be reported**: a recorded (hence also the reported) error of stage `k` is stage `k`'s
first failure on the stream that reaches it when every stage runs sequentially until its first failure — the
list `seqErrors S` the correspondence check compares the real `cpr.Seq`'s error against. -/
theorem C19_error_sequential {S : Sys σ α ε} {s : St σ α ε} (h : Reach S s) {k : Nat} {e : ε}
    (he : s.err k = some e ∨ s.reported = some (k, e)) : (k, e) ∈ seqErrors S := by
  have hi := inv_reach h
  rcases he with he | hr
  · exact err_mem_seqErrors hi he
  · exact err_mem_seqErrors hi (hi.rep k e hr)

/-- **never success after a failure**: once a stage has failed no schedule reaches the successful end. -/
theorem C19_error_never_success {S : Sys σ α ε} {s s' : St σ α ε} {ls : List Label} {k : Nat} {e : ε}
    (he : s.err k = some e) (h : Run S s ls s') : ¬ s'.done S := by
  intro hd
  have := run_err_persist h he
  rw [hd.2.1 k] at this; cases this

/-! ### logged traces (relaxed acceptor) -/

/-- **the acceptor accepts every behaviour of the model**: the events of any run of the transition system
(`feed`/`pass` logged as `begin`, `work` as `end`, `fail`, `sink`) are accepted, and the acceptor's counters
are those of the state reached.  So a logged trace of the real code that the acceptor rejects is not a
behaviour of the model. -/
theorem C19_run_accepted {S : Sys σ α ε} {s : St σ α ε} {ls : List Label} (h : Run S (St.initial S) ls s) :
    accept S.n S.items.length (traceOf ls) = some (accOf S s) := by
  have := sim_run h (inv_initial S)
  rwa [accOf_initial] at this

/-- **stage order and one-at-a-time**, for every prefix `p` of an accepted trace: stage `k` has ended at
most as many items as it has begun and begun at most one more; it has begun at most as many as stage
`k-1` has ended (stage 1: at most `m`); the sink has received at most what the last stage ended. -/
theorem C19_accept_order {n m : Nat} {p q : List Ev} {a : Acc} (h : accept n m (p ++ q) = some a) (k : Nat) :
    p.count (.done k) ≤ p.count (.begin k) ∧ p.count (.begin k) ≤ p.count (.done k) + 1 ∧
    (2 ≤ k → k ≤ n → p.count (.begin k) ≤ p.count (.done (k - 1))) ∧
    p.count (.begin 1) ≤ m ∧ (0 < n → p.count .sink ≤ p.count (.done n)) := by
  obtain ⟨a1, h1, _⟩ := accRun_append h
  have hi := accInv_run (accInv_initial n m) h1
  obtain ⟨hb, he, hk, _⟩ := accRun_counts h1
  simp only [Acc.initial, Nat.zero_add] at hb he hk
  have h3 := hi.one k
  have h4 := hi.src
  rw [hb, he] at h3
  rw [hb] at h4
  refine ⟨h3.1, h3.2, ?_, h4, ?_⟩
  · intro h2 hkn
    have := hi.dep k h2 hkn
    rwa [hb, he] at this
  · intro hn
    have := hi.sinkn hn
    rwa [hk, he] at this

/-- a stage that failed logs nothing afterwards (it is dead in the acceptor): its failing item stays begun. -/
theorem C19_accept_failed {n m : Nat} {tr : List Ev} {a : Acc} (h : accept n m tr = some a) (k : Nat)
    (hf : tr.contains (.fail k) = true) : tr.count (.begin k) = tr.count (.done k) + 1 := by
  have hi := accInv_run (accInv_initial n m) h
  obtain ⟨hb, he, _, hd⟩ := accRun_counts h
  simp only [Acc.initial, Nat.zero_add] at hb he
  have := hi.dead k (by rw [hd k, hf]; simp)
  rwa [hb, he] at this

/-- **complete run**: if the trace is accepted and the sink logged all `m` items, every stage began and
ended exactly `m` items and none failed. -/
theorem C19_accept_complete {n m : Nat} {tr : List Ev} {a : Acc} (h : accept n m tr = some a) (hn : 0 < n)
    (hs : tr.count .sink = m) (k : Nat) (h1 : 1 ≤ k) (hk : k ≤ n) :
    tr.count (.begin k) = m ∧ tr.count (.done k) = m ∧ tr.contains (.fail k) = false := by
  have hi := accInv_run (accInv_initial n m) h
  obtain ⟨hb, he, hsk, hd⟩ := accRun_counts h
  simp only [Acc.initial, Nat.zero_add] at hb he hsk
  have hall := acc_sunk_all hi (by rw [hsk]; exact hs) hn k h1 hk
  rw [hb, he] at hall
  refine ⟨hall.1, hall.2, ?_⟩
  cases hc : tr.contains (.fail k) with
  | false => rfl
  | true =>
    have := C19_accept_failed h k hc
    omega

/-- **per-stage FIFO, no loss, no duplicate** (item-labelled trace of the in-process harness): the items a
stage begins are `0, 1, 2, …` in this order. -/
theorem C19_labelled_fifo {n m : Nat} {tr : List LEv} {a : Acc} (h : laccept n m tr = some a) (k : Nat) :
    begunItems k tr = List.range (a.begun k) := by
  have := lacc_begun_items k h
  simpa [Acc.initial, List.range_eq_range'] using this

/-- **stage-order dependency**: item `i` is begun by stage `k ≥ 2` only after stage `k-1` ended item `i`;
it is ended by stage `k` only after stage `k` began it; it reaches the sink only after the last stage ended it. -/
theorem C19_labelled_dependency {n m : Nat} {p q : List LEv} {a : Acc} :
    (∀ k i, laccept n m (p ++ .begin k i :: q) = some a → 2 ≤ k → LEv.done (k - 1) i ∈ p) ∧
    (∀ k i, laccept n m (p ++ .done k i :: q) = some a → LEv.begin k i ∈ p) ∧
    (∀ i, laccept n m (p ++ .sink i :: q) = some a → 0 < n → LEv.done n i ∈ p) := by
  refine ⟨?_, ?_, ?_⟩
  · intro k i h h2
    obtain ⟨a1, hp, hq⟩ := laccRun_append h
    obtain ⟨hl, a2, hs, _⟩ := laccRun_cons hq
    obtain ⟨_, _, _, _, _, hdep, _⟩ := accStep_begin (show accStep n m a1 (.begin k) = some a2 from hs)
    simp only [labelsOK, beq_iff_eq] at hl
    exact lacc_done_mem hp (k - 1) i (by simp [Acc.initial]) (by have := hdep (by omega); omega)
  · intro k i h
    obtain ⟨a1, hp, hq⟩ := laccRun_append h
    obtain ⟨hl, a2, hs, _⟩ := laccRun_cons hq
    obtain ⟨_, _, _, hbe, _⟩ := accStep_done (show accStep n m a1 (.done k) = some a2 from hs)
    simp only [labelsOK, beq_iff_eq] at hl
    exact lacc_begin_mem hp k i (by simp [Acc.initial]) (by omega)
  · intro i h hn
    obtain ⟨a1, hp, hq⟩ := laccRun_append h
    obtain ⟨hl, a2, hs, _⟩ := laccRun_cons hq
    obtain ⟨_, hlim, _⟩ := accStep_sink (show accStep n m a1 .sink = some a2 from hs)
    simp only [labelsOK, beq_iff_eq] at hl
    exact lacc_done_mem hp n i (by simp [Acc.initial]) (by have := hlim (by omega); omega)

/-! ### loader → builder -/

/-- **no directive lost or duplicated**: whatever the order in which the files' directive lists arrive,
the builder's slice for a (date, kind) holds exactly the directives of that date and kind of all lists
(each as often as it occurs), and two arrival orders give permutations of each other. -/
theorem C19_no_loss_no_dup (arrival arrival' : List (List Dir)) (hp : arrival.Perm arrival') (d : Int) (k : Kind) :
    (fromModelStream arrival).get d k = sel d k arrival.flatten ∧
    ((fromModelStream arrival).get d k).Perm ((fromModelStream arrival').get d k) := by
  refine ⟨stream_get arrival d k, ?_⟩
  rw [stream_get, stream_get]
  exact (List.Perm.flatten hp).filter _

/-- **the monitor's predicate holds on the model** (`censusOK` is what the harness evaluates on the real
`knut print` output): for every arrival order the built journal shows exactly the arriving directives —
the same multiset — with the days in date order; and the predicate's first half *is* multiset equality. -/
theorem C19_census (arrival : List (List Dir)) :
    censusOK arrival.flatten (printed (fromModelStream arrival).build) = true ∧
    ∀ e o : List Dir, sameDirs e o = true ↔ e.Perm o :=
  ⟨census_model arrival, sameDirs_iff_perm⟩

/-- `Build()` hands the days to the pipeline sorted by date … -/
theorem C19_build_sorted (b : Builder) : b.build.Pairwise (fun x y => x.date ≤ y.date) := build_sorted b

/-- … and they are the builder's days, nothing else -/
theorem C19_build_same_days (b : Builder) : b.build.Perm b := build_perm b

/-! ### loader fan-in (producers → one draining consumer) -/

/-- **the loader cannot block while its consumer drains**: with files still pending, a hand-over is enabled. -/
theorem C19_fan_progress (pf : Bool) (s : Fan) (hd : s.draining = true) (hp : ¬ s.finished) :
    ∃ s', fanStep pf s .push = some s' := by
  have : 0 < s.pending := Nat.pos_of_ne_zero hp
  simp [fanStep, this, hd]

/-- … it ends after at most `pending + 1` steps, every file is handed over at most once, and if no producer's
context was cancelled every pending file has been delivered exactly once when the run is finished. -/
theorem C19_fan_terminates {pf : Bool} {s s' : Fan} {ls : List FanLabel} (h : FanRun pf s ls s') :
    ls.length ≤ s.pending + 1 ∧ s'.delivered ≤ s.delivered + s.pending ∧
    (s'.finished → s'.cancelled = false → s'.delivered = s.delivered + s.pending) := by
  obtain ⟨h1, h2, _, h4, h5⟩ := fan_run_counts h
  have hc := fan_cancel_once h
  have hlen := fan_length ls
  refine ⟨by omega, by omega, ?_⟩
  intro hf hnc
  have := h5 hnc
  unfold Fan.finished at hf
  omega

/-- **why `FromStream` must drain**: a consumer that stopped receiving while files are pending and nothing cancels
the producers' context leaves no step enabled — the producers block for ever and `p.Wait()` never returns. -/
theorem C19_fan_stuck_without_drain (s : Fan) (hd : s.draining = false) (hc : s.cancelled = false) (l : FanLabel) :
    fanStep false s l = none := by
  cases l <;> simp [fanStep, hd, hc]

/-! ### non-vacuity -/

/-- a two-stage system over three numbers: stage 1 adds its running count, stage 2 doubles -/
def demo : Sys Nat Nat String :=
  { n := 2, items := [10, 20, 30], init := fun _ => 0,
    f := fun k c a => if k = 1 then .ok (c + 1, a + c) else .ok (c, 2 * a) }

example : seqRun demo = some [20, 42, 64] := by decide
example : ∃ s', step? demo (St.initial demo) .feed = some s' := ⟨_, rfl⟩
example : (accept 2 1 [.begin 1, .done 1, .begin 2, .done 2, .sink]).isSome = true := by decide
example : accept 2 1 [.begin 1, .begin 2] = none := by decide
example : (laccept 1 2 [.begin 1 0, .done 1 0, .begin 1 1, .sink 0, .done 1 1, .sink 1]).isSome = true := by decide
example : laccept 1 2 [.begin 1 1] = none := by decide
example : (fromModelStream [[⟨3, .open_, 1⟩], [⟨3, .open_, 2⟩, ⟨4, .price, 3⟩]]).get 3 .open_ = [⟨3, .open_, 1⟩, ⟨3, .open_, 2⟩] := by decide
example : censusOK [⟨3, .open_, 1⟩, ⟨4, .price, 3⟩] [⟨4, .price, 3⟩, ⟨3, .open_, 1⟩] = false := by decide
example : censusOK [⟨3, .open_, 1⟩, ⟨4, .price, 3⟩] [⟨3, .open_, 1⟩] = false := by decide
example : censusOK [⟨3, .open_, 1⟩, ⟨4, .price, 3⟩] [⟨3, .open_, 1⟩, ⟨4, .price, 3⟩] = true := by decide
example : fanStep false ⟨3, 0, true, false⟩ .push = some ⟨2, 1, true, false⟩ := by decide
example : fanStep true ⟨3, 0, false, false⟩ .cancel = some ⟨3, 0, false, true⟩ := by decide

end Knut.C19
