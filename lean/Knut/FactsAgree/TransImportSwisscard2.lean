import Knut.Generated.TransImportSwisscard2
import Knut.FactsAgree.TransJournal
import Knut.Model.Import.Cards
/-!
# The translated per-record function of `ch.swisscard2` agrees with `Model/Import/Cards.lean`

`cmd/importer/swisscard2/swisscard2.go`: `(*parser).readBooking`, regenerated into `Knut/Generated/TransImportSwisscard2.lean` on every
run (`harness/trans_units_import.go`).  What stays outside the translation: the `csv.Reader` (the result of `p.reader.Read()` is the
parameter `ext1 : List String × Option Error` — the record as `encoding/csv` decoded it, or its error), the loop of `parse`, flags and
cobra wiring; the registry calls `p.registry.Commodities().MustGet(r[währung])` and `p.registry.Accounts().TBDAccount()` are the
parameters `ext2`, `ext3` (their RESULTS; a panic inside `MustGet` happens inside the untranslated call).

| Go | theorem | model |
|---|---|---|
| prelude `Time.ParseDMYdot` (`time.Parse("02.01.2006", ·)`, `GoSem/ParseLayout.lean`) | `getnum_model`, `skipDot_model`, `parseDMYdot_model` | `Import.parseDate Import.layoutDMYdot` (the copy is the original; stream `lib-date` of C13) |
| prelude `Decimal.NewFromString` | `newFromString_model` | `Import.newFromString` |
| `transaction.Builder{…, Postings: posting.Builder{…}.Build()}.Build()` | `built_tx` | `Import.mkTx` (= `txGo` of the model transaction) |
| `parser.readBooking` | **`readBooking_agrees`**, `readBooking_reader_error` | `Import.Swisscard2.row` |

`readBooking_agrees`: on a record of twelve fields (what the reader with `FieldsPerRecord = 12` returns without error), with `ext3` the
TBD account and `ext2` the commodity of field 4 whenever that name is valid: where the model's `row` answers `ok ds` the translated
function returns a nil error, the parser's account untouched and a builder that stands for the model's builder with `ds` added
(`BEquiv`, through `TransJournal.Add_agrees`: the transaction added is `txGo` of the model's, `TRel`); where it answers `error`
(date or amount does not parse) the translated function returns an error and the parser unchanged; the model's `panic` occurs only
where `MustGet` is given an invalid commodity name (inside the untranslated call: nothing is claimed about the translated code then).
No index panic: all indices are below twelve.  `readBooking_reader_error`: an error of the reader (which includes a record of another
length: the model's `r.length ≠ 12`) is returned as it is.
-/
namespace Knut.FactsAgree.TransImportSwisscard2
open Knut Knut.GoSem
open Knut.Generated.Go
open Knut.FactsAgree.TransAccount Knut.FactsAgree.TransPosting Knut.FactsAgree.TransTransaction
open Knut.FactsAgree.TransProcess (AllRel TRel TRel_txGo)
open Knut.FactsAgree.TransJournal

theorem isDig_model : Parse.isDig = Import.isDig := rfl
theorem charVal_model : ParseLayout.charVal = Import.charVal := rfl
theorem getnum_model : ParseLayout.getnum = Import.getnum := by
  funext f v
  unfold ParseLayout.getnum Import.getnum
  rw [isDig_model, charVal_model]
  rfl
theorem daysIn_model : ParseLayout.daysIn = Import.daysIn := rfl

theorem skipDot_model (v : List Char) : Import.skipLit v ['.'] = ParseLayout.skipDot v := by
  cases v with
  | nil => rfl
  | cons c v =>
    by_cases h : (c == '.') = true
    · simp [Import.skipLit, Import.skipLitF, ParseLayout.skipDot, h]
    · simp [Import.skipLit, Import.skipLitF, ParseLayout.skipDot, h]

theorem year4_model (els : List Import.LEl) (acc : Import.YMD) (v : List Char) :
    Import.parseEls (.year4 :: els) acc v = (ParseLayout.year4 v).bind (fun (y, v') => Import.parseEls els { acc with y := (y : Nat) } v') := by
  unfold ParseLayout.year4
  split
  · rename_i a b c d v'
    simp only [Import.parseEls, isDig_model, charVal_model]
    by_cases h : (Import.isDig a && Import.isDig b && Import.isDig c && Import.isDig d) = true
    · simp only [h, if_true, Option.bind_some]
    · simp only [h, if_false, Option.bind_none, Bool.false_eq_true]
  · rename_i h
    unfold Import.parseEls
    split
    · rename_i a b c d v' ; exact absurd rfl (h a b c d v')
    · rfl

/-- the prelude's `time.Parse("02.01.2006", ·)` is the importer models' layout interpreter on `layoutDMYdot` -/
theorem parseDMYdot_model (s : String) : ParseLayout.parseDMYdot s = Import.parseDate Import.layoutDMYdot s := by
  unfold ParseLayout.parseDMYdot Import.parseDate Import.layoutDMYdot
  simp only [Import.parseEls, skipDot_model, getnum_model]
  cases Import.getnum true s.toList with
  | none => rfl
  | some x =>
    obtain ⟨d, v1⟩ := x
    simp only [Option.bind_some]
    cases ParseLayout.skipDot v1 with
    | none => rfl
    | some v2 =>
      simp only [Option.bind_some]
      cases Import.getnum true v2 with
      | none => rfl
      | some x =>
        obtain ⟨m, v3⟩ := x
        simp only [Option.bind_some]
        split
        · rfl
        · cases ParseLayout.skipDot v3 with
          | none => rfl
          | some v4 =>
            simp only [Option.bind_some]
            rcases v4 with _ | ⟨a, _ | ⟨b, _ | ⟨c, _ | ⟨e, v'⟩⟩⟩⟩ <;> simp only [ParseLayout.year4, Option.bind_none]
            simp only [isDig_model, charVal_model]
            by_cases hd : (Import.isDig a && Import.isDig b && Import.isDig c && Import.isDig e) = true
            · simp only [hd, if_true, Option.bind_some]
              cases v' with
              | nil => rfl
              | cons _ _ => rfl
            · simp only [hd, if_false, Option.bind_none, Bool.false_eq_true]

theorem isDigP_model : Parse.isDig = Import.isDig := rfl
theorem charsVal_model : Parse.charsVal = Import.digitsVal := rfl
theorem parseSignedInt_model : Parse.parseSignedInt = Import.parseSignedInt := by
  funext cs
  unfold Parse.parseSignedInt Import.parseSignedInt
  rw [isDigP_model, charsVal_model]
  rfl
theorem scale10_model : Parse.scale10 = Import.scale10 := rfl

/-- the prelude's `decimal.NewFromString` is the importer models' `newFromString` (as in `TransCreate.newFromString_model`) -/
theorem newFromString_model (s : String) : Parse.newFromString s = Import.newFromString s := by
  unfold Parse.newFromString Import.newFromString
  rw [parseSignedInt_model, scale10_model]
  rfl

theorem len12 {r : List String} (h : r.length = 12) :
    ∃ f0 f1 f2 f3 f4 f5 f6 f7 f8 f9 f10 f11, r = [f0, f1, f2, f3, f4, f5, f6, f7, f8, f9, f10, f11] := by
  rcases r with _ | ⟨f0, _ | ⟨f1, _ | ⟨f2, _ | ⟨f3, _ | ⟨f4, _ | ⟨f5, _ | ⟨f6, _ | ⟨f7, _ | ⟨f8, _ | ⟨f9, _ | ⟨f10, _ | ⟨f11, _ | ⟨f12, r⟩⟩⟩⟩⟩⟩⟩⟩⟩⟩⟩⟩⟩ <;>
    simp at h
  exact ⟨_, _, _, _, _, _, _, _, _, _, _, _, rfl⟩

theorem joinWith6 (a b c d e f : String) :
    Import.joinWith " / " [a, b, c, d, e, f] = a ++ " / " ++ b ++ " / " ++ c ++ " / " ++ d ++ " / " ++ e ++ " / " ++ f := by
  unfold Import.joinWith
  rw [← String.toList_inj]
  simp

/-- the model's transaction of a row as the Go value `transaction.Builder{…}.Build()` builds it -/
theorem built_tx (cur : String → Bool) (acct : Knut.Account) (d : Int) (desc : String) (c : Knut.Commodity) (q : Rat) :
    ∃ t, Import.mkTx d desc [⟨acct, Import.tbd, c, q⟩] = .tx t ∧
      transaction.Builder.Build ⟨GoZero.zero, d, desc,
        posting.Builder.Build ⟨GoZero.zero, q, GoZero.zero, accountGo acct, accountGo Import.tbd, commodityGo cur c⟩,
        GoZero.zero⟩ = txGo cur GoZero.zero GoZero.zero t := by
  refine ⟨_, rfl, ?_⟩
  have hp := TransPosting.Builder_Build_agrees cur GoZero.zero acct Import.tbd c q 0
  have hz : (GoZero.zero : Rat) = 0 := rfl
  rw [hz, hp, TransTransaction.Builder_Build_agrees]
  simp [txGo, Import.buildPostings, Import.replaceQuotes, JournalPrinter.descText]

/-- **`parser.readBooking`** of `ch.swisscard2` on a record the reader returned (twelve fields: `FieldsPerRecord = 12`) -/
theorem readBooking_agrees (cur : String → Bool) (p : swisscard2.parser) (b : Knut.Builder) (acct : Knut.Account) (r : Import.Rec)
    (hb : BEquiv cur p.builder b) (hacct : p.account = accountGo acct) (hr : r.length = 12)
    (ext2 : commodity.Commodity) (ext3 : account.Account)
    (h2 : Import.validCommodity (Import.fldD r 4) = true → ext2 = commodityGo cur (Import.fldD r 4))
    (h3 : ext3 = accountGo Import.tbd) :
    match Import.Swisscard2.row acct r with
    | .ok ds => ∃ p', swisscard2.parser.readBooking p (r, none) ext2 ext3 = .ok (p', none) ∧ p'.account = p.account ∧
        BEquiv cur p'.builder (ds.foldl Knut.Builder.add b)
    | .error => ∃ e, swisscard2.parser.readBooking p (r, none) ext2 ext3 = .ok (p, some e)
    | .panic => Import.validCommodity (Import.fldD r 4) = false := by
  obtain ⟨f0, f1, f2, f3, f4, f5, f6, f7, f8, f9, f10, f11, rfl⟩ := len12 hr
  have hfld : ∀ i, Import.fldD [f0, f1, f2, f3, f4, f5, f6, f7, f8, f9, f10, f11] i =
      ([f0, f1, f2, f3, f4, f5, f6, f7, f8, f9, f10, f11][i]?).getD "" := fun _ => rfl
  simp only [hfld, List.getElem?_cons_succ, List.getElem?_cons_zero, Option.getD_some] at h2
  unfold Import.Swisscard2.row swisscard2.parser.readBooking
  simp only [hfld, List.length_cons, List.length_nil, List.getElem?_cons_succ, List.getElem?_cons_zero, Option.getD_some]
  simp only [Option.isSome_none, Bool.false_eq_true, if_false, index, swisscard2.transaktionsdatum, swisscard2.betrag,
    swisscard2.beschreibung, swisscard2.Händler, swisscard2.händlerKategorie, swisscard2.kartennummer,
    swisscard2.registrierteKategorie, swisscard2.debitKredit, Outcome.bind]
  simp only [Time.ParseDMYdot, Decimal.NewFromString, parseDMYdot_model, newFromString_model]
  simp
  cases hd : Import.parseDate Import.layoutDMYdot f0 with
  | none => exact ⟨_, rfl⟩
  | some d =>
    by_cases hc : Import.validCommodity f4 = true
    · cases hq : Import.newFromString f5 with
      | none =>
        simp only [Import.mustCommodity, hc, if_true, Import.Res.ofOption, Import.Res.bind_ok, Import.Res.bind_error]
        exact ⟨_, rfl⟩
      | some q =>
        simp only [Import.mustCommodity, hc, if_true, Import.Res.ofOption, Import.Res.bind_ok]
        obtain ⟨t, ht, hbuild⟩ := built_tx cur acct d (Import.joinWith " / " [f1, f2, f10, f3, f11, f8]) f4 q
        obtain ⟨g', hg, hbe⟩ := Add_agrees cur hb (.Transaction (txGo cur GoZero.zero GoZero.zero t)) (.tx t) (TRel_txGo cur _ _ t)
        rw [joinWith6] at hbuild
        rw [h2 hc, h3, hacct, ht]
        refine ⟨{ account := accountGo acct, builder := g' }, ?_, rfl, ?_⟩
        · have e : (GoZero.zero : Rat) = 0 := rfl
          have e2 : (GoZero.zero : Option (List commodity.Commodity)) = none := rfl
          rw [e, e2] at hbuild
          simp only [Option.isSome_none, Bool.false_eq_true, if_false]
          rw [hbuild, hg]
        · simpa using hbe
    · have hc' : Import.validCommodity f4 = false := by simpa using hc
      simp only [Import.mustCommodity, hc', Bool.false_eq_true, if_false, Import.Res.ofOption, Import.Res.bind_ok, Import.Res.bind_panic]

/-- an error of the reader (`io.EOF`, a parse error, a record with another number of fields) is returned unchanged -/
theorem readBooking_reader_error (p : swisscard2.parser) (r : List String) (e : Error) (ext2 : commodity.Commodity) (ext3 : account.Account) :
    swisscard2.parser.readBooking p (r, some e) ext2 ext3 = .ok (p, some e) := rfl

/-- non-vacuity: the hypotheses of `readBooking_agrees` hold for the fresh builder and a concrete record -/
example : ∃ ds, Import.Swisscard2.row ⟨["Assets", "Card"]⟩ ["01.02.2023", "a", "b", "c", "CHF", "12.50", "", "", "Debit", "", "k", "l"] = .ok ds ∧
    ∃ p', swisscard2.parser.readBooking ⟨accountGo ⟨["Assets", "Card"]⟩, journal.New⟩
        (["01.02.2023", "a", "b", "c", "CHF", "12.50", "", "", "Debit", "", "k", "l"], none) (commodityGo (fun _ => true) "CHF") (accountGo Import.tbd)
      = .ok (p', none) ∧ BEquiv (fun _ => true) p'.builder (ds.foldl Knut.Builder.add {}) := by
  have h := readBooking_agrees (fun _ => true) ⟨accountGo ⟨["Assets", "Card"]⟩, journal.New⟩ {} ⟨["Assets", "Card"]⟩
    ["01.02.2023", "a", "b", "c", "CHF", "12.50", "", "", "Debit", "", "k", "l"] (New_agrees _) rfl rfl
    (commodityGo (fun _ => true) "CHF") (accountGo Import.tbd) (fun _ => rfl) rfl
  have hrow : ∃ ds, Import.Swisscard2.row ⟨["Assets", "Card"]⟩ ["01.02.2023", "a", "b", "c", "CHF", "12.50", "", "", "Debit", "", "k", "l"] = .ok ds := by
    have hok : (match Import.Swisscard2.row ⟨["Assets", "Card"]⟩ ["01.02.2023", "a", "b", "c", "CHF", "12.50", "", "", "Debit", "", "k", "l"] with
      | .ok _ => true | _ => false) = true := by decide +kernel
    revert hok
    cases Import.Swisscard2.row ⟨["Assets", "Card"]⟩ ["01.02.2023", "a", "b", "c", "CHF", "12.50", "", "", "Debit", "", "k", "l"] with
    | ok ds => exact fun _ => ⟨ds, rfl⟩
    | error => simp
    | panic => simp
  obtain ⟨ds, hds⟩ := hrow
  rw [hds] at h
  obtain ⟨p', h1, _, h3⟩ := h
  exact ⟨ds, hds, p', h1, h3⟩

end Knut.FactsAgree.TransImportSwisscard2
