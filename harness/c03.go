package main

import (
	"fmt"
	"math/big"
	"os"
	"path/filepath"
	"sort"
	"strings"
	"time"
)

func init() { runners["C03"] = runC03 }

// parseTextReport reads a `knut balance --color=false` text table: column dates and, per account path
// (rebuilt from the indentation, two blanks per level) and commodity label, the row's values.
type reportRow struct {
	Path   string
	Comm   string
	Values []string
}

func parseTextReport(out string) (dates []string, rows []reportRow, hasComm bool) {
	var stack []string
	for _, l := range strings.Split(out, "\n") {
		if !strings.HasPrefix(l, "|") {
			continue
		}
		cells := strings.Split(strings.TrimSuffix(strings.TrimPrefix(l, "|"), "|"), "|")
		name := cells[0]
		trimmed := strings.TrimSpace(name)
		if trimmed == "Account" {
			rest := cells[1:]
			if len(rest) > 0 && strings.TrimSpace(rest[0]) == "Comm" {
				hasComm = true
				rest = rest[1:]
			}
			for _, d := range rest {
				dates = append(dates, strings.TrimSpace(d))
			}
			continue
		}
		vals := cells[1:]
		comm := ""
		if hasComm && len(vals) > 0 {
			comm = strings.TrimSpace(vals[0])
			vals = vals[1:]
		}
		if trimmed != "" {
			if strings.HasPrefix(trimmed, "Total (") || trimmed == "Delta" {
				stack = []string{trimmed}
			} else {
				depth := (len(name) - len(strings.TrimLeft(name, " ")) - 1) / 2
				if depth < 0 {
					depth = 0
				}
				if depth > len(stack) {
					depth = len(stack)
				}
				stack = append(stack[:depth:depth], trimmed)
			}
		} else if len(stack) == 0 {
			continue
		}
		row := reportRow{Path: strings.Join(stack, ":"), Comm: comm}
		empty := true
		for _, v := range vals {
			v = strings.ReplaceAll(strings.TrimSpace(v), ",", "")
			row.Values = append(row.Values, v)
			if v != "" {
				empty = false
			}
		}
		if trimmed == "" && empty {
			continue
		}
		rows = append(rows, row)
	}
	return
}

func ratOf(s string) (*big.Rat, bool) {
	if s == "" {
		return new(big.Rat), true
	}
	return new(big.Rat).SetString(s)
}

func runC03(c *Ctx) {
	n := c.N(3000, 40000)
	dir := c.WorkDir
	_ = dir
	cases := c03GenBalCases(c, "valued", n, func(r *RNG) JGenOpts {
		return JGenOpts{MaxAccounts: r.Range(2, 6), MaxDays: r.Range(2, 9), BaseDay: 737000 + r.Intn(1500), SpanDays: Pick(r, []int{5, 40, 100, 400}),
			Prices: true, Valuation: Pick(r, []string{"CHF", "USD"}), ManyDecimals: r.Chance(1, 3), DropPrices: r.Chance(1, 8), ChainPrices: r.Chance(1, 3), DupPrices: true}
	}, func(r *RNG, j *Journal, val string) BalFlags {
		f := GenBalFlags(r, j, val, BalGenOpts{Valued: true, NoFilters: true})
		f.Map, f.Remap, f.Show, f.Diff, f.CSV, f.Thousands = nil, nil, nil, false, false, false
		f.Digits = 10
		f.Val = val
		return f
	})
	bt := c.NewBatch()
	defer bt.Flush()
	for _, bc := range cases {
		bc := bc
		c.Evals++
		impl := bc.implOutcome()
		in := bc.Input()
		for _, t := range bc.Tags {
			c.Tag(t)
		}
		c.Class("c03/" + strings.Fields(impl)[0] + "/" + flagClass(bc.F) + "/n" + bucket(len(bc.J.Dirs)))
		if bc.Idx < 2 {
			c.Sample(map[string]any{"args": strings.Join(bc.F.Args(), " "), "journal": bc.Text, "stdout": bc.Stdout})
		}
		bt.Add(func(model string) {
			if model == "unsupported" {
				return
			}
			if !c.Compare("valued", bc.Idx, "balance", in, impl, modelOutcomeCanon(model)) {
				f := &c.Findings[len(c.Findings)-1]
				if strings.HasPrefix(model, "ok ") {
					f.Model = clip(UnHex(strings.TrimPrefix(model, "ok ")))
				}
				f.Impl = clip(bc.Stdout + "\n" + bc.Stderr)
			}
		}, "balance", bc.F.Wire(today()), bc.J.Wire())
		if bc.Code != 0 {
			c.Tag("rejected")
			continue
		}
		// ---- monitor: shown value of every A/L account row vs exact mark-to-market
		dates, ds, rows, start, ok := c03ALMonitor(c, bt, "valued", bc.Idx, in, bc.F, bc.J, bc.Stdout)
		if !ok {
			continue
		}
		if !bc.F.NoClose {
			c03ClosingMonitor(c, bt, bc, in, dates, ds, rows, start)
			continue
		}
		// ---- monitors for --close=false: (1) theorem C03_command_flow_cell_noclose_partial: the row of an expense/equity account
		// shows exactly -Spec.flowAt (every booking valued at the price of its own day); (2) theorem C03_gain_mirrors_adjustments
		// read off the report: the row of Income:<path> shows -(flow on it - sum over the A/L accounts mirrored there of
		// (shown value - flow on that account)), the value adjustments being shown value minus booked values. Both exact.
		shownAll := map[string][]string{}
		for _, r := range rows {
			shownAll[r.Path] = r.Values
		}
		nd := len(dates)
		bt.Add(func(ans string) {
			if ans == "bad-op" || ans == "" {
				return
			}
			flow := map[string][]*big.Rat{}
			for _, item := range strings.Fields(ans) {
				parts := strings.Split(item, "|")
				if len(parts) != nd+1 {
					continue
				}
				fl := make([]*big.Rat, nd)
				for k, cell := range parts[1:] {
					f := strings.Split(cell, ":")
					if len(f) == 2 && f[1] != "none" {
						fl[k], _ = ratOf(f[1])
					}
				}
				flow[parts[0]] = fl
			}
			cellOf := func(acc string, k int) *big.Rat {
				vals, has := shownAll[acc]
				if !has || k >= len(vals) {
					return new(big.Rat)
				}
				r, ok := ratOf(vals[k])
				if !ok {
					return nil
				}
				return r
			}
			adj := map[string][]*big.Rat{}
			for acc, fl := range flow {
				seg := strings.SplitN(acc, ":", 2)
				switch seg[0] {
				case "Assets", "Liabilities":
					g := "Income"
					if len(seg) == 2 {
						g += ":" + seg[1]
					}
					if adj[g] == nil {
						adj[g] = make([]*big.Rat, nd)
						for k := range adj[g] {
							adj[g][k] = new(big.Rat)
						}
					}
					for k := 0; k < nd; k++ {
						s := cellOf(acc, k)
						if s == nil || fl[k] == nil || adj[g][k] == nil {
							adj[g][k] = nil
							continue
						}
						adj[g][k].Add(adj[g][k], new(big.Rat).Sub(s, fl[k]))
					}
				case "Income":
				default:
					for k := 0; k < nd; k++ {
						s := cellOf(acc, k)
						if s == nil || fl[k] == nil {
							continue
						}
						want := new(big.Rat).Neg(fl[k])
						if want.Sign() != 0 {
							c.Tag("flow-nonzero")
						}
						c.Monitor("valued", bc.Idx, "flow_valued_at_booking_day", in, s.Cmp(want) == 0,
							fmt.Sprintf("account %s column %s: shown %s, bookings at booking-day prices %s", acc, dates[k], s.FloatString(10), want.FloatString(10)))
					}
				}
			}
			gains := map[string]bool{}
			for g := range adj {
				gains[g] = true
			}
			for acc := range flow {
				if strings.HasPrefix(acc, "Income") {
					gains[acc] = true
				}
			}
			for g := range gains {
				for k := 0; k < nd; k++ {
					s := cellOf(g, k)
					fl := new(big.Rat)
					if f, ok := flow[g]; ok {
						fl = f[k]
					}
					a := new(big.Rat)
					if x, ok := adj[g]; ok {
						a = x[k]
					}
					if s == nil || fl == nil || a == nil {
						continue
					}
					want := new(big.Rat).Neg(new(big.Rat).Sub(fl, a))
					if a.Sign() != 0 {
						c.Tag("gain-nonzero")
					}
					c.Monitor("valued", bc.Idx, "gain_on_mirror_account", in, s.Cmp(want) == 0,
						fmt.Sprintf("account %s column %s: shown %s, expected -(flow %s - adjustments %s)", g, dates[k], s.FloatString(10), fl.FloatString(10), a.FloatString(10)))
				}
			}
		}, "c03flow", bc.F.Val, bc.J.Wire(), itoa(start-1), strings.Join(ds, ","))
	}
	c03Modes(c, bt)
	runC03Text(c, bt)
	runC03Many(c, bt)
}

// c03ClosingMonitor: theorem C03_command_flow_cell with --close: in a cumulative report every column of an
// income/expense/equity row (other than Equity:Equity) shows the flows of its OWN period: -(flow(b) - sum over the A/L
// accounts a mirrored on b (Income:<path of a>) of ((shown(a, D_k) - shown(a, D_{k-1})) - flow(a))), all flows over
// (D_{k-1}, D_k] at booking-day prices (Spec.flowAt, evaluated by the driver). Exact. With --last the first column is
// excluded (its period does not start at the window start).
func c03ClosingMonitor(c *Ctx, bt *Batch, bc *balCase, in any, dates, ds []string, rows []reportRow, start int) {
	shownAll := map[string][]string{}
	for _, r := range rows {
		shownAll[r.Path] = r.Values
	}
	nd := len(dates)
	eves := make([]string, nd)
	for k := range eves {
		if k == 0 {
			eves[k] = itoa(start - 1)
		} else {
			eves[k] = ds[k-1]
		}
	}
	bt.Add(func(ans string) {
		if ans == "bad-op" || ans == "" {
			return
		}
		flow := map[string][]*big.Rat{}
		for _, item := range strings.Fields(ans) {
			parts := strings.Split(item, "|")
			if len(parts) != nd+1 {
				continue
			}
			fl := make([]*big.Rat, nd)
			for k, cell := range parts[1:] {
				if cell != "none" {
					fl[k], _ = ratOf(cell)
				}
			}
			flow[parts[0]] = fl
		}
		cellOf := func(acc string, k int) *big.Rat {
			if k < 0 {
				return new(big.Rat)
			}
			vals, has := shownAll[acc]
			if !has || k >= len(vals) {
				return new(big.Rat)
			}
			r, ok := ratOf(vals[k])
			if !ok {
				return nil
			}
			return r
		}
		// adjustments of the A/L accounts inside each period, by mirror account
		adj := map[string][]*big.Rat{}
		for acc, fl := range flow {
			seg := strings.SplitN(acc, ":", 2)
			if seg[0] != "Assets" && seg[0] != "Liabilities" {
				continue
			}
			g := "Income"
			if len(seg) == 2 {
				g += ":" + seg[1]
			}
			if adj[g] == nil {
				adj[g] = make([]*big.Rat, nd)
				for k := range adj[g] {
					adj[g][k] = new(big.Rat)
				}
			}
			for k := 0; k < nd; k++ {
				s1, s0 := cellOf(acc, k), cellOf(acc, k-1)
				if s1 == nil || s0 == nil || fl[k] == nil || adj[g][k] == nil {
					adj[g][k] = nil
					continue
				}
				d := new(big.Rat).Sub(s1, s0)
				adj[g][k].Add(adj[g][k], d.Sub(d, fl[k]))
			}
		}
		accs := map[string]bool{}
		for acc := range flow {
			accs[acc] = true
		}
		for g := range adj {
			accs[g] = true
		}
		for acc := range accs {
			seg := strings.SplitN(acc, ":", 2)
			if seg[0] == "Assets" || seg[0] == "Liabilities" || acc == "Equity:Equity" {
				continue
			}
			for k := 0; k < nd; k++ {
				if k == 0 && bc.F.Last > 0 {
					continue
				}
				s := cellOf(acc, k)
				fl := new(big.Rat)
				if f, ok := flow[acc]; ok {
					fl = f[k]
				}
				a := new(big.Rat)
				if x, ok := adj[acc]; ok {
					a = x[k]
				}
				if s == nil || fl == nil || a == nil {
					continue
				}
				want := new(big.Rat).Neg(new(big.Rat).Sub(fl, a))
				pred := "flow_of_own_period_with_closing"
				if seg[0] == "Income" {
					pred = "gain_on_mirror_account_with_closing"
				}
				if want.Sign() != 0 {
					c.Tag("closing-" + strings.ToLower(seg[0]) + "-nonzero")
				}
				c.Monitor("valued", bc.Idx, pred, in, s.Cmp(want) == 0,
					fmt.Sprintf("account %s column %s: shown %s, expected -(flow %s - adjustments %s) over (%s, %s]", acc, dates[k], s.FloatString(10), fl.FloatString(10), a.FloatString(10), eves[k], ds[k]))
			}
		}
	}, "c03flowp", bc.F.Val, bc.J.Wire(), strings.Join(eves, ","), strings.Join(ds, ","))
}

// c03Modes: stream "modes": valued reports WITH -m level[:suffix][,regex], --remap, --account, -s and --diff.
// Correspondence (byte for byte with the model) and the monitors of theorems C03_command_cell_diff,
// C03_command_cell_mapped, C03_command_cell_show(_other): every asset/liability ROW of the real report against the exact
// value the driver computes from Spec (Spec.mtmOver over the journal's accounts mapped onto the row, at the period end
// minus at the eve of the column; per commodity line Spec.mtmPosOver) with the PROVED bound (Spec.stepBoundOver /
// Spec.stepCountOver units of 1e-8, no slack).
func c03Modes(c *Ctx, bt *Batch) {
	n := c.N(1500, 20000)
	cases := c03GenBalCases(c, "modes", n, func(r *RNG) JGenOpts {
		return JGenOpts{MaxAccounts: r.Range(2, 7), MaxDays: r.Range(2, 9), BaseDay: 737000 + r.Intn(1500), SpanDays: Pick(r, []int{5, 40, 100, 400}),
			Prices: true, Valuation: Pick(r, []string{"CHF", "USD"}), ManyDecimals: r.Chance(1, 3), DropPrices: r.Chance(1, 12), ChainPrices: r.Chance(1, 3), DupPrices: true}
	}, func(r *RNG, j *Journal, val string) BalFlags {
		f := GenBalFlags(r, j, val, BalGenOpts{Valued: true, NoFilters: true})
		accounts, _ := journalNames(j)
		if len(f.Map) == 0 && r.Chance(1, 2) {
			f.Map = []MapRuleF{{Level: r.Range(1, 2)}}
			if r.Chance(1, 3) {
				f.Map[0].Suffix = 1
			}
		}
		if len(f.Show) == 0 && r.Chance(1, 3) {
			f.Show = []string{Pick(r, []string{"^Assets", "^Liabilities", "Assets|Liabilities", genPattern(r, accounts)})}
		}
		if r.Chance(1, 6) {
			f.Acc = []string{genPattern(r, accounts)}
		}
		f.CSV, f.Thousands = false, false
		f.Digits = 10
		f.Val = val
		return f
	})
	eps := big.NewRat(1, 100000000)
	for _, bc := range cases {
		bc := bc
		c.Evals++
		impl := bc.implOutcome()
		in := bc.Input()
		for _, t := range bc.Tags {
			c.Tag(t)
		}
		c.Class("c03m/" + strings.Fields(impl)[0] + "/" + flagClass(bc.F) + "/n" + bucket(len(bc.J.Dirs)))
		if bc.Idx < 2 {
			c.Sample(map[string]any{"args": strings.Join(bc.F.Args(), " "), "journal": bc.Text, "stdout": bc.Stdout})
		}
		bt.Add(func(model string) {
			if model == "unsupported" {
				return
			}
			if !c.Compare("modes", bc.Idx, "balance", in, impl, modelOutcomeCanon(model)) {
				f := &c.Findings[len(c.Findings)-1]
				if strings.HasPrefix(model, "ok ") {
					f.Model = clip(UnHex(strings.TrimPrefix(model, "ok ")))
				}
				f.Impl = clip(bc.Stdout + "\n" + bc.Stderr)
			}
		}, "balance", bc.F.Wire(today()), bc.J.Wire())
		if bc.Code != 0 {
			c.Tag("rejected")
			continue
		}
		dates, rows, _ := parseTextReport(bc.Stdout)
		if len(dates) == 0 {
			continue
		}
		type key struct{ path, comm string }
		shown := map[key][]string{}
		anyLine := map[string][]string{}
		for _, r := range rows {
			shown[key{r.Path, r.Comm}] = r.Values
			if _, ok := anyLine[r.Path]; !ok {
				anyLine[r.Path] = r.Values
			}
		}
		bt.Add(func(ans string) {
			if ans == "bad-op" || ans == "" || ans == "panic" || ans == "empty-window" {
				if ans == "empty-window" {
					c.Tag("inverted-window")
				}
				return
			}
			for _, item := range strings.Fields(ans) {
				parts := strings.Split(item, "|")
				if len(parts) != len(dates)+2 {
					c.Monitor("modes", bc.Idx, "columns_agree", in, false, fmt.Sprintf("row %s: the model has %d columns, the report %d", parts[0], len(parts)-2, len(dates)))
					continue
				}
				acc, comm := parts[0], parts[1]
				var vals []string
				pred := "mapped_row_is_mark_to_market"
				if comm == "-" {
					vals = anyLine[acc]
					if len(bc.F.Map) == 0 && len(bc.F.Remap) == 0 && len(bc.F.Acc) == 0 {
						pred = "row_is_mark_to_market"
					}
				} else {
					vals = shown[key{acc, comm}]
					pred = "commodity_line_is_mark_to_market"
					c.Tag("show-line")
				}
				for k, cell := range parts[2:] {
					f := strings.Split(cell, ":")
					if len(f) != 3 {
						continue
					}
					sv := ""
					if k < len(vals) {
						sv = vals[k]
					}
					if f[0] == "none" || f[1] == "none" {
						c.Monitor("modes", bc.Idx, "missing_price_is_error", in, false, fmt.Sprintf("row %s %s column %s: no price exists but the report shows %q", acc, comm, dates[k], sv))
						continue
					}
					mD, _ := ratOf(f[0])
					mF, _ := ratOf(f[1])
					var steps int64
					fmt.Sscan(f[2], &steps)
					bound := new(big.Rat).Mul(eps, big.NewRat(steps, 1))
					s, ok := ratOf(sv)
					if !ok {
						c.Monitor("modes", bc.Idx, "cell_is_number", in, false, "cell "+sv)
						continue
					}
					want := new(big.Rat).Sub(mD, mF)
					dev := new(big.Rat).Abs(new(big.Rat).Sub(s, want))
					if bc.F.Diff {
						c.Tag("diff-cell")
					}
					if want.Sign() != 0 {
						c.Tag("modes-nonzero")
					}
					c.Monitor("modes", bc.Idx, pred, in, dev.Cmp(bound) <= 0,
						fmt.Sprintf("row %s %s column %s: shown %s, exact value at the period end %s, at the eve %s, steps %d", acc, comm, dates[k], s.FloatString(10), mD.FloatString(10), mF.FloatString(10), steps))
				}
			}
		}, "c03rows", bc.F.Wire(today()), bc.J.Wire())
	}
}

// c03ALMonitor: the monitor of theorem C03_command_cell on one real report (per-account cumulative rows): every A/L cell
// against Spec.mtm(D) - Spec.mtm(eve of the window) of the journal j with the proved bound Spec.stepBound (driver op c03mtm).
// ok = false: the report has no columns / an empty window (no claim); otherwise the parsed report for the flow monitors.
func c03ALMonitor(c *Ctx, bt *Batch, stream string, idx int, in any, f0 BalFlags, j *Journal, stdout string) (dates, ds []string, rows []reportRow, start int, ok bool) {
	eps := big.NewRat(1, 100000000)
	// ---- monitor: shown value of every A/L account row vs exact mark-to-market
	dates, rows, _ = parseTextReport(stdout)
	if len(dates) == 0 {
		return
	}
	for _, d := range dates {
		t, err := time.Parse("2006-01-02", d)
		if err != nil {
			ds = nil
			break
		}
		ds = append(ds, itoa(dayNum(t)))
	}
	if ds == nil {
		return
	}
	jmin := 1 << 30
	for _, d := range j.Dirs {
		if d.Kind == 't' && d.Date < jmin {
			jmin = d.Date
		}
	}
	start = jmin
	if f0.From > start {
		start = f0.From
	}
	if f0.To != 0 && start > f0.To {
		c.Tag("inverted-window")
		return // empty window: the report shows nothing, the property makes no claim
	}
	shown := map[string][]string{}
	for _, r := range rows {
		if strings.HasPrefix(r.Path, "Assets") || strings.HasPrefix(r.Path, "Liabilities") {
			shown[r.Path] = r.Values
		}
	}
	bt.Add(func(ans string) {
		if ans == "bad-op" || ans == "" {
			return
		}
		for _, item := range strings.Fields(ans) {
			parts := strings.Split(item, "|")
			acc := parts[0]
			vals, has := shown[acc]
			for k, cell := range parts[1:] {
				f := strings.Split(cell, ":")
				if len(f) != 4 {
					continue
				}
				if f[1] == "none" {
					// a needed price is missing at this date although the command printed a report
					q := "0"
					if has && k < len(vals) {
						q = vals[k]
					}
					c.Monitor(stream, idx, "missing_price_is_error", in, false, fmt.Sprintf("account %s column %s: no price exists but the report shows %q", acc, dates[k], q))
					continue
				}
				mtmD, _ := ratOf(f[1])
				mtmF := new(big.Rat)
				if f[2] != "none" {
					mtmF, _ = ratOf(f[2])
				}
				var steps int64
				fmt.Sscan(f[3], &steps)
				// steps = Spec.stepBound (non-zero bookings on the account in a commodity other than V dated inside
				// the window up to the column date + days with a price declaration there, per such commodity):
				// the bound of theorem C03_command_cell, no slack added
				bound := new(big.Rat).Mul(eps, big.NewRat(steps, 1))
				sv := ""
				if has && k < len(vals) {
					sv = vals[k]
				}
				s, ok := ratOf(sv)
				if !ok {
					c.Monitor(stream, idx, "cell_is_number", in, false, "cell "+sv)
					continue
				}
				windowed := new(big.Rat).Sub(mtmD, mtmF)
				diffW := new(big.Rat).Abs(new(big.Rat).Sub(s, windowed))
				diffL := new(big.Rat).Abs(new(big.Rat).Sub(s, mtmD))
				detail := fmt.Sprintf("account %s column %s: shown %s, mark-to-market %s, before window %s, steps %d", acc, dates[k], s.FloatString(10), mtmD.FloatString(10), mtmF.FloatString(10), steps)
				switch {
				case diffL.Cmp(bound) <= 0:
					c.Monitored++
					c.Tag("mtm-literal-ok")
				case diffW.Cmp(bound) <= 0 && mtmF.Sign() != 0:
					c.MonitorKnown(stream, idx, "shown_equals_mark_to_market", in, detail, "window-start-after-position")
				default:
					c.Monitor(stream, idx, "shown_equals_mark_to_market", in, false, detail)
				}
			}
		}
	}, "c03mtm", f0.Val, j.Wire(), itoa(start-1), strings.Join(ds, ","))
	return dates, ds, rows, start, true
}

// c03Requote adds a QUOTE HISTORY to a generated journal (seeded change C03-k remembered the last value written per
// DIRECTED pair and dropped a declaration that repeated it, although a declaration sets both directions): 1-3 unordered
// pairs of the journal's commodities (a held commodity and the valuation commodity, a pair the journal already declares,
// or two other commodities = a link of a chain), each quoted 3-9 times in BOTH directions, the values of either direction
// drawn from a pool of one or two values (exact repeats are frequent: A p B, B q A, A p B; a value also re-written with
// another number of trailing zeros; the inverse direction holding the exact reciprocal or another rate), on the journal's
// own days and on days in between / after the last one, several quotes of one pair on one day (file order decides).
// The declarations are inserted in date order among the price declarations of their day. val may be "".
func c03Requote(r *RNG, j *Journal, val string) []string {
	var tags []string
	seenDay := map[int]bool{}
	var days []int
	held := map[string]bool{}
	var coms []string
	addCom := func(c string) {
		if c != "" && !held[c] {
			held[c] = true
			coms = append(coms, c)
		}
	}
	type pair struct{ a, b string }
	var cands []pair
	for _, d := range j.Dirs {
		if !seenDay[d.Date] {
			seenDay[d.Date] = true
			days = append(days, d.Date)
		}
		switch d.Kind {
		case 't':
			for _, b := range d.Bookings {
				addCom(b.Com)
			}
		case 'p':
			cands = append(cands, pair{d.Com, d.Target})
		}
	}
	if len(days) == 0 {
		return nil
	}
	sort.Ints(days)
	lo, hi := days[0], days[len(days)-1]
	for _, c := range coms {
		if val != "" && c != val {
			cands = append(cands, pair{c, val}, pair{c, val})
			if o := Pick(r, coms); o != c && o != val {
				cands = append(cands, pair{c, o}) // a link of a chain
			}
		}
	}
	if len(cands) == 0 {
		return nil
	}
	rates := []string{"1.25", "0.8", "0.5", "2", "1.6", "0.625", "4", "0.25", "3", "1.1", "97.53", "0.07"}
	recip := map[string]string{"1.25": "0.8", "0.8": "1.25", "0.5": "2", "2": "0.5", "1.6": "0.625", "0.625": "1.6", "4": "0.25", "0.25": "4"}
	insert := func(d JDir) {
		from := sort.Search(len(j.Dirs), func(k int) bool { return j.Dirs[k].Date >= d.Date })
		to := from
		for to < len(j.Dirs) && j.Dirs[to].Date == d.Date && j.Dirs[to].Kind == 'p' {
			to++
		}
		at := from + r.Intn(to-from+1)
		if r.Chance(1, 2) {
			at = to // the newest declaration of the day last
		}
		j.Dirs = append(j.Dirs, JDir{})
		copy(j.Dirs[at+1:], j.Dirs[at:])
		j.Dirs[at] = d
	}
	for np := Pick(r, []int{1, 1, 2, 3}); np > 0; np-- {
		pr := Pick(r, cands)
		if pr.a == pr.b {
			continue
		}
		// the pool of either direction
		fw := []string{Pick(r, rates)}
		if r.Chance(2, 3) {
			fw = append(fw, Pick(r, rates))
		}
		var bw []string
		for _, p := range fw {
			if q, ok := recip[p]; ok && r.Chance(1, 3) {
				bw = append(bw, q) // the exact reciprocal: the table does not change
			} else {
				bw = append(bw, Pick(r, rates))
			}
		}
		if r.Chance(1, 3) {
			bw = bw[:1]
		}
		day := Pick(r, days)
		for n := r.Range(3, 9); n > 0; n-- {
			switch r.Intn(4) {
			case 0: // the same day again
				tags = append(tags, "quote-same-day")
			case 1:
				day = lo + r.Intn(hi-lo+4)
			default:
				day = Pick(r, days)
			}
			d := JDir{Kind: 'p', Date: day, Com: pr.a, Target: pr.b, Price: Pick(r, fw)}
			if r.Chance(2, 5) {
				d = JDir{Kind: 'p', Date: day, Com: pr.b, Target: pr.a, Price: Pick(r, bw)}
			}
			if r.Chance(1, 8) {
				if !strings.Contains(d.Price, ".") {
					d.Price += "."
				}
				d.Price += Pick(r, []string{"0", "00"})
			}
			insert(d)
		}
		tags = append(tags, "quote-history")
		if pr.a != val && pr.b != val {
			tags = append(tags, "quote-history-chain-link")
		}
	}
	// what the history contains (coverage tags): a value repeated in one direction with the other direction quoted in between
	type dk struct{ a, b string }
	last := map[dk]string{}
	touched := map[dk]bool{}
	for _, d := range j.Dirs {
		if d.Kind != 'p' {
			continue
		}
		k, inv := dk{d.Com, d.Target}, dk{d.Target, d.Com}
		if p, ok := last[k]; ok && c03SameNumber(p, d.Price) {
			if touched[k] {
				tags = append(tags, "quote-repeated-across-inverse")
			} else {
				tags = append(tags, "quote-repeated")
			}
		}
		last[k] = d.Price
		touched[k] = false
		if _, ok := last[inv]; ok {
			touched[inv] = true
		}
	}
	return tags
}

func c03SameNumber(a, b string) bool {
	x, ok1 := new(big.Rat).SetString(a)
	y, ok2 := new(big.Rat).SetString(b)
	return ok1 && ok2 && x.Cmp(y) == 0
}

// c03GenBalCases is genBalCasesWith plus the quote histories of c03Requote on a third of the journals (drawn from a
// generator of their own, so that the other cases of the stream stay what they were) and, for half of those, report
// columns on many dates up to the end of the history (the valuation dates after each quote).
func c03GenBalCases(c *Ctx, stream string, n int, jo func(r *RNG) JGenOpts, fo func(r *RNG, j *Journal, val string) BalFlags) []*balCase {
	dir := filepath.Join(c.WorkDir, stream)
	os.MkdirAll(dir, 0o755)
	var cases []*balCase
	for i := 0; i < n; i++ {
		if !c.Want(stream, i) {
			continue
		}
		r := c.Rng(stream, i)
		o := jo(r)
		j, tags := GenJournal(r, o)
		rq := c.Rng(stream+"+quotes", i)
		requoted := rq.Chance(1, 3)
		if requoted {
			tags = append(tags, c03Requote(rq, j, o.Valuation)...)
		}
		text, _ := j.Text()
		f := fo(r, j, o.Valuation)
		if requoted {
			c03QuoteColumns(rq, j, &f)
		}
		cases = append(cases, &balCase{Idx: i, J: j, Text: text, F: f, Tags: tags})
	}
	parallelFor(len(cases), 16, func(k int) {
		bc := cases[k]
		path := filepath.Join(dir, fmt.Sprintf("c%d.knut", bc.Idx))
		os.WriteFile(path, []byte(bc.Text), 0o644)
		args := append([]string{"balance"}, bc.F.Args()...)
		args = append(args, path)
		bc.Code, bc.Stdout, bc.Stderr = runKnut(c.KnutBin, 20*time.Second, nil, args...)
		os.Remove(path)
	})
	return cases
}

// c03QuoteColumns: for half of the journals with a quote history, columns on many dates (daily or weekly) up to the end
// of the history or a few days beyond it.
func c03QuoteColumns(rq *RNG, j *Journal, f *BalFlags) {
	if !rq.Chance(1, 2) {
		return
	}
	hi := 0
	for _, d := range j.Dirs {
		if d.Date > hi {
			hi = d.Date
		}
	}
	f.Interval = Pick(rq, []int{1, 1, 2})
	if hi > 0 && rq.Chance(2, 3) && f.From <= hi {
		f.To = hi + rq.Range(0, 10)
	}
}
