import Knut.Spec.LayoutSpec
import Knut.Proofs.LayoutFactor
import Knut.Proofs.LayoutPrint
import Knut.Properties.C05Verdict
import Knut.Properties.C05Inserts
import Knut.Properties.C05Valued
/-!
# C05, end to end — the layout of the journal over files does not matter

`Layout.journalOf fs root` (`Spec/LayoutSpec.lean`) is the directive list `knut check|balance|print` work on: the files
the recursive include loader returns for the file system `fs` (`Model/Loader.lean`, parser model of C07), each
elaborated by `model.FromStream` (`Commands.elabFile`, accrual expansion included), concatenated in the loader's order.

* `C05_run_factors` – `Cmd.run c fs f = onJournal c f (journalOf fs f.path)` for `check`, `balance`, `print`: the
  commands see the file system through `journalOf` only.
* `C05_layout_verdict`, `C05_layout_balance`, `C05_layout_balance_valued`, `C05_layout_print`, `C05_layout_print_exact` –
  two file systems (any include trees, any paths) whose journals are permutations of each other give the same `check`
  verdict, byte-identical `balance` output for every flag vector (valued: under `PricesDistinct`), and printed journals
  that differ at most in the order within a (day, kind) block (`Layout.PrintEquiv`); if the relative order within
  every (date, kind) block is the same, the printed bytes are identical.  No well-formedness hypothesis is left:
  `C05_layout_wf` – every journal that loads satisfies `DirsWF` (the account registry's check in `transaction.Create`).
* `C05_layout_arrival` – the files may arrive from the loader goroutines in any order (C19): the journal is a
  permutation of the depth-first one, so everything above holds for every schedule.
-/
namespace Knut.C05
open Knut Knut.Loader Knut.Commands Knut.Layout Knut.InsertsPerm Knut.JournalPrinter

/-- **the commands factor through `journalOf`** -/
theorem C05_run_factors (c : Command) (hc : c = .check ∨ c = .balance ∨ c = .print) (fs : FileSys) (f : Flags) :
    Cmd.run c fs f = onJournal c f (journalOf fs f.path) := by
  rcases hc with rfl | rfl | rfl
  · exact run_check_eq fs f
  · exact run_balance_eq fs f
  · exact run_print_eq fs f

/-- `journal.FromPath` of the command model is `journalOf` -/
theorem C05_journalOf_is_fromPath (fs : FileSys) (root : Path) : fromPath fs root = journalOf fs root := rfl

/-- every journal that loads books on accounts with an account type only -/
theorem C05_layout_wf (fs : FileSys) (root : Path) (ds : List Directive) (h : journalOf fs root = .ok ds) : DirsWF ds :=
  journalOf_wf fs root ds h

/-- **the verdict of `knut check` does not depend on the layout**: same outcome class with or without `--write`
(the assertions `--write` prints are not claimed), and the same outcome without it -/
theorem C05_layout_verdict (fs fs' : FileSys) (f f' : Flags) (ds ds' : List Directive)
    (h : journalOf fs f.path = .ok ds) (h' : journalOf fs' f'.path = .ok ds') (hp : ds.Perm ds') :
    (Cmd.run .check fs f).cls = (Cmd.run .check fs' f').cls ∧
    (f.write = false → f'.write = false → Cmd.run .check fs f = Cmd.run .check fs' f') := by
  rw [run_check_eq, run_check_eq, h, h']
  simp only [checkOn]
  have hv := C05_verdict_perm ds ds' hp
  rw [← checkWrite_isOk_run, ← checkWrite_isOk_run] at hv
  cases h1 : checkWrite {} (Builder.ofList ds).build with
  | error e =>
    cases h2 : checkWrite {} (Builder.ofList ds').build with
    | error e' => exact ⟨rfl, fun _ _ => rfl⟩
    | ok as' => rw [h1, h2] at hv; cases hv
  | ok as =>
    cases h2 : checkWrite {} (Builder.ofList ds').build with
    | error e' => rw [h1, h2] at hv; cases hv
    | ok as' =>
      refine ⟨?_, ?_⟩
      · cases f.write <;> cases f'.write <;> simp only [if_true, if_false, Bool.false_eq_true, CmdOutcome.cls]
      · intro hw hw'; simp only [hw, hw', if_false, Bool.false_eq_true]

/-- **not a byte of an unvalued balance report depends on the layout**, for every flag vector -/
theorem C05_layout_balance (fs fs' : FileSys) (f f' : Flags) (ds ds' : List Directive)
    (h : journalOf fs f.path = .ok ds) (h' : journalOf fs' f'.path = .ok ds') (hp : ds.Perm ds')
    (hf : f'.balance = f.balance) (hv : commodityFlag f.balance.valuation = .ok none) :
    Cmd.run .balance fs f = Cmd.run .balance fs' f' := by
  rw [run_balance_eq, run_balance_eq, h, h', hf]
  simp only [balanceOn, hv]
  exact C05_balance_output_perm _ rfl ds ds' hp (journalOf_wf fs f.path ds h)

/-- **not a byte of any balance report, valued or not, depends on the layout**, for every flag vector, provided no date
carries two price directives for one pair of commodities (`C05_two_prices_one_day_order_matters`: needed) -/
theorem C05_layout_balance_valued (fs fs' : FileSys) (f f' : Flags) (ds ds' : List Directive)
    (h : journalOf fs f.path = .ok ds) (h' : journalOf fs' f'.path = .ok ds') (hp : ds.Perm ds')
    (hf : f'.balance = f.balance) (hpr : PricesDistinct ds) :
    Cmd.run .balance fs f = Cmd.run .balance fs' f' := by
  rw [run_balance_eq, run_balance_eq, h, h', hf]
  simp only [balanceOn]
  cases commodityFlag f.balance.valuation with
  | error o => rfl
  | ok v => exact C05_balance_output_perm_valued _ ds ds' hp (journalOf_wf fs f.path ds h) hpr

/-- **`knut print` shows the same journal up to the order within a (day, kind) block**: both runs are rejected by the
checker, or both print — the journals `j`, `j'` built from the two directive lists — and `j`, `j'` have the same days,
per day the same prices, openings, assertions, closings and transactions as multisets, the same column width, and the
sorted transaction sequences agree position by position up to `transaction.Compare` (`Layout.PrintEquiv`) -/
theorem C05_layout_print (fs fs' : FileSys) (f f' : Flags) (ds ds' : List Directive)
    (h : journalOf fs f.path = .ok ds) (h' : journalOf fs' f'.path = .ok ds') (hp : ds.Perm ds') :
    (Cmd.run .print fs f = .error "processing" ∧ Cmd.run .print fs' f' = .error "processing") ∨
    (Cmd.run .print fs f = .ok (print (Builder.ofList ds).build) ∧
     Cmd.run .print fs' f' = .ok (print (Builder.ofList ds').build) ∧
     PrintEquiv (Builder.ofList ds).build (Builder.ofList ds').build) := by
  rw [run_print_eq, run_print_eq, h, h']
  simp only [printOn]
  have hv := C05_verdict_perm ds ds' hp
  cases h1 : Check.run (Builder.ofList ds).build with
  | error e =>
    cases h2 : Check.run (Builder.ofList ds').build with
    | error e' => exact Or.inl ⟨rfl, rfl⟩
    | ok st' => rw [h1, h2] at hv; cases hv
  | ok st =>
    cases h2 : Check.run (Builder.ofList ds').build with
    | error e' => rw [h1, h2] at hv; cases hv
    | ok st' => exact Or.inr ⟨rfl, rfl, printEquiv_of_perm ds ds' hp⟩

/-- **if the directives of every (date, kind) block keep their relative order, `knut print` writes the same bytes**:
the printed journal is a function of the per-date, per-kind sequences — the only thing a layout can change in it is
the relative order of directives that share date and kind -/
theorem C05_layout_print_exact (fs fs' : FileSys) (f f' : Flags) (ds ds' : List Directive)
    (h : journalOf fs f.path = .ok ds) (h' : journalOf fs' f'.path = .ok ds') (hp : ds.Perm ds')
    (hord : ∀ y, collect txKind ds y = collect txKind ds' y ∧ collect openKind ds y = collect openKind ds' y ∧
      collect closeKind ds y = collect closeKind ds' y ∧ collect priceKind ds y = collect priceKind ds' y ∧
      collect assertKind ds y = collect assertKind ds' y) :
    Cmd.run .print fs f = Cmd.run .print fs' f' := by
  rw [run_print_eq, run_print_eq, h, h']
  simp only [printOn, build_eq_of_collect ds ds' hp hord]

/-- **any arrival order of the files** (the loader goroutines deliver them in schedule order, C19): elaborating the
loaded files in another order gives a permutation of the journal, so all of the above holds for every schedule -/
theorem C05_layout_arrival (files files' : List LoadedFile) (hp : files.Perm files') (ds : List Directive)
    (h : journalOfFiles files = .ok ds) : ∃ ds', journalOfFiles files' = .ok ds' ∧ ds.Perm ds' :=
  journalOfFiles_perm hp h

end Knut.C05
