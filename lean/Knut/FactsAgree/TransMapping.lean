import Knut.Generated.TransAccount
import Knut.Generated.TransRegex
import Knut.FactsAgree.TransAccount
import Knut.Model.Balance
import Knut.Proofs.GoSem
/-!
# The translated account mapping (`account.Rule.Match`, `Mapping.Level`, `Shorten`, `Remap`, `regex.Regexes.MatchString`)
agrees with the model's `mappingLevel`, `shorten`, `mapAccount`

Regenerated from /repo on every run: `Knut/Generated/TransAccount.lean`, `TransRegex.lean` (`harness/trans_units_mapping.go`).

* A `*regexp.Regexp` is the value `Regexp.Ptr`: nil or the predicate `MatchString` (`GoSem/RegexpMatch.lean`) — the model's
  convention (`MapRule.test`, `BalCfg.remap`).  A rule without expression (`-m 2`) matches every name: `ruleOf`.
* The registry is not translated.  `reg.MustGetPath(mapped)` in `Shorten` and `reg.SwapType(a)` in `Remap` are parameters of
  the translated functions (functions of their arguments); the theorems hold for every `MustGetPath` that returns THE account of
  the path it is asked for (`RegistryPath`; pointwise in `Shorten_agrees`: only at the one path the closure asks for) and every
  `SwapType` that returns the account with the type word swapped (`RegistrySwap`).
* `nil` (hidden account, level 0) is the zero struct, as for every interned pointer: `optGo`.
* Levels and suffixes are not negative (`RuleOK`: what `flags.MappingFlag.Set` checks).
-/
namespace Knut.FactsAgree.TransMapping
open Knut Knut.GoSem
open Knut.Generated.Go
open Knut.FactsAgree.TransAccount (accountGo)

/-- the model rule of a Go rule: a nil `Regex` matches every name (`Rule.Match`) -/
def ruleOf (r : account.Rule) : MapRule :=
  { level := r.Level.toNat, suffix := r.Suffix.toNat, test := fun s => match r.Regex with | none => true | some f => f s }

/-- the Go rule of a model rule -/
def ruleGo (r : MapRule) : account.Rule := { Level := r.level, Suffix := r.suffix, Regex := some r.test }

/-- what `flags.MappingFlag.Set` guarantees: no negative level or suffix -/
def RuleOK (r : account.Rule) : Prop := 0 ≤ r.Level ∧ 0 ≤ r.Suffix

theorem ruleOf_ruleGo (r : MapRule) : ruleOf (ruleGo r) = r := by
  cases r; simp [ruleOf, ruleGo]

theorem ruleGo_ok (r : MapRule) : RuleOK (ruleGo r) := by
  simp [RuleOK, ruleGo]

theorem Rule_Match_agrees (r : account.Rule) (s : String) :
    account.Rule.Match r s = .ok (if (ruleOf r).test s then (r.Level, r.Suffix, true) else (0, 0, false)) := by
  unfold account.Rule.Match ruleOf
  cases h : r.Regex with
  | none => simp
  | some f => cases hf : f s <;> simp [Outcome.bind, hf]

/-- `Mapping.Level` in the model's terms -/
def levelGo (o : Option (Nat × Nat)) : Int × Int × Bool :=
  match o with
  | some (l, s) => ((l : Int), (s : Int), true)
  | none => (0, 0, false)

theorem mappingLevel_cons (r : MapRule) (m : List MapRule) (s : String) :
    mappingLevel (r :: m) s = if r.test s then some (r.level, r.suffix) else mappingLevel m s := by
  unfold mappingLevel
  cases h : r.test s <;> simp [List.find?, h]

theorem Level_range1_agrees (m : account.Mapping) (s : String) (items : List account.Rule) (h : ∀ r ∈ items, RuleOK r) :
    account.Mapping.Level.range1 m s items =
      .ok (match mappingLevel (items.map ruleOf) s with
           | some (l, sf) => Flow.ret ((l : Int), (sf : Int), true)
           | none => Flow.next ()) := by
  induction items with
  | nil => simp [account.Mapping.Level.range1, mappingLevel]
  | cons r rest ih =>
    have hr := h r (by simp)
    have ih := ih (fun x hx => h x (by simp [hx]))
    unfold account.Mapping.Level.range1
    simp only []
    rw [Rule_Match_agrees, List.map_cons, mappingLevel_cons]
    cases ht : (ruleOf r).test s with
    | true =>
      obtain ⟨h1, h2⟩ := hr
      simp [Outcome.bind, ruleOf, Int.toNat_of_nonneg h1, Int.toNat_of_nonneg h2]
    | false =>
      simp only [Outcome.bind, Bool.false_eq_true, if_false]
      rw [ih]

theorem Mapping_Level_agrees (m : account.Mapping) (s : String) (h : ∀ r ∈ m, RuleOK r) :
    account.Mapping.Level m s = .ok (levelGo (mappingLevel (m.map ruleOf) s)) := by
  unfold account.Mapping.Level
  rw [Level_range1_agrees m s m h]
  cases mappingLevel (m.map ruleOf) s with
  | none => simp [Outcome.bind, levelGo]
  | some p => cases p; simp [Outcome.bind, levelGo]

/-- a mapper's result in Go: hidden (`none`) is the nil pointer, i.e. the zero struct -/
def optGo (o : Option Knut.Account) : account.Account :=
  match o with
  | some b => accountGo b
  | none => GoZero.zero

theorem slice_take {α : Type} (xs : List α) (n : Nat) (h : n ≤ xs.length) :
    slice xs 0 (n : Int) = .ok (xs.take n) := by
  unfold slice
  have : ¬ ((0 : Int) < 0 ∨ (n : Int) < 0 ∨ (xs.length : Int) < (n : Int)) := by omega
  simp [h]

theorem slice_drop {α : Type} (xs : List α) (n : Nat) (h : n ≤ xs.length) :
    slice xs (n : Int) (len xs) = .ok (xs.drop n) := by
  unfold slice
  simp [len, h]

/-- **`account.Shorten`** = the model's `shorten`: the mapper it returns sends the Go account of `a` to the Go account of
`shorten a` (nil when the model hides the account), provided the registry's `MustGetPath` (`ext1`) returns the account of the
path it is asked for. -/
theorem Shorten_agrees (m : account.Mapping) (ext1 : List String → account.Account) (hm : ∀ r ∈ m, RuleOK r) :
    ∃ f, account.Shorten m ext1 = .ok (some f) ∧
      ∀ a : Knut.Account, (∀ b, shorten (m.map ruleOf) a = some b → ext1 b.segments = accountGo b) →
        f (accountGo a) = .ok (optGo (shorten (m.map ruleOf) a)) := by
  unfold account.Shorten
  by_cases h0 : len m = 0
  · have : m = [] := by cases m with | nil => rfl | cons _ _ => simp [len] at h0; omega
    subst this
    refine ⟨_, by simp; rfl, ?_⟩
    intro a _
    simp [mapper.Identity, shorten, mappingLevel, optGo]
  · simp only [h0, decide_false, Bool.false_eq_true, if_false]
    refine ⟨_, rfl, ?_⟩
    intro a hreg
    have hname : (accountGo a).name = a.name := rfl
    simp only [hname]
    rw [Mapping_Level_agrees m a.name hm]
    unfold shorten at hreg ⊢
    cases hl : mappingLevel (m.map ruleOf) a.name with
    | none => simp [Outcome.bind, levelGo, optGo]
    | some p =>
      obtain ⟨l, sf⟩ := p
      rw [hl] at hreg
      simp only [Outcome.bind, levelGo]
      have hLevel : account.Account.Level (accountGo a) = (a.level : Int) := TransAccount.Level_agrees a
      have hSeg : account.Account.Segments (accountGo a) = a.segments := rfl
      simp only [hLevel, hSeg]
      by_cases hl0 : l = 0
      · subst hl0; simp [optGo]
      · have hl0' : ¬ ((l : Int) = 0) := by omega
        by_cases hsf : sf ≥ a.level
        · have : (sf : Int) ≥ (a.level : Int) := by omega
          simp [hl0, hsf, this, optGo]
        · have hsf' : ¬ ((sf : Int) ≥ (a.level : Int)) := by omega
          by_cases hgt : l > a.level - sf
          · have : (l : Int) > (a.level : Int) - (sf : Int) := by omega
            simp [hl0, hsf, hsf', hgt, this, optGo]
          · have hgt' : ¬ ((l : Int) > (a.level : Int) - (sf : Int)) := by omega
            have hsplit : (a.level : Int) - (sf : Int) = ((a.level - sf : Nat) : Int) := by omega
            have hlen : a.level = a.segments.length := rfl
            have h1 : a.level - sf ≤ a.segments.length := by omega
            have h2 : l ≤ (a.segments.take (a.level - sf)).length := by simp [List.length_take]; omega
            have hres := hreg ⟨a.segments.take l ++ a.segments.drop (a.level - sf)⟩ (by simp [hl0, hsf, hgt])
            simp only [hl0, hl0', hsf, hsf', hgt, decide_false, Bool.false_eq_true, if_false, Bool.not_true,
              hsplit, slice_take _ _ h1, slice_drop _ _ h1, slice_take _ _ h2, optGo, List.nil_append]
            rw [List.take_take, Nat.min_eq_left (by omega)]
            split
            · rename_i hc; simp at hc; omega
            · exact congrArg GoSem.Outcome.ok hres

/-- the mapper that `Shorten` returns as a PURE function on ANY Go account (its name and its segments need not belong together):
the closure never panics — the guards keep every slice inside its bounds -/
def shortenF (m : List MapRule) (getPath : List String → account.Account) (a : account.Account) : account.Account :=
  match mappingLevel m a.name with
  | none => a
  | some (level, suffix) =>
    if level = 0 then GoZero.zero
    else if suffix ≥ a.segments.length then a
    else if level > a.segments.length - suffix then a
    else getPath (a.segments.take level ++ a.segments.drop (a.segments.length - suffix))

/-- **`account.Shorten` is total**: on every Go account the mapper it returns answers `shortenF`, never a panic -/
theorem Shorten_total (m : account.Mapping) (ext1 : List String → account.Account) (hm : ∀ r ∈ m, RuleOK r) :
    ∃ f, account.Shorten m ext1 = .ok (some f) ∧ ∀ a : account.Account, f a = .ok (shortenF (m.map ruleOf) ext1 a) := by
  unfold account.Shorten
  by_cases h0 : len m = 0
  · have : m = [] := by cases m with | nil => rfl | cons _ _ => simp [len] at h0; omega
    subst this
    refine ⟨_, by simp; rfl, ?_⟩
    intro a
    simp [mapper.Identity, shortenF, mappingLevel]
  · simp only [h0, decide_false, Bool.false_eq_true, if_false]
    refine ⟨_, rfl, ?_⟩
    intro a
    rw [Mapping_Level_agrees m a.name hm]
    unfold shortenF
    cases hl : mappingLevel (m.map ruleOf) a.name with
    | none => simp [Outcome.bind, levelGo]
    | some p =>
      obtain ⟨l, sf⟩ := p
      simp only [Outcome.bind, levelGo, account.Account.Level, account.Account.Segments, len]
      by_cases hl0 : l = 0
      · subst hl0; simp
      · have hl0' : ¬ ((l : Int) = 0) := by omega
        by_cases hsf : sf ≥ a.segments.length
        · have : (sf : Int) ≥ (a.segments.length : Int) := by omega
          simp [hl0, hsf, this]
        · have hsf' : ¬ ((sf : Int) ≥ (a.segments.length : Int)) := by omega
          by_cases hgt : l > a.segments.length - sf
          · have : (l : Int) > (a.segments.length : Int) - (sf : Int) := by omega
            simp [hl0, hsf, hsf', hgt, this]
          · have hsplit : (a.segments.length : Int) - (sf : Int) = ((a.segments.length - sf : Nat) : Int) := by omega
            have h1 : a.segments.length - sf ≤ a.segments.length := by omega
            have h2 : l ≤ (a.segments.take (a.segments.length - sf)).length := by simp [List.length_take]; omega
            have hd := slice_drop a.segments (a.segments.length - sf) h1
            simp only [len] at hd
            simp only [hl0, hl0', hsf, hsf', hgt, decide_false, Bool.false_eq_true, if_false, Bool.not_true,
              hsplit, slice_take _ _ h1, hd, slice_take _ _ h2, List.nil_append]
            rw [List.take_take, Nat.min_eq_left (by omega)]
            split
            · rename_i hc; simp at hc; omega
            · rfl

theorem wf_segments {a : Knut.Account} (h : a.wf = true) :
    ∃ s rest, a.segments = s :: rest ∧ (AccountType.ofName s).isSome = true := by
  obtain ⟨segs⟩ := a
  cases segs with
  | nil => cases h
  | cons s rest => exact ⟨s, rest, rfl, h⟩

/-- a shortened account keeps the type word (`level ≥ 1` keeps the first segment) -/
theorem shorten_wf (m : List MapRule) {a b : Knut.Account} (h : a.wf = true) (hb : shorten m a = some b) : b.wf = true := by
  unfold shorten at hb
  split at hb
  · injection hb with hb; subst hb; exact h
  · rename_i level suffix _
    split at hb
    · cases hb
    · split at hb
      · injection hb with hb; subst hb; exact h
      · split at hb
        · injection hb with hb; subst hb; exact h
        · injection hb with hb; subst hb
          obtain ⟨s, rest, hs, ht⟩ := wf_segments h
          rw [hs]
          cases level with
          | zero => contradiction
          | succ n => simp only [List.take_succ_cons, List.cons_append]; exact ht

theorem swapType_wf {a : Knut.Account} (h : a.wf = true) : (swapType a).wf = true := by
  obtain ⟨s, rest, hs, ht⟩ := wf_segments h
  unfold swapType
  rw [hs]
  simp only
  repeat' split
  all_goals first | exact h | rfl

/-- the registry as far as `Shorten` uses it: `MustGetPath` (`ext1`) returns THE account of a path that starts with a type word
(interned pointers as values: `accountGo`).  (That the other segments are valid is the registry's business: the paths asked for
consist of segments of accounts that exist.) -/
def RegistryPath (ext1 : List String → account.Account) : Prop :=
  ∀ b : Knut.Account, b.wf = true → ext1 b.segments = accountGo b

theorem Shorten_agrees_registry (m : account.Mapping) (ext1 : List String → account.Account) (hm : ∀ r ∈ m, RuleOK r)
    (hreg : RegistryPath ext1) :
    ∃ f, account.Shorten m ext1 = .ok (some f) ∧
      ∀ a : Knut.Account, a.wf = true → f (accountGo a) = .ok (optGo (shorten (m.map ruleOf) a)) := by
  obtain ⟨f, hf, h⟩ := Shorten_agrees m ext1 hm
  exact ⟨f, hf, fun a ha => h a (fun b hb => hreg b (shorten_wf _ ha hb))⟩

/-- from the model's side: the mapping of the model as Go rules -/
theorem Shorten_agrees_model (m : List MapRule) (ext1 : List String → account.Account) (hreg : RegistryPath ext1) :
    ∃ f, account.Shorten (m.map ruleGo) ext1 = .ok (some f) ∧
      ∀ a : Knut.Account, a.wf = true → f (accountGo a) = .ok (optGo (shorten m a)) := by
  obtain ⟨f, hf, h⟩ := Shorten_agrees_registry (m.map ruleGo) ext1
    (by intro r hr; obtain ⟨x, _, rfl⟩ := List.mem_map.mp hr; exact ruleGo_ok x) hreg
  refine ⟨f, hf, fun a ha => ?_⟩
  have : (m.map ruleGo).map ruleOf = m := by
    rw [List.map_map]; conv => rhs; rw [← List.map_id m]
    exact List.map_congr_left (fun x _ => ruleOf_ruleGo x)
  rw [h a ha, this]

/-! ### `regex.Regexes.MatchString`, `account.Remap` -/

/-- the compiled expressions of a `--remap` / `--account` / `--commodity` flag: never nil (`RegexFlag.Set` adds the result of a
successful `regexp.Compile`) -/
def regsGo (fs : List (String → Bool)) : regex.Regexes := fs.map some

theorem MatchString_range1_agrees (rf : regex.Regexes) (s : String) (fs : List (String → Bool)) :
    regex.Regexes.MatchString.range1 rf s (regsGo fs) =
      .ok (if fs.any (fun f => f s) then Flow.ret true else Flow.next ()) := by
  induction fs with
  | nil => simp [regsGo, regex.Regexes.MatchString.range1]
  | cons f rest ih =>
    unfold regsGo at ih ⊢
    simp only [List.map_cons]
    unfold regex.Regexes.MatchString.range1
    cases hf : f s <;> simp [Outcome.bind, hf, ih]

/-- **`Regexes.MatchString`**: some expression of the list matches -/
theorem Regexes_MatchString_agrees (fs : List (String → Bool)) (s : String) :
    regex.Regexes.MatchString (regsGo fs) s = .ok (fs.any (fun f => f s)) := by
  unfold regex.Regexes.MatchString
  rw [MatchString_range1_agrees]
  cases fs.any (fun f => f s) <;> simp [Outcome.bind]

/-- a nil expression in the list is Go's nil-pointer panic, if no expression before it matches -/
theorem Regexes_MatchString_nil (fs : List (String → Bool)) (rest : regex.Regexes) (s : String)
    (h : fs.any (fun f => f s) = false) :
    regex.Regexes.MatchString (regsGo fs ++ none :: rest) s = .panic "invalid memory address or nil pointer dereference" := by
  unfold regex.Regexes.MatchString
  suffices hh : ∀ rf, regex.Regexes.MatchString.range1 rf s (regsGo fs ++ none :: rest) =
      .panic "invalid memory address or nil pointer dereference" by rw [hh]; rfl
  intro rf
  induction fs with
  | nil => simp [regsGo, regex.Regexes.MatchString.range1, Outcome.bind]
  | cons f tl ih =>
    simp only [List.any_cons, Bool.or_eq_false_iff] at h
    unfold regsGo at ih ⊢
    simp only [List.map_cons, List.cons_append]
    unfold regex.Regexes.MatchString.range1
    simp [Outcome.bind, h.1, ih h.2]

/-- **`account.Remap`** (the function it returns, applied to `a`; `swap` is `reg.SwapType` as a function of its argument): the
swapped account if some expression matches the account's name -/
theorem Remap_agrees (fs : List (String → Bool)) (a : account.Account) (swap : account.Account → account.Account) :
    account.Remap (regsGo fs) a swap = .ok (if fs.any (fun f => f a.name) then swap a else a) := by
  unfold account.Remap
  rw [Regexes_MatchString_agrees]
  cases fs.any (fun f => f a.name) <;> simp [Outcome.bind]

/-- the registry as far as `Remap` uses it: `SwapType` returns THE account with the type word swapped (`TransSwapType`:
`SwapType_name_agrees` for the translated statements of `SwapType`, `RegistrySwap_of_get` for this property) -/
def RegistrySwap (swap : account.Account → account.Account) : Prop :=
  ∀ b : Knut.Account, b.wf = true → swap (accountGo b) = accountGo (swapType b)

/-- against the model -/
theorem Remap_model (fs : List (String → Bool)) (swap : account.Account → account.Account) (hswap : RegistrySwap swap)
    (a : Knut.Account) (ha : a.wf = true) :
    account.Remap (regsGo fs) (accountGo a) swap =
      .ok (accountGo (if fs.any (fun f => f a.name) then swapType a else a)) := by
  rw [Remap_agrees]
  have : (accountGo a).name = a.name := rfl
  rw [this]
  cases fs.any (fun f => f a.name) <;> simp [hswap a ha]

/-- **the model's `mapAccount`** = first `account.Remap(…)`, then the mapper `account.Shorten(…)` returns — the two mappers that
`cmd/commands/balance.go` hands to `mapper.Sequence` -/
theorem mapAccount_agrees (cfg : BalCfg) (fs : List (String → Bool)) (hfs : ∀ s, cfg.remap s = fs.any (fun f => f s))
    (ext1 : List String → account.Account) (hreg : RegistryPath ext1)
    (swap : account.Account → account.Account) (hswap : RegistrySwap swap) :
    ∃ f, account.Shorten (cfg.mapping.map ruleGo) ext1 = .ok (some f) ∧
      ∀ a : Knut.Account, a.wf = true →
        (account.Remap (regsGo fs) (accountGo a) swap).bind f = .ok (optGo (mapAccount cfg a)) := by
  obtain ⟨f, hf, h⟩ := Shorten_agrees_model cfg.mapping ext1 hreg
  refine ⟨f, hf, fun a ha => ?_⟩
  rw [Remap_model fs swap hswap a ha, Outcome.bind, mapAccount, hfs]
  apply h
  cases fs.any (fun f => f a.name)
  · exact ha
  · exact swapType_wf ha

/-- non-vacuity: `-m 1,Bank` on `Assets:Bank:Checking` gives `Assets`; level 0 hides; a suffix keeps the last segment -/
example :
    let reg : List String → account.Account := fun ss => accountGo ⟨ss⟩
    let isBank : String → Bool := fun s => s == "Assets:Bank:Checking"
    (match account.Shorten [⟨1, 0, some isBank⟩] reg with
      | .ok (some f) => (match f (accountGo ⟨["Assets", "Bank", "Checking"]⟩) with | .ok b => b.name | _ => "?")
      | _ => "?") = "Assets" ∧
    (match account.Shorten [⟨0, 0, none⟩] reg with
      | .ok (some f) => (match f (accountGo ⟨["Assets", "Bank", "Checking"]⟩) with | .ok b => b.name | _ => "?")
      | _ => "?") = "" ∧
    (match account.Shorten [⟨1, 1, none⟩] reg with
      | .ok (some f) => (match f (accountGo ⟨["Assets", "Bank", "Checking"]⟩) with | .ok b => b.name | _ => "?")
      | _ => "?") = "Assets:Checking" ∧
    (match account.Remap (regsGo [isBank]) (accountGo ⟨["Assets", "Bank", "Checking"]⟩) (fun b => accountGo (swapType ⟨b.segments⟩)) with
      | .ok b => b.name | _ => "?") = "Liabilities:Bank:Checking" := by decide +kernel

end Knut.FactsAgree.TransMapping
