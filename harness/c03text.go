package main

import (
	"fmt"
	"os"
	"path/filepath"
	"strings"
	"time"
)

// ---------------------------------------------------------------- stream text: valued reports over include trees
//
// The streams valued / modes hand the command ONE file and the model the structured journal.  A real journal keeps its prices in
// files of their own (`include "prices/USD.prices"`), fetched and rewritten by `knut fetch`: whether the value shown is quantity
// times the MOST RECENT DECLARED price then depends on the loader bringing every member of the include tree in - or failing.
// This stream writes a generated journal with a price history as TEXT over a main file and included files:
//   layout of the price declarations: one file / chunks by age (older, ..., newest; a day never split) / one file per price day /
//       one file per commodity (only when no day redeclares a pair across files: the order between files is a schedule);
//   layout of the other directives: main file, or 1-2 further files;  tree: flat / behind an index file / a chain
//       (each price file includes the next newer one); price files in a sub-directory or beside the main file; include lines
//       first / last / in between;  file names: plain, or (glob-literal) with the characters * ? [ ] of a glob pattern in them.
// In about half of the cases ONE included member cannot be loaded:
//   missing (never written) / renamed (.bak, ~, other extension, other letter case, other directory) / unreadable-dir (a directory
//   of that name) / dangling-symlink / glob-near (the include names a pattern that is no file: p?ices.knut, USD.*, [U]SD.prices,
//   while the file it is "meant" to be exists beside it)
// at any depth of the tree, holding the newest prices / older ones / all of them / bookings / nothing but a comment.
//   compare  c02text   real outcome against the pipeline model on the text of the files that can be read (Lean parser + FromSyntax
//                      + BalanceCmd.run with -v), byte for byte
//   monitor  unloadable_include_is_error  a member of the include tree cannot be read: the price history / the positions the
//                      report would be computed from are not the journal's; the command must fail and print no value
//   monitor  shown_equals_mark_to_market / missing_price_is_error (c03ALMonitor, as in stream valued) for every tree that loads:
//                      every A/L cell against Spec.mtm with the proved bound, Spec evaluated on the UNION of the files (the
//                      generator's own journal in wire form, independent of the text model)
// (Seeded change C03-j expanded include paths with filepath.Glob: a missing include matched nothing and was skipped; with the
// newer prices lost, `knut balance -v` exited 0 and showed values at a stale price.)

type c03DiskOp struct {
	Kind string // file | dir | symlink
	Path string
	Text string
}

type c03TextCase struct {
	Idx    int
	J      *Journal
	F      BalFlags
	Files  []c02File   // what the model can read: the regular files on disk
	Disk   []c03DiskOp // what is written
	Layout string
	Tree   string
	Fault  string // none | ...
	Lost   string // path the failing include names
	Holds  string // what the lost subtree holds
	Depth  int
	Tags   []string
	Code   int
	Stdout string
	Stderr string
}

func (tc *c03TextCase) Input() map[string]any {
	disk := make([]map[string]string, len(tc.Disk))
	for i, f := range tc.Disk {
		disk[i] = map[string]string{"kind": f.Kind, "path": f.Path, "text": f.Text}
	}
	return map[string]any{"disk": disk, "args": strings.Join(tc.F.Args(), " ") + " main.knut", "fault": tc.Fault, "lost": tc.Lost, "holds": tc.Holds,
		"layout": tc.Layout + "/" + tc.Tree, "wire_flags": tc.F.Wire(today()), "wire_journal": tc.J.Wire()}
}

func (tc *c03TextCase) implOutcome() string {
	switch {
	case strings.Contains(tc.Stderr, "panic:") || strings.Contains(tc.Stderr, "goroutine "):
		return "panic"
	case tc.Code == 0:
		return "ok " + Hex(canonTable(tc.Stdout))
	case tc.Code == -2:
		return "timeout"
	case tc.Stdout != "":
		return "error-after-output " + Hex(tc.Stdout)
	default:
		return "error"
	}
}

func c03SafeName(s string, k int) string {
	for _, r := range s {
		if !(r >= 'A' && r <= 'Z' || r >= 'a' && r <= 'z' || r >= '0' && r <= '9') {
			return fmt.Sprintf("c%d", k)
		}
	}
	if s == "" {
		return fmt.Sprintf("c%d", k)
	}
	return s
}

// c03GlobName puts characters of a glob pattern into a file name (the name stays a legal file name and a legal include path)
func c03GlobName(r *RNG, base string) string {
	ext := filepath.Ext(base)
	stem := strings.TrimSuffix(base, ext)
	switch r.Intn(6) {
	case 0:
		return stem + "[1]" + ext
	case 1:
		return stem + "*" + ext
	case 2:
		return "*" + ext
	case 3:
		return stem + "?" + ext
	case 4:
		return "[" + stem[:1] + "]" + stem[1:] + ext
	default:
		return stem + "[a-z]" + ext
	}
}

// c03GlobNear: a pattern that matches base without being base
func c03GlobNear(r *RNG, base string) string {
	ext := filepath.Ext(base)
	stem := strings.TrimSuffix(base, ext)
	if stem == "" {
		return "*" + base
	}
	k := r.Intn(len(stem))
	switch r.Intn(6) {
	case 0:
		return stem[:k] + "?" + stem[k+1:] + ext
	case 1:
		return stem[:k] + "*" + ext
	case 2:
		return "*" + ext
	case 3:
		return stem + ".*"
	case 4:
		return stem[:k] + "[" + stem[k:k+1] + "]" + stem[k+1:] + ext
	default:
		return "*"
	}
}

func c03GenTextCase(r, rq *RNG, i int) *c03TextCase {
	o := JGenOpts{MaxAccounts: r.Range(2, 6), MaxDays: r.Range(2, 9), BaseDay: 737000 + r.Intn(1500), SpanDays: Pick(r, []int{5, 40, 100, 400}),
		Prices: true, Valuation: Pick(r, []string{"CHF", "USD"}), ManyDecimals: r.Chance(1, 3), DropPrices: r.Chance(1, 12), ChainPrices: r.Chance(1, 3), DupPrices: true}
	j, tags := GenJournal(r, o)
	// a third of the journals get a quote history (c03Requote: pairs quoted in both directions, repeated values), drawn from
	// the generator rq so that the other cases stay what they were
	requoted := rq.Chance(1, 3)
	if requoted {
		tags = append(tags, c03Requote(rq, j, o.Valuation)...)
	}
	tc := &c03TextCase{Idx: i, J: j, Tags: tags, Fault: "none", Holds: "-"}
	f := GenBalFlags(r, j, o.Valuation, BalGenOpts{Valued: true, NoFilters: true})
	f.Map, f.Remap, f.Show, f.Diff, f.CSV, f.Thousands = nil, nil, nil, false, false, false
	f.Digits = 10
	f.Val = o.Valuation
	if requoted {
		c03QuoteColumns(rq, j, &f)
	}
	tc.F = f
	n := len(j.Dirs)

	// ---- which file holds which directive.  File 0 is the main file; price files first, then booking files.
	var pidx []int
	for k, d := range j.Dirs {
		if d.Kind == 'p' {
			pidx = append(pidx, k)
		}
	}
	owner := make([]int, n)
	var names []string // base names of files 1..
	isPrice := []bool{false}
	newFile := func(name string, price bool) int {
		names = append(names, name)
		isPrice = append(isPrice, price)
		return len(names)
	}
	layout := Pick(r, []string{"one", "by-age", "by-age", "by-age", "by-day", "by-commodity", "by-commodity", "in-main"})
	if len(pidx) == 0 {
		layout = "in-main"
	}
	ext := Pick(r, []string{".prices", ".knut", ".knut"})
	if layout == "by-commodity" {
		// the order between files is a schedule: a pair declared twice on one day (in either direction) must stay in one file
		type key struct {
			day  int
			a, b string
		}
		seen := map[key]string{}
		for _, k := range pidx {
			d := j.Dirs[k]
			a, b := d.Com, d.Target
			if a > b {
				a, b = b, a
			}
			if c0, ok := seen[key{d.Date, a, b}]; ok && c0 != d.Com {
				layout = "by-age"
			}
			seen[key{d.Date, a, b}] = d.Com
		}
	}
	switch layout {
	case "one":
		f := newFile("prices"+ext, true)
		for _, k := range pidx {
			owner[k] = f
		}
	case "by-age", "by-day":
		// chunks in journal order, cut between two days only
		var cuts []int // positions in pidx where a new day starts
		for q := 1; q < len(pidx); q++ {
			if j.Dirs[pidx[q]].Date != j.Dirs[pidx[q-1]].Date {
				cuts = append(cuts, q)
			}
		}
		cut := map[int]bool{}
		if layout == "by-day" {
			for _, q := range cuts {
				cut[q] = true
			}
		} else if len(cuts) > 0 {
			want := Pick(r, []int{1, 1, 2, 3})
			switch r.Intn(3) {
			case 0: // only the newest day(s) in the last file
				cut[cuts[len(cuts)-1]] = true
				want--
			case 1: // only the oldest day in the first file
				cut[cuts[0]] = true
				want--
			}
			for ; want > 0; want-- {
				cut[Pick(r, cuts)] = true
			}
		}
		f, part := 0, 0
		for q, k := range pidx {
			if q == 0 || cut[q] {
				part++
				name := fmt.Sprintf("prices-%d%s", part, ext)
				if r.Chance(1, 3) {
					name = fmtDate(j.Dirs[k].Date) + ext
				}
				f = newFile(name, true)
			}
			owner[k] = f
		}
	case "by-commodity":
		byCom := map[string]int{}
		for _, k := range pidx {
			com := j.Dirs[k].Com
			f, ok := byCom[com]
			if !ok {
				f = newFile(c03SafeName(com, len(byCom))+ext, true)
				byCom[com] = f
			}
			owner[k] = f
		}
	}
	nPrice := len(names)
	// the other directives: main file, or chunks over 1-2 further files
	if nb := Pick(r, []int{0, 0, 0, 1, 1, 2}); nb > 0 && n-len(pidx) > 1 {
		var files []int
		for b := 1; b <= nb; b++ {
			files = append(files, newFile(Pick(r, []string{"bookings", "tx", "year", "acc"})+fmt.Sprintf("%d.knut", b), false))
		}
		files = append(files, 0)
		cur := Pick(r, files)
		for k, d := range j.Dirs {
			if d.Kind == 'p' {
				continue // in-main: the prices stay in the main file (a day's declarations are never split over files)
			}
			if r.Chance(1, 4) {
				cur = Pick(r, files)
			}
			owner[k] = cur
		}
	}
	nf := len(names) + 1
	if r.Chance(1, 6) && nf > 1 { // names with glob characters in them (literal names: the tree loads)
		for f := 1; f < nf; f++ {
			if r.Chance(2, 3) {
				names[f-1] = c03GlobName(r, names[f-1])
			}
		}
		tc.Tags = append(tc.Tags, "glob-literal-names")
	}

	// ---- include tree
	parent := make([]int, nf)
	dir := make([]string, nf)
	path := make([]string, nf)
	path[0] = "main.knut"
	items := make([][]string, nf)
	tree := "flat"
	pdir := Pick(r, []string{"", "", "prices/", "data/prices/"})
	index := 0
	if nPrice >= 1 {
		tree = Pick(r, []string{"flat", "flat", "index", "chain"})
	}
	if tree == "index" { // an index file that holds nothing but includes (or a comment): it becomes file nf
		names = append(names, Pick(r, []string{"prices.knut", "all.prices", "index.knut"}))
		isPrice = append(isPrice, false)
		parent = append(parent, 0)
		dir = append(dir, "")
		path = append(path, "")
		items = append(items, nil)
		index = nf
		nf++
		if r.Bool() {
			dir[index] = pdir
		}
		path[index] = dir[index] + names[index-1]
	}
	for f := 1; f < nf; f++ {
		if f == index {
			continue
		}
		switch {
		case f <= nPrice:
			dir[f] = pdir
			switch tree {
			case "index":
				parent[f] = index
			case "chain":
				if f > 1 {
					parent[f] = f - 1
				}
			}
		default:
			parent[f] = Pick(r, []int{0, 0, 0, f - 1})
			if parent[f] <= nPrice && parent[f] != 0 {
				parent[f] = 0
			}
			dir[f] = dir[parent[f]]
			if r.Chance(1, 4) {
				dir[f] += "sub/"
			}
		}
		path[f] = dir[f] + names[f-1]
	}
	// no two files of the same path
	seenPath := map[string]bool{}
	for f := 0; f < nf; f++ {
		for seenPath[path[f]] {
			names[f-1] = "x" + names[f-1]
			path[f] = dir[f] + names[f-1]
		}
		seenPath[path[f]] = true
	}
	for k := 0; k < n; k++ {
		items[owner[k]] = append(items[owner[k]], j.Dirs[k].Text())
	}
	for f := 1; f < nf; f++ {
		if len(items[f]) == 0 && r.Bool() {
			items[f] = append(items[f], "# "+Pick(r, []string{"prices", "fetched by knut fetch", "nothing yet"})+"\n")
		}
	}
	depth := make([]int, nf)
	for f := 1; f < nf; f++ {
		g := f
		for g != 0 {
			g = parent[g]
			depth[f]++
		}
	}
	tc.Layout, tc.Tree = layout, tree

	// ---- the member that cannot be loaded
	lost := -1
	incPath := make([]string, nf) // what the include line of file f says (relative to its parent's directory)
	for f := 1; f < nf; f++ {
		incPath[f] = strings.TrimPrefix(path[f], dir[parent[f]])
		if !strings.HasPrefix(path[f], dir[parent[f]]) { // the parent sits in a sub-directory the child is not below
			incPath[f] = strings.Repeat("../", strings.Count(dir[parent[f]], "/")) + path[f]
		}
	}
	if nf > 1 && r.Chance(11, 20) {
		var cand []int
		for f := 1; f < nf; f++ {
			if isPrice[f] || f == index || r.Chance(1, 4) {
				cand = append(cand, f)
			}
		}
		if len(cand) == 0 {
			cand = append(cand, r.Range(1, nf-1))
		}
		lost = Pick(r, cand)
		switch r.Intn(3) { // the newest / the oldest price file more often
		case 0:
			if nPrice > 0 && tree != "chain" {
				lost = nPrice
			}
		case 1:
			if nPrice > 0 && r.Bool() {
				lost = 1
			}
		}
		tc.Fault = Pick(r, []string{"missing", "missing", "missing", "renamed", "renamed", "unreadable-dir", "dangling-symlink", "glob-near"})
		tc.Lost = path[lost]
		tc.Depth = depth[lost]
		// what the lost subtree holds
		sub := map[int]bool{lost: true}
		for f := 1; f < nf; f++ { // parents have smaller numbers except below the index file
			g := f
			for g != 0 && !sub[g] {
				g = parent[g]
			}
			if g != 0 {
				sub[f] = true
			}
		}
		lastIn, lastOut, firstIn := map[string]int{}, map[string]int{}, map[string]int{}
		books := false
		for k, d := range j.Dirs {
			if d.Kind != 'p' {
				books = books || sub[owner[k]]
				continue
			}
			if sub[owner[k]] {
				if _, ok := firstIn[d.Com]; !ok {
					firstIn[d.Com] = d.Date
				}
				lastIn[d.Com] = d.Date
			} else {
				lastOut[d.Com] = d.Date
			}
		}
		var hs []string
		newer, older, all := false, false, false
		for com, din := range lastIn {
			dout, ok := lastOut[com]
			switch {
			case !ok:
				all = true
			case din > dout:
				newer = true // an older price of the commodity stays declared: the stale price is at hand
			default:
				older = true
			}
		}
		if newer {
			hs = append(hs, "newer-prices")
		}
		if older {
			hs = append(hs, "older-prices")
		}
		if all {
			hs = append(hs, "all-prices-of-a-commodity")
		}
		if books {
			hs = append(hs, "bookings")
		}
		if len(hs) == 0 {
			hs = append(hs, "nothing")
		}
		tc.Holds = strings.Join(hs, "+")
	}
	if tc.Fault == "glob-near" {
		base := filepath.Base(incPath[lost])
		near := c03GlobNear(r, base)
		if near == base {
			near = "*" + base
		}
		if seenPath[dir[lost]+near] { // that IS a file of the tree
			tc.Fault = "missing"
		} else {
			incPath[lost] = strings.TrimSuffix(incPath[lost], base) + near
		}
	}
	insert := func(f int, line string) {
		at := len(items[f])
		switch r.Intn(3) {
		case 0:
			at = 0
		case 1:
			at = r.Intn(len(items[f]) + 1)
		}
		items[f] = append(items[f][:at:at], append([]string{line}, items[f][at:]...)...)
	}
	for f := 1; f < nf; f++ {
		insert(parent[f], "include \""+incPath[f]+"\"\n")
	}
	for f := 0; f < nf; f++ {
		text := strings.Join(items[f], "\n")
		op := c03DiskOp{Kind: "file", Path: path[f], Text: text}
		if f == lost {
			switch tc.Fault {
			case "missing":
				continue
			case "renamed":
				b := filepath.Base(path[f])
				e := filepath.Ext(b)
				var nb string
				switch r.Intn(6) {
				case 0:
					nb = b + ".bak"
				case 1:
					nb = b + "~"
				case 2:
					nb = strings.TrimSuffix(b, e) + Pick(r, []string{".price", ".txt", ".knut.tmp", ""})
				case 3:
					nb = strings.ToUpper(b[:1]) + strings.ToLower(b[1:])
					if nb == b {
						nb = strings.ToLower(b[:1]) + strings.ToUpper(b[1:])
					}
				case 4:
					nb = "old/" + b // moved into another directory
				default:
					nb = strings.TrimSuffix(b, e) + "-1" + e
				}
				if nb == b || nb == "" {
					nb = b + ".orig"
				}
				op.Path = dir[f] + nb
				if seenPath[op.Path] {
					continue
				}
			case "unreadable-dir":
				op = c03DiskOp{Kind: "dir", Path: path[f]}
			case "dangling-symlink":
				op = c03DiskOp{Kind: "symlink", Path: path[f], Text: "not-there.knut"}
			}
		}
		tc.Disk = append(tc.Disk, op)
		if op.Kind == "file" {
			tc.Files = append(tc.Files, c02File{Path: op.Path, Text: op.Text})
		}
	}
	return tc
}

func runC03Text(c *Ctx, bt *Batch) {
	const stream = "text"
	n := c.N(700, 8000)
	root := filepath.Join(c.WorkDir, "c03text")
	os.MkdirAll(root, 0o755)
	var cases []*c03TextCase
	for i := 0; i < n; i++ {
		if c.Want(stream, i) {
			cases = append(cases, c03GenTextCase(c.Rng(stream, i), c.Rng(stream+"+quotes", i), i))
		}
	}
	parallelFor(len(cases), 16, func(k int) {
		tc := cases[k]
		dir := filepath.Join(root, fmt.Sprintf("c%d", tc.Idx))
		os.MkdirAll(dir, 0o755)
		for _, f := range tc.Disk {
			p := filepath.Join(dir, filepath.FromSlash(f.Path))
			os.MkdirAll(filepath.Dir(p), 0o755)
			switch f.Kind {
			case "file":
				os.WriteFile(p, []byte(f.Text), 0o644)
			case "dir":
				os.MkdirAll(p, 0o755)
			case "symlink":
				os.Symlink(f.Text, p)
			}
		}
		args := append([]string{"balance"}, tc.F.Args()...)
		args = append(args, filepath.Join(dir, "main.knut"))
		tc.Code, tc.Stdout, tc.Stderr = runKnut(c.KnutBin, 20*time.Second, nil, args...)
		os.RemoveAll(dir)
	})
	for _, tc := range cases {
		tc := tc
		c.Evals++
		impl := tc.implOutcome()
		in := tc.Input()
		for _, t := range tc.Tags {
			c.Tag(t)
		}
		out := strings.Fields(impl)[0]
		c.Class(fmt.Sprintf("c03text/%s/%s/%s/%s/%s/d%d/files%d/%s", out, tc.Layout, tc.Tree, tc.Fault, tc.Holds, tc.Depth, len(tc.Disk), flagClass(tc.F)))
		c.Tag("text:" + tc.Fault + ":" + out)
		c.Tag("text-layout:" + tc.Layout + "/" + tc.Tree)
		if tc.Fault != "none" {
			c.Tag("text-lost:" + tc.Holds)
		}
		if tc.Idx < 2 {
			c.Sample(map[string]any{"args": in["args"], "disk": in["disk"], "fault": tc.Fault, "lost": tc.Lost, "exit": tc.Code, "stdout": tc.Stdout, "stderr": clip(tc.Stderr)})
		}
		if tc.Code == -2 {
			c.Tag("text:timeout")
			continue // a loaded machine; the watchdog is no verdict
		}
		var files []string
		for _, f := range tc.Files { // main.knut is always written first
			files = append(files, Hex(f.Path)+":"+Hex(f.Text))
		}
		bt.Add(func(model string) {
			if model == "unsupported" || model == "bad-op" {
				return
			}
			if !c.Compare(stream, tc.Idx, "c02text", in, impl, modelOutcomeCanon(model)) {
				f := &c.Findings[len(c.Findings)-1]
				if strings.HasPrefix(model, "ok ") {
					f.Model = clip(UnHex(strings.TrimPrefix(model, "ok ")))
				}
				f.Impl = clip(fmt.Sprintf("exit %d\n%s\n%s", tc.Code, tc.Stdout, tc.Stderr))
			}
		}, append([]string{"c02text", tc.F.Wire(today())}, files...)...)
		if tc.Fault != "none" {
			ok := tc.Code != 0 && tc.Stdout == ""
			d := ""
			if !ok {
				d = fmt.Sprintf("the include of %q cannot be loaded (%s; the lost part of the journal holds: %s), yet the command exits %d and prints values:\n%s%s",
					tc.Lost, tc.Fault, tc.Holds, tc.Code, tc.Stdout, tc.Stderr)
			}
			c.Monitor(stream, tc.Idx, "unloadable_include_is_error", in, ok, d)
			continue
		}
		if tc.Code != 0 {
			c.Tag("rejected")
			continue
		}
		c03ALMonitor(c, bt, stream, tc.Idx, in, tc.F, tc.J, tc.Stdout)
	}
}

// ---------------------------------------------------------------- stream manyfiles: valued reports over MANY included files, under schedules
//
// journal.FromPath loads the members of an include tree concurrently: one goroutine parses each file, one converts each parsed
// file into model directives, one consumer files the batches under their days.  Whether the price history the report is valued
// with is the journal's own then also depends on every batch arriving whole and once - whatever the order and the overlap in
// which the files are parsed, converted and consumed.  Stream text has 2-6 files per tree and one run per tree; here
//   the journal: as in stream text (half of them with a quote history, c03Requote), plus 0 / tens / hundreds of bulk bookings
//       (a booking of the journal repeated forth and back on its own day: positions and values unchanged);
//   the tree: 6-16 SMALL files, each starting with price declarations (the price declarations are dealt to them by day or by
//       pair, so a day's declarations of one pair stay in one file in their order) followed by none or a few of the other
//       directives, next to 0-3 LARGER files (the bulk, chunks of the other directives) and the main file; flat or behind an
//       index file, include lines first / last / in between and shuffled;
//   the runs: every tree is loaded under GOMAXPROCS 1 / 2 / 16, each with the natural schedule and with a KNUT_VERIF_SEED
//       schedule of the cpr hooks (quick 18 runs per tree, thorough 36; a replay 120).
//   monitor  shown_equals_mark_to_market / missing_price_is_error (c03ALMonitor) on the real output of EVERY accepted run (once
//       per distinct output of a tree), Spec.mtm evaluated on the union of the files (the generator's journal in wire form)
//   compare  c02text: every distinct outcome of a tree against the pipeline model on the text of the files
// (Seeded change C03-l recycled the slice a converted file is handed over in through a sync.Pool as soon as the hand-over
// returned: a file converted while the consumer was still walking the previous batch overwrote it; lost price declarations gave
// values at a stale price, exit 0.)

type c03ManyRun struct {
	Procs  int
	Sched  int
	Code   int
	Stdout string
	Stderr string
}

func (ru *c03ManyRun) env() []string {
	env := []string{fmt.Sprintf("GOMAXPROCS=%d", ru.Procs)}
	if ru.Sched != 0 {
		env = append(env, fmt.Sprintf("KNUT_VERIF_SEED=%d", ru.Sched))
	}
	return env
}

func c03GenManyCase(r, rq *RNG, i int) *c03TextCase {
	o := JGenOpts{MaxAccounts: r.Range(2, 6), MaxDays: r.Range(3, 12), BaseDay: 737000 + r.Intn(1500), SpanDays: Pick(r, []int{5, 40, 100, 400}),
		Prices: true, Valuation: Pick(r, []string{"CHF", "USD"}), ManyDecimals: r.Chance(1, 3), ChainPrices: r.Chance(1, 3), DupPrices: true, ManyPricesPerDay: r.Chance(1, 4)}
	j, tags := GenJournal(r, o)
	requoted := rq.Chance(1, 2)
	if requoted {
		tags = append(tags, c03Requote(rq, j, o.Valuation)...)
	}
	tc := &c03TextCase{Idx: i, Tags: tags, Fault: "none", Holds: "-"}
	f := GenBalFlags(r, j, o.Valuation, BalGenOpts{Valued: true, NoFilters: true})
	f.Map, f.Remap, f.Show, f.Diff, f.CSV, f.Thousands = nil, nil, nil, false, false, false
	f.Digits = 10
	f.Val = o.Valuation
	if requoted {
		c03QuoteColumns(rq, j, &f)
	}
	tc.F = f

	// ---- bulk: plain bookings of the journal repeated forth and back right after the original (same day: nothing changes)
	bulkN := Pick(r, []int{0, 0, 10, 30, 80, 200})
	var plain []int
	for k, d := range j.Dirs {
		if d.Kind == 't' && d.Accrual == nil && d.Targets == nil && len(d.Bookings) > 0 {
			plain = append(plain, k)
		}
	}
	isBulk := make([]bool, len(j.Dirs))
	if bulkN > 0 && len(plain) > 0 {
		after := map[int]int{}
		for b := 0; b < bulkN; b++ {
			after[Pick(r, plain)]++
		}
		var dirs []JDir
		isBulk = isBulk[:0]
		for k, d := range j.Dirs {
			dirs = append(dirs, d)
			isBulk = append(isBulk, false)
			for b := 0; b < after[k]; b++ {
				bk := d.Bookings[r.Intn(len(d.Bookings))]
				back := JDir{Kind: 't', Date: d.Date, Desc: fmt.Sprintf("bulk %d back", b), Bookings: []JBook{{Credit: bk.Debit, Debit: bk.Credit, Qty: bk.Qty, Com: bk.Com}}}
				forth := JDir{Kind: 't', Date: d.Date, Desc: fmt.Sprintf("bulk %d forth", b), Bookings: []JBook{bk}}
				dirs = append(dirs, back, forth)
				isBulk = append(isBulk, true, true)
			}
		}
		j.Dirs = dirs
		tc.Tags = append(tc.Tags, "bulk-bookings")
	}
	tc.J = j
	n := len(j.Dirs)

	// ---- files: 0 main, 1..nSmall small, then nBig larger ones, then (perhaps) an index file
	nSmall := r.Range(6, 16)
	nBig := Pick(r, []int{0, 1, 1, 2, 3})
	nf := 1 + nSmall + nBig
	owner := make([]int, n)
	deal := Pick(r, []string{"by-day", "by-pair"})
	keyFile := map[string]int{}
	nKeys := 0
	for k, d := range j.Dirs {
		if d.Kind != 'p' {
			continue
		}
		a, b := d.Com, d.Target
		if a > b {
			a, b = b, a
		}
		key := a + "\x00" + b
		if deal == "by-day" {
			key = itoa(d.Date)
		}
		fl, ok := keyFile[key]
		if !ok {
			// the first keys go to the small files in turn (every small file starts with prices when there are enough of them)
			fl = 1 + nKeys
			if nKeys >= nSmall {
				fl = 1 + r.Intn(nSmall)
			}
			nKeys++
			keyFile[key] = fl
		}
		owner[k] = fl
	}
	var bookFiles []int // where the other directives go: main, the larger files, a few of the small ones
	bookFiles = append(bookFiles, 0)
	for b := 0; b < nBig; b++ {
		bookFiles = append(bookFiles, 1+nSmall+b, 1+nSmall+b)
	}
	for s := r.Intn(4); s > 0; s-- {
		bookFiles = append(bookFiles, 1+r.Intn(nSmall))
	}
	bulkFile := 0
	if nBig > 0 {
		bulkFile = 1 + nSmall + r.Intn(nBig)
	}
	cur := Pick(r, bookFiles)
	for k, d := range j.Dirs {
		switch {
		case d.Kind == 'p':
		case isBulk[k]:
			owner[k] = bulkFile
			if r.Chance(1, 50) && nBig > 0 {
				bulkFile = 1 + nSmall + r.Intn(nBig)
			}
		default:
			if r.Chance(1, 4) {
				cur = Pick(r, bookFiles)
			}
			owner[k] = cur
		}
	}
	pricesFirst := !r.Chance(1, 5)
	// the price declarations of a small file: oldest day first (as fetched), or newest day first (the order inside a day kept:
	// it decides which of two declarations of a pair wins)
	newestFirst := pricesFirst && r.Bool()
	items := make([][]string, nf)
	for pass := 0; pass < 2; pass++ {
		for k := 0; k < n; k++ {
			fl := owner[k]
			isP := j.Dirs[k].Kind == 'p'
			small := fl >= 1 && fl <= nSmall && pricesFirst
			if small && isP == (pass == 0) || !small && pass == 0 {
				items[fl] = append(items[fl], j.Dirs[k].Text())
			}
		}
		if pass == 0 && newestFirst {
			for fl := 1; fl <= nSmall; fl++ {
				var days [][]string // the file's declarations so far are prices in date order: group by date, reverse the groups
				for q, it := range items[fl] {
					if q == 0 || it[:10] != items[fl][q-1][:10] {
						days = append(days, nil)
					}
					days[len(days)-1] = append(days[len(days)-1], it)
				}
				items[fl] = items[fl][:0:0]
				for q := len(days) - 1; q >= 0; q-- {
					items[fl] = append(items[fl], days[q]...)
				}
			}
		}
	}
	if newestFirst {
		tc.Tags = append(tc.Tags, "many:newest-price-first")
	}
	ext := Pick(r, []string{".prices", ".knut", ".knut"})
	pdir := Pick(r, []string{"", "", "prices/", "data/quotes/"})
	path := make([]string, nf)
	path[0] = "main.knut"
	for fl := 1; fl < nf; fl++ {
		if fl <= nSmall {
			path[fl] = fmt.Sprintf("%sq%02d%s", pdir, fl, ext)
		} else {
			path[fl] = fmt.Sprintf("%s%d.knut", Pick(r, []string{"bookings", "tx", "year"}), fl-nSmall)
		}
		if len(items[fl]) == 0 {
			items[fl] = append(items[fl], "# "+Pick(r, []string{"prices", "fetched by knut fetch", "nothing yet"})+"\n")
		}
	}
	tree := Pick(r, []string{"flat", "flat", "index"})
	parent := make([]int, nf)
	if tree == "index" { // the small files behind an index file that only includes
		path = append(path, pdir+Pick(r, []string{"all.knut", "index.knut", "quotes.knut"}))
		items = append(items, nil)
		parent = append(parent, 0)
		for fl := 1; fl <= nSmall; fl++ {
			parent[fl] = nf
		}
		nf++
	}
	order := make([]int, 0, nf)
	for fl := 1; fl < nf; fl++ {
		order = append(order, fl)
	}
	if r.Chance(2, 3) {
		for k := len(order) - 1; k > 0; k-- {
			q := r.Intn(k + 1)
			order[k], order[q] = order[q], order[k]
		}
	}
	where := r.Intn(3)
	for _, fl := range order {
		p := parent[fl]
		inc := path[fl]
		if p != 0 {
			inc = strings.TrimPrefix(inc, pdir)
		}
		line := "include \"" + inc + "\"\n"
		at := len(items[p])
		switch where {
		case 0:
			at = 0
		case 1:
			at = r.Intn(len(items[p]) + 1)
		}
		items[p] = append(items[p][:at:at], append([]string{line}, items[p][at:]...)...)
	}
	for fl := 0; fl < nf; fl++ {
		text := strings.Join(items[fl], "\n")
		tc.Disk = append(tc.Disk, c03DiskOp{Kind: "file", Path: path[fl], Text: text})
		tc.Files = append(tc.Files, c02File{Path: path[fl], Text: text})
	}
	tc.Layout, tc.Tree = "many-"+deal, tree
	tc.Tags = append(tc.Tags, fmt.Sprintf("many:small-files-%d", nSmall/4*4), fmt.Sprintf("many:larger-files-%d", nBig), fmt.Sprintf("many:bulk-%d", bulkN))
	return tc
}

func runC03Many(c *Ctx, bt *Batch) {
	const stream = "manyfiles"
	n := c.N(200, 1500)
	root := filepath.Join(c.WorkDir, "c03many")
	os.MkdirAll(root, 0o755)
	var cases []*c03TextCase
	for i := 0; i < n; i++ {
		if c.Want(stream, i) {
			cases = append(cases, c03GenManyCase(c.Rng(stream, i), c.Rng(stream+"+quotes", i), i))
		}
	}
	reps := c.N(3, 6)
	if c.Replay {
		reps = 20
	}
	runs := make([][]*c03ManyRun, len(cases))
	for k, tc := range cases {
		rs := c.Rng(stream+"+sched", tc.Idx)
		for rep := 0; rep < reps; rep++ {
			for _, p := range []int{1, 2, 16} {
				runs[k] = append(runs[k], &c03ManyRun{Procs: p}, &c03ManyRun{Procs: p, Sched: 1 + rs.Intn(1<<30)})
			}
		}
	}
	parallelFor(len(cases), 16, func(k int) {
		tc := cases[k]
		dir := filepath.Join(root, fmt.Sprintf("c%d", tc.Idx))
		os.MkdirAll(dir, 0o755)
		for _, f := range tc.Disk {
			p := filepath.Join(dir, filepath.FromSlash(f.Path))
			os.MkdirAll(filepath.Dir(p), 0o755)
			os.WriteFile(p, []byte(f.Text), 0o644)
		}
		args := append([]string{"balance"}, tc.F.Args()...)
		args = append(args, filepath.Join(dir, "main.knut"))
		for _, ru := range runs[k] {
			ru.Code, ru.Stdout, ru.Stderr = runKnut(c.KnutBin, 20*time.Second, ru.env(), args...)
		}
		os.RemoveAll(dir)
	})
	for k, tc := range cases {
		tc := tc
		for _, t := range tc.Tags {
			c.Tag(t)
		}
		var files []string
		for _, f := range tc.Files {
			files = append(files, Hex(f.Path)+":"+Hex(f.Text))
		}
		seen := map[string]bool{}
		for _, ru := range runs[k] {
			ru := ru
			c.Evals++
			tc.Code, tc.Stdout, tc.Stderr = ru.Code, ru.Stdout, ru.Stderr
			impl := tc.implOutcome()
			out := strings.Fields(impl)[0]
			c.Tag("many:" + out)
			if ru.Code == -2 {
				continue // a loaded machine; the watchdog is no verdict
			}
			if seen[impl] { // the same outcome as an earlier run of this tree: judged there
				c.Tag("many:same-outcome-under-another-schedule")
				continue
			}
			if len(seen) > 0 {
				c.Tag("many:outcome-differs-between-schedules")
			}
			seen[impl] = true
			c.Class(fmt.Sprintf("c03many/%s/%s/%s/files%d/%s", out, tc.Layout, tc.Tree, len(tc.Disk)/4*4, flagClass(tc.F)))
			in := tc.Input()
			in["GOMAXPROCS"] = ru.Procs
			in["KNUT_VERIF_SEED"] = ru.Sched
			in["note"] = "the outcome may depend on the schedule: a replay loads the tree 120 times"
			code, stdout, stderr := ru.Code, ru.Stdout, ru.Stderr
			if len(tc.J.Dirs) <= 150 || c.Thorough() || c.Replay { // (the text model on a large tree costs about a second)
				bt.Add(func(model string) {
					if model == "unsupported" || model == "bad-op" {
						return
					}
					if !c.Compare(stream, tc.Idx, "c02text", in, impl, modelOutcomeCanon(model)) {
						if f := &c.Findings[len(c.Findings)-1]; f.Kind == "disagree" && f.Stream == stream && f.Index == tc.Idx { // (not recorded beyond the cap)
							if strings.HasPrefix(model, "ok ") {
								f.Model = clip(UnHex(strings.TrimPrefix(model, "ok ")))
							}
							f.Impl = clip(fmt.Sprintf("exit %d\n%s\n%s", code, stdout, stderr))
						}
					}
				}, append([]string{"c02text", tc.F.Wire(today())}, files...)...)
			}
			if ru.Code != 0 {
				c.Tag("rejected")
				continue
			}
			c03ALMonitor(c, bt, stream, tc.Idx, in, tc.F, tc.J, ru.Stdout)
		}
	}
}
