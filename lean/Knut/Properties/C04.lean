import Knut.Proofs.Check
/-!
# C04 — check accepts exactly the well-formed journals

`Check.run` is the model of the checker processor run over the days of a journal
(`Builder.ofList ds |>.build`); `Spec.verdict strict` is the lifecycle specification.

* `C04_refines` – the checker and the *strict* specification agree on every journal: both accept, or
  both reject **naming the same directive**.
* `C04_sound` – whatever the checker accepts is well-formed in the sense of the property text.
* `C04_complete_partial` – conversely, a well-formed journal is accepted, *provided* it contains no
  non-zero assertion on an account that is not an asset/liability account.  Without that proviso the
  statement is false for the code as it is (`C04_nonAL_assertion_rejected`): the property text does not
  constrain such assertions, the code rejects them.  Recorded as a known finding.
-/
namespace Knut.C04
open Knut Knut.Spec

/-- simulation relation used for the whole run -/
def R (st : CheckState) (s : LState) : Prop := CheckRel st s ∧ OnlyAL st

theorem sim_and {x : Except CheckErr CheckState} {y : Except Directive LState}
    (h : Sim CheckRel ErrRel x y) (h2 : ∀ st', x = .ok st' → OnlyAL st') : Sim R ErrRel x y := by
  cases x with
  | error e => cases y with
    | error d => exact h
    | ok t => exact h
  | ok st => cases y with
    | error d => exact h
    | ok t => exact ⟨h, h2 st rfl⟩

theorem sim_day (st : CheckState) (s : LState) (d : Day) (h : R st s) :
    Sim R ErrRel (Check.day st d) (stepDay true s d) := by
  unfold Check.day stepDay
  apply bind_sim (R := R)
  · exact foldlM_sim R ErrRel _ _ _ (fun st s o _ hr => sim_and (sim_open st s o hr.1) (fun _ e => onlyAL_open hr.2 e)) st s h
  · intro st s h
    apply bind_sim (R := R)
    · apply foldlM_sim R ErrRel _ _ _ _ st s h
      intro st s t _ hr
      exact foldlM_sim R ErrRel _ _ _ (fun st s p _ hr => sim_and (sim_posting st s t p hr.1) (fun _ e => onlyAL_posting hr.2 e)) st s hr
    · intro st s h
      apply bind_sim (R := R)
      · apply foldlM_sim R ErrRel _ _ _ _ st s h
        intro st s a _ hr
        exact foldlM_sim R ErrRel _ _ _ (fun st s b _ hr => sim_and (sim_balance st s a b hr.1 hr.2) (fun _ e => onlyAL_balance hr.2 e)) st s hr
      · intro st s h
        exact foldlM_sim R ErrRel _ _ _ (fun st s c _ hr => sim_and (sim_close st s c hr.1) (fun _ e => onlyAL_close hr.2 e)) st s h

theorem R_init : R {} {} := by
  refine ⟨⟨rfl, ?_, ?_⟩, ?_⟩
  · intro a c; simp [AMap.get, AMap.find?, qtyOf]
  · simp [AMap.NodupKeys]
  · intro e he; simp at he

/-- **refinement**: checker and strict specification give the same verdict on every journal, and on
rejection they name the same directive. -/
theorem C04_refines (days : List Day) : Sim R ErrRel (Check.run days) (verdict true days) := by
  unfold Check.run verdict
  exact foldlM_sim R ErrRel _ _ _ (fun st s d _ hr => sim_day st s d hr) _ _ R_init

/-- accept ⇔ strict-well-formed -/
theorem C04_accept_iff_strict (days : List Day) :
    (Check.run days).isOk = (verdict true days).isOk := by
  have := C04_refines days
  cases h1 : Check.run days <;> cases h2 : verdict true days <;> rw [h1, h2] at this <;> simp_all [Sim, Except.isOk, Except.toBool]

/-- **diagnostic names the offender**: on rejection the directive in the checker's error is the first
directive the specification rejects. -/
theorem C04_names_offender (days : List Day) (e : CheckErr) (h : Check.run days = .error e) :
    verdict true days = .error e.directive := by
  have := C04_refines days
  rw [h] at this
  cases h2 : verdict true days with
  | error d => rw [h2] at this; simp only [Sim, ErrRel] at this; rw [this]
  | ok s => rw [h2] at this; exact absurd this (by simp [Sim])

/-- a successful strict step is a successful lenient step -/
theorem stepBalance_mono (s s' : LState) (a : Assertion) (b : Balance)
    (h : stepBalance true s a b = .ok s') : stepBalance false s a b = .ok s' := by
  unfold stepBalance at *
  split at h
  · cases h
  · rename_i hc
    simp only [hc, if_false]
    split at h
    · rename_i hal; simp only [hal, if_true]; exact h
    · rename_i hal
      simp only [hal]
      split at h
      · cases h
      · simpa using h

theorem foldlM_ok_mono {α σ ε : Type} (f g : σ → α → Except ε σ) (xs : List α)
    (h : ∀ s s' x, x ∈ xs → f s x = .ok s' → g s x = .ok s') :
    ∀ s s', xs.foldlM f s = .ok s' → xs.foldlM g s = .ok s' := by
  induction xs with
  | nil => intro s s' hs; simpa using hs
  | cons x rest ih =>
    intro s s' hs
    simp only [List.foldlM_cons] at hs ⊢
    cases hf : f s x with
    | error e => rw [hf] at hs; simp [bind, Except.bind] at hs
    | ok s1 =>
      rw [hf] at hs
      rw [h s s1 x List.mem_cons_self hf]
      simp only [bind, Except.bind] at hs ⊢
      exact ih (fun s s' y hy => h s s' y (List.mem_cons_of_mem _ hy)) s1 s' hs

theorem stepDay_mono (s s' : LState) (d : Day) (h : stepDay true s d = .ok s') : stepDay false s d = .ok s' := by
  unfold stepDay at *
  cases h1 : d.openings.foldlM stepOpen s with
  | error e => rw [h1] at h; simp [bind, Except.bind] at h
  | ok s1 =>
    rw [h1] at h; simp only [bind, Except.bind] at h ⊢
    cases h2 : d.transactions.foldlM (fun s t => t.postings.foldlM (fun s p => stepPosting s t p) s) s1 with
    | error e => rw [h2] at h; simp at h
    | ok s2 =>
      rw [h2] at h; simp only at h ⊢
      cases h3 : d.assertions.foldlM (fun s a => a.balances.foldlM (fun s b => stepBalance true s a b) s) s2 with
      | error e => rw [h3] at h; simp at h
      | ok s3 =>
        rw [h3] at h; simp only at h
        have := foldlM_ok_mono
          (fun s a => a.balances.foldlM (fun s b => stepBalance true s a b) s)
          (fun s a => a.balances.foldlM (fun s b => stepBalance false s a b) s) d.assertions
          (fun s s' a _ ha => foldlM_ok_mono _ _ a.balances (fun s s' b _ hb => stepBalance_mono s s' a b hb) s s' ha) s2 s3 h3
        rw [this]; exact h

/-- **soundness w.r.t. the property text**: an accepted journal is well-formed. -/
theorem C04_sound (days : List Day) (h : (Check.run days).isOk = true) : wellFormed days = true := by
  rw [C04_accept_iff_strict] at h
  unfold wellFormed
  cases hv : verdict true days with
  | error d => rw [hv] at h; simp [Except.isOk, Except.toBool] at h
  | ok s =>
    have := foldlM_ok_mono (stepDay true) (stepDay false) days (fun s s' d _ hd => stepDay_mono s s' d hd) {} s hv
    unfold verdict; rw [this]; rfl

/-- the journals on which the code and the property text cannot differ -/
def NoNonzeroNonALAssertion (days : List Day) : Prop :=
  ∀ d ∈ days, ∀ a ∈ d.assertions, ∀ b ∈ a.balances, b.account.isAL = true ∨ b.quantity = 0

theorem stepBalance_eq (s : LState) (a : Assertion) (b : Balance) (h : b.account.isAL = true ∨ b.quantity = 0) :
    stepBalance false s a b = stepBalance true s a b := by
  unfold stepBalance
  rcases h with h | h
  · simp [h]
  · simp [h]

theorem foldlM_congr' {α σ ε : Type} (f g : σ → α → Except ε σ) (xs : List α)
    (h : ∀ s x, x ∈ xs → f s x = g s x) : ∀ s, xs.foldlM f s = xs.foldlM g s := by
  induction xs with
  | nil => intro s; rfl
  | cons x rest ih =>
    intro s
    simp only [List.foldlM_cons]
    rw [h s x List.mem_cons_self]
    cases g s x with
    | error e => rfl
    | ok s1 => simp only [bind, Except.bind]; exact ih (fun s y hy => h s y (List.mem_cons_of_mem _ hy)) s1

/-- **completeness (partial)**: a well-formed journal without non-zero assertions on non-A/L accounts
is accepted.  The full statement (without the hypothesis) is false for the code, see below. -/
theorem C04_complete_partial (days : List Day) (hn : NoNonzeroNonALAssertion days)
    (h : wellFormed days = true) : (Check.run days).isOk = true := by
  rw [C04_accept_iff_strict]
  unfold wellFormed at h
  have : verdict false days = verdict true days := by
    unfold verdict
    apply foldlM_congr'
    intro s d hd
    unfold stepDay
    cases d.openings.foldlM stepOpen s with
    | error e => rfl
    | ok s1 =>
      simp only [bind, Except.bind]
      cases d.transactions.foldlM (fun s t => t.postings.foldlM (fun s p => stepPosting s t p) s) s1 with
      | error e => rfl
      | ok s2 =>
        simp only
        have : d.assertions.foldlM (fun s a => a.balances.foldlM (fun s b => stepBalance false s a b) s) s2 =
            d.assertions.foldlM (fun s a => a.balances.foldlM (fun s b => stepBalance true s a b) s) s2 := by
          apply foldlM_congr'
          intro s a ha
          apply foldlM_congr'
          intro s b hb
          exact stepBalance_eq s a b (hn d hd a ha b hb)
        rw [this]
  rw [← this]; exact h

/-! ### Witnesses -/

def acc (s : String) : Account := Account.ofName s

/-- a journal with a correct running balance on an expense account -/
def nonALJournal : List Day :=
  [{ date := 1, openings := [⟨1, ⟨["Assets", "A"]⟩⟩, ⟨1, ⟨["Expenses", "X"]⟩⟩],
     transactions := [⟨1, "t", postingBuild ⟨["Assets", "A"]⟩ ⟨["Expenses", "X"]⟩ "CHF" 5, none⟩],
     assertions := [⟨1, [⟨⟨["Expenses", "X"]⟩, 5, "CHF"⟩]⟩] }]

/-- the property text accepts it (it constrains asset/liability assertions only) … -/
theorem C04_nonAL_assertion_wellformed : wellFormed nonALJournal = true := by decide

/-- … the code rejects it: known finding `assertion-on-non-AL-account`. -/
theorem C04_nonAL_assertion_rejected : (Check.run nonALJournal).isOk = false := by decide

/-- non-vacuity: a journal with open, booking, assertion and close that both sides accept -/
def okJournal : List Day :=
  [{ date := 1, openings := [⟨1, ⟨["Assets", "A"]⟩⟩, ⟨1, ⟨["Equity", "E"]⟩⟩],
     transactions := [⟨1, "t", postingBuild ⟨["Equity", "E"]⟩ ⟨["Assets", "A"]⟩ "CHF" 5, none⟩],
     assertions := [⟨1, [⟨⟨["Assets", "A"]⟩, 5, "CHF"⟩]⟩] },
   { date := 2, transactions := [⟨2, "u", postingBuild ⟨["Assets", "A"]⟩ ⟨["Equity", "E"]⟩ "CHF" 5, none⟩],
     assertions := [⟨2, [⟨⟨["Assets", "A"]⟩, 0, "CHF"⟩]⟩], closings := [⟨2, ⟨["Assets", "A"]⟩⟩] }]

example : (Check.run okJournal).isOk = true ∧ wellFormed okJournal = true := by decide +kernel
example : NoNonzeroNonALAssertion okJournal := by
  intro d hd a ha b hb
  simp [okJournal] at hd
  rcases hd with rfl | rfl <;> simp at ha <;> subst ha <;> simp at hb <;> subst hb <;> simp [Account.isAL, Account.type?, AccountType.ofName]

end Knut.C04
