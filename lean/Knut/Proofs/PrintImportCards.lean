import Knut.Proofs.PrintImport
/-!
# C13, text level: the directives of the card and bank-account importers are `Fine`
(dates in the range of `time.Parse`, decimal amounts, transactions built by `transaction.Builder.Build`)
-/
set_option linter.unusedSimpArgs false
set_option linter.unusedVariables false
namespace Knut.Proofs.Import
open Knut Knut.Import Knut.Spec.Import Knut.FromSyntax

/-- transactions and prices only: nothing the checker could refuse once the accounts are open -/
def TxOrPrice : Directive → Prop
  | .tx _ => True
  | .price _ => True
  | _ => False

/-- `Fine`, and (if `na`) neither assertion nor open / close -/
def Fn (na : Bool) (d : Directive) : Prop := Fine d ∧ (na = true → TxOrPrice d)

def AllFn (na : Bool) (ds : List Directive) : Prop := ∀ d ∈ ds, Fn na d

theorem AllFn_nil {na : Bool} : AllFn na [] := by intro d hd; cases hd
theorem AllFn_append {na : Bool} {xs ys : List Directive} (hx : AllFn na xs) (hy : AllFn na ys) : AllFn na (xs ++ ys) := by
  intro d hd
  rcases List.mem_append.mp hd with h | h
  · exact hx d h
  · exact hy d h
theorem AllFn_cons {na : Bool} {x : Directive} {xs : List Directive} (hx : Fn na x) (hy : AllFn na xs) : AllFn na (x :: xs) := by
  intro d hd
  rcases List.mem_cons.mp hd with h | h
  · subst h; exact hx
  · exact hy d h
theorem AllFn_single {na : Bool} {x : Directive} (hx : Fn na x) : AllFn na [x] := AllFn_cons hx AllFn_nil

theorem mkTx_fn {na : Bool} (d : Int) (desc : String) (bs : List PB) (tg : Option (List Commodity)) (hd : PrintableDate d)
    (hq : ∀ b ∈ bs, IsDec b.quantity) : Fn na (mkTx d desc bs tg) :=
  ⟨⟨hd, bs, rfl, hq⟩, fun _ => trivial⟩

theorem mapRows_fn {na : Bool} {f : Rec → Res (List Directive)} (h : ∀ r ds, f r = .ok ds → AllFn na ds) :
    ∀ rs ds, mapRows f rs = .ok ds → AllFn na ds := by
  intro rs
  induction rs with
  | nil => intro ds hd; simp [mapRows] at hd; subst hd; exact AllFn_nil
  | cons r rs ih =>
    intro ds hd
    simp only [mapRows] at hd
    obtain ⟨d1, h1, hd⟩ := Res.bind_eq_ok hd
    obtain ⟨d2, h2, hd⟩ := Res.bind_eq_ok hd
    simp at hd
    subst hd
    exact AllFn_append (h r d1 h1) (ih d2 h2)

theorem dec_ofOption {s : String} {q : Rat} (h : Res.ofOption (newFromString s) = .ok q) : IsDec q :=
  isDec_newFromString (ofOption_eq_ok h)
theorem dec_ofOptionA {s : String} {q : Rat} (h : Res.ofOption (parseDecimalApos s) = .ok q) : IsDec q :=
  isDec_apos (ofOption_eq_ok h)
theorem date_dot {s : String} {z : Int} (h : Res.ofOption (Knut.Import.parseDate layoutDMYdot s) = .ok z) : PrintableDate z :=
  printable_DMYdot (ofOption_eq_ok h)

/-! ## cards -/

theorem swisscard2_fn (na : Bool) (acct : Account) (recs : List Rec) (ds : List Directive)
    (h : Swisscard2.run acct recs = .ok ds) : AllFn na ds := by
  unfold Swisscard2.run at h
  cases recs with
  | nil => cases h
  | cons hd rows =>
    simp only at h
    split at h
    · cases h
    · refine mapRows_fn ?_ rows ds h
      intro r ds h
      unfold Swisscard2.row at h
      split at h
      · cases h
      · obtain ⟨d, hd, h⟩ := Res.bind_eq_ok h
        obtain ⟨c, hc, h⟩ := Res.bind_eq_ok h
        obtain ⟨q, hq, h⟩ := Res.bind_eq_ok h
        simp at h; subst h
        exact AllFn_single (mkTx_fn _ _ _ _ (date_dot hd) (by simp [dec_ofOption hq]))

theorem swisscard_fn (na : Bool) (acct : Account) (recs : List Rec) (ds : List Directive)
    (h : Swisscard.run acct recs = .ok ds) : AllFn na ds := by
  refine mapRows_fn ?_ recs ds h
  intro r ds h
  unfold Swisscard.row at h
  split at h
  · cases h
  · obtain ⟨f0, hf0, h⟩ := Res.bind_eq_ok h
    split at h
    · simp at h; subst h; exact AllFn_nil
    · obtain ⟨f1, hf1, h⟩ := Res.bind_eq_ok h
      split at h
      · simp at h; subst h; exact AllFn_nil
      · split at h
        · cases h
        · obtain ⟨d, hd, h⟩ := Res.bind_eq_ok h
          obtain ⟨q, hq, h⟩ := Res.bind_eq_ok h
          simp at h; subst h
          exact AllFn_single (mkTx_fn _ _ _ _ (date_dot hd) (by simp [dec_ofOption hq]))

theorem supercard_amount_dec {r : Rec} {q : Rat} (h : Supercard.amount r = .ok q) : IsDec q := by
  unfold Supercard.amount at h
  split at h
  · exact dec_ofOption h
  · split at h
    · obtain ⟨q', hq', h⟩ := Res.bind_eq_ok h
      simp at h; subst h
      exact isDec_neg (dec_ofOption hq')
    · cases h

theorem supercard_fn (na : Bool) (acct : Account) (recs : List Rec) (ds : List Directive)
    (h : Supercard.run acct recs = .ok ds) : AllFn na ds := by
  unfold Supercard.run at h
  match recs, h with
  | first :: header :: rows, h =>
    simp only at h
    split at h
    · cases h
    · split at h
      · cases h
      · split at h
        · cases h
        · refine mapRows_fn ?_ rows ds h
          intro r ds h
          unfold Supercard.row at h
          obtain ⟨text, htext, h⟩ := Res.bind_eq_ok h
          split at h
          · simp at h; subst h; exact AllFn_nil
          · split at h
            · simp at h; subst h; exact AllFn_nil
            · split at h
              · cases h
              · obtain ⟨d, hd, h⟩ := Res.bind_eq_ok h
                obtain ⟨q, hq, h⟩ := Res.bind_eq_ok h
                obtain ⟨c, hc, h⟩ := Res.bind_eq_ok h
                simp at h; subst h
                exact AllFn_single (mkTx_fn _ _ _ _ (date_dot hd) (by simp [supercard_amount_dec hq]))
  | [first], h => simp only at h; split at h <;> cases h
  | [], h => cases h

theorem cumulus_amount_dec {a b : String} {q : Rat} (h : Cumulus.amount a b = .ok q) : IsDec q := by
  unfold Cumulus.amount at h
  split at h
  · obtain ⟨q', hq', h⟩ := Res.bind_eq_ok h
    simp at h; subst h
    exact isDec_neg (dec_ofOptionA hq')
  · split at h
    · obtain ⟨q', hq', h⟩ := Res.bind_eq_ok h
      simp at h; subst h
      exact dec_ofOptionA hq'
    · cases h

def PendingOK (p : Cumulus.Pending) : Prop := PrintableDate p.date ∧ IsDec p.quantity

theorem cumulus_rounding_ok {r : Rec} {p : Cumulus.Pending} (h : Cumulus.rounding r = .ok (some p)) : PendingOK p := by
  unfold Cumulus.rounding at h
  split at h
  · simp at h
  · obtain ⟨f1, hf1, h⟩ := Res.bind_eq_ok h
    split at h
    · simp at h
    · split at h
      · cases h
      · obtain ⟨d, hd, h⟩ := Res.bind_eq_ok h
        obtain ⟨q, hq, h⟩ := Res.bind_eq_ok h
        simp at h; subst h
        exact ⟨date_dot hd, cumulus_amount_dec hq⟩

theorem cumulus_booking_ok {r : Rec} {p : Cumulus.Pending} (h : Cumulus.booking r = .ok (some p)) : PendingOK p := by
  unfold Cumulus.booking at h
  split at h
  · simp at h
  · obtain ⟨f1, hf1, h⟩ := Res.bind_eq_ok h
    split at h
    · simp at h
    · split at h
      · cases h
      · obtain ⟨d, hd, h⟩ := Res.bind_eq_ok h
        obtain ⟨q, hq, h⟩ := Res.bind_eq_ok h
        simp at h; subst h
        exact ⟨date_dot hd, cumulus_amount_dec hq⟩

theorem cumulus_addComment_ok (c : String) : ∀ (ps ps' : List Cumulus.Pending), (∀ p ∈ ps, PendingOK p) →
    Cumulus.addComment c ps = some ps' → ∀ p ∈ ps', PendingOK p
  | [], _, _, h => by cases h
  | [p], ps', hp, h => by
    simp only [Cumulus.addComment, Option.some.injEq] at h
    subst h
    intro q hq
    simp only [List.mem_cons, List.not_mem_nil, or_false] at hq
    subst hq
    exact hp p List.mem_cons_self
  | p :: q :: rest, ps', hp, h => by
    simp only [Cumulus.addComment, Option.map_eq_some_iff] at h
    obtain ⟨tl, htl, rfl⟩ := h
    intro x hx
    rcases List.mem_cons.mp hx with rfl | hx
    · exact hp _ List.mem_cons_self
    · exact cumulus_addComment_ok c (q :: rest) tl (fun y hy => hp y (List.mem_cons_of_mem _ hy)) htl x hx

theorem cumulus_step_ok (ps ps' : List Cumulus.Pending) (r : Rec) (hp : ∀ p ∈ ps, PendingOK p)
    (h : Cumulus.step ps r = .ok ps') : ∀ p ∈ ps', PendingOK p := by
  unfold Cumulus.step at h
  obtain ⟨o, ho, h⟩ := Res.bind_eq_ok h
  cases o with
  | some p =>
    simp at h; subst h
    intro x hx
    rcases List.mem_append.mp hx with hx | hx
    · exact hp x hx
    · simp only [List.mem_cons, List.not_mem_nil, or_false] at hx
      subst hx; exact cumulus_rounding_ok ho
  | none =>
    simp only at h
    split at h
    · exact cumulus_addComment_ok _ ps ps' hp (ofOption_eq_ok h)
    · obtain ⟨o2, ho2, h⟩ := Res.bind_eq_ok h
      cases o2 with
      | some p =>
        simp at h; subst h
        intro x hx
        rcases List.mem_append.mp hx with hx | hx
        · exact hp x hx
        · simp only [List.mem_cons, List.not_mem_nil, or_false] at hx
          subst hx; exact cumulus_booking_ok ho2
      | none => simp at h; subst h; exact hp

theorem cumulus_steps_ok : ∀ (rs : List Rec) (ps ps' : List Cumulus.Pending), (∀ p ∈ ps, PendingOK p) →
    Cumulus.steps ps rs = .ok ps' → ∀ p ∈ ps', PendingOK p
  | [], ps, ps', hp, h => by simp [Cumulus.steps] at h; subst h; exact hp
  | r :: rs, ps, ps', hp, h => by
    simp only [Cumulus.steps] at h
    obtain ⟨ps1, h1, h⟩ := Res.bind_eq_ok h
    exact cumulus_steps_ok rs ps1 ps' (cumulus_step_ok ps ps1 r hp h1) h

theorem cumulus_fn (na : Bool) (acct : Account) (recs : List Rec) (ds : List Directive)
    (h : Cumulus.run acct recs = .ok ds) : AllFn na ds := by
  unfold Cumulus.run at h
  obtain ⟨ps, hps, h⟩ := Res.bind_eq_ok h
  simp at h; subst h
  have hok := cumulus_steps_ok recs [] ps (fun p hp => by cases hp) hps
  intro d hd
  simp only [List.mem_map] at hd
  obtain ⟨p, hp, rfl⟩ := hd
  unfold Cumulus.toTx
  exact mkTx_fn _ _ _ _ (hok p hp).1 (by simp [(hok p hp).2])

/-! ## bank accounts -/

theorem postfinance_amount_dec {a b : String} {q : Rat} (h : Postfinance.amount a b = .ok q) : IsDec q := by
  unfold Postfinance.amount at h
  split at h
  · exact dec_ofOptionA h
  · split at h
    · exact dec_ofOptionA h
    · cases h

theorem postfinance_fn (na : Bool) (acct : Account) (recs : List Rec) (ds : List Directive)
    (h : Postfinance.run acct recs = .ok ds) : AllFn na ds := by
  have hb : ∀ (cur : Commodity) (rs : List Rec) (ds : List Directive) (rest : List Rec),
      Postfinance.bookings acct cur rs = .ok (ds, rest) → AllFn na ds := by
    intro cur rs
    induction rs with
    | nil => intro ds rest h; simp [Postfinance.bookings] at h
    | cons r rs ih =>
      intro ds rest h
      unfold Postfinance.bookings at h
      split at h
      · simp at h
        obtain ⟨h2, _⟩ := h
        subst h2; exact AllFn_nil
      · obtain ⟨d, hd, h⟩ := Res.bind_eq_ok h
        obtain ⟨q, hq, h⟩ := Res.bind_eq_ok h
        obtain ⟨⟨ds', rest'⟩, hrec, h⟩ := Res.bind_eq_ok h
        simp at h
        obtain ⟨h2, _⟩ := h
        subst h2
        exact AllFn_cons (mkTx_fn _ _ _ _ (date_dot hd) (by simp [postfinance_amount_dec hq])) (ih _ _ hrec)
  unfold Postfinance.run at h
  obtain ⟨⟨o, rest⟩, hkv, h⟩ := Res.bind_eq_ok h
  obtain ⟨c, hc, h⟩ := Res.bind_eq_ok h
  obtain ⟨⟨ds', rest'⟩, hbk, h⟩ := Res.bind_eq_ok h
  simp only at h hc hbk
  split at h
  · simp at h
    subst h
    exact hb c _ _ _ hbk
  · cases h

theorem date_ymd10 {s : String} {z : Int} (h : parseDatePrefix10 layoutYMD s = .ok z) : PrintableDate z :=
  printable_prefix10 rfl rfl h

/-- `revolut2` emits balance assertions (`na = false`) -/
theorem revolut2_fn (acct fee : Account) (recs : List Rec) (ds : List Directive)
    (h : Revolut2.run acct fee recs = .ok ds) : AllFn false ds := by
  have hrow : ∀ (r : Rec) (t : Directive) (k : Int × Commodity) (bal : Rat),
      Revolut2.row acct fee r = .ok (some (t, k, bal)) → Fn false t ∧ PrintableDate k.1 ∧ IsDec bal := by
    intro r t k bal h
    unfold Revolut2.row at h
    split at h
    · cases h
    · split at h
      · simp at h
      · obtain ⟨d, hd, h⟩ := Res.bind_eq_ok h
        obtain ⟨c, hc, h⟩ := Res.bind_eq_ok h
        obtain ⟨q, hq, h⟩ := Res.bind_eq_ok h
        obtain ⟨f, hf', h⟩ := Res.bind_eq_ok h
        obtain ⟨b, hb, h⟩ := Res.bind_eq_ok h
        simp at h
        obtain ⟨h1, h2, h3⟩ := h
        subst h1 h2 h3
        refine ⟨mkTx_fn _ _ _ _ (date_ymd10 hd) ?_, date_ymd10 hd, dec_ofOption hb⟩
        intro x hx
        simp only [List.mem_cons] at hx
        rcases hx with rfl | hx
        · exact dec_ofOption hq
        · split at hx
          · cases hx
          · simp only [List.mem_cons, List.not_mem_nil, or_false] at hx
            subst hx; exact dec_ofOption hf'
  let EOK := fun (e : (Int × Commodity) × Rat) => PrintableDate e.1.1 ∧ IsDec e.2
  have hset : ∀ (m : List ((Int × Commodity) × Rat)) (k : Int × Commodity) (v : Rat), (∀ e ∈ m, EOK e) → EOK (k, v) →
      ∀ e ∈ Revolut2.setBalance m k v, EOK e := by
    intro m k v
    induction m with
    | nil => intro _ hk e he; simp [Revolut2.setBalance] at he; subst he; exact hk
    | cons x m ih =>
      intro hm hk e he
      obtain ⟨k', v'⟩ := x
      unfold Revolut2.setBalance at he
      split at he
      · simp only [List.mem_cons] at he
        rcases he with he | he
        · subst he; exact hk
        · exact hm e (by simp [he])
      · simp only [List.mem_cons] at he
        rcases he with he | he
        · subst he; exact hm _ (by simp)
        · exact ih (fun e he => hm e (by simp [he])) hk e he
  have hrows : ∀ (rs : List Rec) (m m' : List ((Int × Commodity) × Rat)) (ds : List Directive), (∀ e ∈ m, EOK e) →
      Revolut2.rows acct fee m rs = .ok (ds, m') → AllFn false ds ∧ ∀ e ∈ m', EOK e := by
    intro rs
    induction rs with
    | nil => intro m m' ds hm h; simp [Revolut2.rows] at h; obtain ⟨h1, h2⟩ := h; subst h1 h2; exact ⟨AllFn_nil, hm⟩
    | cons r rs ih =>
      intro m m' ds hm h
      unfold Revolut2.rows at h
      obtain ⟨o, ho, h⟩ := Res.bind_eq_ok h
      cases o with
      | none => exact ih _ _ _ hm h
      | some x =>
        obtain ⟨t, k, bal⟩ := x
        simp only at h
        obtain ⟨⟨ds', m''⟩, hrec, h⟩ := Res.bind_eq_ok h
        simp at h
        obtain ⟨h1, h2⟩ := h
        subst h1 h2
        obtain ⟨hw, hk, hbal⟩ := hrow r t k bal ho
        obtain ⟨i1, i2⟩ := ih _ _ _ (hset m k bal hm ⟨hk, hbal⟩) hrec
        exact ⟨AllFn_cons hw i1, i2⟩
  have hins : ∀ (e : (Int × Commodity) × Rat) (l : List ((Int × Commodity) × Rat)), ∀ x ∈ Revolut2.insertKey e l, x = e ∨ x ∈ l := by
    intro e l
    induction l with
    | nil => intro x hx; simp [Revolut2.insertKey] at hx; exact Or.inl hx
    | cons y l ih =>
      intro x hx
      unfold Revolut2.insertKey at hx
      split at hx
      · simp only [List.mem_cons] at hx
        rcases hx with hx | hx | hx
        · exact Or.inl hx
        · exact Or.inr (by simp [hx])
        · exact Or.inr (by simp [hx])
      · simp only [List.mem_cons] at hx
        rcases hx with hx | hx
        · exact Or.inr (by simp [hx])
        · rcases ih x hx with h | h
          · exact Or.inl h
          · exact Or.inr (by simp [h])
  have hsort : ∀ (m : List ((Int × Commodity) × Rat)), ∀ x ∈ Revolut2.sortKeys m, x ∈ m := by
    intro m
    induction m with
    | nil => intro x hx; simp [Revolut2.sortKeys] at hx
    | cons y m ih =>
      intro x hx
      simp only [Revolut2.sortKeys, List.foldr_cons] at hx
      rcases hins y _ x hx with h | h
      · simp [h]
      · exact List.mem_cons_of_mem _ (ih x h)
  unfold Revolut2.run at h
  cases recs with
  | nil => cases h
  | cons hdr rs =>
    simp only at h
    split at h
    · cases h
    · split at h
      · cases h
      · obtain ⟨⟨ds', m⟩, hr, h⟩ := Res.bind_eq_ok h
        simp at h; subst h
        obtain ⟨h1, h2⟩ := hrows rs [] m ds' (fun e he => by cases he) hr
        refine AllFn_append h1 ?_
        intro d hd
        simp only [List.mem_map] at hd
        obtain ⟨e, he, rfl⟩ := hd
        have := h2 e (hsort m e he)
        refine ⟨⟨this.1, ?_⟩, fun h => by cases h⟩
        intro b hb
        simp only [List.mem_cons, List.not_mem_nil, or_false] at hb
        subst hb; exact this.2

theorem date_dmony {s : String} {z : Int} (h : Res.ofOption (Knut.Import.parseDate layoutDMonY s) = .ok z) : PrintableDate z :=
  printable_DMonY (ofOption_eq_ok h)

/-- `revolut` emits the day's balance at each change of date (`na = false`) -/
theorem revolut_fn (acct : Account) (recs : List Rec) (ds : List Directive)
    (h : Revolut.run acct recs = .ok ds) : AllFn false ds := by
  have hcombi : ∀ (f : String) (c : Commodity) (a : Rat), Revolut.combi f = .ok (c, a) → IsDec a := by
    intro f c a h
    unfold Revolut.combi at h
    split at h
    · obtain ⟨c1, hc1, h⟩ := Res.bind_eq_ok h
      obtain ⟨a1, ha1, h⟩ := Res.bind_eq_ok h
      simp at h
      rw [← h.2]; exact dec_ofOptionA ha1
    · cases h
  have hrow : ∀ (cur : Commodity) (n : Nat) (prev : Int) (r : Rec) (d : Int) (ds : List Directive),
      Revolut.row acct cur n prev r = .ok (d, ds) → AllFn false ds := by
    intro cur n prev r d ds h
    unfold Revolut.row at h
    split at h
    · cases h
    · split at h
      · cases h
      · obtain ⟨d', hd, h⟩ := Res.bind_eq_ok h
        obtain ⟨as, has, h⟩ := Res.bind_eq_ok h
        obtain ⟨q, hq, h⟩ := Res.bind_eq_ok h
        have hdate := date_dmony hd
        have has' : AllFn false as := by
          split at has
          · obtain ⟨b, hb, has⟩ := Res.bind_eq_ok has
            simp at has; subst has
            refine AllFn_single ⟨⟨hdate, ?_⟩, fun h => by cases h⟩
            intro x hx
            simp only [List.mem_cons, List.not_mem_nil, or_false] at hx
            subst hx; exact dec_ofOptionA hb
          · simp at has; subst has; exact AllFn_nil
        have hq' : IsDec q := by
          split at hq
          · obtain ⟨q', hq', hq⟩ := Res.bind_eq_ok hq
            simp at hq; subst hq
            exact isDec_neg (dec_ofOptionA hq')
          · split at hq
            · exact dec_ofOptionA hq
            · cases hq
        simp only at h
        split at h
        · obtain ⟨⟨oc, oq⟩, hco, h⟩ := Res.bind_eq_ok h
          simp at h
          obtain ⟨_, h2⟩ := h
          subst h2
          have := hcombi _ _ _ hco
          exact AllFn_append has' (AllFn_single (mkTx_fn _ _ _ _ hdate (by simp [hq', this])))
        · split at h
          · obtain ⟨⟨oc, oq⟩, hco, h⟩ := Res.bind_eq_ok h
            simp at h
            obtain ⟨_, h2⟩ := h
            subst h2
            have := isDec_neg (hcombi _ _ _ hco)
            exact AllFn_append has' (AllFn_single (mkTx_fn _ _ _ _ hdate (by simp [hq', this])))
          · simp at h
            obtain ⟨_, h2⟩ := h
            subst h2
            exact AllFn_append has' (AllFn_single (mkTx_fn _ _ _ _ hdate (by simp [hq'])))
  have hrows : ∀ (cur : Commodity) (n : Nat) (rs : List Rec) (prev : Int) (ds : List Directive),
      Revolut.rows acct cur n prev rs = .ok ds → AllFn false ds := by
    intro cur n rs
    induction rs with
    | nil => intro prev ds h; simp [Revolut.rows] at h; subst h; exact AllFn_nil
    | cons r rs ih =>
      intro prev ds h
      unfold Revolut.rows at h
      obtain ⟨⟨d, ds1⟩, hr, h⟩ := Res.bind_eq_ok h
      obtain ⟨ds2, hrec, h⟩ := Res.bind_eq_ok h
      simp at h; subst h
      exact AllFn_append (hrow cur n prev r d ds1 hr) (ih d ds2 hrec)
  unfold Revolut.run at h
  cases recs with
  | nil => cases h
  | cons hd rs =>
    simp only at h
    split at h
    · cases h
    · split at h
      · cases h
      · obtain ⟨c, hc, h⟩ := Res.bind_eq_ok h
        exact hrows c 9 rs 0 ds h

theorem wise_fn (na : Bool) (acct feeAcct trading : Account) (recs : List Rec) (ds : List Directive)
    (h : Wise.run acct feeAcct trading recs = .ok ds) : AllFn na ds := by
  have hfee : ∀ (amount currency : String) (ps : List PB), Wise.fee acct feeAcct amount currency = .ok ps →
      ∀ b ∈ ps, IsDec b.quantity := by
    intro amount currency ps h
    unfold Wise.fee at h
    split at h
    · split at h
      · cases h
      · rename_i a ha
        split at h
        · simp at h; subst h; simp
        · obtain ⟨c, hc, h⟩ := Res.bind_eq_ok h
          simp at h; subst h
          simp [isDec_newFromString ha]
    · simp at h; subst h; simp
  unfold Wise.run at h
  cases recs with
  | nil => cases h
  | cons hd rs =>
    simp only at h
    split at h
    · cases h
    · split at h
      · cases h
      · refine mapRows_fn ?_ rs ds h
        intro r ds h
        unfold Wise.row at h
        split at h
        · cases h
        · obtain ⟨d, hd, h⟩ := Res.bind_eq_ok h
          have hdate := date_ymd10 hd
          split at h
          · simp at h; subst h; exact AllFn_nil
          · obtain ⟨f1, hf1, h⟩ := Res.bind_eq_ok h
            obtain ⟨f2, hf2, h⟩ := Res.bind_eq_ok h
            obtain ⟨sa, hsa, h⟩ := Res.bind_eq_ok h
            obtain ⟨ta, hta, h⟩ := Res.bind_eq_ok h
            obtain ⟨sc, hsc, h⟩ := Res.bind_eq_ok h
            obtain ⟨tc, htc, h⟩ := Res.bind_eq_ok h
            have p1 := hfee _ _ _ hf1
            have p2 := hfee _ _ _ hf2
            have dsa := dec_ofOption hsa
            have dta := dec_ofOption hta
            have pb2 : ∀ (x y : PB), IsDec x.quantity → IsDec y.quantity → ∀ b ∈ f1 ++ (f2 ++ [x, y]), IsDec b.quantity := by
              intro x y hx hy b hb
              simp only [List.mem_append, List.mem_cons, List.not_mem_nil, or_false] at hb
              rcases hb with hb | hb | hb | hb
              · exact p1 b hb
              · exact p2 b hb
              · subst hb; exact hx
              · subst hb; exact hy
            have pb1 : ∀ (x : PB), IsDec x.quantity → ∀ b ∈ f1 ++ (f2 ++ [x]), IsDec b.quantity := by
              intro x hx b hb
              simp only [List.mem_append, List.mem_cons, List.not_mem_nil, or_false] at hb
              rcases hb with hb | hb | hb
              · exact p1 b hb
              · exact p2 b hb
              · subst hb; exact hx
            have hconv : ∀ desc, Fn na (mkTx d desc (f1 ++ (f2 ++ [⟨acct, trading, sc, sa⟩, ⟨trading, acct, tc, ta⟩]))) :=
              fun desc => mkTx_fn _ _ _ _ hdate (pb2 _ _ dsa dta)
            simp only at h
            split at h
            · split at h
              · simp at h; subst h
                exact AllFn_cons (hconv _) (AllFn_single (mkTx_fn _ _ _ _ hdate (by simp [dta])))
              · split at h
                · simp at h; subst h
                  exact AllFn_cons (hconv _) (AllFn_single (mkTx_fn _ _ _ _ hdate (by simp [dta])))
                · split at h
                  · simp at h; subst h
                    exact AllFn_single (hconv _)
                  · cases h
            · split at h
              · simp at h; subst h
                exact AllFn_single (mkTx_fn _ _ _ _ hdate (pb1 _ dsa))
              · split at h
                · simp at h; subst h
                  exact AllFn_single (mkTx_fn _ _ _ _ hdate (pb1 _ dsa))
                · split at h
                  · simp at h; subst h; exact AllFn_nil
                  · cases h

theorem viac_fn (na : Bool) (com : Commodity) (fromDay : Int) : ∀ (es : List (String × String)) (ds : List Directive),
    Viac.run com fromDay es = .ok ds → AllFn na ds := by
  intro es
  induction es with
  | nil => intro ds h; simp [Viac.run] at h; subst h; exact AllFn_nil
  | cons e es ih =>
    intro ds h
    unfold Viac.run at h
    obtain ⟨d1, h1, h⟩ := Res.bind_eq_ok h
    obtain ⟨d2, h2, h⟩ := Res.bind_eq_ok h
    simp at h; subst h
    refine AllFn_append ?_ (ih d2 h2)
    unfold Viac.entry at h1
    obtain ⟨d, hd, h1⟩ := Res.bind_eq_ok h1
    split at h1
    · simp at h1; subst h1; exact AllFn_nil
    · obtain ⟨v, hv, h1⟩ := Res.bind_eq_ok h1
      split at h1
      · simp at h1; subst h1; exact AllFn_nil
      · simp at h1; subst h1
        exact AllFn_single ⟨⟨printable_YMD (ofOption_eq_ok hd), isDec_round _ _⟩, fun _ => trivial⟩

end Knut.Proofs.Import
