import Knut.Basic.Date
/-!
# Model of `lib/common/date` (StartOf, EndOf, Period, NewPartition, Align)
-/
namespace Knut
open Knut.Date

inductive Interval | once | daily | weekly | monthly | quarterly | yearly
  deriving DecidableEq, Repr, Inhabited

/-- `date.StartOf` -/
def startOf (z : Int) : Interval → Int
  | .once => z
  | .daily => z
  | .weekly => z - (weekday z + 6) % 7
  | .monthly => ofCivil (year z) (month z) 1
  | .quarterly => ofCivil (year z) ((month z - 1) / 3 * 3 + 1) 1
  | .yearly => ofCivil (year z) 1 1

/-- `date.EndOf`. Monthly is `StartOf(d, Monthly).AddDate(0, 1, -1)`, i.e. Go's
`Date(y, m+1, 0)`; quarterly is `StartOf(d, Quarterly).AddDate(0, 3, 0).AddDate(0, 0, -1)`. -/
def endOf (z : Int) : Interval → Int
  | .once => z
  | .daily => z
  | .weekly => z + (7 - weekday z) % 7
  | .monthly => ofCivil (year z) (month z + 1) 0
  | .quarterly => ofCivil (year z) ((month z - 1) / 3 * 3 + 1 + 3) 1 - 1
  | .yearly => ofCivil (year z) 12 31

structure Period where
  start : Int
  stop : Int
  deriving DecidableEq, Repr, Inhabited

/-- `Period.Clip` -/
def Period.clip (p p2 : Period) : Period :=
  { start := if p2.start > p.start then p2.start else p.start,
    stop := if p2.stop < p.stop then p2.stop else p.stop }

/-- `Period.Contains` -/
def Period.contains (p : Period) (t : Int) : Bool := !(t < p.start) && !(t > p.stop)

def clampStart (s a : Int) : Int := if s < a then a else s

theorem cumDays_mono (leap : Bool) : ∀ a b : Fin 14, a ≤ b → cumDays leap a.val ≤ cumDays leap b.val := by
  cases leap <;> decide +kernel

theorem ofCivil_first_le (z : Int) (m : Int) (h1 : 1 ≤ m) (h2 : m ≤ month z) :
    ofCivil (year z) m 1 ≤ z := by
  have ⟨_, h12⟩ := month_bounds z
  have hz := ofCivil_toCivil z
  have hd := day_pos z
  have e1 : (month z - 1) / 12 = 0 := by omega
  have e2 : (month z - 1) % 12 + 1 = month z := by omega
  have e3 : (m - 1) / 12 = 0 := by omega
  have e4 : (m - 1) % 12 + 1 = m := by omega
  have hm := cumDays_mono (isLeap (year z)) ⟨m.toNat, by omega⟩ ⟨(month z).toNat, by omega⟩ (by
    show m.toNat ≤ (month z).toNat; omega)
  have c1 : ((m.toNat : Nat) : Int) = m := by omega
  have c2 : (((month z).toNat : Nat) : Int) = month z := by omega
  simp only [c1, c2] at hm
  unfold ofCivil at hz ⊢
  simp only [e1, e2, e3, e4, Int.add_zero] at hz ⊢
  omega

theorem startOf_le (z : Int) (iv : Interval) : startOf z iv ≤ z := by
  have ⟨h1, h12⟩ := month_bounds z
  cases iv <;> simp only [startOf]
  · omega
  · omega
  · have := weekday_bounds z; omega
  · exact ofCivil_first_le z _ h1 (Int.le_refl _)
  · exact ofCivil_first_le z _ (by omega) (by omega)
  · exact ofCivil_first_le z 1 (by omega) h1

/-- the loop of `NewPartition`, newest period first (before the final reversal) -/
def partLoop (a : Int) (iv : Interval) (last : Int) (e c : Int) : List Period :=
  if h : e < a ∨ (c ≥ last ∧ last > 0) then []
  else
    let s := clampStart (startOf e iv) a
    ⟨s, e⟩ :: partLoop a iv last (s - 1) (c + 1)
termination_by (e - a + 1).toNat
decreasing_by
  have := startOf_le e iv
  simp only [clampStart]
  split <;> omega

structure Partition where
  span : Period
  interval : Interval
  periods : List Period   -- oldest first
  deriving Repr

inductive Outcome (α : Type) where
  | ok : α → Outcome α
  | panic : String → Outcome α
  deriving Repr

/-- the period list built by `NewPartition` (oldest first) -/
def periodsOf (span : Period) (iv : Interval) (last : Int) : List Period :=
  if iv = .once then [span] else (partLoop span.start iv last span.stop 0).reverse

/-- `date.NewPartition`; `zero` is the day number of Go's zero `time.Time` (0001-01-01). -/
def newPartition (span : Period) (iv : Interval) (last : Int) : Outcome Partition :=
  if span.start = 0 then .panic "can't create partition with zero time"
  else
    .ok { span := span, interval := iv, periods := periodsOf span iv last }

def Partition.contains (p : Partition) (d : Int) : Bool := p.span.contains d
def Partition.size (p : Partition) : Nat := p.periods.length
def Partition.startDates (p : Partition) : List Int := p.periods.map (·.start)
def Partition.endDates (p : Partition) : List Int := p.periods.map (·.stop)

/-- `Partition.Align`: end of the first period whose end is not before `d`;
`none` stands for the zero `time.Time`. -/
def alignIn (ps : List Period) (d : Int) : Option Int :=
  (ps.find? (fun p => !(p.stop < d))).map (·.stop)

def Partition.align (p : Partition) (d : Int) : Option Int := alignIn p.periods d

end Knut
