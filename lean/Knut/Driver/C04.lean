import Knut.Driver.JournalWire
import Knut.Model.Check
import Knut.Spec.Lifecycle
/-! Driver ops for C04: the checker model and the lifecycle specification on wire journals. -/
namespace Knut.Driver.C04
open Knut Knut.Wire Knut.Driver

/-- model directives of a raw journal; `none` when it uses a feature this op does not model (accruals) -/
def toDirectives (raw : List RawDirective) : Option (List Directive) :=
  raw.mapM (fun d => match d with
    | .price p => some (Directive.price p)
    | .opening o => some (.opening o)
    | .closing c => some (.closing c)
    | .assertion a => some (.assertion a)
    | .tx date desc tg none bks => some (.tx (plainTx date desc tg bks))
    | .tx _ _ _ (some _) _ => none)

def kindName : CheckErrKind → String
  | .alreadyOpen => "already-open" | .notOpen => "not-open"
  | .failedAssertion => "failed-assertion" | .nonzeroPosition => "nonzero-position"

def indexOfDir (ds : List Directive) (d : Directive) : Nat := (ds.findIdx (· == d))

def hasNonzeroNonALAssertion (ds : List Directive) : Bool :=
  ds.any (fun d => match d with
    | .assertion a => a.balances.any (fun b => !b.account.isAL && b.quantity ≠ 0)
    | _ => false)

def handle (fields : List String) : Option String :=
  match fields with
  | ["check", j] => some (
    match (parseJournal j).bind toDirectives with
    | none => "unsupported"
    | some ds =>
      let days := (Builder.ofList ds).build
      match Check.run days with
      | .ok _ => "ok"
      | .error e => s!"error {kindName e.kind} {indexOfDir ds e.directive}")
  | ["c04mon", j, verdict, offender] => some (
    -- property predicate on the implementation's verdict: accepted ⇔ well-formed (lenient spec), and the
    -- named directive is the specification's offender
    match (parseJournal j).bind toDirectives with
    | none => "unsupported"
    | some ds =>
      let days := (Builder.ofList ds).build
      let lenient := Spec.verdict false days
      let strict := Spec.verdict true days
      let toks := splitOn j '|'
      -- the named directive is compared as a wire token, so that identical duplicates count as the same
      let sameDir (i : Nat) (d : Directive) : Bool := toks[i]? == toks[indexOfDir ds d]?
      let agrees (v : Except Directive Spec.LState) : Bool :=
        match v with
        | .ok _ => verdict == "ok"
        | .error d => verdict == "error" && (match offender.toNat? with | some i => sameDir i d | none => offender == "-")
      if agrees lenient then "ok"
      else if agrees strict && hasNonzeroNonALAssertion ds then "known assertion-on-non-AL-account"
      else
        match lenient with
        | .ok _ => "fail spec=ok"
        | .error d => s!"fail spec=error {indexOfDir ds d}")
  | _ => none

end Knut.Driver.C04
