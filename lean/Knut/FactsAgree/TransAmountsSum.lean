import Knut.Generated.TransAmounts
import Knut.Proofs.ReportPerm
import Knut.FactsAgree.TransPosting
/-!
# The translated `lib/amounts` (sums, clones, key sets, key mappers) agrees with what the report model computes

`Knut/Generated/TransAmounts.lean` is regenerated from /repo on every run.  `amounts.Amounts` is a Go map
`Key → decimal`; the translation is an association list (`AMap Key Rat`), and every `range` over such a map takes the
ITERATION ORDER as an explicit list argument.  The theorems below hold for every order that is a permutation of the
map's keys (sums: each key exactly once) or merely reaches all keys (idempotent bodies: `Clone`, the deletion loop of
`SumIntoBy`, the key sets); results that are maps are characterised by EVERY LOOKUP (`AMap.find?`), which is all the
report code observes of them, together with `WF` (no key twice), which every map built by the translated code has.

Model side: `BalanceReport.sumAmounts` (a sum over report inserts), and — through the log of inserts
`amountsOf` — the per-key sums that `BalanceReport.cellAt` and `valsCommodities` are made of.

Modelling assumption made explicit by the translation: map arguments are VALUES, i.e. `SumIntoBy`'s `dest`, `Plus`'s and
`Minus`'s `other` are not the receiver map itself (Go leaves insertion during iteration unspecified).
-/
namespace Knut.FactsAgree.TransAmountsSum
open Knut Knut.GoSem
open Knut.Generated.Go
open Knut.ReportPerm (sum_perm)

/-! ## association lists -/
section amap
variable {κ ν : Type} [DecidableEq κ]

/-- no key occurs twice (every map the translated code builds from `[]` by `set`/`erase`) -/
def WF (m : AMap κ ν) : Prop := (AMap.keys m).Nodup

omit [DecidableEq κ] in
theorem wf_nil : WF ([] : AMap κ ν) := List.nodup_nil

theorem find?_isSome (m : AMap κ ν) (k : κ) : (AMap.find? m k).isSome = decide (k ∈ AMap.keys m) := by
  induction m with
  | nil => simp [AMap.find?, AMap.keys]
  | cons e rest ih =>
    obtain ⟨a, b⟩ := e
    by_cases h : a = k
    · simp [AMap.find?, AMap.keys, h]
    · have h' : ¬ k = a := fun e => h e.symm
      simp only [AMap.find?, h, if_false, ih, AMap.keys, List.map_cons, List.mem_cons, h', false_or]
      exact decide_eq_decide.mpr Iff.rfl

theorem find?_eq_none (m : AMap κ ν) (k : κ) : AMap.find? m k = none ↔ k ∉ AMap.keys m := by
  have := find?_isSome m k
  cases h : AMap.find? m k <;> simp_all

theorem mem_keys_of_find? {m : AMap κ ν} {k : κ} {v : ν} (h : AMap.find? m k = some v) : k ∈ AMap.keys m := by
  have := find?_isSome m k
  simp_all

theorem keys_set (m : AMap κ ν) (k : κ) (v : ν) :
    AMap.keys (AMap.set m k v) = if k ∈ AMap.keys m then AMap.keys m else AMap.keys m ++ [k] := by
  induction m with
  | nil => simp [AMap.set, AMap.keys]
  | cons e rest ih =>
    obtain ⟨a, b⟩ := e
    by_cases h : a = k
    · simp [AMap.set, AMap.keys, h]
    · have h' : ¬ k = a := fun e => h e.symm
      simp only [AMap.set, h, if_false, AMap.keys, List.map_cons, List.mem_cons, h', false_or] at ih ⊢
      rw [ih]; split <;> simp_all

theorem mem_keys_set (m : AMap κ ν) (k : κ) (v : ν) (x : κ) :
    x ∈ AMap.keys (AMap.set m k v) ↔ x = k ∨ x ∈ AMap.keys m := by
  rw [keys_set]; split
  · constructor
    · exact Or.inr
    · rintro (h | h)
      · subst h; assumption
      · exact h
  · simp [or_comm]

theorem wf_set {m : AMap κ ν} (h : WF m) (k : κ) (v : ν) : WF (AMap.set m k v) := by
  unfold WF at *; rw [keys_set]; split
  · exact h
  · rename_i hk
    exact List.nodup_append.mpr ⟨h, by simp, by intro a ha b hb; simp at hb; subst hb; exact fun e => hk (e ▸ ha)⟩

theorem keys_erase (m : AMap κ ν) (k : κ) : AMap.keys (AMap.erase m k) = (AMap.keys m).filter (fun x => !decide (x = k)) := by
  induction m with
  | nil => rfl
  | cons e rest ih =>
    obtain ⟨a, b⟩ := e
    by_cases h : a = k
    · simp only [AMap.erase, h, if_true, AMap.keys, List.map_cons] at ih ⊢; simp [ih]
    · simp only [AMap.erase, h, if_false, AMap.keys, List.map_cons] at ih ⊢
      rw [ih]; simp [h]

theorem wf_erase {m : AMap κ ν} (h : WF m) (k : κ) : WF (AMap.erase m k) := by
  unfold WF at *; rw [keys_erase]; exact h.filter _

theorem get_eq_of_find? {m : AMap κ ν} {k : κ} {v : ν} (h : AMap.find? m k = some v) (d : ν) : AMap.get m k d = v := by
  simp [AMap.get, h]

theorem get_of_not_mem {m : AMap κ ν} {k : κ} (h : k ∉ AMap.keys m) (d : ν) : AMap.get m k d = d := by
  simp [AMap.get, (find?_eq_none m k).2 h]

/-- Go's `for k, v := range m` with the iteration order `items`: keys that are not in the map are skipped -/
def rangeFold {σ : Type} (m : AMap κ ν) (d : ν) (step : κ → ν → σ → σ) : List κ → σ → σ
  | [], s => s
  | k :: rest, s => if (AMap.find? m k).isSome then rangeFold m d step rest (step k (AMap.get m k d) s) else rangeFold m d step rest s

theorem rangeFold_eq {σ : Type} (m : AMap κ ν) (d : ν) (step : κ → ν → σ → σ) (items : List κ) (s : σ) :
    rangeFold m d step items s =
      (items.filter (fun k => decide (k ∈ AMap.keys m))).foldl (fun s k => step k (AMap.get m k d) s) s := by
  induction items generalizing s with
  | nil => rfl
  | cons k rest ih =>
    simp only [rangeFold, find?_isSome, List.filter_cons]
    by_cases h : k ∈ AMap.keys m <;> simp [h, ih]

theorem filter_mem_of_perm {order ks : List κ} (h : order.Perm ks) : order.filter (fun k => decide (k ∈ ks)) = order := by
  apply List.filter_eq_self.2
  intro a ha; simpa using h.mem_iff.1 ha

end amap

/-! ## sums over a map -/

/-- the sum of the values whose key satisfies `p` -/
def total (am : amounts.Amounts) (p : amounts.Key → Bool) : Rat := ((am.filter (fun e => p e.1)).map Prod.snd).sum

theorem total_nil (p : amounts.Key → Bool) : total [] p = 0 := rfl

theorem total_cons (k : amounts.Key) (v : Rat) (am : amounts.Amounts) (p : amounts.Key → Bool) :
    total ((k, v) :: am) p = (if p k then v else 0) + total am p := by
  unfold total
  by_cases h : p k <;> simp [h, Rat.zero_add]

/-- the sum over the keys in a given order -/
theorem total_eq_keys {am : amounts.Amounts} (hwf : WF am) (p : amounts.Key → Bool) :
    total am p = (((AMap.keys am).filter p).map (fun k => AMap.get am k 0)).sum := by
  induction am with
  | nil => rfl
  | cons e rest ih =>
    obtain ⟨k, v⟩ := e
    have hn : k ∉ AMap.keys rest ∧ (AMap.keys rest).Nodup := by simpa [WF, AMap.keys] using hwf
    rw [total_cons, ih hn.2]
    have hrest : ∀ x ∈ (AMap.keys rest).filter p, AMap.get ((k, v) :: rest) x 0 = AMap.get rest x 0 := by
      intro x hx
      have hx' : x ∈ AMap.keys rest := (List.mem_filter.1 hx).1
      have : k ≠ x := fun e => hn.1 (e ▸ hx')
      simp [AMap.get, AMap.find?, this]
    simp only [AMap.keys, List.map_cons, List.filter_cons]
    by_cases h : p k
    · simp only [h, if_true, List.map_cons, List.sum_cons]
      congr 1
      · simp [AMap.get, AMap.find?]
      · congr 1; exact (List.map_congr_left hrest).symm
    · simp only [h, Bool.false_eq_true, if_false, Rat.zero_add]
      congr 1; exact (List.map_congr_left hrest).symm

theorem total_order {am : amounts.Amounts} (hwf : WF am) (p : amounts.Key → Bool) {order : List amounts.Key}
    (hp : order.Perm (AMap.keys am)) :
    total am p = ((order.filter p).map (fun k => AMap.get am k 0)).sum := by
  rw [total_eq_keys hwf]
  exact sum_perm (((hp.filter p).map _).symm)

theorem foldl_add_sum (l : List Rat) (w : Rat) : l.foldl (fun acc v => acc + v) w = w + l.sum := by
  induction l generalizing w with
  | nil => simp [Rat.add_zero]
  | cons x rest ih => simp only [List.foldl_cons, ih, List.sum_cons, Rat.add_assoc]


/-! ## keys, lookups, `Add` -/

theorem Amount_agrees (am : amounts.Amounts) (k : amounts.Key) : amounts.Amounts.Amount am k = AMap.get am k 0 := rfl

/-- the five key constructors set the named fields and leave the rest zero (nil pointers, zero time, empty string) -/
theorem keys_agree (d : Int) (a : account.Account) (c : commodity.Commodity) :
    amounts.DateKey d = { (GoZero.zero : amounts.Key) with Date := d } ∧
    amounts.DateCommodityKey d c = { (GoZero.zero : amounts.Key) with Date := d, Commodity := c } ∧
    amounts.CommodityKey c = { (GoZero.zero : amounts.Key) with Commodity := c } ∧
    amounts.AccountKey a = { (GoZero.zero : amounts.Key) with Account := a } ∧
    amounts.AccountCommodityKey a c = { (GoZero.zero : amounts.Key) with Account := a, Commodity := c } :=
  ⟨rfl, rfl, rfl, rfl, rfl⟩

theorem Add_find? (am : amounts.Amounts) (k : amounts.Key) (v : Rat) (k' : amounts.Key) :
    AMap.find? (amounts.Amounts.Add am k v) k' = if k = k' then some (AMap.get am k 0 + v) else AMap.find? am k' := by
  simp [amounts.Amounts.Add, AMap.find?_set]

theorem Add_get (am : amounts.Amounts) (k : amounts.Key) (v : Rat) (k' : amounts.Key) :
    AMap.get (amounts.Amounts.Add am k v) k' 0 = AMap.get am k' 0 + if k = k' then v else 0 := by
  unfold AMap.get; rw [Add_find?]
  by_cases h : k = k'
  · subst h; simp [AMap.get]
  · simp [h, Rat.add_zero]

theorem Add_wf {am : amounts.Amounts} (h : WF am) (k : amounts.Key) (v : Rat) : WF (amounts.Amounts.Add am k v) :=
  wf_set h _ _

theorem Add_keys (am : amounts.Amounts) (k : amounts.Key) (v : Rat) (x : amounts.Key) :
    x ∈ AMap.keys (amounts.Amounts.Add am k v) ↔ x = k ∨ x ∈ AMap.keys am := mem_keys_set _ _ _ _

/-! ## folds that update one entry per visited key (`Clone`, `Plus`, `Minus`, the first loop of `SumIntoBy`) -/

/-- `dest[m k] = g(dest[m k], src[k])` for the keys `k` of `ks` that satisfy `p`, in order -/
def updFold (src : amounts.Amounts) (p : amounts.Key → Bool) (m : amounts.Key → amounts.Key) (g : Rat → Rat → Rat)
    (ks : List amounts.Key) (dest : amounts.Amounts) : amounts.Amounts :=
  ks.foldl (fun d k => if p k then AMap.set d (m k) (g (AMap.get d (m k) 0) (AMap.get src k 0)) else d) dest

theorem updFold_wf (src : amounts.Amounts) (p : amounts.Key → Bool) (m : amounts.Key → amounts.Key) (g : Rat → Rat → Rat)
    (ks : List amounts.Key) {dest : amounts.Amounts} (h : WF dest) : WF (updFold src p m g ks dest) := by
  induction ks generalizing dest with
  | nil => exact h
  | cons k rest ih =>
    simp only [updFold, List.foldl_cons]
    by_cases hp : p k
    · simp only [hp, if_true]; exact ih (wf_set h _ _)
    · simp only [hp, Bool.false_eq_true, if_false]; exact ih h

theorem updFold_keys (src : amounts.Amounts) (p : amounts.Key → Bool) (m : amounts.Key → amounts.Key) (g : Rat → Rat → Rat)
    (ks : List amounts.Key) (dest : amounts.Amounts) (x : amounts.Key) :
    x ∈ AMap.keys (updFold src p m g ks dest) ↔ x ∈ AMap.keys dest ∨ ∃ k ∈ ks, p k = true ∧ m k = x := by
  induction ks generalizing dest with
  | nil => simp [updFold]
  | cons k rest ih =>
    simp only [updFold, List.foldl_cons]
    by_cases hp : p k
    · simp only [hp, if_true]
      have := ih (AMap.set dest (m k) (g (AMap.get dest (m k) 0) (AMap.get src k 0)))
      simp only [updFold] at this
      rw [this, mem_keys_set]
      simp only [List.mem_cons, exists_eq_or_imp, hp, true_and]
      constructor
      · rintro ((h | h) | h)
        · exact Or.inr (Or.inl h.symm)
        · exact Or.inl h
        · exact Or.inr (Or.inr h)
      · rintro (h | h | h)
        · exact Or.inl (Or.inr h)
        · exact Or.inl (Or.inl h.symm)
        · exact Or.inr h
    · simp only [hp, Bool.false_eq_true, if_false]
      have := ih dest
      simp only [updFold] at this
      rw [this]
      simp [hp]

/-- additive updates: every lookup of the result is the old value plus the sum of the visited source values mapped to it -/
theorem updFold_add_get (src : amounts.Amounts) (p : amounts.Key → Bool) (m : amounts.Key → amounts.Key)
    (ks : List amounts.Key) (dest : amounts.Amounts) (x : amounts.Key) :
    AMap.get (updFold src p m (fun a b => a + b) ks dest) x 0 =
      AMap.get dest x 0 + ((ks.filter (fun k => p k && decide (m k = x))).map (fun k => AMap.get src k 0)).sum := by
  induction ks generalizing dest with
  | nil => simp [updFold, Rat.add_zero]
  | cons k rest ih =>
    simp only [updFold, List.foldl_cons]
    by_cases hp : p k
    · simp only [hp, if_true]
      have := ih (AMap.set dest (m k) (AMap.get dest (m k) 0 + AMap.get src k 0))
      simp only [updFold] at this
      rw [this, AMap.get_set]
      by_cases hm : m k = x
      · subst hm; simp [hp, Rat.add_assoc]
      · simp [hp, hm]
    · simp only [hp, Bool.false_eq_true, if_false]
      have := ih dest
      simp only [updFold] at this
      rw [this]; simp [hp]

/-- one update per key (`m = id`, the visited keys distinct): `g` is applied once where the key was visited -/
theorem updFold_id_find? (src : amounts.Amounts) (g : Rat → Rat → Rat) (ks : List amounts.Key) (hn : ks.Nodup)
    (dest : amounts.Amounts) (x : amounts.Key) :
    AMap.find? (updFold src (fun _ => true) id g ks dest) x =
      if x ∈ ks then some (g (AMap.get dest x 0) (AMap.get src x 0)) else AMap.find? dest x := by
  induction ks generalizing dest with
  | nil => simp [updFold]
  | cons k rest ih =>
    simp only [updFold, List.foldl_cons, if_true, id]
    have hn' := List.nodup_cons.1 hn
    have := ih hn'.2 (AMap.set dest k (g (AMap.get dest k 0) (AMap.get src k 0)))
    simp only [updFold, if_true, id] at this
    rw [this]
    by_cases hx : x ∈ rest
    · have : k ≠ x := fun e => hn'.1 (e ▸ hx)
      simp [hx, AMap.get_set, this]
    · by_cases hk : k = x
      · subst hk; simp [hx, AMap.find?_set]
      · have hk' : ¬ x = k := fun e => hk e.symm
        simp [hx, hk, hk', AMap.find?_set]

theorem nodup_of_perm_keys {am : amounts.Amounts} (hwf : WF am) {order : List amounts.Key} (hp : order.Perm (AMap.keys am)) :
    order.Nodup := hp.nodup_iff.2 hwf

/-! ## `Clone`, `Plus`, `Minus` -/

theorem Clone_range1_eq (am : amounts.Amounts) (items : List amounts.Key) (clone : amounts.Amounts) :
    amounts.Amounts.Clone.range1 am items clone = rangeFold am 0 (fun k v c => AMap.set c k v) items clone := by
  induction items generalizing clone with
  | nil => rfl
  | cons k rest ih =>
    simp only [amounts.Amounts.Clone.range1, rangeFold]
    cases h : (AMap.find? am k).isSome <;> simp [ih]

/-- **`Amounts.Clone`**: for every iteration order, the clone has exactly the entries of the map -/
theorem Clone_agrees {am : amounts.Amounts} (hwf : WF am) {order : List amounts.Key} (hp : order.Perm (AMap.keys am)) :
    WF (amounts.Amounts.Clone am order) ∧ ∀ k, AMap.find? (amounts.Amounts.Clone am order) k = AMap.find? am k := by
  have e : amounts.Amounts.Clone am order = updFold am (fun _ => true) id (fun _ v => v) order [] := by
    simp only [amounts.Amounts.Clone, Clone_range1_eq, rangeFold_eq, filter_mem_of_perm hp, updFold, if_true, id]
  rw [e]
  refine ⟨updFold_wf _ _ _ _ _ wf_nil, fun k => ?_⟩
  rw [updFold_id_find? _ _ _ (nodup_of_perm_keys hwf hp)]
  by_cases hk : k ∈ order
  · have hk' : k ∈ AMap.keys am := hp.mem_iff.1 hk
    have : (AMap.find? am k).isSome := by rw [find?_isSome]; simpa using hk'
    cases h : AMap.find? am k with
    | none => simp [h] at this
    | some v => simp [hk, AMap.get, h]
  · have hk' : k ∉ AMap.keys am := fun h => hk (hp.mem_iff.2 h)
    simp [hk, (find?_eq_none am k).2 hk']

theorem Plus_range1_eq (other : amounts.Amounts) (items : List amounts.Key) (am : amounts.Amounts) :
    amounts.Amounts.Plus.range1 other items am =
      rangeFold other 0 (fun k v a => AMap.set a k (AMap.get a k 0 + v)) items am := by
  induction items generalizing am with
  | nil => rfl
  | cons k rest ih =>
    simp only [amounts.Amounts.Plus.range1, rangeFold]
    cases h : (AMap.find? other k).isSome <;> simp [ih]

theorem Minus_range1_eq (other : amounts.Amounts) (items : List amounts.Key) (am : amounts.Amounts) :
    amounts.Amounts.Minus.range1 other items am =
      rangeFold other 0 (fun k v a => AMap.set a k (AMap.get a k 0 - v)) items am := by
  induction items generalizing am with
  | nil => rfl
  | cons k rest ih =>
    simp only [amounts.Amounts.Minus.range1, rangeFold]
    cases h : (AMap.find? other k).isSome <;> simp [ih]

/-- **`Amounts.Plus`** (mutates the receiver: the new receiver is the result): for every iteration order of `other`, every
amount is the sum of the two amounts, and the keys are the keys of both maps (zero sums are KEPT: the `Delta` row of the
balance report shows a commodity whose totals cancel) -/
theorem Plus_agrees {am other : amounts.Amounts} (hwa : WF am) (hwo : WF other) {order : List amounts.Key}
    (hp : order.Perm (AMap.keys other)) :
    WF (amounts.Amounts.Plus am other order) ∧
    (∀ k, AMap.get (amounts.Amounts.Plus am other order) k 0 = AMap.get am k 0 + AMap.get other k 0) ∧
    (∀ k, k ∈ AMap.keys (amounts.Amounts.Plus am other order) ↔ k ∈ AMap.keys am ∨ k ∈ AMap.keys other) := by
  have e : amounts.Amounts.Plus am other order = updFold other (fun _ => true) id (fun a b => a + b) order am := by
    simp only [amounts.Amounts.Plus, Plus_range1_eq, rangeFold_eq, filter_mem_of_perm hp, updFold, if_true, id]
  rw [e]
  refine ⟨updFold_wf _ _ _ _ _ hwa, fun k => ?_, fun k => ?_⟩
  · unfold AMap.get
    rw [updFold_id_find? _ _ _ (nodup_of_perm_keys hwo hp)]
    by_cases hk : k ∈ order
    · simp [hk, AMap.get]
    · have hk' : k ∉ AMap.keys other := fun h => hk (hp.mem_iff.2 h)
      simp [hk, (find?_eq_none other k).2 hk', Rat.add_zero]
  · rw [updFold_keys]
    simp only [true_and, id, exists_eq_right]
    exact or_congr Iff.rfl hp.mem_iff

/-- **`Amounts.Minus`**: every amount is the difference; the keys are the keys of both maps -/
theorem Minus_agrees {am other : amounts.Amounts} (hwa : WF am) (hwo : WF other) {order : List amounts.Key}
    (hp : order.Perm (AMap.keys other)) :
    WF (amounts.Amounts.Minus am other order) ∧
    (∀ k, AMap.get (amounts.Amounts.Minus am other order) k 0 = AMap.get am k 0 - AMap.get other k 0) ∧
    (∀ k, k ∈ AMap.keys (amounts.Amounts.Minus am other order) ↔ k ∈ AMap.keys am ∨ k ∈ AMap.keys other) := by
  have e : amounts.Amounts.Minus am other order = updFold other (fun _ => true) id (fun a b => a - b) order am := by
    simp only [amounts.Amounts.Minus, Minus_range1_eq, rangeFold_eq, filter_mem_of_perm hp, updFold, if_true, id]
  rw [e]
  refine ⟨updFold_wf _ _ _ _ _ hwa, fun k => ?_, fun k => ?_⟩
  · unfold AMap.get
    rw [updFold_id_find? _ _ _ (nodup_of_perm_keys hwo hp)]
    by_cases hk : k ∈ order
    · simp [hk, AMap.get]
    · have hk' : k ∉ AMap.keys other := fun h => hk (hp.mem_iff.2 h)
      simp [hk, (find?_eq_none other k).2 hk', Rat.sub_eq_add_neg, Rat.add_zero]
  · rw [updFold_keys]
    simp only [true_and, id, exists_eq_right]
    exact or_congr Iff.rfl hp.mem_iff


/-! ## `SumOver` -/

/-- a Go function value that is a total, pure function -/
def pureFn {α β : Type} (f : α → β) : Option (α → GoSem.Outcome β) := some (fun a => GoSem.Outcome.ok (f a))

theorem SumOver_range1_eq (am : amounts.Amounts) (p : amounts.Key → Bool) (items : List amounts.Key) (res : Rat) :
    amounts.Amounts.SumOver.range1 am (pureFn p) items res =
      GoSem.Outcome.ok (rangeFold am 0 (fun k v r => if p k then r + v else r) items res) := by
  induction items generalizing res with
  | nil => rfl
  | cons k rest ih =>
    simp only [amounts.Amounts.SumOver.range1, rangeFold, pureFn, callFn1, GoSem.Outcome.bind]
    cases h : (AMap.find? am k).isSome
    · simpa [pureFn] using ih res
    · by_cases hp : p k
      · simpa [hp, pureFn] using ih _
      · simpa [hp, pureFn] using ih res

theorem foldl_cond_add (am : amounts.Amounts) (p : amounts.Key → Bool) (ks : List amounts.Key) (w : Rat) :
    ks.foldl (fun r k => if p k then r + AMap.get am k 0 else r) w = w + ((ks.filter p).map (fun k => AMap.get am k 0)).sum := by
  induction ks generalizing w with
  | nil => simp [Rat.add_zero]
  | cons k rest ih =>
    simp only [List.foldl_cons, ih, List.filter_cons]
    by_cases hp : p k <;> simp [hp, Rat.add_assoc]

/-- **`Amounts.SumOver`**: for every iteration order (each key once) the result is the sum of the amounts whose key
satisfies the predicate (a total pure function; a nil predicate panics at the first key, as in Go) -/
theorem SumOver_agrees {am : amounts.Amounts} (hwf : WF am) (p : amounts.Key → Bool) {order : List amounts.Key}
    (hp : order.Perm (AMap.keys am)) :
    amounts.Amounts.SumOver am (pureFn p) order = GoSem.Outcome.ok (total am p) := by
  simp only [amounts.Amounts.SumOver, SumOver_range1_eq, GoSem.Outcome.bind, rangeFold_eq, filter_mem_of_perm hp, foldl_cond_add,
    zero_rat, Rat.zero_add, total_order hwf p hp]

theorem SumOver_nil_pred (am : amounts.Amounts) (k : amounts.Key) (v : Rat) (rest : List amounts.Key)
    (h : AMap.find? am k = some v) :
    amounts.Amounts.SumOver am none (k :: rest) = GoSem.Outcome.panic "invalid memory address or nil pointer dereference" := by
  simp [amounts.Amounts.SumOver, amounts.Amounts.SumOver.range1, h, callFn1, GoSem.Outcome.bind]

/-! ## `SumIntoBy`, `SumBy` -/

theorem SumIntoBy_range1_eq (am : amounts.Amounts) (p : amounts.Key → Bool) (m : amounts.Key → amounts.Key)
    (items : List amounts.Key) (dest : amounts.Amounts) :
    amounts.Amounts.SumIntoBy.range1 am (pureFn p) (pureFn m) items dest =
      GoSem.Outcome.ok (rangeFold am 0 (fun k v d => if p k then AMap.set d (m k) (AMap.get d (m k) 0 + v) else d) items dest) := by
  induction items generalizing dest with
  | nil => rfl
  | cons k rest ih =>
    simp only [amounts.Amounts.SumIntoBy.range1, rangeFold, pureFn, callFn1, GoSem.Outcome.bind]
    cases h : (AMap.find? am k).isSome
    · simpa [pureFn] using ih dest
    · by_cases hp : p k
      · simpa [hp, pureFn] using ih _
      · simpa [hp, pureFn] using ih dest

/-- the deletion loop: an entry that is visited while it holds zero is deleted; nothing else changes -/
theorem SumIntoBy_range2_eq (items : List amounts.Key) {dest : amounts.Amounts} (hwf : WF dest) :
    ∃ r, amounts.Amounts.SumIntoBy.range2 items dest = GoSem.Outcome.ok r ∧ WF r ∧
      ∀ k, AMap.find? r k = if k ∈ items ∧ AMap.find? dest k = some 0 then none else AMap.find? dest k := by
  induction items generalizing dest with
  | nil => exact ⟨dest, rfl, hwf, fun k => by simp⟩
  | cons x rest ih =>
    simp only [amounts.Amounts.SumIntoBy.range2]
    cases h : AMap.find? dest x with
    | none =>
      obtain ⟨r, hr, hw, hf⟩ := ih hwf
      refine ⟨r, by simpa using hr, hw, fun k => ?_⟩
      rw [hf k]
      by_cases hk : k = x
      · subst hk; simp [h]
      · simp [hk]
    | some v =>
      by_cases hv : v = 0
      · subst hv
        obtain ⟨r, hr, hw, hf⟩ := ih (wf_erase hwf x)
        refine ⟨r, by simpa [AMap.get, h] using hr, hw, fun k => ?_⟩
        rw [hf k, AMap.find?_erase]
        by_cases hk : x = k
        · subst hk; simp [h]
        · have hk' : ¬ k = x := fun e => hk e.symm
          simp [hk, hk']
      · obtain ⟨r, hr, hw, hf⟩ := ih hwf
        refine ⟨r, by simpa [AMap.get, h, hv] using hr, hw, fun k => ?_⟩
        rw [hf k]
        by_cases hk : k = x
        · subst hk; simp [h, hv]
        · simp [hk]

/-- what `SumIntoBy` adds to the key `x`: the amounts of `am` whose key passes the filter and is mapped to `x` -/
def mappedSum (am : amounts.Amounts) (p : amounts.Key → Bool) (m : amounts.Key → amounts.Key) (x : amounts.Key) : Rat :=
  total am (fun k => p k && decide (m k = x))

/-- the keys `SumIntoBy` touches: those of `dest` and the images of the filtered keys of `am` -/
def touched (am dest : amounts.Amounts) (p : amounts.Key → Bool) (m : amounts.Key → amounts.Key) (x : amounts.Key) : Prop :=
  x ∈ AMap.keys dest ∨ ∃ k ∈ AMap.keys am, p k = true ∧ m k = x

/-- the map `r` holds `v` at `x` when `live`, and has no entry at `x` otherwise -/
def EntryIs (r : amounts.Amounts) (x : amounts.Key) (live : Prop) (v : Rat) : Prop :=
  (live → AMap.find? r x = some v) ∧ (¬ live → AMap.find? r x = none)

/-- **`Amounts.SumIntoBy`** (mutates `dest`: the new `dest` is the result) for a filter and a mapper that are total pure
functions, nil standing for `predicate.True` / `mapper.Identity` as in the Go code: for every iteration order `order1` of
`am` (each key once) and every iteration order `order2` of the intermediate `dest` that reaches all its keys, the result
holds for every key `dest[x] + Σ {am[k] | pred k, mapr k = x}` — unless that is zero, in which case the key is deleted
(pre-existing zero entries of `dest` included) -/
theorem SumIntoBy_agrees {am dest : amounts.Amounts} (hwa : WF am) (hwd : WF dest)
    (pred : Option (amounts.Key → Bool)) (mapr : Option (amounts.Key → amounts.Key)) {order1 order2 : List amounts.Key}
    (h1 : order1.Perm (AMap.keys am))
    (h2 : ∀ x, touched am dest (pred.getD fun _ => true) (mapr.getD id) x → x ∈ order2) :
    ∃ r, amounts.Amounts.SumIntoBy am dest (pred.bind fun p => pureFn p) (mapr.bind fun m => pureFn m) order1 order2 = GoSem.Outcome.ok r ∧
      WF r ∧ ∀ x, EntryIs r x
        (touched am dest (pred.getD fun _ => true) (mapr.getD id) x ∧
            AMap.get dest x 0 + mappedSum am (pred.getD fun _ => true) (mapr.getD id) x ≠ 0)
        (AMap.get dest x 0 + mappedSum am (pred.getD fun _ => true) (mapr.getD id) x) := by
  generalize hp : (pred.getD fun _ => true) = p at h2 ⊢
  generalize hm : mapr.getD id = m at h2 ⊢
  have e1 : (if (Option.isNone (pred.bind fun p => pureFn p)) then
      (some (fun a2 => GoSem.Outcome.ok (predicate.True_ a2)) : Option (amounts.Key → GoSem.Outcome Bool)) else (pred.bind fun p => pureFn p)) = pureFn p := by
    cases pred with
    | none => subst hp; rfl
    | some q => subst hp; rfl
  have e2 : (if (Option.isNone (mapr.bind fun m => pureFn m)) then
      (some (fun a4 => GoSem.Outcome.ok (mapper.Identity a4)) : Option (amounts.Key → GoSem.Outcome amounts.Key)) else (mapr.bind fun m => pureFn m)) = pureFn m := by
    cases mapr with
    | none => subst hm; rfl
    | some q => subst hm; rfl
  simp only [amounts.Amounts.SumIntoBy, e1, e2, SumIntoBy_range1_eq, GoSem.Outcome.bind, rangeFold_eq, filter_mem_of_perm h1]
  have emid : (order1.foldl (fun d k => if p k then AMap.set d (m k) (AMap.get d (m k) 0 + AMap.get am k 0) else d) dest) =
      updFold am p m (fun a b => a + b) order1 dest := rfl
  rw [emid]
  have hwm := updFold_wf am p m (fun a b => a + b) order1 hwd
  obtain ⟨r, hr, hw, hf⟩ := SumIntoBy_range2_eq order2 hwm
  refine ⟨r, by rw [hr], hw, fun x => ?_⟩
  have hkeys : x ∈ AMap.keys (updFold am p m (fun a b => a + b) order1 dest) ↔ touched am dest p m x := by
    rw [updFold_keys]; unfold touched
    exact or_congr Iff.rfl ⟨fun ⟨k, hk, h⟩ => ⟨k, h1.mem_iff.1 hk, h⟩, fun ⟨k, hk, h⟩ => ⟨k, h1.mem_iff.2 hk, h⟩⟩
  have hval : AMap.get (updFold am p m (fun a b => a + b) order1 dest) x 0 = AMap.get dest x 0 + mappedSum am p m x := by
    rw [updFold_add_get, mappedSum, total_order hwa _ h1]
  unfold EntryIs
  rw [hf x]
  by_cases ht : touched am dest p m x
  · have hx2 : x ∈ order2 := h2 x ht
    have hsome : (AMap.find? (updFold am p m (fun a b => a + b) order1 dest) x).isSome := by
      rw [find?_isSome]; simpa using hkeys.2 ht
    cases hfx : AMap.find? (updFold am p m (fun a b => a + b) order1 dest) x with
    | none => simp [hfx] at hsome
    | some v =>
      have hv : v = AMap.get dest x 0 + mappedSum am p m x := by rw [← hval]; simp [AMap.get, hfx]
      subst hv
      by_cases hz : AMap.get dest x 0 + mappedSum am p m x = 0
      · simp [hx2, ht, hz]
      · simp [hx2, ht, hz]
  · have hnone : AMap.find? (updFold am p m (fun a b => a + b) order1 dest) x = none := by
      rw [find?_eq_none]; exact fun h => ht (hkeys.1 h)
    simp [ht, hnone]

/-- every key that is present holds a non-zero amount, and every non-zero amount is present (what the deletion loop of
`SumIntoBy` establishes) -/
def Clean (am : amounts.Amounts) : Prop := ∀ x, x ∈ AMap.keys am ↔ AMap.get am x 0 ≠ 0

theorem clean_nil : Clean [] := by intro x; simp [AMap.keys, AMap.get, AMap.find?]

theorem mappedSum_untouched {am : amounts.Amounts} {p : amounts.Key → Bool} {m : amounts.Key → amounts.Key} {x : amounts.Key}
    (h : ¬ ∃ k ∈ AMap.keys am, p k = true ∧ m k = x) : mappedSum am p m x = 0 := by
  unfold mappedSum total
  have : am.filter (fun e => p e.1 && decide (m e.1 = x)) = [] := by
    apply List.filter_eq_nil_iff.2
    intro e he hpe
    simp only [Bool.and_eq_true, decide_eq_true_eq] at hpe
    exact h ⟨e.1, List.mem_map.2 ⟨e, he, rfl⟩, hpe.1, hpe.2⟩
  rw [this]; rfl

/-- **`SumIntoBy` as an addition of amounts**: every amount of the result (zero where there is no entry) is the old amount plus
the mapped sum, and the result is `Clean` — whatever `dest` was -/
theorem SumIntoBy_val {am dest : amounts.Amounts} (hwa : WF am) (hwd : WF dest)
    (pred : Option (amounts.Key → Bool)) (mapr : Option (amounts.Key → amounts.Key)) {order1 order2 : List amounts.Key}
    (h1 : order1.Perm (AMap.keys am))
    (h2 : ∀ x, touched am dest (pred.getD fun _ => true) (mapr.getD id) x → x ∈ order2) :
    ∃ r, amounts.Amounts.SumIntoBy am dest (pred.bind fun p => pureFn p) (mapr.bind fun m => pureFn m) order1 order2 = GoSem.Outcome.ok r ∧
      WF r ∧ Clean r ∧
      ∀ x, AMap.get r x 0 = AMap.get dest x 0 + mappedSum am (pred.getD fun _ => true) (mapr.getD id) x := by
  obtain ⟨r, hr, hw, hf⟩ := SumIntoBy_agrees hwa hwd pred mapr h1 h2
  have hval : ∀ x, AMap.get r x 0 = AMap.get dest x 0 + mappedSum am (pred.getD fun _ => true) (mapr.getD id) x := by
    intro x
    by_cases hl : touched am dest (pred.getD fun _ => true) (mapr.getD id) x ∧
        AMap.get dest x 0 + mappedSum am (pred.getD fun _ => true) (mapr.getD id) x ≠ 0
    · exact get_eq_of_find? ((hf x).1 hl) 0
    · have hn := (hf x).2 hl
      have hg : AMap.get r x 0 = 0 := by simp [AMap.get, hn]
      rw [hg]
      by_cases ht : touched am dest (pred.getD fun _ => true) (mapr.getD id) x
      · have : ¬ (AMap.get dest x 0 + mappedSum am (pred.getD fun _ => true) (mapr.getD id) x ≠ 0) := fun h => hl ⟨ht, h⟩
        exact (Decidable.not_not.1 this).symm
      · have h1' : x ∉ AMap.keys dest := fun h => ht (Or.inl h)
        have h2' : ¬ ∃ k ∈ AMap.keys am, (pred.getD fun _ => true) k = true ∧ (mapr.getD id) k = x := fun h => ht (Or.inr h)
        rw [get_of_not_mem h1', mappedSum_untouched h2', Rat.add_zero]
  refine ⟨r, hr, hw, fun x => ?_, hval⟩
  constructor
  · intro hx
    by_cases hl : touched am dest (pred.getD fun _ => true) (mapr.getD id) x ∧
        AMap.get dest x 0 + mappedSum am (pred.getD fun _ => true) (mapr.getD id) x ≠ 0
    · rw [hval x]; exact hl.2
    · have hn := (hf x).2 hl
      exact absurd hx ((find?_eq_none r x).1 hn)
  · intro hx
    rw [hval x] at hx
    have ht : touched am dest (pred.getD fun _ => true) (mapr.getD id) x := by
      apply Classical.byContradiction
      intro ht
      have h1' : x ∉ AMap.keys dest := fun h => ht (Or.inl h)
      have h2' : ¬ ∃ k ∈ AMap.keys am, (pred.getD fun _ => true) k = true ∧ (mapr.getD id) k = x := fun h => ht (Or.inr h)
      rw [get_of_not_mem h1', mappedSum_untouched h2', Rat.add_zero] at hx
      exact hx rfl
    exact mem_keys_of_find? ((hf x).1 ⟨ht, hx⟩)

/-- **`Amounts.SumBy`**: `SumIntoBy` into the empty map: the result holds, for every key that is the image of a filtered key
and whose mapped sum is not zero, that sum -/
theorem SumBy_agrees {am : amounts.Amounts} (hwa : WF am)
    (pred : Option (amounts.Key → Bool)) (mapr : Option (amounts.Key → amounts.Key)) {order1 order2 : List amounts.Key}
    (h1 : order1.Perm (AMap.keys am))
    (h2 : ∀ x, (∃ k ∈ AMap.keys am, (pred.getD fun _ => true) k = true ∧ (mapr.getD id) k = x) → x ∈ order2) :
    ∃ r, amounts.Amounts.SumBy am (pred.bind fun p => pureFn p) (mapr.bind fun m => pureFn m) order1 order2 = GoSem.Outcome.ok r ∧
      WF r ∧ ∀ x, EntryIs r x
        ((∃ k ∈ AMap.keys am, (pred.getD fun _ => true) k = true ∧ (mapr.getD id) k = x) ∧
            mappedSum am (pred.getD fun _ => true) (mapr.getD id) x ≠ 0)
        (mappedSum am (pred.getD fun _ => true) (mapr.getD id) x) := by
  have ht : ∀ x, touched am [] (pred.getD fun _ => true) (mapr.getD id) x ↔
      ∃ k ∈ AMap.keys am, (pred.getD fun _ => true) k = true ∧ (mapr.getD id) k = x := by
    intro x; simp [touched, AMap.keys]
  obtain ⟨r, hr, hw, hf⟩ := SumIntoBy_agrees hwa wf_nil pred mapr h1 (fun x hx => h2 x ((ht x).1 hx))
  refine ⟨r, by simp [amounts.Amounts.SumBy, hr, GoSem.Outcome.bind], hw, fun x => ?_⟩
  have hz : AMap.get ([] : amounts.Amounts) x 0 = 0 := rfl
  have := hf x
  simp only [hz, Rat.zero_add, ht x] at this
  exact this


/-! ## the sets of commodities and dates, sorted -/

theorem set_New_agrees {T : Type} [DecidableEq T] [GoZero T] : (set.New : set.Set T) = [] := rfl

/-- a fold that adds `f k` to a set for every visited key -/
theorem foldl_setAdd_keys {T : Type} [DecidableEq T] [GoZero T] (f : amounts.Key → T) (ks : List amounts.Key) (s : set.Set T) :
    WF s → WF (ks.foldl (fun s k => set.Set.Add s (f k)) s) ∧
      ∀ x, x ∈ AMap.keys (ks.foldl (fun s k => set.Set.Add s (f k)) s) ↔ x ∈ AMap.keys s ∨ ∃ k ∈ ks, f k = x := by
  induction ks generalizing s with
  | nil => intro h; exact ⟨h, fun x => by simp⟩
  | cons k rest ih =>
    intro h
    obtain ⟨hw, hm⟩ := ih (set.Set.Add s (f k)) (wf_set h _ _)
    refine ⟨hw, fun x => ?_⟩
    simp only [List.foldl_cons]
    rw [hm x]
    simp only [set.Set.Add, mem_keys_set, List.mem_cons, exists_eq_or_imp]
    constructor
    · rintro ((h | h) | h)
      · exact Or.inr (Or.inl h.symm)
      · exact Or.inl h
      · exact Or.inr (Or.inr h)
    · rintro (h | h | h)
      · exact Or.inl (Or.inr h)
      · exact Or.inl (Or.inl h.symm)
      · exact Or.inr h

theorem Commodities_range1_eq (am : amounts.Amounts) (items : List amounts.Key) (s : set.Set commodity.Commodity) :
    amounts.Amounts.Commodities.range1 am items s = rangeFold am 0 (fun k _ s => set.Set.Add s k.Commodity) items s := by
  induction items generalizing s with
  | nil => rfl
  | cons k rest ih =>
    simp only [amounts.Amounts.Commodities.range1, rangeFold]
    cases h : (AMap.find? am k).isSome <;> simp [ih]

theorem Dates_range1_eq (am : amounts.Amounts) (items : List amounts.Key) (s : set.Set Int) :
    amounts.Amounts.Dates.range1 am items s = rangeFold am 0 (fun k _ s => set.Set.Add s k.Date) items s := by
  induction items generalizing s with
  | nil => rfl
  | cons k rest ih =>
    simp only [amounts.Amounts.Dates.range1, rangeFold]
    cases h : (AMap.find? am k).isSome <;> simp [ih]

/-- **`Amounts.Commodities`**: the set of the commodities of the keys, for every iteration order that reaches all keys -/
theorem Commodities_agrees (am : amounts.Amounts) {order : List amounts.Key} (hp : order.Perm (AMap.keys am)) :
    WF (amounts.Amounts.Commodities am order) ∧
      ∀ c, c ∈ AMap.keys (amounts.Amounts.Commodities am order) ↔ ∃ k ∈ AMap.keys am, k.Commodity = c := by
  simp only [amounts.Amounts.Commodities, Commodities_range1_eq, rangeFold_eq, filter_mem_of_perm hp, set_New_agrees]
  obtain ⟨hw, hm⟩ := foldl_setAdd_keys (fun k => k.Commodity) order ([] : set.Set commodity.Commodity) wf_nil
  refine ⟨hw, fun c => ?_⟩
  rw [hm c]
  simp only [AMap.keys, List.map_nil, List.not_mem_nil, false_or]
  exact ⟨fun ⟨k, hk, h⟩ => ⟨k, hp.mem_iff.1 hk, h⟩, fun ⟨k, hk, h⟩ => ⟨k, hp.mem_iff.2 hk, h⟩⟩

/-- **`Amounts.Dates`** -/
theorem Dates_agrees (am : amounts.Amounts) {order : List amounts.Key} (hp : order.Perm (AMap.keys am)) :
    WF (amounts.Amounts.Dates am order) ∧
      ∀ d, d ∈ AMap.keys (amounts.Amounts.Dates am order) ↔ ∃ k ∈ AMap.keys am, k.Date = d := by
  simp only [amounts.Amounts.Dates, Dates_range1_eq, rangeFold_eq, filter_mem_of_perm hp, set_New_agrees]
  obtain ⟨hw, hm⟩ := foldl_setAdd_keys (fun k => k.Date) order ([] : set.Set Int) wf_nil
  refine ⟨hw, fun c => ?_⟩
  rw [hm c]
  simp only [AMap.keys, List.map_nil, List.not_mem_nil, false_or]
  exact ⟨fun ⟨k, hk, h⟩ => ⟨k, hp.mem_iff.1 hk, h⟩, fun ⟨k, hk, h⟩ => ⟨k, hp.mem_iff.2 hk, h⟩⟩

/-- `commodity.Compare(a, b) != Greater` is `a.name ≤ b.name` -/
theorem commodity_le (a b : commodity.Commodity) : decide (commodity.Compare a b ≠ 1) = decide (a.name ≤ b.name) := by
  unfold commodity.Compare commodity.Commodity.Name cmpOrdered
  by_cases h1 : a.name < b.name
  · have : a.name ≤ b.name := String.not_lt.1 (String.lt_asymm h1)
    simp [h1, this]
  · by_cases h2 : b.name < a.name
    · have : ¬ a.name ≤ b.name := String.not_le.2 h2
      simp [h1, h2, this]
    · have : a.name ≤ b.name := String.not_lt.1 h2
      simp [h1, h2, this]

theorem time_le (a b : Int) : decide (compare.Time a b ≠ 1) = decide (a ≤ b) := by
  unfold compare.Time
  by_cases h1 : a = b
  · subst h1; simp
  · by_cases h2 : a < b
    · have : a ≤ b := by omega
      simp [h1, h2, this]
    · have : ¬ a ≤ b := by omega
      simp [h1, h2, this]

/-- **`Amounts.CommoditiesSorted`**: for every iteration order the commodities of the keys without duplicates, sorted by name —
provided the commodities that occur are determined by their names (the registry interns them: one pointer per name) -/
theorem CommoditiesSorted_agrees (am : amounts.Amounts) {order : List amounts.Key} (hp : order.Perm (AMap.keys am))
    (hinj : ∀ k ∈ AMap.keys am, ∀ k' ∈ AMap.keys am, k.Commodity.name = k'.Commodity.name → k.Commodity = k'.Commodity) :
    amounts.Amounts.CommoditiesSorted am order =
      (((AMap.keys am).map (·.Commodity)).eraseDups).mergeSort (fun a b => decide (a.name ≤ b.name)) := by
  obtain ⟨hw, hm⟩ := Commodities_agrees am hp
  unfold amounts.Amounts.CommoditiesSorted sortedKeys
  dsimp only
  have hle : (fun a b : commodity.Commodity => decide (commodity.Compare a b ≠ 1)) = (fun a b => decide (a.name ≤ b.name)) := by
    funext a b; exact commodity_le a b
  rw [hle]
  have hperm : (List.map Prod.fst (amounts.Amounts.Commodities am order)).Perm (((AMap.keys am).map (·.Commodity)).eraseDups) := by
    change (AMap.keys _).Perm _
    rw [List.perm_ext_iff_of_nodup hw (ReportPerm.nodup_eraseDups _ _ (Nat.le_refl _))]
    intro c
    rw [List.mem_eraseDups, List.mem_map]
    exact hm c
  apply ReportPerm.mergeSort_perm_eq (fun a b : commodity.Commodity => decide (a.name ≤ b.name))
    (fun a b c => ReportPerm.strLE_trans _ _ _) (fun a b => ReportPerm.strLE_total _ _) _ _ _ hperm
  intro a b ha hb h1 h2
  obtain ⟨ka, hka, rfl⟩ := (hm a).1 ha
  obtain ⟨kb, hkb, rfl⟩ := (hm b).1 hb
  exact hinj ka hka kb hkb (ReportPerm.strLE_antisymm _ _ h1 h2)

/-- **`Amounts.DatesSorted`**: the dates of the keys without duplicates, ascending, for every iteration order -/
theorem DatesSorted_agrees (am : amounts.Amounts) {order : List amounts.Key} (hp : order.Perm (AMap.keys am)) :
    amounts.Amounts.DatesSorted am order = (((AMap.keys am).map (·.Date)).eraseDups).mergeSort (fun a b => decide (a ≤ b)) := by
  obtain ⟨hw, hm⟩ := Dates_agrees am hp
  unfold amounts.Amounts.DatesSorted sortedKeys
  dsimp only
  have hle : (fun a b : Int => decide (compare.Time a b ≠ 1)) = (fun a b => decide (a ≤ b)) := by
    funext a b; exact time_le a b
  rw [hle]
  have hperm : (List.map Prod.fst (amounts.Amounts.Dates am order)).Perm (((AMap.keys am).map (·.Date)).eraseDups) := by
    change (AMap.keys _).Perm _
    rw [List.perm_ext_iff_of_nodup hw (ReportPerm.nodup_eraseDups _ _ (Nat.le_refl _))]
    intro c
    rw [List.mem_eraseDups, List.mem_map]
    exact hm c
  apply ReportPerm.sort_perm_eq _ _ _ _ _ _ hperm
  · intro a b c h1 h2; simp only [decide_eq_true_eq] at *; omega
  · intro a b; simp only [Bool.or_eq_true, decide_eq_true_eq]; omega
  · intro a b h1 h2; simp only [decide_eq_true_eq] at *; omega

/-! ## `KeyMapper.Build`, `FilterDates` -/

theorem bind_assoc' {α β γ : Type} (x : GoSem.Outcome α) (f : α → GoSem.Outcome β) (g : β → GoSem.Outcome γ) :
    (x.bind f).bind g = x.bind (fun a => (f a).bind g) := by cases x <;> rfl
theorem bind_ok' {α β : Type} (a : α) (f : α → GoSem.Outcome β) : (GoSem.Outcome.ok a).bind f = f a := rfl

/-- a field mapper of `KeyMapper`: nil leaves the ZERO value in the result (not the field of the argument) -/
def apField {α : Type} [GoZero α] (f : Option (α → GoSem.Outcome α)) (a : α) : GoSem.Outcome α :=
  match f with
  | none => GoSem.Outcome.ok GoZero.zero
  | some g => g a

/-- **`KeyMapper.Build`** (the curried function): every field mapper that is set is applied to its field, in the order date,
account, other, commodity, valuation, description; a field without a mapper is ZERO in the result; a panic of a mapper propagates -/
theorem KeyMapper_Build_agrees (km : amounts.KeyMapper) (k : amounts.Key) :
    amounts.KeyMapper.Build km k =
      (apField km.Date k.Date).bind fun d => (apField km.Account k.Account).bind fun a => (apField km.Other k.Other).bind fun o =>
      (apField km.Commodity k.Commodity).bind fun c => (apField km.Valuation k.Valuation).bind fun v =>
      (apField km.Description k.Description).bind fun s =>
        GoSem.Outcome.ok { Date := d, Account := a, Other := o, Commodity := c, Valuation := v, Description := s } := by
  obtain ⟨fd, fa, fo, fc, fv, fs⟩ := km
  unfold amounts.KeyMapper.Build
  cases fd <;> cases fa <;> cases fo <;> cases fc <;> cases fv <;> cases fs <;>
    simp only [apField, callFn1, Option.isSome, bind_assoc', bind_ok', if_true, Bool.false_eq_true, if_false] <;> rfl

theorem FilterDates_agrees (pred : predicate.Predicate Int) (k : amounts.Key) :
    amounts.FilterDates pred k = callFn1 pred k.Date := by
  unfold amounts.FilterDates
  cases callFn1 pred k.Date <;> rfl


/-! ## the map of a log of `Add` calls (what a node of the balance report holds) and the model's sums -/

/-- the amounts after the calls `Add(k, v)` of the log, from the empty map -/
def amountsOf (log : List (amounts.Key × Rat)) : amounts.Amounts :=
  log.foldl (fun am e => amounts.Amounts.Add am e.1 e.2) []

/-- the sum of the logged values whose key satisfies `p` -/
def logSum (log : List (amounts.Key × Rat)) (p : amounts.Key → Bool) : Rat := ((log.filter (fun e => p e.1)).map Prod.snd).sum

theorem total_set {am : amounts.Amounts} (hwf : WF am) (k : amounts.Key) (v : Rat) (p : amounts.Key → Bool) :
    total (AMap.set am k v) p + (if p k then AMap.get am k 0 else 0) = total am p + if p k then v else 0 := by
  induction am with
  | nil => simp [AMap.set, total_cons, total_nil, AMap.get, Rat.add_zero, Rat.zero_add]
  | cons e rest ih =>
    obtain ⟨a, b⟩ := e
    have hn : a ∉ AMap.keys rest ∧ (AMap.keys rest).Nodup := by simpa [WF, AMap.keys] using hwf
    by_cases h : a = k
    · subst h
      simp only [AMap.set, if_true, total_cons, AMap.get, AMap.find?, Option.getD_some]
      by_cases hp : p a <;> simp only [hp, if_true, Bool.false_eq_true, if_false] <;> grind
    · have := ih hn.2
      simp only [AMap.set, h, if_false, total_cons, AMap.get, AMap.find?] at this ⊢
      grind

theorem total_Add {am : amounts.Amounts} (hwf : WF am) (k : amounts.Key) (v : Rat) (p : amounts.Key → Bool) :
    total (amounts.Amounts.Add am k v) p = total am p + if p k then v else 0 := by
  have := total_set hwf k (AMap.get am k 0 + v) p
  unfold amounts.Amounts.Add
  simp only [GoSem.Decimal.Add, zero_rat]
  by_cases hp : p k
  · simp only [hp, if_true] at this ⊢
    grind
  · simpa [hp, Rat.add_zero] using this

theorem foldl_Add_wf (log : List (amounts.Key × Rat)) {am : amounts.Amounts} (h : WF am) :
    WF (log.foldl (fun am e => amounts.Amounts.Add am e.1 e.2) am) := by
  induction log generalizing am with
  | nil => exact h
  | cons e rest ih => exact ih (Add_wf h _ _)

theorem amountsOf_wf (log : List (amounts.Key × Rat)) : WF (amountsOf log) := foldl_Add_wf log wf_nil

theorem foldl_Add_total (log : List (amounts.Key × Rat)) {am : amounts.Amounts} (h : WF am) (p : amounts.Key → Bool) :
    total (log.foldl (fun am e => amounts.Amounts.Add am e.1 e.2) am) p = total am p + logSum log p := by
  induction log generalizing am with
  | nil => simp [logSum, Rat.add_zero]
  | cons e rest ih =>
    simp only [List.foldl_cons]
    rw [ih (Add_wf h _ _), total_Add h, logSum, logSum, List.filter_cons]
    by_cases hp : p e.1 <;> simp [hp, Rat.add_assoc, Rat.add_zero]

/-- the filtered sum over the map of a log is the filtered sum over the log -/
theorem total_amountsOf (log : List (amounts.Key × Rat)) (p : amounts.Key → Bool) : total (amountsOf log) p = logSum log p := by
  unfold amountsOf; rw [foldl_Add_total log wf_nil p, total_nil, Rat.zero_add]

theorem foldl_Add_keys (log : List (amounts.Key × Rat)) (am : amounts.Amounts) (x : amounts.Key) :
    x ∈ AMap.keys (log.foldl (fun am e => amounts.Amounts.Add am e.1 e.2) am) ↔ x ∈ AMap.keys am ∨ ∃ e ∈ log, e.1 = x := by
  induction log generalizing am with
  | nil => simp
  | cons e rest ih =>
    simp only [List.foldl_cons]
    rw [ih, Add_keys]
    simp only [List.mem_cons, exists_eq_or_imp]
    constructor
    · rintro ((h | h) | h)
      · exact Or.inr (Or.inl h.symm)
      · exact Or.inl h
      · exact Or.inr (Or.inr h)
    · rintro (h | h | h)
      · exact Or.inl (Or.inr h)
      · exact Or.inl (Or.inl h.symm)
      · exact Or.inr h

theorem amountsOf_keys (log : List (amounts.Key × Rat)) (x : amounts.Key) :
    x ∈ AMap.keys (amountsOf log) ↔ ∃ e ∈ log, e.1 = x := by
  unfold amountsOf; rw [foldl_Add_keys]; simp [AMap.keys]

theorem filter_eq_of_nodup {l : List amounts.Key} (hn : l.Nodup) (x : amounts.Key) :
    l.filter (fun k => decide (k = x)) = if x ∈ l then [x] else [] := by
  induction l with
  | nil => rfl
  | cons a rest ih =>
    have hn' := List.nodup_cons.1 hn
    by_cases ha : a = x
    · subst ha
      have : rest.filter (fun k => decide (k = a)) = [] := by
        rw [ih hn'.2]; simp [hn'.1]
      simp [this]
    · have ha' : ¬ x = a := fun e => ha e.symm
      simp only [List.filter_cons, ha, decide_false, Bool.false_eq_true, if_false, ih hn'.2, List.mem_cons, ha', false_or]

/-- every amount of the map of a log is the sum of the logged values under that key -/
theorem amountsOf_get (log : List (amounts.Key × Rat)) (x : amounts.Key) :
    AMap.get (amountsOf log) x 0 = logSum log (fun k => decide (k = x)) := by
  rw [← total_amountsOf, total_eq_keys (amountsOf_wf log), filter_eq_of_nodup (amountsOf_wf log)]
  by_cases hx : x ∈ AMap.keys (amountsOf log)
  · simp [hx, Rat.add_zero]
  · simp only [hx, if_false, get_of_not_mem hx]; rfl

/-- **`SumOver` over the amounts of a log** (any iteration order) is the filtered sum of the logged values -/
theorem SumOver_amountsOf (log : List (amounts.Key × Rat)) (p : amounts.Key → Bool) {order : List amounts.Key}
    (hp : order.Perm (AMap.keys (amountsOf log))) :
    amounts.Amounts.SumOver (amountsOf log) (pureFn p) order = GoSem.Outcome.ok (logSum log p) := by
  rw [SumOver_agrees (amountsOf_wf log) p hp, total_amountsOf]

/-- the model's `sumAmounts` of the entries of a log is the sum of the logged values (`f` builds the entry of a logged call,
as `TransQuery.entryOf` does for the calls `Report.Insert` keeps) -/
theorem sumAmounts_of_log (log : List (amounts.Key × Rat)) (f : amounts.Key × Rat → Knut.Entry) (hf : ∀ e, (f e).amount = e.2) :
    BalanceReport.sumAmounts (log.map f) = (log.map Prod.snd).sum := by
  unfold BalanceReport.sumAmounts
  rw [List.map_map]
  congr 1
  exact List.map_congr_left (fun e _ => hf e)

/-- **against the model**: `SumOver` over the amounts of a log = `BalanceReport.sumAmounts` of the entries of the logged calls
that satisfy the predicate -/
theorem SumOver_model (log : List (amounts.Key × Rat)) (p : amounts.Key → Bool) (f : amounts.Key × Rat → Knut.Entry)
    (hf : ∀ e, (f e).amount = e.2) {order : List amounts.Key} (hp : order.Perm (AMap.keys (amountsOf log))) :
    amounts.Amounts.SumOver (amountsOf log) (pureFn p) order =
      GoSem.Outcome.ok (BalanceReport.sumAmounts ((log.filter (fun e => p e.1)).map f)) := by
  rw [SumOver_amountsOf log p hp, sumAmounts_of_log _ f hf]; rfl

/-! ## non-vacuity -/

/-- two inserts under one key and one under another -/
private def exK1 : amounts.Key := amounts.DateCommodityKey 5 ⟨"CHF", true⟩
private def exK2 : amounts.Key := amounts.DateCommodityKey 6 ⟨"CHF", true⟩
private def exAm : amounts.Amounts := amountsOf [(exK1, 3), (exK2, 4), (exK1, -1)]

example : amounts.Amounts.SumOver exAm (pureFn fun k => decide (k.Date = 5)) [exK2, exK1] = GoSem.Outcome.ok 2 := by decide +kernel
/-- summed by commodity (the date mapped away), the deletion loop visiting the one key -/
example : (match amounts.Amounts.SumBy exAm none (pureFn fun k => { k with Date := 0 }) [exK1, exK2] [amounts.CommodityKey ⟨"CHF", true⟩] with
      | .ok r => r.map (fun e => (e.1.Commodity.name, e.2))
      | _ => []) = [("CHF", 6)] := by decide +kernel
/-- a sum that cancels is deleted -/
example : amounts.Amounts.SumBy (amountsOf [(exK1, 3), (exK1, -3)]) none none [exK1] [exK1] = GoSem.Outcome.ok [] := by decide +kernel
example : amounts.Amounts.Commodities exAm [exK2, exK1] = [(⟨"CHF", true⟩, ())] ∧ amounts.Amounts.Dates exAm [exK2, exK1] = [(6, ()), (5, ())] := by
  decide +kernel
example : amounts.KeyMapper.Build { (GoZero.zero : amounts.KeyMapper) with Date := pureFn id } exK1 = GoSem.Outcome.ok (amounts.DateKey 5) := by
  decide +kernel

end Knut.FactsAgree.TransAmountsSum
