import Knut.Spec.BeancountSpec
import Knut.Proofs.Balance
import Knut.Proofs.Builder
/-! Lemmas for C16: structure of the entry list `beancount.Transcode` writes, and what the processors
`Sort, ComputePrices, check, Valuate` guarantee about a processed day. -/
namespace Knut.Beancount
open Knut Knut.BeancountSpec Knut.JournalPrinter

/-! ### projections of the entry list -/

theorem txsOf_append (a b : List BEntry) : txsOf (a ++ b) = txsOf a ++ txsOf b := by
  induction a with
  | nil => rfl
  | cons e rest ih => cases e <;> simp [txsOf, ih]

theorem opensOf_append (a b : List BEntry) : opensOf (a ++ b) = opensOf a ++ opensOf b := by
  induction a with
  | nil => rfl
  | cons e rest ih => cases e <;> simp [opensOf, ih]

theorem closesOf_append (a b : List BEntry) : closesOf (a ++ b) = closesOf a ++ closesOf b := by
  induction a with
  | nil => rfl
  | cons e rest ih => cases e <;> simp [closesOf, ih]

theorem txsOf_map_tx (l : List Transaction) : txsOf (l.map BEntry.tx) = l := by
  induction l with
  | nil => rfl
  | cons t rest ih => simp [txsOf, ih]

theorem txsOf_map_opening (l : List Open) : txsOf (l.map BEntry.opening) = [] := by
  induction l with
  | nil => rfl
  | cons t rest ih => simp [txsOf, ih]

theorem txsOf_map_closing (l : List Close) : txsOf (l.map BEntry.closing) = [] := by
  induction l with
  | nil => rfl
  | cons t rest ih => simp [txsOf, ih]

theorem opensOf_map_opening (l : List Open) : opensOf (l.map BEntry.opening) = l := by
  induction l with
  | nil => rfl
  | cons t rest ih => simp [opensOf, ih]

theorem opensOf_map_tx (l : List Transaction) : opensOf (l.map BEntry.tx) = [] := by
  induction l with
  | nil => rfl
  | cons t rest ih => simp [opensOf, ih]

theorem opensOf_map_closing (l : List Close) : opensOf (l.map BEntry.closing) = [] := by
  induction l with
  | nil => rfl
  | cons t rest ih => simp [opensOf, ih]

theorem closesOf_map_closing (l : List Close) : closesOf (l.map BEntry.closing) = l := by
  induction l with
  | nil => rfl
  | cons t rest ih => simp [closesOf, ih]

theorem closesOf_map_tx (l : List Transaction) : closesOf (l.map BEntry.tx) = [] := by
  induction l with
  | nil => rfl
  | cons t rest ih => simp [closesOf, ih]

theorem closesOf_map_opening (l : List Open) : closesOf (l.map BEntry.opening) = [] := by
  induction l with
  | nil => rfl
  | cons t rest ih => simp [closesOf, ih]

theorem txsOf_dayEntries (seen : List Account) (d : ProcDay) : txsOf (dayEntries seen d).2 = sortTxs d.transactions := by
  simp [dayEntries, txsOf_append, txsOf_map_tx, txsOf_map_opening, txsOf_map_closing]

theorem closesOf_dayEntries (seen : List Account) (d : ProcDay) : closesOf (dayEntries seen d).2 = d.closings := by
  simp [dayEntries, closesOf_append, closesOf_map_tx, closesOf_map_opening, closesOf_map_closing]

theorem opensOf_dayEntries (seen : List Account) (d : ProcDay) :
    opensOf (dayEntries seen d).2 = d.openings ++ (synthOpens seen (sortTxs d.transactions)).2 := by
  simp [dayEntries, opensOf_append, opensOf_map_tx, opensOf_map_opening, opensOf_map_closing]

theorem txsOf_entriesFrom (seen : List Account) (pds : List ProcDay) :
    txsOf (entriesFrom seen pds) = pds.flatMap (fun d => sortTxs d.transactions) := by
  induction pds generalizing seen with
  | nil => rfl
  | cons d rest ih => simp [entriesFrom, txsOf_append, txsOf_dayEntries, ih]

theorem closesOf_entriesFrom (seen : List Account) (pds : List ProcDay) :
    closesOf (entriesFrom seen pds) = pds.flatMap (·.closings) := by
  induction pds generalizing seen with
  | nil => rfl
  | cons d rest ih => simp [entriesFrom, closesOf_append, closesOf_dayEntries, ih]

theorem opensOf_entriesFrom_sub (seen : List Account) (pds : List ProcDay) :
    ∀ o ∈ pds.flatMap (·.openings), o ∈ opensOf (entriesFrom seen pds) := by
  induction pds generalizing seen with
  | nil => intro o ho; cases ho
  | cons d rest ih =>
    intro o ho
    simp only [List.flatMap_cons, List.mem_append] at ho
    simp only [entriesFrom, opensOf_append, opensOf_dayEntries, List.mem_append]
    rcases ho with ho | ho
    · exact Or.inl (Or.inl ho)
    · exact Or.inr (ih _ o ho)

theorem mem_sortTxs (l : List Transaction) (t : Transaction) : t ∈ sortTxs l ↔ t ∈ l :=
  (List.mergeSort_perm l _).mem_iff

theorem sortTxs_perm (l : List Transaction) : (sortTxs l).Perm l := List.mergeSort_perm l _

theorem perm_flatMap_congr {α β : Type} (l : List α) (f g : α → List β) (h : ∀ a ∈ l, (f a).Perm (g a)) :
    (l.flatMap f).Perm (l.flatMap g) := by
  induction l with
  | nil => exact List.Perm.refl _
  | cons a rest ih =>
    simp only [List.flatMap_cons]
    exact (h a List.mem_cons_self).append (ih (fun b hb => h b (List.mem_cons_of_mem _ hb)))

/-! ### balanced -/

theorem sum_values_paired {ps : List Posting} (h : Paired ps) : (ps.map (·.value)).sum = 0 := by
  induction h with
  | nil => rfl
  | cons a b rest hc hq hv _ ih =>
    simp only [List.map_cons, List.sum_cons, ih, hv, Rat.add_zero]
    exact Rat.add_neg_cancel _

/-- what `valueTx` keeps: date, description and the posting accounts -/
theorem valuePosting_account {v : Commodity} {cur : Option Prices.NPrices} {p p' : Posting}
    (h : Balance.valuePosting v cur p = .ok p') : p'.account = p.account ∧ p'.quantity = p.quantity := by
  unfold Balance.valuePosting at h
  split at h
  · injection h with h; subst h; exact ⟨rfl, rfl⟩
  · split at h
    · injection h with h; subst h; exact ⟨rfl, rfl⟩
    · simp only [bind, Except.bind] at h
      split at h
      · cases h
      · injection h with h; subst h; exact ⟨rfl, rfl⟩

theorem mapM_value_accounts {v : Commodity} {cur : Option Prices.NPrices} :
    ∀ (ps qs : List Posting), ps.mapM (Balance.valuePosting v cur) = .ok qs → qs.map (·.account) = ps.map (·.account) := by
  intro ps
  induction ps with
  | nil => intro qs h; simp [List.mapM_nil, pure, Except.pure] at h; subst h; rfl
  | cons p rest ih =>
    intro qs h
    simp only [List.mapM_cons, bind, Except.bind] at h
    cases hp : Balance.valuePosting v cur p with
    | error e => rw [hp] at h; cases h
    | ok p' =>
      rw [hp] at h; simp only at h
      cases hr : rest.mapM (Balance.valuePosting v cur) with
      | error e => rw [hr] at h; cases h
      | ok rest' =>
        rw [hr] at h; simp only [pure, Except.pure] at h
        injection h with h; subst h
        simp [ih rest' hr, (valuePosting_account hp).1]

theorem valueTx_keeps {v : Commodity} {cur : Option Prices.NPrices} {t t' : Transaction}
    (h : Balance.valueTx v cur t = .ok t') :
    t'.date = t.date ∧ t'.description = t.description ∧ t'.postings.map (·.account) = t.postings.map (·.account) := by
  unfold Balance.valueTx at h
  cases hm : t.postings.mapM (Balance.valuePosting v cur) with
  | error e => rw [hm] at h; cases h
  | ok ps =>
    rw [hm] at h; simp only [bind, Except.bind] at h
    injection h with h; subst h
    exact ⟨rfl, rfl, mapM_value_accounts _ _ hm⟩

/-- every element of a successful `mapM` result is the image of an element of the argument -/
theorem mapM_mem {α β ε : Type} (f : α → Except ε β) : ∀ (xs : List α) (ys : List β), xs.mapM f = .ok ys →
    ∀ y ∈ ys, ∃ x ∈ xs, f x = .ok y := by
  intro xs
  induction xs with
  | nil => intro ys h y hy; simp [List.mapM_nil, pure, Except.pure] at h; subst h; cases hy
  | cons x rest ih =>
    intro ys h y hy
    simp only [List.mapM_cons, bind, Except.bind] at h
    cases hx : f x with
    | error e => rw [hx] at h; cases h
    | ok x' =>
      rw [hx] at h; simp only at h
      cases hr : rest.mapM f with
      | error e => rw [hr] at h; cases h
      | ok rest' =>
        rw [hr] at h; simp only [pure, Except.pure] at h
        injection h with h; subst h
        rcases List.mem_cons.mp hy with rfl | hy'
        · exact ⟨x, List.mem_cons_self, hx⟩
        · obtain ⟨x0, hx0, hf⟩ := ih rest' hr y hy'
          exact ⟨x0, List.mem_cons_of_mem _ hx0, hf⟩

/-- the parts of a successful `processDay` -/
theorem processDay_parts {v : Commodity} {st st' : BalState} {d : Day} {pd : ProcDay}
    (h : processDay v st d = .ok (st', pd)) :
    ∃ (s1 s2 : BalState) (adj : List Transaction),
      Balance.pricesDay v st { d with transactions := sortTxs d.transactions } = .ok s1 ∧
      Balance.checkStage s1 { d with transactions := sortTxs d.transactions } = .ok s2 ∧
      Balance.adjustments v d.date s2.vPrev s2.norm s2.vQty = .ok adj ∧
      (sortTxs d.transactions ++ adj).mapM (Balance.valueTx v s2.norm) = .ok pd.transactions ∧
      st' = { s2 with vQty := Balance.addQty s2.vQty (sortTxs d.transactions ++ adj), vPrev := s2.norm } ∧
      pd.date = d.date ∧ pd.openings = d.openings ∧ pd.closings = d.closings := by
  unfold processDay at h
  simp only [bind, Except.bind] at h
  cases hp : Balance.pricesDay v st { d with transactions := sortTxs d.transactions } with
  | error e => rw [hp] at h; cases h
  | ok s1 =>
    rw [hp] at h; simp only at h
    cases hc : Balance.checkStage s1 { d with transactions := sortTxs d.transactions } with
    | error e => rw [hc] at h; cases h
    | ok s2 =>
      rw [hc] at h; simp only at h
      unfold Balance.valuateDay at h
      simp only [bind, Except.bind] at h
      cases ha : Balance.adjustments v d.date s2.vPrev s2.norm s2.vQty with
      | error e => rw [ha] at h; cases h
      | ok adj =>
        rw [ha] at h; simp only at h
        cases hm : (sortTxs d.transactions ++ adj).mapM (Balance.valueTx v s2.norm) with
        | error e => rw [hm] at h; cases h
        | ok txs =>
          rw [hm] at h; simp only at h
          injection h with h
          injection h with h1 h2
          subst h2
          exact ⟨s1, s2, adj, rfl, hc, ha, hm, h1.symm, rfl, rfl, rfl⟩

/-- the transactions of a processed day are made of cancelling posting pairs -/
theorem processDay_paired {v : Commodity} {st st' : BalState} {d : Day} {pd : ProcDay}
    (hin : ∀ t ∈ d.transactions, TxPaired t) (h : processDay v st d = .ok (st', pd)) :
    ∀ t ∈ pd.transactions, TxPaired t := by
  obtain ⟨s1, s2, adj, _, _, ha, hm, _, _, _, _⟩ := processDay_parts h
  apply paired_mapM_valueTx _ _ _ hm
  intro t ht
  rcases List.mem_append.mp ht with ht | ht
  · exact hin t ((mem_sortTxs _ _).mp ht)
  · exact paired_adjustments v d.date _ _ _ adj ha t ht

theorem processFrom_paired {v : Commodity} : ∀ (days : List Day) (st : BalState) (pds : List ProcDay),
    (∀ d ∈ days, ∀ t ∈ d.transactions, TxPaired t) → processFrom v st days = .ok pds →
    ∀ pd ∈ pds, ∀ t ∈ pd.transactions, TxPaired t := by
  intro days
  induction days with
  | nil => intro st pds _ h; simp only [processFrom] at h; injection h with h; subst h; intro pd hpd; cases hpd
  | cons d rest ih =>
    intro st pds hp h
    simp only [processFrom, bind, Except.bind] at h
    cases hd : processDay v st d with
    | error e => rw [hd] at h; cases h
    | ok r =>
      obtain ⟨st1, pd⟩ := r
      rw [hd] at h; simp only at h
      cases hr : processFrom v st1 rest with
      | error e => rw [hr] at h; cases h
      | ok pds' =>
        rw [hr] at h; simp only at h
        injection h with h; subst h
        intro pd' hpd'
        rcases List.mem_cons.mp hpd' with rfl | hpd'
        · exact processDay_paired (hp d List.mem_cons_self) hd
        · exact ih st1 pds' (fun d' hd' => hp d' (List.mem_cons_of_mem _ hd')) hr pd' hpd'

/-! ### the shape of the value adjustments -/

/-- `t` is the value adjustment `Valuate` books for position `e` -/
def IsAdjOf (date : Int) (e : Position × Rat) (t : Transaction) : Prop :=
  e.1.1.isAL = true ∧ e.2 ≠ 0 ∧ ∃ g : Rat,
    t = { date := date, description := "Adjust value of " ++ e.1.2 ++ " in account " ++ e.1.1.name,
          postings := postingBuild (valuationAccountFor e.1.1) e.1.1 e.1.2 0 g, targets := some [e.1.2] }

theorem adjustStep_shape (v : Commodity) (date : Int) (prev cur : Option Prices.NPrices) (qty : AMap Position Rat)
    (acc res : List Transaction) (e : Position × Rat) (he : e ∈ qty)
    (hacc : ∀ t ∈ acc, ∃ e ∈ qty, IsAdjOf date e t)
    (h : Balance.adjustStep v date prev cur acc e = .ok res) : ∀ t ∈ res, ∃ e ∈ qty, IsAdjOf date e t := by
  unfold Balance.adjustStep at h
  split at h
  · injection h with h; subst h; exact hacc
  · rename_i hcond
    simp only [bind, Except.bind] at h
    cases hp : Balance.lookupPrice prev e.1.2 with
    | error x => rw [hp] at h; cases h
    | ok pp =>
      rw [hp] at h; simp only at h
      cases hc : Balance.lookupPrice cur e.1.2 with
      | error x => rw [hc] at h; cases h
      | ok cp =>
        rw [hc] at h; simp only at h
        split at h
        · injection h with h; subst h; exact hacc
        · injection h with h; subst h
          intro t ht
          rcases List.mem_append.mp ht with ht | ht
          · exact hacc t ht
          · simp only [List.mem_singleton] at ht
            refine ⟨e, he, ?_, ?_, _, ht⟩
            · cases hal : e.1.1.isAL with
              | true => rfl
              | false => simp [hal] at hcond
            · intro hz; simp [hz] at hcond

theorem adjustments_shape (v : Commodity) (date : Int) (prev cur : Option Prices.NPrices)
    (qty : AMap Position Rat) (adj : List Transaction)
    (h : Balance.adjustments v date prev cur qty = .ok adj) : ∀ t ∈ adj, ∃ e ∈ qty, IsAdjOf date e t := by
  unfold Balance.adjustments at h
  suffices hgen : ∀ (q : AMap Position Rat) (acc res : List Transaction), (∀ e ∈ q, e ∈ qty) →
      (∀ t ∈ acc, ∃ e ∈ qty, IsAdjOf date e t) →
      q.foldlM (Balance.adjustStep v date prev cur) acc = .ok res → ∀ t ∈ res, ∃ e ∈ qty, IsAdjOf date e t from
    hgen qty [] adj (fun _ h => h) (by intro t ht; cases ht) h
  intro q
  induction q with
  | nil => intro acc res _ hacc h; simp only [List.foldlM_nil, pure, Except.pure] at h; injection h with h; subst h; exact hacc
  | cons e rest ih =>
    intro acc res hsub hacc h
    simp only [List.foldlM_cons, bind, Except.bind] at h
    cases hs : Balance.adjustStep v date prev cur acc e with
    | error x => rw [hs] at h; cases h
    | ok acc' =>
      rw [hs] at h; simp only at h
      exact ih acc' res (fun e' he' => hsub e' (List.mem_cons_of_mem _ he'))
        (adjustStep_shape v date prev cur qty acc acc' e (hsub e List.mem_cons_self) hacc hs) h

/-! ### dates -/

/-- the directives of a day carry the day's date -/
structure DayDates (d : Day) : Prop where
  opens : ∀ o ∈ d.openings, o.date = d.date
  closes : ∀ c ∈ d.closings, c.date = d.date
  txs : ∀ t ∈ d.transactions, t.date = d.date

structure ProcDates (pd : ProcDay) : Prop where
  opens : ∀ o ∈ pd.openings, o.date = pd.date
  closes : ∀ c ∈ pd.closings, c.date = pd.date
  txs : ∀ t ∈ pd.transactions, t.date = pd.date

/-- where a transaction of a processed day comes from -/
theorem processDay_tx_origin {v : Commodity} {st st' : BalState} {d : Day} {pd : ProcDay}
    (h : processDay v st d = .ok (st', pd)) (t' : Transaction) (ht' : t' ∈ pd.transactions) :
    ∃ t, (t ∈ d.transactions ∨ ∃ s2 : BalState, ∃ e ∈ s2.vQty, IsAdjOf d.date e t) ∧
      t'.date = t.date ∧ t'.description = t.description ∧ t'.postings.map (·.account) = t.postings.map (·.account) := by
  obtain ⟨s1, s2, adj, _, _, ha, hm, _, _, _, _⟩ := processDay_parts h
  obtain ⟨t, ht, hv⟩ := mapM_mem _ _ _ hm t' ht'
  refine ⟨t, ?_, valueTx_keeps hv⟩
  rcases List.mem_append.mp ht with ht | ht
  · exact Or.inl ((mem_sortTxs _ _).mp ht)
  · exact Or.inr ⟨s2, adjustments_shape v d.date _ _ _ adj ha t ht⟩

theorem processDay_dates {v : Commodity} {st st' : BalState} {d : Day} {pd : ProcDay}
    (hd : DayDates d) (h : processDay v st d = .ok (st', pd)) : pd.date = d.date ∧ ProcDates pd := by
  obtain ⟨s1, s2, adj, _, _, ha, hm, _, h1, h2, h3⟩ := processDay_parts h
  refine ⟨h1, ?_, ?_, ?_⟩
  · rw [h2, h1]; exact hd.opens
  · rw [h3, h1]; exact hd.closes
  · intro t' ht'
    obtain ⟨t, ho, hdate, _, _⟩ := processDay_tx_origin h t' ht'
    rw [hdate, h1]
    rcases ho with ho | ⟨_, e, _, _, _, g, hg⟩
    · exact hd.txs t ho
    · rw [hg]

/-- the processed days, one per day, each the result of `processDay` from some state -/
inductive Processed (v : Commodity) : List Day → List ProcDay → Prop
  | nil : Processed v [] []
  | cons {d : Day} {pd : ProcDay} {days : List Day} {pds : List ProcDay}
      (h : ∃ s s' : BalState, processDay v s d = .ok (s', pd)) (rest : Processed v days pds) :
      Processed v (d :: days) (pd :: pds)

theorem processFrom_processed {v : Commodity} : ∀ (days : List Day) (st : BalState) (pds : List ProcDay),
    processFrom v st days = .ok pds → Processed v days pds := by
  intro days
  induction days with
  | nil => intro st pds h; simp only [processFrom] at h; injection h with h; subst h; exact Processed.nil
  | cons d rest ih =>
    intro st pds h
    simp only [processFrom, bind, Except.bind] at h
    cases hd : processDay v st d with
    | error e => rw [hd] at h; cases h
    | ok r =>
      obtain ⟨st1, pd⟩ := r
      rw [hd] at h; simp only at h
      cases hr : processFrom v st1 rest with
      | error e => rw [hr] at h; cases h
      | ok pds' =>
        rw [hr] at h; simp only at h
        injection h with h; subst h
        exact Processed.cons ⟨st, st1, hd⟩ (ih st1 pds' hr)

theorem synthStep_dates (D : Int) (ps : List Posting) : ∀ (acc : List Account × List Open),
    (∀ o ∈ acc.2, o.date = D) → ∀ o ∈ (ps.foldl (synthStep D) acc).2, o.date = D := by
  induction ps with
  | nil => intro acc h; exact h
  | cons p rest ih =>
    intro acc h
    simp only [List.foldl_cons]
    apply ih
    unfold synthStep
    split
    · intro o ho
      rcases List.mem_append.mp ho with ho | ho
      · exact h o ho
      · simp only [List.mem_singleton] at ho; subst ho; rfl
    · exact h

theorem synthOpens_dates (D : Int) (seen : List Account) (txs : List Transaction) (ht : ∀ t ∈ txs, t.date = D) :
    ∀ o ∈ (synthOpens seen txs).2, o.date = D := by
  unfold synthOpens
  suffices hgen : ∀ (txs : List Transaction) (acc : List Account × List Open), (∀ t ∈ txs, t.date = D) →
      (∀ o ∈ acc.2, o.date = D) →
      ∀ o ∈ (txs.foldl (fun acc t => t.postings.foldl (synthStep t.date) acc) acc).2, o.date = D from
    hgen txs (seen, []) ht (by intro o ho; cases ho)
  intro txs
  induction txs with
  | nil => intro acc _ h; exact h
  | cons t rest ih =>
    intro acc ht h
    simp only [List.foldl_cons]
    apply ih _ (fun t' ht' => ht t' (List.mem_cons_of_mem _ ht'))
    rw [ht t List.mem_cons_self]
    exact synthStep_dates D t.postings acc h

theorem dayEntries_dates (seen : List Account) (pd : ProcDay) (hp : ProcDates pd) :
    ∀ e ∈ (dayEntries seen pd).2, e.date = pd.date := by
  intro e he
  simp only [dayEntries, List.mem_append, List.mem_map] at he
  rcases he with ((⟨o, ho, rfl⟩ | ⟨o, ho, rfl⟩) | ⟨t, ht, rfl⟩) | ⟨c, hc, rfl⟩
  · exact hp.opens o ho
  · exact synthOpens_dates pd.date seen _ (fun t ht => hp.txs t ((mem_sortTxs _ _).mp ht)) o ho
  · exact hp.txs t ((mem_sortTxs _ _).mp ht)
  · exact hp.closes c hc

theorem entriesFrom_dates (pds : List ProcDay) (hp : ∀ pd ∈ pds, ProcDates pd) : ∀ (seen : List Account),
    ∀ e ∈ entriesFrom seen pds, ∃ pd ∈ pds, e.date = pd.date := by
  induction pds with
  | nil => intro seen e he; cases he
  | cons pd rest ih =>
    intro seen e he
    simp only [entriesFrom, List.mem_append] at he
    rcases he with he | he
    · exact ⟨pd, List.mem_cons_self, dayEntries_dates seen pd (hp pd List.mem_cons_self) e he⟩
    · obtain ⟨pd', hpd', hd⟩ := ih (fun pd' h' => hp pd' (List.mem_cons_of_mem _ h')) _ e he
      exact ⟨pd', List.mem_cons_of_mem _ hpd', hd⟩

theorem entriesFrom_pairwise (pds : List ProcDay) (hs : List.Pairwise (fun a b => a.date < b.date) pds)
    (hp : ∀ pd ∈ pds, ProcDates pd) : ∀ (seen : List Account),
    List.Pairwise (fun a b => a.date ≤ b.date) (entriesFrom seen pds) := by
  induction pds with
  | nil => intro seen; exact List.Pairwise.nil
  | cons pd rest ih =>
    intro seen
    simp only [entriesFrom]
    rw [List.pairwise_append]
    rw [List.pairwise_cons] at hs
    refine ⟨?_, ih hs.2 (fun pd' h' => hp pd' (List.mem_cons_of_mem _ h')) _, ?_⟩
    · rw [List.pairwise_iff_forall_sublist]
      intro a b hab
      have ha := dayEntries_dates seen pd (hp pd List.mem_cons_self) a (hab.subset (by simp))
      have hb := dayEntries_dates seen pd (hp pd List.mem_cons_self) b (hab.subset (by simp))
      omega
    · intro a ha b hb
      have h1 := dayEntries_dates seen pd (hp pd List.mem_cons_self) a ha
      obtain ⟨pd', hpd', h2⟩ := entriesFrom_dates rest (fun pd' h' => hp pd' (List.mem_cons_of_mem _ h')) _ b hb
      have := hs.1 pd' hpd'
      omega

theorem chronological_of_pairwise : ∀ (es : List BEntry), List.Pairwise (fun a b => a.date ≤ b.date) es →
    chronological es = true := by
  intro es
  induction es with
  | nil => intro _; rfl
  | cons a rest ih =>
    intro h
    cases rest with
    | nil => rfl
    | cons b rest' =>
      rw [List.pairwise_cons] at h
      simp only [chronological, Bool.and_eq_true, decide_eq_true_eq]
      exact ⟨h.1 b List.mem_cons_self, ih h.2⟩

/-! ### the processed days against the journal's days -/

theorem processed_fields {v : Commodity} {days : List Day} {pds : List ProcDay} (h : Processed v days pds) :
    pds.map (·.date) = days.map (·.date) ∧ pds.flatMap (·.openings) = days.flatMap (·.openings) ∧
    pds.flatMap (·.closings) = days.flatMap (·.closings) := by
  induction h with
  | nil => exact ⟨rfl, rfl, rfl⟩
  | cons hd _ ih =>
    obtain ⟨s, s', hd⟩ := hd
    obtain ⟨_, _, _, _, _, _, _, _, h1, h2, h3⟩ := processDay_parts hd
    obtain ⟨i1, i2, i3⟩ := ih
    simp [h1, h2, h3, i1, i2, i3]

theorem processed_dates {v : Commodity} {days : List Day} {pds : List ProcDay} (h : Processed v days pds)
    (hd : ∀ d ∈ days, DayDates d) : ∀ pd ∈ pds, ProcDates pd := by
  induction h with
  | nil => intro pd hpd; cases hpd
  | cons hday _ ih =>
    obtain ⟨s, s', hday⟩ := hday
    intro pd' hpd'
    rcases List.mem_cons.mp hpd' with rfl | hpd'
    · exact (processDay_dates (hd _ List.mem_cons_self) hday).2
    · exact ih (fun d' hd' => hd d' (List.mem_cons_of_mem _ hd')) pd' hpd'

theorem processed_sorted {v : Commodity} {days : List Day} {pds : List ProcDay} (h : Processed v days pds)
    (hs : Sorted days) : List.Pairwise (fun a b => a.date < b.date) pds := by
  have h1 : List.Pairwise (· < ·) (days.map (·.date)) := by
    unfold Sorted at hs; rw [List.pairwise_map]; exact hs
  rw [← (processed_fields h).1, List.pairwise_map] at h1
  exact h1

/-- a successful `mapM` over an append splits -/
theorem mapM_append_ok {α β ε : Type} (f : α → Except ε β) : ∀ (xs ys : List α) (rs : List β),
    (xs ++ ys).mapM f = .ok rs → ∃ r1 r2, xs.mapM f = .ok r1 ∧ ys.mapM f = .ok r2 ∧ rs = r1 ++ r2 := by
  intro xs
  induction xs with
  | nil => intro ys rs h; exact ⟨[], rs, by simp [List.mapM_nil, pure, Except.pure], by simpa using h, rfl⟩
  | cons x rest ih =>
    intro ys rs h
    simp only [List.cons_append, List.mapM_cons, bind, Except.bind] at h
    cases hx : f x with
    | error e => rw [hx] at h; cases h
    | ok x' =>
      rw [hx] at h; simp only at h
      cases hr : (rest ++ ys).mapM f with
      | error e => rw [hr] at h; cases h
      | ok rs' =>
        rw [hr] at h; simp only [pure, Except.pure] at h
        injection h with h; subst h
        obtain ⟨r1, r2, h1, h2, h3⟩ := ih ys rs' hr
        refine ⟨x' :: r1, r2, ?_, h2, by simp [h3]⟩
        simp only [List.mapM_cons, bind, Except.bind, hx, h1, pure, Except.pure]

theorem mapM_length {α β ε : Type} (f : α → Except ε β) : ∀ (xs : List α) (rs : List β),
    xs.mapM f = .ok rs → rs.length = xs.length := by
  intro xs
  induction xs with
  | nil => intro rs h; simp [List.mapM_nil, pure, Except.pure] at h; subst h; rfl
  | cons x rest ih =>
    intro rs h
    simp only [List.mapM_cons, bind, Except.bind] at h
    cases hx : f x with
    | error e => rw [hx] at h; cases h
    | ok x' =>
      rw [hx] at h; simp only at h
      cases hr : rest.mapM f with
      | error e => rw [hr] at h; cases h
      | ok rs' =>
        rw [hr] at h; simp only [pure, Except.pure] at h
        injection h with h; subst h
        simp [ih rs' hr]

/-- what the loader produces is paired -/
theorem ofBookings_paired (date : Int) (desc : String) (tg : Option (List Commodity)) (bks : List Booking) :
    TxPaired (Transaction.ofBookings date desc tg bks) := by
  unfold TxPaired Transaction.ofBookings
  simp only
  induction bks with
  | nil => exact Paired.nil
  | cons b rest ih => simp only [List.flatMap_cons]; exact (paired_postingBuild _ _ _ _ _).append ih

/-! ### the builder files every directive under its own date -/

theorem findDay_of_mem : ∀ (days : List Day), Sorted days → ∀ d ∈ days, findDay days d.date = some d := by
  intro days
  induction days with
  | nil => intro _ d hd; cases hd
  | cons x rest ih =>
    intro hs d hd
    unfold Sorted at hs
    rw [List.pairwise_cons] at hs
    rcases List.mem_cons.mp hd with rfl | hd
    · simp [findDay]
    · have hlt := hs.1 d hd
      have hne : ¬ x.date = d.date := by omega
      have := ih hs.2 d hd
      unfold findDay at this ⊢
      simp only [List.find?_cons, hne, decide_false]
      exact this

theorem ofList_kind_dates {α : Type} (k : Kind α) (dateOf : α → Int)
    (hpick : ∀ x a, k.pick x = some a → x.date = dateOf a) (ds : List Directive) :
    ∀ d ∈ (Builder.ofList ds).days, ∀ a ∈ k.proj d, dateOf a = d.date := by
  intro d hd a ha
  obtain ⟨hs, hc⟩ := ofList_spec k ds
  have h1 := hc d.date
  unfold contentOn at h1
  rw [findDay_of_mem _ hs d hd] at h1
  simp only [Option.map_some, Option.getD_some] at h1
  rw [h1] at ha
  unfold collect at ha
  obtain ⟨x, _, hx⟩ := List.mem_filterMap.mp ha
  split at hx
  · rename_i hdx; rw [← hdx]; exact (hpick x a hx).symm
  · cases hx

theorem ofList_dayDates (ds : List Directive) : ∀ d ∈ (Builder.ofList ds).build, DayDates d := by
  intro d hd
  refine ⟨?_, ?_, ?_⟩
  · exact ofList_kind_dates openKind (·.date) (by intro x a h; cases x <;> simp [openKind] at h; subst h; rfl) ds d hd
  · exact ofList_kind_dates closeKind (·.date) (by intro x a h; cases x <;> simp [closeKind] at h; subst h; rfl) ds d hd
  · exact ofList_kind_dates txKind (·.date) (by intro x a h; cases x <;> simp [txKind] at h; subst h; rfl) ds d hd

end Knut.Beancount
