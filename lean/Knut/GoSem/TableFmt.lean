import Knut.GoSem.Fmt
/-!
# Prelude of the translated table renderers (`lib/common/table`; `harness/trans_units_tablerender.go`)

* `github.com/fatih/color` v1.15.0: a `*color.Color` is its list of SGR parameters.  `(*Color).Fprintf(w, f, a…)` is
  `SetWriter(w)` (writes the escape sequence `ESC [ p1;p2;… m` unless colour is off), `fmt.Fprintf(w, f, a…)`, `UnsetWriter(w)` (writes
  the reset sequence `ESC [ 0 m` unless colour is off); its results are those of `fmt.Fprintf`.  Colour is off when the package
  variable `color.NoColor` is true, or when the colour object was created while the environment variable `NO_COLOR` was set
  (`color.New` stores that; the translated code creates its colours in package-level initialisers, i.e. when the process starts):
  `Color.State` holds both.
* `%f` of a `float64` (with width and precision) is NOT given a meaning: `Fmt.FloatFmt` is the type of the formatting function the
  translated functions take as a parameter (the verb as written in the format string, the operands of its `*`s, the exact value).
* `make([]T, n)`: `n` zero values; a negative length panics.  `Slices`: the capacity of a slice as `Option Int` (see below).

`Color.Fprintf` and `makeSlice` are compared with real Go by the stream `gosemtable` of C11 (`harness/gosem_table.go`).
-/
namespace Knut.GoSem

/-- `*color.Color`: the SGR parameters given to `color.New` -/
structure Color where
  params : List Int
  deriving DecidableEq, Repr

namespace Color
/-- `color.NoColor` (the package variable) and whether `NO_COLOR` was set when the process started -/
structure State where
  NoColor : Bool
  envNoColor : Bool
  deriving DecidableEq, Repr

/-- `color.New(attrs…)` -/
def New (ps : List Int) : Color := ⟨ps⟩

/-- `(*Color).sequence`: the parameters joined by `;` -/
def sequence (c : Color) : String := ";".intercalate (c.params.map (fun p => toString p))

/-- colour is off: `(*Color).isNoColorSet` -/
def off (st : State) : Bool := st.envNoColor || st.NoColor

/-- `c.Fprintf(w, format, a…)` for the formatted `text`: the new text of the writer, and the results of the inner `fmt.Fprintf` -/
def Fprintf (st : State) (c : Color) (w text : String) : String × Int × Option Error :=
  if off st then Writer.Write w text
  else (w ++ "\x1b[" ++ c.sequence ++ "m" ++ text ++ "\x1b[0m", Strings.byteLen text, none)

/-- with colour off `c.Fprintf` is `fmt.Fprintf` -/
theorem Fprintf_off (st : State) (c : Color) (w text : String) (h : st.NoColor = true) :
    Fprintf st c w text = Writer.Write w text := by
  simp [Fprintf, off, h]
end Color

namespace Fmt
/-- what `fmt` prints for a verb `%[width][.prec]f` of a `float64`: the verb as written, the operands of its `*`s, the value
(an exact rational in the reading of `GoSem/Float.lean`).  No meaning is given: a parameter of the translated functions. -/
abbrev FloatFmt := String → List Int → Rat → String
end Fmt

/-- `make([]T, n)` -/
def makeSlice {α : Type} [GoZero α] (n : Int) : Outcome (List α) :=
  if n < 0 then .panic "runtime error: makeslice: len out of range" else .ok (List.replicate n.toNat GoZero.zero)

/-! The CAPACITY of a slice, for the struct fields whose capacity the translated code observes (`cap(r.cells)` in `Row.FillEmpty`):
`some n`, or `none` = unknown: after an `append` that did not fit, the runtime decides the capacity of the new array. -/
namespace Slices
def capUnknown : String := "cap of a slice that append has reallocated: its capacity is decided by the runtime, outside the reading"

/-- the capacity of `make([]T, 0, n)`; a negative capacity panics -/
def makeCap (n : Int) : Outcome (Option Int) :=
  if n < 0 then .panic "runtime error: makeslice: cap out of range" else .ok (some n)

/-- the capacity after `append` to the new length `newLen` -/
def appendCap (cap : Option Int) (newLen : Int) : Option Int :=
  match cap with
  | some c => if newLen ≤ c then some c else none
  | none => none

/-- `cap(xs)` -/
def capE (cap : Option Int) : Outcome Int :=
  match cap with
  | some c => .ok c
  | none => .panic capUnknown
end Slices

end Knut.GoSem
