import Knut.Proofs.InsertsPermValued
import Knut.Properties.C05Inserts
/-!
# C05/C06 — the balance report, VALUED or not, does not depend on the order of the directives

Extension of `Knut.Properties.C05Inserts` (which needs `cfg.valuation = none`) to every configuration, `--val`
included.  Two day lists correspond (`DayEquivP`) when they agree day by day up to the order of the openings,
transactions, assertions and closings, and the price declarations of each day are the same list or a permutation
in which no two declarations are about the same unordered pair of commodities.  (The property excludes journals
with two prices for one pair on one day: there the later one wins, and the order does matter —
`C05_two_prices_one_day_order_matters`.)

* `C05_inserts_perm_valued` – the two runs insert the same MULTISET of report entries.  The lists do differ
  (`C05_valued_inserts_order_differs`): the value adjustments are generated in the key order of the Valuate stage's
  quantity map, the closings in the key order of the CloseAccounts accumulators, both follow the posting order.
* `C05_run_ok_perm_valued` – one run succeeds iff the other does: checker verdict, zero price, and missing price of
  a position to adjust or a posting to value.
* `C05_inserts_wf_valued`, `C05_report_perm_valued` – well-formed accounts in, well-formed accounts out (adjustments
  book on the position's account and on `Income:…`); hence the same table for every renderer configuration.
* **`C05_balance_output_perm_valued`** – `knut balance` (model `BalanceCmd.run`, any flags) prints byte for byte the
  same, or fails alike, for every permutation of the directives, provided the bookings are on accounts with an account
  type (`DirsWF`) and no date carries two price directives for one pair of commodities (`PricesDistinct`).

Nothing is left open for C05/C06 at the level of the pipeline model; the order of the postings inside a transaction
and of the balances inside an assertion is fixed (it is part of the directive).
-/
namespace Knut.C05
open Knut Knut.Spec Knut.InsertsPerm Knut.InsertsPermValued

/-- **the multiset of report inserts is order-independent**, valued or not, closing on or off -/
theorem C05_inserts_perm_valued (cfg : BalCfg) (days days' : List Day) (h : List.Forall₂ DayEquivP days days')
    (st st' : BalState) (h1 : Balance.run cfg days = .ok st) (h2 : Balance.run cfg days' = .ok st') :
    st.entries.Perm st'.entries := by
  have := run_sim cfg h {} {} relV_init
  unfold Balance.run at h1 h2
  rw [h1, h2] at this
  exact this.ent

/-- a run succeeds for both orders or for neither (checker verdict, zero price, missing price) -/
theorem C05_run_ok_perm_valued (cfg : BalCfg) (days days' : List Day) (h : List.Forall₂ DayEquivP days days') :
    (Balance.run cfg days).isOk = (Balance.run cfg days').isOk :=
  psim_isOk (run_sim cfg h {} {} relV_init)

/-- the report inserts of a journal with well-formed accounts are on well-formed accounts -/
theorem C05_inserts_wf_valued (cfg : BalCfg) (days : List Day) (hwf : ∀ d ∈ days, TxsWF d.transactions)
    (st : BalState) (h1 : Balance.run cfg days = .ok st) : ReportPerm.WF st.entries :=
  (run_wfv cfg days hwf {} st wfv_init h1).ent

/-- **same table** for every renderer configuration -/
theorem C05_report_perm_valued (cfg : BalCfg) (rc : RenderCfg) (days days' : List Day)
    (h : List.Forall₂ DayEquivP days days') (hwf : ∀ d ∈ days, TxsWF d.transactions) (st st' : BalState)
    (h1 : Balance.run cfg days = .ok st) (h2 : Balance.run cfg days' = .ok st') :
    BalanceReport.table rc st.entries = BalanceReport.table rc st'.entries :=
  C06.table_perm rc _ _ (C05_inserts_perm_valued cfg days days' h st st' h1 h2) (C05_inserts_wf_valued cfg days hwf st h1)

/-! ### from permuted directive lists to corresponding day lists -/

instance : DecidableRel SamePair := fun p q => by unfold SamePair; exact inferInstance

/-- on every date, no two price directives of that date are about the same unordered pair of commodities -/
def PricesDistinct (ds : List Directive) : Prop := ∀ y, PairsDistinct ((collect priceKind ds y).map toDecl)

/-- two price directives of one date about the same pair -/
def clash (x y : Directive) : Prop :=
  match x, y with
  | .price p, .price q => p.date = q.date ∧ SamePair (toDecl p) (toDecl q)
  | _, _ => False

instance : DecidableRel clash := fun x y => by unfold clash; split <;> exact inferInstance

/-- a decidable sufficient (and necessary) criterion -/
theorem pricesDistinct_of_pairwise {ds : List Directive} (h : ds.Pairwise (fun x y => ¬ clash x y)) : PricesDistinct ds := by
  intro y
  unfold PairsDistinct collect
  rw [List.pairwise_map, List.pairwise_filterMap]
  refine h.imp ?_
  intro a b hab p hp q hq hs
  split at hp
  · rename_i e1
    split at hq
    · rename_i e2
      cases a <;> simp only [priceKind, Option.some.injEq, reduceCtorEq] at hp
      cases b <;> simp only [priceKind, Option.some.injEq, reduceCtorEq] at hq
      subst hp; subst hq
      exact hab ⟨e1.trans e2.symm, hs⟩
    · cases hq
  · cases hp
theorem C05_days_equivP (ds ds' : List Directive) (hp : ds.Perm ds') (hpr : PricesDistinct ds) :
    List.Forall₂ DayEquivP (Builder.ofList ds).build (Builder.ofList ds').build := by
  unfold Builder.build
  apply forall₂_of_dates _ _ (C05_same_dates ds ds' hp)
  intro d hd d' hd' hdate
  have hs := (ofList_spec txKind ds).1
  have hs' := (ofList_spec txKind ds').1
  have key : ∀ {α : Type} (k : Kind α), (k.proj d).Perm (k.proj d') := by
    intro α k
    have := C05_same_day_content k ds ds' hp d.date
    rw [contentOn_self k _ hs d hd, hdate, contentOn_self k _ hs' d' hd'] at this
    exact this
  refine ⟨⟨hdate, key openKind, key txKind, key assertKind, key closeKind⟩, Or.inr ⟨(key priceKind).map _, ?_⟩⟩
  have := contentOn_self priceKind _ hs d hd
  rw [(ofList_spec priceKind ds).2] at this
  show PairsDistinct (List.map toDecl (priceKind.proj d))
  rw [← this]
  exact hpr d.date

theorem dayEquivP_refl (d : Day) : DayEquivP d d := ⟨dayEquiv_refl d, Or.inl rfl⟩

theorem insertDay_equivP {l l' : List Day} (h : List.Forall₂ DayEquivP l l') (date : Int) :
    List.Forall₂ DayEquivP (insertDay l date) (insertDay l' date) := by
  induction h with
  | nil => exact .cons (dayEquivP_refl _) .nil
  | @cons d d' r r' hd hr ih =>
    unfold insertDay
    rw [← hd.1.1]
    split
    · exact .cons (dayEquivP_refl _) (.cons hd hr)
    · split
      · exact .cons hd hr
      · exact .cons hd ih

theorem ensureDays_equivP (dates : List Int) : ∀ {l l' : List Day}, List.Forall₂ DayEquivP l l' →
    List.Forall₂ DayEquivP (dates.foldl insertDay l) (dates.foldl insertDay l') := by
  induction dates with
  | nil => intro l l' h; exact h
  | cons x rest ih => intro l l' h; exact ih (insertDay_equivP h x)

/-- both outcomes of the entries stage, given corresponding day lists -/
theorem entries_core_valued (cfg : BalCfg) (days days' : List Day)
    (heq : List.Forall₂ DayEquivP days days') (hw : ∀ d ∈ days, TxsWF d.transactions) (part : Partition) :
    match (match Balance.run cfg days with
        | .error _ => .error (.error "processing")
        | .ok st => .ok (st.entries, part) : Except CmdOutcome (List Entry × Partition)),
      (match Balance.run cfg days' with
        | .error _ => .error (.error "processing")
        | .ok st => .ok (st.entries, part) : Except CmdOutcome (List Entry × Partition)) with
    | .ok (es, part), .ok (es', part') => es.Perm es' ∧ part = part' ∧ ReportPerm.WF es
    | .error o, .error o' => o = o'
    | _, _ => False := by
  have hok := C05_run_ok_perm_valued cfg _ _ heq
  cases h1 : Balance.run cfg days with
  | error e =>
    cases h2 : Balance.run cfg days' with
    | error e' => simp only
    | ok st' => rw [h1, h2] at hok; cases hok
  | ok st =>
    cases h2 : Balance.run cfg days' with
    | error e' => rw [h1, h2] at hok; cases hok
    | ok st' =>
      simp only
      exact ⟨C05_inserts_perm_valued cfg _ _ heq st st' h1 h2, trivial, C05_inserts_wf_valued cfg _ hw st h1⟩

/-- the outcome of the entries stage of `knut balance` (with or without `--val`) for two directive orders -/
theorem entries_perm_valued (f : BalanceFlags) (ds ds' : List Directive) (hp : ds.Perm ds')
    (hwf : DirsWF ds) (hpr : PricesDistinct ds) :
    match BalanceCmd.entries f ds, BalanceCmd.entries f ds' with
    | .ok (es, part), .ok (es', part') => es.Perm es' ∧ part = part' ∧ ReportPerm.WF es
    | .error o, .error o' => o = o'
    | _, _ => False := by
  have hwin : BalanceCmd.window f (Builder.ofList ds) = BalanceCmd.window f (Builder.ofList ds') := by
    unfold BalanceCmd.window
    rw [(builder_period ds).1, (builder_period ds').1, (builder_period ds).2, (builder_period ds').2,
      (C05_journal_period_perm ds ds' hp).1, (C05_journal_period_perm ds ds' hp).2]
  unfold BalanceCmd.entries
  simp only [hwin]
  cases newPartition (BalanceCmd.window f (Builder.ofList ds')) f.interval f.last with
  | panic s => simp only
  | ok part =>
    simp only
    have heq : List.Forall₂ DayEquivP
        (if f.close = true then (Builder.ofList ds).ensureDays part.startDates else Builder.ofList ds).build
        (if f.close = true then (Builder.ofList ds').ensureDays part.startDates else Builder.ofList ds').build := by
      have := C05_days_equivP ds ds' hp hpr
      split
      · exact ensureDays_equivP _ this
      · exact this
    have hw : ∀ d ∈ (if f.close = true then (Builder.ofList ds).ensureDays part.startDates else Builder.ofList ds).build,
        TxsWF d.transactions := by
      intro d hd
      split at hd
      · rcases ensureDays_txs _ hd with h | h
        · exact built_wf hwf d h
        · rw [h]; intro t ht; cases ht
      · exact built_wf hwf d hd
    exact entries_core_valued _ _ _ heq hw part

/-- **permuting the directives of a journal does not change a byte of the balance report, valued or not**, provided
no date carries two price directives for the same pair of commodities -/
theorem C05_balance_output_perm_valued (f : BalanceFlags) (ds ds' : List Directive) (hp : ds.Perm ds')
    (hwf : DirsWF ds) (hpr : PricesDistinct ds) : BalanceCmd.run f ds = BalanceCmd.run f ds' := by
  have := entries_perm_valued f ds ds' hp hwf hpr
  unfold BalanceCmd.run
  cases h1 : BalanceCmd.entries f ds with
  | error o =>
    cases h2 : BalanceCmd.entries f ds' with
    | error o' => rw [h1, h2] at this; simp only at this ⊢; exact this
    | ok r => rw [h1, h2] at this; exact this.elim
  | ok r =>
    cases h2 : BalanceCmd.entries f ds' with
    | error o' => rw [h1, h2] at this; exact this.elim
    | ok r' =>
      obtain ⟨es, part⟩ := r
      obtain ⟨es', part'⟩ := r'
      rw [h1, h2] at this
      simp only at this ⊢
      obtain ⟨hperm, hpart, hw⟩ := this
      subst hpart
      rw [ReportPerm.table_perm_wf _ es es' hperm hw]

/-! ### Non-vacuity: a valued report over two periods, two prices per price day, closing enabled -/

def vPortA : Account := ⟨["Assets", "PortfolioA"]⟩
def vPortB : Account := ⟨["Assets", "PortfolioB"]⟩
def vEq : Account := ⟨["Equity", "Opening"]⟩
def vDirs : List Directive :=
  [.opening ⟨1, vPortA⟩, .opening ⟨1, vPortB⟩, .opening ⟨1, vEq⟩, .opening ⟨1, xSal⟩,
   .price ⟨1, "AAA", 2, "CHF"⟩, .price ⟨1, "BBB", 3, "USD"⟩,
   .tx ⟨2, "buy AAA", postingBuild vEq vPortA "AAA" 10, none⟩,
   .tx ⟨2, "buy AAA", postingBuild xSal vPortB "AAA" 5, none⟩,
   .price ⟨40, "AAA", 3, "CHF"⟩, .price ⟨40, "BBB", 5, "USD"⟩,
   .tx ⟨41, "buy AAA", postingBuild xSal vPortB "AAA" 1, none⟩]
def vFlags : BalanceFlags := { to := 50, interval := .monthly, valuation := some "CHF" }

theorem vDirs_distinct : PricesDistinct vDirs := pricesDistinct_of_pairwise (by decide)

theorem vDirs_wf : DirsWF vDirs := by
  intro t ht p hp
  simp only [vDirs, List.mem_cons, List.not_mem_nil, or_false, reduceCtorEq, false_or, Directive.tx.injEq] at ht
  rcases ht with rfl | rfl | rfl <;> simp only [postingBuild, List.mem_cons, List.not_mem_nil, or_false] at hp <;>
    rcases hp with rfl | rfl <;> simp only <;> split <;> rfl

/-- the theorem applies to the journal read backwards … -/
example : BalanceCmd.run vFlags vDirs = BalanceCmd.run vFlags vDirs.reverse :=
  C05_balance_output_perm_valued vFlags _ _ (List.reverse_perm _).symm vDirs_wf vDirs_distinct

/-- … both runs succeed with 14 report inserts (6 bookings, 2 value adjustment pairs on day 40, 2 closing pairs at the
second period start), and the two insert LISTS differ: the permutation in `C05_inserts_perm_valued` cannot be an
equality -/
theorem C05_valued_inserts_order_differs :
    (match BalanceCmd.entries vFlags vDirs, BalanceCmd.entries vFlags vDirs.reverse with
      | .ok (es, _), .ok (es', _) => decide (es.length = 14 ∧ es ≠ es')
      | _, _ => false) = true := by decide +kernel

/-! ### The hypothesis on the prices is needed: two prices for one pair on one day -/

def vBad : List Directive :=
  [.opening ⟨1, vPortA⟩, .opening ⟨1, vEq⟩,
   .price ⟨1, "AAA", 2, "CHF"⟩, .price ⟨1, "AAA", 3, "CHF"⟩,
   .tx ⟨2, "buy AAA", postingBuild vEq vPortA "AAA" 10, none⟩]

/-- the later declaration wins: 10 AAA are worth 30 CHF in file order, 20 CHF in reverse order (the rendered reports
differ accordingly) -/
theorem C05_two_prices_one_day_order_matters :
    (match BalanceCmd.entries vFlags vBad, BalanceCmd.entries vFlags vBad.reverse with
      | .ok (es, _), .ok (es', _) => decide (es.map (·.amount) = [-30, 30] ∧ es'.map (·.amount) = [-20, 20])
      | _, _ => false) = true := by decide +kernel

example : ¬ PricesDistinct vBad := fun h => absurd (h 1) (by unfold PairsDistinct; decide)

end Knut.C05
