import Knut.Proofs.PrintCommands
import Knut.Proofs.ImportWF
/-!
# The directives an importer builds are printable (C13, text level)

`wellFormed` (names valid for registry and parser, quote-free description, postings in pairs; proved for all eleven
importers in `Proofs/ImportWF.lean`) together with `Fine` (dates in the range of `time.Parse`, amounts decimal rationals,
transactions built by `transaction.Builder.Build`) gives `PrintableDir`, the hypothesis of the print-then-parse round
trip of C09. Here: the bridge, and the facts about the library models the importers call (`time.Parse` for the five
layouts yields the years 0000..9999; `decimal.NewFromString` yields decimal rationals, closed under the arithmetic the
importers do).
-/
namespace Knut.Proofs.Import
open Knut Knut.Import Knut.Spec.Import Knut.FromSyntax Knut.JournalPrinter

/-- a decimal rational -/
def IsDec (q : Rat) : Prop := ∃ k, q.den ∣ 10 ^ k

theorem IsDec.printable {q : Rat} (h : IsDec q) : PrintableQty q := by
  obtain ⟨k, hk⟩ := h
  exact Dec.dvd_pow10_self _ k hk

theorem isDec_neg {q : Rat} (h : IsDec q) : IsDec (-q) := by
  obtain ⟨k, hk⟩ := h
  exact ⟨k, by rw [Rat.neg_den]; exact hk⟩

theorem isDec_add {a b : Rat} (ha : IsDec a) (hb : IsDec b) : IsDec (a + b) := by
  obtain ⟨i, hi⟩ := ha
  obtain ⟨j, hj⟩ := hb
  exact ⟨i + j, Dec.dec_add a b i j hi hj⟩

theorem isDec_sub {a b : Rat} (ha : IsDec a) (hb : IsDec b) : IsDec (a - b) := by
  rw [Rat.sub_eq_add_neg]; exact isDec_add ha (isDec_neg hb)

theorem isDec_mul {a b : Rat} (ha : IsDec a) (hb : IsDec b) : IsDec (a * b) := by
  obtain ⟨i, hi⟩ := ha
  obtain ⟨j, hj⟩ := hb
  exact ⟨i + j, Dec.dec_mul a b i j hi hj⟩

theorem isDec_int (n : Int) : IsDec (n : Rat) := ⟨0, by simp⟩
theorem isDec_zero : IsDec 0 := ⟨0, by simp⟩

theorem isDec_mkRat (m : Int) (k : Nat) : IsDec (mkRat m (10 ^ k)) := ⟨k, Dec.den_mkRat_pow10_dvd m k⟩

theorem isDec_round (n : Nat) (r : Rat) : IsDec (Dec.roundHalfAway n r) := isDec_mkRat _ n

theorem isDec_scale10 (v e : Int) : IsDec (scale10 v e) := by
  unfold scale10
  split
  · exact isDec_int _
  · exact isDec_mkRat _ _

/-- `decimal.NewFromString` yields a decimal rational -/
theorem isDec_newFromString {s : String} {q : Rat} (h : newFromString s = some q) : IsDec q := by
  unfold newFromString at h
  simp only at h
  repeat' (split at h)
  all_goals first | (cases h; done) | (simp only [Option.some.injEq] at h; subst h; exact isDec_scale10 _ _)

theorem isDec_apos {s : String} {q : Rat} (h : parseDecimalApos s = some q) : IsDec q := isDec_newFromString h
theorem isDec_comma {s : String} {q : Rat} (h : parseDecimalComma s = some q) : IsDec q := isDec_newFromString h

/-! ### `time.Parse` -/

theorem ofCivil_range (y m d : Int) (hy0 : 0 ≤ y) (hy1 : y ≤ 9999) (hm0 : 1 ≤ m) (hm1 : m ≤ 12) (hd0 : 1 ≤ d)
    (hd1 : d ≤ Knut.Import.daysIn y m) : PrintableDate (Date.ofCivil y m d) := by
  unfold PrintableDate Date.ofCivil
  have e1 : (m - 1) / 12 = 0 := by omega
  have e2 : (m - 1) % 12 + 1 = m := by omega
  simp only [e1, e2, Int.add_zero]
  have h0 : Date.yearStart 0 ≤ Date.yearStart y := Date.yearStart_mono hy0
  have h1 : Date.yearStart (y + 1) ≤ Date.yearStart 10000 := Date.yearStart_mono (by omega)
  have e0 : Date.yearStart 0 = -366 := by decide
  have e9 : Date.yearStart 10000 = 3652059 := by decide
  have hs := Date.yearStart_succ y
  have hc : 0 ≤ Date.cumDays (Date.isLeap y) m ∧
      Date.cumDays (Date.isLeap y) m + Knut.Import.daysIn y m ≤ Date.yearLen y := by
    have : m = 1 ∨ m = 2 ∨ m = 3 ∨ m = 4 ∨ m = 5 ∨ m = 6 ∨ m = 7 ∨ m = 8 ∨ m = 9 ∨ m = 10 ∨ m = 11 ∨ m = 12 := by omega
    rcases this with rfl | rfl | rfl | rfl | rfl | rfl | rfl | rfl | rfl | rfl | rfl | rfl <;>
      cases hl : Date.isLeap y <;> simp [Date.cumDays, Knut.Import.daysIn, Date.yearLen, hl]
  simp only [minDate, maxDate]
  omega

theorem lookupName_go_lt (v : List Char) (tab : List String) (i : Nat) (j : Nat) (rest : List Char)
    (h : lookupName.go v i tab = some (j, rest)) : j < i + tab.length := by
  induction tab generalizing i with
  | nil => simp [lookupName.go] at h
  | cons n tl ih =>
    simp only [lookupName.go] at h
    split at h
    · simp only [Option.some.injEq, Prod.mk.injEq] at h
      simp only [List.length_cons]; omega
    · have := ih (i + 1) h
      simp only [List.length_cons]; omega

theorem charVal_le {c : Char} (h : isDig c = true) : charVal c ≤ 9 := by
  simp only [isDig, Bool.and_eq_true, decide_eq_true_eq, Char.le_def] at h
  show c.toNat - 48 ≤ 9
  have h1 := h.1
  have h2 := h.2
  have e0 : ('0' : Char).val.toNat = 48 := rfl
  have e9 : ('9' : Char).val.toNat = 57 := rfl
  have ec : c.val.toNat = c.toNat := rfl
  simp only [UInt32.le_iff_toNat_le] at h1 h2
  omega

/-- a layout that sets the month -/
def setsMonth : List LEl → Bool
  | [] => false
  | .mon2 :: _ => true
  | .monShort :: _ => true
  | .monLong :: _ => true
  | _ :: els => setsMonth els

/-- a layout that sets the year -/
def setsYear : List LEl → Bool
  | [] => false
  | .year4 :: _ => true
  | _ :: els => setsYear els

theorem parseEls_inv (els : List LEl) (acc : YMD) (v : List Char) (r : YMD) (h : parseEls els acc v = some r) :
    ((0 ≤ acc.y ∧ acc.y ≤ 9999) ∨ setsYear els = true → 0 ≤ r.y ∧ r.y ≤ 9999) ∧
    ((1 ≤ acc.m ∧ acc.m ≤ 12) ∨ setsMonth els = true → 1 ≤ r.m ∧ r.m ≤ 12) := by
  induction els generalizing acc v with
  | nil =>
    simp only [parseEls] at h
    split at h
    · simp only [Option.some.injEq] at h; subst h
      simp [setsYear, setsMonth]
    · cases h
  | cons e els ih =>
    cases e with
    | lit p =>
      simp only [parseEls, Option.bind_eq_some_iff] at h
      obtain ⟨v', _, h⟩ := h
      simpa [setsYear, setsMonth] using ih acc v' h
    | day2 =>
      simp only [parseEls, Option.bind_eq_some_iff] at h
      obtain ⟨⟨n, v'⟩, _, h⟩ := h
      simpa [setsYear, setsMonth] using ih _ v' h
    | day =>
      simp only [parseEls, Option.bind_eq_some_iff] at h
      obtain ⟨⟨n, v'⟩, _, h⟩ := h
      simpa [setsYear, setsMonth] using ih _ v' h
    | mon2 =>
      simp only [parseEls, Option.bind_eq_some_iff] at h
      obtain ⟨⟨n, v'⟩, _, h⟩ := h
      simp only at h
      split at h
      · cases h
      · rename_i hn
        simp only [Bool.or_eq_true, decide_eq_true_eq, not_or, Nat.not_lt] at hn
        have := ih _ v' h
        simp only [setsYear, setsMonth, or_true, true_implies] at this ⊢
        exact ⟨this.1, this.2 (Or.inl ⟨by first | omega | (dsimp only; omega), by first | omega | (dsimp only; omega)⟩)⟩
    | monShort =>
      simp only [parseEls, Option.bind_eq_some_iff] at h
      obtain ⟨⟨i, v'⟩, hl, h⟩ := h
      have hi := lookupName_go_lt _ _ _ _ _ hl
      simp only [shortMonths, List.length_cons, List.length_nil] at hi
      have := ih _ v' h
      simp only [setsYear, setsMonth, or_true, true_implies] at this ⊢
      exact ⟨this.1, this.2 (Or.inl ⟨by first | omega | (dsimp only; omega), by first | omega | (dsimp only; omega)⟩)⟩
    | monLong =>
      simp only [parseEls, Option.bind_eq_some_iff] at h
      obtain ⟨⟨i, v'⟩, hl, h⟩ := h
      have hi := lookupName_go_lt _ _ _ _ _ hl
      simp only [longMonths, List.length_cons, List.length_nil] at hi
      have := ih _ v' h
      simp only [setsYear, setsMonth, or_true, true_implies] at this ⊢
      exact ⟨this.1, this.2 (Or.inl ⟨by first | omega | (dsimp only; omega), by first | omega | (dsimp only; omega)⟩)⟩
    | year4 =>
      simp only [parseEls] at h
      split at h
      · rename_i a b c d v'
        split at h
        · rename_i hd
          simp only [Bool.and_eq_true] at hd
          have ha := charVal_le hd.1.1.1
          have hb := charVal_le hd.1.1.2
          have hc := charVal_le hd.1.2
          have hd' := charVal_le hd.2
          have := ih _ v' h
          simp only [setsYear, setsMonth, or_true, true_implies] at this ⊢
          exact ⟨this.1 (Or.inl ⟨by first | omega | (dsimp only; omega), by first | omega | (dsimp only; omega)⟩), this.2⟩
        · cases h
      · cases h

/-- `time.Parse` with a layout that has a year and a month yields a date of the years 0000..9999 -/
theorem parseDate_printable {layout : List LEl} {s : String} {z : Int} (hy : setsYear layout = true)
    (hm : setsMonth layout = true) (h : Knut.Import.parseDate layout s = some z) : PrintableDate z := by
  unfold Knut.Import.parseDate at h
  simp only [Option.bind_eq_some_iff] at h
  obtain ⟨r, hr, h⟩ := h
  split at h
  · cases h
  · rename_i hd
    simp only [Bool.or_eq_true, decide_eq_true_eq, not_or, Int.not_lt] at hd
    simp only [Option.some.injEq] at h
    subst h
    obtain ⟨h1, h2⟩ := parseEls_inv _ _ _ _ hr
    have y := h1 (Or.inr hy)
    have m := h2 (Or.inr hm)
    exact ofCivil_range _ _ _ y.1 y.2 m.1 m.2 hd.1 hd.2

theorem printable_DMYdot {s : String} {z : Int} (h : Knut.Import.parseDate layoutDMYdot s = some z) : PrintableDate z :=
  parseDate_printable rfl rfl h
theorem printable_DMYdash {s : String} {z : Int} (h : Knut.Import.parseDate layoutDMYdash s = some z) : PrintableDate z :=
  parseDate_printable rfl rfl h
theorem printable_YMD {s : String} {z : Int} (h : Knut.Import.parseDate layoutYMD s = some z) : PrintableDate z :=
  parseDate_printable rfl rfl h
theorem printable_DMonY {s : String} {z : Int} (h : Knut.Import.parseDate layoutDMonY s = some z) : PrintableDate z :=
  parseDate_printable rfl rfl h
theorem printable_Long {s : String} {z : Int} (h : Knut.Import.parseDate layoutLong s = some z) : PrintableDate z :=
  parseDate_printable rfl rfl h

theorem printable_prefix10 {layout : List LEl} {s : String} {z : Int} (hy : setsYear layout = true)
    (hm : setsMonth layout = true) (h : parseDatePrefix10 layout s = .ok z) : PrintableDate z := by
  unfold parseDatePrefix10 at h
  simp only at h
  split at h
  · cases h
  · split at h
    · exact parseDate_printable hy hm (ofOption_eq_ok h)
    · cases h

/-! ### from `wellFormed` and `Fine` to `PrintableDir` -/

/-- what `wellFormed` does not say: dates in the range of `time.Parse`, decimal amounts, postings built by
`posting.Builders.Build` -/
def Fine : Directive → Prop
  | .tx t => PrintableDate t.date ∧ ∃ bs, t.postings = buildPostings bs ∧ ∀ b ∈ bs, IsDec b.quantity
  | .assertion a => PrintableDate a.date ∧ ∀ b ∈ a.balances, IsDec b.quantity
  | .price p => PrintableDate p.date ∧ IsDec p.price
  | .opening o => PrintableDate o.date
  | .closing c => PrintableDate c.date

theorem okName_of_validName {s : String} (h : validName s alnum = true) : okName s = true := by
  simp only [validName, Bool.and_eq_true, Bool.not_eq_true', List.all_eq_true] at h
  simp only [okName, Bool.and_eq_true, Bool.not_eq_true', List.isEmpty_eq_false_iff, List.all_eq_true]
  refine ⟨?_, h.2⟩
  intro e
  have : s = "" := String.toList_eq_nil_iff.mp e
  subst this
  simp at h

theorem okName_typeName {t : String} (h : (AccountType.ofName t).isSome = true) : okName t = true := by
  unfold AccountType.ofName at h
  split at h
  · subst_vars; decide +kernel
  · split at h
    · subst_vars; decide +kernel
    · split at h
      · subst_vars; decide +kernel
      · split at h
        · subst_vars; decide +kernel
        · split at h
          · subst_vars; decide +kernel
          · cases h

theorem printableAccount_of_valid {a : Account} (h : Spec.Import.validAccount alnum a = true) : PrintableAccount a = true := by
  unfold Spec.Import.validAccount at h
  cases hs : a.segments with
  | nil => simp [hs] at h
  | cons t rest =>
    simp only [hs, Bool.and_eq_true, List.all_eq_true] at h
    simp only [PrintableAccount, Account.wf, Account.type?, hs, Bool.and_eq_true, List.all_eq_true, List.mem_cons]
    refine ⟨h.1, ?_⟩
    rintro x (rfl | hx)
    · exact okName_typeName h.1
    · exact okName_of_validName (h.2 x hx)

theorem nf_buildPostings (bs : List PB) : BookingNF (buildPostings bs) := by
  unfold buildPostings
  induction bs with
  | nil => exact nf_nil
  | cons b rest ih => rw [List.flatMap_cons]; exact nf_build_append _ _ _ _ _ ih

/-- the printed (debit-side) postings of built bookings: one per booking, with its amount up to the sign -/
theorem everyOther_buildPostings (bs : List PB) :
    (bs = [] → everyOther (buildPostings bs) = []) ∧ (bs ≠ [] → everyOther (buildPostings bs) ≠ []) ∧
    ∀ p ∈ everyOther (buildPostings bs), p ∈ buildPostings bs ∧ ∃ b ∈ bs, p.quantity = b.quantity ∨ p.quantity = -b.quantity := by
  induction bs with
  | nil => exact ⟨fun _ => rfl, fun h => absurd rfl h, fun p hp => by cases hp⟩
  | cons b rest ih =>
    have e : buildPostings (b :: rest) = postingBuild b.credit b.debit b.commodity b.quantity ++ buildPostings rest := by
      simp [buildPostings]
    rw [e]
    refine ⟨fun h => (by cases h), fun _ => (by simp [postingBuild, everyOther]), ?_⟩
    intro p hp
    simp only [postingBuild, List.cons_append, List.nil_append, everyOther, List.mem_cons] at hp
    rcases hp with rfl | hp
    · refine ⟨by simp [postingBuild], b, List.mem_cons_self, ?_⟩
      simp only
      split
      · exact Or.inr rfl
      · exact Or.inl rfl
    · obtain ⟨h1, b', hb', h2⟩ := ih.2.2 p hp
      exact ⟨List.mem_append_right _ h1, b', List.mem_cons_of_mem _ hb', h2⟩

/-- **a well-formed, fine directive is printable** -/
theorem printable_of_wf_fine (d : Directive) (hw : wellFormed alnum d = true) (hf : Fine d) : PrintableDir d := by
  cases d with
  | price p =>
    simp only [wellFormed, Bool.and_eq_true] at hw
    exact ⟨hf.1, okName_of_validName hw.1, hf.2.printable, okName_of_validName hw.2⟩
  | opening o => exact ⟨hf, printableAccount_of_valid hw⟩
  | closing c => exact ⟨hf, printableAccount_of_valid hw⟩
  | assertion a =>
    simp only [wellFormed, Bool.and_eq_true, Bool.not_eq_true', List.isEmpty_eq_false_iff, List.all_eq_true] at hw
    refine ⟨hf.1, hw.1, fun b hb => ?_⟩
    have := hw.2 b hb
    exact ⟨printableAccount_of_valid this.1, (hf.2 b hb).printable, okName_of_validName this.2⟩
  | tx t =>
    obtain ⟨hd, bs, hps, hq⟩ := hf
    simp only [wellFormed, Bool.and_eq_true, Bool.not_eq_true', List.isEmpty_eq_false_iff, List.all_eq_true, bne_iff_ne,
      ne_eq] at hw
    obtain ⟨⟨⟨⟨hdesc, hne⟩, _⟩, hpost⟩, htg⟩ := hw
    obtain ⟨e0, e1, e2⟩ := everyOther_buildPostings bs
    have hbs : bs ≠ [] := by
      intro e
      rw [hps, e] at hne
      exact hne rfl
    refine ⟨hd, fun hm => hdesc _ hm rfl, by rw [hps]; exact e1 hbs, ?_, by rw [hps]; exact nf_buildPostings bs, ?_⟩
    · intro p hp
      rw [hps] at hp
      obtain ⟨hmem, b, hb, hqq⟩ := e2 p hp
      have := hpost p (by rw [hps]; exact hmem)
      refine ⟨printableAccount_of_valid this.1.2, printableAccount_of_valid this.1.1, ?_, okName_of_validName this.2⟩
      rcases hqq with h | h
      · rw [h]; exact (hq b hb).printable
      · rw [h]; exact (isDec_neg (hq b hb)).printable
    · intro c hc
      cases htar : t.targets with
      | none => rw [htar] at hc; cases hc
      | some tg =>
        rw [htar] at hc htg
        simp only [List.all_eq_true] at htg
        exact okName_of_validName (htg c hc)

end Knut.Proofs.Import
