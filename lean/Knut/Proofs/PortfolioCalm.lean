import Knut.Proofs.PortfolioFlows
import Knut.Proofs.MTMBridge
import Knut.Spec.PortfolioPeriodSpec
/-! Lemmas for C20: the day equation `V1 − V0 = inflow + outflow` for ONE day of an arbitrary journal, under hypotheses
about that day only (its transactions are plain, the prices of the commodities held rest), and "no flows" for a day whose
transactions stay inside the portfolio.  The hypotheses are stated on the journal (`heldQty`, `priceAfter`), not on the
state of the processors; the invariant `Reach` ties the two. -/
namespace Knut.Performance
open Knut Knut.MTM

/-! ### journal-level notions (`Spec/PortfolioPeriodSpec.lean`) -/

theorem heldQty_eq (a : Account) (c : Commodity) (days : List Day) :
    heldQty a c days = (qtysOn a c (days.flatMap (·.transactions))).sum := rfl

/-- a day without price directives lets the prices rest -/
theorem pricesRest_of_no_prices (v : Commodity) (pre : List Day) (d : Day) (h : d.prices = []) :
    PricesRestOn v pre d := by
  intro a c _ _ _
  unfold priceAfter normAfter
  rw [List.foldlM_append]
  cases hp : pre.foldlM (Balance.pricesDay v) {} with
  | error e => rfl
  | ok st =>
    simp only [bind, Except.bind, List.foldlM_cons, List.foldlM_nil, pure, Except.pure]
    unfold Balance.pricesDay
    simp only [h, List.foldlM_nil, pure, Except.pure, bind, Except.bind, List.isEmpty_nil, if_true]

/-! ### what a day does to the valuation state -/

theorem lookupPrice_eq (np : Option Prices.NPrices) (c : Commodity) :
    Balance.lookupPrice np c = match np.bind (Prices.find c) with
      | some p => .ok p
      | none => .error (.noPrice c) := by
  unfold Balance.lookupPrice
  cases np with
  | none => rfl
  | some m =>
    simp only [Option.bind_some]
    cases Prices.find c m <;> rfl

theorem pricesDay_congr {v : Commodity} {st st' s1 : BalState} {d : Day}
    (hg : st'.graph = st.graph) (hn : st'.norm = st.norm) (h : Balance.pricesDay v st d = .ok s1) :
    ∃ s1', Balance.pricesDay v st' d = .ok s1' ∧ s1'.graph = s1.graph ∧ s1'.norm = s1.norm := by
  unfold Balance.pricesDay at h ⊢
  simp only [bind, Except.bind] at h ⊢
  rw [hg, hn]
  generalize d.prices.foldlM (fun g p =>
      match Prices.insert g ⟨p.commodity, p.price, p.target⟩ with
      | some g' => Except.ok g'
      | none => Except.error BalErr.zeroPrice) st.graph = r at h ⊢
  cases r with
  | error e => cases h
  | ok g =>
    simp only at h ⊢
    injection h with h; subst h
    exact ⟨_, rfl, rfl, rfl⟩

theorem pricesDay_graph_frame {v : Commodity} {st s1 : BalState} {d : Day} (h : Balance.pricesDay v st d = .ok s1) :
    s1.vPrev = st.vPrev ∧ s1.vQty = st.vQty ∧ s1.chk = st.chk := by
  unfold Balance.pricesDay at h
  simp only [bind, Except.bind] at h
  split at h
  · cases h
  · injection h with h; subst h; exact ⟨rfl, rfl, rfl⟩

/-- the stages of a valued day, taken apart -/
theorem valuedDay_some {cfg : Cfg} {v : Commodity} {st st' : BalState} {d : Day} {txs : List Transaction}
    (hv : cfg.valuation = some v) (h : valuedDay cfg st d = .ok (st', txs)) :
    ∃ s1 adj, Balance.pricesDay v st d = .ok s1 ∧
      Balance.adjustments v d.date st.vPrev s1.norm st.vQty = .ok adj ∧
      (d.transactions ++ adj).mapM (Balance.valueTx v s1.norm) = .ok txs ∧
      st'.vQty = Balance.addQty st.vQty (d.transactions ++ adj) ∧
      st'.vPrev = s1.norm ∧ st'.norm = s1.norm ∧ st'.graph = s1.graph := by
  unfold valuedDay at h
  rw [hv] at h
  simp only [bind, Except.bind] at h
  cases hp : Balance.pricesDay v st d with
  | error e => rw [hp] at h; cases h
  | ok s1 =>
    rw [hp] at h; simp only at h
    cases hcs : Balance.checkStage s1 d with
    | error e => rw [hcs] at h; cases h
    | ok s2 =>
      rw [hcs] at h; simp only at h
      obtain ⟨p1, p2, _⟩ := pricesDay_graph_frame hp
      obtain ⟨f1, f2, f3⟩ := checkStage_frame2 hcs
      have f4 : s2.graph = s1.graph := by
        unfold Balance.checkStage at hcs
        split at hcs
        · injection hcs with hcs; subst hcs; rfl
        · cases hcs
      unfold Balance.valuateDay at h
      simp only [bind, Except.bind] at h
      cases ha : Balance.adjustments v d.date s2.vPrev s2.norm s2.vQty with
      | error e => rw [ha] at h; cases h
      | ok adj =>
        rw [ha] at h; simp only at h
        cases hm : (d.transactions ++ adj).mapM (Balance.valueTx v s2.norm) with
        | error e => rw [hm] at h; cases h
        | ok txsv =>
          rw [hm] at h; simp only at h
          injection h with h; injection h with h1 h2; subst h1; subst h2
          rw [f1, f2, f3, p1, p2] at ha
          rw [f3] at hm
          exact ⟨s1, adj, rfl, ha, hm, by simp only [f2, p2], f3, f3, f4⟩

/-- without `-v` nothing is valued and the valuation state does not move -/
theorem valuedDay_none {cfg : Cfg} {st st' : BalState} {d : Day} {txs : List Transaction}
    (hv : cfg.valuation = none) (h : valuedDay cfg st d = .ok (st', txs)) :
    txs = d.transactions ∧ st'.vQty = st.vQty ∧ st'.vPrev = st.vPrev ∧ st'.norm = st.norm ∧ st'.graph = st.graph := by
  unfold valuedDay at h
  rw [hv] at h
  simp only [bind, Except.bind] at h
  cases hcs : Balance.checkStage st d with
  | error e => rw [hcs] at h; cases h
  | ok s2 =>
    rw [hcs] at h; simp only at h
    obtain ⟨f1, f2, f3⟩ := checkStage_frame2 hcs
    have f4 : s2.graph = st.graph := by
      unfold Balance.checkStage at hcs
      split at hcs
      · injection hcs with hcs; subst hcs; rfl
      · cases hcs
    injection h with h; injection h with h1 h2; subst h1; subst h2
    exact ⟨rfl, f2, f1, f3, f4⟩

/-! ### value adjustments -/

/-- what `Valuate.DayStart` books: transactions with a single target commodity, all postings in that commodity and of
quantity zero -/
def AdjShape (t : Transaction) : Prop :=
  ∃ c, t.targets = some [c] ∧ ∀ p ∈ t.postings, p.commodity = c ∧ p.quantity = 0

theorem adjustStep_shape {v : Commodity} {date : Int} {prev cur : Option Prices.NPrices} {acc acc' : List Transaction}
    {e : Position × Rat} (hacc : ∀ t ∈ acc, AdjShape t) (h : Balance.adjustStep v date prev cur acc e = .ok acc') :
    ∀ t ∈ acc', AdjShape t := by
  unfold Balance.adjustStep at h
  split at h
  · injection h with h; subst h; exact hacc
  · simp only [bind, Except.bind] at h
    cases hl : Balance.lookupPrice prev e.1.2 with
    | error x => rw [hl] at h; cases h
    | ok pp =>
      rw [hl] at h; simp only at h
      cases hl2 : Balance.lookupPrice cur e.1.2 with
      | error x => rw [hl2] at h; cases h
      | ok cp =>
        rw [hl2] at h; simp only at h
        split at h
        · injection h with h; subst h; exact hacc
        · injection h with h; subst h
          intro t ht
          rcases List.mem_append.mp ht with ht | ht
          · exact hacc t ht
          · simp only [List.mem_singleton] at ht; subst ht
            refine ⟨e.1.2, rfl, ?_⟩
            intro p hp
            simp only at hp
            unfold postingBuild at hp
            simp only [List.mem_cons, List.not_mem_nil, or_false] at hp
            rcases hp with rfl | rfl <;> simp

theorem adjustments_shape {v : Commodity} {date : Int} {prev cur : Option Prices.NPrices} {qty : AMap Position Rat}
    {adj : List Transaction} (h : Balance.adjustments v date prev cur qty = .ok adj) : ∀ t ∈ adj, AdjShape t := by
  unfold Balance.adjustments at h
  suffices hgen : ∀ (q : AMap Position Rat) (acc res : List Transaction), (∀ t ∈ acc, AdjShape t) →
      q.foldlM (Balance.adjustStep v date prev cur) acc = .ok res → ∀ t ∈ res, AdjShape t from
    hgen qty [] adj (fun t ht => by cases ht) h
  intro q
  induction q with
  | nil => intro acc res hacc h; simp only [List.foldlM_nil, pure, Except.pure] at h; injection h with h; subst h; exact hacc
  | cons e rest ih =>
    intro acc res hacc h
    simp only [List.foldlM_cons, bind, Except.bind] at h
    cases hs : Balance.adjustStep v date prev cur acc e with
    | error x => rw [hs] at h; cases h
    | ok acc' =>
      rw [hs] at h; simp only at h
      exact ih acc' res (adjustStep_shape hacc hs) h

/-- **no adjustment while the prices of the held commodities rest** -/
theorem adjustments_rest (v : Commodity) (date : Int) (prev cur : Option Prices.NPrices) (qty : AMap Position Rat)
    (adj : List Transaction)
    (hrest : ∀ e ∈ qty, e.1.1.isAL = true → e.1.2 ≠ v → e.2 ≠ 0 →
      Balance.lookupPrice prev e.1.2 = Balance.lookupPrice cur e.1.2)
    (h : Balance.adjustments v date prev cur qty = .ok adj) : adj = [] := by
  unfold Balance.adjustments at h
  suffices hgen : ∀ (q : AMap Position Rat) (res : List Transaction), (∀ e ∈ q, e ∈ qty) →
      q.foldlM (Balance.adjustStep v date prev cur) [] = .ok res → res = [] from hgen qty adj (fun _ he => he) h
  intro q
  induction q with
  | nil => intro res _ h; simp only [List.foldlM_nil, pure, Except.pure] at h; injection h with h; exact h.symm
  | cons e rest ih =>
    intro res hsub h
    simp only [List.foldlM_cons, bind, Except.bind] at h
    cases hs : Balance.adjustStep v date prev cur [] e with
    | error x => rw [hs] at h; cases h
    | ok acc' =>
      rw [hs] at h; simp only at h
      have : acc' = [] := by
        unfold Balance.adjustStep at hs
        split at hs
        · injection hs with hs; exact hs.symm
        · rename_i hcond
          simp only [Bool.or_eq_true, decide_eq_true_eq, Bool.not_eq_true', not_or] at hcond
          have heq := hrest e (hsub e List.mem_cons_self) (by simpa using hcond.1.2) hcond.1.1 hcond.2
          simp only [bind, Except.bind] at hs
          rw [heq] at hs
          cases hl : Balance.lookupPrice cur e.1.2 with
          | error x => rw [hl] at hs; cases hs
          | ok pp =>
            rw [hl] at hs; simp only at hs
            rw [if_pos Rat.sub_self] at hs
            injection hs with hs; exact hs.symm
      subst this
      exact ih res (fun e' he' => hsub e' (List.mem_cons_of_mem _ he')) h

/-! ### the states a run passes through -/

/-- what holds of the state `ps` reached from the empty state by processing the days `pre` -/
structure Reach (cfg : Cfg) (pre : List Day) (ps : PState) : Prop where
  prev_values : ps.prev = ps.values
  nodup_values : AMap.NodupKeys ps.values
  nodup_qty : AMap.NodupKeys ps.bal.vQty
  vprev : ps.bal.vPrev = ps.bal.norm
  norm : ∀ v, cfg.valuation = some v →
    ∃ st, pre.foldlM (Balance.pricesDay v) {} = .ok st ∧ st.graph = ps.bal.graph ∧ st.norm = ps.bal.norm
  qty : ∀ v, cfg.valuation = some v → ∀ a c, a.isAL = true → ps.bal.vQty.get (a, c) 0 = heldQty a c pre
  qty_none : cfg.valuation = none → ps.bal.vQty = []

theorem reach_empty (cfg : Cfg) : Reach cfg [] {} := by
  refine ⟨rfl, ?_, ?_, rfl, ?_, ?_, fun _ => rfl⟩
  · unfold AMap.NodupKeys; exact List.nodup_nil
  · unfold AMap.NodupKeys; exact List.nodup_nil
  · intro v _; exact ⟨{}, rfl, rfl, rfl⟩
  · intro v _ a c _; rfl

theorem heldQty_append (a : Account) (c : Commodity) (pre : List Day) (d : Day) :
    heldQty a c (pre ++ [d]) = heldQty a c pre + (qtysOn a c d.transactions).sum := by
  rw [heldQty_eq, heldQty_eq, List.flatMap_append, qtysOn_append, sum_append_rat]
  simp

theorem qtyZero_of_shape {adj : List Transaction} (h : ∀ t ∈ adj, AdjShape t) : QtyZero adj := by
  intro t ht p hp
  obtain ⟨c, _, hc⟩ := h t ht
  exact (hc p hp).2

theorem perfDay_reach {cfg : Cfg} {pre : List Day} {ps ps' : PState} {d : Day} {p : DayPerf}
    (hr : Reach cfg pre ps) (h : perfDay cfg ps d = .ok (ps', p)) : Reach cfg (pre ++ [d]) ps' := by
  unfold perfDay at h
  simp only [bind, Except.bind] at h
  cases hvd : valuedDay cfg ps.bal d with
  | error e => rw [hvd] at h; cases h
  | ok r =>
    obtain ⟨bal, txs⟩ := r
    rw [hvd] at h; simp only at h
    injection h with h; injection h with h1 h2; subst h1; subst h2
    have hnv := (valuesDay_sum cfg txs ps.values hr.nodup_values).1
    cases hv : cfg.valuation with
    | none =>
      obtain ⟨_, g2, g3, g4, g5⟩ := valuedDay_none hv hvd
      refine ⟨rfl, hnv, ?_, ?_, ?_, ?_, ?_⟩
      · simp only; rw [g2]; exact hr.nodup_qty
      · simp only; rw [g3, g4]; exact hr.vprev
      · intro v hv'; rw [hv] at hv'; cases hv'
      · intro v hv'; rw [hv] at hv'; cases hv'
      · intro _; simp only; rw [g2]; exact hr.qty_none hv
    | some v =>
      obtain ⟨s1, adj, e1, e2, e3, e4, e5, e6, e7⟩ := valuedDay_some hv hvd
      refine ⟨rfl, hnv, ?_, ?_, ?_, ?_, ?_⟩
      · simp only; rw [e4]; exact addQty_nodup _ _ hr.nodup_qty
      · simp only; rw [e5, e6]
      · intro v' hv'
        rw [hv] at hv'; injection hv' with hv'; subst hv'
        obtain ⟨st, hst, hg, hn⟩ := hr.norm v hv
        obtain ⟨s1', q1, q2, q3⟩ := pricesDay_congr hg hn e1
        refine ⟨s1', ?_, by simp only; rw [q2, e7], by simp only; rw [q3, e6]⟩
        rw [List.foldlM_append, hst]
        simp only [bind, Except.bind, List.foldlM_cons, List.foldlM_nil, pure, Except.pure]
        rw [q1]
      · intro v' hv' a c hal
        rw [hv] at hv'; injection hv' with hv'; subst hv'
        simp only
        rw [e4, addQty_get _ _ _ _ hal, hr.qty v hv a c hal, heldQty_append, qtysOn_append, sum_append_rat,
          qtysOn_qtyZero a c adj (qtyZero_of_shape (adjustments_shape e2)), Rat.add_zero]
      · intro hn; rw [hv] at hn; cases hn

/-! ### the day equation for one day -/

/-- prices rest on `d` ⇒ `Valuate` books no adjustment on `d` -/
theorem no_adjustment_of_rest {cfg : Cfg} {v : Commodity} {pre : List Day} {ps : PState} {d : Day} {s1 : BalState}
    {adj : List Transaction} (hv : cfg.valuation = some v) (hr : Reach cfg pre ps) (hrest : PricesRestOn v pre d)
    (hp : Balance.pricesDay v ps.bal d = .ok s1)
    (ha : Balance.adjustments v d.date ps.bal.vPrev s1.norm ps.bal.vQty = .ok adj) : adj = [] := by
  apply adjustments_rest v d.date _ _ _ adj ?_ ha
  intro e he hal hc hq
  obtain ⟨st, hst, hg, hn⟩ := hr.norm v hv
  obtain ⟨s1', q1, _, q3⟩ := pricesDay_congr hg hn hp
  have hget : ps.bal.vQty.get e.1 0 = e.2 := by
    unfold AMap.get
    rw [AMap.find?_of_mem hr.nodup_qty (k := e.1) (v := e.2) he]
    rfl
  have hheld : heldQty e.1.1 e.1.2 pre ≠ 0 := by
    rw [← hr.qty v hv e.1.1 e.1.2 hal, hget]; exact hq
  have := hrest e.1.1 e.1.2 hal hc hheld
  unfold priceAfter normAfter at this
  rw [List.foldlM_append, hst] at this
  simp only [bind, Except.bind, List.foldlM_cons, List.foldlM_nil, pure, Except.pure] at this
  rw [q1] at this
  simp only at this
  rw [lookupPrice_eq, lookupPrice_eq, hr.vprev, ← hn, ← q3, this]

/-- **the day equation for one day of an arbitrary journal**: the day follows the days `pre`; its transactions are plain
and the prices of the commodities held rest on it (no commodity filter) -/
theorem perfDay_local_net_flow {cfg : Cfg} (hf : ∀ c, cfg.commodityFilter c = true) {pre : List Day} {ps ps' : PState}
    {d : Day} {p : DayPerf} (hr : Reach cfg pre ps) (hplain : ∀ t ∈ d.transactions, Plain t)
    (hrest : ∀ v, cfg.valuation = some v → PricesRestOn v pre d)
    (h : perfDay cfg ps d = .ok (ps', p)) :
    p.portfolioFlows = 0 ∧ sumVals p.v1 - sumVals p.v0 = p.inflow + p.outflow := by
  have h0 := h
  unfold perfDay at h
  simp only [bind, Except.bind] at h
  cases hvd : valuedDay cfg ps.bal d with
  | error e => rw [hvd] at h; cases h
  | ok r =>
    obtain ⟨bal, txs⟩ := r
    rw [hvd] at h; simp only at h
    injection h with h; injection h with h1 h2; subst h1; subst h2
    have hpl : ∀ t ∈ txs, Plain t := by
      cases hv : cfg.valuation with
      | none =>
        obtain ⟨g1, _⟩ := valuedDay_none hv hvd
        rw [g1]; exact hplain
      | some v =>
        obtain ⟨s1, adj, e1, e2, e3, _⟩ := valuedDay_some hv hvd
        have := no_adjustment_of_rest hv hr (hrest v hv) e1 e2
        subst this
        rw [List.append_nil] at e3
        exact plain_mapM _ _ hplain e3
    have v2 := (valuesDay_sum cfg txs ps.values hr.nodup_values).2
    have hfl := dayFlows_plain cfg txs (fun t ht => (hpl t ht).targets) (0, 0, 0)
    simp only at hfl
    obtain ⟨fl1, fl2⟩ := hfl
    have hcancel : sumOver (inV cfg) (txs.flatMap (·.postings)) = sumOver (flowV cfg) (txs.flatMap (·.postings)) := by
      have hall : ∀ t ∈ txs, Plain t := hpl
      clear v2 fl1 fl2 hvd hpl h0
      induction txs with
      | nil => rfl
      | cons t rest ih =>
        simp only [List.flatMap_cons, sumOver_append]
        rw [ih (fun t' ht' => hall t' (List.mem_cons_of_mem _ ht')),
          mirrored_in_eq_flow cfg hf (mirrored_of_paired (hall t List.mem_cons_self).paired (hall t List.mem_cons_self).mirror)]
    refine ⟨?_, ?_⟩
    · simp only [dayFlows]; exact fl2
    · simp only [dayFlows, hr.prev_values, v2, hcancel]
      rw [fl1]
      grind

/-- the run: the record of every day whose hypotheses hold satisfies the day equation, whatever the other days are -/
theorem perfFrom_local_net_flow {cfg : Cfg} (hf : ∀ c, cfg.commodityFilter c = true) :
    ∀ (rest pre : List Day) (ps : PState) (perfs : List DayPerf), Reach cfg pre ps → perfFrom cfg ps rest = .ok perfs →
    ∀ (i : Nat) (d : Day) (p : DayPerf), rest[i]? = some d → perfs[i]? = some p →
      (∀ t ∈ d.transactions, Plain t) → (∀ v, cfg.valuation = some v → PricesRestOn v (pre ++ rest.take i) d) →
      p.portfolioFlows = 0 ∧ sumVals p.v1 - sumVals p.v0 = p.inflow + p.outflow := by
  intro rest
  induction rest with
  | nil => intro pre ps perfs _ _ i d p hd; simp at hd
  | cons d0 rest ih =>
    intro pre ps perfs hr h i d p hd hp hplain hrest
    simp only [perfFrom, bind, Except.bind] at h
    cases hd0 : perfDay cfg ps d0 with
    | error e => rw [hd0] at h; cases h
    | ok r =>
      obtain ⟨ps1, p0⟩ := r
      rw [hd0] at h; simp only at h
      cases hrr : perfFrom cfg ps1 rest with
      | error e => rw [hrr] at h; cases h
      | ok perfs' =>
        rw [hrr] at h; simp only at h
        injection h with h; subst h
        cases i with
        | zero =>
          simp only [List.getElem?_cons_zero, Option.some.injEq] at hd hp
          subst hd; subst hp
          simp only [List.take_zero, List.append_nil] at hrest
          exact perfDay_local_net_flow hf hr hplain hrest hd0
        | succ j =>
          simp only [List.getElem?_cons_succ] at hd hp
          apply ih (pre ++ [d0]) ps1 perfs' (perfDay_reach hr hd0) hrr j d p hd hp hplain
          intro v hv
          have := hrest v hv
          simpa [List.take_succ_cons, List.append_assoc] using this

/-! ### days without flows -/

/-- a transaction that does not cross the portfolio's boundary: every posting on a portfolio account has a portfolio
account on the other side (a transfer inside the portfolio, or a transaction that does not touch it) -/
def Internal (cfg : Cfg) (t : Transaction) : Prop :=
  ∀ p ∈ t.postings, isPortfolio cfg p.account = true → isPortfolio cfg p.other = true

/-- … or whose effect is attributed to the posting's own commodity (what a value adjustment is) -/
def Neutral (cfg : Cfg) (t : Transaction) : Prop :=
  ∀ p ∈ t.postings, (isPortfolio cfg p.account = true → isPortfolio cfg p.other = true) ∨ t.targets = some [p.commodity]

theorem txFlowStep_neutral (cfg : Cfg) (tg : Option (List Commodity)) (acc : AMap Commodity Rat × Rat) (p : Posting)
    (h : (isPortfolio cfg p.account = true → isPortfolio cfg p.other = true) ∨ tg = some [p.commodity]) :
    txFlowStep cfg tg acc p = acc := by
  unfold txFlowStep
  by_cases hp : isPortfolio cfg p.account = true
  · by_cases ho : isPortfolio cfg p.other = true
    · simp [hp, ho]
    · rcases h with h | h
      · exact absurd (h hp) ho
      · have ho' : isPortfolio cfg p.other = false := by simpa using ho
        simp [hp, ho', h]
  · have hp' : isPortfolio cfg p.account = false := by simpa using hp
    simp [hp']

theorem txFlows_neutral (cfg : Cfg) (t : Transaction) (h : Neutral cfg t) : txFlows cfg t = ([], 0) := by
  unfold txFlows pickTargets
  suffices hgen : ∀ (ps : List Posting) (acc : AMap Commodity Rat × Rat),
      (∀ p ∈ ps, (isPortfolio cfg p.account = true → isPortfolio cfg p.other = true) ∨ t.targets = some [p.commodity]) →
      ps.foldl (txFlowStep cfg t.targets) acc = acc from hgen t.postings _ h
  intro ps
  induction ps with
  | nil => intro acc _; rfl
  | cons p rest ih =>
    intro acc hps
    rw [List.foldl_cons, txFlowStep_neutral cfg _ acc p (hps p List.mem_cons_self)]
    exact ih acc (fun q hq => hps q (List.mem_cons_of_mem _ hq))

theorem dayFlows_neutral (cfg : Cfg) (txs : List Transaction) (h : ∀ t ∈ txs, Neutral cfg t) :
    dayFlows cfg txs = (0, 0, 0) := by
  unfold dayFlows
  suffices hgen : ∀ (ts : List Transaction) (acc : Rat × Rat × Rat), (∀ t ∈ ts, Neutral cfg t) →
      ts.foldl (fun (acc : Rat × Rat × Rat) t =>
        let f := txFlows cfg t
        (acc.1 + posPart f.1, acc.2.1 + negPart f.1, acc.2.2 + f.2)) acc = acc from hgen txs _ h
  intro ts
  induction ts with
  | nil => intro acc _; rfl
  | cons t rest ih =>
    intro acc hts
    rw [List.foldl_cons]
    simp only [txFlows_neutral cfg t (hts t List.mem_cons_self)]
    have e1 : posPart ([] : AMap Commodity Rat) = 0 := rfl
    have e2 : negPart ([] : AMap Commodity Rat) = 0 := rfl
    rw [e1, e2, Rat.add_zero, Rat.add_zero, Rat.add_zero]
    exact ih acc (fun q hq => hts q (List.mem_cons_of_mem _ hq))

theorem valuePosting_key {v : Commodity} {cur : Option Prices.NPrices} {p p' : Posting}
    (h : Balance.valuePosting v cur p = .ok p') :
    p'.account = p.account ∧ p'.other = p.other ∧ p'.commodity = p.commodity := by
  unfold Balance.valuePosting at h
  split at h
  · injection h with h; subst h; exact ⟨rfl, rfl, rfl⟩
  · split at h
    · injection h with h; subst h; exact ⟨rfl, rfl, rfl⟩
    · simp only [bind, Except.bind] at h
      split at h
      · cases h
      · injection h with h; subst h; exact ⟨rfl, rfl, rfl⟩

theorem mapM_value_mem {v : Commodity} {cur : Option Prices.NPrices} :
    ∀ (ps qs : List Posting), ps.mapM (Balance.valuePosting v cur) = .ok qs →
      ∀ q ∈ qs, ∃ p ∈ ps, q.account = p.account ∧ q.other = p.other ∧ q.commodity = p.commodity := by
  intro ps
  induction ps with
  | nil => intro qs h; simp [List.mapM_nil, pure, Except.pure] at h; subst h; intro q hq; cases hq
  | cons p rest ih =>
    intro qs h
    simp only [List.mapM_cons, bind, Except.bind] at h
    cases hp : Balance.valuePosting v cur p with
    | error e => rw [hp] at h; cases h
    | ok p' =>
      rw [hp] at h; simp only at h
      cases hr : rest.mapM (Balance.valuePosting v cur) with
      | error e => rw [hr] at h; cases h
      | ok rest' =>
        rw [hr] at h; simp only [pure, Except.pure] at h
        injection h with h; subst h
        intro q hq
        rcases List.mem_cons.mp hq with rfl | hq
        · exact ⟨p, List.mem_cons_self, valuePosting_key hp⟩
        · obtain ⟨p0, hp0, hk⟩ := ih rest' hr q hq
          exact ⟨p0, List.mem_cons_of_mem _ hp0, hk⟩

theorem neutral_valueTx {cfg : Cfg} {v : Commodity} {cur : Option Prices.NPrices} {t t' : Transaction}
    (h : Neutral cfg t) (hv : Balance.valueTx v cur t = .ok t') : Neutral cfg t' := by
  unfold Balance.valueTx at hv
  cases hm : t.postings.mapM (Balance.valuePosting v cur) with
  | error e => rw [hm] at hv; cases hv
  | ok ps =>
    rw [hm] at hv; simp only [bind, Except.bind] at hv
    injection hv with hv; subst hv
    intro q hq
    obtain ⟨p, hp, k1, k2, k3⟩ := mapM_value_mem _ _ hm q hq
    simp only
    rw [k1, k2, k3]
    exact h p hp

theorem neutral_mapM {cfg : Cfg} {v : Commodity} {cur : Option Prices.NPrices} : ∀ (ts ts' : List Transaction),
    (∀ t ∈ ts, Neutral cfg t) → ts.mapM (Balance.valueTx v cur) = .ok ts' → ∀ t ∈ ts', Neutral cfg t := by
  intro ts
  induction ts with
  | nil => intro ts' _ h; simp [List.mapM_nil, pure, Except.pure] at h; subst h; intro t ht; cases ht
  | cons x rest ih =>
    intro ts' hall h
    simp only [List.mapM_cons, bind, Except.bind] at h
    cases hx : Balance.valueTx v cur x with
    | error e => rw [hx] at h; cases h
    | ok x' =>
      rw [hx] at h; simp only at h
      cases hr : rest.mapM (Balance.valueTx v cur) with
      | error e => rw [hr] at h; cases h
      | ok rest' =>
        rw [hr] at h; simp only [pure, Except.pure] at h
        injection h with h; subst h
        intro t ht
        rcases List.mem_cons.mp ht with rfl | ht'
        · exact neutral_valueTx (hall x List.mem_cons_self) hx
        · exact ih rest' (fun t ht => hall t (List.mem_cons_of_mem _ ht)) hr t ht'

theorem neutral_of_shape (cfg : Cfg) {t : Transaction} (h : AdjShape t) : Neutral cfg t := by
  obtain ⟨c, hc, hps⟩ := h
  intro p hp
  right
  rw [hc, (hps p hp).1]

/-- **a day whose transactions stay inside the portfolio has no flows** (whatever the prices do: value adjustments are
attributed to their own commodity) -/
theorem perfDay_no_flows {cfg : Cfg} {ps ps' : PState} {d : Day} {p : DayPerf}
    (hint : ∀ t ∈ d.transactions, Internal cfg t) (h : perfDay cfg ps d = .ok (ps', p)) :
    p.portfolioFlows = 0 ∧ p.inflow = 0 ∧ p.outflow = 0 := by
  unfold perfDay at h
  simp only [bind, Except.bind] at h
  cases hvd : valuedDay cfg ps.bal d with
  | error e => rw [hvd] at h; cases h
  | ok r =>
    obtain ⟨bal, txs⟩ := r
    rw [hvd] at h; simp only at h
    injection h with h; injection h with h1 h2; subst h1; subst h2
    have huser : ∀ t ∈ d.transactions, Neutral cfg t := fun t ht q hq => Or.inl (hint t ht q hq)
    have hn : ∀ t ∈ txs, Neutral cfg t := by
      cases hv : cfg.valuation with
      | none =>
        obtain ⟨g1, _⟩ := valuedDay_none hv hvd
        rw [g1]; exact huser
      | some v =>
        obtain ⟨s1, adj, _, e2, e3, _⟩ := valuedDay_some hv hvd
        apply neutral_mapM _ _ _ e3
        intro t ht
        rcases List.mem_append.mp ht with ht | ht
        · exact huser t ht
        · exact neutral_of_shape cfg (adjustments_shape e2 t ht)
    simp [dayFlows_neutral cfg txs hn]

/-- every record of a run is the record of one of its days -/
theorem perfFrom_mem {cfg : Cfg} : ∀ (days : List Day) (ps : PState) (perfs : List DayPerf),
    perfFrom cfg ps days = .ok perfs → ∀ p ∈ perfs, ∃ d ∈ days, ∃ ps0 ps1, perfDay cfg ps0 d = .ok (ps1, p) := by
  intro days
  induction days with
  | nil => intro ps perfs h; simp only [perfFrom] at h; injection h with h; subst h; intro p hp; cases hp
  | cons d rest ih =>
    intro ps perfs h
    simp only [perfFrom, bind, Except.bind] at h
    cases hd : perfDay cfg ps d with
    | error e => rw [hd] at h; cases h
    | ok r =>
      obtain ⟨ps1, p0⟩ := r
      rw [hd] at h; simp only at h
      cases hr : perfFrom cfg ps1 rest with
      | error e => rw [hr] at h; cases h
      | ok perfs' =>
        rw [hr] at h; simp only at h
        injection h with h; subst h
        intro p hp
        rcases List.mem_cons.mp hp with rfl | hp
        · exact ⟨d, List.mem_cons_self, ps, ps1, hd⟩
        · obtain ⟨d', hd', x⟩ := ih ps1 perfs' hr p hp
          exact ⟨d', List.mem_cons_of_mem _ hd', x⟩

/-- the record at position `i` is the record of the day at position `i` -/
theorem perfFrom_length {cfg : Cfg} {days : List Day} {ps : PState} {perfs : List DayPerf}
    (h : perfFrom cfg ps days = .ok perfs) : perfs.length = days.length := by
  have := congrArg List.length (perfFrom_dates days ps perfs h)
  simpa using this

/-! ### the executable forms of the hypotheses are sound -/

theorem mirroredB_sound : ∀ (ps : List Posting), mirroredB ps = true → Paired ps ∧ AccMirror (ps.map accPair)
  | [], _ => ⟨Paired.nil, AccMirror.nil⟩
  | [_], h => by simp [mirroredB] at h
  | a :: b :: rest, h => by
    simp only [mirroredB, Bool.and_eq_true, decide_eq_true_eq] at h
    obtain ⟨⟨⟨⟨⟨h1, h2⟩, h3⟩, h4⟩, h5⟩, h6⟩ := h
    obtain ⟨i1, i2⟩ := mirroredB_sound rest h6
    exact ⟨Paired.cons a b rest h1 h2 h3 i1, AccMirror.cons (accPair a) (accPair b) _ h4 h5 i2⟩

theorem plainB_sound {t : Transaction} (h : plainB t = true) : Plain t := by
  unfold plainB at h
  simp only [Bool.and_eq_true, Option.isNone_iff_eq_none] at h
  obtain ⟨i1, i2⟩ := mirroredB_sound t.postings h.2
  exact ⟨h.1, i1, i2⟩

theorem mirroredB_build (cr dr : Account) (c : Commodity) (q v : Rat) (rest : List Posting) :
    mirroredB (postingBuild cr dr c q v ++ rest) = mirroredB rest := by
  unfold postingBuild
  simp only [List.cons_append, List.nil_append, mirroredB, decide_true, Bool.true_and, Bool.and_eq_true,
    decide_eq_true_eq]
  split <;> simp [Rat.neg_neg]

/-- what the loader builds without annotation passes the executable test -/
theorem plainB_ofBookings (date : Int) (desc : String) (bks : List Booking) :
    plainB (Transaction.ofBookings date desc none bks) = true := by
  unfold plainB Transaction.ofBookings
  simp only [Option.isNone_none, Bool.true_and]
  induction bks with
  | nil => rfl
  | cons b rest ih => rw [List.flatMap_cons, mirroredB_build]; exact ih

theorem heldQty_zero_of_not_position (a : Account) (c : Commodity) (days : List Day)
    (h : (a, c) ∉ positionsOf days) : heldQty a c days = 0 := by
  unfold heldQty
  have : ((days.flatMap (·.transactions)).flatMap (·.postings)).filter
      (fun p => decide (p.account = a) && decide (p.commodity = c)) = [] := by
    rw [List.filter_eq_nil_iff]
    intro p hp hpc
    simp only [Bool.and_eq_true, decide_eq_true_eq] at hpc
    apply h
    unfold positionsOf
    exact List.mem_map.mpr ⟨p, hp, by rw [hpc.1, hpc.2]⟩
  rw [this]
  rfl

theorem pricesRestB_sound {v : Commodity} {pre : List Day} {d : Day} (h : pricesRestB v pre d = true) :
    PricesRestOn v pre d := by
  intro a c hal hc hheld
  by_cases hpos : (a, c) ∈ positionsOf pre
  · unfold pricesRestB at h
    simp only [List.all_eq_true] at h
    have := h (a, c) hpos
    simp only [hal, Bool.not_true, Bool.false_or, Bool.or_eq_true, decide_eq_true_eq] at this
    rcases this with (h1 | h1) | h1
    · exact absurd h1 hc
    · exact absurd h1 hheld
    · exact h1
  · exact absurd (heldQty_zero_of_not_position a c pre hpos) hheld

theorem mem_splits : ∀ (days acc : List Day) (pre : List Day) (d : Day) (post : List Day),
    days = pre ++ d :: post → (acc ++ pre, d) ∈ splits acc days := by
  intro days
  induction days with
  | nil => intro acc pre d post h; simp at h
  | cons x rest ih =>
    intro acc pre d post h
    cases pre with
    | nil =>
      simp only [List.nil_append, List.cons.injEq] at h
      obtain ⟨rfl, _⟩ := h
      simp [splits]
    | cons y pre' =>
      simp only [List.cons_append, List.cons.injEq] at h
      obtain ⟨rfl, h⟩ := h
      have := ih (acc ++ [x]) pre' d post h
      simp only [splits, List.mem_cons]
      right
      simpa [List.append_assoc] using this

/-- **the monitor's predicate implies the hypotheses of the 0 %-theorem** for the period -/
theorem calmPeriodB_sound {f : Flags} {days : List Day} {p : Period} (h : calmPeriodB f days p = true) :
    ∀ pre d post, days = pre ++ d :: post → p.start ≤ d.date → d.date ≤ p.stop →
      (∀ t ∈ d.transactions, Plain t) ∧ (∀ v, f.valuation = some v → PricesRestOn v pre d) := by
  intro pre d post hsplit h1 h2
  unfold calmPeriodB at h
  simp only [List.all_eq_true] at h
  have hm := mem_splits days [] pre d post hsplit
  simp only [List.nil_append] at hm
  have := h (pre, d) hm
  simp only [h1, h2, decide_true, Bool.and_self, Bool.not_true, Bool.false_or] at this
  unfold calmDayB at this
  simp only [Bool.and_eq_true, List.all_eq_true] at this
  refine ⟨fun t ht => plainB_sound (this.1 t ht), ?_⟩
  intro v hv
  rw [hv] at this
  exact pricesRestB_sound this.2

end Knut.Performance
