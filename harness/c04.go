package main

import (
	"bytes"
	"context"
	"errors"
	"fmt"
	"os"
	"os/exec"
	"path/filepath"
	"sort"
	"strings"
	"time"

	"github.com/shopspring/decimal"

	"github.com/sboehler/knut/lib/journal"
	"github.com/sboehler/knut/lib/journal/check"
	"github.com/sboehler/knut/lib/model"
	"github.com/sboehler/knut/lib/model/registry"
)

func init() { runners["C04"] = runC04 }

// srcStart returns the byte offset of the source of a model directive (-1 if unknown).
func srcStart(d model.Directive) int {
	switch t := d.(type) {
	case *model.Open:
		if t.Src != nil {
			return t.Src.Start
		}
	case *model.Close:
		if t.Src != nil {
			return t.Src.Start
		}
	case *model.Price:
		if t.Src != nil {
			return t.Src.Start
		}
	case *model.Assertion:
		if t.Src != nil {
			return t.Src.Start
		}
	case *model.Transaction:
		if t.Src != nil {
			return t.Src.Start
		}
	}
	return -1
}

// implCheck runs the real loader and checker in-process on the file.
// Returns "ok" / "error" and the index of the offending directive (-1: not a check.Error).
func implCheck(path string, offsets []int) (verdict string, offender int, msg string) {
	defer func() {
		if r := recover(); r != nil {
			verdict, offender, msg = "panic", -1, fmt.Sprint(r)
		}
	}()
	reg := registry.New()
	b, err := journal.FromPath(context.Background(), reg, path)
	if err != nil {
		return "load-error", -1, err.Error()
	}
	err = b.Build().Process(check.Check())
	if err == nil {
		return "ok", -1, ""
	}
	var ce check.Error
	if errors.As(err, &ce) {
		off := srcStart(ce.Directive)
		for i, o := range offsets {
			if o == off {
				return "error", i, ce.Msg
			}
		}
		return "error", -1, ce.Msg
	}
	return "error", -1, err.Error()
}

// runKnut runs the knut binary; returns exit code, stdout, stderr.
func runKnut(bin string, timeout time.Duration, env []string, args ...string) (int, string, string) {
	ctx, cancel := context.WithTimeout(context.Background(), timeout)
	defer cancel()
	cmd := exec.CommandContext(ctx, bin, args...)
	var so, se bytes.Buffer
	cmd.Stdout, cmd.Stderr = &so, &se
	cmd.Env = append(os.Environ(), childTZ(env, args)...)
	err := cmd.Run()
	if ctx.Err() != nil {
		return -2, so.String(), se.String() + "\nTIMEOUT"
	}
	if err != nil {
		if ee, ok := err.(*exec.ExitError); ok {
			return ee.ExitCode(), so.String(), se.String()
		}
		return -1, so.String(), se.String() + err.Error()
	}
	return 0, so.String(), se.String()
}

// childTZ adds a time zone to the environment of a knut run (unless the caller set one): knut's dates are UTC midnights
// and nothing it prints may depend on the zone of the machine, but a date parsed or compared in time.Local shifts period
// boundaries east or west of Greenwich (seeded change C11-d parsed --from/--to in the local zone).  The zone is a function
// of the arguments, so repeated runs of one case use the same one.
var childZones = []string{"", "UTC", "Pacific/Kiritimati", "Pacific/Pago_Pago", "Europe/Zurich", "Asia/Kolkata", "America/St_Johns"}

func childTZ(env []string, args []string) []string {
	for _, e := range env {
		if strings.HasPrefix(e, "TZ=") {
			return env
		}
	}
	h := uint32(2166136261)
	for _, a := range args {
		if strings.HasPrefix(a, "/") {
			a = filepath.Base(a) // scratch directories differ from run to run
		}
		for i := 0; i < len(a); i++ {
			h = (h ^ uint32(a[i])) * 16777619
		}
	}
	z := childZones[int(h%uint32(len(childZones)))]
	if z == "" {
		return env
	}
	if _, err := os.Stat("/usr/share/zoneinfo/" + z); err != nil {
		return env
	}
	return append(append([]string{}, env...), "TZ="+z)
}

func canonPanic(m string) string {
	if strings.HasPrefix(m, "panic") {
		return "panic"
	}
	return m
}

func runC04(c *Ctx) {
	n := c.N(6000, 120000)
	bt := c.NewBatch()
	defer bt.Flush()
	dir := filepath.Join(c.WorkDir, "c04")
	os.MkdirAll(dir, 0o755)
	subEvery := 40
	nre := c.N(2000, 40000)
	for ii := 0; ii < n+nre; ii++ {
		stream, i := "journal", ii
		if ii >= n {
			stream, i = "reopen", ii-n
		}
		if !c.Want(stream, i) {
			continue
		}
		r := c.Rng(stream, i)
		var j *Journal
		var tags []string
		if stream == "journal" {
			opts := JGenOpts{MaxAccounts: r.Range(2, 6), MaxDays: r.Range(1, 5), Mutate: true, Unicode: true, Accruals: r.Chance(1, 3), BaseDay: 737000 + r.Intn(2000), SpanDays: r.Range(0, 10)}
			if ii%subEvery == 0 {
				opts.Prices, opts.Valuation = true, "CHF" // the windowed, valued report of the CLI stream needs prices
			}
			j, tags = GenJournal(r, opts)
			if r.Chance(1, 6) && WidenDates(r, j) {
				tags = append(tags, "wide-dates")
			}
		} else {
			j, tags = c04ReopenJournal(r)
		}
		text, offsets := j.Text()
		path := filepath.Join(dir, fmt.Sprintf("j%d.knut", i%64))
		if err := os.WriteFile(path, []byte(text), 0o644); err != nil {
			fatalf("%v", err)
		}
		c.Evals++
		verdict, offender, msg := implCheck(path, offsets)
		in := map[string]any{"journal": text, "wire": j.Wire()}
		implStr := verdict
		if verdict == "error" {
			implStr = fmt.Sprintf("error %d", offender)
		}
		for _, t := range tags {
			c.Tag(t)
		}
		mut := "none"
		for _, t := range tags {
			if strings.HasPrefix(t, "mutated:") {
				mut = t
			}
		}
		c.Class(fmt.Sprintf("c04/%s/%s/%s/n%s", stream, verdict, mut, bucket(len(j.Dirs))))
		if i < 2 {
			c.Sample(map[string]any{"journal": text, "impl": implStr, "detail": msg})
		}
		wire := j.Wire()
		bt.Add(func(model string) {
			// model answers "ok" | "error <kind> <index>": compare verdict and the named directive (as wire tokens,
			// so that identical duplicate directives compare equal)
			mv := model
			if f := strings.Fields(model); len(f) == 3 && f[0] == "error" {
				var mi int
				fmt.Sscan(f[2], &mi)
				if mi >= 0 && mi < len(j.Dirs) && offender >= 0 && j.Dirs[mi].Wire() == j.Dirs[offender].Wire() {
					mv = fmt.Sprintf("error %d", offender)
				} else {
					mv = fmt.Sprintf("error %d", mi)
				}
			}
			c.Compare(stream, i, "check", in, implStr, mv)
		}, "check", wire)
		off := "-"
		if offender >= 0 {
			off = itoa(offender)
		}
		bt.Add(func(mon string) {
			switch {
			case mon == "ok":
				c.Monitored++
			case strings.HasPrefix(mon, "known "):
				c.MonitorKnown(stream, i, "accept_iff_wellformed", in, implStr+" / "+msg+" => "+mon, strings.TrimPrefix(mon, "known "))
			default:
				c.Monitor(stream, i, "accept_iff_wellformed", in, false, implStr+" / "+msg+" => "+mon)
			}
		}, "c04mon", wire, verdict, off)
		// the whole text -> parser -> model directive -> builder path against the Lean parser + FromSyntax + Accrual + Builder
		{
			ltext, kind := text, "none"
			if i%3 == 0 {
				ltext, kind = mutateJournalText(r, text)
				lp := filepath.Join(dir, fmt.Sprintf("l%d.knut", i%64))
				os.WriteFile(lp, []byte(ltext), 0o644)
				path2 := lp
				implDump := implLoadDump(path2)
				lin := map[string]any{"journal": ltext, "mutation": kind}
				c.Tag("loadtext:" + kind)
				bt.Add(func(m string) { c.Compare(stream, i, "loadtext", lin, implDump, canonPanic(m)) }, "loadtext", Hex(ltext))
			} else {
				implDump := implLoadDump(path)
				lin := map[string]any{"journal": ltext}
				bt.Add(func(m string) { c.Compare(stream, i, "loadtext", lin, implDump, canonPanic(m)) }, "loadtext", Hex(ltext))
			}
		}
		// the CLI gives the same verdict for check, print and balance, with a diagnostic naming the directive
		if i%subEvery == 0 && c.KnutBin != "" {
			for _, cmd := range []string{"check", "print", "balance"} {
				code, stdout, stderr := runKnut(c.KnutBin, 10*time.Second, nil, cmd, path)
				okCLI := (code == 0) == (verdict == "ok")
				detail := fmt.Sprintf("knut %s: exit %d, in-process verdict %s; stderr %q", cmd, code, verdict, clip(stderr))
				if verdict != "ok" {
					okCLI = okCLI && code == 1 && strings.TrimSpace(stderr) != "" && stdout == ""
					if offender >= 0 && cmd == "check" {
						first := strings.SplitN(j.Dirs[offender].Text(), "\n", 2)[0]
						if j.Dirs[offender].Kind == 't' {
							first = fmtDate(j.Dirs[offender].Date) + " \"" + strings.SplitN(j.Dirs[offender].Desc, "\n", 2)[0]
							if j.Dirs[offender].Accrual != nil {
								// the named directive is one of the expanded transactions: other date, description + " (accrual i/n)"
								first = "\"" + strings.SplitN(j.Dirs[offender].Desc, "\n", 2)[0]
							}
						}
						okCLI = okCLI && strings.Contains(stderr, first)
					}
				}
				c.Monitor(stream, i, "cli_verdict_"+cmd, in, okCLI, detail)
			}
			// a rejected journal is rejected whatever part of it the report shows: a window that ends before the offending
			// directive, a valuation, an interval (seeded change C04-e cut the journal at --to before the checker ran when -v is given)
			if verdict != "ok" && len(j.Dirs) > 0 {
				lo, hi := j.Dirs[0].Date, j.Dirs[0].Date
				for _, d := range j.Dirs {
					if d.Date < lo {
						lo = d.Date
					}
					if d.Date > hi {
						hi = d.Date
					}
				}
				for _, extra := range [][]string{{"--to", fmtDate(lo + r.Intn(hi-lo+1))}, {"-v", "CHF", "--to", fmtDate(lo + r.Intn(hi-lo+1))}, {"-v", "CHF", "--months", "--last", "1"}, {"--from", fmtDate(hi + 1)}} {
					args := append(append([]string{"balance"}, extra...), path)
					code, stdout, stderr := runKnut(c.KnutBin, 10*time.Second, nil, args...)
					c.Monitor(stream, i, "cli_rejects_whatever_the_window", map[string]any{"journal": text, "args": strings.Join(args[:len(args)-1], " ")}, code != 0 && stdout == "",
						fmt.Sprintf("knut %s: exit %d although the journal is ill-formed (in-process verdict %s); stdout %q stderr %q", strings.Join(args[:len(args)-1], " "), code, verdict, clip(stdout), clip(stderr)))
				}
			}
		}
	}
}

// c04ReopenJournal walks a few asset/liability accounts through long lives: opened, booked in one or two commodities with
// amounts that often return a position to exactly zero, closed, opened again, booked again in the SAME commodities, closed
// again (with or without a remaining position), asserted in between.  Mostly valid steps, some invalid ones; the model
// decides the verdict.  (Seeded change C04-d kept a per-account index of positions that forgot a commodity after a
// close/re-open cycle, so that a later close with a non-zero position in it was accepted.)
func c04ReopenJournal(r *RNG) (*Journal, []string) {
	accs := []string{"Assets:A", "Liabilities:L", "Assets:A:Sub"}[:r.Range(1, 3)]
	coms := []string{"X", "Y"}[:r.Range(1, 2)]
	j := &Journal{}
	day := 737000 + r.Intn(1000)
	j.Dirs = append(j.Dirs, JDir{Kind: 'o', Date: day, Account: "Equity:E"})
	open := map[string]bool{}
	pos := map[[2]string]decimal.Decimal{}
	cycles := 0
	tagset := map[string]bool{}
	ndays := r.Range(3, 14)
	for d := 0; d < ndays; d++ {
		day += r.Range(1, 3)
		for _, a := range accs {
			if !open[a] {
				if r.Chance(3, 4) {
					j.Dirs = append(j.Dirs, JDir{Kind: 'o', Date: day, Account: a})
					open[a] = true
				}
				if r.Chance(1, 12) { // booking on a closed / not yet opened account
					j.Dirs = append(j.Dirs, JDir{Kind: 't', Date: day, Desc: "ghost", Bookings: []JBook{{Credit: "Equity:E", Debit: a, Qty: "1", Com: Pick(r, coms)}}})
					tagset["booking-on-closed"] = true
				}
				continue
			}
			if r.Chance(1, 15) {
				j.Dirs = append(j.Dirs, JDir{Kind: 'o', Date: day, Account: a}) // opened twice
				tagset["double-open"] = true
			}
			nb := r.Range(0, 3)
			for k := 0; k < nb; k++ {
				c := Pick(r, coms)
				key := [2]string{a, c}
				var q decimal.Decimal
				if !pos[key].IsZero() && r.Chance(1, 2) {
					q = pos[key].Neg() // back to exactly zero
				} else {
					q = decimal.RequireFromString(Pick(r, []string{"1", "2", "-1", "0.5", "-0.5", "10", "0"}))
				}
				pos[key] = pos[key].Add(q)
				j.Dirs = append(j.Dirs, JDir{Kind: 't', Date: day, Desc: "move", Bookings: []JBook{{Credit: "Equity:E", Debit: a, Qty: q.String(), Com: c}}})
			}
			if r.Chance(1, 5) {
				c := Pick(r, coms)
				q := pos[[2]string{a, c}]
				if r.Chance(1, 8) {
					q = q.Add(decimal.New(1, 0))
					tagset["wrong-assertion"] = true
				}
				j.Dirs = append(j.Dirs, JDir{Kind: 'a', Date: day, Balances: []JBal{{Account: a, Qty: q.String(), Com: c}}})
			}
			zero := true
			for _, c := range coms {
				if !pos[[2]string{a, c}].IsZero() {
					zero = false
				}
			}
			if (zero && r.Chance(1, 2)) || r.Chance(1, 10) {
				j.Dirs = append(j.Dirs, JDir{Kind: 'c', Date: day, Account: a})
				if !zero {
					tagset["close-with-position"] = true
				} else {
					cycles++
				}
				open[a] = false
			}
		}
	}
	tags := []string{fmt.Sprintf("reopen-cycles:%d", min(cycles, 4))}
	for t := range tagset {
		tags = append(tags, t)
	}
	sort.Strings(tags)
	return j, tags
}
