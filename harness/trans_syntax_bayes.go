package main

// Go→Lean translator for the syntax layer: what lib/syntax/bayes (the model behind `knut infer`) needs on top of trans_syntax*.go.
// Agreement with the model (lean/Knut/Model/Infer.lean): lean/Knut/FactsAgree/TransBayes*.lean.  Prelude: lean/Knut/GoSem/SynBayes.lean.
//
//   map[K]V, named map types    AMap K V (association list, Basic/AMap.lean) as in the first translator: `m[k]` is AMap.get with the zero
//                      value, `m[k] = v` / `m[k]++` rebind the variable or field the map was read from with AMap.set, `v, ok := m[k]` is
//                      AMap.find?, `make(map…)` is the empty list.  A nil map READS as the empty map; that a store into a nil map panics is
//                      not modelled (the maps of a bayes.Model are made by NewModel; the agreement theorems are about those).
//   type token string  abbrev of Syn.GoString (bytes); the conversions are the identity
//   set.Set[T], set.New[T](), s.Add(x)   the definitions the FIRST translator generates from lib/common/set (Generated/TransSet.lean, imported)
//   for k := range m   Go fixes no order: the order is an EXTRA PARAMETER `order<N> : List K` of the translated function; the loop walks
//                      Syn.rangeKeys order<N> m (the keys of the order that have an entry).  The agreement theorems quantify over every
//                      order that lists each key once.  A function that calls one with such a parameter gets a parameter of its own per CALL
//                      SITE; for a call site inside `for i, x := range xs` it is a function of the round: `order<N> : Int → List K`, applied
//                      to i (every round may see another order).  The map ranged over must not be assigned in the body.
//   dict.SortedKeys(m, compare.Ordered[T]), dict.GetDefault(m, k, ctor)[k2]++   pinned texts (the pins of trans.go) with the prelude
//                      meaning sortedKeys / cmpOrdered (on byte strings: lexicographic, Go's string order) / getDefault
//   xs[i].f = v        index (Go's range check), replace the field, setIndex, rebind xs (struct elements only: elements that are pointers
//                      would be shared).  That the write also shows through every other slice that shares the array (commands.parseAndInfer
//                      reaches the bookings through f.Directives) is NOT part of the translated result.
//   &xs[i]             only as an argument of a translated function that does not assign through that parameter: the element's value at the
//                      time of the call
//   float64            an UNINTERPRETED type F with the operations the code uses as a record `fl : Syn.F64 F` (math.Inf, math.Log, float64(n),
//                      + / > and constants): nothing is assumed about floating point arithmetic; `{F : Type} (fl : Syn.F64 F)` are extra parameters
//   m.scoreCandidate(c, tokens)   (tsbExternal) the CALL is an application of the extra parameter `scoreCandidate : Model → string → Set → F`
//                      of the calling function, as the model's `Scorer`: the argmax loop of inferAccount is proved for every such function.
//                      The function itself is translated too (over `fl`), which shows WHAT it reads: Model.scoreCandidate_agrees.
//   strings.Fields, strings.ToLower     Syn.Strings.Fields / ToLower = Knut.Infer.fields / toLower (the model's definitions on bytes, compared
//                      with Go on every code point by C15's streams `unicode` and `tokens`)

import (
	"go/ast"
	"go/constant"
	"go/token"
	"go/types"
	"strings"
)

const (
	tsbSetPath     = trKnutPath + "lib/common/set"
	tsbDictPath    = trKnutPath + "lib/common/dict"
	tsbComparePath = trKnutPath + "lib/common/compare"
	tsbSetNS       = "Knut.Generated.Go.set"
)

// methods whose calls are applications of a function parameter of the caller (see the header)
var tsbExternal = map[string]string{
	"(*" + trKnutPath + "lib/syntax/bayes.Model).scoreCandidate": "scoreCandidate",
}

func init() {
	trPerfStub("math", "func Inf(", "func Inf(sign int) float64")
	trPerfStub("math", "func Log(", "func Log(x float64) float64")
	trPerfStub("strings", "func Fields(", "func Fields(s string) []string")
	trPerfStub("strings", "func ToLower(", "func ToLower(s string) string")
	tsUnits = append(tsUnits, &tsUnit{pkg: "lib/syntax/bayes", mod: "Bayes", funcs: []string{
		"newCountByAccount", "NewModel", "tokenize", "Model.update", "Model.Update", "Model.scoreCandidate", "Model.inferAccount", "Model.Infer",
	}})
	for _, k := range []string{tsbComparePath + ".Ordered", tsbDictPath + ".Keys", tsbComparePath + ".Sort", tsbDictPath + ".SortedKeys", tsbDictPath + ".GetDefault"} {
		tsPinned[k] = trPinned[k].src
	}
}

// tsbImports: what the generated module of a unit imports besides the syntax prelude
func tsbImports(u *tsUnit) string {
	if u.mod == "Bayes" {
		return "import Knut.GoSem.SynBayes\nimport Knut.Generated.TransSet\n"
	}
	return ""
}

// ---------------------------------------------------------------------------------------------- types

func tsbIsFloat(ty types.Type) bool {
	b, ok := ty.Underlying().(*types.Basic)
	return ok && (b.Kind() == types.Float64 || b.Kind() == types.UntypedFloat)
}

func tsbIsMap(ty types.Type) bool {
	_, ok := ty.Underlying().(*types.Map)
	return ok
}

func tsbIsSet(ty types.Type) *types.Named {
	n, ok := ty.(*types.Named)
	if ok && n.Obj().Pkg() != nil && n.Obj().Pkg().Path() == tsbSetPath && n.Obj().Name() == "Set" && n.TypeArgs() != nil && n.TypeArgs().Len() == 1 {
		return n
	}
	return nil
}

// tsbLeanType: the types this file adds to leanType ("" = not one of them)
func (t *tsT) tsbLeanType(from *tsUnit, ty types.Type, pos token.Pos) string {
	switch x := ty.(type) {
	case *types.Basic:
		if tsbIsFloat(x) {
			return "F"
		}
	case *types.Struct:
		if x.NumFields() == 0 {
			return "Unit"
		}
	case *types.Map:
		k := x.Key()
		if !(tsIsString(k) || tsIsIntLike(k)) {
			trFail(pos, "a map with keys of type %s is outside the subset (strings and ints only)", k)
		}
		return "(AMap " + t.leanType(from, k, pos) + " " + t.leanType(from, x.Elem(), pos) + ")"
	case *types.Named:
		if s := tsbIsSet(x); s != nil {
			k := s.TypeArgs().At(0)
			if !(tsIsString(k) || tsIsIntLike(k)) {
				trFail(pos, "a set of %s is outside the subset (strings and ints only)", k)
			}
			return "(" + tsbSetNS + ".Set " + t.leanType(from, k, pos) + ")"
		}
		if x.Obj().Pkg() == nil || (x.TypeArgs() != nil && x.TypeArgs().Len() > 0) {
			return ""
		}
		u := t.unitOfPkg(x.Obj().Pkg())
		if u == nil {
			return ""
		}
		var under string
		switch ut := x.Underlying().(type) {
		case *types.Map:
			under = t.leanType(u, ut, pos)
		case *types.Basic:
			if !tsIsString(ut) {
				return ""
			}
			under = "Syn.GoString"
		default:
			return ""
		}
		if types.NewMethodSet(x).Len() > 0 || types.NewMethodSet(types.NewPointer(x)).Len() > 0 {
			trFail(pos, "the named type %s has methods: outside the subset", x)
		}
		obj := x.Obj()
		if !t.declSeen[obj] {
			t.declSeen[obj] = true
			t.decls[u] = append(t.decls[u], "/-- Go: `type "+obj.Name()+" "+x.Underlying().String()+"` ("+t.l.relPos(obj.Pos())+") -/\nabbrev "+trMangle(obj.Name())+" := "+under+"\n")
		}
		return t.qname(from, u, trMangle(obj.Name()))
	}
	return ""
}

// ---------------------------------------------------------------------------------------------- extra parameters

type tsbExtra struct {
	kind   string         // "F64" (the pair {F : Type} (fl : Syn.F64 F)), "ext" (an external function), "order" (an iteration order)
	name   string         // Lean name of the parameter
	typ    string         // its Lean type
	node   ast.Node       // order: the range statement or the call it belongs to
	callee string         // order of a call: the name of the callee's parameter
	keys   []types.Object // order: the index variables of the enclosing range loops (outermost first)
}

type tsbFuncInfo struct {
	extras []tsbExtra
	addrOK map[ast.Expr]bool // &xs[i] expressions that are arguments of translated functions that only read them
}

var tsbInfos = map[*tsFunc]*tsbFuncInfo{}

func (c *tsCtx) tsbInfo() *tsbFuncInfo {
	if fi := tsbInfos[c.fn]; fi != nil {
		return fi
	}
	return &tsbFuncInfo{}
}

// tsbCalledFunc: as tsCalledFunc, also through an explicit instantiation F[T](…)
func tsbCalledFunc(info *types.Info, x *ast.CallExpr) *types.Func {
	fun := trUnparen(x.Fun)
	switch f := fun.(type) {
	case *ast.IndexExpr:
		fun = trUnparen(f.X)
	case *ast.IndexListExpr:
		fun = trUnparen(f.X)
	default:
		return tsCalledFunc(info, x)
	}
	switch f := fun.(type) {
	case *ast.Ident:
		fo, _ := info.Uses[f].(*types.Func)
		return fo
	case *ast.SelectorExpr:
		if _, isSel := info.Selections[f]; !isSel {
			fo, _ := info.Uses[f.Sel].(*types.Func)
			return fo
		}
	}
	return nil
}

func tsbFull(fo *types.Func) string {
	if fo == nil {
		return ""
	}
	return fo.Origin().FullName()
}

// tsbBegin: the analysis of a function before its body is translated: the extra parameters it needs and the &xs[i] it may use
func (c *tsCtx) tsbBegin() {
	f := c.fn
	fi := &tsbFuncInfo{addrOK: map[ast.Expr]bool{}}
	tsbInfos[f] = fi
	info := c.info()
	needF := false
	var exts, orders []tsbExtra
	hasExt := map[string]bool{}
	norder := 0
	var loops []ast.Node
	keysHere := func(pos token.Pos) ([]types.Object, string) {
		var keys []types.Object
		prefix := ""
		for _, l := range loops {
			r, ok := l.(*ast.RangeStmt)
			if !ok {
				trFail(pos, "a map range (or a call of a function with one) inside a for loop is outside the subset")
			}
			id, ok := r.Key.(*ast.Ident)
			if !ok || id.Name == "_" || r.Tok != token.DEFINE || !isSlice(c.typeOf(r.X)) {
				trFail(pos, "a map range (or a call of a function with one) inside a range loop without an index variable is outside the subset")
			}
			obj := info.Defs[id]
			if c.t.assignedObjs(info, r.Body)[obj] {
				trFail(pos, "the index variable %s is assigned in the loop body: outside the subset here", id.Name)
			}
			keys = append(keys, obj)
			prefix += "Int → "
		}
		return keys, prefix
	}
	var walk func(n ast.Node)
	walk = func(n ast.Node) {
		if n == nil || isNilNode(n) {
			return
		}
		ast.Inspect(n, func(m ast.Node) bool {
			switch x := m.(type) {
			case *ast.FuncLit:
				return false
			case *ast.ForStmt:
				if x.Init != nil {
					walk(x.Init)
				}
				if x.Cond != nil {
					walk(x.Cond)
				}
				loops = append(loops, x)
				if x.Post != nil {
					walk(x.Post)
				}
				walk(x.Body)
				loops = loops[:len(loops)-1]
				return false
			case *ast.RangeStmt:
				walk(x.X)
				if tv, ok := info.Types[x.X]; ok && tv.Type != nil && tsbIsMap(tv.Type) {
					keys, prefix := keysHere(x.Pos())
					norder++
					kt := tv.Type.Underlying().(*types.Map).Key()
					orders = append(orders, tsbExtra{kind: "order", name: "order" + itoa(norder), typ: prefix + "(List " + c.leanType(kt, x.Pos()) + ")", node: x, keys: keys})
				}
				loops = append(loops, x)
				walk(x.Body)
				loops = loops[:len(loops)-1]
				return false
			case *ast.CallExpr:
				fo := tsbCalledFunc(info, x)
				if fo == nil {
					return true
				}
				if name, ok := tsbExternal[tsbFull(fo)]; ok {
					if !hasExt[name] {
						hasExt[name] = true
						sig := fo.Type().(*types.Signature)
						var parts []string
						if sig.Recv() != nil {
							parts = append(parts, c.leanType(sig.Recv().Type(), x.Pos()))
						}
						for i := 0; i < sig.Params().Len(); i++ {
							parts = append(parts, c.leanType(sig.Params().At(i).Type(), x.Pos()))
						}
						if sig.Results().Len() != 1 || sig.Variadic() {
							trFail(x.Pos(), "the external function %s must have exactly one result", name)
						}
						if tsbIsFloat(sig.Results().At(0).Type()) {
							needF = true
						}
						parts = append(parts, c.leanType(sig.Results().At(0).Type(), x.Pos()))
						exts = append(exts, tsbExtra{kind: "ext", name: name, typ: strings.Join(parts, " → ")})
					}
					return true
				}
				if g := c.t.funcs[fo.Origin()]; g != nil {
					gi := tsbInfos[g]
					if gi != nil {
						for _, e := range gi.extras {
							switch e.kind {
							case "F64":
								needF = true
							case "ext":
								if !hasExt[e.name] {
									hasExt[e.name] = true
									exts = append(exts, e)
								}
							case "order":
								keys, prefix := keysHere(x.Pos())
								norder++
								orders = append(orders, tsbExtra{kind: "order", name: "order" + itoa(norder), typ: prefix + e.typ, node: x, callee: e.name, keys: keys})
							}
						}
					}
					// &xs[i] handed to a parameter the callee only reads
					sig := fo.Type().(*types.Signature)
					for i, a := range x.Args {
						u, ok := trUnparen(a).(*ast.UnaryExpr)
						if !ok || u.Op != token.AND {
							continue
						}
						if _, isIx := trUnparen(u.X).(*ast.IndexExpr); !isIx || i >= sig.Params().Len() {
							continue
						}
						pi := i
						if g.decl.Recv != nil {
							pi++
						}
						written := false
						for _, mi := range g.mut {
							if mi == pi {
								written = true
							}
						}
						if !written {
							fi.addrOK[u] = true
						}
					}
				}
			}
			if e, ok := m.(ast.Expr); ok {
				if tv, ok := info.Types[e]; ok && tv.Type != nil && !tv.IsType() && tsbIsFloat(tv.Type) {
					needF = true
				}
			}
			return true
		})
	}
	walk(f.decl.Body)
	sig := f.obj.Type().(*types.Signature)
	for i := 0; i < sig.Results().Len(); i++ {
		if tsbIsFloat(sig.Results().At(i).Type()) {
			needF = true
		}
	}
	for _, p := range f.params {
		if tsbIsFloat(p.Type()) {
			trFail(f.decl.Pos(), "a parameter of type float64 is outside the subset")
		}
	}
	if needF {
		fi.extras = append(fi.extras, tsbExtra{kind: "F64", name: "fl", typ: "Syn.F64 F"})
		c.used["F"], c.used["fl"] = true, true
	}
	fi.extras = append(fi.extras, exts...)
	fi.extras = append(fi.extras, orders...)
	for _, e := range fi.extras {
		c.used[e.name] = true
	}
}

// tsbParams: the extra parameters of the function (after its own)
func (c *tsCtx) tsbParams() []string {
	var ps []string
	for _, e := range c.tsbInfo().extras {
		if e.kind == "F64" {
			ps = append(ps, "{F : Type}")
		}
		ps = append(ps, "("+e.name+" : "+e.typ+")")
	}
	return ps
}

// tsbLoopExtras: every loop function of a function with extra parameters takes them all
func (c *tsCtx) tsbLoopExtras(params, callArgs []string) ([]string, []string) {
	for _, e := range c.tsbInfo().extras {
		if e.kind == "F64" {
			params = append([]string{"{F : Type}"}, params...) // before the free variables of type F
		}
		params = append(params, "("+e.name+" : "+e.typ+")")
		callArgs = append(callArgs, e.name)
	}
	return params, callArgs
}

func (c *tsCtx) tsbOrderAt(e tsbExtra) string {
	s := e.name
	for _, k := range e.keys {
		n, ok := c.names[k]
		if !ok {
			trFail(e.node.Pos(), "internal: the index variable of the enclosing loop has no name yet")
		}
		s += " " + n
	}
	if len(e.keys) > 0 {
		return "(" + s + ")"
	}
	return s
}

// tsbCallExtras: the extra arguments of a call of the translated function tf
func (c *tsCtx) tsbCallExtras(tf *tsFunc, call *ast.CallExpr) []string {
	gi := tsbInfos[tf]
	if gi == nil {
		return nil
	}
	var args []string
	for _, e := range gi.extras {
		switch e.kind {
		case "F64", "ext":
			args = append(args, e.name)
		case "order":
			found := false
			for _, mine := range c.tsbInfo().extras {
				if mine.kind == "order" && mine.node == ast.Node(call) && mine.callee == e.name {
					args = append(args, c.tsbOrderAt(mine))
					found = true
				}
			}
			if !found {
				trFail(call.Pos(), "internal: no order parameter for this call")
			}
		}
	}
	return args
}

// ---------------------------------------------------------------------------------------------- pinned helpers

func (c *tsCtx) tsbPin(pos token.Pos, names ...string) {
	for _, n := range names {
		c.t.checkPinned(n, pos)
	}
}

// tsbComparator: the second argument of dict.SortedKeys
func (c *tsCtx) tsbComparator(e ast.Expr) string {
	var fo *types.Func
	fun := trUnparen(e)
	if ix, ok := fun.(*ast.IndexExpr); ok {
		fun = trUnparen(ix.X)
	}
	switch f := fun.(type) {
	case *ast.Ident:
		fo, _ = c.info().Uses[f].(*types.Func)
	case *ast.SelectorExpr:
		if _, isSel := c.info().Selections[f]; !isSel {
			fo, _ = c.info().Uses[f.Sel].(*types.Func)
		}
	}
	if fo == nil {
		trFail(e.Pos(), "this comparator (%s) is outside the subset: compare.Ordered[T] or the name of a translated pure function", trSrc(e))
	}
	if tsbFull(fo) == tsbComparePath+".Ordered" {
		c.tsbPin(e.Pos(), tsbComparePath+".Ordered")
		return "cmpOrdered"
	}
	return c.funcName(fo, e.Pos())
}

// tsbGetDefault: e as a call dict.GetDefault(m, k, ctor) (nil = something else)
func (c *tsCtx) tsbGetDefault(e ast.Expr) *ast.CallExpr {
	call, ok := trUnparen(e).(*ast.CallExpr)
	if !ok || len(call.Args) != 3 {
		return nil
	}
	if tsbFull(tsbCalledFunc(c.info(), call)) != tsbDictPath+".GetDefault" {
		return nil
	}
	return call
}

// tsbGetDefaultTerm: the value of dict.GetDefault(m, k, ctor) (the stored entry, or what the constructor makes)
func (c *tsCtx) tsbGetDefaultTerm(call *ast.CallExpr) (m, k, inner string) {
	c.tsbPin(call.Pos(), tsbDictPath+".GetDefault")
	id, ok := trUnparen(call.Args[2]).(*ast.Ident)
	var ctor *types.Func
	if ok {
		ctor, _ = c.info().Uses[id].(*types.Func)
	}
	if ctor == nil {
		trFail(call.Pos(), "dict.GetDefault with a constructor that is not the name of a function is outside the subset")
	}
	if sig := ctor.Type().(*types.Signature); sig.Params().Len() != 0 {
		trFail(call.Pos(), "dict.GetDefault: the constructor takes parameters")
	}
	m, k = c.expr(call.Args[0]), c.expr(call.Args[1])
	return m, k, "(getDefault " + m + " " + k + " " + c.funcName(ctor, call.Pos()) + ")"
}

// ---------------------------------------------------------------------------------------------- expressions

func (c *tsCtx) tsbNeedFl(pos token.Pos) {
	for _, e := range c.tsbInfo().extras {
		if e.kind == "F64" {
			return
		}
	}
	trFail(pos, "internal: float64 in a function without the parameter fl")
}

// tsbFloat: an expression of type float64
func (c *tsCtx) tsbFloat(e ast.Expr) string {
	if tv, ok := c.info().Types[e]; ok && tv.Value != nil {
		c.tsbNeedFl(e.Pos())
		num, den := constant.Num(tv.Value), constant.Denom(tv.Value)
		if num.Kind() != constant.Int || den.Kind() != constant.Int {
			trFail(e.Pos(), "the constant %s is outside the subset", tv.Value)
		}
		return "(fl.lit (" + num.ExactString() + " : Int) (" + den.ExactString() + " : Int))"
	}
	return c.expr(e)
}

// tsbBinary: arithmetic and comparisons of float64 (ok = false: not one of them)
func (c *tsCtx) tsbBinary(x *ast.BinaryExpr) (string, bool) {
	tx, ok := c.info().Types[x.X]
	if !ok || tx.Type == nil || !tsbIsFloat(tx.Type) {
		return "", false
	}
	if tv, ok := c.info().Types[x]; ok && tv.Value != nil {
		return "", false
	}
	c.tsbNeedFl(x.Pos())
	a, b := c.tsbFloat(x.X), c.tsbFloat(x.Y)
	switch x.Op {
	case token.ADD:
		return "(fl.add " + a + " " + b + ")", true
	case token.QUO:
		return "(fl.div " + a + " " + b + ")", true
	case token.GTR:
		return "(fl.gt " + a + " " + b + ")", true
	case token.LSS:
		return "(fl.gt " + b + " " + a + ")", true
	}
	trFail(x.Pos(), "the operator %s on float64 is outside the subset (+ / > < only)", x.Op)
	return "", false
}

// tsbCall: the calls this file gives a meaning to (ok = false: not one of them)
func (c *tsCtx) tsbCall(x *ast.CallExpr) (string, bool) {
	info := c.info()
	if tv, ok := info.Types[x.Fun]; ok && tv.IsType() {
		if tsbIsFloat(tv.Type) && len(x.Args) == 1 {
			from := c.typeOf(x.Args[0])
			if tv0, ok := info.Types[x.Args[0]]; ok && tv0.Value != nil {
				return c.tsbFloat(x.Args[0]), true
			}
			switch {
			case tsIsIntLike(from):
				c.tsbNeedFl(x.Pos())
				return "(fl.ofInt " + c.expr(x.Args[0]) + ")", true
			case tsbIsFloat(from):
				return c.expr(x.Args[0]), true
			}
			trFail(x.Pos(), "conversion from %s to float64 is outside the subset", from)
		}
		return "", false
	}
	if id, ok := trUnparen(x.Fun).(*ast.Ident); ok {
		if b, ok := info.Uses[id].(*types.Builtin); ok {
			if b.Name() == "make" {
				ty := c.typeOf(x)
				if tsbIsMap(ty) {
					return "([] : " + c.leanType(ty, x.Pos()) + ")", true
				}
			}
			if b.Name() == "len" && len(x.Args) == 1 && tsbIsMap(c.typeOf(x.Args[0])) {
				trFail(x.Pos(), "len of a map is outside the subset")
			}
			return "", false
		}
	}
	fo := tsbCalledFunc(info, x)
	if fo == nil {
		return "", false
	}
	full := tsbFull(fo)
	switch full {
	case "strings.Fields":
		return "(Syn.Strings.Fields " + c.expr(x.Args[0]) + ")", true
	case "strings.ToLower":
		return "(Syn.Strings.ToLower " + c.expr(x.Args[0]) + ")", true
	case "math.Inf":
		c.tsbNeedFl(x.Pos())
		tv := info.Types[x.Args[0]]
		if tv.Value == nil || tv.Value.Kind() != constant.Int {
			trFail(x.Pos(), "math.Inf with a sign that is not a constant is outside the subset")
		}
		if constant.Sign(tv.Value) >= 0 {
			return "fl.posInf", true
		}
		return "fl.negInf", true
	case "math.Log":
		c.tsbNeedFl(x.Pos())
		return "(fl.log " + c.tsbFloat(x.Args[0]) + ")", true
	case tsbDictPath + ".SortedKeys":
		c.tsbPin(x.Pos(), tsbDictPath+".Keys", tsbComparePath+".Sort", tsbDictPath+".SortedKeys")
		m := c.expr(x.Args[0])
		return "(sortedKeys " + m + " " + c.tsbComparator(x.Args[1]) + ")", true
	case tsbSetPath + ".New":
		ty := c.typeOf(x)
		if tsbIsSet(ty) == nil || len(x.Args) != 0 {
			trFail(x.Pos(), "this use of set.New is outside the subset")
		}
		return "(" + tsbSetNS + ".New : " + c.leanType(ty, x.Pos()) + ")", true
	case tsbDictPath + ".GetDefault":
		trFail(x.Pos(), "dict.GetDefault outside the idiom dict.GetDefault(m, k, ctor)[k2] is outside the subset")
	}
	if name, ok := tsbExternal[full]; ok {
		sel, isSel := trUnparen(x.Fun).(*ast.SelectorExpr)
		if !isSel {
			trFail(x.Pos(), "this call of %s is outside the subset", name)
		}
		found := false
		for _, e := range c.tsbInfo().extras {
			if e.kind == "ext" && e.name == name {
				found = true
			}
		}
		if !found {
			trFail(x.Pos(), "internal: no parameter for the external function %s", name)
		}
		sig := fo.Type().(*types.Signature)
		args := []string{name, c.expr(sel.X)}
		for i, a := range x.Args {
			args = append(args, c.exprAs(a, sig.Params().At(i).Type()))
		}
		return "(" + strings.Join(args, " ") + ")", true
	}
	return "", false
}

// tsbIndex: m[k] on a map (ok = false: not a map)
func (c *tsCtx) tsbIndex(x *ast.IndexExpr) (string, bool) {
	tv, ok := c.info().Types[x.X]
	if !ok || tv.Type == nil || tv.IsType() || !tsbIsMap(tv.Type) {
		return "", false
	}
	var m string
	if gd := c.tsbGetDefault(x.X); gd != nil {
		_, _, m = c.tsbGetDefaultTerm(gd)
	} else {
		m = c.expr(x.X)
	}
	return "(AMap.get " + m + " " + c.expr(x.Index) + " GoZero.zero)", true
}

// tsbAddrOf: &xs[i] as an argument that the callee only reads: the element
func (c *tsCtx) tsbAddrOf(x *ast.UnaryExpr) (string, bool) {
	ix, ok := trUnparen(x.X).(*ast.IndexExpr)
	if !ok {
		return "", false
	}
	if !c.tsbInfo().addrOK[x] {
		trFail(x.Pos(), "the address of a slice element is outside the subset, except as an argument of a translated function that does not assign through it")
	}
	return c.tspIndex(ix), true
}

// ---------------------------------------------------------------------------------------------- statements

// tsbMark: the variables the calls of this file write through (for assignedObjs)
func tsbMark(info *types.Info, x *ast.CallExpr, mark func(ast.Expr)) {
	fo := tsbCalledFunc(info, x)
	switch tsbFull(fo) {
	case tsbDictPath + ".GetDefault":
		if len(x.Args) == 3 {
			mark(x.Args[0]) // a missing entry is stored
		}
	case "(" + tsbSetPath + ".Set[T]).Add":
		if sel, ok := trUnparen(x.Fun).(*ast.SelectorExpr); ok {
			mark(sel.X)
		}
	}
}

// tsbExprStmt: s.Add(x) on a set (ok = false: something else)
func (c *tsCtx) tsbExprStmt(call *ast.CallExpr, k tsK) (trLines, bool) {
	fo := tsbCalledFunc(c.info(), call)
	full := tsbFull(fo)
	if strings.HasPrefix(full, "("+tsbSetPath+".Set[") && full != "("+tsbSetPath+".Set[T]).Add" {
		trFail(call.Pos(), "the method %s of a set is outside the subset", fo.Name())
	}
	if full != "("+tsbSetPath+".Set[T]).Add" {
		return nil, false
	}
	sel := trUnparen(call.Fun).(*ast.SelectorExpr)
	if tsbIsSet(c.typeOf(sel.X)) == nil {
		trFail(call.Pos(), "Add on a value of type %s is outside the subset", c.typeOf(sel.X))
	}
	sig := fo.Type().(*types.Signature)
	val := "(" + tsbSetNS + ".Set.Add " + c.expr(sel.X) + " " + c.exprAs(call.Args[0], sig.Params().At(0).Type()) + ")"
	pre := c.takePre()
	return tsWrapPre(pre, c.store(sel.X, val, call.Pos(), k)), true
}

// tsbStore: m[k] = v, dict.GetDefault(m, k, ctor)[k2] = v, xs[i] = v, xs[i].f.g = v (ok = false: a plain place)
func (c *tsCtx) tsbStore(lhs ast.Expr, val string, pos token.Pos, k tsK) (trLines, bool) {
	e := trUnparen(lhs)
	var after []string // the fields between the element and the place assigned
	for {
		sel, ok := e.(*ast.SelectorExpr)
		if !ok {
			break
		}
		s, ok := c.info().Selections[sel]
		if !ok || s.Kind() != types.FieldVal {
			return nil, false
		}
		after = append(c.fieldPath(s, sel.Pos()), after...)
		e = trUnparen(sel.X)
	}
	ix, ok := e.(*ast.IndexExpr)
	if !ok {
		return nil, false
	}
	tx := c.typeOf(ix.X)
	if tsbIsMap(tx) {
		if len(after) > 0 {
			trFail(pos, "assignment to a field of a map entry is outside the subset")
		}
		if gd := c.tsbGetDefault(ix.X); gd != nil {
			lv := c.lvalOf(gd.Args[0])
			if lv == nil {
				trFail(pos, "dict.GetDefault on a map that is not a variable or a field is outside the subset")
			}
			m, tok, inner := c.tsbGetDefaultTerm(gd)
			key := c.expr(ix.Index)
			if len(c.pre) > 0 {
				trFail(pos, "a map key that can panic is outside the subset")
			}
			return c.storeLval(lv, "(AMap.set "+m+" "+tok+" (AMap.set "+inner+" "+key+" "+val+"))", pos, k), true
		}
		lv := c.lvalOf(ix.X)
		if lv == nil {
			trFail(pos, "assignment to an entry of a map that is not a variable or a field is outside the subset")
		}
		m, key := c.expr(ix.X), c.expr(ix.Index)
		if len(c.pre) > 0 {
			trFail(pos, "a map key that can panic is outside the subset")
		}
		return c.storeLval(lv, "(AMap.set "+m+" "+key+" "+val+")", pos, k), true
	}
	sl, ok := tx.Underlying().(*types.Slice)
	if !ok || tspIsBytes(tx) {
		trFail(pos, "assignment to an element of a %s is outside the subset", tx)
	}
	if _, isPtr := sl.Elem().Underlying().(*types.Pointer); isPtr && len(after) > 0 {
		trFail(pos, "assignment through an element that is a pointer is outside the subset (the object is shared)")
	}
	lv := c.lvalOf(ix.X)
	if lv == nil {
		trFail(pos, "assignment to an element of a slice that is not a variable or a field is outside the subset")
	}
	if !c.fn.effect {
		trFail(pos, "internal: indexed assignment in a function classified as pure")
	}
	xs, i := c.expr(ix.X), c.expr(ix.Index)
	if len(c.pre) > 0 {
		trFail(pos, "an index that can panic is outside the subset here")
	}
	old, xs2 := c.fresh("old"), c.fresh("xs")
	term := val
	for j := len(after) - 1; j >= 0; j-- {
		prefix := old
		for _, f := range after[:j] {
			prefix += "." + trMangle(f)
		}
		term = "{ " + prefix + " with " + trMangle(after[j]) + " := " + term + " }"
	}
	body := trBind(xs2, "setIndex "+xs+" "+i+" "+term, c.storeLval(lv, xs2, pos, k))
	if len(after) > 0 {
		body = trBind(old, "index "+xs+" "+i, body)
	}
	return body, true
}

// tsbCommaOk: v, ok := m[k]  (nil = not that statement)
func (c *tsCtx) tsbCommaOk(x *ast.AssignStmt, k tsK) trLines {
	if len(x.Rhs) != 1 || len(x.Lhs) != 2 {
		return nil
	}
	ix, ok := trUnparen(x.Rhs[0]).(*ast.IndexExpr)
	if !ok {
		return nil
	}
	tv, ok := c.info().Types[ix.X]
	if !ok || tv.Type == nil || !tsbIsMap(tv.Type) {
		return nil
	}
	if c.tsbGetDefault(ix.X) != nil {
		trFail(x.Pos(), "v, ok := dict.GetDefault(…)[k] is outside the subset")
	}
	m, key := c.expr(ix.X), c.expr(ix.Index)
	pre := c.takePre()
	r := c.fresh("r")
	if x.Tok == token.DEFINE {
		for _, l := range x.Lhs {
			c.declare(l)
		}
	}
	body := c.store(x.Lhs[0], "(Option.getD "+r+" GoZero.zero)", x.Pos(), func() trLines {
		return c.store(x.Lhs[1], "(Option.isSome "+r+")", x.Pos(), k)
	})
	return tsWrapPre(pre, trLet(r, "", trOne("(AMap.find? "+m+" "+key+")"), body))
}

// tsbMapRange: for k := range m — checks, and the list the loop walks
func (c *tsCtx) tsbMapRange(x *ast.RangeStmt, m string) string {
	if x.Value != nil {
		if id, ok := x.Value.(*ast.Ident); !ok || id.Name != "_" {
			trFail(x.Pos(), "a map range with a value variable is outside the subset")
		}
	}
	if id := tsBaseIdent(x.X); id != nil {
		if o, ok := c.info().Uses[id].(*types.Var); ok && c.t.assignedObjs(c.info(), x.Body)[o] {
			trFail(x.Pos(), "a range over a map that the body assigns is outside the subset")
		}
	}
	for _, e := range c.tsbInfo().extras {
		if e.kind == "order" && e.node == ast.Node(x) {
			return "(Syn.rangeKeys " + c.tsbOrderAt(e) + " " + m + ")"
		}
	}
	trFail(x.Pos(), "internal: no order parameter for this map range")
	return ""
}
