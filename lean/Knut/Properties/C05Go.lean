import Knut.Properties.C06
import Knut.FactsAgree.TransJournal
/-!
# C05 / C06 (journal builder) on the generated definitions

`C05_same_dates`, `C05_same_day_content`, `C05_journal_period_perm` and `C06_journal_deterministic` are about the model
`Builder.ofList`; `FactsAgree/TransJournal.lean` proves the functions translated from `/repo`'s `lib/journal/journal.go` (`New`,
`Builder.Day`, `Builder.Add`, `Builder.Period`, `Builder.Build` with `dict.SortedValues(j.days, CompareDays)`) equal to it
(`Add_agrees`, `Build_agrees`, `journal_agrees`).  This module composes them.  The objects of every statement are

  `builderGo gxs` = `j := journal.New(); for _, d := range gxs { j.Add(d) }`   and   `journalGo gxs` = `builderGo(gxs).Build()`

built from the GENERATED `Go.journal.*`, for two lists `gxs`, `gxs'` of Go directives that are PERMUTATIONS of each other (the loader
delivers the directives of all files in an order that depends on the include tree and on goroutine scheduling).  Hypothesis that stays:
the Go directives stand for model directives (`AllRel (DirRel cur) gxs xs`: the values the translated `model.ParseDirective` produces —
`TransCreate2.ParseDirective_agrees`, `TransCreate3.text_to_directives` — with arbitrary `Src` pointers); a permutation of such a list
stands for a permutation of the model list (`perm_rel`), so it is needed for ONE of the two orders only.

Go level (no model term in the conclusion): the dates of the days in order (`C05_same_dates_go`), the journal period
(`C05_journal_period_go`), the number of directives per day and kind (`C05_same_day_sizes_go`).  The contents per day and kind are stated
through the model days the Go days stand for (`DayRel`: field by field, `Src` pointers arbitrary — the translated values carry their
`Src` pointer, which `DayRel` does not relate across two builds): `C05_same_day_content_go`.
-/
namespace Knut.C05Go
open Knut Knut.GoSem
open Knut.Generated.Go
open Knut.FactsAgree.TransJournal
open Knut.FactsAgree.TransProcess (AllRel AllRel_length)

/-- `j := journal.New(); for _, d := range gxs { j.Add(d) }` in the translation -/
def builderGo (gxs : List model.Directive) : journal.Builder := gxs.foldl (fun j d => (journal.Builder.Add j d).1) journal.New

/-- … then `j.Build()` -/
def journalGo (gxs : List model.Directive) : journal.Journal := journal.Builder.Build (builderGo gxs)

/-! ## the bridge -/

/-- **the bridge**: the days of the translated builder, sorted by the translated `Build`, stand one by one for the days of the model's
`Builder.ofList`; the translated `Period` is the model's `min`/`max` -/
theorem journalGo_agrees (cur : String → Bool) {gxs : List model.Directive} {xs : List Directive} (hr : AllRel (DirRel cur) gxs xs) :
    AllRel (DayRel cur) (journalGo gxs).Days (Builder.ofList xs).days ∧
      journal.Builder.Period (builderGo gxs) = ⟨(Builder.ofList xs).min, (Builder.ofList xs).max⟩ :=
  journal_agrees cur xs gxs hr

/-- no `Add` of the loop returns an error: every directive of a known kind is accepted -/
theorem adds_ok (cur : String → Bool) : ∀ {gxs : List model.Directive} {xs : List Directive}, AllRel (DirRel cur) gxs xs →
    ∀ {g : journal.Builder} {b : Builder}, BEquiv cur g b →
    ∀ pre gx post, gxs = pre ++ gx :: post → (journal.Builder.Add (pre.foldl (fun j d => (journal.Builder.Add j d).1) g) gx).2 = none := by
  intro gxs xs hr
  induction hr with
  | nil => intro g b _ pre gx post h; simp at h
  | cons hx hrest ih =>
    intro g b hb pre gx post h
    obtain ⟨g1, e1, h1⟩ := Add_agrees cur hb _ _ hx
    cases pre with
    | nil =>
      simp only [List.nil_append, List.cons.injEq] at h
      rw [← h.1]
      simp [e1]
    | cons p pre =>
      simp only [List.cons_append, List.cons.injEq] at h
      rw [← h.1]
      simp only [List.foldl_cons, e1]
      exact ih h1 pre gx post h.2

/-- a permutation of a list of Go values that stand for model values stands for a permutation of the model values -/
theorem perm_rel {α β : Type} {R : α → β → Prop} {as as' : List α} (hp : as.Perm as') :
    ∀ {bs : List β}, AllRel R as bs → ∃ bs', AllRel R as' bs' ∧ bs.Perm bs' := by
  induction hp with
  | nil => intro bs h; exact ⟨bs, h, List.Perm.refl _⟩
  | cons a _ ih =>
    intro bs h
    cases h with
    | cons h1 hrest =>
      obtain ⟨bs', h2, hp2⟩ := ih hrest
      exact ⟨_, .cons h1 h2, hp2.cons _⟩
  | swap a a' l =>
    intro bs h
    cases h with
    | cons h1 hrest =>
      cases hrest with
      | cons h2 hrest => exact ⟨_, .cons h2 (.cons h1 hrest), List.Perm.swap _ _ _⟩
  | trans _ _ ih1 ih2 =>
    intro bs h
    obtain ⟨bs1, h1, p1⟩ := ih1 h
    obtain ⟨bs2, h2, p2⟩ := ih2 h1
    exact ⟨bs2, h2, p1.trans p2⟩

theorem dates_of_rel {cur : String → Bool} : ∀ {gds : List journal.Day} {ds : List Day}, AllRel (DayRel cur) gds ds →
    gds.map (·.Date) = ds.map (·.date)
  | _, _, .nil => rfl
  | _, _, .cons h rest => by simp [h.date, dates_of_rel rest]

/-! ## C05: the order of the directives does not matter -/

section
variable (cur : String → Bool) {gxs gxs' : List model.Directive} {xs : List Directive}

/-- **same days, same (chronological) order**, on the Go journals -/
theorem C05_same_dates_go (hr : AllRel (DirRel cur) gxs xs) (hp : gxs.Perm gxs') :
    (journalGo gxs).Days.map (·.Date) = (journalGo gxs').Days.map (·.Date) := by
  obtain ⟨xs', hr', hpx⟩ := perm_rel hp hr
  rw [dates_of_rel (journalGo_agrees cur hr).1, dates_of_rel (journalGo_agrees cur hr').1]
  exact C05.C05_same_dates xs xs' hpx

/-- the days come out strictly ascending by date, whatever the order of the directives, of the Go map and of `sort.Slice` -/
theorem C05_dates_ascending_go (hr : AllRel (DirRel cur) gxs xs) :
    ((journalGo gxs).Days.map (·.Date)).Pairwise (· < ·) := by
  rw [dates_of_rel (journalGo_agrees cur hr).1]
  exact C05.sorted_dates _ (ofList_spec txKind xs).1

/-- **the journal period is order-independent**, on the Go builders -/
theorem C05_journal_period_go (hr : AllRel (DirRel cur) gxs xs) (hp : gxs.Perm gxs') :
    journal.Builder.Period (builderGo gxs) = journal.Builder.Period (builderGo gxs') := by
  obtain ⟨xs', hr', hpx⟩ := perm_rel hp hr
  rw [(journalGo_agrees cur hr).2, (journalGo_agrees cur hr').2, (C05.builder_period xs).1, (C05.builder_period xs).2,
    (C05.builder_period xs').1, (C05.builder_period xs').2, (C05.C05_journal_period_perm xs xs' hpx).1,
    (C05.C05_journal_period_perm xs xs' hpx).2]

/-- **same content per day and kind, up to order**: the two Go journals stand (`DayRel`: field by field, `Src` pointers arbitrary) for
model journals with the same dates whose days hold, for every kind (prices, opens, transactions, assertions, closes), permutations of
the same directives — within a kind in the order of arrival (`collect`) -/
theorem C05_same_day_content_go (hr : AllRel (DirRel cur) gxs xs) (hp : gxs.Perm gxs') :
    ∃ (xs' : List Directive) (days days' : List Day), xs.Perm xs' ∧
      AllRel (DayRel cur) (journalGo gxs).Days days ∧ AllRel (DayRel cur) (journalGo gxs').Days days' ∧
      days.map (·.date) = days'.map (·.date) ∧
      ∀ (α : Type) (k : Kind α) (y : Int), contentOn k days y = collect k xs y ∧ contentOn k days' y = collect k xs' y ∧
        (contentOn k days y).Perm (contentOn k days' y) := by
  obtain ⟨xs', hr', hpx⟩ := perm_rel hp hr
  refine ⟨xs', _, _, hpx, (journalGo_agrees cur hr).1, (journalGo_agrees cur hr').1, C05.C05_same_dates xs xs' hpx, ?_⟩
  intro α k y
  exact ⟨(ofList_spec k xs).2 y, (ofList_spec k xs').2 y, C05.C05_same_day_content k xs xs' hpx y⟩

/-- what a Go journal holds on date `y`, read through `proj` -/
def contentGo {α : Type} (proj : journal.Day → List α) (gds : List journal.Day) (y : Int) : List α :=
  ((gds.find? (fun d => d.Date = y)).map proj).getD []

theorem content_sizes {α β : Type} (k : Kind β) (proj : journal.Day → List α)
    (hlen : ∀ gd d, DayRel cur gd d → (proj gd).length = (k.proj d).length) :
    ∀ {gds : List journal.Day} {ds : List Day}, AllRel (DayRel cur) gds ds → ∀ y, (contentGo proj gds y).length = (contentOn k ds y).length
  | _, _, .nil, _ => rfl
  | _, _, .cons (a := gd) (b := d) h rest, y => by
    unfold contentGo contentOn findDay
    by_cases e : gd.Date = y
    · have e' : d.date = y := by rw [← h.date]; exact e
      simp [e, e', hlen gd d h]
    · have e' : ¬ d.date = y := by rw [← h.date]; exact e
      simp only [List.find?_cons, e, e', decide_false]
      exact content_sizes k proj hlen rest y

/-- **on the Go journals: every day holds the same NUMBER of directives of every kind**, whatever the arrival order -/
theorem C05_same_day_sizes_go (hr : AllRel (DirRel cur) gxs xs) (hp : gxs.Perm gxs') (y : Int) :
    (contentGo (·.Prices) (journalGo gxs).Days y).length = (contentGo (·.Prices) (journalGo gxs').Days y).length ∧
    (contentGo (·.Assertions) (journalGo gxs).Days y).length = (contentGo (·.Assertions) (journalGo gxs').Days y).length ∧
    (contentGo (·.Openings) (journalGo gxs).Days y).length = (contentGo (·.Openings) (journalGo gxs').Days y).length ∧
    (contentGo (·.Transactions) (journalGo gxs).Days y).length = (contentGo (·.Transactions) (journalGo gxs').Days y).length ∧
    (contentGo (·.Closings) (journalGo gxs).Days y).length = (contentGo (·.Closings) (journalGo gxs').Days y).length := by
  obtain ⟨xs', days, days', _, h1, h2, _, hc⟩ := C05_same_day_content_go cur hr hp
  refine ⟨?_, ?_, ?_, ?_, ?_⟩
  · rw [content_sizes cur priceKind (·.Prices) (fun _ _ h => AllRel_length h.prices) h1,
      content_sizes cur priceKind (·.Prices) (fun _ _ h => AllRel_length h.prices) h2]
    exact (hc _ priceKind y).2.2.length_eq
  · rw [content_sizes cur assertKind (·.Assertions) (fun _ _ h => AllRel_length h.assertions) h1,
      content_sizes cur assertKind (·.Assertions) (fun _ _ h => AllRel_length h.assertions) h2]
    exact (hc _ assertKind y).2.2.length_eq
  · rw [content_sizes cur openKind (·.Openings) (fun _ _ h => AllRel_length h.openings) h1,
      content_sizes cur openKind (·.Openings) (fun _ _ h => AllRel_length h.openings) h2]
    exact (hc _ openKind y).2.2.length_eq
  · rw [content_sizes cur txKind (·.Transactions) (fun _ _ h => AllRel_length h.transactions) h1,
      content_sizes cur txKind (·.Transactions) (fun _ _ h => AllRel_length h.transactions) h2]
    exact (hc _ txKind y).2.2.length_eq
  · rw [content_sizes cur closeKind (·.Closings) (fun _ _ h => AllRel_length h.closings) h1,
      content_sizes cur closeKind (·.Closings) (fun _ _ h => AllRel_length h.closings) h2]
    exact (hc _ closeKind y).2.2.length_eq

/-! ## C06: the journal is a function of the input alone -/

/-- **journal**: any two arrival orders of the directives give — in the translation — journals with the same days in the same order,
standing for model days with the same contents per day and kind up to order, and the same journal period -/
theorem C06_journal_deterministic_go (hr : AllRel (DirRel cur) gxs xs) (hp : gxs.Perm gxs') :
    (journalGo gxs).Days.map (·.Date) = (journalGo gxs').Days.map (·.Date) ∧
    journal.Builder.Period (builderGo gxs) = journal.Builder.Period (builderGo gxs') ∧
    ∃ days days', AllRel (DayRel cur) (journalGo gxs).Days days ∧ AllRel (DayRel cur) (journalGo gxs').Days days' ∧
      ∀ y, (contentOn txKind days y).Perm (contentOn txKind days' y) := by
  obtain ⟨xs', days, days', _, h1, h2, _, hc⟩ := C05_same_day_content_go cur hr hp
  exact ⟨C05_same_dates_go cur hr hp, C05_journal_period_go cur hr hp, days, days', h1, h2, fun y => (hc _ txKind y).2.2⟩

/-- the association-list order of the Go map `j.days` (the iteration order of `dict.SortedValues`) and what `sort.Slice` does with it
cannot be observed: `Build` of ANY Go builder that agrees with the model builder lookup by lookup delivers the model's days -/
theorem C06_map_order_irrelevant_go {g g' : journal.Builder} {b : Builder} (h : BEquiv cur g b) (h' : BEquiv cur g' b) :
    (journal.Builder.Build g).Days.map (·.Date) = (journal.Builder.Build g').Days.map (·.Date) := by
  rw [dates_of_rel (Build_agrees cur h), dates_of_rel (Build_agrees cur h')]

end

/-! ## Non-vacuity: two transactions and a price on three days in two arrival orders, through the translated builder -/

def exT (d : Int) : model.Directive := .Transaction ⟨⟨0⟩, d, "x", [], none⟩
def exP : model.Directive := .Price ⟨⟨0⟩, 30, ⟨"USD", false⟩, 2, ⟨"CHF", false⟩⟩

theorem ex_rel : AllRel (DirRel (fun _ => false)) [exT 20, exP, exT 10]
    [.tx ⟨20, "x", [], none⟩, .price ⟨30, "USD", 2, "CHF"⟩, .tx ⟨10, "x", [], none⟩] :=
  .cons ⟨rfl, Or.inl rfl, .nil, rfl⟩ (.cons rfl (.cons ⟨rfl, Or.inl rfl, .nil, rfl⟩ .nil))

/-- the builder itself evaluates (the Go map in insertion order); `Build`'s sort does not reduce in the kernel, the theorems speak for it -/
example : journal.Builder.Period (builderGo [exT 20, exP, exT 10]) = ⟨10, 30⟩ ∧
    (builderGo [exT 20, exP, exT 10]).days.map (·.1) = [20, 30, 10] ∧
    (builderGo [exT 10, exT 20, exP]).days.map (·.1) = [10, 20, 30] := by decide +kernel

example : (journalGo [exT 20, exP, exT 10]).Days.map (·.Date) = (journalGo [exT 10, exT 20, exP]).Days.map (·.Date) ∧
    ((journalGo [exT 20, exP, exT 10]).Days.map (·.Date)).Pairwise (· < ·) ∧
    journal.Builder.Period (builderGo [exT 10, exT 20, exP]) = ⟨10, 30⟩ := by
  have hp : [exT 20, exP, exT 10].Perm [exT 10, exT 20, exP] := List.perm_append_comm (l₁ := [exT 20, exP]) (l₂ := [exT 10])
  refine ⟨C05_same_dates_go _ ex_rel hp, C05_dates_ascending_go _ ex_rel, ?_⟩
  rw [← C05_journal_period_go _ ex_rel hp]
  decide +kernel

end Knut.C05Go
