import Knut.Properties.C13
import Knut.FactsAgree.TransImportSwisscard2Run
/-!
# C13 (the row clauses) on the generated per-record function of `ch.swisscard2`

`Properties/C13.lean` states the row clauses about the hand model `Import.Swisscard2.run`; `FactsAgree/TransImportSwisscard2Run.lean`
proves that `parse` — the TRANSLATED `swisscard2.parser.readBooking` (regenerated from /repo on every run) folded over the results of
the `encoding/csv.Reader` as the loop of the Go `parser.parse` folds it — computes that model (`run_agrees`).  This module composes
them: the clauses are stated about what the fold of the generated function leaves in the parser's `journal.Builder`.

Hypotheses, all about what stays outside the translation: the reader delivers the records `recs` of the file (`deliveries`: a record of
another length than twelve comes with `csv.ErrFieldCount`, `io.EOF` after the last); `ext2` = `Commodities().MustGet` as a function of
the name (the interned commodity of every VALID name) and `hval`: no booking record carries an invalid commodity name (then `MustGet`
panics inside the untranslated call — the model's `panic` —, and nothing is claimed); `ext3` = the interned `Expenses:TBD`; the parser
starts with the fresh builder (`journal.New`, `New_agrees`) and the account of the `--account` flag.
-/
namespace Knut.C13Go2
open Knut Knut.Import Knut.Spec.Import Knut.Proofs.Import
open Knut.GoSem Knut.Generated.Go
open Knut.FactsAgree.TransAccount Knut.FactsAgree.TransPosting Knut.FactsAgree.TransJournal
open Knut.FactsAgree.TransImportSwisscard2Run

/-- where the fold of the translated `readBooking` returns nil, the model run succeeded and the Go builder stands for the model's -/
theorem parse_ok_run (cur : String → Bool) (acct : Account) (ext2 : String → commodity.Commodity) (ext3 : account.Account)
    (h2 : ∀ s, validCommodity s = true → ext2 s = commodityGo cur s) (h3 : ext3 = accountGo tbd)
    (recs : List Rec) (hval : ∀ r ∈ recs.tail, r.length = 12 → validCommodity (fldD r 4) = true)
    (p p' : swisscard2.parser) (hb : BEquiv cur p.builder {}) (hacct : p.account = accountGo acct)
    (h : parse ext2 ext3 p (deliveries recs) = .ok (p', none)) :
    ∃ ds, Swisscard2.run acct recs = .ok ds ∧ BEquiv cur p'.builder (Builder.ofList ds) := by
  have ha := run_agrees cur acct ext2 ext3 h2 h3 recs p {} hb hacct
  cases hrun : Swisscard2.run acct recs with
  | ok ds =>
    rw [hrun] at ha
    obtain ⟨q, hq, _, hbq⟩ := ha
    rw [h] at hq
    cases hq
    exact ⟨ds, rfl, hbq⟩
  | error =>
    rw [hrun] at ha
    obtain ⟨q, e, hq⟩ := ha
    rw [h] at hq
    cases hq
  | panic =>
    rw [hrun] at ha
    obtain ⟨r, hr, h12, hv⟩ := ha
    rw [hval r hr h12] at hv
    cases hv

/-- **`C13_swisscard2` on the generated function**: when the fold of the translated `readBooking` over the file's records returns nil,
the builder it leaves stands for `Builder.ofList ds` of directives `ds` that are `Faithful` to the statement's items — every record
after the header ↦ exactly one transaction on `Transaktionsdatum` lowering the card account by `Betrag` `Währung`, nothing else -/
theorem C13_swisscard2_go (cur : String → Bool) (acct : Account) (hne : acct ≠ tbd) (ext2 : String → commodity.Commodity)
    (ext3 : account.Account) (h2 : ∀ s, validCommodity s = true → ext2 s = commodityGo cur s) (h3 : ext3 = accountGo tbd)
    (recs : List Rec) (hval : ∀ r ∈ recs.tail, r.length = 12 → validCommodity (fldD r 4) = true)
    (p p' : swisscard2.parser) (hb : BEquiv cur p.builder {}) (hacct : p.account = accountGo acct)
    (h : parse ext2 ext3 p (deliveries recs) = .ok (p', none)) :
    ∃ ds, BEquiv cur p'.builder (Builder.ofList ds) ∧ Faithful acct (swisscard2 recs) ds := by
  obtain ⟨ds, hrun, hbq⟩ := parse_ok_run cur acct ext2 ext3 h2 h3 recs hval p p' hb hacct h
  exact ⟨ds, hbq, C13.C13_swisscard2 acct hne recs ds hrun⟩

/-- **`C13_swisscard2_wellformed` on the generated function**: every directive the fold added is well-formed -/
theorem C13_swisscard2_wellformed_go (cur : String → Bool) (acct : Account) (ha : AccOK acct) (ext2 : String → commodity.Commodity)
    (ext3 : account.Account) (h2 : ∀ s, validCommodity s = true → ext2 s = commodityGo cur s) (h3 : ext3 = accountGo tbd)
    (recs : List Rec) (hval : ∀ r ∈ recs.tail, r.length = 12 → validCommodity (fldD r 4) = true)
    (p p' : swisscard2.parser) (hb : BEquiv cur p.builder {}) (hacct : p.account = accountGo acct)
    (h : parse ext2 ext3 p (deliveries recs) = .ok (p', none)) :
    ∃ ds, BEquiv cur p'.builder (Builder.ofList ds) ∧ ∀ d ∈ ds, wellFormed alnum d = true := by
  obtain ⟨ds, hrun, hbq⟩ := parse_ok_run cur acct ext2 ext3 h2 h3 recs hval p p' hb hacct h
  exact ⟨ds, hbq, C13.C13_swisscard2_wellformed acct ha recs ds hrun⟩

/-- both clauses about ONE directive list, with the count reading: one transaction per record after the header -/
theorem C13_swisscard2_go_all (cur : String → Bool) (acct : Account) (hne : acct ≠ tbd) (ha : AccOK acct)
    (ext2 : String → commodity.Commodity) (ext3 : account.Account)
    (h2 : ∀ s, validCommodity s = true → ext2 s = commodityGo cur s) (h3 : ext3 = accountGo tbd)
    (recs : List Rec) (hval : ∀ r ∈ recs.tail, r.length = 12 → validCommodity (fldD r 4) = true)
    (p p' : swisscard2.parser) (hb : BEquiv cur p.builder {}) (hacct : p.account = accountGo acct)
    (h : parse ext2 ext3 p (deliveries recs) = .ok (p', none)) :
    ∃ ds, BEquiv cur p'.builder (Builder.ofList ds) ∧ Faithful acct (swisscard2 recs) ds ∧
      (∀ d ∈ ds, wellFormed alnum d = true) ∧ ds.length = (swisscard2 recs).length := by
  obtain ⟨ds, hrun, hbq⟩ := parse_ok_run cur acct ext2 ext3 h2 h3 recs hval p p' hb hacct h
  have hf := C13.C13_swisscard2 acct hne recs ds hrun
  exact ⟨ds, hbq, hf, C13.C13_swisscard2_wellformed acct ha recs ds hrun, (C13.C13_count acct _ ds hf)⟩

/-- conversely the fold succeeds wherever the model run does (no hypothesis on the commodity names needed) -/
theorem parse_succeeds_of_run (cur : String → Bool) (acct : Account) (ext2 : String → commodity.Commodity) (ext3 : account.Account)
    (h2 : ∀ s, validCommodity s = true → ext2 s = commodityGo cur s) (h3 : ext3 = accountGo tbd)
    (recs : List Rec) (ds : List Directive) (hrun : Swisscard2.run acct recs = .ok ds)
    (p : swisscard2.parser) (hb : BEquiv cur p.builder {}) (hacct : p.account = accountGo acct) :
    ∃ p', parse ext2 ext3 p (deliveries recs) = .ok (p', none) ∧ BEquiv cur p'.builder (Builder.ofList ds) := by
  have ha := run_agrees cur acct ext2 ext3 h2 h3 recs p {} hb hacct
  rw [hrun] at ha
  obtain ⟨q, hq, _, hbq⟩ := ha
  exact ⟨q, hq, hbq⟩

/-! ### Non-vacuity: the statement of `C13.lean`'s witness (a quote and a separator in the free text, a zero amount) -/
example : ∃ p', parse (commodityGo (fun _ => true)) (accountGo tbd) ⟨accountGo C13.card, journal.New⟩
    (deliveries [C13.hdr12, C13.row1, C13.row0]) = .ok (p', none) := by
  have hok : (match Swisscard2.run C13.card [C13.hdr12, C13.row1, C13.row0] with | .ok _ => true | _ => false) = true := by
    decide +kernel
  cases hrun : Swisscard2.run C13.card [C13.hdr12, C13.row1, C13.row0] with
  | ok ds =>
    obtain ⟨p', hp, _⟩ := parse_succeeds_of_run (fun _ => true) C13.card (commodityGo (fun _ => true)) (accountGo tbd)
      (fun _ _ => rfl) rfl _ ds hrun ⟨accountGo C13.card, journal.New⟩ (New_agrees _) rfl
    exact ⟨p', hp⟩
  | error => rw [hrun] at hok; cases hok
  | panic => rw [hrun] at hok; cases hok

end Knut.C13Go2
