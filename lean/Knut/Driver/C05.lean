import Knut.Driver.C14
import Knut.Driver.Load
import Knut.Spec.LayoutSpec
/-! Driver op for C05 (layout): the journal of a wire file system, dumped like `loadtext`. Glue only.

```
c05journal <root hex> <fs>   → ok <min> <max> <days dump> | error | panic <site hex>
```
`fs` as in `Driver/C14.lean`; the dump is `Driver.Load.dump` of the days built from `Layout.journalOf`. The harness
compares it, up to the order within a (day, kind) block, with the dump of the REAL loader's days. -/
namespace Knut.Driver.C05
open Knut Knut.Wire Knut.Loader

def handle (fields : List String) : Option String :=
  match fields with
  | ["c05journal", root, fs] => some (
    match unhexStr root, Knut.Driver.C14.parseFS fs with
    | some root, some files =>
      match Layout.journalOf (FileSys.ofList files) root with
      | .error (.panic s) => "panic " ++ hexStr s
      | .error _ => "error"
      | .ok ds =>
        let bld := Builder.ofList ds
        s!"ok {bld.min} {bld.max} " ++ Knut.Driver.Load.dump bld.build
    | _, _ => "bad-op")
  | _ => none

end Knut.Driver.C05
