import Knut.FactsAgree.TransTableRender2
/-!
# The translated builder functions of `lib/common/table` agree with the model

`table.New` (the columns of the groups), `Table.Width`, `Row.addCell` and the exported `Row.Add…` methods as functions on ONE row
(a `*Row` receiver is the row value; the method returns the new row — twice, because Go returns the receiver for chaining).
`AddPercent` has no counterpart in the model (no percent cells).
-/
namespace Knut.FactsAgree.TransTableRender
open Knut Knut.GoSem
open Knut.Generated.Go

/-! ## `New` -/

theorem New_loop (g : Int) (size : Int) : ∀ (fuel : Nat) (cols : List Int) (i : Int), 0 ≤ i → (size - i).toNat ≤ fuel →
    table.New.loop1 g size fuel cols i
      = Outcome.ok (cols ++ List.replicate (size - i).toNat g, if i < size then size else i) := by
  intro fuel
  induction fuel with
  | zero =>
    intro cols i h0 hf
    have hl : ¬ i < size := by omega
    have : (size - i).toNat = 0 := by omega
    unfold table.New.loop1
    simp [hl, this]
  | succ fuel ih =>
    intro cols i h0 hf
    unfold table.New.loop1
    by_cases hl : i < size
    · simp only [hl, decide_true, if_true]
      rw [ih (cols ++ [g]) (i + 1) (by omega) (by omega)]
      have h1 : (size - i).toNat = (size - (i + 1)).toNat + 1 := by omega
      rw [h1, List.replicate_succ]
      by_cases h2 : i + 1 < size
      · simp [h2]
      · have : i + 1 = size := by omega
        simp [h2, this]
    · have : (size - i).toNat = 0 := by omega
      simp [hl, this]

/-- the body of the loop over the groups -/
def newStep (st1 : List Int) (el2 : Int × Nat) : Outcome (List Int) :=
  let columns : List Int := st1
  let groupSize : Int := el2.1
  let groupNo : Int := (el2.2 : Int)
  let i : Int := (0 : Int)
  Outcome.bind (table.New.loop1 groupNo groupSize (fuelLt i groupSize) columns i) (fun st4 =>
    let columns : List Int := st4.1
    let i : Int := st4.2
    Outcome.ok columns)

theorem newStep_eq (cols : List Int) (g : Int) (k : Nat) :
    newStep cols (g, k) = Outcome.ok (cols ++ List.replicate g.toNat (k : Int)) := by
  unfold newStep
  simp only [New_loop (k : Int) g (fuelLt 0 g) cols 0 (by omega) (by simp [fuelLt]), Outcome.bind]
  simp

/-- the outer loop of `New` from group number `k` on -/
theorem New_fold : ∀ (gs : List Int) (k : Nat) (cols : List Int),
    foldlE newStep cols (List.zipIdx gs k) = Outcome.ok (cols ++ natsGo (Table.groupColumns k (gs.map Int.toNat))) := by
  intro gs
  induction gs with
  | nil => intro k cols; simp [foldlE, Table.groupColumns, natsGo]
  | cons g gs ih =>
    intro k cols
    rw [List.zipIdx_cons, foldlE_ok _ _ _ _ _ (newStep_eq cols g k), ih]
    simp [Table.groupColumns, natsGo, List.map_replicate]

theorem New_unfold (gs : List Int) :
    table.New gs = Outcome.bind (foldlE newStep ([] : List Int) (List.zipIdx gs)) (fun columns =>
      Outcome.ok ({ columns := columns, rows := GoZero.zero } : table.Table)) := rfl

/-- `table.New(groups…)`: group `k` contributes `groups[k]` columns numbered `k` (a negative size: none) -/
theorem New_agrees (gs : List Int) :
    table.New gs = Outcome.ok (tableGo (Table.Table.new (gs.map Int.toNat))) := by
  rw [New_unfold, New_fold gs 0 []]
  rfl

/-! ## `Width`, the row methods -/

theorem Width_agrees (t : Table.Table) : table.Table.Width (tableGo t) = (t.width : Int) := by
  simp [table.Table.Width, tableGo, Table.Table.width]

theorem addCell_agrees (row : List Table.Cell) (c : Table.Cell) :
    table.Row.addCell (rowGo row) (cellGo c) = rowGo (row ++ [c]) := by
  simp [table.Row.addCell, rowGo]

theorem AddEmpty_agrees (row : List Table.Cell) :
    table.Row.AddEmpty (rowGo row) = (rowGo (row ++ [.empty]), rowGo (row ++ [.empty])) := by
  simp [table.Row.AddEmpty, ← addCell_agrees, cellGo]

/-- `table.Alignment` values other than `Left`/`Right`/`Center` are outside the model: the alignments `alignGo` yields -/
theorem AddText_agrees (row : List Table.Cell) (s : List Char) (a : Table.Align) :
    table.Row.AddText (rowGo row) (String.ofList s) (alignGo a)
      = (rowGo (row ++ [.text s a 0]), rowGo (row ++ [.text s a 0])) := by
  simp [table.Row.AddText, ← addCell_agrees, cellGo]

theorem AddDecimal_agrees (row : List Table.Cell) (n : Rat) :
    table.Row.AddDecimal (rowGo row) n = (rowGo (row ++ [.num n]), rowGo (row ++ [.num n])) := by
  simp [table.Row.AddDecimal, ← addCell_agrees, cellGo]

theorem AddIndented_agrees (row : List Table.Cell) (s : List Char) (indent : Int) :
    table.Row.AddIndented (rowGo row) (String.ofList s) indent
      = (rowGo (row ++ [.text s .left indent]), rowGo (row ++ [.text s .left indent])) := by
  simp [table.Row.AddIndented, ← addCell_agrees, cellGo, alignGo, table.Left]

end Knut.FactsAgree.TransTableRender
