import Knut.Generated.ProcOrder
/-! # Processor order of `knut check`: the extracted list is the one the composition modules assume

Part of the tie described in `FactsAgree/ProcOrder.lean` (extractor `harness/facts_procorder.go`, regenerated on every run of `bin/check`);
a module of its own so that a change of another command's processor list does not break the properties of this one (C04). -/
namespace Knut.FactsAgree.ProcOrder
open Knut.Generated.ProcOrder

/-- `knut check` (`cmd/commands/check.go`): ONE processor, `checker.Check()` of the local `checker := check.Checker{Write, NoCheck}` —
the stage of `TransProcessAllCheck` (`checkProc` folded over a day, `Check_day_agrees`). -/
theorem checkOrder_eq : checkOrder = ["(check.Checker).Check"] := by decide

theorem checkCalls_eq : checkCalls = [("(check.Checker).Check", [])] := by decide

end Knut.FactsAgree.ProcOrder
