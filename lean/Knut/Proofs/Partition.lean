import Knut.Model.Partition
/-! Helper lemmas for C11: calendar units and the partition loop. -/
namespace Knut
open Knut.Date

/-- uniqueness of the month: a day-of-year inside month `m`'s range has month `m` -/
def monthUniqueCheck (leap : Bool) (k : Nat) (m : Nat) : Bool :=
  let n : Int := k
  let mm : Int := m
  decide ((1 ≤ mm ∧ mm ≤ 12 ∧ cumDays leap mm ≤ n ∧ n < cumDays leap (mm + 1)) → monthOfDoy leap n = mm)

theorem monthUnique_all : ∀ leap : Bool, ∀ k : Fin 366, ∀ m : Fin 13, monthUniqueCheck leap k.val m.val = true := by
  decide +kernel

theorem monthOfDoy_unique (leap : Bool) (n m : Int) (h1 : 1 ≤ m) (h12 : m ≤ 12)
    (ha : cumDays leap m ≤ n) (hb : n < cumDays leap (m + 1)) : monthOfDoy leap n = m := by
  have h0 : 0 ≤ n := by
    have := cumDays_mono leap ⟨1, by omega⟩ ⟨m.toNat, by omega⟩ (by show 1 ≤ m.toNat; omega)
    have c : ((m.toNat : Nat) : Int) = m := by omega
    simp only [c] at this
    have z : cumDays leap ((1 : Nat) : Int) = 0 := by cases leap <;> decide
    omega
  have hmax : cumDays leap (m + 1) ≤ 366 := by
    have := cumDays_mono leap ⟨(m + 1).toNat, by omega⟩ ⟨13, by omega⟩ (by show (m + 1).toNat ≤ 13; omega)
    have c : (((m + 1).toNat : Nat) : Int) = m + 1 := by omega
    simp only [c] at this
    have z : cumDays leap ((13 : Nat) : Int) ≤ 366 := by cases leap <;> decide
    omega
  have := monthUnique_all leap ⟨n.toNat, by omega⟩ ⟨m.toNat, by omega⟩
  unfold monthUniqueCheck at this
  have e1 : ((n.toNat : Nat) : Int) = n := by omega
  have e2 : ((m.toNat : Nat) : Int) = m := by omega
  simp only [e1, e2, decide_eq_true_eq] at this
  exact this ⟨h1, h12, ha, hb⟩

theorem cumDays_13 (leap : Bool) : cumDays leap 13 = (if leap then 366 else 365) := by
  cases leap <;> decide

/-- A day inside the civil month (y, m) has that year and month. -/
theorem year_month_of_range (y m w : Int) (h1 : 1 ≤ m) (h12 : m ≤ 12)
    (ha : yearStart y + cumDays (isLeap y) m ≤ w) (hb : w < yearStart y + cumDays (isLeap y) (m + 1)) :
    year w = y ∧ month w = m := by
  have hy : year w = y := by
    apply year_unique
    · have := cumDays_mono (isLeap y) ⟨1, by omega⟩ ⟨m.toNat, by omega⟩ (by show 1 ≤ m.toNat; omega)
      have c : ((m.toNat : Nat) : Int) = m := by omega
      simp only [c] at this
      have z : cumDays (isLeap y) ((1 : Nat) : Int) = 0 := by cases isLeap y <;> decide
      omega
    · have := cumDays_mono (isLeap y) ⟨(m + 1).toNat, by omega⟩ ⟨13, by omega⟩ (by show (m + 1).toNat ≤ 13; omega)
      have c : (((m + 1).toNat : Nat) : Int) = m + 1 := by omega
      simp only [c] at this
      have z : cumDays (isLeap y) ((13 : Nat) : Int) = yearLen y := by
        unfold yearLen; cases isLeap y <;> decide
      have := yearStart_succ y
      omega
  refine ⟨hy, ?_⟩
  unfold month dayOfYear
  rw [hy]
  exact monthOfDoy_unique _ _ _ h1 h12 (by omega) (by omega)

theorem ofCivil_norm (y m d : Int) (h1 : 1 ≤ m) (h12 : m ≤ 12) :
    ofCivil y m d = yearStart y + cumDays (isLeap y) m + d - 1 := by
  unfold ofCivil
  have e3 : (m - 1) / 12 = 0 := by omega
  have e4 : (m - 1) % 12 + 1 = m := by omega
  simp only [e3, e4, Int.add_zero]

/-- position of `z` inside its month -/
theorem day_range (z : Int) :
    yearStart (year z) + cumDays (isLeap (year z)) (month z) ≤ z ∧
    z < yearStart (year z) + cumDays (isLeap (year z)) (month z + 1) := by
  have ⟨a, b⟩ := dayOfYear_bounds z
  have hl : cumDays (isLeap (year z)) 13 = yearLen (year z) := by
    unfold yearLen cumDays; cases isLeap (year z) <;> simp
  have := monthOfDoy_spec (isLeap (year z)) (dayOfYear z) a (by omega)
  have hd : dayOfYear z = z - yearStart (year z) := rfl
  unfold month
  omega

/-- (U2) days between the start of the unit of `z` and `z` are in the same unit. -/
theorem startOf_same (z w : Int) (iv : Interval) (h1 : startOf z iv ≤ w) (h2 : w ≤ z) :
    startOf w iv = startOf z iv := by
  have ⟨m1, m12⟩ := month_bounds z
  have ⟨r1, r2⟩ := day_range z
  cases iv
  · simp only [startOf] at *; omega
  · simp only [startOf] at *; omega
  · simp only [startOf, weekday] at *; omega
  · simp only [startOf] at *
    rw [ofCivil_norm _ _ _ m1 m12] at h1
    have ⟨hy, hm⟩ := year_month_of_range (year z) (month z) w m1 m12 (by omega) (by omega)
    rw [hy, hm]
  · simp only [startOf] at *
    have q1 : 1 ≤ (month z - 1) / 3 * 3 + 1 := by omega
    have q12 : (month z - 1) / 3 * 3 + 1 ≤ 12 := by omega
    rw [ofCivil_norm _ _ _ q1 q12] at h1
    -- w lies in some month m' between the quarter start month and month z, in the same year
    have hyw : year w = year z := by
      apply year_unique
      · have := cumDays_mono (isLeap (year z)) ⟨1, by omega⟩ ⟨((month z - 1) / 3 * 3 + 1).toNat, by omega⟩
            (by show 1 ≤ ((month z - 1) / 3 * 3 + 1).toNat; omega)
        have c : ((((month z - 1) / 3 * 3 + 1).toNat : Nat) : Int) = (month z - 1) / 3 * 3 + 1 := by omega
        simp only [c] at this
        have z0 : cumDays (isLeap (year z)) ((1 : Nat) : Int) = 0 := by cases isLeap (year z) <;> decide
        omega
      · have := (year_spec z).2; omega
    have ⟨mw1, mw12⟩ := month_bounds w
    have ⟨s1, s2⟩ := day_range w
    rw [hyw] at s1 s2
    -- month w is within [qstart, month z]
    have hlo : (month z - 1) / 3 * 3 + 1 ≤ month w := by
      by_cases hlt : month w < (month z - 1) / 3 * 3 + 1
      · exfalso
        have := cumDays_mono (isLeap (year z)) ⟨(month w + 1).toNat, by omega⟩ ⟨((month z - 1) / 3 * 3 + 1).toNat, by omega⟩
            (by show (month w + 1).toNat ≤ ((month z - 1) / 3 * 3 + 1).toNat; omega)
        have c1 : (((month w + 1).toNat : Nat) : Int) = month w + 1 := by omega
        have c2 : ((((month z - 1) / 3 * 3 + 1).toNat : Nat) : Int) = (month z - 1) / 3 * 3 + 1 := by omega
        simp only [c1, c2] at this
        omega
      · omega
    have hhi : month w ≤ month z := by
      by_cases hlt : month z < month w
      · exfalso
        have := cumDays_mono (isLeap (year z)) ⟨(month z + 1).toNat, by omega⟩ ⟨(month w).toNat, by omega⟩
            (by show (month z + 1).toNat ≤ (month w).toNat; omega)
        have c1 : (((month z + 1).toNat : Nat) : Int) = month z + 1 := by omega
        have c2 : (((month w).toNat : Nat) : Int) = month w := by omega
        simp only [c1, c2] at this
        omega
      · omega
    have : (month w - 1) / 3 * 3 + 1 = (month z - 1) / 3 * 3 + 1 := by omega
    rw [hyw, this]
  · simp only [startOf] at *
    rw [ofCivil_norm _ _ _ (by omega) (by omega)] at h1
    have z0 : cumDays (isLeap (year z)) 1 = 0 := by cases isLeap (year z) <;> decide
    have hyw : year w = year z := by
      apply year_unique
      · omega
      · have := (year_spec z).2; omega
    rw [hyw]

theorem startOf_idem (z : Int) (iv : Interval) : startOf (startOf z iv) iv = startOf z iv :=
  startOf_same z (startOf z iv) iv (Int.le_refl _) (startOf_le z iv)

end Knut

namespace Knut
open Knut.Date

/-- `Tiles a iv e L`: the newest-first list `L` tiles `[a, e]` exactly, every period being
cut at the unit start of its end date (or at the window start). -/
def Tiles (a : Int) (iv : Interval) : Int → List Period → Prop
  | e, [] => e < a
  | e, p :: rest => p.stop = e ∧ p.start = clampStart (startOf e iv) a ∧ a ≤ p.start ∧ p.start ≤ e ∧
      Tiles a iv (p.start - 1) rest

theorem clampStart_ge (s a : Int) : a ≤ clampStart s a := by unfold clampStart; split <;> omega
theorem clampStart_le (s a e : Int) (h1 : s ≤ e) (h2 : a ≤ e) : clampStart s a ≤ e := by
  unfold clampStart; split <;> omega

/-- without `--last` the loop tiles the whole window -/
theorem partLoop_tiles (a : Int) (iv : Interval) (last e c : Int) (hl : last ≤ 0) :
    Tiles a iv e (partLoop a iv last e c) := by
  fun_induction partLoop a iv last e c with
  | case1 e c h =>
    unfold Tiles
    rcases h with h | h <;> omega
  | case2 e c h s ih =>
    unfold Tiles
    have hle := startOf_le e iv
    refine ⟨rfl, rfl, clampStart_ge _ _, clampStart_le _ _ _ hle (by omega), ih⟩

/-- with `--last n` the loop yields the `n` most recent periods of the full tiling -/
theorem partLoop_last (a : Int) (iv : Interval) (last e c : Int) (hl : 0 < last) (hc : 0 ≤ c) (hcl : c ≤ last) :
    partLoop a iv last e c = (partLoop a iv 0 e c).take (last - c).toNat := by
  fun_induction partLoop a iv 0 e c with
  | case1 e c h =>
    have : e < a := by rcases h with h | h <;> omega
    rw [partLoop]; simp [this]
  | case2 e c h s ih =>
    have hea : ¬ e < a := by omega
    by_cases hcl' : c ≥ last
    · have : c = last := by omega
      subst this
      rw [partLoop]; simp [hl]
    · rw [partLoop]
      have hn : ¬ (e < a ∨ (c ≥ last ∧ last > 0)) := by omega
      simp only [hn, dite_false]
      have e1 : (last - c).toNat = (last - (c + 1)).toNat + 1 := by omega
      rw [e1, List.take_succ_cons]
      congr 1
      exact ih (by omega) (by omega)

theorem Tiles.mem_bounds {a : Int} {iv : Interval} : ∀ {e : Int} {L : List Period}, Tiles a iv e L →
    ∀ p ∈ L, a ≤ p.start ∧ p.start ≤ p.stop ∧ p.stop ≤ e ∧ p.start = clampStart (startOf p.stop iv) a
  | _, [], _, p, hp => by simp at hp
  | e, q :: rest, h, p, hp => by
    unfold Tiles at h
    obtain ⟨h1, h2, h3, h4, h5⟩ := h
    rcases List.mem_cons.mp hp with rfl | hm
    · refine ⟨h3, by omega, by omega, by rw [h1]; exact h2⟩
    · have := Tiles.mem_bounds h5 p hm
      omega

/-- every day of the window lies in exactly the periods it should: cover -/
theorem Tiles.cover {a : Int} {iv : Interval} : ∀ {e : Int} {L : List Period}, Tiles a iv e L →
    ∀ d : Int, (a ≤ d ∧ d ≤ e) ↔ ∃ p ∈ L, p.start ≤ d ∧ d ≤ p.stop
  | e, [], h, d => by
    unfold Tiles at h
    constructor
    · intro ⟨h1, h2⟩; omega
    · intro ⟨p, hp, _⟩; simp at hp
  | e, q :: rest, h, d => by
    unfold Tiles at h
    obtain ⟨h1, h2, h3, h4, h5⟩ := h
    have ih := Tiles.cover h5 d
    constructor
    · intro ⟨ha, hb⟩
      by_cases hd : q.start ≤ d
      · exact ⟨q, List.mem_cons_self, hd, by omega⟩
      · obtain ⟨p, hp, hp1, hp2⟩ := ih.mp ⟨ha, by omega⟩
        exact ⟨p, List.mem_cons_of_mem _ hp, hp1, hp2⟩
    · intro ⟨p, hp, hp1, hp2⟩
      rcases List.mem_cons.mp hp with rfl | hm
      · omega
      · have := ih.mpr ⟨p, hm, hp1, hp2⟩
        omega

/-- periods do not overlap: a day lies in at most one period -/
theorem Tiles.disjoint {a : Int} {iv : Interval} : ∀ {e : Int} {L : List Period}, Tiles a iv e L →
    ∀ d : Int, ∀ p ∈ L, ∀ q ∈ L, p.start ≤ d → d ≤ p.stop → q.start ≤ d → d ≤ q.stop → p = q
  | _, [], _, _, p, hp, _, _ => by simp at hp
  | e, r :: rest, h, d, p, hp, q, hq => by
    intro p1 p2 q1 q2
    unfold Tiles at h
    obtain ⟨h1, h2, h3, h4, h5⟩ := h
    rcases List.mem_cons.mp hp with rfl | hpm <;> rcases List.mem_cons.mp hq with rfl | hqm
    · rfl
    · have := (Tiles.mem_bounds h5 q hqm); omega
    · have := (Tiles.mem_bounds h5 p hpm); omega
    · exact Tiles.disjoint h5 d p hpm q hqm p1 p2 q1 q2

/-- consecutive: in the oldest-first order every period starts the day after its predecessor ends -/
def Consecutive : List Period → Prop
  | [] => True
  | [_] => True
  | p :: q :: rest => p.stop + 1 = q.start ∧ Consecutive (q :: rest)

/-- newest-first version -/
def ConsecutiveRev : List Period → Prop
  | [] => True
  | [_] => True
  | p :: q :: rest => q.stop + 1 = p.start ∧ ConsecutiveRev (q :: rest)

theorem Tiles.consecutiveRev {a : Int} {iv : Interval} : ∀ {e : Int} {L : List Period}, Tiles a iv e L →
    ConsecutiveRev L
  | _, [], _ => trivial
  | _, [_], _ => trivial
  | e, p :: q :: rest, h => by
    unfold Tiles at h
    obtain ⟨_, _, _, _, h5⟩ := h
    have h5' := h5
    unfold Tiles at h5
    obtain ⟨g1, _⟩ := h5
    exact ⟨by omega, Tiles.consecutiveRev h5'⟩

theorem consecutive_append_single : ∀ (L : List Period) (p q : Period), Consecutive (L ++ [q]) → q.stop + 1 = p.start →
    Consecutive (L ++ [q] ++ [p])
  | [], p, q, _, h => ⟨h, trivial⟩
  | [x], p, q, hc, h => by
    simp only [List.cons_append, List.nil_append, Consecutive] at hc ⊢
    exact ⟨hc.1, h, trivial⟩
  | x :: y :: rest, p, q, hc, h => by
    simp only [List.cons_append, Consecutive] at hc ⊢
    refine ⟨hc.1, ?_⟩
    have := consecutive_append_single (y :: rest) p q (by simpa using hc.2) h
    simpa using this

theorem consecutive_reverse : ∀ (L : List Period), ConsecutiveRev L → Consecutive L.reverse
  | [], _ => trivial
  | [_], _ => trivial
  | p :: q :: rest, h => by
    obtain ⟨h1, h2⟩ := h
    have ih := consecutive_reverse (q :: rest) h2
    simp only [List.reverse_cons] at ih ⊢
    exact consecutive_append_single _ p q ih h1

/-- the oldest period of a non-empty tiling starts at the window start -/
theorem Tiles.getLast_start {a : Int} {iv : Interval} : ∀ {e : Int} {L : List Period}, Tiles a iv e L →
    ∀ p, L.getLast? = some p → p.start = a
  | _, [], _, p, hp => by simp at hp
  | e, [q], h, p, hp => by
    unfold Tiles at h
    obtain ⟨_, _, h3, _, h5⟩ := h
    unfold Tiles at h5
    simp at hp; subst hp; omega
  | e, q :: r :: rest, h, p, hp => by
    unfold Tiles at h
    obtain ⟨_, _, _, _, h5⟩ := h
    have : (q :: r :: rest).getLast? = (r :: rest).getLast? := by simp [List.getLast?_cons_cons]
    rw [this] at hp
    exact Tiles.getLast_start h5 p hp

theorem Tiles.head_stop {a : Int} {iv : Interval} {e : Int} {L : List Period} (h : Tiles a iv e L)
    (p : Period) (hp : L.head? = some p) : p.stop = e := by
  cases L with
  | nil => simp at hp
  | cons q rest =>
    simp at hp; subst hp
    unfold Tiles at h; exact h.1

end Knut
