package main

import (
	"fmt"
	"math/big"
	"strings"
	"time"
)

func init() { runners["C03"] = runC03 }

// parseTextReport reads a `knut balance --color=false` text table: column dates and, per account path
// (rebuilt from the indentation, two blanks per level) and commodity label, the row's values.
type reportRow struct {
	Path   string
	Comm   string
	Values []string
}

func parseTextReport(out string) (dates []string, rows []reportRow, hasComm bool) {
	var stack []string
	for _, l := range strings.Split(out, "\n") {
		if !strings.HasPrefix(l, "|") {
			continue
		}
		cells := strings.Split(strings.TrimSuffix(strings.TrimPrefix(l, "|"), "|"), "|")
		name := cells[0]
		trimmed := strings.TrimSpace(name)
		if trimmed == "Account" {
			rest := cells[1:]
			if len(rest) > 0 && strings.TrimSpace(rest[0]) == "Comm" {
				hasComm = true
				rest = rest[1:]
			}
			for _, d := range rest {
				dates = append(dates, strings.TrimSpace(d))
			}
			continue
		}
		vals := cells[1:]
		comm := ""
		if hasComm && len(vals) > 0 {
			comm = strings.TrimSpace(vals[0])
			vals = vals[1:]
		}
		if trimmed != "" {
			if strings.HasPrefix(trimmed, "Total (") || trimmed == "Delta" {
				stack = []string{trimmed}
			} else {
				depth := (len(name) - len(strings.TrimLeft(name, " ")) - 1) / 2
				if depth < 0 {
					depth = 0
				}
				if depth > len(stack) {
					depth = len(stack)
				}
				stack = append(stack[:depth:depth], trimmed)
			}
		} else if len(stack) == 0 {
			continue
		}
		row := reportRow{Path: strings.Join(stack, ":"), Comm: comm}
		empty := true
		for _, v := range vals {
			v = strings.ReplaceAll(strings.TrimSpace(v), ",", "")
			row.Values = append(row.Values, v)
			if v != "" {
				empty = false
			}
		}
		if trimmed == "" && empty {
			continue
		}
		rows = append(rows, row)
	}
	return
}

func ratOf(s string) (*big.Rat, bool) {
	if s == "" {
		return new(big.Rat), true
	}
	return new(big.Rat).SetString(s)
}

func runC03(c *Ctx) {
	n := c.N(1200, 40000)
	dir := c.WorkDir
	_ = dir
	cases := genBalCasesWith(c, "valued", n, func(r *RNG) JGenOpts {
		return JGenOpts{MaxAccounts: r.Range(2, 6), MaxDays: r.Range(2, 9), BaseDay: 737000 + r.Intn(1500), SpanDays: Pick(r, []int{5, 40, 100, 400}),
			Prices: true, Valuation: Pick(r, []string{"CHF", "USD"}), ManyDecimals: r.Chance(1, 3), DropPrices: r.Chance(1, 8), ChainPrices: r.Chance(1, 3), DupPrices: true}
	}, func(r *RNG, j *Journal, val string) BalFlags {
		f := GenBalFlags(r, j, val, BalGenOpts{Valued: true, NoFilters: true})
		f.Map, f.Remap, f.Show, f.Diff, f.CSV, f.Thousands = nil, nil, nil, false, false, false
		f.Digits = 10
		f.Val = val
		return f
	})
	bt := c.NewBatch()
	defer bt.Flush()
	eps := big.NewRat(1, 100000000)
	for _, bc := range cases {
		bc := bc
		c.Evals++
		impl := bc.implOutcome()
		in := bc.Input()
		for _, t := range bc.Tags {
			c.Tag(t)
		}
		c.Class("c03/" + strings.Fields(impl)[0] + "/" + flagClass(bc.F) + "/n" + bucket(len(bc.J.Dirs)))
		if bc.Idx < 2 {
			c.Sample(map[string]any{"args": strings.Join(bc.F.Args(), " "), "journal": bc.Text, "stdout": bc.Stdout})
		}
		bt.Add(func(model string) {
			if model == "unsupported" {
				return
			}
			if !c.Compare("valued", bc.Idx, "balance", in, impl, modelOutcomeCanon(model)) {
				f := &c.Findings[len(c.Findings)-1]
				if strings.HasPrefix(model, "ok ") {
					f.Model = clip(UnHex(strings.TrimPrefix(model, "ok ")))
				}
				f.Impl = clip(bc.Stdout + "\n" + bc.Stderr)
			}
		}, "balance", bc.F.Wire(today()), bc.J.Wire())
		if bc.Code != 0 {
			c.Tag("rejected")
			continue
		}
		// ---- monitor: shown value of every A/L account row vs exact mark-to-market
		dates, rows, _ := parseTextReport(bc.Stdout)
		if len(dates) == 0 {
			continue
		}
		var ds []string
		for _, d := range dates {
			t, err := time.Parse("2006-01-02", d)
			if err != nil {
				ds = nil
				break
			}
			ds = append(ds, itoa(dayNum(t)))
		}
		if ds == nil {
			continue
		}
		jmin := 1 << 30
		for _, d := range bc.J.Dirs {
			if d.Kind == 't' && d.Date < jmin {
				jmin = d.Date
			}
		}
		start := jmin
		if bc.F.From > start {
			start = bc.F.From
		}
		if bc.F.To != 0 && start > bc.F.To {
			c.Tag("inverted-window")
			continue // empty window: the report shows nothing, the property makes no claim
		}
		shown := map[string][]string{}
		for _, r := range rows {
			if strings.HasPrefix(r.Path, "Assets") || strings.HasPrefix(r.Path, "Liabilities") {
				shown[r.Path] = r.Values
			}
		}
		bt.Add(func(ans string) {
			if ans == "bad-op" || ans == "" {
				return
			}
			for _, item := range strings.Fields(ans) {
				parts := strings.Split(item, "|")
				acc := parts[0]
				vals, has := shown[acc]
				for k, cell := range parts[1:] {
					f := strings.Split(cell, ":")
					if len(f) != 4 {
						continue
					}
					if f[1] == "none" {
						// a needed price is missing at this date although the command printed a report
						q := "0"
						if has && k < len(vals) {
							q = vals[k]
						}
						c.Monitor("valued", bc.Idx, "missing_price_is_error", in, false, fmt.Sprintf("account %s column %s: no price exists but the report shows %q", acc, dates[k], q))
						continue
					}
					mtmD, _ := ratOf(f[1])
					mtmF := new(big.Rat)
					if f[2] != "none" {
						mtmF, _ = ratOf(f[2])
					}
					var steps int64
					fmt.Sscan(f[3], &steps)
					bound := new(big.Rat).Mul(eps, big.NewRat(steps+1, 1))
					sv := ""
					if has && k < len(vals) {
						sv = vals[k]
					}
					s, ok := ratOf(sv)
					if !ok {
						c.Monitor("valued", bc.Idx, "cell_is_number", in, false, "cell "+sv)
						continue
					}
					windowed := new(big.Rat).Sub(mtmD, mtmF)
					diffW := new(big.Rat).Abs(new(big.Rat).Sub(s, windowed))
					diffL := new(big.Rat).Abs(new(big.Rat).Sub(s, mtmD))
					detail := fmt.Sprintf("account %s column %s: shown %s, mark-to-market %s, before window %s, steps %d", acc, dates[k], s.FloatString(10), mtmD.FloatString(10), mtmF.FloatString(10), steps)
					switch {
					case diffL.Cmp(bound) <= 0:
						c.Monitored++
						c.Tag("mtm-literal-ok")
					case diffW.Cmp(bound) <= 0 && mtmF.Sign() != 0:
						c.MonitorKnown("valued", bc.Idx, "shown_equals_mark_to_market", in, detail, "window-start-after-position")
					default:
						c.Monitor("valued", bc.Idx, "shown_equals_mark_to_market", in, false, detail)
					}
				}
			}
		}, "c03mtm", bc.F.Val, bc.J.Wire(), itoa(start-1), strings.Join(ds, ","))
	}
}
