import Knut.GoSem.Strings
/-!
# `strings.HasPrefix` and the regular expressions of the translated code

Used by the translation of `lib/journal/beancount` (`harness/trans_units_beancount.go`).

* `strings.HasPrefix(s, prefix)` compares bytes; for valid UTF-8 texts (what a `String` is) a byte prefix that is itself valid
  UTF-8 is a prefix of the code points.
* A regular expression has a meaning here only if its PATTERN TEXT is listed in `trRegexpPrelude` of the translator; the package
  variable that holds the compiled expression must never be assigned.  `[^a-zA-Z]` matches exactly one code point that is not an
  ASCII letter (a negated class also matches `\n`; it never matches the empty string), so
  `ReplaceAllString(src, repl)` with a replacement without `$` replaces every such code point by `repl`.

Each definition is compared with real Go by the stream `gosembean` of C11 (`harness/gosem_bean.go`, `Driver/GoSemBean.lean`).
-/
namespace Knut.GoSem

namespace Strings
/-- `strings.HasPrefix(s, prefix)` -/
def HasPrefix (s pre : String) : Bool := pre.toList.isPrefixOf s.toList
end Strings

namespace Regexp
/-- the class `[a-zA-Z]` -/
def isAsciiLetter (c : Char) : Bool := ('a' ≤ c && c ≤ 'z') || ('A' ≤ c && c ≤ 'Z')

/-- `regexp.MustCompile("[^a-zA-Z]").ReplaceAllString(src, repl)` for a replacement without `$` -/
def replaceAllNonLetter (src repl : String) : String :=
  String.join (src.toList.map (fun c => if isAsciiLetter c then String.singleton c else repl))
end Regexp

end Knut.GoSem
