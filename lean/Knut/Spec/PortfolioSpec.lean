import Knut.Model.Weights
/-!
# Specification side of C20: what the weights report and the returns must satisfy (exact arithmetic)

* `wsum adds π D`   – the weight of tree node `π` on date `D`: the sum of the adds at or below it;
* `ownSum adds π D` – the weight added at `π` itself (only when a mapping collapses a commodity onto a group node);
* `shareOf v1 c`    – the share of commodity `c` in the total of the per-commodity values `v1`.
-/
namespace Knut.PortfolioSpec
open Knut Knut.Performance Knut.Weights

def wsum (adds : List Add) (π : List String) (D : Int) : Rat :=
  (((below adds π).filter (fun a => a.date = D)).map (·.weight)).sum

def ownSum (adds : List Add) (π : List String) (D : Int) : Rat :=
  ((adds.filter (fun a => a.path = π && a.date = D)).map (·.weight)).sum

/-- value of `c` over the total value -/
def shareOf (v1 : AMap Commodity Rat) (c : Commodity) : Rat := v1.get c 0 / sumVals v1

end Knut.PortfolioSpec
