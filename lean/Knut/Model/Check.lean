import Knut.Model.Journal
/-!
# Model of `lib/journal/check` (the checker processor, default options)
-/
namespace Knut

abbrev Position := Account × Commodity

structure CheckState where
  accounts : List Account := []          -- set of open accounts
  quantities : AMap Position Rat := []   -- only asset/liability positions are recorded
  deriving Repr

inductive CheckErrKind | alreadyOpen | notOpen | failedAssertion | nonzeroPosition
  deriving DecidableEq, Repr

/-- `check.Error`: the offending directive and the kind of message -/
structure CheckErr where
  directive : Directive
  kind : CheckErrKind
  deriving DecidableEq, Repr

namespace Check

def openAcc (st : CheckState) (o : Open) : Except CheckErr CheckState :=
  if st.accounts.contains o.account then .error ⟨.opening o, .alreadyOpen⟩
  else .ok { st with accounts := o.account :: st.accounts }

def posting (st : CheckState) (t : Transaction) (p : Posting) : Except CheckErr CheckState :=
  if !st.accounts.contains p.account then .error ⟨.tx t, .notOpen⟩
  else if p.account.isAL then
    let k : Position := (p.account, p.commodity)
    .ok { st with quantities := st.quantities.set k (st.quantities.get k 0 + p.quantity) }
  else .ok st

/-- `Checker.balance` (with NoCheck = false), after the repair that reads the map with its zero default -/
def balance (st : CheckState) (a : Assertion) (b : Balance) : Except CheckErr CheckState :=
  if !st.accounts.contains b.account then .error ⟨.assertion a, .notOpen⟩
  else if st.quantities.get (b.account, b.commodity) 0 ≠ b.quantity then .error ⟨.assertion a, .failedAssertion⟩
  else .ok st

def close (st : CheckState) (c : Close) : Except CheckErr CheckState :=
  if st.quantities.any (fun e => e.1.1 = c.account && e.2 ≠ 0) then .error ⟨.closing c, .nonzeroPosition⟩
  else
    let qs := st.quantities.filter (fun e => e.1.1 ≠ c.account)
    if !st.accounts.contains c.account then .error ⟨.closing c, .notOpen⟩
    else .ok { accounts := st.accounts.filter (· ≠ c.account), quantities := qs }

/-- `Processor.Process` for the checker: opens, postings, balances, closes -/
def day (st : CheckState) (d : Day) : Except CheckErr CheckState := do
  let st ← d.openings.foldlM openAcc st
  let st ← d.transactions.foldlM (fun st t => t.postings.foldlM (fun st p => posting st t p) st) st
  let st ← d.assertions.foldlM (fun st a => a.balances.foldlM (fun st b => balance st a b) st) st
  d.closings.foldlM close st

def run (days : List Day) : Except CheckErr CheckState := days.foldlM day {}

end Check
end Knut
