import Knut.Proofs.Builder
import Knut.Proofs.Balance
/-!
# C05 — Directive order and file layout do not matter

The loader delivers the directives of all files as one list in an order that depends on the include tree
and on goroutine scheduling; `Builder.ofList` groups them by day.  Proved here for every pair of
directive lists that are permutations of each other (`ds.Perm ds'`):

* `C05_same_dates` – the built journals have the same days in the same (chronological) order;
* `C05_same_day_content` – and every day holds, per kind (prices, opens, transactions, assertions,
  closes), a permutation of the same directives; within a kind the input order is kept (`ofList_spec`),
  which is exactly the freedom the property grants to `print`;
* `C05_cells_perm` – every cell of a balance report (`BalanceReport.cellAt`, and hence totals and Delta) is
  invariant under permutation of the report inserts, so the order in which postings reach the report
  cannot change a number;
* `C05_journal_period_perm` – the journal period (min transaction date, max transaction/price date) that
  clips the report window is the same.

`Properties/C05Verdict.lean` proves that the checker's accept/reject verdict is invariant
(`C05_verdict_perm`).  `Properties/C05Inserts.lean` proves the same for the unvalued balance report down to the output bytes
(`C05_balance_output_perm`).  Not mechanised (PARTIAL): the valued report (prices under the exclusion of same-day clashes).
That is decided on every run by the metamorphic check: each
generated journal is rendered in several directive orders and include-tree layouts, loaded by the REAL
concurrent loader under several schedule seeds, and `check` verdict, `balance` output (byte for byte) and
`print` output (as a multiset of directives, with identical transaction order) are compared across all
variants and with the model.
-/
namespace Knut.C05
open Knut

theorem sorted_dates (days : List Day) (h : Sorted days) : List.Pairwise (· < ·) (days.map (·.date)) := by
  unfold Sorted at h
  rw [List.pairwise_map]; exact h

/-- **same days, same order** -/
theorem C05_same_dates (ds ds' : List Directive) (hp : ds.Perm ds') :
    (Builder.ofList ds).days.map (·.date) = (Builder.ofList ds').days.map (·.date) := by
  apply sorted_dates_unique
  · exact sorted_dates _ (ofList_spec txKind ds).1
  · exact sorted_dates _ (ofList_spec txKind ds').1
  · intro y
    rw [ofList_dates, ofList_dates]
    exact (hp.map _).mem_iff

/-- **same content per day and kind, up to order** -/
theorem C05_same_day_content {α : Type} (k : Kind α) (ds ds' : List Directive) (hp : ds.Perm ds') (y : Int) :
    (contentOn k (Builder.ofList ds).days y).Perm (contentOn k (Builder.ofList ds').days y) := by
  rw [(ofList_spec k ds).2 y, (ofList_spec k ds').2 y]
  exact hp.filterMap _

theorem sum_perm : ∀ {l l' : List Rat}, l.Perm l' → l.sum = l'.sum := by
  intro l l' h
  induction h with
  | nil => rfl
  | cons x _ ih => simp only [List.sum_cons, ih]
  | swap x y l => simp only [List.sum_cons, ← Rat.add_assoc, Rat.add_comm x y]
  | trans _ _ ih1 ih2 => exact ih1.trans ih2

/-- **report cells do not depend on the order of the inserts** -/
theorem C05_cells_perm (es es' : List Entry) (hp : es.Perm es') (byCom : Bool) (c : Option Commodity) (d : Int) :
    BalanceReport.cellAt es byCom c d = BalanceReport.cellAt es' byCom c d := by
  unfold BalanceReport.cellAt BalanceReport.sumAmounts
  exact sum_perm ((hp.filter _).map _)

/-- min/max fold of `Builder.add` -/
def minTx (ds : List Directive) : Int := ds.foldl (fun m x => match x with | .tx t => if t.date < m then t.date else m | _ => m) maxDate
def maxTxPrice (ds : List Directive) : Int :=
  ds.foldl (fun m x => match x with | .tx t => if m < t.date then t.date else m | .price p => if m < p.date then p.date else m | _ => m) 0

theorem foldl_min_comm (f : Int → Directive → Int)
    (hcomm : ∀ m x y, f (f m x) y = f (f m y) x) : ∀ {l l' : List Directive}, l.Perm l' → ∀ m, l.foldl f m = l'.foldl f m := by
  intro l l' h
  induction h with
  | nil => intro m; rfl
  | cons x _ ih => intro m; simp only [List.foldl_cons]; exact ih _
  | swap x y l => intro m; simp only [List.foldl_cons, hcomm]
  | trans _ _ ih1 ih2 => intro m; rw [ih1, ih2]

/-- **the journal period is order-independent** -/
theorem C05_journal_period_perm (ds ds' : List Directive) (hp : ds.Perm ds') :
    minTx ds = minTx ds' ∧ maxTxPrice ds = maxTxPrice ds' := by
  constructor
  · unfold minTx
    apply foldl_min_comm _ _ hp
    intro m x y
    cases x <;> cases y <;> simp only <;> (repeat' split) <;> omega
  · unfold maxTxPrice
    apply foldl_min_comm _ _ hp
    intro m x y
    cases x <;> cases y <;> simp only <;> (repeat' split) <;> omega

/-- the builder's min/max are these folds -/
theorem builder_period (ds : List Directive) :
    (Builder.ofList ds).min = minTx ds ∧ (Builder.ofList ds).max = maxTxPrice ds := by
  unfold Builder.ofList minTx maxTxPrice
  suffices h : ∀ (ds : List Directive) (b : Builder),
      (ds.foldl Builder.add b).min = ds.foldl (fun m x => match x with | .tx t => if t.date < m then t.date else m | _ => m) b.min ∧
      (ds.foldl Builder.add b).max = ds.foldl (fun m x => match x with | .tx t => if m < t.date then t.date else m | .price p => if m < p.date then p.date else m | _ => m) b.max from
    h ds {}
  intro ds
  induction ds with
  | nil => intro b; exact ⟨rfl, rfl⟩
  | cons x rest ih =>
    intro b
    simp only [List.foldl_cons]
    have := ih (b.add x)
    rw [this.1, this.2]
    cases x <;> exact ⟨rfl, rfl⟩

/-! Non-vacuity -/
example : [Directive.opening ⟨1, ⟨["Assets", "A"]⟩⟩, .closing ⟨2, ⟨["Assets", "A"]⟩⟩].Perm
    [Directive.closing ⟨2, ⟨["Assets", "A"]⟩⟩, .opening ⟨1, ⟨["Assets", "A"]⟩⟩] := List.Perm.swap _ _ _

end Knut.C05
