import Knut.Proofs.MTMWindow
import Knut.Properties.C03Bridge
/-!
# C03 — the mark-to-market bound for every window (`--from` / `--to`)

`C03_run_mtm_bound` (Properties/C03Bridge.lean) needs all days inside the window.  Here the window is arbitrary.  The
pipeline runs ComputePrices and Valuate on EVERY day of the journal, Filter then drops the transactions of the days
outside the window.  For a date-sorted day list (what the journal builder produces: `LedgerCommand.daysOf_sorted`) the
days are `pre ++ mid ++ post` = before / inside / after the window (`MTM.sorted_window_split`), and

* `C03_run_window_split` – `Balance.run` on the whole list is the run on `pre`, continued on `mid`, continued on
  `post`; nothing of `pre` and `post` reaches the report on an asset/liability position;
* **`C03_run_window`** – the report inserts on an asset/liability position `(a, c)`, `c ≠ V`, total
  `Q_D·p_D − Q_F·p_F` up to one unit of the 8th decimal per truncation inside the window, where `Q_F`, `p_F` are quantity
  and price after the last day BEFORE the window (state of the run on `pre`) and `Q_D`, `p_D` those after the last day
  inside it.  This is the formula of the known finding `window-start-after-position` (the report shows the value change
  inside the window), now a theorem; with nothing before the window (`pre = []`) it is the absolute statement
  (`C03_run_window_abs`).
-/
namespace Knut.C03
open Knut Knut.Dec Knut.MTM

theorem C03_days_split (cfg : BalCfg) (days : List Day) (hs : Sorted days) :
    days = preDays cfg days ++ midDays cfg days ++ postDays cfg days :=
  sorted_window_split cfg.span days hs

/-- **the run splits at the window borders**, and on an asset/liability position only the days inside the window
contribute report inserts -/
theorem C03_run_window_split (cfg : BalCfg) (v : Commodity) (a : Account) (c : Commodity)
    (days : List Day) (stF : BalState)
    (hv : cfg.valuation = some v) (hal : a.isAL = true) (hpl : Plain cfg) (hs : Sorted days)
    (h : Balance.run cfg days = .ok stF) :
    ∃ stP stM tP tM tPost,
      pipelineRun cfg {} (preDays cfg days) = .ok (stP, tP) ∧
      pipelineRun cfg stP (midDays cfg days) = .ok (stM, tM) ∧
      pipelineRun cfg stM (postDays cfg days) = .ok (stF, tPost) ∧
      Balance.run cfg (preDays cfg days) = .ok stP ∧
      Balance.run cfg (preDays cfg days ++ midDays cfg days) = .ok stM ∧
      AMap.NodupKeys stP.vQty ∧ CloseInv stP ∧
      entryVal a c stF.entries = valOn a c tM := by
  obtain ⟨txs, hp, he⟩ := run_pipelineRun cfg days stF h
  rw [C03_days_split cfg days hs] at hp
  obtain ⟨stM, tPM, tPost, h1, h3, e1⟩ := pipelineRun_append cfg _ _ _ _ _ hp
  obtain ⟨stP, tP, tM, h1a, h2, e2⟩ := pipelineRun_append cfg _ _ _ _ _ h1
  have hinv0 : CloseInv {} := by intro k hk; cases hk
  have hn0 : AMap.NodupKeys ({} : BalState).vQty := by unfold AMap.NodupKeys; exact List.nodup_nil
  obtain ⟨_, p2, p3, p4⟩ := pipelineRun_any cfg v a c hv hal _ _ _ _ hinv0 h1a
  obtain ⟨_, m2, m3, _⟩ := pipelineRun_any cfg v a c hv hal _ _ _ _ p3 h2
  obtain ⟨_, _, _, q4⟩ := pipelineRun_any cfg v a c hv hal _ _ _ _ m3 h3
  refine ⟨stP, stM, tP, tM, tPost, h1a, h2, h3, run_of_pipelineRun cfg _ _ _ h1a,
    run_of_pipelineRun cfg _ _ _ (pipelineRun_append_ok cfg _ _ _ _ _ _ _ h1a h2), p2 hn0, p3, ?_⟩
  have hvs : cfg.valuation.isSome = true := by rw [hv]; rfl
  rw [he, entryVal_flatMap cfg hpl hvs, e1, e2]
  unfold valOn
  rw [posOn_append, posOn_append, p4 (window_pre_out cfg.span days), q4 (window_post_out cfg.span days)]
  simp

/-- **windowed mark-to-market bound for `Balance.run`, every window**: in a plain valued report over a date-sorted day
list, the report inserts on an asset/liability position `(a, c)`, `c ≠ V`, total the CHANGE of `quantity × price`
between the last day before the window and the last day inside it, up to one unit of the 8th decimal per truncation
(value adjustment or non-zero booking) inside the window. -/
theorem C03_run_window (cfg : BalCfg) (v : Commodity) (a : Account) (c : Commodity)
    (days : List Day) (stF : BalState)
    (hv : cfg.valuation = some v) (hc : c ≠ v) (hal : a.isAL = true) (hpl : Plain cfg) (hs : Sorted days)
    (hu : ∀ d ∈ days, Unvalued a c d.transactions)
    (h : Balance.run cfg days = .ok stF) :
    ∃ stP stM, Balance.run cfg (preDays cfg days) = .ok stP ∧
      Balance.run cfg (preDays cfg days ++ midDays cfg days) = .ok stM ∧
      (entryVal a c stF.entries - (stM.vQty.get (a, c) 0 * lastPrice (startPrice stP c) (windowTrace cfg a c stP days)
          - stP.vQty.get (a, c) 0 * startPrice stP c)).abs
          ≤ ((run ⟨0, stP.vQty.get (a, c) 0, 0⟩ (windowTrace cfg a c stP days)).steps : Rat) / (10 : Rat) ^ 8 ∧
      PriceIs stP.vPrev c (startPrice stP c) ∧
      PriceIs stM.vPrev c (lastPrice (startPrice stP c) (windowTrace cfg a c stP days)) := by
  obtain ⟨stP, stM, tP, tM, tPost, h1, h2, _, r1, r2, hn, hinv, he⟩ :=
    C03_run_window_split cfg v a c days stF hv hal hpl hs h
  refine ⟨stP, stM, r1, r2, ?_⟩
  unfold windowTrace startPrice
  generalize hQF : stP.vQty.get (a, c) 0 = QF
  generalize hpF : priceOr stP.vPrev c 0 = pF
  generalize htr : traceOfRun cfg a c pF stP (midDays cfg days) = tr
  have hu' : ∀ d ∈ midDays cfg days, Unvalued a c d.transactions := fun d hd => hu d (List.mem_filter.mp hd).1
  obtain ⟨w1, w2, w3, _, _⟩ := pipelineRun_trace cfg v a c hv hc hal (midDays cfg days) stP stM tM pF ⟨0, QF, 0⟩
    hn hinv (window_mid_in cfg.span days) hu' (by rw [← hpF]; exact priceIs_priceOr _ _ _) hQF.symm h2
  rw [htr] at w1 w2 w3
  have hb := C03_mtm_bound_window pF tr ⟨0, QF, 0⟩ (by rw [← htr]; exact consistent_traceOfRun cfg a c _ pF stP)
  rw [w1, w2] at hb
  simp only [Rat.zero_add, Nat.sub_zero] at hb
  have e : valOn a c tM - 0 = valOn a c tM := by grind
  rw [e, ← he] at hb
  exact ⟨hb, by rw [← hpF]; exact priceIs_priceOr _ _ _, w3⟩

/-- nothing before the window: the absolute statement -/
theorem C03_run_window_abs (cfg : BalCfg) (v : Commodity) (a : Account) (c : Commodity)
    (days : List Day) (stF : BalState)
    (hv : cfg.valuation = some v) (hc : c ≠ v) (hal : a.isAL = true) (hpl : Plain cfg) (hs : Sorted days)
    (hu : ∀ d ∈ days, Unvalued a c d.transactions)
    (hpre : preDays cfg days = [])
    (h : Balance.run cfg days = .ok stF) :
    ∃ stM, Balance.run cfg (midDays cfg days) = .ok stM ∧
      (entryVal a c stF.entries - stM.vQty.get (a, c) 0 * lastPrice 0 (windowTrace cfg a c {} days)).abs
          ≤ ((run {} (windowTrace cfg a c {} days)).steps : Rat) / (10 : Rat) ^ 8 ∧
      PriceIs stM.vPrev c (lastPrice 0 (windowTrace cfg a c {} days)) := by
  obtain ⟨stP, stM, r1, r2, h1, _, h3⟩ := C03_run_window cfg v a c days stF hv hc hal hpl hs hu h
  rw [hpre] at r1 r2
  have e0 : stP = {} := by
    have : Balance.run cfg [] = .ok ({} : BalState) := rfl
    rw [this] at r1; injection r1 with r1; exact r1.symm
  subst e0
  rw [List.nil_append] at r2
  refine ⟨stM, r2, ?_⟩
  have e1 : startPrice ({} : BalState) c = 0 := rfl
  have e2 : ({} : BalState).vQty.get (a, c) 0 = 0 := rfl
  rw [e1, e2] at h1
  rw [e1] at h3
  refine ⟨?_, h3⟩
  have e3 : (0 : Rat) * 0 = 0 := by grind
  have e4 : ∀ x : Rat, x - 0 = x := by intro x; grind
  rw [e3, e4] at h1
  exact h1

/-! ### Non-vacuity

The journal `exDays` of `Properties/C03Bridge.lean` (cash on day 1; 3.5 USD bought at 0.5 on day 2; USD repriced to
1.33333333 on day 3; 1 USD sold on day 4) reported with the window `[3, 4]`: the position exists before the window. -/

def exCfgW : BalCfg := { valuation := some "CHF", span := ⟨3, 4⟩, periods := [⟨3, 4⟩] }

example : preDays exCfgW exDays = exDays.take 2 ∧ midDays exCfgW exDays = exDays.drop 2 ∧ postDays exCfgW exDays = [] := by
  decide +kernel

example : Sorted exDays := by unfold Sorted; decide +kernel

/-- before the window: 3.5 USD at 0.5; the trace inside the window has two truncations (the adjustment of day 3, the
sale of day 4) -/
example : (match Balance.run exCfgW (preDays exCfgW exDays) with
    | .ok stP => decide (stP.vQty.get (exA, "USD") 0 = 7/2 ∧ startPrice stP "USD" = 1/2 ∧
        (windowTrace exCfgW exA "USD" stP exDays).map (fun d => (d.pPrev, d.pCur, d.qs)) =
          [(1/2, 133333333/100000000, []), (133333333/100000000, 133333333/100000000, [-1])] ∧
        run ⟨0, 7/2, 0⟩ (windowTrace exCfgW exA "USD" stP exDays) = { W := 158333332/100000000, Q := 5/2, steps := 2 })
    | .error _ => false) = true := by decide +kernel

/-- the report shows 1.58333332 on the position: not the absolute value 2.5 × 1.33333333 = 3.333333325 but the change
3.333333325 − 3.5 × 0.5 = 1.583333325 inside the window, up to 5·10⁻⁹ -/
example : (match Balance.run exCfgW exDays with
    | .ok st => decide (entryVal exA "USD" st.entries = 158333332/100000000 ∧ st.vQty.get (exA, "USD") 0 = 5/2)
    | .error _ => false) = true := by decide +kernel

example : Plain exCfgW := ⟨rfl, fun _ => rfl, fun _ => rfl, fun _ => rfl⟩

end Knut.C03
