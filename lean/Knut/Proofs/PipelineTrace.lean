import Knut.Proofs.Pipeline
/-!
# The relaxed trace acceptor: what acceptance of a logged trace implies
-/
namespace Knut.Pipeline

structure AccInv (n m : Nat) (a : Acc) : Prop where
  one : ∀ k, a.ended k ≤ a.begun k ∧ a.begun k ≤ a.ended k + 1
  dead : ∀ k, a.dead k = true → a.begun k = a.ended k + 1
  dep : ∀ k, 2 ≤ k → k ≤ n → a.begun k ≤ a.ended (k - 1)
  src : a.begun 1 ≤ m
  sink0 : n = 0 → a.sunk ≤ m
  sinkn : 0 < n → a.sunk ≤ a.ended n
  outside : ∀ k, (k = 0 ∨ n < k) → a.begun k = 0 ∧ a.ended k = 0 ∧ a.dead k = false

theorem accInv_initial (n m : Nat) : AccInv n m Acc.initial := by
  constructor <;> simp [Acc.initial]

theorem accStep_begin {n m : Nat} {a a' : Acc} {k : Nat} (h : accStep n m a (.begin k) = some a') :
    1 ≤ k ∧ k ≤ n ∧ a.dead k = false ∧ a.begun k = a.ended k ∧ (k = 1 → a.begun 1 < m) ∧ (k ≠ 1 → a.begun k < a.ended (k - 1)) ∧
    a' = { a with begun := upd a.begun k (a.begun k + 1) } := by
  simp only [accStep] at h
  split at h
  · rename_i hc
    injection h with h
    refine ⟨hc.1, hc.2.1, hc.2.2.1, hc.2.2.2.1, ?_, ?_, h.symm⟩
    · intro h1; have := hc.2.2.2.2; subst h1; simpa [upstream] using this
    · intro h1; have := hc.2.2.2.2; simpa [upstream, h1] using this
  · cases h

theorem accStep_done {n m : Nat} {a a' : Acc} {k : Nat} (h : accStep n m a (.done k) = some a') :
    1 ≤ k ∧ k ≤ n ∧ a.dead k = false ∧ a.begun k = a.ended k + 1 ∧ a' = { a with ended := upd a.ended k (a.ended k + 1) } := by
  simp only [accStep] at h
  split at h
  · rename_i hc
    injection h with h
    exact ⟨hc.1, hc.2.1, hc.2.2.1, hc.2.2.2, h.symm⟩
  · cases h

theorem accStep_fail {n m : Nat} {a a' : Acc} {k : Nat} (h : accStep n m a (.fail k) = some a') :
    1 ≤ k ∧ k ≤ n ∧ a.dead k = false ∧ a.begun k = a.ended k + 1 ∧ a' = { a with dead := upd a.dead k true } := by
  simp only [accStep] at h
  split at h
  · rename_i hc
    injection h with h
    exact ⟨hc.1, hc.2.1, hc.2.2.1, hc.2.2.2, h.symm⟩
  · cases h

theorem accStep_sink {n m : Nat} {a a' : Acc} (h : accStep n m a .sink = some a') :
    (n = 0 → a.sunk < m) ∧ (n ≠ 0 → a.sunk < a.ended n) ∧ a' = { a with sunk := a.sunk + 1 } := by
  simp only [accStep] at h
  split at h
  · rename_i hc
    injection h with h
    refine ⟨?_, ?_, h.symm⟩
    · intro h0; simpa [sinkLimit, h0] using hc
    · intro h0; simpa [sinkLimit, h0] using hc
  · cases h

theorem accInv_step {n m : Nat} {a a' : Acc} {e : Ev} (hi : AccInv n m a) (h : accStep n m a e = some a') : AccInv n m a' := by
  cases e with
  | begin k =>
    obtain ⟨h1, hn, hd, hbe, hs1, hsk, rfl⟩ := accStep_begin h
    constructor
    · intro j
      by_cases hjk : j = k
      · subst hjk; simp; omega
      · simpa [upd_other _ _ hjk] using hi.one j
    · intro j hj
      by_cases hjk : j = k
      · subst hjk; rw [hd] at hj; cases hj
      · simpa [upd_other _ _ hjk] using hi.dead j hj
    · intro j h2 hjn
      by_cases hjk : j = k
      · subst hjk; simp; exact hsk (by omega)
      · simpa [upd_other _ _ hjk] using hi.dep j h2 hjn
    · by_cases h1k : 1 = k
      · subst h1k; simp; exact hs1 rfl
      · simpa [upd_other _ _ h1k] using hi.src
    · exact hi.sink0
    · exact hi.sinkn
    · intro j hj
      have hjk : j ≠ k := by omega
      simpa [upd_other _ _ hjk] using hi.outside j hj
  | done k =>
    obtain ⟨h1, hn, hd, hbe, rfl⟩ := accStep_done h
    constructor
    · intro j
      by_cases hjk : j = k
      · subst hjk; simp; omega
      · simpa [upd_other _ _ hjk] using hi.one j
    · intro j hj
      by_cases hjk : j = k
      · subst hjk; rw [hd] at hj; cases hj
      · simpa [upd_other _ _ hjk] using hi.dead j hj
    · intro j h2 hjn
      have := hi.dep j h2 hjn
      by_cases hjk : j - 1 = k
      · subst hjk; simp; omega
      · simpa [upd_other _ _ hjk] using this
    · exact hi.src
    · exact hi.sink0
    · intro h0
      have := hi.sinkn h0
      by_cases hjk : n = k
      · subst hjk; simp; omega
      · simpa [upd_other _ _ hjk] using this
    · intro j hj
      have hjk : j ≠ k := by omega
      simpa [upd_other _ _ hjk] using hi.outside j hj
  | fail k =>
    obtain ⟨h1, hn, hd, hbe, rfl⟩ := accStep_fail h
    constructor
    · exact hi.one
    · intro j hj
      by_cases hjk : j = k
      · subst hjk; exact hbe
      · exact hi.dead j (by simpa [upd_other _ _ hjk] using hj)
    · exact hi.dep
    · exact hi.src
    · exact hi.sink0
    · exact hi.sinkn
    · intro j hj
      have hjk : j ≠ k := by omega
      simpa [upd_other _ _ hjk] using hi.outside j hj
  | sink =>
    obtain ⟨h0, hn, rfl⟩ := accStep_sink h
    constructor
    · exact hi.one
    · exact hi.dead
    · exact hi.dep
    · exact hi.src
    · intro hz; have := h0 hz; show a.sunk + 1 ≤ m; omega
    · intro hz; have := hn (by omega); show a.sunk + 1 ≤ a.ended n; omega
    · exact hi.outside

theorem accInv_run {n m : Nat} : ∀ {tr : List Ev} {a a' : Acc}, AccInv n m a → accRun n m a tr = some a' → AccInv n m a' := by
  intro tr
  induction tr with
  | nil => intro a a' hi h; simp [accRun] at h; subst h; exact hi
  | cons e es ih =>
    intro a a' hi h
    simp only [accRun] at h
    cases hs : accStep n m a e with
    | none => rw [hs] at h; cases h
    | some a1 => rw [hs] at h; exact ih (accInv_step hi hs) h

theorem accRun_append {n m : Nat} : ∀ {p q : List Ev} {a a' : Acc}, accRun n m a (p ++ q) = some a' →
    ∃ a1, accRun n m a p = some a1 ∧ accRun n m a1 q = some a' := by
  intro p
  induction p with
  | nil => intro q a a' h; exact ⟨a, rfl, h⟩
  | cons e es ih =>
    intro q a a' h
    simp only [List.cons_append, accRun] at h ⊢
    cases hs : accStep n m a e with
    | none => rw [hs] at h; cases h
    | some a1 => rw [hs] at h; simpa using ih h

/-- the acceptor's counters are the event counts -/
theorem accRun_counts {n m : Nat} : ∀ {tr : List Ev} {a a' : Acc}, accRun n m a tr = some a' →
    (∀ k, a'.begun k = a.begun k + tr.count (.begin k)) ∧ (∀ k, a'.ended k = a.ended k + tr.count (.done k)) ∧
    a'.sunk = a.sunk + tr.count .sink ∧ (∀ k, a'.dead k = (a.dead k || tr.contains (.fail k))) := by
  intro tr
  induction tr with
  | nil => intro a a' h; simp [accRun] at h; subst h; simp
  | cons e es ih =>
    intro a a' h
    simp only [accRun] at h
    cases hs : accStep n m a e with
    | none => rw [hs] at h; cases h
    | some a1 =>
      rw [hs] at h
      obtain ⟨hb, he, hk, hd⟩ := ih h
      cases e with
      | begin k =>
        obtain ⟨_, _, _, _, _, _, rfl⟩ := accStep_begin hs
        refine ⟨?_, ?_, ?_, ?_⟩
        · intro j
          rw [hb j, List.count_cons]
          by_cases hjk : j = k
          · subst hjk; simp; omega
          · have : ¬ (Ev.begin k = Ev.begin j) := by intro hx; injection hx with hx; exact hjk hx.symm
            simp [upd_other _ _ hjk, this]
        · intro j; rw [he j, List.count_cons]; simp
        · rw [hk, List.count_cons]; simp
        · intro j; rw [hd j]; simp
      | done k =>
        obtain ⟨_, _, _, _, rfl⟩ := accStep_done hs
        refine ⟨?_, ?_, ?_, ?_⟩
        · intro j; rw [hb j, List.count_cons]; simp
        · intro j
          rw [he j, List.count_cons]
          by_cases hjk : j = k
          · subst hjk; simp; omega
          · have : ¬ (Ev.done k = Ev.done j) := by intro hx; injection hx with hx; exact hjk hx.symm
            simp [upd_other _ _ hjk, this]
        · rw [hk, List.count_cons]; simp
        · intro j; rw [hd j]; simp
      | fail k =>
        obtain ⟨_, _, _, _, rfl⟩ := accStep_fail hs
        refine ⟨?_, ?_, ?_, ?_⟩
        · intro j; rw [hb j, List.count_cons]; simp
        · intro j; rw [he j, List.count_cons]; simp
        · rw [hk, List.count_cons]; simp
        · intro j
          rw [hd j]
          by_cases hjk : j = k
          · subst hjk; simp
          · have : ¬ (Ev.fail j = Ev.fail k) := by intro hx; injection hx with hx; exact hjk hx
            simp [upd_other _ _ hjk, this]
      | sink =>
        obtain ⟨_, _, rfl⟩ := accStep_sink hs
        refine ⟨?_, ?_, ?_, ?_⟩
        · intro j; rw [hb j, List.count_cons]; simp
        · intro j; rw [he j, List.count_cons]; simp
        · rw [hk, List.count_cons]; simp; omega
        · intro j; rw [hd j]; simp

/-- along the stages the counters can only fall: `sunk ≤ ended n ≤ begun n ≤ ended (n-1) ≤ … ≤ begun 1 ≤ m` -/
theorem acc_chain {n m : Nat} {a : Acc} (hi : AccInv n m a) : ∀ k, 1 ≤ k → k ≤ n → a.begun k ≤ m ∧ a.ended k ≤ m := by
  intro k
  induction k with
  | zero => intro h; omega
  | succ k ih =>
    intro _ hk
    have h1 := hi.one (k + 1)
    by_cases hk0 : k = 0
    · subst hk0
      have := hi.src
      simp at h1 ⊢; omega
    · have := ih (by omega) (by omega)
      have h2 := hi.dep (k + 1) (by omega) hk
      simp at h2
      omega

/-- if the sink got all `m` items, every stage began and ended all `m` items -/
theorem acc_sunk_all {n m : Nat} {a : Acc} (hi : AccInv n m a) (hs : a.sunk = m) (hn : 0 < n) :
    ∀ k, 1 ≤ k → k ≤ n → a.begun k = m ∧ a.ended k = m := by
  have hlast := hi.sinkn hn
  -- downward induction from n
  have key : ∀ d, d < n → m ≤ a.ended (n - d) := by
    intro d
    induction d with
    | zero => intro _; simp; omega
    | succ d ih =>
      intro hd
      have h1 := ih (by omega)
      have h2 := hi.dep (n - d) (by omega) (by omega)
      have h3 := hi.one (n - d)
      have h4 := acc_chain hi (n - d) (by omega) (by omega)
      have e : n - d - 1 = n - (d + 1) := by omega
      rw [e] at h2
      omega
  intro k h1 hk
  have h2 := key (n - k) (by omega)
  have e : n - (n - k) = k := by omega
  rw [e] at h2
  have h3 := acc_chain hi k h1 hk
  have h4 := hi.one k
  omega

/-! ### item-labelled traces -/

theorem laccRun_erase {n m : Nat} : ∀ {tr : List LEv} {a a' : Acc}, laccRun n m a tr = some a' →
    accRun n m a (tr.map LEv.erase) = some a' := by
  intro tr
  induction tr with
  | nil => intro a a' h; simpa [laccRun, accRun] using h
  | cons e es ih =>
    intro a a' h
    simp only [laccRun] at h
    split at h
    · simp only [List.map_cons, accRun]
      cases hs : accStep n m a e.erase with
      | none => rw [hs] at h; cases h
      | some a1 => rw [hs] at h; simpa using ih h
    · cases h

theorem laccRun_append {n m : Nat} : ∀ {p q : List LEv} {a a' : Acc}, laccRun n m a (p ++ q) = some a' →
    ∃ a1, laccRun n m a p = some a1 ∧ laccRun n m a1 q = some a' := by
  intro p
  induction p with
  | nil => intro q a a' h; exact ⟨a, rfl, h⟩
  | cons e es ih =>
    intro q a a' h
    simp only [List.cons_append, laccRun] at h ⊢
    split at h
    · rename_i hl
      simp only [hl, if_true]
      cases hs : accStep n m a e.erase with
      | none => rw [hs] at h; cases h
      | some a1 => rw [hs] at h; simpa using ih h
    · cases h

theorem laccRun_cons {n m : Nat} {e : LEv} {es : List LEv} {a a' : Acc} (h : laccRun n m a (e :: es) = some a') :
    labelsOK a e = true ∧ ∃ a1, accStep n m a e.erase = some a1 ∧ laccRun n m a1 es = some a' := by
  simp only [laccRun] at h
  split at h
  · rename_i hl
    refine ⟨hl, ?_⟩
    cases hs : accStep n m a e.erase with
    | none => rw [hs] at h; cases h
    | some a1 => rw [hs] at h; exact ⟨a1, rfl, by simpa using h⟩
  · cases h

/-- every `done k i` with `i` between the old and the new `ended k` occurs in the trace -/
theorem lacc_done_mem {n m : Nat} : ∀ {tr : List LEv} {a a' : Acc}, laccRun n m a tr = some a' →
    ∀ k i, a.ended k ≤ i → i < a'.ended k → LEv.done k i ∈ tr := by
  intro tr
  induction tr with
  | nil => intro a a' h k i h1 h2; simp [laccRun] at h; subst h; omega
  | cons e es ih =>
    intro a a' h k i h1 h2
    obtain ⟨hl, a1, hs, hr⟩ := laccRun_cons h
    cases e with
    | begin k' i' =>
      obtain ⟨_, _, _, _, _, _, rfl⟩ := accStep_begin (show accStep n m a (.begin k') = some a1 from hs)
      exact List.mem_cons_of_mem _ (ih hr k i h1 h2)
    | fail k' i' =>
      obtain ⟨_, _, _, _, rfl⟩ := accStep_fail (show accStep n m a (.fail k') = some a1 from hs)
      exact List.mem_cons_of_mem _ (ih hr k i h1 h2)
    | sink i' =>
      obtain ⟨_, _, rfl⟩ := accStep_sink (show accStep n m a .sink = some a1 from hs)
      exact List.mem_cons_of_mem _ (ih hr k i h1 h2)
    | done k' i' =>
      obtain ⟨_, _, _, _, rfl⟩ := accStep_done (show accStep n m a (.done k') = some a1 from hs)
      simp only [labelsOK, beq_iff_eq] at hl
      by_cases hkk : k = k'
      · subst hkk
        by_cases hi : i = a.ended k
        · rw [hi, ← hl]; exact List.mem_cons_self
        · exact List.mem_cons_of_mem _ (ih hr k i (by simp; omega) h2)
      · exact List.mem_cons_of_mem _ (ih hr k i (by simpa [upd_other _ _ hkk] using h1) h2)

/-- every `begin k i` with `i` between the old and the new `begun k` occurs in the trace -/
theorem lacc_begin_mem {n m : Nat} : ∀ {tr : List LEv} {a a' : Acc}, laccRun n m a tr = some a' →
    ∀ k i, a.begun k ≤ i → i < a'.begun k → LEv.begin k i ∈ tr := by
  intro tr
  induction tr with
  | nil => intro a a' h k i h1 h2; simp [laccRun] at h; subst h; omega
  | cons e es ih =>
    intro a a' h k i h1 h2
    obtain ⟨hl, a1, hs, hr⟩ := laccRun_cons h
    cases e with
    | done k' i' =>
      obtain ⟨_, _, _, _, rfl⟩ := accStep_done (show accStep n m a (.done k') = some a1 from hs)
      exact List.mem_cons_of_mem _ (ih hr k i h1 h2)
    | fail k' i' =>
      obtain ⟨_, _, _, _, rfl⟩ := accStep_fail (show accStep n m a (.fail k') = some a1 from hs)
      exact List.mem_cons_of_mem _ (ih hr k i h1 h2)
    | sink i' =>
      obtain ⟨_, _, rfl⟩ := accStep_sink (show accStep n m a .sink = some a1 from hs)
      exact List.mem_cons_of_mem _ (ih hr k i h1 h2)
    | begin k' i' =>
      obtain ⟨_, _, _, _, _, _, rfl⟩ := accStep_begin (show accStep n m a (.begin k') = some a1 from hs)
      simp only [labelsOK, beq_iff_eq] at hl
      by_cases hkk : k = k'
      · subst hkk
        by_cases hi : i = a.begun k
        · rw [hi, ← hl]; exact List.mem_cons_self
        · exact List.mem_cons_of_mem _ (ih hr k i (by simp; omega) h2)
      · exact List.mem_cons_of_mem _ (ih hr k i (by simpa [upd_other _ _ hkk] using h1) h2)

/-- the items stage `k` begins, in trace order -/
def begunItems (k : Nat) (tr : List LEv) : List Nat :=
  tr.filterMap (fun e => match e with | .begin k' i => if k' = k then some i else none | _ => none)

/-- … are consecutive numbers: no loss, no duplicate, in order -/
theorem lacc_begun_items {n m : Nat} (k : Nat) : ∀ {tr : List LEv} {a a' : Acc}, laccRun n m a tr = some a' →
    begunItems k tr = List.range' (a.begun k) (a'.begun k - a.begun k) := by
  intro tr
  induction tr with
  | nil => intro a a' h; simp [laccRun] at h; subst h; simp [begunItems]
  | cons e es ih =>
    intro a a' h
    obtain ⟨hl, a1, hs, hr⟩ := laccRun_cons h
    have hmono : a1.begun k ≤ a'.begun k := by
      have := (accRun_counts (laccRun_erase hr)).1 k; omega
    cases e with
    | done k' i' =>
      obtain ⟨_, _, _, _, rfl⟩ := accStep_done (show accStep n m a (.done k') = some a1 from hs)
      simpa [begunItems] using ih hr
    | fail k' i' =>
      obtain ⟨_, _, _, _, rfl⟩ := accStep_fail (show accStep n m a (.fail k') = some a1 from hs)
      simpa [begunItems] using ih hr
    | sink i' =>
      obtain ⟨_, _, rfl⟩ := accStep_sink (show accStep n m a .sink = some a1 from hs)
      simpa [begunItems] using ih hr
    | begin k' i' =>
      obtain ⟨_, _, _, _, _, _, rfl⟩ := accStep_begin (show accStep n m a (.begin k') = some a1 from hs)
      simp only [labelsOK, beq_iff_eq] at hl
      have := ih hr
      by_cases hkk : k' = k
      · subst hkk
        simp only [upd_same] at this hmono
        simp only [begunItems, List.filterMap_cons, if_true] at this ⊢
        rw [this, hl]
        have e : a'.begun k' - a.begun k' = (a'.begun k' - (a.begun k' + 1)) + 1 := by omega
        rw [e, List.range'_succ]
      · have hkk' : k ≠ k' := fun h => hkk h.symm
        simp only [upd_other _ _ hkk'] at this
        simp only [begunItems, List.filterMap_cons, hkk, if_false] at this ⊢
        exact this

end Knut.Pipeline
