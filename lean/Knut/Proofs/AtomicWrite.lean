import Knut.Model.AtomicWrite
/-!
# Lemmas about the file-system model and `writeFile`
-/
namespace Knut.AtomicWrite

theorem get_del_same (fs : FS) (p : Path) : FS.get (FS.del fs p) p = none := by
  induction fs with
  | nil => rfl
  | cons e rest ih =>
    obtain ⟨q, f⟩ := e
    by_cases h : q = p
    · simp only [FS.del, h, if_true]; exact ih
    · simp only [FS.del, h, if_false, FS.get]; exact ih

theorem get_del_other (fs : FS) {p q : Path} (h : q ≠ p) : FS.get (FS.del fs p) q = FS.get fs q := by
  induction fs with
  | nil => rfl
  | cons e rest ih =>
    obtain ⟨r, f⟩ := e
    by_cases hr : r = p
    · have hrq : ¬ r = q := by rw [hr]; exact fun x => h x.symm
      simp only [FS.del, hr, if_true, FS.get]
      have : ¬ p = q := fun x => h x.symm
      simp only [this, if_false]; exact ih
    · simp only [FS.del, hr, if_false, FS.get]
      by_cases hq : r = q
      · simp [hq]
      · simp only [hq, if_false]; exact ih

theorem get_set_same (fs : FS) (p : Path) (f : File) : FS.get (FS.set fs p f) p = some f := by
  simp [FS.set, FS.get]

theorem get_set_other (fs : FS) {p q : Path} (f : File) (h : q ≠ p) : FS.get (FS.set fs p f) q = FS.get fs q := by
  have : ¬ p = q := fun x => h x.symm
  simp [FS.set, FS.get, this, get_del_other fs h]

/-- what the target holds after a successful rewrite: the new content with the old mode (0600 if there was no target) -/
def newFile (fs0 : FS) (target : Path) (new : Bytes) : File :=
  ⟨new, match FS.get fs0 target with | some o => o.mode | none => 0o600⟩

/-- a state in which the target is what it was, the temp file is anything, and nothing else changed -/
def OnlyTmp (fs0 st : FS) (tmp : Path) : Prop := ∀ p, p ≠ tmp → FS.get st p = FS.get fs0 p

theorem onlyTmp_set (fs0 : FS) (tmp : Path) (f : File) : OnlyTmp fs0 (FS.set fs0 tmp f) tmp :=
  fun _ hp => get_set_other fs0 f hp

theorem onlyTmp_refl (fs0 : FS) (tmp : Path) : OnlyTmp fs0 fs0 tmp := fun _ _ => rfl

theorem onlyTmp_del {fs0 st : FS} {tmp : Path} (h : OnlyTmp fs0 st tmp) : OnlyTmp fs0 (FS.del st tmp) tmp :=
  fun p hp => by rw [get_del_other st hp]; exact h p hp

theorem onlyTmp_set' {fs0 st : FS} {tmp : Path} (h : OnlyTmp fs0 st tmp) (f : File) : OnlyTmp fs0 (FS.set st tmp f) tmp :=
  fun p hp => by rw [get_set_other st f hp]; exact h p hp

/-- the final state: target replaced, temp gone, nothing else changed -/
def Replaced (fs0 st : FS) (tmp target : Path) (new : Bytes) : Prop :=
  FS.get st target = some (newFile fs0 target new) ∧ FS.get st tmp = none ∧
  ∀ p, p ≠ tmp → p ≠ target → FS.get st p = FS.get fs0 p

theorem cleanup_spec {sc : Scenario} {tmp : Path} {states : Unit → List FS} {fs0 fs : FS} {op : Op}
    (hs : ∀ st ∈ states (), OnlyTmp fs0 st tmp) (hf : OnlyTmp fs0 fs tmp) (hin : fs ∈ states ()) :
    (∀ st ∈ (cleanup sc tmp states fs op).states (), OnlyTmp fs0 st tmp) ∧
    OnlyTmp fs0 (cleanup sc tmp states fs op).final tmp ∧
    (cleanup sc tmp states fs op).outcome = .error op ∧
    (cleanup sc tmp states fs op).final ∈ (cleanup sc tmp states fs op).states () ∧
    (sc.unlinkFails = false → FS.get (cleanup sc tmp states fs op).final tmp = none) := by
  unfold cleanup
  split
  · rename_i hu
    exact ⟨hs, hf, rfl, hin, by intro h; rw [hu] at h; cases h⟩
  · refine ⟨?_, onlyTmp_del hf, rfl, by simp, fun _ => get_del_same fs tmp⟩
    intro st hst
    rcases List.mem_append.mp hst with h | h
    · exact hs st h
    · simp at h; subst h; exact onlyTmp_del hf

/-- what a run of `writeFile` has to satisfy: every state but the last of a successful run differs from the
initial one only in the temp file; a failing run ends in such a state; a successful run ends with the target replaced. -/
def WFSpec (sc : Scenario) (fs0 : FS) (tmp target : Path) (new : Bytes) (r : Run) : Prop :=
  r.final ∈ r.states () ∧
  (∀ st ∈ r.states (), OnlyTmp fs0 st tmp ∨ (st = r.final ∧ r.outcome = .ok)) ∧
  (r.outcome = .ok → Replaced fs0 r.final tmp target new) ∧
  (∀ op, r.outcome = .error op → OnlyTmp fs0 r.final tmp ∧
    (op ≠ .createTemp → sc.unlinkFails = false → FS.get r.final tmp = none) ∧ (op = .createTemp → r.final = fs0))

theorem wfspec_cleanup {sc : Scenario} {tmp target : Path} {new : Bytes} {states : Unit → List FS} {fs0 fs : FS} {op : Op}
    (hs : ∀ st ∈ states (), OnlyTmp fs0 st tmp) (hf : OnlyTmp fs0 fs tmp) (hin : fs ∈ states ()) (hop : op ≠ .createTemp) :
    WFSpec sc fs0 tmp target new (cleanup sc tmp states fs op) := by
  obtain ⟨h1, h2, h3, h4, h5⟩ := cleanup_spec (sc := sc) (op := op) hs hf hin
  refine ⟨h4, fun st hst => Or.inl (h1 st hst), ?_, ?_⟩
  · intro hok; rw [h3] at hok; cases hok
  · intro op' hop'
    rw [h3] at hop'
    injection hop' with hop'
    subst hop'
    exact ⟨h2, fun _ hu => h5 hu, fun h => absurd h hop⟩

theorem copyStates_onlyTmp (sc : Scenario) (tmp : Path) (new : Bytes) (fs0 : FS) :
    ∀ st ∈ copyStates sc tmp new fs0, OnlyTmp fs0 st tmp := by
  intro st hst
  unfold copyStates at hst
  rcases List.mem_append.mp hst with h | h
  · simp at h
    rcases h with rfl | rfl
    · exact onlyTmp_refl _ _
    · exact onlyTmp_set _ _ _
  · obtain ⟨j, _, rfl⟩ := List.mem_map.mp h
    exact onlyTmp_set _ _ _

theorem copyStates_last (sc : Scenario) (tmp : Path) (new : Bytes) (fs0 : FS) :
    FS.set fs0 tmp ⟨new.take (written sc new), 0o600⟩ ∈ copyStates sc tmp new fs0 := by
  unfold copyStates
  apply List.mem_append_right
  exact List.mem_map.mpr ⟨written sc new, by simp, rfl⟩

theorem writeFile_spec (sc : Scenario) {tmp target : Path} (new : Bytes) (fs0 : FS) (hne : tmp ≠ target) :
    WFSpec sc fs0 tmp target new (writeFile sc tmp target new fs0) := by
  have hnt : target ≠ tmp := fun h => hne h.symm
  have hgrow := copyStates_onlyTmp sc tmp new fs0
  have hfs2 : OnlyTmp fs0 (FS.set fs0 tmp ⟨new.take (written sc new), 0o600⟩) tmp := onlyTmp_set _ _ _
  have hin2 := copyStates_last sc tmp new fs0
  have hget2 : FS.get (FS.set fs0 tmp ⟨new.take (written sc new), 0o600⟩) target = FS.get fs0 target :=
    get_set_other fs0 _ hnt
  have herr : ∀ op, op ≠ .createTemp → WFSpec sc fs0 tmp target new (cleanup sc tmp (fun _ => copyStates sc tmp new fs0)
        (FS.set fs0 tmp ⟨new.take (written sc new), 0o600⟩) op) :=
    fun op hop => wfspec_cleanup (states := fun _ => copyStates sc tmp new fs0) hgrow hfs2 hin2 hop
  unfold writeFile
  split
  · -- TempFile fails
    refine ⟨by simp, ?_, ?_, ?_⟩
    · intro st hst; simp at hst; subst hst; exact Or.inl (onlyTmp_refl _ _)
    · intro h; cases h
    · intro op hop
      injection hop with hop; subst hop
      exact ⟨onlyTmp_refl _ _, fun h => absurd rfl h, fun _ => rfl⟩
  · simp only []
    split
    · exact herr .write (by decide)
    · split
      · exact herr .fsync (by decide)
      · split
        · exact herr .close (by decide)
        · split
          · exact herr .statTarget (by decide)
          · rw [hget2]
            split
            · -- no original file
              rename_i hold
              split
              · exact herr .rename (by decide)
              · refine ⟨by simp, ?_, ?_, ?_⟩
                · intro st hst
                  rcases List.mem_append.mp hst with h | h
                  · exact Or.inl (hgrow st h)
                  · simp at h; exact Or.inr ⟨h, rfl⟩
                · intro _
                  refine ⟨?_, ?_, ?_⟩
                  · simp [newFile, hold, get_set_same]
                  · rw [get_set_other _ _ hne, get_del_same]
                  · intro p hp1 hp2
                    rw [get_set_other _ _ hp2, get_del_other _ hp1]
                    exact hfs2 p hp1
                · intro op hop; cases hop
            · rename_i old hold
              split
              · exact herr .statTemp (by decide)
              · split
                · exact herr .chmod (by decide)
                · have hfs3 : OnlyTmp fs0 (FS.set (FS.set fs0 tmp ⟨new.take (written sc new), 0o600⟩) tmp ⟨new, old.mode⟩) tmp :=
                    onlyTmp_set' hfs2 _
                  split
                  · -- rename fails: clean up from fs3
                    apply wfspec_cleanup (hop := by decide)
                    · intro st hst
                      rcases List.mem_append.mp hst with h | h
                      · exact hgrow st h
                      · simp at h; subst h; exact hfs3
                    · exact hfs3
                    · simp
                  · refine ⟨by simp, ?_, ?_, ?_⟩
                    · intro st hst
                      rcases List.mem_append.mp hst with h | h
                      · exact Or.inl (hgrow st h)
                      · simp at h
                        rcases h with rfl | rfl
                        · exact Or.inl hfs3
                        · exact Or.inr ⟨rfl, rfl⟩
                    · intro _
                      refine ⟨?_, ?_, ?_⟩
                      · simp [newFile, hold, get_set_same]
                      · rw [get_set_other _ _ hne, get_del_same]
                      · intro p hp1 hp2
                        rw [get_set_other _ _ hp2, get_del_other _ hp1]
                        exact hfs3 p hp1
                    · intro op hop; cases hop

theorem cleanup_outcome (sc : Scenario) (tmp : Path) (states : Unit → List FS) (fs : FS) (op : Op) :
    (cleanup sc tmp states fs op).outcome = .error op := by
  unfold cleanup; split <;> rfl

theorem writeFile_outcome (sc : Scenario) {tmp target : Path} (new : Bytes) (fs0 : FS) (hne : tmp ≠ target) :
    (writeFile sc tmp target new fs0).outcome = writeOutcome sc new (FS.get fs0 target) := by
  have hnt : target ≠ tmp := fun h => hne h.symm
  have hget2 : FS.get (FS.set fs0 tmp ⟨new.take (written sc new), 0o600⟩) target = FS.get fs0 target :=
    get_set_other fs0 _ hnt
  unfold writeFile writeOutcome
  split
  · rfl
  · simp only []
    split
    · exact cleanup_outcome ..
    · split
      · exact cleanup_outcome ..
      · split
        · exact cleanup_outcome ..
        · split
          · exact cleanup_outcome ..
          · rw [hget2]
            split
            · split
              · exact cleanup_outcome ..
              · rfl
            · split
              · exact cleanup_outcome ..
              · split
                · exact cleanup_outcome ..
                · split
                  · exact cleanup_outcome ..
                  · rfl

/-- the target after `writeFile`, as a function of the old target alone -/
theorem writeFile_target (sc : Scenario) {tmp target : Path} (new : Bytes) (fs0 : FS) (hne : tmp ≠ target) :
    FS.get (writeFile sc tmp target new fs0).final target =
      if writeOutcome sc new (FS.get fs0 target) = .ok then some (newFile fs0 target new) else FS.get fs0 target := by
  have hnt : target ≠ tmp := fun h => hne h.symm
  obtain ⟨_, _, hok, herr⟩ := writeFile_spec sc new fs0 hne
  rw [← writeFile_outcome sc new fs0 hne]
  cases ho : (writeFile sc tmp target new fs0).outcome with
  | ok => simp; exact (hok ho).1
  | error op => simp; exact (herr op ho).1 target hnt

theorem writeFile_frame (sc : Scenario) {tmp target : Path} (new : Bytes) (fs0 : FS) (hne : tmp ≠ target)
    {p : Path} (hp1 : p ≠ tmp) (hp2 : p ≠ target) : ∀ st ∈ (writeFile sc tmp target new fs0).states (), FS.get st p = FS.get fs0 p := by
  obtain ⟨_, hst, hok, _⟩ := writeFile_spec sc new fs0 hne
  intro st hmem
  rcases hst st hmem with h | ⟨rfl, ho⟩
  · exact h p hp1
  · exact (hok ho).2.2 p hp1 hp2

/-! ### `rewriteFile` -/

/-- the outcome of `rewriteFile` as a function of the old target alone -/
def rewriteOutcome (render : Bytes → Option Bytes) (sc : Scenario) (old : Option File) : Outcome :=
  if sc.fault = some .read then .error .read else
  match old with
  | none => .error .read
  | some f =>
    match render f.content with
    | none => .error .parse
    | some new => writeOutcome sc new (some f)

/-- the target after `rewriteFile` as a function of the old target alone -/
def rewriteTarget (render : Bytes → Option Bytes) (sc : Scenario) (old : Option File) : Option File :=
  match old with
  | none => none
  | some f =>
    match render f.content with
    | none => some f
    | some new => if rewriteOutcome render sc (some f) = .ok then some ⟨new, f.mode⟩ else some f

theorem rewriteFile_outcome (render : Bytes → Option Bytes) (sc : Scenario) {tmp target : Path} (fs : FS) (hne : tmp ≠ target) :
    (rewriteFile render sc tmp target fs).outcome = rewriteOutcome render sc (FS.get fs target) := by
  unfold rewriteFile rewriteOutcome
  split
  · rfl
  · cases hg : FS.get fs target with
    | none => rfl
    | some f =>
      simp only []
      cases hr : render f.content with
      | none => rfl
      | some new => simp only []; rw [writeFile_outcome sc new fs hne, hg]

theorem rewriteFile_target (render : Bytes → Option Bytes) (sc : Scenario) {tmp target : Path} (fs : FS) (hne : tmp ≠ target) :
    FS.get (rewriteFile render sc tmp target fs).final target = rewriteTarget render sc (FS.get fs target) := by
  unfold rewriteFile rewriteTarget
  cases hg : FS.get fs target with
  | none => split <;> simp [hg]
  | some f =>
    cases hr : render f.content with
    | none => split <;> simp [hg, hr]
    | some new =>
      simp only [hr]
      split
      · rename_i hread
        simp [hg, rewriteOutcome, hread]
      · rename_i hread
        rw [writeFile_target sc new fs hne, hg]
        simp [rewriteOutcome, hread, hr, newFile, hg]

theorem rewriteFile_frame (render : Bytes → Option Bytes) (sc : Scenario) {tmp target : Path} (fs : FS) (hne : tmp ≠ target)
    {p : Path} (hp1 : p ≠ tmp) (hp2 : p ≠ target) : ∀ st ∈ (rewriteFile render sc tmp target fs).states (), FS.get st p = FS.get fs p := by
  unfold rewriteFile
  split
  · intro st h; simp at h; rw [h]
  · split
    · intro st h; simp at h; rw [h]
    · split
      · intro st h; simp at h; rw [h]
      · exact writeFile_frame sc _ fs hne hp1 hp2

theorem rewriteFile_final_mem (render : Bytes → Option Bytes) (sc : Scenario) {tmp target : Path} (fs : FS) (hne : tmp ≠ target) :
    (rewriteFile render sc tmp target fs).final ∈ (rewriteFile render sc tmp target fs).states () := by
  unfold rewriteFile
  split
  · simp
  · split
    · simp
    · split
      · simp
      · exact (writeFile_spec sc _ fs hne).1

/-- the two shapes of a run of `rewriteFile` -/
theorem rewriteFile_cases (render : Bytes → Option Bytes) (sc : Scenario) (tmp target : Path) (fs : FS) :
    ((rewriteFile render sc tmp target fs).states () = [fs] ∧ (rewriteFile render sc tmp target fs).final = fs ∧
      ((rewriteFile render sc tmp target fs).outcome = .error .read ∨
        ((rewriteFile render sc tmp target fs).outcome = .error .parse ∧
          ∃ f, FS.get fs target = some f ∧ render f.content = none))) ∨
    (∃ f new, FS.get fs target = some f ∧ render f.content = some new ∧
      rewriteFile render sc tmp target fs = writeFile sc tmp target new fs) := by
  by_cases hread : sc.fault = some .read
  · left; simp [rewriteFile, hread]
  · cases hg : FS.get fs target with
    | none => left; simp [rewriteFile, hread, hg]
    | some f =>
      cases hr : render f.content with
      | none => left; simp [rewriteFile, hread, hg, hr]
      | some new => right; exact ⟨f, new, rfl, hr, by simp [rewriteFile, hread, hg, hr]⟩

/-! ### several files -/

def Job.paths (j : Job) : List Path := [j.target, j.tmp]

theorem nodup_paths_of_mem {jobs : List Job} (hnd : (jobs.flatMap Job.paths).Nodup) {j : Job} (hj : j ∈ jobs) :
    (Job.paths j).Nodup := by
  induction jobs with
  | nil => cases hj
  | cons a as ih =>
    simp only [List.flatMap_cons] at hnd
    have h := List.nodup_append.mp hnd
    rcases List.mem_cons.mp hj with rfl | hj
    · exact h.1
    · exact ih h.2.1 hj


theorem rewriteAll_spec (render : Bytes → Option Bytes) : ∀ (jobs : List Job) (fs : FS),
    (jobs.flatMap Job.paths).Nodup →
    (∀ p, p ∉ jobs.flatMap Job.paths → FS.get (rewriteAll render jobs fs).1 p = FS.get fs p) ∧
    (∀ j ∈ jobs, FS.get (rewriteAll render jobs fs).1 j.target = rewriteTarget render j.sc (FS.get fs j.target)) ∧
    (rewriteAll render jobs fs).2 = jobs.map (fun j => rewriteOutcome render j.sc (FS.get fs j.target)) := by
  intro jobs
  induction jobs with
  | nil => intro fs _; simp [rewriteAll]
  | cons j js ih =>
    intro fs hnd
    simp only [List.flatMap_cons, Job.paths] at hnd
    have hnd' : (js.flatMap Job.paths).Nodup := by
      have := List.nodup_append.mp hnd
      exact this.2.1
    have hdisj : ∀ p, p ∈ js.flatMap Job.paths → p ≠ j.target ∧ p ≠ j.tmp := by
      intro p hp
      have := (List.nodup_append.mp hnd).2.2
      constructor
      · intro h; exact this j.target (by simp) p hp h.symm
      · intro h; exact this j.tmp (by simp) p hp h.symm
    have hne : j.tmp ≠ j.target := by
      have := (List.nodup_append.mp hnd).1
      simp at this
      exact fun h => this h.symm
    obtain ⟨ih1, ih2, ih3⟩ := ih (rewriteFile render j.sc j.tmp j.target fs).final hnd'
    have hfin := rewriteFile_final_mem render j.sc fs hne
    have hframe : ∀ p, p ≠ j.tmp → p ≠ j.target →
        FS.get (rewriteFile render j.sc j.tmp j.target fs).final p = FS.get fs p :=
      fun p h1 h2 => rewriteFile_frame render j.sc fs hne h1 h2 _ hfin
    refine ⟨?_, ?_, ?_⟩
    · intro p hp
      simp only [List.flatMap_cons, Job.paths, List.mem_append, List.mem_cons, List.not_mem_nil, or_false, not_or] at hp
      simp only [rewriteAll]
      rw [ih1 p hp.2]
      exact hframe p hp.1.2 hp.1.1
    · intro j' hj'
      simp only [rewriteAll]
      rcases List.mem_cons.mp hj' with rfl | hj'
      · have hnot : j'.target ∉ js.flatMap Job.paths := by
          intro hmem
          exact (hdisj _ hmem).1 rfl
        rw [ih1 _ hnot]
        exact rewriteFile_target render j'.sc fs hne
      · rw [ih2 j' hj']
        have hmem : j'.target ∈ js.flatMap Job.paths := List.mem_flatMap.mpr ⟨j', hj', by simp [Job.paths]⟩
        have ⟨h1, h2⟩ := hdisj _ hmem
        rw [hframe _ h2 h1]
    · simp only [rewriteAll, List.map_cons]
      rw [ih3, rewriteFile_outcome render j.sc fs hne]
      congr 1
      apply List.map_congr_left
      intro j' hj'
      have hmem : j'.target ∈ js.flatMap Job.paths := List.mem_flatMap.mpr ⟨j', hj', by simp [Job.paths]⟩
      have ⟨h1, h2⟩ := hdisj _ hmem
      rw [hframe _ h2 h1]

end Knut.AtomicWrite
