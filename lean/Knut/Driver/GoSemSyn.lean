import Knut.Wire
import Knut.GoSem.Syntax
/-! Driver ops `gosemsyn …`: the primitives that `Knut/GoSem/Syntax.lean` adds for the translation of `lib/syntax/printer`
(`RuneCountInString`, `Fmt.sW`, `Strings.Join`, `Strings.Repeat`, `Writer.Write`), evaluated for the differential stream `gosemsyn` of C11
(`harness/gosem_syn.go`), which compares each of them with the real Go primitive on byte strings that include invalid UTF-8. -/
namespace Knut.Driver.GoSemSyn
open Knut Knut.Wire Knut.GoSem

def bytesOf (s : String) : Option (List UInt8) :=
  if s = "-" then some [] else (unhexBytes s).map (·.toList)

def hexOf (bs : List UInt8) : String := if bs.isEmpty then "-" else hexBytes ⟨bs.toArray⟩

/-- long outputs are compared by length, head and tail -/
def summary (bs : List UInt8) : String :=
  if bs.length ≤ 4096 then hexOf bs
  else s!"len={bs.length} head={hexOf (bs.take 32)} tail={hexOf (bs.drop (bs.length - 32))}"

def parts (s : String) : Option (List (List UInt8)) :=
  if s = "-" then some [] else (splitOn s ',').mapM fun p => bytesOf (let t := (p.drop 1).toString; if t = "" then "-" else t)

/-- the `nil` error on the wire -/
def showErr (e : Option Unit) : String := match e with | none => "<nil>" | some _ => "error"

def handle (fields : List String) : Option String :=
  match fields with
  | ["gosemsyn", "runecount", s] => (bytesOf s).map fun s => toString (Syn.RuneCountInString s)
  | ["gosemsyn", "sw", minus, w, s] =>
    match parseInt w, bytesOf s with
    | some w, some s => some (hexOf (Syn.Fmt.sW (minus == "1") w s))
    | _, _ => some "bad-op"
  | ["gosemsyn", "repeat", n, s] =>
    match parseInt n, bytesOf s with
    | some n, some s =>
      match Syn.Strings.Repeat s n with
      | .ok r => some ("ok " ++ summary r)
      | .panic _ => some "panic"
      | .outOfFuel => some "out-of-fuel"
    | _, _ => some "bad-op"
  | ["gosemsyn", "join", sep, ps] =>
    match bytesOf sep, parts ps with
    | some sep, some ps => some (hexOf (Syn.Strings.Join ps sep))
    | _, _ => some "bad-op"
  | ["gosemsyn", "write", w, bs] =>
    match bytesOf w, bytesOf bs with
    | some w, some bs =>
      let r := Syn.Writer.Write w bs (none : Option Unit)
      some s!"{hexOf r.1} {r.2.1} {showErr r.2.2}"
    | _, _ => some "bad-op"
  | ["gosemsyn", "wstring", w, bs] =>
    -- io.WriteString(w, s) for a writer without WriteString: one call of w.Write([]byte(s))
    match bytesOf w, bytesOf bs with
    | some w, some bs =>
      let r := Syn.Writer.Write w bs (none : Option Unit)
      some s!"{hexOf r.1} {r.2.1} {showErr r.2.2} calls=1"
    | _, _ => some "bad-op"
  | ["gosemsyn", "posting", pad, a, b, q, c] =>
    -- the bytes the translator builds for `fmt.Fprintf(p, "%s %s %10s %s", a, b, q, c)`, written by one `Write`
    match parseInt pad, bytesOf a, bytesOf b, bytesOf q, bytesOf c with
    | some _, some a, some b, some q, some c =>
      let line := Syn.Fmt.s a ++ Syn.lit " " ++ Syn.Fmt.s b ++ Syn.lit " " ++ Syn.Fmt.sW false (10 : Int) q ++
        Syn.lit " " ++ Syn.Fmt.s c
      let r := Syn.Writer.Write [] line (none : Option Unit)
      some s!"{hexOf r.1} {r.2.1} {showErr r.2.2} calls=1"
    | _, _, _, _, _ => some "bad-op"
  | _ => none

end Knut.Driver.GoSemSyn
