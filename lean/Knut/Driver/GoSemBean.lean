import Knut.Wire
import Knut.GoSem.Fmt
import Knut.GoSem.Regexp
import Knut.GoSem.SortSlice
/-! Driver ops `gosembean …`: the primitives that the translation of `lib/journal/beancount` adds to the prelude
(`Knut/GoSem/Regexp.lean`: `strings.HasPrefix`, the regular expression `[^a-zA-Z]`; `Knut/GoSem/SortSlice.lean`: the guarantee of the
unstable `compare.Sort`) and the reading "a printer made by `printer.New(w)` and `w` are ONE sink", evaluated for the differential
stream `gosembean` of C11 (`harness/gosem_bean.go`). -/
namespace Knut.Driver.GoSemBean
open Knut Knut.Wire Knut.GoSem

/-- `key.id,key.id,…` -/
def parseItems (s : String) : Option (List (Int × Int)) :=
  if s = "-" then some [] else
    (splitOn s ',').mapM (fun it =>
      match splitOn it '.' with
      | [k, i] => do let k ← parseInt k; let i ← parseInt i; pure (k, i)
      | _ => none)

/-- the comparator of the stream: `compare.Ordered` on the keys (the ids are payload: items with equal keys compare Equal) -/
def cmpKey (a b : Int × Int) : Int := cmpOrdered a.1 b.1

/-- no element is `Smaller` than one before it -/
def sortedB : List (Int × Int) → Bool
  | [] => true
  | a :: rest => rest.all (fun b => decide (cmpKey b a ≠ -1)) && sortedB rest

/-- the two clauses of `SortSliceSpec` for one input and the output of the real `compare.Sort`, decided -/
def specHolds (input output : List (Int × Int)) : Bool := output.isPerm input && sortedB output

def handle (fields : List String) : Option String :=
  match fields with
  | ["gosembean", "hasprefix", s, p] =>
    match unhexStr s, unhexStr p with
    | some s, some p => some (if Strings.HasPrefix s p then "1" else "0")
    | _, _ => some "bad-op"
  | ["gosembean", "nonletter", s, r] =>
    match unhexStr s, unhexStr r with
    | some s, some r => some (hexStr (Regexp.replaceAllNonLetter s r))
    | _, _ => some "bad-op"
  | ["gosembean", "sortslice", input, output] =>
    match parseItems input, parseItems output with
    | some i, some o => some (if specHolds i o then "ok" else "violated")
    | _, _ => some "bad-op"
  | ["gosembean", "alias", before, a, b, c] =>
    match unhexStr before, unhexStr a, unhexStr b, unhexStr c with
    | some before, some a, some b, some c =>
      -- the translation of
      --   p := printer.New(rec); io.WriteString(p, a); io.WriteString(rec, b); p.Write([]byte(c)); fmt.Fprintf(rec, "%s %s", a, b)
      -- with `p.writer` and `w` kept equal after every assignment to either (harness/trans_units_beancount.go)
      let w := before
      let pw := w                                  -- p := printer.New(w)
      let pw := (Writer.Write pw a).1              -- p.Write(a)
      let w := pw
      let w := (Writer.Write w b).1                -- io.WriteString(w, b)
      let pw := w
      let pw := (Writer.Write pw c).1              -- p.Write(c)
      let w := pw
      let w := (Writer.Write w (a ++ " " ++ b)).1  -- fmt.Fprintf(w, "%s %s", a, b)
      some (hexStr w)
    | _, _, _, _ => some "bad-op"
  | _ => none

end Knut.Driver.GoSemBean
