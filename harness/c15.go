package main

import (
	"bytes"
	"encoding/hex"
	"fmt"
	"math"
	"os"
	"os/exec"
	"path"
	"path/filepath"
	"reflect"
	"sort"
	"strings"
	"time"
	"unicode"

	"github.com/sboehler/knut/lib/syntax"
	"github.com/sboehler/knut/lib/syntax/bayes"
	"github.com/sboehler/knut/lib/syntax/directives"
	"github.com/sboehler/knut/lib/syntax/parser"
)

func init() { runners["C15"] = runC15 }

// ---------------------------------------------------------------- cases

type c15File struct{ Path, Text string }

// c15Case is one input of `knut infer -a Placeholder -t Training[0].Path Target`.
type c15Case struct {
	Placeholder string
	Training    []c15File // root first; the others are reached through include directives
	Target      string
	SameFile    bool // the target file is also the training file
	Kinds       []string
	Light       bool // parse the training files without the C07 instrumentation (node dump, range checks, watchdog): files of megabytes
}

func (k c15Case) input() map[string]any {
	in := map[string]any{"placeholder_hex": hex.EncodeToString([]byte(k.Placeholder)), "placeholder": k.Placeholder,
		"target_hex": hex.EncodeToString([]byte(k.Target)), "same_file": k.SameFile, "kinds": strings.Join(k.Kinds, " ")}
	var tr []any
	for _, f := range k.Training {
		tr = append(tr, map[string]any{"path": f.Path, "text_hex": hex.EncodeToString([]byte(f.Text))})
	}
	in["training"] = tr
	if len(k.Target) < 500 && c15Printable(k.Target) {
		in["target"] = k.Target
	}
	if len(k.Training) > 0 && len(k.Training[0].Text) < 700 && c15Printable(k.Training[0].Text) {
		in["training_root"] = k.Training[0].Text
	}
	return in
}

func c15Printable(s string) bool {
	for _, r := range s {
		if r == unicode.ReplacementChar || (r < 32 && r != '\n' && r != '\t') {
			return false
		}
	}
	return true
}

func c15CaseFromInput(in map[string]any) (c15Case, bool) {
	var k c15Case
	unhex := func(v any) (string, bool) {
		s, ok := v.(string)
		if !ok {
			return "", false
		}
		b, err := hex.DecodeString(s)
		return string(b), err == nil
	}
	var ok bool
	if k.Placeholder, ok = unhex(in["placeholder_hex"]); !ok {
		return k, false
	}
	if k.Target, ok = unhex(in["target_hex"]); !ok {
		return k, false
	}
	k.SameFile, _ = in["same_file"].(bool)
	if s, ok := in["kinds"].(string); ok {
		k.Kinds = strings.Fields(s)
	}
	tr, _ := in["training"].([]any)
	for _, t := range tr {
		m, ok := t.(map[string]any)
		if !ok {
			return k, false
		}
		text, ok := unhex(m["text_hex"])
		if !ok {
			return k, false
		}
		p, _ := m["path"].(string)
		k.Training = append(k.Training, c15File{p, text})
	}
	return k, true
}

// ---------------------------------------------------------------- the implementation side (in-process)

// c15Collect mirrors syntax.ParseFileRecursively on an in-memory file set: the texts in arrival order of a
// depth-first walk (a file included twice arrives twice). ok=false: a file is missing, does not parse, or includes itself.
func c15Collect(files map[string]string, file string, ancestors []string, outTexts *[]string, outFiles *[]directives.File, light bool) (ok bool, why string) {
	for _, a := range ancestors {
		if path.Clean(a) == path.Clean(file) {
			return false, "cycle"
		}
	}
	text, found := files[path.Clean(file)]
	if !found {
		return false, "missing"
	}
	var res synResult
	if light {
		res = c15ParseLight(text, file)
	} else {
		res = implParse(text, file)
	}
	if res.Outcome != "ok" {
		if res.Outcome == "err" {
			return false, "syntax"
		}
		return false, res.Outcome
	}
	*outTexts = append(*outTexts, text)
	*outFiles = append(*outFiles, res.File)
	for _, d := range res.File.Directives {
		if inc, isInc := d.Directive.(directives.Include); isInc {
			child := path.Join(filepath.Dir(file), inc.IncludePath.Content.Extract())
			if ok, why := c15Collect(files, child, append(ancestors[:len(ancestors):len(ancestors)], file), outTexts, outFiles, light); !ok {
				return false, why
			}
		}
	}
	return true, ""
}

// c15ParseLight is the parser alone (parser.New, Advance, ParseFile as syntax.ParseFile calls them): outcome and tree.
func c15ParseLight(text, file string) (res synResult) {
	defer func() {
		if r := recover(); r != nil {
			res = synResult{Outcome: "panic", Detail: fmt.Sprint(r)}
		}
	}()
	p := parser.New(text, file)
	err := p.Advance()
	var f directives.File
	if err == nil {
		f, err = p.ParseFile()
	}
	if err != nil {
		return synResult{Outcome: "err", Message: err.Error()}
	}
	return synResult{Outcome: "ok", File: f, NumDirs: len(f.Directives)}
}

// c15DumpModel reads the (unexported) count tables of the real model by reflection, in the driver's format.
func c15DumpModel(m *bayes.Model) string {
	v := reflect.ValueOf(m).Elem()
	counts := func(mv reflect.Value) string {
		var parts []string
		keys := make([]string, 0, mv.Len())
		vals := map[string]int64{}
		it := mv.MapRange()
		for it.Next() {
			keys = append(keys, it.Key().String())
			vals[it.Key().String()] = it.Value().Int()
		}
		sort.Strings(keys)
		for _, k := range keys {
			parts = append(parts, fmt.Sprintf("%s=%d", Hex(k), vals[k]))
		}
		if len(parts) == 0 {
			return "."
		}
		return strings.Join(parts, ",")
	}
	tm := v.FieldByName("countByTokenAndAccount")
	var toks []string
	inner := map[string]string{}
	it := tm.MapRange()
	for it.Next() {
		toks = append(toks, it.Key().String())
		inner[it.Key().String()] = counts(it.Value())
	}
	sort.Strings(toks)
	var tparts []string
	for _, t := range toks {
		tparts = append(tparts, Hex(t)+":"+inner[t])
	}
	tt := "."
	if len(tparts) > 0 {
		tt = strings.Join(tparts, ";")
	}
	return fmt.Sprintf("%d %s %s", v.FieldByName("count").Int(), counts(v.FieldByName("countByAccount")), tt)
}

// c15Eligible lists (sorted, distinct) the accounts the training journals offer: credit and debit accounts of bookings
// without macro accounts that do not touch the placeholder. Computed from the real parser's trees, not from the bayes model.
func c15Eligible(ph string, files []directives.File) []string {
	set := map[string]bool{}
	for _, f := range files {
		for _, d := range f.Directives {
			t, ok := d.Directive.(directives.Transaction)
			if !ok {
				continue
			}
			for _, b := range t.Bookings {
				if b.Credit.Macro || b.Debit.Macro {
					continue
				}
				cr, db := b.Credit.Extract(), b.Debit.Extract()
				if cr == "" || db == "" || cr == ph || db == ph {
					continue
				}
				set[cr], set[db] = true, true
			}
		}
	}
	res := make([]string, 0, len(set))
	for a := range set {
		res = append(res, a)
	}
	sort.Strings(res)
	return res
}

func c15HexList(l []string) string {
	if len(l) == 0 {
		return "."
	}
	parts := make([]string, len(l))
	for i, s := range l {
		parts[i] = Hex(s)
	}
	return strings.Join(parts, ",")
}

type c15Impl struct {
	Outcome  string // "ok" | "rejected" | "panic ..."
	Why      string
	Out      string
	Texts    []string // training texts in arrival order
	Files    []directives.File
	Eligible []string
	Model    *bayes.Model
	// shape of the target
	NCredit, NDebit, NBoth, Replaced, Kept, NTrx int
	// for every placeholder field that Infer left alone: the account of the other side at the time of the decision (the credit
	// side is decided against the debit account as it was, the debit side against the credit account as written)
	KeptOther []string
	MaxTokens int // largest token set of a target transaction with a placeholder (words of the description, distinct, lower case)
}

// c15Train is inferRunner.train on parsed files given in some arrival order.
func c15Train(ph string, files []directives.File, reverse bool) *bayes.Model {
	m := bayes.NewModel(ph)
	var trxs []directives.Transaction
	for _, f := range files {
		for _, d := range f.Directives {
			if t, ok := d.Directive.(syntax.Transaction); ok {
				trxs = append(trxs, t)
			}
		}
	}
	if reverse {
		for i, j := 0, len(trxs)-1; i < j; i, j = i+1, j-1 {
			trxs[i], trxs[j] = trxs[j], trxs[i]
		}
	}
	for i := range trxs {
		m.Update(&trxs[i])
	}
	return m
}

// c15InferFormat is parseAndInfer + syntax.FormatFile on a freshly parsed target.
func c15InferFormat(m *bayes.Model, target string, im *c15Impl) (out string, outcome string) {
	defer func() {
		if r := recover(); r != nil {
			outcome = "panic " + fmt.Sprint(r)
		}
	}()
	res := implParse(target, c07Path)
	if res.Outcome != "ok" {
		if res.Outcome == "err" {
			return "", "rejected"
		}
		return "", res.Outcome + " " + res.Detail
	}
	f := res.File
	ph := reflect.ValueOf(m).Elem().FieldByName("account").String()
	for i := range f.Directives {
		if t, ok := f.Directives[i].Directive.(syntax.Transaction); ok {
			type side struct{ cr, db string }
			var before []side
			for _, b := range t.Bookings {
				before = append(before, side{b.Credit.Extract(), b.Debit.Extract()})
			}
			m.Infer(&t)
			if im != nil {
				im.NTrx++
				for j, b := range t.Bookings {
					c, d := before[j].cr == ph, before[j].db == ph
					switch {
					case c && d:
						im.NBoth++
					case c:
						im.NCredit++
					case d:
						im.NDebit++
					}
					for _, p := range [][3]string{{before[j].cr, b.Credit.Extract(), before[j].db}, {before[j].db, b.Debit.Extract(), b.Credit.Extract()}} {
						if p[0] == ph {
							if p[1] != ph {
								im.Replaced++
							} else {
								im.Kept++
								im.KeptOther = append(im.KeptOther, p[2])
							}
						}
					}
					if c || d {
						set := map[string]bool{}
						for _, w := range strings.Fields(t.Description.Content.Extract()) {
							set[strings.ToLower(w)] = true
						}
						if len(set) > im.MaxTokens {
							im.MaxTokens = len(set)
						}
					}
				}
			}
		}
	}
	var buf bytes.Buffer
	if err := syntax.FormatFile(&buf, f); err != nil {
		return "", "error " + err.Error()
	}
	return buf.String(), "ok"
}

// c15Run runs the library code as the command does: train on everything reachable, infer, format.
func c15Run(k c15Case) *c15Impl {
	im := &c15Impl{}
	files := map[string]string{}
	for _, f := range k.Training {
		files[path.Clean(f.Path)] = f.Text
	}
	root := "train.knut"
	if len(k.Training) > 0 {
		root = k.Training[0].Path
	}
	ok, why := c15Collect(files, root, nil, &im.Texts, &im.Files, k.Light)
	if !ok {
		im.Outcome, im.Why = "rejected", "training:"+why
		if why == "panic" || why == "hang" {
			im.Outcome = why
		}
		return im
	}
	im.Eligible = c15Eligible(k.Placeholder, im.Files)
	im.Model = c15Train(k.Placeholder, im.Files, false)
	im.Out, im.Outcome = c15InferFormat(im.Model, k.Target, im)
	if im.Outcome == "rejected" {
		im.Why = "target:syntax"
	}
	return im
}

// ---------------------------------------------------------------- the runner

type c15run struct {
	c        *Ctx
	bt       *Batch
	suspects []c15Case
}

func (x *c15run) flush() {
	for len(x.bt.lines) > 0 {
		x.bt.Flush()
	}
}

func c15Bucket(n int) string {
	switch {
	case n == 0:
		return "0"
	case n == 1:
		return "1"
	case n <= 3:
		return "2-3"
	case n <= 8:
		return "4-8"
	}
	return "9+"
}

func c15PhKind(ph string) string {
	switch {
	case ph == "Expenses:TBD":
		return "default"
	case ph == "":
		return "empty"
	case strings.HasPrefix(ph, "$"):
		return "macro"
	case !isASCII(ph):
		return "unicode"
	case strings.ContainsAny(ph, " \t\""):
		return "not-an-account"
	}
	return "custom"
}

// compareModel compares an implementation result ("ok <hex>" | "rejected" | ...) with the model's, falling back to the
// tolerant comparison when the exact scores of the best candidates are closer than 1e-9 (the float sum of logarithms may
// order them either way).
func (x *c15run) compareModel(stream string, index int, op string, k c15Case, texts []string, implOutcome, implOut string) {
	x.compareModelIn(stream, index, op, k.input(), k.Placeholder, k.Target, &k, texts, implOutcome, implOut)
}

// compareModelIn: the same with the recorded input given (suspect: the case to hand to the directed search, or nil).
func (x *c15run) compareModelIn(stream string, index int, op string, in map[string]any, placeholder, target string, suspect *c15Case, texts []string, implOutcome, implOut string) {
	c := x.c
	impl := implOutcome
	if implOutcome == "ok" {
		impl = "ok " + Hex(implOut)
	}
	if strings.HasPrefix(implOutcome, "rejected") {
		impl = "rejected"
	}
	x.bt.Add(func(ans string) {
		model := ans
		ties := "0"
		if f := strings.Fields(ans); len(f) == 3 && f[0] == "ok" {
			model = "ok " + f[1]
			ties = f[2]
		}
		if model == impl || ties == "0" || !strings.HasPrefix(impl, "ok ") {
			if ties != "0" {
				c.Tag(stream + "/near-tie-same-choice")
			}
			if !c.Compare(stream, index, op, in, impl, model) && len(x.suspects) < 6 && suspect != nil {
				x.suspects = append(x.suspects, *suspect)
			}
			return
		}
		c.Tag(stream + "/near-tie-other-choice")
		x.bt.Add(func(tol string) {
			if !c.Compare(stream, index, op+"(choice among candidates whose exact scores differ by less than 1e-9)", in, "ok", tol) && len(x.suspects) < 6 && suspect != nil {
				x.suspects = append(x.suspects, *suspect)
			}
		}, "c15tol", Hex(placeholder), Hex(c07Path), Hex(target), Hex(implOut), c15HexList(texts))
	}, "c15infer", Hex(placeholder), Hex(c07Path), Hex(target), c15HexList(texts))
}

// monitors evaluates the property predicates on a real output `out` of infer for target `k.Target`, given the real
// formatter's rendering `fmtText` of the target.
func (x *c15run) monitors(stream string, index int, k c15Case, eligible []string, fmtText, out string) {
	x.monitorsIn(stream, index, k.input(), k.Placeholder, eligible, fmtText, out)
}

func (x *c15run) monitorsIn(stream string, index int, in map[string]any, placeholder string, eligible []string, fmtText, out string) {
	c := x.c
	res2 := implParse(out, c07Path)
	if !c.Monitor(stream, index, "C15_output_parses", in, res2.Outcome == "ok", "output "+clipTo(fmt.Sprintf("%q", out), 700)+" => "+clipTo(res2.String(), 300)) {
		return
	}
	x.bt.Add(func(mon string) {
		c.Monitor(stream, index, "inferOK(only placeholder fields differ from the formatted target; replacements from training and unlike the other account; layout)", in, mon == "ok",
			"formatted target "+clipTo(fmt.Sprintf("%q", fmtText), 500)+" output "+clipTo(fmt.Sprintf("%q", out), 700)+" training accounts "+fmt.Sprint(eligible)+" => "+mon)
	}, "c15mon", Hex(placeholder), Hex(c07Path), c15HexList(eligible), Hex(fmtText), Hex(out))
	out2, oc2 := implFormat(res2)
	c.Monitor(stream, index, "C15_output_is_formatted(format of the output is the output)", in, oc2 == "ok" && out2 == out, "output "+clipTo(fmt.Sprintf("%q", out), 400)+" formatted again "+clipTo(fmt.Sprintf("%q", out2), 400)+" "+oc2)
}

// one: the library code in-process.
func (x *c15run) one(stream string, index int, k c15Case) {
	c := x.c
	c.Evals++
	im := c15Run(k)
	in := k.input()
	if strings.HasPrefix(im.Outcome, "panic") || im.Outcome == "hang" {
		c.Monitor(stream, index, "C15_no_panic", in, false, im.Outcome)
	}
	c.Tag(stream + "/" + strings.Fields(im.Outcome + " x")[0])
	if im.Outcome == "rejected" {
		c.Class("rejected/" + im.Why + "/" + strings.Join(k.Kinds, ","))
		c.Tag(stream + "/rejected/" + im.Why)
		if strings.HasPrefix(im.Why, "training:") && im.Why != "training:syntax" {
			return // missing include / cycle: the include graph is not part of this model (C05/C19)
		}
		texts := im.Texts
		if im.Why == "training:syntax" {
			texts = nil
			for _, f := range k.Training {
				texts = append(texts, f.Text)
			}
		}
		x.compareModel(stream, index, "c15infer", k, texts, im.Outcome, "")
		return
	}
	// training counts, byte for byte
	dump := c15DumpModel(im.Model)
	x.bt.Add(func(ans string) {
		c.Compare(stream, index, "c15train(count tables, learnable accounts)", in, "ok "+dump+" "+c15HexList(im.Eligible), ans)
	}, "c15train", Hex(k.Placeholder), c15HexList(im.Texts))
	x.compareModel(stream, index, "c15infer", k, im.Texts, im.Outcome, im.Out)
	c.Class(fmt.Sprintf("ok/ph=%s/c%s,d%s,b%s/repl%s,kept%s/trx%s/train f%d,a%s/%s", c15PhKind(k.Placeholder), c15Bucket(im.NCredit), c15Bucket(im.NDebit), c15Bucket(im.NBoth),
		c15Bucket(im.Replaced), c15Bucket(im.Kept), c15Bucket(im.NTrx), len(im.Texts), c15Bucket(len(im.Eligible)), strings.Join(k.Kinds, ",")))
	if im.Replaced > 0 {
		c.Tag("replaced")
	}
	if im.Kept > 0 {
		c.Tag("kept-no-candidate")
	}
	if im.NBoth > 0 {
		c.Tag("placeholder-both-sides")
	}
	if index >= 0 && index < 2 {
		c.Sample(map[string]any{"stream": stream, "input": in, "output": clipTo(im.Out, 500)})
	}
	if im.Outcome != "ok" {
		return
	}
	// the formatter's rendering of the untouched target
	fres := implParse(k.Target, c07Path)
	fmtText, foc := implFormat(fres)
	if foc != "ok" {
		c.Monitor(stream, index, "format(target)", in, false, foc)
		return
	}
	x.monitors(stream, index, k, im.Eligible, fmtText, im.Out)
	// the replacement clause, evaluated on the trees of the real parser alone (no model, no score): a placeholder field is
	// left alone only when the training journals offer no account but the one on the other side (C15_candidate_replaced)
	left := ""
	for _, other := range im.KeptOther {
		for _, e := range im.Eligible {
			if e != other {
				left = fmt.Sprintf("a placeholder next to %q was kept although the training journals offer %q (%d learnable accounts)", other, e, len(im.Eligible))
				break
			}
		}
		if left != "" {
			break
		}
	}
	c.Monitor(stream, index, "C15_candidate_replaced(a placeholder stays only when the training offers no account other than the other side)", in, left == "",
		left+"; largest token set "+fmt.Sprint(im.MaxTokens)+"; output "+clipTo(fmt.Sprintf("%q", im.Out), 500))
	// determinism: another arrival order of the training transactions, and a second run
	m2 := c15Train(k.Placeholder, im.Files, true)
	out2, oc2 := c15InferFormat(m2, k.Target, nil)
	c.Monitor(stream, index, "C15_deterministic(training order reversed)", in, oc2 == "ok" && out2 == im.Out, "first "+clipTo(fmt.Sprintf("%q", im.Out), 500)+" reversed "+clipTo(fmt.Sprintf("%q", out2), 500))
	// idempotence (theorem C15_idempotent_after): infer on its own output with the same model writes the same text
	out4, oc4 := c15InferFormat(im.Model, im.Out, nil)
	c.Monitor(stream, index, "C15_idempotent_after(infer on its own output, same training)", in, oc4 == "ok" && out4 == im.Out, "first "+clipTo(fmt.Sprintf("%q", im.Out), 500)+" second "+clipTo(fmt.Sprintf("%q", out4), 500)+" "+oc4)
	if index%4 == 0 {
		for rep := 0; rep < 3; rep++ {
			m3 := c15Train(k.Placeholder, im.Files, false)
			out3, oc3 := c15InferFormat(m3, k.Target, nil)
			if !c.Monitor(stream, index, "C15_deterministic(repeated run)", in, oc3 == "ok" && out3 == im.Out, "first "+clipTo(fmt.Sprintf("%q", im.Out), 500)+" again "+clipTo(fmt.Sprintf("%q", out3), 500)) {
				break
			}
		}
	}
}

// ---------------------------------------------------------------- the command (subprocess)

type c15Proc struct {
	Status int
	Stdout string
	Stderr string
}

func c15Exec(bin string, env []string, args ...string) c15Proc {
	return c15ExecT(30*time.Second, bin, env, args...)
}

func c15ExecT(timeout time.Duration, bin string, env []string, args ...string) c15Proc {
	cmd := exec.Command(bin, args...)
	var so, se bytes.Buffer
	cmd.Stdout, cmd.Stderr = &so, &se
	cmd.Env = append(os.Environ(), env...)
	if err := cmd.Start(); err != nil {
		return c15Proc{Status: -1, Stderr: err.Error()}
	}
	done := make(chan error, 1)
	go func() { done <- cmd.Wait() }()
	select {
	case err := <-done:
		st := 0
		if err != nil {
			if ee, ok := err.(*exec.ExitError); ok {
				st = ee.ExitCode()
			} else {
				st = -1
			}
		}
		return c15Proc{Status: st, Stdout: so.String(), Stderr: se.String()}
	case <-time.After(timeout):
		cmd.Process.Kill()
		return c15Proc{Status: -2, Stderr: "timeout"}
	}
}

func (x *c15run) cli(index int, k c15Case) {
	c := x.c
	c.Evals++
	in := k.input()
	dir := filepath.Join(c.WorkDir, fmt.Sprintf("c15-%d", index))
	os.RemoveAll(dir)
	defer os.RemoveAll(dir)
	write := func(rel, text string) string {
		p := filepath.Join(dir, rel)
		os.MkdirAll(filepath.Dir(p), 0o755)
		if err := os.WriteFile(p, []byte(text), 0o644); err != nil {
			fatalf("%v", err)
		}
		return p
	}
	target := write("target.knut", k.Target)
	trainRoot := target
	if !k.SameFile {
		for _, f := range k.Training {
			write(filepath.Join("tr", f.Path), f.Text)
		}
		root := "train.knut"
		if len(k.Training) > 0 {
			root = k.Training[0].Path
		}
		trainRoot = filepath.Join(dir, "tr", root)
	}
	// what the library code says in-process (the subprocess must agree), and the expectation about status
	kk := k
	if k.SameFile {
		kk.Training = []c15File{{"train.knut", k.Target}}
	}
	im := c15Run(kk)
	args := []string{"infer", "-t", trainRoot}
	if k.Placeholder != "Expenses:TBD" || index%3 == 0 {
		args = append(args, "-a", k.Placeholder)
	}
	p := c15Exec(c.KnutBin, nil, append(args, target)...)
	c.Tag("cli/" + strings.Fields(im.Outcome + " x")[0])
	if strings.Contains(p.Stderr, "panic:") || strings.Contains(p.Stderr, "goroutine ") || p.Status < 0 || p.Status > 1 {
		c.Monitor("cli", index, "C15_no_panic", in, false, fmt.Sprintf("exit %d stderr %s", p.Status, clipTo(p.Stderr, 600)))
		return
	}
	after, _ := os.ReadFile(target)
	c.Monitor("cli", index, "C15_target_untouched_without_inplace", in, string(after) == k.Target, "target file changed by a run without --inplace")
	if im.Outcome != "ok" {
		c.Class("cli/rejected/" + im.Why)
		c.Compare("cli", index, "exit status and stdout of a rejected run", in, fmt.Sprintf("exit %d stdout %q", p.Status, p.Stdout), "exit 1 stdout \"\"")
		// with --inplace the file stays as it was
		pi := c15Exec(c.KnutBin, nil, append(append([]string{}, append(args, "-i")...), target)...)
		after, _ := os.ReadFile(target)
		c.Monitor("cli", index, "C15_rejected_inplace_untouched", in, pi.Status == 1 && string(after) == k.Target, fmt.Sprintf("exit %d, file %q", pi.Status, clipTo(string(after), 300)))
		return
	}
	c.Compare("cli", index, "exit status", in, fmt.Sprint(p.Status), "0")
	c.Compare("cli", index, "stdout of the command vs the library code in-process", in, Hex(p.Stdout), Hex(im.Out))
	x.compareModel("cli", index, "c15infer(subprocess)", kk, im.Texts, "ok", p.Stdout)
	// `knut format` of a copy of the target
	fcopy := write("formatted.knut", k.Target)
	if st, se := runFormatCLI(c.KnutBin, fcopy); st != 0 {
		c.Monitor("cli", index, "format(target)", in, false, fmt.Sprintf("exit %d %s", st, clipTo(se, 300)))
		return
	}
	fb, _ := os.ReadFile(fcopy)
	os.Remove(fcopy)
	x.monitors("cli", index, kk, im.Eligible, string(fb), p.Stdout)
	// repeated runs under different schedules
	reps := c.N(5, 20)
	for rep := 1; rep <= reps; rep++ {
		q := c15Exec(c.KnutBin, []string{fmt.Sprintf("KNUT_VERIF_SEED=%d", rep*7919+index)}, append(args, target)...)
		if !c.Monitor("cli", index, "C15_deterministic(repeated runs, perturbed schedules)", in, q.Status == p.Status && q.Stdout == p.Stdout,
			fmt.Sprintf("run 0: exit %d %q; run %d: exit %d %q %s", p.Status, clipTo(p.Stdout, 500), rep, q.Status, clipTo(q.Stdout, 500), clipTo(q.Stderr, 200))) {
			break
		}
	}
	// --inplace: the file receives what the plain run printed, nothing else appears
	pi := c15Exec(c.KnutBin, nil, append(append([]string{}, append(args, "-i")...), target)...)
	after, err := os.ReadFile(target)
	c.Monitor("cli", index, "C15_inplace_equals_stdout", in, err == nil && pi.Status == 0 && pi.Stdout == "" && string(after) == p.Stdout,
		fmt.Sprintf("exit %d stdout %q file %q expected %q", pi.Status, clipTo(pi.Stdout, 200), clipTo(string(after), 500), clipTo(p.Stdout, 500)))
	ents, _ := os.ReadDir(dir)
	want := 2
	if k.SameFile {
		want = 1
	}
	c.Monitor("cli", index, "C15_no_leftover_files", in, len(ents) == want, fmt.Sprintf("%d entries in the directory", len(ents)))
	c.Class(fmt.Sprintf("cli/ok/ph=%s/c%s,d%s,b%s/repl%s,kept%s/files%d/same%v", c15PhKind(k.Placeholder), c15Bucket(im.NCredit), c15Bucket(im.NDebit), c15Bucket(im.NBoth),
		c15Bucket(im.Replaced), c15Bucket(im.Kept), len(im.Texts), k.SameFile))
}

// ---------------------------------------------------------------- generators

var c15Accounts = []string{"Assets:Bank", "Assets:Cash", "Expenses:Food", "Expenses:Rent", "Expenses:Travel", "Income:Salary", "Liabilities:Card",
	"assets:bank", "ASSETS:BANK", "Équité:Ärger", "équité:ärger", "A", "B:C", "Ω:ω", "Expenses:TBD2", "Expenses", "X1:Y2", "漢:字"}
var c15Words = []string{"Migros", "migros", "MIGROS", "Coop", "coop", "SBB", "sbb", "Rent", "rent", "Salary", "Ärger", "ÄRGER", "ärger", "漢字", "x", "X", "İstanbul",
	"Ωmega", "ωmega", "12", "CHF", "chf", "Assets:Bank", "assets:bank", "-", "#1", "it's", "ǅ", "ǆ", "ß", "ẞ", "K", "k"}
var c15Seps = []string{" ", " ", " ", "  ", "\t", "\u00a0", "\u3000", "\n", "\u2009", "\u0085", " \t "}
var c15Coms = []string{"CHF", "USD", "chf", "Éuro", "AAPL"}
var c15Amts = []string{"10", "10", "20", "-5", "1.50", "1000000.000001", "0", "12"}
var c15Placeholders = []string{"TBD", "Expenses:TBD2", "Équité:Offen", "X:Y:Z", "A", "$tbd", "", "not an account", "expenses:tbd", "Expenses:Food", "漢:字", "Expenses:TBD "}

type c15Gen struct {
	r     *RNG
	ph    string
	accts []string
	words []string
	coms  []string
	amts  []string
	odd   bool // odd layouts (the formatter has work to do)
	tags  map[string]bool
	// scale stream: number of words of the next description (nil: 0..4) and the separators between them (nil: c15Seps)
	nwords func() int
	seps   []string
}

func c15NewGen(r *RNG) *c15Gen {
	g := &c15Gen{r: r, ph: "Expenses:TBD", tags: map[string]bool{}}
	if r.Chance(2, 5) {
		g.ph = Pick(r, c15Placeholders)
	}
	pick := func(pool []string, lo, hi int) []string {
		n := r.Range(lo, hi)
		res := make([]string, n)
		for i := range res {
			res[i] = Pick(r, pool)
		}
		return res
	}
	g.accts = pick(c15Accounts, 2, 6)
	g.words = pick(c15Words, 1, 6)
	g.coms = pick(c15Coms, 1, 2)
	g.amts = pick(c15Amts, 1, 3)
	g.odd = r.Chance(1, 3)
	return g
}

func (g *c15Gen) sp() string {
	if !g.odd || g.r.Chance(2, 3) {
		return " "
	}
	return Pick(g.r, []string{"  ", "\t", " \t", "   ", "\r"})
}

func (g *c15Gen) eol() string {
	if g.odd && g.r.Chance(1, 5) {
		return Pick(g.r, []string{" ", "\t", "  "}) + "\n"
	}
	return "\n"
}

func (g *c15Gen) date() string {
	return fmt.Sprintf("%04d-%02d-%02d", g.r.Range(2019, 2024), g.r.Range(1, 12), g.r.Range(1, 28))
}

func (g *c15Gen) desc() string {
	n := 0
	if g.nwords != nil {
		n = g.nwords()
	} else {
		n = g.r.Range(0, 4)
	}
	seps := c15Seps
	if g.seps != nil {
		seps = g.seps
	}
	var b strings.Builder
	if g.r.Chance(1, 10) {
		b.WriteString(Pick(g.r, seps))
	}
	for i := 0; i < n; i++ {
		if i > 0 {
			b.WriteString(Pick(g.r, seps))
		}
		b.WriteString(Pick(g.r, g.words))
	}
	if g.r.Chance(1, 10) {
		b.WriteString(Pick(g.r, seps))
	}
	return b.String()
}

func (g *c15Gen) account() string { return Pick(g.r, g.accts) }

// trx writes one transaction; side: what the placeholder does in its bookings ("none", "credit", "debit", "both", "mixed").
func (g *c15Gen) trx(side string, macroProb int) string {
	var b strings.Builder
	if g.r.Chance(1, 12) {
		b.WriteString("@performance(" + Pick(g.r, g.coms) + ")" + g.eol())
	}
	b.WriteString(g.date() + g.sp() + "\"" + g.desc() + "\"" + g.eol())
	n := 1
	if g.r.Chance(1, 3) {
		n = g.r.Range(2, 4)
	}
	for i := 0; i < n; i++ {
		cr, db := g.account(), g.account()
		s := side
		if side == "mixed" {
			s = Pick(g.r, []string{"none", "credit", "debit", "both", "credit", "debit"})
		}
		switch s {
		case "credit":
			cr = g.ph
		case "debit":
			db = g.ph
		case "both":
			cr, db = g.ph, g.ph
		}
		if macroProb > 0 && g.r.Chance(1, macroProb) {
			if g.r.Bool() {
				cr = "$mac"
			} else {
				db = "$mac"
			}
			g.tags["macro"] = true
		}
		// a placeholder that is not an account would make the file unparseable: write a stand-in account instead
		if !c15IsAccount(cr) {
			cr = g.account()
		}
		if !c15IsAccount(db) {
			db = g.account()
		}
		b.WriteString(cr + g.sp() + db + g.sp() + Pick(g.r, g.amts) + g.sp() + Pick(g.r, g.coms) + g.eol())
	}
	return b.String()
}

func c15IsAccount(s string) bool {
	if s == "" {
		return false
	}
	if strings.HasPrefix(s, "$") {
		for _, r := range s[1:] {
			if !unicode.IsLetter(r) {
				return false
			}
		}
		return len(s) > 1
	}
	for _, seg := range strings.Split(s, ":") {
		if seg == "" {
			return false
		}
		for _, r := range seg {
			if !unicode.IsLetter(r) && !unicode.IsDigit(r) {
				return false
			}
		}
	}
	return true
}

func (g *c15Gen) other() string {
	switch g.r.Intn(6) {
	case 0:
		return g.date() + g.sp() + "open" + g.sp() + g.account() + g.eol()
	case 1:
		return g.date() + g.sp() + "price" + g.sp() + Pick(g.r, g.coms) + g.sp() + "1.25" + g.sp() + Pick(g.r, g.coms) + g.eol()
	case 2:
		return g.date() + g.sp() + "balance" + g.sp() + g.account() + g.sp() + "10" + g.sp() + Pick(g.r, g.coms) + g.eol()
	case 3:
		a := g.ph
		if !c15IsAccount(a) {
			a = g.account()
		}
		return g.date() + g.sp() + "open" + g.sp() + a + g.eol() // the placeholder outside a booking is not touched
	case 4:
		return Pick(g.r, []string{"# ", "* ", "// "}) + g.ph + " " + g.desc() + "\n"
	default:
		return g.date() + g.sp() + "close" + g.sp() + g.account() + g.eol()
	}
}

// journal builds a journal text of nTrx transactions with the given placeholder behaviour.
func (g *c15Gen) journal(nTrx int, side string, macroProb int, others int) string {
	var b strings.Builder
	for i := 0; i < nTrx; i++ {
		for g.r.Chance(others, 10) {
			b.WriteString(g.other())
			if g.r.Bool() {
				b.WriteString("\n")
			}
		}
		b.WriteString(g.trx(side, macroProb))
		if i < nTrx-1 || g.r.Chance(4, 5) {
			b.WriteString("\n")
		} else {
			return b.String() // a transaction ending the file without a blank line
		}
	}
	for g.r.Chance(others, 10) {
		b.WriteString(g.other())
	}
	return b.String()
}

// training builds the training file tree.
func (g *c15Gen) training() ([]c15File, string) {
	r := g.r
	kind := "rich"
	var texts []string
	switch r.Intn(10) {
	case 0:
		kind = "empty"
		texts = []string{""}
	case 1:
		kind = "no-transactions"
		var b strings.Builder
		for i := r.Range(0, 4); i > 0; i-- {
			b.WriteString(g.other())
		}
		texts = []string{b.String()}
	case 2:
		kind = "one-pair" // a single account pair: the other account is often the only candidate
		save := g.accts
		g.accts = g.accts[:2]
		texts = []string{g.journal(r.Range(1, 3), "none", 0, 1)}
		g.accts = save
	case 3:
		kind = "ties" // the same transaction with different accounts: equal scores; sometimes every account in its own file
		d, amt, com, cr := g.desc(), Pick(r, g.amts), Pick(r, g.coms), g.account()
		var blocks []string
		for _, a := range g.accts {
			var b strings.Builder
			b.WriteString(g.date() + " \"" + d + "\"\n" + cr + " " + a + " " + amt + " " + com + "\n\n")
			if r.Chance(1, 3) {
				b.WriteString(g.date() + " \"" + d + "\"\n" + a + " " + cr + " " + amt + " " + com + "\n\n")
			}
			blocks = append(blocks, b.String())
		}
		if r.Bool() {
			kind = "ties-in-included-files"
			texts = append([]string{""}, blocks...)
		} else {
			texts = []string{strings.Join(blocks, "")}
		}
	default:
		nf := 1
		if r.Chance(1, 3) {
			nf = r.Range(2, 4)
			kind = "includes"
		}
		for i := 0; i < nf; i++ {
			texts = append(texts, g.journal(r.Range(0, 6), Pick(r, []string{"none", "none", "mixed"}), 8, 2))
		}
	}
	files := make([]c15File, len(texts))
	for i := range texts {
		p := "train.knut"
		if i > 0 {
			p = fmt.Sprintf("inc%d.knut", i)
			if r.Chance(1, 3) {
				p = "sub/" + p
			}
		}
		files[i] = c15File{p, texts[i]}
	}
	// include edges: every later file is included by an earlier one; sometimes a second time
	for i := 1; i < len(files); i++ {
		parents := []int{r.Intn(i)}
		if r.Chance(1, 5) {
			parents = append(parents, r.Intn(i))
			kind = "includes-twice"
		}
		for _, pi := range parents {
			rel, _ := filepath.Rel(filepath.Dir(files[pi].Path), files[i].Path)
			inc := "include \"" + rel + "\"\n"
			if r.Bool() {
				files[pi].Text = inc + "\n" + files[pi].Text
			} else {
				if files[pi].Text != "" && !strings.HasSuffix(files[pi].Text, "\n\n") {
					files[pi].Text += "\n"
				}
				files[pi].Text += inc
			}
		}
	}
	return files, kind
}

func c15Generate(r *RNG) c15Case {
	g := c15NewGen(r)
	tr, kind := g.training()
	side := Pick(r, []string{"none", "credit", "debit", "both", "mixed", "mixed", "mixed", "debit"})
	k := c15Case{Placeholder: g.ph, Training: tr}
	k.Target = g.journal(r.Range(0, 5), side, 10, 3)
	k.Kinds = []string{"train:" + kind, "target:" + side}
	if g.odd {
		k.Kinds = append(k.Kinds, "odd-layout")
	}
	return k
}

// ---------------------------------------------------------------- scale: sizes far from the everyday ones
//
// The score of a candidate is a function of (total, count, one count per token of the booking): what it does for three
// words and six training bookings says little about three hundred words or thousands of bookings (sums or products of
// hundreds of small ratios, counts in the thousands, dozens of candidates, token tables with thousands of keys).
// The stream varies, each on a roughly logarithmic scale and independently: the number of words of the target's
// descriptions (1 .. 2500), how many of them no training transaction has (none / some / all), whether they are distinct
// or repeat (the token set is a set: 2000 words can be 3 tokens), the size of the training journal (0 .. 200 transactions,
// thorough: 2000), the length of the training descriptions (a few words .. hundreds), the vocabulary (3 .. 3000 words,
// mixed case so that several spellings fold into one token), the number of accounts (2 .. 40, unevenly frequent) and the
// side of the placeholder.

var c15ScaleSeps = []string{" ", " ", " ", " ", " ", "  ", "\t", "\n", "\u00a0", "\u3000"}

func c15ScaleWord(r *RNG, prefix string, i int) string {
	w := fmt.Sprintf("%s%d", prefix, i)
	switch r.Intn(12) {
	case 0:
		return strings.ToUpper(w)
	case 1:
		return "Ä" + w
	case 2:
		return "ä" + w
	}
	return w
}

// c15LogPick draws from a ladder of sizes, and then somewhere between the step below and the step drawn.
func c15LogPick(r *RNG, ladder []int) int {
	j := r.Intn(len(ladder))
	if j == 0 || r.Bool() {
		return ladder[j]
	}
	return r.Range(ladder[j-1], ladder[j])
}

type c15ScaleShape struct {
	NAcc, Vocab, NTrain, TrainWords, TargetWords, Unseen int
	Distinct                                             bool
}

func (sh c15ScaleShape) kind() string {
	b := func(n int) string {
		switch {
		case n <= 8:
			return c15Bucket(n)
		case n <= 30:
			return "9-30"
		case n <= 100:
			return "31-100"
		case n <= 320:
			return "101-320"
		case n <= 1000:
			return "321-1000"
		}
		return "1001+"
	}
	return fmt.Sprintf("scale:acc%s,train%s,tw%s,words%s,unseen%d,distinct%v", b(sh.NAcc), b(sh.NTrain), b(sh.TrainWords), b(sh.TargetWords), sh.Unseen, sh.Distinct)
}

func c15GenerateScale(r *RNG, thorough bool) (c15Case, c15ScaleShape) {
	g := c15NewGen(r)
	if !c15IsAccount(g.ph) || strings.HasPrefix(g.ph, "$") || r.Chance(1, 2) {
		g.ph = "Expenses:TBD"
	}
	g.odd = r.Chance(1, 6)
	g.seps = c15ScaleSeps
	var sh c15ScaleShape
	sh.NAcc = c15LogPick(r, []int{2, 3, 5, 12, 40})
	sh.Vocab = c15LogPick(r, []int{3, 30, 300, 3000})
	trainLadder := []int{0, 1, 2, 6, 20, 60, 200}
	if thorough {
		trainLadder = append(trainLadder, 600)
	}
	sh.NTrain = c15LogPick(r, trainLadder)
	sh.TrainWords = c15LogPick(r, []int{2, 5, 5, 30, 200})
	sh.TargetWords = c15LogPick(r, []int{1, 8, 40, 110, 300, 700, 1200, 2500})
	sh.Unseen = Pick(r, []int{0, 10, 50, 100, 100})
	sh.Distinct = r.Chance(3, 4)
	// keep the training journal within what the model's association lists handle in a fraction of a second
	budget := 2500
	if thorough {
		budget = 8000
	}
	for sh.NTrain*(sh.TrainWords/2+6) > budget && sh.TrainWords > 2 {
		sh.TrainWords /= 2
	}
	// accounts: some everyday ones, the rest generated; the earlier ones more frequent
	var names []string
	for i := 0; i < sh.NAcc; i++ {
		if i < 4 && r.Bool() {
			names = append(names, Pick(r, c15Accounts))
		} else {
			names = append(names, fmt.Sprintf("%s:K%d", Pick(r, []string{"Expenses", "Assets", "Income", "Équité"}), i))
		}
	}
	g.accts = nil
	for i, a := range names {
		for w := 1 + (len(names)-i)*(len(names)-i)/len(names); w > 0; w-- {
			g.accts = append(g.accts, a)
		}
	}
	seen := make([]string, sh.Vocab)
	for i := range seen {
		seen[i] = c15ScaleWord(r, "w", i)
	}
	// training
	g.words = seen
	g.nwords = func() int {
		if r.Chance(1, 20) {
			return r.Range(0, 4*sh.TrainWords)
		}
		return r.Range(0, sh.TrainWords)
	}
	var tb strings.Builder
	side := Pick(r, []string{"none", "none", "none", "mixed"})
	for i := 0; i < sh.NTrain; i++ {
		tb.WriteString(g.trx(side, 30))
		tb.WriteString("\n")
		if r.Chance(1, 15) {
			nw := g.nwords
			g.nwords, g.seps = func() int { return r.Range(0, 3) }, []string{" "} // (a comment line ends at the first line break)
			tb.WriteString(g.other())
			g.nwords, g.seps = nw, c15ScaleSeps
		}
	}
	// target: words of the training vocabulary and words no training transaction has
	nu := sh.TargetWords
	if !sh.Distinct {
		nu = r.Range(1, 4)
	}
	pool := make([]string, 0, 2*nu)
	for i := 0; i < 2*nu; i++ {
		if r.Intn(100) < sh.Unseen {
			pool = append(pool, c15ScaleWord(r, "u", i))
		} else if sh.Distinct {
			pool = append(pool, seen[(i*7+r.Intn(7))%len(seen)])
		} else {
			pool = append(pool, Pick(r, seen))
		}
	}
	var db strings.Builder
	ntgt := 1
	if r.Chance(1, 3) {
		ntgt = r.Range(2, 3)
	}
	for i := 0; i < ntgt; i++ {
		n := sh.TargetWords
		if i > 0 {
			n = r.Range(0, sh.TargetWords)
		}
		g.nwords = func() int { return n }
		if sh.Distinct { // a (mostly) duplicate-free description: a walk through the pool
			perm := append([]string{}, pool...)
			for j := len(perm) - 1; j > 0; j-- {
				k := r.Intn(j + 1)
				perm[j], perm[k] = perm[k], perm[j]
			}
			g.nwords = func() int { return 0 }
			var d strings.Builder
			for j := 0; j < n; j++ {
				if j > 0 {
					d.WriteString(Pick(r, g.seps))
				}
				d.WriteString(perm[j%len(perm)])
			}
			db.WriteString(c15ScaleTrx(g, d.String(), Pick(r, []string{"credit", "debit", "both", "mixed", "debit"})))
		} else {
			g.words = pool
			db.WriteString(g.trx(Pick(r, []string{"credit", "debit", "both", "mixed", "debit"}), 30))
		}
		db.WriteString("\n")
	}
	k := c15Case{Placeholder: g.ph, Training: []c15File{{"train.knut", tb.String()}}, Target: db.String()}
	k.Kinds = []string{sh.kind()}
	return k, sh
}

// c15ScaleTrx is c15Gen.trx with a given description.
func c15ScaleTrx(g *c15Gen, desc string, side string) string {
	t := g.trx(side, 30) // description empty (nwords = 0, perhaps one separator)
	i := strings.Index(t, "\"")
	j := i + 1 + strings.Index(t[i+1:], "\"")
	return t[:i+1] + desc + t[j:]
}

// ---------------------------------------------------------------- bigfile: one training file with thousands of directives
//
// `knut infer` trains on what the recursive parser hands over file by file while it is still parsing: whatever that
// hand-over does with a file depends on the SIZE of the file (batching, buffers that are re-used, chunked reads, limits)
// and on how the parser goroutine and the training goroutine interleave - and none of it shows on journals of a few
// dozen directives. The stream builds training journals in which ONE file has 1 000 .. 65 000 directives (around the
// powers of two, +-1, and in between), run through the real command under GOMAXPROCS 1 / 2 / 16 and perturbed schedules.
// The journals are made of near-ties: per description two to four accounts whose numbers of training bookings differ by
// 0 .. 5, so that a handful of transactions lost, duplicated or counted for another file changes the chosen account; the
// transactions are laid out shuffled, account by account, topic by topic, leaders first / last or strictly alternating.
// Every case exists in two renderings of the same directives in the same order: the big file, and the big file cut into
// included files of 25 .. 150 directives each. The property says the choice is a function of the training transactions.

var c15BigRungs = []int{8192, 4096, 0, 1024, 16384, 0, 65536, 2048, 32768, 0} // 0: log-uniform in 4000 .. 30000

type c15BigShape struct {
	N       int    // directives of the big training file
	Rung    string // "8192", "8192+1", "8192-17", "between"
	Layout  string // order of the transactions in the file
	Topics  int    // descriptions with near-tied accounts
	Where   string // the big file is the -t file itself ("root"), or reached through an include ("include", "include+siblings")
	Chunk   int    // directives per included file in the split rendering
	Noisy   bool   // amounts, spellings, other accounts vary (the near-ties are not exactly controlled)
	OtherPc int    // percent of directives that are not transactions
	Exact   int    // topics whose two best accounts have exactly equal counts
}

func (sh c15BigShape) asMap() map[string]any {
	return map[string]any{"directives_of_the_big_file": sh.N, "rung": sh.Rung, "layout": sh.Layout, "near_tie_topics": sh.Topics, "where": sh.Where,
		"split_chunk": sh.Chunk, "noisy": sh.Noisy, "other_directives_percent": sh.OtherPc, "exact_tie_topics": sh.Exact}
}

func (sh c15BigShape) sizeBucket() string {
	switch {
	case sh.N < 1500:
		return "~1024"
	case sh.N < 3000:
		return "~2048"
	case sh.N < 4096:
		return "3000-4095"
	case sh.N == 4096:
		return "4096"
	case sh.N <= 4100:
		return "4097-4100"
	case sh.N < 8192:
		return "4101-8191"
	case sh.N == 8192:
		return "8192"
	case sh.N < 16384:
		return "8193-16383"
	case sh.N < 40000:
		return "16384-39999"
	}
	return "40000+"
}

type c15BigCase struct {
	Shape       c15BigShape
	Placeholder string
	One, Split  []c15File // the two renderings of the training journal, root first
	Target      string
	BigPath     string
}

func c15GenerateBig(r *RNG, index int) c15BigCase {
	var sh c15BigShape
	if rung := c15BigRungs[index%len(c15BigRungs)]; rung == 0 {
		lo, hi := math.Log(4000), math.Log(30000)
		sh.N = int(math.Exp(lo + (hi-lo)*float64(r.Intn(10001))/10000))
		sh.Rung = "between"
	} else {
		small := r.Range(2, 300)
		d := Pick(r, []int{0, 1, -1, 1, -1, small, -small})
		sh.N = rung + d
		sh.Rung = fmt.Sprint(rung)
		if d != 0 {
			sh.Rung = fmt.Sprintf("%d%+d", rung, d)
		}
	}
	sh.Layout = Pick(r, []string{"shuffled", "shuffled", "shuffled", "by-account", "by-topic", "leaders-first", "leaders-last", "alternating"})
	sh.Topics = r.Range(3, 8)
	sh.Where = Pick(r, []string{"root", "root", "include", "include+siblings"})
	sh.Noisy = r.Chance(1, 4)
	sh.OtherPc = Pick(r, []int{0, 0, 2, 10})
	sh.Chunk = r.Range(25, 150)
	if m := sh.N/1500 + 1; sh.Chunk < m {
		sh.Chunk = m
	}
	ph := "Expenses:TBD"
	if r.Chance(1, 4) {
		ph = Pick(r, []string{"TBD", "Expenses:TBD2", "X:Y:Z", "Équité:Offen"})
	}

	// ---- the topics: description, other account, amount, candidates with their numbers of training bookings
	type topic struct {
		words  []string
		other  string
		amt    string
		credit bool // the candidate stands on the credit side
		accts  []string
		counts []int
	}
	nOthers := sh.N * sh.OtherPc / 100
	nFiller := r.Range(0, sh.N/10)
	m := sh.N - nOthers - nFiller
	weights := make([]int, sh.Topics)
	wsum := 0
	for j := range weights {
		weights[j] = r.Range(1, 4)
		wsum += weights[j]
	}
	topics := make([]topic, sh.Topics)
	common := Pick(r, []string{"purchase", "card", "Zahlung"})
	left := m
	for j := range topics {
		t := &topics[j]
		t.words = []string{fmt.Sprintf("Shop%d", j)}
		if r.Bool() {
			t.words = append(t.words, common)
		}
		if r.Chance(1, 3) {
			t.words = append(t.words, fmt.Sprintf("ref%d", j))
		}
		t.other, t.amt, t.credit = "Assets:Bank", Pick(r, []string{"10", "25.50", "100"}), r.Chance(1, 4)
		if sh.Noisy && r.Chance(1, 3) {
			t.other = "Liabilities:Card"
		}
		mj := m * weights[j] / wsum
		if j == len(topics)-1 {
			mj = left
		}
		left -= mj
		nc := r.Range(2, 4)
		n0 := mj / nc
		ds, dsum := make([]int, nc), 0
		for c := 1; c < nc; c++ {
			ds[c] = Pick(r, []int{0, 1, 1, 2, 3, 5, n0 / 3})
			if ds[c] > n0/2 {
				ds[c] = n0 / 2
			}
			dsum += ds[c]
		}
		if ds[1] == 0 {
			sh.Exact++
		}
		n := (mj + dsum) / nc
		used := 0
		for c := 0; c < nc; c++ {
			a := fmt.Sprintf("Expenses:%s%d", Pick(r, []string{"Food", "Car", "Home", "K", "Ärzte"}), j*10+r.Intn(10))
			for _, b := range t.accts {
				if a == b {
					a += "x"
				}
			}
			if sh.Noisy && j > 0 && r.Chance(1, 6) {
				a = topics[j-1].accts[0] // an account two descriptions share
			}
			t.accts = append(t.accts, a)
			cnt := n - ds[c]
			if cnt < 0 {
				cnt = 0
			}
			t.counts = append(t.counts, cnt)
			used += cnt
		}
		nFiller += mj - used
	}
	// the leader is not always the first name in sort order: permute the candidates of a topic
	for j := range topics {
		t := &topics[j]
		for c := len(t.accts) - 1; c > 0; c-- {
			k := r.Intn(c + 1)
			t.accts[c], t.accts[k] = t.accts[k], t.accts[c]
		}
	}

	// ---- the order of the transactions (topic, candidate; topic -1: filler)
	type ent struct{ t, c int }
	shuffle := func(l []ent) {
		for i := len(l) - 1; i > 0; i-- {
			k := r.Intn(i + 1)
			l[i], l[k] = l[k], l[i]
		}
	}
	block := func(j, c int) []ent {
		l := make([]ent, topics[j].counts[c])
		for i := range l {
			l[i] = ent{j, c}
		}
		return l
	}
	filler := make([]ent, nFiller)
	for i := range filler {
		filler[i] = ent{-1, r.Intn(5)}
	}
	var ents []ent
	switch sh.Layout {
	case "shuffled":
		for j := range topics {
			for c := range topics[j].accts {
				ents = append(ents, block(j, c)...)
			}
		}
		ents = append(ents, filler...)
		filler = nil
		shuffle(ents)
	case "by-account":
		var groups []ent
		for j := range topics {
			for c := range topics[j].accts {
				groups = append(groups, ent{j, c})
			}
		}
		shuffle(groups)
		for _, g := range groups {
			ents = append(ents, block(g.t, g.c)...)
		}
	case "by-topic":
		for _, j := range c15Perm(r, len(topics)) {
			var l []ent
			for c := range topics[j].accts {
				l = append(l, block(j, c)...)
			}
			shuffle(l)
			ents = append(ents, l...)
		}
	case "leaders-first", "leaders-last":
		var lead, rest []ent
		for j := range topics {
			best := 0
			for c := range topics[j].accts {
				if topics[j].counts[c] > topics[j].counts[best] {
					best = c
				}
			}
			for c := range topics[j].accts {
				if c == best {
					lead = append(lead, block(j, c)...)
				} else {
					rest = append(rest, block(j, c)...)
				}
			}
		}
		shuffle(lead)
		shuffle(rest)
		if sh.Layout == "leaders-first" {
			ents = append(lead, rest...)
		} else {
			ents = append(rest, lead...)
		}
	default: // alternating: the candidates of a topic take turns
		for _, j := range c15Perm(r, len(topics)) {
			leftc := append([]int{}, topics[j].counts...)
			for more := true; more; {
				more = false
				for c := range leftc {
					if leftc[c] > 0 {
						leftc[c]--
						ents = append(ents, ent{j, c})
						more = true
					}
				}
			}
		}
	}
	if len(filler) > 0 { // in one or two blocks somewhere
		cut := r.Intn(len(filler) + 1)
		p := r.Intn(len(ents) + 1)
		ents = append(append(append(append([]ent{}, filler[:cut]...), ents[:p]...), filler[cut:]...), ents[p:]...)
	}

	// ---- the directives of the big file
	date := func() string {
		return fmt.Sprintf("%04d-%02d-%02d", r.Range(2019, 2023), r.Range(1, 12), r.Range(1, 28))
	}
	fillers := [][3]string{{"Salary", "Income:Salary", "Assets:Bank"}, {"Rent", "Assets:Bank", "Expenses:Rent"}, {"Transfer", "Assets:Bank", "Assets:Savings"},
		{"Insurance premium", "Assets:Bank", "Expenses:Insurance"}, {"Tax", "Assets:Bank", "Expenses:Tax"}}
	trxText := func(e ent) string {
		if e.t < 0 {
			f := fillers[e.c]
			return date() + " \"" + f[0] + "\"\n" + f[1] + " " + f[2] + " " + Pick(r, []string{"1000", "50"}) + " CHF\n"
		}
		t := topics[e.t]
		words, amt := t.words, t.amt
		if sh.Noisy {
			words = append([]string{}, words...)
			if r.Chance(1, 4) {
				words[0] = strings.ToUpper(words[0])
			}
			if r.Chance(1, 5) {
				words = append(words, Pick(r, []string{"Zürich", "Bern", "online"}))
			}
			amt = Pick(r, []string{"10", "25.50", "100", "7"})
		}
		cr, db := t.other, t.accts[e.c]
		if t.credit {
			cr, db = db, cr
		}
		s := date() + " \"" + strings.Join(words, " ") + "\"\n" + cr + " " + db + " " + amt + " CHF\n"
		if r.Chance(1, 40) { // a booking training skips: a macro account, or the placeholder
			if r.Bool() {
				s += "$mac " + db + " 1 CHF\n"
			} else {
				s += cr + " " + ph + " 3 CHF\n"
			}
		}
		return s
	}
	otherText := func() string {
		switch r.Intn(4) {
		case 0:
			return date() + " open Assets:Bank\n"
		case 1:
			return date() + " price USD 0.91 CHF\n"
		case 2:
			return date() + " balance Assets:Bank 10 CHF\n"
		}
		return date() + " open " + ph + "\n"
	}
	isOther := make([]bool, sh.N)
	for placed := 0; placed < nOthers; {
		if p := r.Intn(sh.N); !isOther[p] {
			isOther[p] = true
			placed++
		}
	}
	dirs := make([]string, 0, sh.N)
	for i, e := 0, 0; i < sh.N; i++ {
		d := ""
		if isOther[i] || e >= len(ents) {
			d = otherText()
		} else {
			d = trxText(ents[e])
			e++
		}
		if r.Chance(1, 60) {
			d = "# " + Pick(r, []string{"imported", "checked", ph}) + "\n" + d
		}
		dirs = append(dirs, d)
	}

	// ---- the two renderings
	k := c15BigCase{Shape: sh, Placeholder: ph}
	head, tail := "", ""
	var siblings []c15File
	if sh.Where != "root" {
		head = date() + " open Assets:Bank\n\n" + trxText(ent{-1, 0}) + "\n"
		if r.Bool() {
			tail = "\n" + trxText(ent{-1, 1})
		}
	}
	if sh.Where == "include+siblings" {
		for i := r.Range(1, 3); i > 0; i-- {
			var b strings.Builder
			for n := r.Range(0, 6); n > 0; n-- {
				b.WriteString(trxText(ent{-1, r.Intn(5)}) + "\n")
			}
			siblings = append(siblings, c15File{fmt.Sprintf("s%d.knut", i), b.String()})
			if r.Bool() {
				head += fmt.Sprintf("include \"s%d.knut\"\n\n", i)
			} else {
				tail += fmt.Sprintf("\ninclude \"s%d.knut\"\n", i)
			}
		}
	}
	big := strings.Join(dirs, "\n")
	var parts []c15File
	var incs strings.Builder
	for a := 0; a < len(dirs); a += sh.Chunk {
		b := a + sh.Chunk
		if b > len(dirs) {
			b = len(dirs)
		}
		p := fmt.Sprintf("parts/p%05d.knut", len(parts)+1)
		parts = append(parts, c15File{p, strings.Join(dirs[a:b], "\n")})
		incs.WriteString("include \"" + p + "\"\n")
	}
	if sh.Where == "root" {
		k.BigPath = "train.knut"
		k.One = []c15File{{"train.knut", big}}
		k.Split = append([]c15File{{"train.knut", incs.String()}}, parts...)
	} else {
		k.BigPath = "data/big.knut"
		k.One = append([]c15File{{"train.knut", head + "include \"data/big.knut\"\n" + tail}, {"data/big.knut", big}}, siblings...)
		k.Split = append(append([]c15File{{"train.knut", head + incs.String() + tail}}, parts...), siblings...)
	}

	// ---- the target: a placeholder per topic, some of them twice, between other directives
	var tb strings.Builder
	if r.Bool() {
		tb.WriteString("# new bookings, to be classified\n\n")
	}
	for _, j := range c15Perm(r, len(topics)) {
		t := topics[j]
		for rep := 0; rep < 2; rep++ {
			if rep == 1 && !r.Chance(1, 4) {
				break
			}
			words := append([]string{}, t.words...)
			if r.Chance(1, 5) {
				words = append(words, "neu")
			}
			cr, db := t.other, ph
			if t.credit != (rep == 1) {
				cr, db = db, cr
			}
			amt := Pick(r, []string{"12.35", "71.20", t.amt})
			tb.WriteString(date() + " \"" + strings.Join(words, " ") + "\"\n" + cr + " " + db + " " + amt + " CHF\n\n")
		}
		if r.Chance(1, 4) {
			tb.WriteString(trxText(ent{-1, r.Intn(5)}) + "\n")
		}
		if r.Chance(1, 8) {
			tb.WriteString(otherText() + "\n")
		}
	}
	k.Target = tb.String()
	return k
}

func c15Perm(r *RNG, n int) []int {
	p := make([]int, n)
	for i := range p {
		p[i] = i
	}
	for i := n - 1; i > 0; i-- {
		k := r.Intn(i + 1)
		p[i], p[k] = p[k], p[i]
	}
	return p
}

// big runs one case of the bigfile stream.
func (x *c15run) big(index int, k c15BigCase) {
	c := x.c
	c.Evals++
	sh := k.Shape
	in := map[string]any{"regenerate": "the case is a function of (seed, stream, index); a replay builds it again", "shape": sh.asMap(), "placeholder": k.Placeholder,
		"target": k.Target, "big_file": k.BigPath, "files_of_the_split_rendering": len(k.Split)}
	for _, f := range k.One {
		if f.Path == k.BigPath {
			in["big_file_bytes"] = len(f.Text)
			in["big_file_begins"] = clipTo(f.Text, 400)
		}
	}
	// the library code in-process, on both renderings (the parser alone reads a file; nothing is handed over between goroutines)
	one := c15Run(c15Case{Placeholder: k.Placeholder, Training: k.One, Target: k.Target, Light: true})
	split := c15Run(c15Case{Placeholder: k.Placeholder, Training: k.Split, Target: k.Target, Light: true})
	c.Class(fmt.Sprintf("bigfile/%s/%s/%s/noisy%v/others%d/%s", sh.sizeBucket(), sh.Layout, sh.Where, sh.Noisy, sh.OtherPc, one.Outcome))
	c.Tag("bigfile/size " + sh.sizeBucket())
	if one.Outcome != "ok" || split.Outcome != "ok" {
		detail := fmt.Sprintf("one file: %s %s; split: %s %s", one.Outcome, one.Why, split.Outcome, split.Why)
		if strings.HasPrefix(one.Outcome, "panic") || strings.HasPrefix(split.Outcome, "panic") {
			c.Monitor("bigfile", index, "C15_no_panic", in, false, detail)
		} else { // the generator wrote something the parser rejects: nothing to observe
			c.Tag("bigfile/generated-journal-rejected")
			c.Notes = append(c.Notes, fmt.Sprintf("bigfile %d: generated journal not accepted (%s)", index, detail))
		}
		return
	}
	nd := 0
	for _, f := range one.Files {
		if len(f.Directives) > nd {
			nd = len(f.Directives)
		}
	}
	if nd != sh.N {
		c.Tag("bigfile/size-not-as-announced")
		c.Notes = append(c.Notes, fmt.Sprintf("bigfile %d: the big file has %d directives, announced %d", index, nd, sh.N))
	}
	if index < 2 {
		c.Sample(map[string]any{"stream": "bigfile", "input": in, "output": clipTo(one.Out, 500)})
	}
	if one.Replaced > 0 {
		c.Tag("replaced")
	}
	c.Monitor("bigfile", index, "C15_deterministic(library code: the same training directives in one file / cut into included files)", in, one.Out == split.Out,
		"one file "+clipTo(fmt.Sprintf("%q", one.Out), 600)+" split "+clipTo(fmt.Sprintf("%q", split.Out), 600))
	// the model reads the split rendering (its parser is quadratic in the size of a file; the training transactions are the same)
	x.compareModelIn("bigfile", index, "c15infer(model on the split rendering) vs library code on the big file", in, k.Placeholder, k.Target, nil, split.Texts, "ok", one.Out)
	fres := implParse(k.Target, c07Path)
	fmtText, foc := implFormat(fres)
	if foc != "ok" {
		c.Monitor("bigfile", index, "format(target)", in, false, foc)
		return
	}

	// ---- the command
	dir := filepath.Join(c.WorkDir, fmt.Sprintf("c15big-%d", index))
	os.RemoveAll(dir)
	defer os.RemoveAll(dir)
	write := func(rel, text string) string {
		p := filepath.Join(dir, rel)
		os.MkdirAll(filepath.Dir(p), 0o755)
		if err := os.WriteFile(p, []byte(text), 0o644); err != nil {
			fatalf("%v", err)
		}
		return p
	}
	target := write("target.knut", k.Target)
	for _, f := range k.One {
		write(filepath.Join("one", f.Path), f.Text)
	}
	for _, f := range k.Split {
		write(filepath.Join("split", f.Path), f.Text)
	}
	run := func(rendering string, env []string) (c15Proc, bool) {
		args := []string{"infer", "-t", filepath.Join(dir, rendering, "train.knut")}
		if k.Placeholder != "Expenses:TBD" || index%3 == 0 {
			args = append(args, "-a", k.Placeholder)
		}
		args = append(args, target)
		p := c15ExecT(120*time.Second, c.KnutBin, env, args...)
		if p.Status == -2 { // a loaded machine: once more before anything is concluded
			c.Tag("bigfile/timeout-retried")
			p = c15ExecT(120*time.Second, c.KnutBin, env, args...)
		}
		ok := !(strings.Contains(p.Stderr, "panic:") || strings.Contains(p.Stderr, "goroutine ") || p.Status != 0)
		c.Monitor("bigfile", index, "C15_no_panic(the command accepts what the library code accepts)", in, ok, fmt.Sprintf("%s rendering, env %v: exit %d stderr %s", rendering, env, p.Status, clipTo(p.Stderr, 600)))
		return p, ok
	}
	first, ok := run("one", nil)
	if !ok {
		return
	}
	c.Compare("bigfile", index, "stdout of the command (one big training file) vs the library code in-process", in, Hex(first.Stdout), Hex(one.Out))
	x.monitorsIn("bigfile", index, in, k.Placeholder, one.Eligible, fmtText, first.Stdout)
	// the same training transactions, spread over many small files: the same choice
	for rep, env := range [][]string{{"GOMAXPROCS=1"}, {fmt.Sprintf("KNUT_VERIF_SEED=%d", 104729+index)}} {
		if rep == 1 && !c.Thorough() && index%2 == 1 {
			break
		}
		q, ok := run("split", env)
		if !ok {
			return
		}
		if !c.Monitor("bigfile", index, "C15_deterministic(the same training directives in one file / cut into included files: same output of the command)", in, q.Stdout == first.Stdout,
			fmt.Sprintf("training file with %d directives: %s; the same directives in %d files of at most %d, env %v: %s", sh.N, clipTo(fmt.Sprintf("%q", first.Stdout), 700), len(k.Split)-1, sh.Chunk, env, clipTo(fmt.Sprintf("%q", q.Stdout), 700))) {
			c.Tag("bigfile/one-file-differs-from-split")
			break
		}
	}
	// the big file again, under other schedules
	gomax := []string{"1", "2", "16", "1", "4", "", "2", "16", "1", "3", "8", ""}
	for rep := 0; rep < c.N(5, 12); rep++ {
		var env []string
		if g := gomax[rep%len(gomax)]; g != "" {
			env = append(env, "GOMAXPROCS="+g)
		}
		if rep%2 == 1 || rep >= 6 {
			env = append(env, fmt.Sprintf("KNUT_VERIF_SEED=%d", rep*7919+index+1))
		}
		q, ok := run("one", env)
		if !ok {
			return
		}
		if !c.Monitor("bigfile", index, "C15_deterministic(one big training file: repeated runs under GOMAXPROCS 1/2/16 and perturbed schedules)", in, q.Stdout == first.Stdout,
			fmt.Sprintf("run 0 (no env): %s; run %d, env %v: %s", clipTo(fmt.Sprintf("%q", first.Stdout), 700), rep+1, env, clipTo(fmt.Sprintf("%q", q.Stdout), 700))) {
			c.Tag("bigfile/run-differs-from-run")
			break
		}
	}
	after, _ := os.ReadFile(target)
	c.Monitor("bigfile", index, "C15_target_untouched_without_inplace", in, string(after) == k.Target, "target file changed by a run without --inplace")
}

func c15Corpus() []c15Case {
	trainGolden := "2022-01-01 \"Migros food\"\nAssets:Bank Expenses:Food 10 CHF\n\n2022-01-02 \"SBB ticket\"\nAssets:Bank Expenses:Travel 20 CHF\n\n2022-01-03 \"Salary\"\nIncome:Salary Assets:Bank 1000 CHF\n"
	tf := func(s string) []c15File { return []c15File{{"train.knut", s}} }
	return []c15Case{
		{Placeholder: "Expenses:TBD", Training: tf(trainGolden), Target: "2022-02-01 \"Migros\"\nAssets:Bank Expenses:TBD 12 CHF\n", Kinds: []string{"corpus:golden"}},
		{Placeholder: "Expenses:TBD", Training: tf(""), Target: "2022-02-01 \"Migros\"\nAssets:Bank Expenses:TBD 12 CHF\n", Kinds: []string{"corpus:empty-training"}},
		{Placeholder: "Expenses:TBD", Training: tf("2022-01-01 open Assets:Bank\n"), Target: "2022-02-01 \"Migros\"\nExpenses:TBD Assets:Bank 12 CHF\n", Kinds: []string{"corpus:no-transactions"}},
		{Placeholder: "Expenses:TBD", Training: tf(trainGolden), Target: "2022-02-01 \"x\"\nExpenses:TBD   Expenses:TBD 12 CHF\nExpenses:TBD Assets:Bank 1 CHF\n\n# Expenses:TBD\n2022-02-02 open Expenses:TBD\n", Kinds: []string{"corpus:both-sides"}},
		{Placeholder: "Expenses:TBD", Training: tf("2022-01-01 \"a\"\nA B 1 CHF\n"), Target: "2022-02-01 \"a\"\nA Expenses:TBD 1 CHF\nB Expenses:TBD 1 CHF\nExpenses:TBD Expenses:TBD 1 CHF\n", Kinds: []string{"corpus:two-accounts"}},
		{Placeholder: "Expenses:TBD", Training: tf("2022-01-01 \"t\"\nA B 1 CHF\n\n2022-01-01 \"t\"\nA C 1 CHF\n\n2022-01-01 \"t\"\nA D 1 CHF\n"), Target: "2022-02-01 \"t\"\nA Expenses:TBD 1 CHF\n", Kinds: []string{"corpus:tie"}},
		{Placeholder: "$tbd", Training: tf(trainGolden), Target: "2022-02-01 \"Migros\"\nAssets:Bank $tbd 12 CHF\n", Kinds: []string{"corpus:macro-placeholder"}},
		{Placeholder: "Expenses:TBD", Training: tf("2022-01-01 \"m\"\n$x Expenses:Food 1 CHF\nExpenses:TBD Expenses:Rent 1 CHF\n"), Target: "2022-02-01 \"m\"\nAssets:Bank Expenses:TBD 12 CHF\n", Kinds: []string{"corpus:nothing-learnable"}},
	}
}

// c15Variants: small edits of a case on which model and code differ.
func c15Variants(r *RNG, k c15Case, n int) []c15Case {
	var res []c15Case
	for i := 0; i < n; i++ {
		v := c15Case{Placeholder: k.Placeholder, Target: k.Target, Kinds: []string{"directed"}}
		v.Training = append([]c15File{}, k.Training...)
		switch r.Intn(5) {
		case 0: // drop a line of the root training file
			if len(v.Training) > 0 {
				ls := strings.Split(v.Training[0].Text, "\n\n")
				j := r.Intn(len(ls))
				v.Training[0].Text = strings.Join(append(append([]string{}, ls[:j]...), ls[j+1:]...), "\n\n")
			}
		case 1: // drop a transaction of the target
			ls := strings.Split(v.Target, "\n\n")
			j := r.Intn(len(ls))
			v.Target = strings.Join(append(append([]string{}, ls[:j]...), ls[j+1:]...), "\n\n")
		case 2:
			v.Placeholder = Pick(r, append(c15Placeholders, "Expenses:TBD"))
		case 3:
			v.Target = synMutate(r, v.Target)
		default:
			if len(v.Training) > 0 {
				j := r.Intn(len(v.Training))
				v.Training[j].Text = synMutate(r, v.Training[j].Text)
			}
		}
		res = append(res, v)
	}
	return res
}

// ---------------------------------------------------------------- streams

// c15Unicode compares unicode.ToLower / unicode.IsSpace with the model's tables on every code point.
func c15Unicode(c *Ctx) {
	const chunk = 0x1000
	var lines []string
	for lo := 0; lo < 0x110000; lo += chunk {
		lines = append(lines, fmt.Sprintf("c15uni %d %d", lo, lo+chunk))
	}
	answers := c.Drv.AskBatch(lines)
	for i, ans := range answers {
		lo := i * chunk
		var parts []string
		for r := lo; r < lo+chunk; r++ {
			if l := unicode.ToLower(rune(r)); int(l) != r {
				parts = append(parts, fmt.Sprintf("%d>%d", r, l))
			}
			if unicode.IsSpace(rune(r)) {
				parts = append(parts, fmt.Sprint(r))
			}
		}
		impl := "-"
		if len(parts) > 0 {
			impl = strings.Join(parts, ",")
		}
		c.Evals++
		c.Compare("unicode", i, "c15uni(unicode.ToLower, unicode.IsSpace)", map[string]any{"lo": lo, "hi": lo + chunk}, impl, ans)
	}
	c.Extra["unicode_exhaustive"] = "unicode.ToLower and unicode.IsSpace on U+0000..U+10FFFF"
}

var c15RawPieces = []string{" ", "  ", "\t", "\n", "\v", "\f", "\r", "\u0085", "\u00a0", "\u1680", "\u2000", "\u2009", "\u200a", "\u2028", "\u2029", "\u202f", "\u205f", "\u3000", "\u200b", "\ufeff", "\u180e",
	"a", "B", "Z", "é", "É", "ß", "ẞ", "İ", "I", "ı", "Σ", "ς", "σ", "ǅ", "Ǆ", "Ⅷ", "Ⓐ", "𐐀", "𝒜", "漢", "K", "Å", "\xff", "\xc3", "\xe2\x82", "\x80", "\xed\xa0\x80", "\xef\xbf\xbd", "\xf4\x90\x80\x80", "\xc0\x80", "\x00", "A:B", "1.5", "-"}

// c15Tokens compares the tokenizer (strings.Fields + strings.ToLower, as bayes.tokenize composes them) with the model.
func (x *c15run) tokens(n int) {
	c := x.c
	for idx := 0; idx < n; idx++ {
		i := idx
		if !c.Want("tokens", i) {
			continue
		}
		r := c.Rng("tokens", i)
		gen := func(max int) string {
			var b strings.Builder
			for k := r.Range(0, max); k > 0; k-- {
				if r.Chance(1, 15) {
					b.WriteByte(byte(r.Intn(256)))
				} else if r.Chance(1, 10) {
					b.WriteRune(rune(r.Intn(0x3000)))
				} else {
					b.WriteString(Pick(r, c15RawPieces))
				}
			}
			return b.String()
		}
		desc, com, qty, other := gen(12), gen(2), gen(2), gen(3)
		set := map[string]bool{}
		for _, t := range append(strings.Fields(desc), com, qty, other) {
			set[strings.ToLower(t)] = true
		}
		toks := make([]string, 0, len(set))
		for t := range set {
			toks = append(toks, t)
		}
		sort.Strings(toks)
		c.Evals++
		in := map[string]any{"desc_hex": hex.EncodeToString([]byte(desc)), "commodity_hex": hex.EncodeToString([]byte(com)), "quantity_hex": hex.EncodeToString([]byte(qty)), "other_hex": hex.EncodeToString([]byte(other))}
		x.bt.Add(func(ans string) {
			c.Compare("tokens", i, "c15tok(strings.Fields, strings.ToLower, set, sorted)", in, c15HexList(toks), ans)
		}, "c15tok", Hex(desc), Hex(com), Hex(qty), Hex(other))
		c.Class(fmt.Sprintf("tokens/n%s/ascii%v", c15Bucket(len(toks)), isASCII(desc+com+qty+other)))
	}
}

func runC15(c *Ctx) {
	x := &c15run{c: c, bt: c.NewBatch()}
	x.bt.Limit = 1500
	defer x.flush()

	if c.Replay && c.ReplayInput != nil {
		if k, ok := c15CaseFromInput(c.ReplayInput); ok {
			c.Replay = false
			if c.OnlyStr == "cli" {
				x.cli(c.OnlyIndex, k)
			} else {
				x.one(c.OnlyStr, c.OnlyIndex, k)
			}
			return
		}
	}

	if !c.Replay || c.OnlyStr == "unicode" {
		c15Unicode(c)
	}
	x.tokens(c.N(3000, 60000))
	x.flush()

	for i, k := range c15Corpus() {
		if c.Want("corpus", i) {
			x.one("corpus", i, k)
		}
	}

	// ---- infer: generated training x target x placeholder, library code in-process
	n := c.N(3000, 90000)
	for i := 0; i < n; i++ {
		if !c.Want("infer", i) {
			continue
		}
		x.one("infer", i, c15Generate(c.Rng("infer", i)))
	}
	x.flush()

	// ---- scale: long descriptions, large vocabularies and training journals, many accounts (library code in-process)
	ns := c.N(80, 600) // thorough cases are up to ten times larger (c15GenerateScale); 6000 of them kept the Lean driver busy for hours
	tScale := time.Now()
	for i := 0; i < ns; i++ {
		if !c.Want("scale", i) {
			continue
		}
		k, sh := c15GenerateScale(c.Rng("scale", i), c.Thorough())
		c.Tag("scale/target-words " + strings.SplitN(strings.SplitN(sh.kind(), "words", 2)[1], ",", 2)[0])
		x.one("scale", i, k)
		if i%8 == 7 { // the request lines are long: do not let them pile up
			x.flush()
		}
	}
	x.flush()
	if !c.Replay {
		c.Extra["scale_stream_wall_s"] = fmt.Sprintf("%.1f", time.Since(tScale).Seconds())
	}

	// ---- malformed: mutated targets and training files
	nm := c.N(800, 20000)
	for i := 0; i < nm; i++ {
		if !c.Want("malformed", i) {
			continue
		}
		r := c.Rng("malformed", i)
		k := c15Generate(r)
		k.Kinds = append(k.Kinds, "mutated")
		if r.Bool() { // one gentle edit: these mostly still parse
			edit := func(t string) string {
				if len(t) == 0 {
					return Pick(r, synInteresting)
				}
				p := r.Intn(len(t) + 1)
				return t[:p] + Pick(r, []string{" ", "\t", "\n", "\r", "é", "x", "X", "0", ":", "\xff", "\xc3", "\"", "# c\n", "\n\n"}) + t[p:]
			}
			if r.Bool() {
				k.Target = edit(k.Target)
			} else {
				j := r.Intn(len(k.Training))
				k.Training[j].Text = edit(k.Training[j].Text)
			}
			x.one("malformed", i, k)
			continue
		}
		switch r.Intn(3) {
		case 0:
			k.Target = synMutate(r, k.Target)
		case 1:
			j := r.Intn(len(k.Training))
			k.Training[j].Text = synMutate(r, k.Training[j].Text)
		default:
			k.Target = synMutate(r, k.Target)
			k.Training[0].Text = synMutate(r, k.Training[0].Text)
		}
		x.one("malformed", i, k)
	}
	x.flush()

	// ---- cli: the command itself
	nc := c.N(300, 3000)
	for i := 0; i < nc; i++ {
		if !c.Want("cli", i) {
			continue
		}
		r := c.Rng("cli", i)
		k := c15Generate(r)
		switch r.Intn(12) {
		case 0:
			k.SameFile = true
			k.Kinds = append(k.Kinds, "same-file")
		case 1:
			k.Target = synMutate(r, k.Target)
			k.Kinds = append(k.Kinds, "mutated-target")
		case 2:
			j := r.Intn(len(k.Training))
			k.Training[j].Text = synMutate(r, k.Training[j].Text)
			k.Kinds = append(k.Kinds, "mutated-training")
		case 3:
			k.Training[len(k.Training)-1].Text += "\ninclude \"missing.knut\"\n"
			k.Kinds = append(k.Kinds, "missing-include")
		}
		x.cli(i, k)
	}
	// the command itself on cases of the scale stream (indices from 1000000 on, so that they mean the same in both tiers)
	for j := 0; j < c.N(8, 150); j++ {
		i := 1000000 + j
		if !c.Want("cli", i) {
			continue
		}
		r := c.Rng("cli", i)
		k, _ := c15GenerateScale(r, false)
		k.Kinds = append(k.Kinds, "cli-scale")
		if r.Chance(1, 8) {
			k.SameFile = true
			k.Kinds = append(k.Kinds, "same-file")
		}
		x.cli(i, k)
	}
	x.flush()

	// ---- bigfile: a training journal with ONE file of thousands of directives, through the command, under several schedules
	tBig := time.Now()
	for i := 0; i < c.N(5, 20); i++ {
		if !c.Want("bigfile", i) {
			continue
		}
		x.big(i, c15GenerateBig(c.Rng("bigfile", i), i))
		x.flush()
	}
	if !c.Replay {
		c.Extra["bigfile_stream_wall_s"] = fmt.Sprintf("%.1f", time.Since(tBig).Seconds())
	}

	// ---- directed search around disagreements
	if len(x.suspects) > 0 && !c.Replay {
		cnt := 0
		for si, s := range x.suspects {
			r := c.Rng("directed", si)
			// fewer variants of a large case (a variant of a 30 KB case costs the model a second)
			size := len(s.Target)
			for _, f := range s.Training {
				size += len(f.Text)
			}
			nv := 400
			if size > 2000 {
				nv = 400 * 2000 / size
				if nv < 25 {
					nv = 25
				}
			}
			for _, v := range c15Variants(r, s, nv) {
				cnt++
				x.one("directed", -cnt, v)
			}
			x.flush()
		}
		c.Notes = append(c.Notes, fmt.Sprintf("directed search: %d variants of %d cases on which infer and the model differ", cnt, len(x.suspects)))
	}
}
