import Knut.Driver.C04
import Knut.Driver.C11
import Knut.Model.BalanceCmd
import Knut.Model.JournalPrinter
import Knut.Spec.MTM
/-! Driver ops for the balance command model (C01, C02, C03, C05, C06, C09). -/
namespace Knut.Driver.Balance
open Knut Knut.Wire Knut.Driver

/-- substring test -/
def containsSub (s pat : List Char) : Bool :=
  if pat.isEmpty then true else
  let rec go : List Char → Bool
    | [] => false
    | c :: rest => pat.isPrefixOf (c :: rest) || go rest
  go s

/-- the regular expressions the generators emit: alternation of `^?literal$?` (Go semantics: unanchored search) -/
def simpleRegex (pat : String) : String → Bool := fun s =>
  (splitOn pat '|').any (fun br =>
    let cs := br.toList
    let (anchS, cs) := match cs with | '^' :: r => (true, r) | _ => (false, cs)
    let (anchE, cs) := match cs.reverse with | '$' :: r => (true, r.reverse) | _ => (false, cs)
    let t := s.toList
    match anchS, anchE with
    | true, true => t == cs
    | true, false => cs.isPrefixOf t
    | false, true => cs.reverse.isPrefixOf t.reverse
    | false, false => containsSub t cs)

def anyRegex (pats : List String) : String → Bool := fun s => pats.any (fun p => simpleRegex p s)

def parseList (v : String) : Option (List String) := (splitOn v ',').mapM unhexStr

def parseFlags (s : String) : Option BalanceFlags :=
  let kvs := if s = "-" then [] else splitOn s ';'
  kvs.foldlM (fun (f : BalanceFlags) kv =>
    match splitOn kv '=' with
    | ["val", v] => some { f with valuation := some v }
    | ["from", v] => v.toInt?.map (fun z => { f with from? := some z })
    | ["to", v] => v.toInt?.map (fun z => { f with to := z })
    | ["last", v] => v.toInt?.map (fun z => { f with last := z })
    | ["iv", v] => (v.toNat?.bind Knut.Driver.C11.ivOfNat).map (fun iv => { f with interval := iv })
    | ["diff", v] => some { f with diff := v == "1" }
    | ["close", v] => some { f with close := v == "1" }
    | ["sort", v] => some { f with sortAlpha := v == "1" }
    | ["csv", v] => some { f with csv := v == "1" }
    | ["k", v] => some { f with thousands := v == "1" }
    | ["digits", v] => v.toInt?.map (fun z => { f with digits := z })
    | ["show", v] => (parseList v).map (fun ps => { f with showCommodities := some (anyRegex ps) })
    | ["remap", v] => (parseList v).map (fun ps => { f with remap := anyRegex ps })
    | ["acc", v] => (parseList v).map (fun ps => { f with accountFilter := anyRegex ps })
    | ["com", v] => (parseList v).map (fun ps => { f with commodityFilter := anyRegex ps })
    | ["map", v] =>
      ((splitOn v ',').mapM (fun r =>
        match splitOn r ':' with
        | [l, sfx, p] => do
          let l ← l.toNat?
          let sfx ← sfx.toNat?
          let test : String → Bool ← (if p = "*" then some (fun _ => true) else (unhexStr p).map simpleRegex)
          pure ({ level := l, suffix := sfx, test := test } : MapRule)
        | _ => none)).map (fun rs => { f with mapping := rs })
    | _ => none) { to := 0 }

def outcome : CmdOutcome → String
  | .ok s => "ok " ++ hexStr s
  | .error w => "error " ++ w
  | .panic s => "panic " ++ hexStr s

/-- C03, mapped rows: the accounts a report row `r` collects (passes `--account`; `--remap` then `-m` give `r`).
`Properties/C03Modes.lean` proves `C03.rowSel = c03RowSel`. -/
def c03RowSel (f : BalanceFlags) (r a : Account) : Bool :=
  f.accountFilter a.name && decide (shorten f.mapping (if f.remap a.name then swapType a else a) = some r)

/-- C03: the eve of column `k` (`C03.cellEve`): the previous period end in a `--diff` report, else the day before the window -/
def c03Eve (f : BalanceFlags) (part : Partition) (k : Nat) : Int :=
  if f.diff then (match k with | 0 => part.span.start - 1 | j + 1 => part.endDates.getD j 0) else part.span.start - 1

def handle (fields : List String) : Option String :=
  match fields with
  | ["balance", fl, j] => some (
    match parseFlags fl, (parseJournal j).map Knut.Driver.C04.load with
    | some f, some (.ok ids) => outcome (BalanceCmd.run f (ids.map (·.2)))
    | some _, some .error => "error load"
    | some _, some (.panic s) => "panic " ++ hexStr s
    | none, _ => "bad-flags"
    | _, none => "bad-journal")
  | ["print", j] => some (
    -- `knut print`: check, then journal.Print
    match (parseJournal j).map Knut.Driver.C04.load with
    | none => "bad-journal"
    | some .error => "error"
    | some (.panic s) => "panic " ++ hexStr s
    | some (.ok ids) =>
      let days := (Builder.ofList (ids.map (·.2))).build
      match Check.run days with
      | .error _ => "error"
      | .ok _ => "ok " ++ hexStr (JournalPrinter.print days))
  | ["c03mtm", v, j, f, dates] => some (
    -- exact mark-to-market values: one line item per A/L account: name|D:mtmD:mtmF:steps|…  (F = day before the window start;
    -- steps = Spec.stepBound, the bound proved in Properties/C03Report.lean: C03_command_cell)
    match (parseJournal j).bind Knut.Driver.C04.toDirectives, f.toInt?, (splitOn dates ',').mapM (·.toInt?) with
    | some ds, some F, some Ds =>
      let days := (Builder.ofList ds).build
      let showO : Option Rat → String := fun o => match o with | some r => Dec.showRat r | none => "none"
      String.intercalate " " ((Spec.alAccounts days).map (fun a =>
        a.name ++ "|" ++ String.intercalate "|" (Ds.map (fun D =>
          s!"{D}:{showO (Spec.mtm v days a D)}:{showO (Spec.mtm v days a F)}:{Spec.stepBound v days a F D}"))))
    | _, _, _ => "bad-op")
  | ["c03flow", v, j, f, dates] => some (
    -- bookings valued at the price of their own day (Spec.flowAt, exact): one item per account with a booking:
    -- name|D:flow|…  over the window (F, D]
    match (parseJournal j).bind Knut.Driver.C04.toDirectives, f.toInt?, (splitOn dates ',').mapM (·.toInt?) with
    | some ds, some F, some Ds =>
      let days := (Builder.ofList ds).build
      let showO : Option Rat → String := fun o => match o with | some r => Dec.showRat r | none => "none"
      let accounts := ((Spec.userPostings days).map (fun x => x.2.account)).eraseDups
      String.intercalate " " (accounts.map (fun a =>
        a.name ++ "|" ++ String.intercalate "|" (Ds.map (fun D => s!"{D}:{showO (Spec.flowAt v days a F D)}"))))
    | _, _, _ => "bad-op")
  | ["c03rows", fl, j] => some (
    -- C03_command_cell_mapped / C03_command_cell_show: per asset/liability ROW of the report under the given flags one item
    -- name|-|mD:mF:steps|… (one cell per column: Spec.mtmOver at the period end and at the eve, Spec.stepBoundOver), and
    -- for a row that `-s` matches one item name|commodity|mD:mF:steps|… per commodity (Spec.mtmPosOver, Spec.stepCountOver)
    match parseFlags fl, (parseJournal j).bind Knut.Driver.C04.toDirectives with
    | some f, some ds =>
      match f.valuation with
      | none => "bad-op"
      | some v =>
        let b := Builder.ofList ds
        match newPartition (BalanceCmd.window f b) f.interval f.last with
        | .panic _ => "panic"
        | .ok part =>
          if part.span.start > part.span.stop then "empty-window" else
          let days := b.build
          let showO : Option Rat → String := fun o => match o with | some r => Dec.showRat r | none => "none"
          let rows := ((Spec.alAccounts days).filterMap (fun a =>
            if f.accountFilter a.name then shorten f.mapping (if f.remap a.name then swapType a else a) else none)).eraseDups
          let cols := part.endDates.zipIdx
          String.intercalate " " (rows.flatMap (fun r =>
            let S := Spec.sourceAccounts (c03RowSel f r) days
            let perCom := match f.showCommodities with | some sh => sh r.name | none => false
            if perCom then
              ((S.flatMap (Spec.commoditiesOf days)).eraseDups).map (fun c =>
                r.name ++ "|" ++ c ++ "|" ++ String.intercalate "|" (cols.map (fun (D, k) =>
                  s!"{showO (Spec.mtmPosOver v days S c D)}:{showO (Spec.mtmPosOver v days S c (c03Eve f part k))}:{Spec.stepCountOver v days S (c03Eve f part k) D c}")))
            else
              [r.name ++ "|-|" ++ String.intercalate "|" (cols.map (fun (D, k) =>
                s!"{showO (Spec.mtmOver v days S D)}:{showO (Spec.mtmOver v days S (c03Eve f part k))}:{Spec.stepBoundOver v days S (c03Eve f part k) D}"))]))
    | _, _ => "bad-op")
  | ["c03flowp", v, j, eves, dates] => some (
    -- C03_command_flow_cell: bookings valued at the price of their own day over (F_k, D_k] per column (the eves F_k are
    -- given: the eve of the window without closing, the eve of the period with closing): one item per account with a booking
    -- name|flow_0|flow_1|…
    match (parseJournal j).bind Knut.Driver.C04.toDirectives, (splitOn eves ',').mapM (·.toInt?), (splitOn dates ',').mapM (·.toInt?) with
    | some ds, some Fs, some Ds =>
      let days := (Builder.ofList ds).build
      let showO : Option Rat → String := fun o => match o with | some r => Dec.showRat r | none => "none"
      let accounts := ((Spec.userPostings days).map (fun x => x.2.account)).eraseDups
      String.intercalate " " (accounts.map (fun a =>
        a.name ++ "|" ++ String.intercalate "|" ((Fs.zip Ds).map (fun (F, D) => showO (Spec.flowAt v days a F D)))))
    | _, _, _ => "bad-op")
  | ["balance-spec", fl, j] => some (
    match parseFlags fl, (parseJournal j).map Knut.Driver.C04.load with
    | some f, some (.ok ids) => if f.valuation.isSome then "unsupported" else outcome (BalanceCmd.runSpec f (ids.map (·.2)))
    | some _, some .error => "error load"
    | some _, some (.panic s) => "panic " ++ hexStr s
    | none, _ => "bad-flags"
    | _, none => "bad-journal")
  | _ => none

end Knut.Driver.Balance
