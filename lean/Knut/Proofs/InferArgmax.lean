import Knut.Proofs.InferStruct
/-!
# The inferred account is the best-scoring candidate, the smallest name among equals (helper lemmas for C15)

For a comparison `gt` that is the strict part of a total preorder (as `>` on floats without NaN is).
-/
namespace Knut.Infer
open Knut Knut.Syntax

/-- `gt` is the strict part of a total preorder -/
structure Scorer.Order {S : Type} (sc : Scorer S) : Prop where
  irrefl : ∀ a, sc.gt a a = false
  trans : ∀ a b c, sc.gt a b = true → sc.gt b c = true → sc.gt a c = true
  negtrans : ∀ a b c, sc.gt a b = false → sc.gt b c = false → sc.gt a c = false

variable {S : Type} (sc : Scorer S) (m : Model)

theorem Scorer.Order.lt_of_le_lt {sc : Scorer S} (ho : sc.Order) {x y z : S} (h1 : sc.gt x y = false) (h2 : sc.gt z y = true) :
    sc.gt z x = true := by
  cases h : sc.gt z x with
  | true => rfl
  | false => have := ho.negtrans z x y h h1; rw [h2] at this; cases this

/-- the loop from a state `(b, some s)`: either nothing in `l` beats `s`, or the result splits `l` into candidates it
strictly beats (before it) and candidates that do not beat it (after it) -/
theorem foldl_inferStep_max (ho : sc.Order) (tokens : List Bytes) (other : Bytes) : ∀ (l : List Bytes) (b : Bytes) (s : S),
    let r := l.foldl (inferStep sc m tokens other) (b, some s)
    (r = (b, some s) ∧ ∀ c ∈ l, c ≠ other → sc.gt (m.scoreCandidate sc c tokens) s = false) ∨
    (∃ pre post, l = pre ++ r.1 :: post ∧ r.1 ≠ other ∧ r.2 = some (m.scoreCandidate sc r.1 tokens) ∧
      sc.gt (m.scoreCandidate sc r.1 tokens) s = true ∧
      (∀ c ∈ pre, c ≠ other → sc.gt (m.scoreCandidate sc r.1 tokens) (m.scoreCandidate sc c tokens) = true) ∧
      (∀ c ∈ post, c ≠ other → sc.gt (m.scoreCandidate sc c tokens) (m.scoreCandidate sc r.1 tokens) = false))
  | [], b, s => Or.inl ⟨rfl, fun _ h => by cases h⟩
  | c :: cs, b, s => by
    intro r
    have hr : r = cs.foldl (inferStep sc m tokens other) (inferStep sc m tokens other (b, some s) c) := rfl
    by_cases hc : c = other
    · subst hc
      rw [inferStep_other] at hr
      rcases foldl_inferStep_max ho tokens c cs b s with ⟨e, h⟩ | ⟨pre, post, e, h1, h2, h3, h4, h5⟩
      · left
        refine ⟨by rw [hr]; exact e, ?_⟩
        intro x hx hxo
        rcases List.mem_cons.mp hx with e' | e'
        · exact absurd e' hxo
        · exact h x e' hxo
      · right
        rw [← hr] at e h1 h2 h3 h4 h5
        refine ⟨c :: pre, post, by rw [e]; rfl, h1, h2, h3, ?_, h5⟩
        intro x hx hxo
        rcases List.mem_cons.mp hx with e' | e'
        · exact absurd e' hxo
        · exact h4 x e' hxo
    · by_cases hg : sc.gt (m.scoreCandidate sc c tokens) s = true
      · -- `c` becomes the best so far
        have hstep : inferStep sc m tokens other (b, some s) c = (c, some (m.scoreCandidate sc c tokens)) := by
          simp [inferStep, hc, hg]
        rw [hstep] at hr
        right
        rcases foldl_inferStep_max ho tokens other cs c (m.scoreCandidate sc c tokens) with ⟨e, h⟩ | ⟨pre, post, e, h1, h2, h3, h4, h5⟩
        · rw [← hr] at e
          rw [e]
          exact ⟨[], cs, rfl, hc, rfl, hg, fun _ hx _ => (by cases hx), h⟩
        · rw [← hr] at e h1 h2 h3 h4 h5
          refine ⟨c :: pre, post, by rw [e]; rfl, h1, h2, ho.trans _ _ _ h3 hg, ?_, h5⟩
          intro x hx hxo
          rcases List.mem_cons.mp hx with e' | e'
          · rw [e']; exact h3
          · exact h4 x e' hxo
      · -- `c` does not beat the best so far
        have hg' : sc.gt (m.scoreCandidate sc c tokens) s = false := by
          cases h : sc.gt (m.scoreCandidate sc c tokens) s <;> simp_all
        have hstep : inferStep sc m tokens other (b, some s) c = (b, some s) := by
          simp [inferStep, hc, hg']
        rw [hstep] at hr
        rcases foldl_inferStep_max ho tokens other cs b s with ⟨e, h⟩ | ⟨pre, post, e, h1, h2, h3, h4, h5⟩
        · left
          refine ⟨by rw [hr]; exact e, ?_⟩
          intro x hx hxo
          rcases List.mem_cons.mp hx with e' | e'
          · rw [e']; exact hg'
          · exact h x e' hxo
        · right
          rw [← hr] at e h1 h2 h3 h4 h5
          refine ⟨c :: pre, post, by rw [e]; rfl, h1, h2, h3, ?_, h5⟩
          intro x hx hxo
          rcases List.mem_cons.mp hx with e' | e'
          · rw [e']; exact ho.lt_of_le_lt hg' h3
          · exact h4 x e' hxo

/-- the loop from `max = -Inf`: the result splits the list into candidates it strictly beats and candidates that do
not beat it -/
theorem foldl_inferStep_argmax (ho : sc.Order) (tokens : List Bytes) (other : Bytes) : ∀ (l : List Bytes) (b0 : Bytes),
    (∃ c ∈ l, c ≠ other) →
    let r := l.foldl (inferStep sc m tokens other) (b0, none)
    ∃ pre post, l = pre ++ r.1 :: post ∧ r.1 ≠ other ∧
      (∀ c ∈ pre, c ≠ other → sc.gt (m.scoreCandidate sc r.1 tokens) (m.scoreCandidate sc c tokens) = true) ∧
      (∀ c ∈ post, c ≠ other → sc.gt (m.scoreCandidate sc c tokens) (m.scoreCandidate sc r.1 tokens) = false)
  | [], _, h => by obtain ⟨c, hc, _⟩ := h; cases hc
  | c :: cs, b0, h => by
    intro r
    have hr : r = cs.foldl (inferStep sc m tokens other) (inferStep sc m tokens other (b0, none) c) := rfl
    by_cases hc : c = other
    · subst hc
      rw [inferStep_other] at hr
      have : ∃ x ∈ cs, x ≠ c := by
        obtain ⟨x, hx, hxo⟩ := h
        rcases List.mem_cons.mp hx with e | e
        · exact absurd e hxo
        · exact ⟨x, e, hxo⟩
      obtain ⟨pre, post, e, h1, h4, h5⟩ := foldl_inferStep_argmax ho tokens c cs b0 this
      rw [← hr] at e h1 h4 h5
      refine ⟨c :: pre, post, by rw [e]; rfl, h1, ?_, h5⟩
      intro x hx hxo
      rcases List.mem_cons.mp hx with e' | e'
      · exact absurd e' hxo
      · exact h4 x e' hxo
    · rw [inferStep_first sc m tokens other b0 c hc] at hr
      rcases foldl_inferStep_max sc m ho tokens other cs c (m.scoreCandidate sc c tokens) with ⟨e, h'⟩ | ⟨pre, post, e, h1, _, h3, h4, h5⟩
      · rw [← hr] at e
        rw [e]
        exact ⟨[], cs, rfl, hc, fun _ hx _ => (by cases hx), h'⟩
      · rw [← hr] at e h1 h3 h4 h5
        refine ⟨c :: pre, post, by rw [e]; rfl, h1, ?_, h5⟩
        intro x hx hxo
        rcases List.mem_cons.mp hx with e' | e'
        · rw [e']; exact h3
        · exact h4 x e' hxo

theorem asc_split {pre post : List Bytes} {a : Bytes} (h : Asc (pre ++ a :: post)) :
    (∀ c ∈ pre, bytesLt c a = true) ∧ (∀ c ∈ post, bytesLt a c = true) := by
  induction pre with
  | nil => exact ⟨fun _ h => (by cases h), h.1⟩
  | cons x xs ih =>
    obtain ⟨h1, h2⟩ := h
    obtain ⟨i1, i2⟩ := ih h2
    refine ⟨?_, i2⟩
    intro c hc
    rcases List.mem_cons.mp hc with e | e
    · rw [e]; exact h1 a (by simp)
    · exact i1 c e

/-- **the inferred account is a best-scoring candidate, and the smallest name among the best-scoring ones**: no
candidate scores higher, and every candidate with a smaller name scores strictly lower -/
theorem inferAccount_argmax (ho : sc.Order) {desc : Bytes} {b : BookingV} {other a : Bytes}
    (h : m.inferAccount sc desc b other = some a) :
    let tokens := tokenize desc b.commodity b.quantity other
    ∀ c ∈ m.countByAccount.keys, c ≠ other →
      sc.gt (m.scoreCandidate sc c tokens) (m.scoreCandidate sc a tokens) = false ∧
      (bytesLt c a = true → sc.gt (m.scoreCandidate sc a tokens) (m.scoreCandidate sc c tokens) = true) := by
  intro tokens c hc hco
  have hsome := inferAccount_some sc m h
  simp only [Model.inferAccount] at h
  split at h
  · cases h
  · injection h with h
    obtain ⟨pre, post, e, _, h4, h5⟩ := foldl_inferStep_argmax sc m ho tokens other (sortU m.countByAccount.keys) []
      ⟨a, mem_sortU.mpr hsome.1, hsome.2.1⟩
    rw [h] at e h4 h5
    have hasc := asc_sortU m.countByAccount.keys
    rw [e] at hasc
    obtain ⟨a1, a2⟩ := asc_split hasc
    have hmem : c ∈ pre ++ a :: post := by rw [← e]; exact mem_sortU.mpr hc
    rcases List.mem_append.mp hmem with hp | hp
    · have := h4 c hp hco
      refine ⟨?_, fun _ => this⟩
      cases hx : sc.gt (m.scoreCandidate sc c tokens) (m.scoreCandidate sc a tokens) with
      | false => rfl
      | true => have := ho.trans _ _ _ this hx; rw [ho.irrefl] at this; cases this
    · rcases List.mem_cons.mp hp with e' | e'
      · subst e'
        exact ⟨ho.irrefl _, fun hl => by rw [bytesLt_irrefl] at hl; cases hl⟩
      · refine ⟨h5 c e' hco, fun hl => ?_⟩
        have := a2 c e'
        rw [bytesLt_asymm this] at hl; cases hl

/-- the exact score with `>` on `Rat` is such a comparison -/
theorem exactScorer_order : exactScorer.Order := by
  refine ⟨?_, ?_, ?_⟩
  · intro a; simp [exactScorer, Rat.lt_irrefl]
  · intro a b c h1 h2
    simp only [exactScorer, decide_eq_true_eq] at h1 h2 ⊢
    exact Std.lt_trans h2 h1
  · intro a b c h1 h2
    simp only [exactScorer, decide_eq_false_iff_not, Rat.not_lt] at h1 h2 ⊢
    exact Rat.le_trans h1 h2

end Knut.Infer
