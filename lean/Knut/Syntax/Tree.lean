/-!
# The syntax tree of `lib/syntax/directives`

One structure per Go struct, same field names. A Go `directives.Range` is `(Start, End, Path, Text)`; the
model keeps `(start, stop)` — byte offsets into the one text being parsed — and the text itself is a
parameter of whatever extracts from it (`Range.extract`). The zero `Range{}` of an absent element
(a transaction without addons) is `⟨0, 0⟩`.

`Node` is the untyped view (kind, range, children) that the well-formedness predicates, the dump compared
with the Go tree and the monitors work on; `File.toNode` etc. define which ranges are children of which.

Reused by the models of the syntax printer (C08), the journal printer round trip (C09), the importers (C13)
and infer (C15).
-/
namespace Knut.Syntax

/-- `directives.Range` without `Path`/`Text`: the half-open byte interval `[start, stop)`. -/
structure Range where
  start : Nat
  stop : Nat
  deriving DecidableEq, Repr, Inhabited

/-- `Range.Empty` -/
def Range.empty (r : Range) : Bool := r.start == r.stop
/-- `Range.Length` -/
def Range.length (r : Range) : Nat := r.stop - r.start

/-- `Range.Extend` -/
def Range.extend (r r2 : Range) : Range :=
  { start := if r.start > r2.start then r2.start else r.start,
    stop := if r.stop < r2.stop then r2.stop else r.stop }

/-- `Range.Extract` = `Text[Start:End]`; Go panics unless `Start ≤ End ≤ len(Text)`: `none`. -/
def Range.extract (text : List UInt8) (r : Range) : Option (List UInt8) :=
  if r.start ≤ r.stop ∧ r.stop ≤ text.length then some ((text.drop r.start).take (r.stop - r.start)) else none

/-- the zero value `Range{}` -/
def Range.zero : Range := ⟨0, 0⟩

structure Account where
  range : Range
  isMacro : Bool
  deriving DecidableEq, Repr, Inhabited

structure Commodity where
  range : Range
  deriving DecidableEq, Repr, Inhabited

structure Date where
  range : Range
  deriving DecidableEq, Repr, Inhabited

structure Decimal where
  range : Range
  deriving DecidableEq, Repr, Inhabited

structure Interval where
  range : Range
  deriving DecidableEq, Repr, Inhabited

structure QuotedString where
  range : Range
  content : Range
  deriving DecidableEq, Repr, Inhabited

structure Booking where
  range : Range
  credit : Account
  debit : Account
  quantity : Decimal
  commodity : Commodity
  deriving DecidableEq, Repr, Inhabited

structure Performance where
  range : Range
  targets : List Commodity
  deriving DecidableEq, Repr, Inhabited

structure Accrual where
  range : Range
  interval : Interval
  start : Date
  stop : Date
  account : Account
  deriving DecidableEq, Repr, Inhabited

structure Addons where
  range : Range
  performance : Performance
  accrual : Accrual
  deriving DecidableEq, Repr, Inhabited

/-- the zero values Go leaves in a transaction without annotations -/
def Performance.zero : Performance := ⟨.zero, []⟩
def Accrual.zero : Accrual := ⟨.zero, ⟨.zero⟩, ⟨.zero⟩, ⟨.zero⟩, ⟨.zero, false⟩⟩
def Addons.zero : Addons := ⟨.zero, .zero, .zero⟩

structure Transaction where
  range : Range
  date : Date
  description : QuotedString
  bookings : List Booking
  addons : Addons
  deriving DecidableEq, Repr, Inhabited

structure Open where
  range : Range
  date : Date
  account : Account
  deriving DecidableEq, Repr, Inhabited

structure Close where
  range : Range
  date : Date
  account : Account
  deriving DecidableEq, Repr, Inhabited

structure Balance where
  range : Range
  account : Account
  quantity : Decimal
  commodity : Commodity
  deriving DecidableEq, Repr, Inhabited

structure Assertion where
  range : Range
  date : Date
  balances : List Balance
  deriving DecidableEq, Repr, Inhabited

structure Price where
  range : Range
  date : Date
  commodity : Commodity
  target : Commodity
  price : Decimal
  deriving DecidableEq, Repr, Inhabited

structure Include where
  range : Range
  includePath : QuotedString
  deriving DecidableEq, Repr, Inhabited

/-- the dynamic type of `Directive.Directive` -/
inductive Body where
  | transaction (t : Transaction)
  | «open» (o : Open)
  | close (c : Close)
  | assertion (a : Assertion)
  | price (p : Price)
  | «include» (i : Include)
  deriving DecidableEq, Repr, Inhabited

def Body.range : Body → Range
  | .transaction t => t.range
  | .open o => o.range
  | .close c => c.range
  | .assertion a => a.range
  | .price p => p.range
  | .include i => i.range

structure Directive where
  range : Range
  body : Body
  deriving DecidableEq, Repr, Inhabited

structure File where
  range : Range
  directives : List Directive
  deriving DecidableEq, Repr, Inhabited

/-! ## Untyped view -/

/-! kind tags of `Node` -/
namespace Kind
def file : Nat := 0
def directive : Nat := 1
def transaction : Nat := 2
def «open» : Nat := 3
def close : Nat := 4
def assertion : Nat := 5
def price : Nat := 6
def «include» : Nat := 7
def date : Nat := 8
def account : Nat := 9
def macroAccount : Nat := 10
def commodity : Nat := 11
def decimal : Nat := 12
def quotedString : Nat := 13
def content : Nat := 14
def booking : Nat := 15
def balance : Nat := 16
def addons : Nat := 17
def performance : Nat := 18
def accrual : Nat := 19
def interval : Nat := 20
end Kind

/-- a syntax element: kind, range, child elements in field order -/
inductive Node where
  | mk (kind : Nat) (range : Range) (children : List Node)
  deriving Repr, Inhabited

def Node.kind : Node → Nat | .mk k _ _ => k
def Node.range : Node → Range | .mk _ r _ => r
def Node.children : Node → List Node | .mk _ _ cs => cs

def leaf (k : Nat) (r : Range) : Node := .mk k r []

def Account.toNode (a : Account) : Node := leaf (if a.isMacro then Kind.macroAccount else Kind.account) a.range
def Commodity.toNode (c : Commodity) : Node := leaf Kind.commodity c.range
def Date.toNode (d : Date) : Node := leaf Kind.date d.range
def Decimal.toNode (d : Decimal) : Node := leaf Kind.decimal d.range
def Interval.toNode (i : Interval) : Node := leaf Kind.interval i.range
def QuotedString.toNode (q : QuotedString) : Node := .mk Kind.quotedString q.range [leaf Kind.content q.content]

def Booking.toNode (b : Booking) : Node :=
  .mk Kind.booking b.range [b.credit.toNode, b.debit.toNode, b.quantity.toNode, b.commodity.toNode]

def Balance.toNode (b : Balance) : Node :=
  .mk Kind.balance b.range [b.account.toNode, b.quantity.toNode, b.commodity.toNode]

def Performance.toNode (p : Performance) : Node := .mk Kind.performance p.range (p.targets.map Commodity.toNode)

def Accrual.toNode (a : Accrual) : Node :=
  .mk Kind.accrual a.range [a.interval.toNode, a.start.toNode, a.stop.toNode, a.account.toNode]

/-- an element whose range is Go's zero `Range{}` is absent and has no node -/
def optNode (r : Range) (n : Node) : List Node := if r = Range.zero then [] else [n]

def Addons.toNode (a : Addons) : Node :=
  .mk Kind.addons a.range (optNode a.performance.range a.performance.toNode ++ optNode a.accrual.range a.accrual.toNode)

def Transaction.toNode (t : Transaction) : Node :=
  .mk Kind.transaction t.range
    (optNode t.addons.range t.addons.toNode ++ [t.date.toNode, t.description.toNode] ++ t.bookings.map Booking.toNode)

def Open.toNode (o : Open) : Node := .mk Kind.open o.range [o.date.toNode, o.account.toNode]
def Close.toNode (c : Close) : Node := .mk Kind.close c.range [c.date.toNode, c.account.toNode]
def Assertion.toNode (a : Assertion) : Node :=
  .mk Kind.assertion a.range (a.date.toNode :: a.balances.map Balance.toNode)
def Price.toNode (p : Price) : Node :=
  .mk Kind.price p.range [p.date.toNode, p.commodity.toNode, p.price.toNode, p.target.toNode]
def Include.toNode (i : Include) : Node := .mk Kind.include i.range [i.includePath.toNode]

def Body.toNode : Body → Node
  | .transaction t => t.toNode
  | .open o => o.toNode
  | .close c => c.toNode
  | .assertion a => a.toNode
  | .price p => p.toNode
  | .include i => i.toNode

def Directive.toNode (d : Directive) : Node := .mk Kind.directive d.range [d.body.toNode]

def File.toNode (f : File) : Node := .mk Kind.file f.range (f.directives.map Directive.toNode)

end Knut.Syntax
