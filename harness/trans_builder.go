package main

// Write-only BUILDER objects (builder transR): `*table.Table` and the `*table.Row`s it hands out.
//
// The balance renderer only WRITES to a table: it calls methods that have no result or return the row again (for chaining).  Such an
// object is represented by the LOG of the calls made on it, in order — nothing of package table is translated or given a meaning, and
// the translated code cannot depend on what the callee does:
//
//   Go                                         Lean (declared in the unit of package table, on demand)
//   *table.Table                               TableLog := List TableCall
//   *table.Row                                 RowRef := Nat: the number of the AddRow call that created the row (0, 1, …)
//   table.New(a, b, c)                         [TableCall.New [a, b, c]]
//   t.AddSeparatorRow()                        t := t ++ [TableCall.AddSeparatorRow]
//   row := t.AddRow()                          t := t ++ [TableCall.AddRow]; row := TableLog.rows t - 1
//   row.AddText(s, a)  /  t.AddRow().AddText…  t := t ++ [TableCall.Row_AddText row s a]      (the table a row variable belongs to is the
//                                              one its unique defining chain `x := t.AddRow()…` starts from)
// TableCall has one constructor per method of *Table / *Row whose parameters are translatable and whose results are none or *Row.
// A method with another result (Width), a row that is not defined by such a chain, a builder object stored in a struct: rejected.
// The agreement theorems interpret the log with the model's table builder (Model/Table.lean, tied to table.go by C17).

import (
	"go/ast"
	"go/token"
	"go/types"
	"sort"
	"strings"
)

const trTablePath = trKnutPath + "lib/common/table"

func trNamedIs(ty types.Type, pkg, name string) bool {
	if p, ok := ty.(*types.Pointer); ok {
		ty = p.Elem()
	}
	n, ok := ty.(*types.Named)
	return ok && n.Obj().Pkg() != nil && n.Obj().Pkg().Path() == pkg && n.Obj().Name() == name
}

func trIsBuilderRoot(ty types.Type) bool { return ty != nil && trNamedIs(ty, trTablePath, "Table") }
func trIsBuilderRow(ty types.Type) bool  { return ty != nil && trNamedIs(ty, trTablePath, "Row") }

// builderType: the Lean type of *table.Table / *table.Row (declares TableCall on demand)
func (t *trTranslator) builderType(from *trUnit, ty types.Type, pos token.Pos) (string, bool) {
	if !trIsBuilderRoot(ty) && !trIsBuilderRow(ty) {
		return "", false
	}
	u := t.unitOf[trTablePath]
	if u == nil {
		trFail(pos, "package table is not a unit of the translator")
	}
	if from == u {
		return "", false // inside package table itself a table is the struct it is
	}
	t.needBuilderDecl(u, pos)
	if trIsBuilderRoot(ty) {
		return t.qname(from, u, "TableLog"), true
	}
	return t.qname(from, u, "RowRef"), true
}

type trBuilderMethod struct {
	ctor   string
	onRow  bool
	params []types.Type
	names  []string
	retRow bool
}

// builderMethods: the methods of *Table and *Row that can be logged
func (t *trTranslator) builderMethods(u *trUnit, pos token.Pos) map[string]*trBuilderMethod {
	if t.builderMs != nil {
		return t.builderMs
	}
	p, err := t.l.load(trTablePath)
	if err != nil {
		trFail(pos, "cannot load %s: %v", trTablePath, err)
	}
	res := map[string]*trBuilderMethod{}
	for _, tn := range []string{"Table", "Row"} {
		obj, ok := p.tpkg.Scope().Lookup(tn).(*types.TypeName)
		if !ok {
			trFail(pos, "table.%s not found", tn)
		}
		ms := types.NewMethodSet(types.NewPointer(obj.Type()))
		for i := 0; i < ms.Len(); i++ {
			fo, ok := ms.At(i).Obj().(*types.Func)
			if !ok {
				continue
			}
			sig := fo.Type().(*types.Signature)
			if sig.Variadic() || !fo.Exported() {
				continue // (an unexported method cannot be called from another package)
			}
			m := &trBuilderMethod{ctor: fo.Name(), onRow: tn == "Row"}
			if m.onRow {
				m.ctor = "Row_" + fo.Name()
			}
			switch sig.Results().Len() {
			case 0:
			case 1:
				if !trIsBuilderRow(sig.Results().At(0).Type()) {
					continue
				}
				m.retRow = true
			default:
				continue
			}
			okParams := true
			for j := 0; j < sig.Params().Len(); j++ {
				pt := sig.Params().At(j).Type()
				func() {
					defer func() {
						if r := recover(); r != nil {
							if _, isRj := r.(trReject); !isRj {
								panic(r)
							}
							okParams = false
						}
					}()
					t.leanType(u, pt, pos)
				}()
				m.params = append(m.params, pt)
				n := sig.Params().At(j).Name()
				if n == "" || n == "_" {
					n = "a" + itoa(j+1)
				}
				m.names = append(m.names, trMangle(n))
			}
			if okParams {
				res[tn+"."+fo.Name()] = m
			}
		}
	}
	t.builderMs = res
	return res
}

func (t *trTranslator) needBuilderDecl(u *trUnit, pos token.Pos) {
	if t.builderDeclared {
		return
	}
	t.builderDeclared = true
	ms := t.builderMethods(u, pos)
	var keys []string
	for k := range ms {
		keys = append(keys, k)
	}
	sort.Strings(keys)
	var b strings.Builder
	b.WriteString("/-- Go: the calls of the builder API of `*table.Table` and of the rows it hands out (`*table.Row`: `row` is the number of the\n" +
		"`AddRow` call that created the row), as the translated code makes them; the table is the LOG of these calls -/\ninductive TableCall where\n  | New (groups : List Int)\n")
	for _, k := range keys {
		m := ms[k]
		line := "  | " + m.ctor
		if m.onRow {
			line += " (row : Nat)"
		}
		for i, pt := range m.params {
			line += " (" + m.names[i] + " : " + t.leanType(u, pt, pos) + ")"
		}
		b.WriteString(line + "\n")
	}
	b.WriteString("  deriving DecidableEq, Repr\n")
	b.WriteString("/-- Go: `*table.Table` (write-only for the translated code) -/\nabbrev TableLog := List TableCall\n")
	b.WriteString("/-- Go: `*table.Row`: the number of the `AddRow` call that created it -/\nabbrev RowRef := Nat\n")
	b.WriteString("/-- the number of rows added so far -/\ndef TableLog.rows (t : TableLog) : Nat := (t.filter (fun c => decide (c = TableCall.AddRow))).length\n")
	t.decls[u] = append(t.decls[u], b.String())
}

// builderCallInfo: is x a call of a loggable method of *Table / *Row?
func (c *trCtx) builderCallInfo(x *ast.CallExpr) (*trBuilderMethod, ast.Expr) {
	sel, ok := trUnparen(x.Fun).(*ast.SelectorExpr)
	if !ok {
		return nil, nil
	}
	s, ok := c.info().Selections[sel]
	if !ok || s.Kind() != types.MethodVal {
		return nil, nil
	}
	rt := c.typeOfOrNil(sel.X)
	var tn string
	switch {
	case trIsBuilderRoot(rt):
		tn = "Table"
	case trIsBuilderRow(rt):
		tn = "Row"
	default:
		return nil, nil
	}
	u := c.t.unitOf[trTablePath]
	if u == nil || u == c.unit() {
		return nil, nil // inside package table itself the methods are the functions they are
	}
	m := c.t.builderMethods(u, x.Pos())[tn+"."+sel.Sel.Name]
	if m == nil {
		trFail(x.Pos(), "call of (*table.%s).%s, which is not a write-only builder method, is outside the subset", tn, sel.Sel.Name)
	}
	return m, sel.X
}

// builderRoot: the table expression a builder call chain (or a row variable) belongs to
func (c *trCtx) builderRoot(e ast.Expr, depth int) ast.Expr {
	if depth > 20 {
		return nil
	}
	e = trUnparen(e)
	ty := c.typeOfOrNil(e)
	if trIsBuilderRoot(ty) {
		if trBaseIdent(e) == nil {
			trFail(e.Pos(), "a *table.Table that is not a variable or a field path is outside the subset")
		}
		return e
	}
	if !trIsBuilderRow(ty) {
		return nil
	}
	switch x := e.(type) {
	case *ast.CallExpr:
		if m, recv := c.builderCallInfo(x); m != nil {
			return c.builderRoot(recv, depth+1)
		}
	case *ast.Ident:
		// a row variable: its unique defining chain
		o := c.info().Uses[x]
		if o == nil {
			o = c.info().Defs[x]
		}
		var def ast.Expr
		count := 0
		ast.Inspect(c.fn.decl, func(n ast.Node) bool {
			if as, ok := n.(*ast.AssignStmt); ok && len(as.Lhs) == len(as.Rhs) {
				for i, l := range as.Lhs {
					if id, ok := l.(*ast.Ident); ok && (c.info().Defs[id] == o || c.info().Uses[id] == o) {
						count++
						def = as.Rhs[i]
					}
				}
			}
			return true
		})
		if count == 1 && def != nil {
			return c.builderRoot(def, depth+1)
		}
	}
	trFail(e.Pos(), "the table this *table.Row belongs to is not known (rows must be defined once by a chain `x := t.AddRow()…`)")
	return nil
}

// builderChain translates a chain of builder calls; k gets the Lean value of the row the chain yields ("" when it yields none)
func (c *trCtx) builderChain(e ast.Expr, k func(row string) trLines) trLines {
	e = trUnparen(e)
	if id, ok := e.(*ast.Ident); ok && trIsBuilderRow(c.typeOfOrNil(e)) {
		return k(c.ident(id))
	}
	x, ok := e.(*ast.CallExpr)
	if !ok {
		trFail(e.Pos(), "this use of a table builder object is outside the subset")
	}
	m, recv := c.builderCallInfo(x)
	if m == nil {
		trFail(e.Pos(), "this use of a table builder object is outside the subset")
	}
	root := c.builderRoot(recv, 0)
	u := c.t.unitOf[trTablePath]
	ctor := c.t.qname(c.unit(), u, "TableCall."+m.ctor)
	emit := func(row string) trLines {
		args := []string{}
		if m.onRow {
			args = append(args, row)
		}
		for i, a := range x.Args {
			args = append(args, c.exprAs(a, m.params[i]))
		}
		call := ctor
		if len(args) > 0 {
			call = "(" + ctor + " " + strings.Join(args, " ") + ")"
		}
		pre := c.takePre()
		return trWrapPre(pre, c.store(root, "("+c.expr(root)+" ++ ["+call+"])", x.Pos(), func() trLines {
			switch {
			case !m.retRow:
				return k("")
			case m.onRow:
				return k(row)
			default: // AddRow: the new row is the last one
				rn := c.fresh("row")
				return trLet(rn, "Nat", trOne("("+c.t.qname(c.unit(), u, "TableLog.rows")+" "+c.expr(root)+" - 1)"), k(rn))
			}
		}))
	}
	if m.onRow {
		return c.builderChain(recv, emit)
	}
	return emit("")
}

// builderStmt: a chain of builder calls as a statement, or assigned to a row variable
func (c *trCtx) builderStmt(e ast.Expr, lhs []ast.Expr, define bool, k trK) (trLines, bool) {
	x, ok := trUnparen(e).(*ast.CallExpr)
	if !ok {
		return nil, false
	}
	if m, _ := c.builderCallInfo(x); m == nil {
		return nil, false
	}
	return c.builderChain(x, func(row string) trLines {
		if len(lhs) == 0 {
			return k()
		}
		if len(lhs) != 1 || row == "" {
			trFail(x.Pos(), "this builder call has no result to assign")
		}
		if define {
			c.declare(lhs[0])
		}
		return c.store(lhs[0], row, x.Pos(), k)
	}), true
}

// builderNew: table.New(a, b, c)
func (c *trCtx) builderNew(x *ast.CallExpr) (string, bool) {
	fo := c.calledFunc(x)
	if fo == nil || fo.Pkg() == nil || fo.Pkg().Path() != trTablePath || fo.Name() != "New" {
		return "", false
	}
	if x.Ellipsis != token.NoPos {
		trFail(x.Pos(), "table.New with … is outside the subset")
	}
	u := c.t.unitOf[trTablePath]
	lt := c.leanType(c.typeOf(x), x.Pos())
	var args []string
	for _, a := range x.Args {
		args = append(args, c.expr(a))
	}
	return "([" + c.t.qname(c.unit(), u, "TableCall.New") + " [" + strings.Join(args, ", ") + "]] : " + lt + ")", true
}

// builderAssignedIn: a builder call assigns (appends to) the table its chain starts from
func (c *trCtx) builderAssignedIn(x *ast.CallExpr, mark func(ast.Expr)) {
	sel, ok := trUnparen(x.Fun).(*ast.SelectorExpr)
	if !ok {
		return
	}
	rt := c.typeOfOrNil(sel.X)
	if !trIsBuilderRoot(rt) && !trIsBuilderRow(rt) || c.unit() == c.t.unitOf[trTablePath] {
		return
	}
	var root ast.Expr
	func() {
		defer func() {
			if r := recover(); r != nil {
				if _, isRj := r.(trReject); !isRj {
					panic(r)
				}
			}
		}()
		root = c.builderRoot(sel.X, 0)
	}()
	if root != nil {
		mark(root)
	}
}
