import Knut.Proofs.Portfolio
/-! Lemmas for C20: what `Perf` prints for ONE period of the partition is the chained growth factor of the days of that
period (and of no other day), whatever happens in the other periods. -/
namespace Knut.Performance
open Knut

deriving instance DecidableEq for Partition
deriving instance DecidableEq for Res
deriving instance DecidableEq for DayPerf
deriving instance DecidableEq for BalErr
deriving instance DecidableEq for Except

/-! ### `Perf` without the window test -/

/-- `Perf` on the days inside the window: chain, report and reset on period end days -/
def chunkLines (ends : List Int) : Option Rat → List DayPerf → List (Int × Option Rat)
  | _, [] => []
  | running, p :: rest =>
    if ends.contains p.date then (p.date, (mulOpt running (factor p)).map (· - 1)) :: chunkLines ends (some 1) rest
    else chunkLines ends (mulOpt running (factor p)) rest

theorem chunkLines_cons (ends : List Int) (r : Option Rat) (p : DayPerf) (rest : List DayPerf) :
    chunkLines ends r (p :: rest) =
      if ends.contains p.date then (p.date, (mulOpt r (factor p)).map (· - 1)) :: chunkLines ends (some 1) rest
      else chunkLines ends (mulOpt r (factor p)) rest := rfl

theorem perfLines_eq_chunk (span : Period) (ends : List Int) : ∀ (perfs : List DayPerf) (r : Option Rat),
    perfLines span ends r perfs = chunkLines ends r (perfs.filter (fun p => span.contains p.date)) := by
  intro perfs
  induction perfs with
  | nil => intro r; rfl
  | cons p rest ih =>
    intro r
    unfold perfLines
    by_cases hc : span.contains p.date = true
    · simp only [hc, Bool.not_true, Bool.false_eq_true, if_false, List.filter_cons, if_true]
      rw [chunkLines_cons]
      split
      · rw [ih]
      · rw [ih]
    · have hc' : span.contains p.date = false := by simpa using hc
      simp only [hc', Bool.not_false, if_true, List.filter_cons, Bool.false_eq_true, if_false]
      exact ih r

/-- the chained growth factor of a list of days -/
def chain (r : Option Rat) (ps : List DayPerf) : Option Rat := ps.foldl (fun a p => mulOpt a (factor p)) r

/-- the running product `Perf` holds after a list of days -/
def runningAfter (ends : List Int) : Option Rat → List DayPerf → Option Rat
  | r, [] => r
  | r, p :: rest =>
    if ends.contains p.date then runningAfter ends (some 1) rest else runningAfter ends (mulOpt r (factor p)) rest

theorem runningAfter_cons (ends : List Int) (r : Option Rat) (p : DayPerf) (rest : List DayPerf) :
    runningAfter ends r (p :: rest) =
      if ends.contains p.date then runningAfter ends (some 1) rest else runningAfter ends (mulOpt r (factor p)) rest := rfl

theorem chunkLines_append (ends : List Int) : ∀ (A B : List DayPerf) (r : Option Rat),
    chunkLines ends r (A ++ B) = chunkLines ends r A ++ chunkLines ends (runningAfter ends r A) B := by
  intro A
  induction A with
  | nil => intro B r; rfl
  | cons p rest ih =>
    intro B r
    simp only [List.cons_append, chunkLines_cons, runningAfter_cons]
    split
    · rw [ih]; rfl
    · rw [ih]

theorem runningAfter_end (ends : List Int) (q : DayPerf) (hq : ends.contains q.date = true) :
    ∀ (A : List DayPerf) (r : Option Rat), runningAfter ends r (A ++ [q]) = some 1 := by
  intro A
  induction A with
  | nil => intro r; simp only [List.nil_append, runningAfter_cons, hq, if_true]; rfl
  | cons p rest ih =>
    intro r
    simp only [List.cons_append, runningAfter_cons]
    split
    · exact ih _
    · exact ih _

/-- the days of one period: none but the last is a period end -/
theorem chunkLines_period (ends : List Int) : ∀ (M : List DayPerf) (last : DayPerf) (B : List DayPerf) (r : Option Rat),
    (∀ p ∈ M, ends.contains p.date = false) → ends.contains last.date = true →
    chunkLines ends r (M ++ last :: B) =
      (last.date, (chain r (M ++ [last])).map (· - 1)) :: chunkLines ends (some 1) B := by
  intro M
  induction M with
  | nil =>
    intro last B r _ hl
    simp only [List.nil_append, chunkLines_cons, hl, if_true]
    rfl
  | cons p rest ih =>
    intro last B r hM hl
    simp only [List.cons_append, chunkLines_cons]
    rw [if_neg (by rw [hM p List.mem_cons_self]; simp)]
    rw [ih last B _ (fun q hq => hM q (List.mem_cons_of_mem _ hq)) hl]
    rfl

/-! ### splitting a list of days that is sorted by date -/

def DSorted (L : List DayPerf) : Prop := List.Pairwise (fun a b => a.date < b.date) L

theorem DSorted.filter {L : List DayPerf} (h : DSorted L) (f : DayPerf → Bool) : DSorted (L.filter f) :=
  List.Pairwise.sublist List.filter_sublist h

theorem dsorted_of_dates {L : List DayPerf} (h : List.Pairwise (· < ·) (L.map (·.date))) : DSorted L := by
  unfold DSorted
  rw [List.pairwise_map] at h
  exact h

/-- a sorted list splits at a threshold -/
theorem split_lt : ∀ (L : List DayPerf), DSorted L → ∀ s : Int,
    L = L.filter (fun p => decide (p.date < s)) ++ L.filter (fun p => decide (s ≤ p.date)) := by
  intro L
  induction L with
  | nil => intro _ s; rfl
  | cons p rest ih =>
    intro hs s
    unfold DSorted at hs
    rw [List.pairwise_cons] at hs
    obtain ⟨h1, h2⟩ := hs
    by_cases hp : p.date < s
    · have hp' : ¬ s ≤ p.date := by omega
      simp only [List.filter_cons, hp, hp', decide_true, decide_false, if_true, Bool.false_eq_true, if_false,
        List.cons_append]
      congr 1
      exact ih h2 s
    · have hp' : s ≤ p.date := by omega
      have e1 : rest.filter (fun p => decide (p.date < s)) = [] := by
        rw [List.filter_eq_nil_iff]
        intro q hq
        have := h1 q hq
        simp; omega
      have e2 : rest.filter (fun p => decide (s ≤ p.date)) = rest := by
        rw [List.filter_eq_self]
        intro q hq
        have := h1 q hq
        simp; omega
      simp only [List.filter_cons, hp, hp', decide_true, decide_false, if_true, Bool.false_eq_true, if_false, e1, e2,
        List.nil_append]

/-- a sorted list splits at one of its elements -/
theorem split_at : ∀ (L : List DayPerf), DSorted L → ∀ x ∈ L,
    L = L.filter (fun p => decide (p.date < x.date)) ++ x :: L.filter (fun p => decide (x.date < p.date)) := by
  intro L
  induction L with
  | nil => intro _ x hx; cases hx
  | cons p rest ih =>
    intro hs x hx
    have hs' := hs
    unfold DSorted at hs
    rw [List.pairwise_cons] at hs
    obtain ⟨h1, h2⟩ := hs
    rcases List.mem_cons.mp hx with rfl | hx
    · have e1 : rest.filter (fun p => decide (p.date < x.date)) = [] := by
        rw [List.filter_eq_nil_iff]
        intro q hq
        have := h1 q hq
        simp; omega
      have e2 : rest.filter (fun p => decide (x.date < p.date)) = rest := by
        rw [List.filter_eq_self]
        intro q hq
        have := h1 q hq
        simp; omega
      simp [e1, e2]
    · have hlt := h1 x hx
      have hn : ¬ x.date < p.date := by omega
      simp only [List.filter_cons, hlt, hn, decide_true, decide_false, if_true, Bool.false_eq_true, if_false,
        List.cons_append]
      congr 1
      exact ih h2 x hx

/-! ### the line of one period -/

/-- the days of the period `[s, e]` -/
def periodDays (perfs : List DayPerf) (s e : Int) : List DayPerf :=
  perfs.filter (fun p => decide (s ≤ p.date) && decide (p.date ≤ e))

/-- the chained growth factor of the period `[s, e]` -/
def periodFactor (perfs : List DayPerf) (s e : Int) : Option Rat := chain (some 1) (periodDays perfs s e)

/-- **one period**: in a list of days sorted by date, if `e` is a period end that has a day, no period end lies in
`[s, e)`, and the day before `s` is a period end with a day (or there is no day before `s`), the line for `e` is the
chained factor of the days in `[s, e]` minus one — whatever the other days are -/
theorem chunk_line_of_period (ends : List Int) (L : List DayPerf) (hs : DSorted L) (s e : Int)
    (last : DayPerf) (hl : last ∈ L) (hle : last.date = e) (hse : s ≤ e) (he : ends.contains e = true)
    (hno : ∀ x ∈ ends, ¬ (s ≤ x ∧ x < e))
    (hprev : (∀ p ∈ L, s ≤ p.date) ∨ (∃ q ∈ L, q.date = s - 1 ∧ ends.contains (s - 1) = true)) :
    (e, (periodFactor L s e).map (· - 1)) ∈ chunkLines ends (some 1) L := by
  -- L = A ++ last :: B
  have h1 := split_at L hs last hl
  rw [hle] at h1
  generalize hA : L.filter (fun p => decide (p.date < e)) = A at h1
  generalize hB : L.filter (fun p => decide (e < p.date)) = B at h1
  have hAs : DSorted A := by rw [← hA]; exact hs.filter _
  -- A = A1 ++ M
  have h2 := split_lt A hAs s
  generalize hA1 : A.filter (fun p => decide (p.date < s)) = A1 at h2
  generalize hM : A.filter (fun p => decide (s ≤ p.date)) = M at h2
  have hAmem : ∀ p ∈ A, p ∈ L ∧ p.date < e := by
    intro p hp
    rw [← hA, List.mem_filter] at hp
    exact ⟨hp.1, by simpa using hp.2⟩
  have hMmem : ∀ p ∈ M, s ≤ p.date ∧ p.date < e := by
    intro p hp
    rw [← hM, List.mem_filter] at hp
    exact ⟨by simpa using hp.2, (hAmem p hp.1).2⟩
  have hBmem : ∀ p ∈ B, e < p.date := by
    intro p hp
    rw [← hB, List.mem_filter] at hp
    simpa using hp.2
  -- the period's days
  have hpd : periodDays L s e = M ++ [last] := by
    unfold periodDays
    rw [h1, h2, List.filter_append, List.filter_append, List.filter_cons]
    have e1 : A1.filter (fun p => decide (s ≤ p.date) && decide (p.date ≤ e)) = [] := by
      rw [List.filter_eq_nil_iff]
      intro p hp
      rw [← hA1, List.mem_filter] at hp
      have : p.date < s := by simpa using hp.2
      simp; omega
    have e2 : M.filter (fun p => decide (s ≤ p.date) && decide (p.date ≤ e)) = M := by
      rw [List.filter_eq_self]
      intro p hp
      have := hMmem p hp
      simp; omega
    have e3 : B.filter (fun p => decide (s ≤ p.date) && decide (p.date ≤ e)) = [] := by
      rw [List.filter_eq_nil_iff]
      intro p hp
      have := hBmem p hp
      simp; omega
    have e4 : (decide (s ≤ last.date) && decide (last.date ≤ e)) = true := by simp; omega
    rw [e1, e2, e3, e4]
    simp
  -- the running product after A1 is 1
  have hrun : runningAfter ends (some 1) A1 = some 1 := by
    rcases hprev with hall | ⟨q, hqL, hqd, hqe⟩
    · have : A1 = [] := by
        rw [← hA1, List.filter_eq_nil_iff]
        intro p hp
        have := hall p (hAmem p hp).1
        simp; omega
      rw [this]; rfl
    · have hqA : q ∈ A := by rw [← hA, List.mem_filter]; exact ⟨hqL, by simp; omega⟩
      have hqA1 : q ∈ A1 := by rw [← hA1, List.mem_filter]; exact ⟨hqA, by simp; omega⟩
      have hA1s : DSorted A1 := by rw [← hA1]; exact hAs.filter _
      have h3 := split_at A1 hA1s q hqA1
      have e5 : A1.filter (fun p => decide (q.date < p.date)) = [] := by
        rw [List.filter_eq_nil_iff]
        intro p hp
        rw [← hA1, List.mem_filter] at hp
        have : p.date < s := by simpa using hp.2
        simp; omega
      rw [e5] at h3
      rw [h3]
      exact runningAfter_end ends q (by rw [hqd]; exact hqe) _ _
  unfold periodFactor
  rw [hpd]
  rw [h1, h2, List.append_assoc, chunkLines_append, hrun, chunkLines_period ends M last B (some 1)
    (fun p hp => by
      have := hMmem p hp
      cases hc : ends.contains p.date with
      | false => rfl
      | true =>
        exfalso
        exact hno p.date (by simpa using hc) this)
    (by rw [hle]; exact he)]
  rw [hle]
  exact List.mem_append_right _ List.mem_cons_self

/-! ### the chained factor of a period: all factors 1, or no flows -/

theorem chain_all_one : ∀ (L : List DayPerf), (∀ p ∈ L, factor p = some 1) → chain (some 1) L = some 1 := by
  intro L
  induction L with
  | nil => intro _; rfl
  | cons p rest ih =>
    intro h
    unfold chain
    rw [List.foldl_cons, h p List.mem_cons_self, mulOpt_one]
    exact ih (fun q hq => h q (List.mem_cons_of_mem _ hq))

theorem chain_no_flows : ∀ (L : List DayPerf) (r : Rat),
    (∀ p ∈ L, p.portfolioFlows = 0 ∧ p.inflow = 0 ∧ p.outflow = 0 ∧ sumVals p.v0 ≠ 0) →
    chain (some r) L = some (chainFactor r L) := by
  intro L
  induction L with
  | nil => intro r _; rfl
  | cons p rest ih =>
    intro r h
    obtain ⟨f1, f2, f3, f4⟩ := h p List.mem_cons_self
    unfold chain
    rw [List.foldl_cons, factor_no_flows p f1 f2 f3 f4]
    exact ih _ (fun q hq => h q (List.mem_cons_of_mem _ hq))

theorem lastV1_append : ∀ (X Y : List DayPerf) (prev : AMap Commodity Rat),
    lastV1 prev (X ++ Y) = lastV1 (lastV1 prev X) Y := by
  intro X
  induction X with
  | nil => intro Y prev; rfl
  | cons x rest ih => intro Y prev; exact ih Y x.v1

theorem linked_append : ∀ (X Y : List DayPerf) (prev : AMap Commodity Rat),
    Linked prev (X ++ Y) → Linked prev X ∧ Linked (lastV1 prev X) Y := by
  intro X
  induction X with
  | nil => intro Y prev h; exact ⟨trivial, h⟩
  | cons x rest ih =>
    intro Y prev h
    obtain ⟨h0, h1⟩ := h
    obtain ⟨i1, i2⟩ := ih Y x.v1 h1
    exact ⟨⟨h0, i1⟩, i2⟩

/-- the value per commodity of the portfolio at the end of day `D`: what `ComputeValues` recorded on the last day not
after `D` (nothing before the first day) -/
def valueAt (perfs : List DayPerf) (D : Int) : AMap Commodity Rat :=
  lastV1 [] (perfs.filter (fun p => decide (p.date ≤ D)))

/-- a sorted list of days splits into the days before, in and after `[s, e]` -/
theorem split3 (L : List DayPerf) (hs : DSorted L) (s e : Int) (hse : s ≤ e) :
    L = L.filter (fun p => decide (p.date < s)) ++ periodDays L s e ++ L.filter (fun p => decide (e < p.date)) := by
  have h1 := split_lt L hs s
  have h2 := split_lt (L.filter (fun p => decide (s ≤ p.date))) (hs.filter _) (e + 1)
  rw [List.filter_filter, List.filter_filter] at h2
  have e1 : L.filter (fun p => decide (p.date < e + 1) && decide (s ≤ p.date)) = periodDays L s e := by
    unfold periodDays
    apply List.filter_congr
    intro p _
    by_cases a : s ≤ p.date <;> by_cases b : p.date ≤ e <;> simp [a, b] <;> omega
  have e2 : L.filter (fun p => decide (e + 1 ≤ p.date) && decide (s ≤ p.date)) = L.filter (fun p => decide (e < p.date)) := by
    apply List.filter_congr
    intro p _
    by_cases a : s ≤ p.date <;> by_cases b : e < p.date <;> simp [a, b] <;> omega
  rw [e1, e2] at h2
  rw [List.append_assoc, ← h2]
  exact h1

/-- **a period without flows**: over the days of `[s, e]` (at least the day `e`), if no day has flows and every day starts
with a non-zero value, the chained factor is the value at the end of `e` over the value at the end of `s − 1` -/
theorem periodFactor_ratio (perfs : List DayPerf) (hl : Linked [] perfs) (hs : DSorted perfs) (s e : Int) (hse : s ≤ e)
    (hrec : ∃ q ∈ perfs, q.date = e)
    (hnf : ∀ p ∈ perfs, s ≤ p.date → p.date ≤ e →
      p.portfolioFlows = 0 ∧ p.inflow = 0 ∧ p.outflow = 0 ∧ sumVals p.v0 ≠ 0) :
    periodFactor perfs s e = some (sumVals (valueAt perfs e) / sumVals (valueAt perfs (s - 1))) := by
  have h3 := split3 perfs hs s e hse
  generalize hA : perfs.filter (fun p => decide (p.date < s)) = A at h3
  generalize hB : perfs.filter (fun p => decide (e < p.date)) = B at h3
  generalize hM : periodDays perfs s e = M at h3
  have hMmem : ∀ p ∈ M, p ∈ perfs ∧ s ≤ p.date ∧ p.date ≤ e := by
    intro p hp
    rw [← hM] at hp
    unfold periodDays at hp
    rw [List.mem_filter] at hp
    simp only [Bool.and_eq_true, decide_eq_true_eq] at hp
    exact ⟨hp.1, hp.2.1, hp.2.2⟩
  have hnfM : ∀ p ∈ M, p.portfolioFlows = 0 ∧ p.inflow = 0 ∧ p.outflow = 0 ∧ sumVals p.v0 ≠ 0 := by
    intro p hp
    obtain ⟨a, b, c⟩ := hMmem p hp
    exact hnf p a b c
  -- the values before and after
  have hv0 : valueAt perfs (s - 1) = lastV1 [] A := by
    unfold valueAt
    rw [← hA]
    congr 1
    apply List.filter_congr
    intro p _
    by_cases a : p.date < s <;> simp [a] <;> omega
  have hv1 : valueAt perfs e = lastV1 (lastV1 [] A) M := by
    unfold valueAt
    rw [← lastV1_append]
    congr 1
    have : perfs.filter (fun p => decide (p.date ≤ e)) = (A ++ M ++ B).filter (fun p => decide (p.date ≤ e)) := by
      rw [← h3]
    rw [this, List.filter_append, List.filter_append]
    have e1 : A.filter (fun p => decide (p.date ≤ e)) = A := by
      rw [List.filter_eq_self]
      intro p hp
      rw [← hA, List.mem_filter] at hp
      have : p.date < s := by simpa using hp.2
      simp; omega
    have e2 : M.filter (fun p => decide (p.date ≤ e)) = M := by
      rw [List.filter_eq_self]
      intro p hp
      have := (hMmem p hp).2.2
      simpa using this
    have e3 : B.filter (fun p => decide (p.date ≤ e)) = [] := by
      rw [List.filter_eq_nil_iff]
      intro p hp
      rw [← hB, List.mem_filter] at hp
      have : e < p.date := by simpa using hp.2
      simp; omega
    rw [e1, e2, e3, List.append_nil]
  -- the period's days are linked to the value before
  rw [h3, List.append_assoc] at hl
  have hlM : Linked (lastV1 [] A) M := (linked_append M B _ (linked_append A (M ++ B) [] hl).2).1
  -- M is not empty
  obtain ⟨q, hq, hqe⟩ := hrec
  have hqM : q ∈ M := by
    rw [← hM]
    unfold periodDays
    rw [List.mem_filter]
    exact ⟨hq, by simp; omega⟩
  have hprev : sumVals (lastV1 [] A) ≠ 0 := by
    cases M with
    | nil => cases hqM
    | cons x xs =>
      obtain ⟨h0, _⟩ := hlM
      have := (hnfM x List.mem_cons_self).2.2.2
      rw [h0] at this; exact this
  unfold periodFactor
  rw [hM, chain_no_flows M 1 hnfM, hv0, hv1]
  have hacc : (1 : Rat) = sumVals (lastV1 [] A) / sumVals (lastV1 [] A) := by
    rw [Rat.div_def, Rat.mul_inv_cancel _ hprev]
  rw [chain_telescopes M (lastV1 [] A) 1 (sumVals (lastV1 [] A)) hlM (fun p hp => (hnfM p hp).2.2.2) hprev hacc]

/-! ### the periods of the command's partition -/

theorem take_consecutiveRev' : ∀ (L : List Period) (n : Nat), ConsecutiveRev L → ConsecutiveRev (L.take n)
  | [], n, _ => by simp; trivial
  | [p], n, _ => by cases n <;> simp <;> trivial
  | p :: q :: rest, 0, _ => trivial
  | p :: q :: rest, 1, _ => by simp; trivial
  | p :: q :: rest, n + 2, hc => by
    simp only [List.take_succ_cons]
    exact ⟨hc.1, by simpa using take_consecutiveRev' (q :: rest) (n + 1) hc.2⟩

/-- the shape of the period list of `NewPartition`: the window itself (`once`), or the reversal of a newest-first list of
well-formed, separated, consecutive periods inside the window -/
theorem periods_shape {span : Period} {iv : Interval} {last : Int} {P : Partition}
    (h : newPartition span iv last = .ok P) :
    P.span = span ∧ (P.periods = [span] ∨ ∃ L : List Period, P.periods = L.reverse ∧
      List.Pairwise (fun p q => q.stop < p.start) L ∧
      (∀ p ∈ L, span.start ≤ p.start ∧ p.start ≤ p.stop ∧ p.stop ≤ span.stop) ∧ ConsecutiveRev L) := by
  unfold newPartition at h
  split at h
  · cases h
  · injection h with h; subst h
    refine ⟨rfl, ?_⟩
    simp only
    unfold periodsOf
    split
    · exact Or.inl rfl
    · right
      by_cases hl : last ≤ 0
      · have ht := partLoop_tiles span.start iv last span.stop 0 hl
        exact ⟨_, rfl, tiles_starts_decreasing ht, fun p hp => by have := Tiles.mem_bounds ht p hp; omega,
          ht.consecutiveRev⟩
      · rw [partLoop_last _ _ _ _ _ (by omega) (Int.le_refl _) (by omega)]
        have ht := partLoop_tiles span.start iv 0 span.stop 0 (Int.le_refl _)
        exact ⟨_, rfl, (tiles_starts_decreasing ht).sublist (List.take_sublist _ _),
          fun p hp => by have := Tiles.mem_bounds ht p (List.mem_of_mem_take hp); omega,
          take_consecutiveRev' _ _ ht.consecutiveRev⟩

theorem pairwise_mem {α : Type} {R : α → α → Prop} : ∀ {l : List α}, List.Pairwise R l → ∀ a ∈ l, ∀ b ∈ l,
    a = b ∨ R a b ∨ R b a := by
  intro l
  induction l with
  | nil => intro _ a ha; cases ha
  | cons x rest ih =>
    intro hp a ha b hb
    rw [List.pairwise_cons] at hp
    rcases List.mem_cons.mp ha with ha' | ha' <;> rcases List.mem_cons.mp hb with hb' | hb'
    · exact Or.inl (ha'.trans hb'.symm)
    · subst ha'; exact Or.inr (Or.inl (hp.1 b hb'))
    · subst hb'; exact Or.inr (Or.inr (hp.1 a ha'))
    · exact ih hp.2 a ha' b hb'

theorem consecutiveRev_pred : ∀ (L : List Period), ConsecutiveRev L → ∀ p ∈ L,
    L.getLast? = some p ∨ ∃ q ∈ L, q.stop + 1 = p.start
  | [], _, p, hp => by cases hp
  | [x], _, p, hp => by
    simp only [List.mem_singleton] at hp; subst hp
    exact Or.inl rfl
  | x :: y :: rest, hc, p, hp => by
    obtain ⟨h1, h2⟩ := hc
    rcases List.mem_cons.mp hp with rfl | hp
    · exact Or.inr ⟨y, by simp, h1⟩
    · rcases consecutiveRev_pred (y :: rest) h2 p hp with hl | ⟨q, hq, hqp⟩
      · left; rw [List.getLast?_cons_cons]; exact hl
      · exact Or.inr ⟨q, List.mem_cons_of_mem _ hq, hqp⟩

/-- what the per-period statements need of the partition: for a non-empty period `p` of the partition — its end is a
period end inside the days `Perf` looks at, no period end lies in `[p.start, p.stop)`, and either `p` is the first
period, starting where `Perf` starts, or the day before `p.start` is a period end `Perf` looks at -/
theorem period_facts {span : Period} {iv : Interval} {last : Int} {P : Partition}
    (h : newPartition span iv last = .ok P) (p : Period) (hp : p ∈ P.periods) (hne : p.start ≤ p.stop) :
    (perfSpan P).start ≤ p.start ∧ p.stop ≤ (perfSpan P).stop ∧
    (∀ x ∈ P.endDates, ¬ (p.start ≤ x ∧ x < p.stop)) ∧
    ((perfSpan P).start = p.start ∨
      (p.start - 1 ∈ P.endDates ∧ (perfSpan P).start ≤ p.start - 1)) := by
  obtain ⟨hspan, hshape⟩ := periods_shape h
  have hps : ∀ s0 : Int, (P.periods.map (·.start)).head? = some s0 →
      (perfSpan P).start = (if span.start < s0 then s0 else span.start) ∧ (perfSpan P).stop = span.stop := by
    intro s0 hs0
    unfold perfSpan Partition.startDates
    cases hm : P.periods.map (·.start) with
    | nil => rw [hm] at hs0; cases hs0
    | cons a rest =>
      rw [hm] at hs0; simp only [List.head?_cons, Option.some.injEq] at hs0; subst hs0
      simp [hspan]
  rcases hshape with hone | ⟨L, hL, hsep, hb, hcons⟩
  · rw [hone] at hp
    simp only [List.mem_singleton] at hp; subst hp
    obtain ⟨e1, e2⟩ := hps p.start (by rw [hone]; rfl)
    refine ⟨by rw [e1]; split <;> omega, by rw [e2]; omega, ?_, Or.inl (by rw [e1]; split <;> omega)⟩
    intro x hx
    unfold Partition.endDates at hx
    rw [hone] at hx
    simp only [List.map_cons, List.map_nil, List.mem_singleton] at hx
    omega
  · have hpL : p ∈ L := by rw [hL] at hp; exact List.mem_reverse.mp hp
    -- the oldest period
    cases hlast : L.getLast? with
    | none =>
      rw [List.getLast?_eq_none_iff] at hlast
      rw [hlast] at hpL; cases hpL
    | some o =>
      have hoL : o ∈ L := List.mem_of_getLast? hlast
      have hhead : (P.periods.map (·.start)).head? = some o.start := by
        rw [hL, List.head?_map, List.head?_reverse, hlast]; rfl
      obtain ⟨e1, e2⟩ := hps o.start hhead
      have ho_le : ∀ q ∈ L, o.start ≤ q.start := by
        intro q hq
        obtain ⟨init, hinit⟩ : ∃ init, L = init ++ [o] := List.getLast?_eq_some_iff.mp hlast
        rw [hinit] at hq hsep
        rcases List.mem_append.mp hq with hq | hq
        · rw [List.pairwise_append] at hsep
          have := hsep.2.2 q hq o (by simp)
          have := (hb o hoL).2.1
          omega
        · simp only [List.mem_singleton] at hq; subst hq; omega
      have hbp := hb p hpL
      have hbo := hb o hoL
      have hstart_le : (perfSpan P).start ≤ p.start := by
        rw [e1]; have := ho_le p hpL; split <;> omega
      refine ⟨hstart_le, by rw [e2]; omega, ?_, ?_⟩
      · intro x hx
        unfold Partition.endDates at hx
        rw [hL] at hx
        obtain ⟨q, hq, rfl⟩ := List.mem_map.mp hx
        have hqL : q ∈ L := List.mem_reverse.mp hq
        rcases pairwise_mem hsep p hpL q hqL with rfl | h1 | h1
        · omega
        · omega
        · have := (hb q hqL).2.1; omega
      · rcases consecutiveRev_pred L hcons p hpL with hl | ⟨q, hq, hqp⟩
        · left
          rw [hlast] at hl; injection hl with hl; subst hl
          rw [e1]; split <;> omega
        · right
          refine ⟨?_, ?_⟩
          · unfold Partition.endDates
            rw [hL]
            exact List.mem_map.mpr ⟨q, List.mem_reverse.mpr hq, by omega⟩
          · have := ho_le q hq
            have := (hb q hq).2.1
            rw [e1]; split <;> omega

/-- **the line of a period**: for every non-empty period of the command's partition, `Perf` prints the chained growth
factor of the days of that period, minus one, under the period's end date -/
theorem perfLines_period_line {f : Flags} {ds : List Directive} {part : Partition} {days : List Day} {perfs : List DayPerf}
    (hs : setup f ds = .ok (part, days)) (hp : perfFrom f.cfg {} days = .ok perfs)
    (p : Period) (hpp : p ∈ part.periods) (hne : p.start ≤ p.stop) :
    (p.stop, (periodFactor perfs p.start p.stop).map (· - 1)) ∈
      perfLines (perfSpan part) part.endDates (some 1) perfs := by
  obtain ⟨hsorted, hreg, window, hnp⟩ := setup_days hs
  have hdates := perfFrom_dates days {} perfs hp
  rw [← hdates] at hsorted hreg
  obtain ⟨f1, f2, f3, f4⟩ := period_facts hnp p hpp hne
  have hds : DSorted perfs := dsorted_of_dates hsorted
  rw [perfLines_eq_chunk]
  generalize hL : perfs.filter (fun q => (perfSpan part).contains q.date) = L
  have hLs : DSorted L := by rw [← hL]; exact hds.filter _
  have hLmem : ∀ q, q ∈ L ↔ q ∈ perfs ∧ (perfSpan part).start ≤ q.date ∧ q.date ≤ (perfSpan part).stop := by
    intro q
    rw [← hL, List.mem_filter]
    simp only [Period.contains, Bool.and_eq_true, Bool.not_eq_true', decide_eq_false_iff_not]
    constructor
    · rintro ⟨h1, h2, h3⟩; exact ⟨h1, by omega, by omega⟩
    · rintro ⟨h1, h2, h3⟩; exact ⟨h1, by omega, by omega⟩
  -- the record of a registered period end
  have hrec : ∀ e ∈ part.endDates, ∃ q ∈ perfs, q.date = e := by
    intro e he
    obtain ⟨q, hq, hqe⟩ := List.mem_map.mp (hreg e he)
    exact ⟨q, hq, hqe⟩
  have hpe : p.stop ∈ part.endDates := List.mem_map.mpr ⟨p, hpp, rfl⟩
  obtain ⟨lastR, hlast, hlastd⟩ := hrec p.stop hpe
  have hsame : periodFactor L p.start p.stop = periodFactor perfs p.start p.stop := by
    unfold periodFactor periodDays
    rw [← hL, List.filter_filter]
    congr 1
    apply List.filter_congr
    intro q _
    simp only [Period.contains]
    by_cases h1 : p.start ≤ q.date <;> by_cases h2 : q.date ≤ p.stop <;> simp [h1, h2] <;> omega
  rw [← hsame]
  apply chunk_line_of_period part.endDates L hLs p.start p.stop lastR
    ((hLmem lastR).mpr ⟨hlast, by omega, by omega⟩) hlastd hne (by simpa using hpe) f3
  rcases f4 with h4 | ⟨h4, h5⟩
  · left
    intro q hq
    have := (hLmem q).mp hq
    omega
  · right
    obtain ⟨q, hq, hqd⟩ := hrec (p.start - 1) h4
    exact ⟨q, (hLmem q).mpr ⟨hq, by omega, by omega⟩, hqd, by simpa using h4⟩

end Knut.Performance
