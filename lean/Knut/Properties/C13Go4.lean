import Knut.Properties.C13
import Knut.FactsAgree.TransImportSwisscardRun
/-!
# C13 (the row clauses) on the generated per-record function of `ch.swisscard`

`Properties/C13.lean` states the row clauses about the hand model `Import.Swisscard.run`; `FactsAgree/TransImportSwisscardRun.lean`
proves that `loop` — the TRANSLATED `swisscard.parser.readLine` (regenerated from /repo on every run) folded over the results of the
`encoding/csv.Reader` as the Go `parser.parse` folds it — computes that model (`run_agrees`, index panics included).  This module
composes them: the clauses are stated about what the fold of the generated function leaves in the parser's `journal.Builder`.

Hypotheses, all about what stays outside the translation: the reader delivers the records `recs` of the file (`deliveries`:
`FieldsPerRecord = 0`, a record of another length than the first comes with `csv.ErrFieldCount`; `io.EOF` after the last); `ext2` = the
result of `Commodities().Get("CHF")` (the interned commodity, no error); `ext3` = the interned `Expenses:TBD`; the parser starts with
the fresh builder (`journal.New`, `New_agrees`) and the account of the `--account` flag.  No hypothesis on the records: where the
model panics the fold panics too, so it does not return nil.
-/
namespace Knut.C13Go4
open Knut Knut.Import Knut.Spec.Import Knut.Proofs.Import
open Knut.GoSem Knut.Generated.Go
open Knut.FactsAgree.TransAccount Knut.FactsAgree.TransPosting Knut.FactsAgree.TransJournal
open Knut.FactsAgree.TransImportSwisscardRun

/-- where the fold of the translated `readLine` returns nil, the model run succeeded and the Go builder stands for the model's -/
theorem parse_ok_run (cur : String → Bool) (acct : Account) (ext2 : commodity.Commodity × Option Error) (ext3 : account.Account)
    (h2 : ext2 = (commodityGo cur "CHF", none)) (h3 : ext3 = accountGo tbd)
    (recs : List Rec) (p p' : swisscard.parser) (hb : BEquiv cur p.builder {}) (hacct : p.account = accountGo acct)
    (h : loop ext2 ext3 p (deliveries recs) = .ok (p', none)) :
    ∃ ds, Swisscard.run acct recs = .ok ds ∧ BEquiv cur p'.builder (Builder.ofList ds) := by
  have ha := run_agrees cur acct ext2 ext3 h2 h3 recs p {} hb hacct
  cases hrun : Swisscard.run acct recs with
  | ok ds =>
    rw [hrun] at ha
    obtain ⟨q, hq, _, hbq⟩ := ha
    rw [h] at hq
    cases hq
    exact ⟨ds, rfl, hbq⟩
  | error =>
    rw [hrun] at ha
    obtain ⟨q, e, hq⟩ := ha
    rw [h] at hq
    cases hq
  | panic =>
    rw [hrun] at ha
    obtain ⟨m, hm⟩ := ha
    rw [h] at hm
    cases hm

/-- **`C13_swisscard` on the generated function**: when the fold of the translated `readLine` over the file's records returns nil, the
builder it leaves stands for `Builder.ofList ds` of directives `ds` that are `Faithful` to the statement's items — every record whose
first two fields hold dates ↦ exactly one transaction on the first date lowering the card account by the billing amount (field 3
without `CHF` and `'`) in CHF, nothing else -/
theorem C13_swisscard_go (cur : String → Bool) (acct : Account) (hne : acct ≠ tbd)
    (ext2 : commodity.Commodity × Option Error) (ext3 : account.Account)
    (h2 : ext2 = (commodityGo cur "CHF", none)) (h3 : ext3 = accountGo tbd)
    (recs : List Rec) (p p' : swisscard.parser) (hb : BEquiv cur p.builder {}) (hacct : p.account = accountGo acct)
    (h : loop ext2 ext3 p (deliveries recs) = .ok (p', none)) :
    ∃ ds, BEquiv cur p'.builder (Builder.ofList ds) ∧ Faithful acct (swisscard recs) ds := by
  obtain ⟨ds, hrun, hbq⟩ := parse_ok_run cur acct ext2 ext3 h2 h3 recs p p' hb hacct h
  exact ⟨ds, hbq, C13.C13_swisscard acct hne recs ds hrun⟩

/-- **`C13_swisscard_wellformed` on the generated function**: every directive the fold added is well-formed -/
theorem C13_swisscard_wellformed_go (cur : String → Bool) (acct : Account) (ha : AccOK acct)
    (ext2 : commodity.Commodity × Option Error) (ext3 : account.Account)
    (h2 : ext2 = (commodityGo cur "CHF", none)) (h3 : ext3 = accountGo tbd)
    (recs : List Rec) (p p' : swisscard.parser) (hb : BEquiv cur p.builder {}) (hacct : p.account = accountGo acct)
    (h : loop ext2 ext3 p (deliveries recs) = .ok (p', none)) :
    ∃ ds, BEquiv cur p'.builder (Builder.ofList ds) ∧ ∀ d ∈ ds, wellFormed alnum d = true := by
  obtain ⟨ds, hrun, hbq⟩ := parse_ok_run cur acct ext2 ext3 h2 h3 recs p p' hb hacct h
  exact ⟨ds, hbq, C13.C13_swisscard_wellformed acct ha recs ds hrun⟩

/-- both clauses about ONE directive list, with the count reading: one transaction per booking record -/
theorem C13_swisscard_go_all (cur : String → Bool) (acct : Account) (hne : acct ≠ tbd) (ha : AccOK acct)
    (ext2 : commodity.Commodity × Option Error) (ext3 : account.Account)
    (h2 : ext2 = (commodityGo cur "CHF", none)) (h3 : ext3 = accountGo tbd)
    (recs : List Rec) (p p' : swisscard.parser) (hb : BEquiv cur p.builder {}) (hacct : p.account = accountGo acct)
    (h : loop ext2 ext3 p (deliveries recs) = .ok (p', none)) :
    ∃ ds, BEquiv cur p'.builder (Builder.ofList ds) ∧ Faithful acct (swisscard recs) ds ∧
      (∀ d ∈ ds, wellFormed alnum d = true) ∧ ds.length = (swisscard recs).length := by
  obtain ⟨ds, hrun, hbq⟩ := parse_ok_run cur acct ext2 ext3 h2 h3 recs p p' hb hacct h
  have hf := C13.C13_swisscard acct hne recs ds hrun
  exact ⟨ds, hbq, hf, C13.C13_swisscard_wellformed acct ha recs ds hrun, (C13.C13_count acct _ ds hf)⟩

/-- conversely the fold succeeds wherever the model run does -/
theorem parse_succeeds_of_run (cur : String → Bool) (acct : Account) (ext2 : commodity.Commodity × Option Error)
    (ext3 : account.Account) (h2 : ext2 = (commodityGo cur "CHF", none)) (h3 : ext3 = accountGo tbd)
    (recs : List Rec) (ds : List Directive) (hrun : Swisscard.run acct recs = .ok ds)
    (p : swisscard.parser) (hb : BEquiv cur p.builder {}) (hacct : p.account = accountGo acct) :
    ∃ p', loop ext2 ext3 p (deliveries recs) = .ok (p', none) ∧ BEquiv cur p'.builder (Builder.ofList ds) := by
  have ha := run_agrees cur acct ext2 ext3 h2 h3 recs p {} hb hacct
  rw [hrun] at ha
  obtain ⟨q, hq, _, hbq⟩ := ha
  exact ⟨q, hq, hbq⟩

/-- the fold never returns nil on a file on which the model fails or panics: `parse` rejects (or panics) exactly where the model does -/
theorem parse_nil_iff_run_ok (cur : String → Bool) (acct : Account) (ext2 : commodity.Commodity × Option Error)
    (ext3 : account.Account) (h2 : ext2 = (commodityGo cur "CHF", none)) (h3 : ext3 = accountGo tbd)
    (recs : List Rec) (p : swisscard.parser) (hb : BEquiv cur p.builder {}) (hacct : p.account = accountGo acct) :
    (∃ p', loop ext2 ext3 p (deliveries recs) = .ok (p', none)) ↔ ∃ ds, Swisscard.run acct recs = .ok ds := by
  constructor
  · rintro ⟨p', h⟩
    obtain ⟨ds, hrun, _⟩ := parse_ok_run cur acct ext2 ext3 h2 h3 recs p p' hb hacct h
    exact ⟨ds, hrun⟩
  · rintro ⟨ds, hrun⟩
    obtain ⟨p', hp, _⟩ := parse_succeeds_of_run cur acct ext2 ext3 h2 h3 recs ds hrun p hb hacct
    exact ⟨p', hp⟩

/-! ### Non-vacuity: a statement with a title line, two bookings (a quote and blanks around the free text, an apostrophe and `CHF` in
the amount), a line without a second date -/
def stmt : List Rec :=
  [["Transaction date", "Booking date", "Text", "Amount", "a", "b", "c", "d", "e", "f", "g"],
   ["06.07.2024", "07.07.2024", " say \"hi\" ", "CHF1'072.60", "", "Food", "", "", "", "x", "y"],
   ["07.07.2024", "08.07.2024", "refund", "-5.00", "", "", "", "", "", "", ""],
   ["07.07.2024", "", "Total", "", "", "", "", "", "", "", ""]]

example : swisscard stmt = [.booking 739072 [("CHF", -(5363/5 : Rat))], .booking 739073 [("CHF", 5)]] := by decide +kernel

example : ∃ p' ds, loop (commodityGo (fun _ => true) "CHF", none) (accountGo tbd) ⟨accountGo C13.card, journal.New⟩ (deliveries stmt)
      = .ok (p', none) ∧
    BEquiv (fun _ => true) p'.builder (Builder.ofList ds) ∧ Faithful C13.card (swisscard stmt) ds ∧ ds.length = 2 := by
  have hok : (match Swisscard.run C13.card stmt with | .ok _ => true | _ => false) = true := by decide +kernel
  cases hrun : Swisscard.run C13.card stmt with
  | ok ds =>
    obtain ⟨p', hp, hbq⟩ := parse_succeeds_of_run (fun _ => true) C13.card (commodityGo (fun _ => true) "CHF", none) (accountGo tbd)
      rfl rfl _ ds hrun ⟨accountGo C13.card, journal.New⟩ (New_agrees _) rfl
    have hf := C13.C13_swisscard C13.card (by decide) stmt ds hrun
    refine ⟨p', ds, hp, hbq, hf, ?_⟩
    rw [C13.C13_count _ _ _ hf]
    decide +kernel
  | error => rw [hrun] at hok; cases hok
  | panic => rw [hrun] at hok; cases hok

end Knut.C13Go4
