import Knut.Properties.C03
import Knut.FactsAgree.TransProcess
/-!
# C03 (per-step valuation clauses) on the generated definitions

`C03_flow_valued_at_booking_day`, `C03_missing_price_is_error`, `C03_missing_price_fails_day`, `C03_adjustment_shape`,
`C03_gain_account` and `C03_revaluation_error_if_price_vanished` are about the model (`Balance.valuePosting`, `adjustStep`,
`valuateDay`); `FactsAgree/TransProcess.lean` proves the closures of `journal.Valuate` translated from `/repo`'s
`lib/journal/process.go` (`Valuate.DayStart` with its loop over the map `quantities`, `Valuate.Posting`, `Valuate.DayEnd`) equal to
them, `FactsAgree/TransPrice.lean` the price functions (`NormalizedPrices.Price`, `Valuate`, `price.Multiply`).  This module composes
them: the clauses are stated about the values the GENERATED `Go.journal.Valuate.*` return, the prices are read through the GENERATED
`Go.price.NormalizedPrices.Price` on the Go maps the closures hold.

Standing hypotheses (the invariants of the agreement theorems, stated, not discharged here):
* `VEquiv cur g prev now q` — the captured state of the closures stands for a model state (established by `Valuate_day_agrees` day
  after day from the initial state; `NPEquivO`: every lookup of the Go price map is the model's);
* `hext`: `ext1`, the result of the UNTRANSLATED registry call `reg.Accounts().ValuationAccountFor(pos.Account)` as a function of the
  account, returns the account `Income:<rest of the path>` (`valuationAccountFor`) — the clause "the gain account is an Income
  account" rests on it; what IS derived from the translated code is that an adjustment is booked between the position's account and
  `ext1` of it and nowhere else;
* the Go postings are `postingGo cur src p` (interned accounts and commodities, any `Src` pointer).
The iteration order `o` of the Go map `quantities` is arbitrary.
-/
namespace Knut.C03Go
open Knut Knut.Dec Knut.GoSem
open Knut.Generated.Go
open Knut.FactsAgree.TransAccount Knut.FactsAgree.TransPosting Knut.FactsAgree.TransTransaction
open Knut.FactsAgree.TransProcess
open Knut.FactsAgree.TransPrice (cGo)
open Knut.FactsAgree.TransCheck (keyGo)

/-- the error value of a missing price (`fmt.Errorf("no price found for %v in %v", …)`: the message class) -/
def noPrice : Error := ⟨"no price found for %v in %v"⟩

/-! ## prices: the translated lookup against the model's -/

/-- the translated `NormalizedPrices.Price` finds the price `pr` iff the model's lookup does -/
theorem price_ok_iff (cur : String → Bool) {g : price.NormalizedPrices} {m : Option Prices.NPrices} (h : NPEquivO cur g m)
    (c : Commodity) (pr : Rat) :
    price.NormalizedPrices.Price g (cGo cur c) = (pr, none) ↔ Balance.lookupPrice m c = .ok pr := by
  rw [Price_lookup cur h]
  cases Balance.lookupPrice m c with
  | ok p => simp
  | error e => simp

/-- … and answers the error iff the Go map has no entry for the commodity -/
theorem price_missing_iff (cur : String → Bool) {g : price.NormalizedPrices} {m : Option Prices.NPrices} (h : NPEquivO cur g m)
    (c : Commodity) :
    Knut.AMap.find? g (cGo cur c) = none ↔ ∃ e, Balance.lookupPrice m c = .error e := by
  rw [h c]
  unfold Balance.lookupPrice
  cases m with
  | none => simp
  | some np => cases hf : Prices.find c np <;> simp [hf]

theorem price_missing_error (cur : String → Bool) {g : price.NormalizedPrices} {m : Option Prices.NPrices} (h : NPEquivO cur g m)
    (c : Commodity) (hm : Knut.AMap.find? g (cGo cur c) = none) :
    price.NormalizedPrices.Price g (cGo cur c) = (0, some noPrice) := by
  obtain ⟨e, he⟩ := (price_missing_iff cur h c).mp hm
  rw [Price_lookup cur h, he]
  rfl

/-! ## `Valuate.Posting`: every booking is valued at the price of its own day -/

section posting
variable (cur : String → Bool) (v : Commodity) {g g' : journal.Valuate.State} {prev now : Option Prices.NPrices}
  {q : Knut.AMap Position Rat} (tg : transaction.Transaction) (src : Ref) (p : Posting) {p' : posting.Posting}

/-- **the bridge**: a nil error of the translated `Valuate.Posting` is an `ok` of the model's `valuePosting`, the posting returned is
the Go value of the model's -/
theorem Posting_ok (h : VEquiv cur g prev now q)
    (hrun : journal.Valuate.Posting (cGo cur v) g tg (postingGo cur src p) = (g', p', none)) :
    ∃ mp, Balance.valuePosting v now p = .ok mp ∧ p' = postingGo cur src mp ∧ VEquiv cur g' prev now (addQty1 q p) := by
  have := Valuate_Posting_agrees cur v h tg src p
  rw [hrun] at this
  cases hm : Balance.valuePosting v now p with
  | ok mp => rw [hm] at this; exact ⟨mp, rfl, this.2, this.1⟩
  | error e => rw [hm] at this; exact this.elim

/-- **every booking is valued at the price of its own day**: the posting the translated `Valuate.Posting` returns has the old source
pointer, accounts, quantity and commodity; its value is the old one for a zero quantity (the value adjustments), the quantity itself
in the valuation commodity, and otherwise `Truncate₈(quantity × price)` with the price the translated `NormalizedPrices.Price` reads from
the closure's map `prices` — which `DayStart` set to the day's `Normalized` prices (`C03_daystart_prices_go`) -/
theorem C03_flow_valued_at_booking_day_go (h : VEquiv cur g prev now q)
    (hrun : journal.Valuate.Posting (cGo cur v) g tg (postingGo cur src p) = (g', p', none)) :
    p'.Src = src ∧ p'.Account = accountGo p.account ∧ p'.Other = accountGo p.other ∧ p'.Quantity = p.quantity ∧
    p'.Commodity = commodityGo cur p.commodity ∧
    (p.quantity = 0 → p'.Value = p.value) ∧
    (p.quantity ≠ 0 → p.commodity = v → p'.Value = p.quantity) ∧
    (p.quantity ≠ 0 → p.commodity ≠ v →
      ∃ pr, price.NormalizedPrices.Price g.prices (cGo cur p.commodity) = (pr, none) ∧ p'.Value = trunc 8 (p.quantity * pr)) := by
  obtain ⟨mp, hm, hp', _⟩ := Posting_ok cur v tg src p h hrun
  obtain ⟨h1, h2, h3, h4, h5, h6⟩ := C03.C03_flow_valued_at_booking_day v now p mp hm
  have ho : mp.other = p.other := by
    unfold Balance.valuePosting at hm
    by_cases hz : p.quantity = 0
    · simp only [hz, if_true] at hm; injection hm with hm; rw [← hm]
    · simp only [hz, if_false] at hm
      by_cases hc : p.commodity = v
      · simp only [hc, if_true] at hm; injection hm with hm; rw [← hm]
      · simp only [hc, if_false, bind, Except.bind] at hm
        cases hl : Balance.lookupPrice now p.commodity with
        | error e => rw [hl] at hm; cases hm
        | ok pr => rw [hl] at hm; injection hm with hm; rw [← hm]
  subst hp'
  refine ⟨rfl, by simp [postingGo, h1], by simp [postingGo, ho], by simp [postingGo, h2], by simp [postingGo, h3], ?_, ?_, ?_⟩
  · intro hz; simpa [postingGo] using h4 hz
  · intro hz hc; simpa [postingGo] using h5 hz hc
  · intro hz hc
    obtain ⟨np, pr, hnow, hf, hv⟩ := h6 hz hc
    refine ⟨pr, (price_ok_iff cur h.now p.commodity pr).mpr ?_, by simpa [postingGo] using hv⟩
    simp [Balance.lookupPrice, hnow, hf]

/-- the quantities the closure keeps grow by the quantity of every asset/liability posting with a non-zero quantity, and by nothing else
(`addQty1`) — also when the price is missing -/
theorem C03_posting_quantities_go (h : VEquiv cur g prev now q) :
    VEquiv cur (journal.Valuate.Posting (cGo cur v) g tg (postingGo cur src p)).1 prev now (addQty1 q p) := by
  have := Valuate_Posting_agrees cur v h tg src p
  revert this
  generalize journal.Valuate.Posting (cGo cur v) g tg (postingGo cur src p) = R
  rcases R with ⟨g1, p1, _ | e⟩ <;> cases Balance.valuePosting v now p <;>
    first | exact fun x => x.1 | exact fun x => x.elim

/-- **a needed, absent price is an error**: for a booking with a non-zero quantity in a commodity other than the valuation commodity
for which the closure's price map has no entry, the translated `Valuate.Posting` returns the error `no price found…` and the posting
as it was — no number is produced -/
theorem C03_missing_price_is_error_go (h : VEquiv cur g prev now q) (hq : p.quantity ≠ 0) (hc : p.commodity ≠ v)
    (hmiss : Knut.AMap.find? g.prices (cGo cur p.commodity) = none) :
    ∃ g', journal.Valuate.Posting (cGo cur v) g tg (postingGo cur src p) = (g', postingGo cur src p, some noPrice) := by
  have hm : ∀ np, now = some np → Prices.find p.commodity np = none := by
    intro np hnp
    have := h.now p.commodity
    rw [hmiss, hnp] at this
    simpa using this.symm
  obtain ⟨e, he⟩ := C03.C03_missing_price_is_error v now p hq hc hm
  have := Valuate_Posting_agrees cur v h tg src p
  rw [he] at this
  revert this
  generalize journal.Valuate.Posting (cGo cur v) g tg (postingGo cur src p) = R
  rcases R with ⟨g1, p1, _ | e1⟩
  · intro x; exact x.elim
  · intro x; exact ⟨g1, by rw [x.2.1, x.2.2]; rfl⟩

end posting

/-! ## `Valuate.DayStart`: the value adjustments -/

/-- the model's adjustments, entry by entry: each comes from a position of the map -/
theorem adjustments_mem (v : Commodity) (date : Int) (prev now : Option Prices.NPrices) :
    ∀ (l : Knut.AMap Position Rat) (adj : List Transaction), Balance.adjustments v date prev now l = .ok adj →
    ∀ t ∈ adj, ∃ a c qv pp cp, ((a, c), qv) ∈ l ∧ Balance.lookupPrice prev c = .ok pp ∧ Balance.lookupPrice now c = .ok cp ∧
      cp - pp ≠ 0 ∧ c ≠ v ∧ a.isAL = true ∧ qv ≠ 0 ∧ t = adjTx date (a, c) (trunc 8 ((cp - pp) * qv)) := by
  intro l
  induction l with
  | nil =>
    intro adj h t ht
    simp only [Balance.adjustments, List.foldlM_nil, pure, Except.pure] at h
    injection h with h; subst h; cases ht
  | cons e rest ih =>
    intro adj h t ht
    rw [adjustments_cons] at h
    cases hs : Balance.adjustStep v date prev now [] e with
    | error x => rw [hs] at h; cases h
    | ok a0 =>
      rw [hs] at h
      cases hr : Balance.adjustments v date prev now rest with
      | error x => rw [hr] at h; cases h
      | ok adj' =>
        rw [hr] at h
        simp only [Except.map] at h
        injection h with h
        subst h
        rcases List.mem_append.mp ht with ht | ht
        · obtain ⟨⟨a, c⟩, qv⟩ := e
          rcases C03.C03_adjustment_shape v date prev now [] a0 a c qv hs with h0 | ⟨pp, cp, h1, h2, h3, h4, h5, h6, h7⟩
          · subst h0; cases ht
          · subst h7
            simp only [List.nil_append, List.mem_cons, List.not_mem_nil, or_false] at ht
            exact ⟨a, c, qv, pp, cp, List.mem_cons_self, h1, h2, h3, h4, h5, h6, by rw [ht]; rfl⟩
        · obtain ⟨a, c, qv, pp, cp, hm, hx⟩ := ih adj' hr t ht
          exact ⟨a, c, qv, pp, cp, List.mem_cons_of_mem _ hm, hx⟩

theorem mem_qtyIn (cur : String → Bool) {gq : amounts.Amounts} (hkeys : ∀ k : amounts.Key, (Knut.AMap.find? gq k).isSome → ∃ p, k = keyGo cur p)
    {o : List amounts.Key} {pos : Position} {x : Rat} (h : (pos, x) ∈ qtyIn gq o) :
    keyGo cur pos ∈ o ∧ Knut.AMap.find? gq (keyGo cur pos) = some x := by
  unfold qtyIn at h
  obtain ⟨k, hk, hf⟩ := List.mem_filterMap.mp h
  cases hfk : Knut.AMap.find? gq k with
  | none => rw [hfk] at hf; cases hf
  | some y =>
    rw [hfk] at hf
    simp only [Option.map_some, Option.some.injEq, Prod.mk.injEq] at hf
    obtain ⟨p, rfl⟩ := hkeys k (by simp [hfk])
    rw [posOf_keyGo] at hf
    rw [← hf.1, ← hf.2]
    exact ⟨hk, hfk⟩

section daystart
variable (cur : String → Bool) (v : Commodity) (ext1 : account.Account → account.Account)
  (hext : ∀ a : Account, ext1 (accountGo a) = accountGo (valuationAccountFor a))
  {g g' : journal.Valuate.State} {prev old now : Option Prices.NPrices} {q : Knut.AMap Position Rat}
  (dg : journal.Day) {dg' : journal.Day} (o : List amounts.Key)
include hext

/-- `DayStart` makes the day's `Normalized` prices the prices that `Posting` values with (also when it fails) -/
theorem C03_daystart_prices_go (h : VEquiv cur g prev old q) (hn : NPEquivO cur dg.Normalized now) :
    (journal.Valuate.DayStart (cGo cur v) g dg ext1 o).1 = { g with prices := dg.Normalized } := by
  have := Valuate_DayStart_agrees cur v ext1 hext h dg hn o
  revert this
  generalize journal.Valuate.DayStart (cGo cur v) g dg ext1 o = R
  rcases R with ⟨g1, d1, _ | e⟩ <;> cases Balance.adjustments v dg.Date prev now (qtyIn g.quantities o) <;> simp <;>
    intro h1 _ <;> exact h1

/-- **the shape of a day's value adjustments**, for EVERY iteration order `o` of the Go map `quantities`: a nil error of the translated
`DayStart` appends to the day's transactions, through `transaction.Builder.Build`, one transaction per listed position `(a, c)` whose
commodity is not the valuation commodity, whose account is an asset or liability account, whose quantity `Q` (read from the Go map) is
not zero and whose price changed — `Truncate₈((p_today − p_yesterday) × Q)` with both prices read by the translated
`NormalizedPrices.Price` (yesterday's from the closure's `prevPrices`, today's from the day's `Normalized`), dated on the day, with the
`@performance` target `c` — and nothing else -/
theorem C03_adjustment_shape_go (h : VEquiv cur g prev old q) (hn : NPEquivO cur dg.Normalized now)
    (hrun : journal.Valuate.DayStart (cGo cur v) g dg ext1 o = (g', dg', none)) :
    ∃ adj : List Transaction, dg' = { dg with Transactions := dg.Transactions ++ adj.map (builtGo cur) } ∧
      ∀ t ∈ adj, ∃ a c qv pp cp, keyGo cur (a, c) ∈ o ∧ Knut.AMap.find? g.quantities (keyGo cur (a, c)) = some qv ∧
        price.NormalizedPrices.Price g.prevPrices (cGo cur c) = (pp, none) ∧
        price.NormalizedPrices.Price dg.Normalized (cGo cur c) = (cp, none) ∧
        cp - pp ≠ 0 ∧ c ≠ v ∧ a.isAL = true ∧ qv ≠ 0 ∧ t = adjTx dg.Date (a, c) (trunc 8 ((cp - pp) * qv)) := by
  have := Valuate_DayStart_agrees cur v ext1 hext h dg hn o
  rw [hrun] at this
  cases hadj : Balance.adjustments v dg.Date prev now (qtyIn g.quantities o) with
  | error e => rw [hadj] at this; exact this.elim
  | ok adj =>
    rw [hadj] at this
    refine ⟨adj, this.2, ?_⟩
    intro t ht
    obtain ⟨a, c, qv, pp, cp, hm, h1, h2, h3, h4, h5, h6, h7⟩ := adjustments_mem v dg.Date prev now _ adj hadj t ht
    obtain ⟨hk, hf⟩ := mem_qtyIn cur h.qty.keys hm
    exact ⟨a, c, qv, pp, cp, hk, hf, (price_ok_iff cur h.prev c pp).mpr h1, (price_ok_iff cur hn c cp).mpr h2, h3, h4, h5, h6, h7⟩

/-- **gain account**: the Go transaction of an adjustment of position `(a, c)` has two postings, both with quantity zero in the
commodity `c`, booked between the account `a` and `ext1 a` — the account the registry's `ValuationAccountFor` returned for `a` — and
nowhere else; under `hext` that account is `Income:<path of a without its first segment>` -/
theorem C03_gain_account_go (date : Int) (a : Account) (c : Commodity) (gain : Rat) :
    ∀ pG ∈ (builtGo cur (adjTx date (a, c) gain)).Postings,
      pG.Quantity = 0 ∧ pG.Commodity = commodityGo cur c ∧ (pG.Value = gain ∨ pG.Value = -gain) ∧
      ((pG.Account = accountGo a ∧ pG.Other = ext1 (accountGo a)) ∨ (pG.Account = ext1 (accountGo a) ∧ pG.Other = accountGo a)) := by
  intro pG hp
  simp only [builtGo, txGo, adjTx, List.mem_map] at hp
  obtain ⟨p, hp, rfl⟩ := hp
  rw [hext]
  unfold postingBuild at hp
  by_cases hg : gain < 0
  · simp only [hg, List.mem_cons, List.not_mem_nil, or_false] at hp
    rcases hp with rfl | rfl <;> simp [postingGo, Rat.neg_neg]
  · simp only [hg, List.mem_cons, List.not_mem_nil, or_false] at hp
    rcases hp with rfl | rfl <;> simp [postingGo]

/-- … and that account is an Income account with the rest of the path of `a` -/
theorem C03_gain_account_is_income_go (a : Account) :
    ∃ b : Account, ext1 (accountGo a) = accountGo b ∧ b.segments.head? = some "Income" ∧ b.segments.drop 1 = a.segments.drop 1 :=
  ⟨valuationAccountFor a, hext a, C03.C03_gain_account_is_income a⟩

/-- **an open position whose price vanished fails the day**: when a listed asset/liability position with a non-zero quantity in a
commodity other than the valuation commodity has no entry in yesterday's or today's Go price map, and the positions listed BEFORE it all
have their prices, … — stated for the order `o = [k]` (one position): the translated `DayStart` returns the error -/
theorem C03_revaluation_error_if_price_vanished_go (h : VEquiv cur g prev old q) (hn : NPEquivO cur dg.Normalized now)
    (a : Account) (c : Commodity) (qv : Rat) (hc : c ≠ v) (hal : a.isAL = true) (hq : qv ≠ 0)
    (hf : Knut.AMap.find? g.quantities (keyGo cur (a, c)) = some qv)
    (hmiss : Knut.AMap.find? g.prevPrices (cGo cur c) = none ∨ Knut.AMap.find? dg.Normalized (cGo cur c) = none) :
    ∃ d', journal.Valuate.DayStart (cGo cur v) g dg ext1 [keyGo cur (a, c)] = ({ g with prices := dg.Normalized }, d', some noPrice) := by
  have hq1 : qtyIn g.quantities [keyGo cur (a, c)] = [((a, c), qv)] := by simp [qtyIn, hf, posOf_keyGo]
  have hmiss' : (∃ e, Balance.lookupPrice prev c = .error e) ∨ (∃ e, Balance.lookupPrice now c = .error e) := by
    rcases hmiss with hm | hm
    · exact Or.inl ((price_missing_iff cur h.prev c).mp hm)
    · exact Or.inr ((price_missing_iff cur hn c).mp hm)
  obtain ⟨e, he⟩ := C03.C03_revaluation_error_if_price_vanished v dg.Date prev now [] a c qv hc hal hq hmiss'
  have hadj : ∃ e, Balance.adjustments v dg.Date prev now [((a, c), qv)] = .error e := by
    rw [adjustments_cons, he]; exact ⟨e, rfl⟩
  obtain ⟨e', he'⟩ := hadj
  have := Valuate_DayStart_agrees cur v ext1 hext h dg hn [keyGo cur (a, c)]
  rw [hq1, he'] at this
  revert this
  generalize journal.Valuate.DayStart (cGo cur v) g dg ext1 [keyGo cur (a, c)] = R
  rcases R with ⟨g1, d1, _ | e1⟩
  · intro x; exact x.elim
  · intro x; exact ⟨d1, by rw [x.1, x.2]; rfl⟩

end daystart

/-! ## a whole day in the callback order of `Processor.Process` -/

/-- **a missing price fails the day**: `processDay` (the hand-written callback order of `Processor.Process`: C19 is about the
pipeline) with the three translated closures of `Valuate`, on a Go day that stands for the model day `d`: when a booking of the day with a
non-zero quantity in a commodity other than the valuation commodity has no entry in the day's `Normalized` prices, the day ends with
the error `no price found…` — for every iteration order `o` that reaches all keys of `quantities` -/
theorem C03_missing_price_fails_day_go (cur : String → Bool) (v : Commodity) (ext1 : account.Account → account.Account)
    (hext : ∀ a : Account, ext1 (accountGo a) = accountGo (valuationAccountFor a))
    {g : journal.Valuate.State} (st : BalState) {old : Option Prices.NPrices} {q : Knut.AMap Position Rat}
    (h : VEquiv cur g st.vPrev old q) (o : List amounts.Key) (hcov : ∀ k, (Knut.AMap.find? g.quantities k).isSome → k ∈ o)
    (dg : journal.Day) (d : Day) (hd : dg.Date = d.date) (hn : NPEquivO cur dg.Normalized st.norm)
    (htx : AllRel (TRel cur) dg.Transactions d.transactions)
    (t : Transaction) (p : Posting) (ht : t ∈ d.transactions) (hp : p ∈ t.postings) (hq : p.quantity ≠ 0) (hc : p.commodity ≠ v)
    (hmiss : Knut.AMap.find? dg.Normalized (cGo cur p.commodity) = none) :
    ∃ g' dg', processDay (valuateProc (cGo cur v) ext1 o) g dg = .ok (g', dg', some noPrice) := by
  have hm : ∀ np, st.norm = some np → Prices.find p.commodity np = none := by
    intro np hnp
    have := hn p.commodity
    rw [hmiss, hnp] at this
    simpa using this.symm
  obtain ⟨e, he⟩ := C03.C03_missing_price_fails_day v { st with vQty := qtyIn g.quantities o } d t p ht hp hq hc hm
  have := Valuate_day_agrees cur v ext1 hext st h o hcov dg d hd hn htx
  rw [he] at this
  revert this
  generalize processDay (valuateProc (cGo cur v) ext1 o) g dg = R
  rcases R with ⟨g1, d1, _ | e1⟩ | m | _
  · intro x; exact x.elim
  · intro x; exact ⟨g1, d1, by rw [x]; rfl⟩
  · intro x; exact x.elim
  · intro x; exact x.elim

/-! ## Non-vacuity: the instances of `TransProcess`, through the clauses -/

/-- 10 USD at the day's price 2: the hypotheses are met (`VEquiv` of the state with the price map `USD ↦ 2`), the clause gives the
value `Truncate₈(10 × 2) = 20` -/
example : ∃ g' p', journal.Valuate.Posting ⟨"CHF", false⟩ ⟨[], [(⟨"USD", false⟩, 2)], []⟩ GoZero.zero
      (postingGo (fun _ => false) ⟨0⟩ ⟨⟨["Assets", "A"]⟩, ⟨["Income", "B"]⟩, "USD", 10, 0⟩) = (g', p', none) ∧ p'.Value = 20 := by
  refine ⟨_, _, rfl, ?_⟩
  decide +kernel

/-- the empty price map: the error -/
example : ∃ g', journal.Valuate.Posting (cGo (fun _ => false) "CHF") ⟨[], [], []⟩ GoZero.zero
      (postingGo (fun _ => false) ⟨0⟩ ⟨⟨["Assets", "A"]⟩, ⟨["Income", "B"]⟩, "USD", 10, 0⟩) =
      (g', postingGo (fun _ => false) ⟨0⟩ ⟨⟨["Assets", "A"]⟩, ⟨["Income", "B"]⟩, "USD", 10, 0⟩, some noPrice) :=
  C03_missing_price_is_error_go (fun _ => false) "CHF" (prev := none) (now := none) (q := []) GoZero.zero ⟨0⟩ _
    ⟨NPEquivO_nil _, NPEquivO_nil _, QEquiv_nil _⟩ (by decide) (by decide) rfl

end Knut.C03Go
