import Knut.Syntax.Parser
/-!
# Model of `lib/syntax/printer` (the part used by `format`) and of `commands.formatRunner.formatFile`

Output is a byte string. Every field is re-rendered from `Range.Extract()` of the *original* text; a slice out of
range is Go's slice-bounds panic and the explicit outcome `none` here (`Properties/C08.lean` shows it is never
reached for a tree the parser returned). `fmt`'s `%-*s` / `%10s` pad with spaces to a width counted in runes
(`utf8.RuneCountInString`).
-/
namespace Knut.Syntax
open Knut.Utf8

abbrev Bytes := List UInt8

/-- bytes of an ASCII literal of the printer's format strings -/
def lit (s : String) : Bytes := s.toList.map (fun c => UInt8.ofNat c.toNat)

/-- `utf8.RuneCountInString` -/
def runeCount (bs : Bytes) : Nat := (decodeAll bs).length

def spaces (n : Nat) : Bytes := List.replicate n 32

/-- `%-*s` with width `w` -/
def padRight (w : Nat) (s : Bytes) : Bytes := s ++ spaces (w - runeCount s)
/-- `%*s` with width `w` -/
def padLeft (w : Nat) (s : Bytes) : Bytes := spaces (w - runeCount s) ++ s

/-- `strings.Join(parts, ",")` -/
def joinComma : List Bytes → Bytes
  | [] => []
  | [a] => a
  | a :: rest => a ++ lit "," ++ joinComma rest

/-! ### The arguments of the `Fprintf` calls: the extracted fields of a directive

Go evaluates all `x.Extract()` arguments of a `Fprintf` before formatting, so every print function is
"extract the fields (may panic), then render them". `…V` are the extracted fields, `view…` the extraction,
`render…` the formatting. -/

structure BookingV where
  credit : Bytes
  debit : Bytes
  quantity : Bytes
  commodity : Bytes
  deriving DecidableEq, Repr

structure BalanceV where
  account : Bytes
  quantity : Bytes
  commodity : Bytes
  deriving DecidableEq, Repr

structure AccrualV where
  interval : Bytes
  start : Bytes
  stop : Bytes
  account : Bytes
  deriving DecidableEq, Repr

/-- the fields of a directive as byte strings -/
inductive DirV where
  | transaction (accrual : Option AccrualV) (performance : Option (List Bytes)) (date desc : Bytes)
      (bookings : List BookingV)
  | «open» (date account : Bytes)
  | close (date account : Bytes)
  | assertion (date : Bytes) (balances : List BalanceV)
  | price (date commodity price target : Bytes)
  | «include» (path : Bytes)
  deriving DecidableEq, Repr

def viewBooking (text : Bytes) (b : Booking) : Option BookingV := do
  let cr ← b.credit.range.extract text
  let db ← b.debit.range.extract text
  let q ← b.quantity.range.extract text
  let c ← b.commodity.range.extract text
  pure ⟨cr, db, q, c⟩

def viewBalance (text : Bytes) (b : Balance) : Option BalanceV := do
  let acc ← b.account.range.extract text
  let q ← b.quantity.range.extract text
  let c ← b.commodity.range.extract text
  pure ⟨acc, q, c⟩

def viewAccrual (text : Bytes) (a : Accrual) : Option AccrualV := do
  let iv ← a.interval.range.extract text
  let d0 ← a.start.range.extract text
  let d1 ← a.stop.range.extract text
  let acc ← a.account.range.extract text
  pure ⟨iv, d0, d1, acc⟩

/-- the fields `printTransaction` extracts: the accrual if `!Accrual.Empty()`, the performance targets if
`!Performance.Empty()`, date, description content, bookings -/
def viewTransaction (text : Bytes) (t : Transaction) : Option DirV := do
  let accr ← if !t.addons.accrual.range.empty then (viewAccrual text t.addons.accrual).map some else pure none
  let perf ← if !t.addons.performance.range.empty then
      (t.addons.performance.targets.mapM (fun (c : Commodity) => c.range.extract text)).map some
    else pure none
  let date ← t.date.range.extract text
  let desc ← t.description.content.extract text
  let bookings ← t.bookings.mapM (viewBooking text)
  pure (.transaction accr perf date desc bookings)

def viewDirective (text : Bytes) (d : Directive) : Option DirV :=
  match d.body with
  | .transaction t => viewTransaction text t
  | .open o => do
    let date ← o.date.range.extract text
    let acc ← o.account.range.extract text
    pure (.open date acc)
  | .close c => do
    let date ← c.date.range.extract text
    let acc ← c.account.range.extract text
    pure (.close date acc)
  | .assertion a => do
    let date ← a.date.range.extract text
    let bs ← a.balances.mapM (viewBalance text)
    pure (.assertion date bs)
  | .price p => do
    let date ← p.date.range.extract text
    let c ← p.commodity.range.extract text
    let pr ← p.price.range.extract text
    let t ← p.target.range.extract text
    pure (.price date c pr t)
  | .include i => do
    let p ← i.includePath.content.extract text
    pure (.include p)

/-- `Printer.printAccrual`: `"@accrue %s %s %s %s\n"` -/
def renderAccrual (a : AccrualV) : Bytes :=
  lit "@accrue " ++ a.interval ++ lit " " ++ a.start ++ lit " " ++ a.stop ++ lit " " ++ a.account ++ lit "\n"

/-- `"@performance(%s)\n"` of the joined targets -/
def renderPerformance (ts : List Bytes) : Bytes := lit "@performance(" ++ joinComma ts ++ lit ")\n"

/-- `Printer.printPosting` (`"%-*s %-*s %10s %s"`) and the `"\n"` written after it -/
def renderBooking (padding : Nat) (b : BookingV) : Bytes :=
  padRight padding b.credit ++ lit " " ++ padRight padding b.debit ++ lit " " ++ padLeft 10 b.quantity ++ lit " " ++
    b.commodity ++ lit "\n"

/-- the fields of one balance: `"%s %s %s"` -/
def renderBalance (b : BalanceV) : Bytes := b.account ++ lit " " ++ b.quantity ++ lit " " ++ b.commodity

/-- `Printer.printDirective` on extracted fields -/
def renderDir (padding : Nat) : DirV → Bytes
  | .transaction accr perf date desc bookings =>
    (match accr with | some a => renderAccrual a | none => []) ++
    (match perf with | some ts => renderPerformance ts | none => []) ++
    date ++ lit " \"" ++ desc ++ lit "\"" ++ lit "\n" ++ (bookings.map (renderBooking padding)).flatten
  | .open date acc => date ++ lit " open " ++ acc
  | .close date acc => date ++ lit " close " ++ acc
  | .price date c p t => date ++ lit " price " ++ c ++ lit " " ++ p ++ lit " " ++ t
  | .include p => lit "include \"" ++ p ++ lit "\""
  | .assertion date bs =>
    match bs with
    | [b] => date ++ lit " balance" ++ lit " " ++ renderBalance b
    | bs => date ++ lit " balance" ++ lit "\n" ++ (bs.map fun b => renderBalance b ++ lit "\n").flatten

/-- `Printer.printDirective`: extract, then render; `none` = a slice bound was violated (Go would panic) -/
def printDirective (text : Bytes) (padding : Nat) (d : Directive) : Option Bytes :=
  (viewDirective text d).map (renderDir padding)

/-- the contribution of one directive to `Printer.Initialize` (rune counts of the credit and debit accounts) -/
def paddingV : DirV → Nat
  | .transaction _ _ _ _ bookings => bookings.foldl (fun m b => max (max m (runeCount b.credit)) (runeCount b.debit)) 0
  | _ => 0

/-- `Printer.Initialize`: the widest account (in runes) over all bookings of all transactions -/
def initPadding (text : Bytes) (ds : List Directive) : Option Nat :=
  (ds.mapM (viewDirective text)).map fun vs => vs.foldl (fun m v => max m (paddingV v)) 0

/-- `text[a:b]` with Go's bounds check -/
def sliceChecked (text : Bytes) (a b : Nat) : Option Bytes :=
  if a ≤ b ∧ b ≤ text.length then some ((text.drop a).take (b - a)) else none

/-- the loop of `Printer.Format` -/
def formatLoop (text : Bytes) (padding : Nat) : Nat → List Directive → Option Bytes
  | pos, [] => sliceChecked text pos text.length
  | pos, d :: ds => do
    let gap ← sliceChecked text pos d.range.start
    let r ← printDirective text padding d
    let rest ← formatLoop text padding d.range.stop ds
    pure (gap ++ r ++ rest)

/-- `Printer.Format` / `syntax.FormatFile`: `none` = a slice bound was violated (Go would panic) -/
def format (text : Bytes) (f : File) : Option Bytes := do
  let padding ← initPadding text f.directives
  formatLoop text padding 0 f.directives

/-- outcome of `knut format FILE` for one file: exit status and the bytes of the file afterwards.
`parse` first, format into a buffer, then replace the file (`atomic.WriteFile`, modelled in C18). -/
inductive FormatOutcome where
  /-- exit 0, file replaced by the formatted text -/
  | written (content : Bytes)
  /-- exit 1 with the parser's error, file not touched -/
  | rejected (e : Err)
  /-- a slice-bounds panic in the printer -/
  | panic
  deriving Repr

/-- `formatRunner.formatFile` -/
def formatFile (path : String) (text : Bytes) : FormatOutcome :=
  match parseText path text with
  | .error e => .rejected e
  | .ok f =>
    match format text f with
    | some out => .written out
    | none => .panic

/-- the file content after `knut format` -/
def FormatOutcome.fileAfter (before : Bytes) : FormatOutcome → Bytes
  | .written c => c
  | .rejected _ => before
  | .panic => before

end Knut.Syntax
