import Knut.Basic.Dec
import Knut.Model.Core
import Knut.Model.Partition
/-!
# Model of `transaction.Create` / `transaction.expand` (`lib/model/transaction/transaction.go`)

Input is the syntax transaction after parsing (dates as day numbers, quantities as values);
output the list of model transactions, or the error / panic outcome.
-/
namespace Knut.Accrual
open Knut Knut.Dec

/-- `syntax.Booking` -/
structure Booking where
  credit : Account
  debit : Account
  quantity : Rat
  commodity : Commodity
  deriving DecidableEq, Repr, Inhabited

/-- `syntax.Accrual` (the `@accrue <interval> <start> <end> <account>` annotation) -/
structure Addon where
  interval : Interval
  start : Int
  stop : Int
  account : Account
  deriving DecidableEq, Repr, Inhabited

/-- `syntax.Transaction` -/
structure TxInput where
  date : Int
  description : String
  bookings : List Booking
  /-- `none`: no `@performance` annotation (nil slice); `some l`: its targets (possibly empty) -/
  targets : Option (List Commodity) := none
  accrual : Option Addon := none
  deriving Repr, Inhabited

inductive Result where
  | ok : List Transaction → Result
  | error : Result            -- an `error` return of `Create`
  | panic : String → Result   -- a Go panic
  deriving Repr, Inhabited

/-- the precision argument of `QuoRem` in `expand` (tied to the source by `FactsAgree/C10.lean`) -/
def quoRemPlaces : Nat := 1

/-- `posting.Create`: every booking becomes its posting pair, in order -/
def postingsOf (bs : List Booking) : List Posting :=
  bs.flatMap (fun b => postingBuild b.credit b.debit b.commodity b.quantity)

/-- a generated transaction: the posting `p` re-booked with quantity `q` against the accrual account
(`posting.Builder{Credit: account, Debit: p.Account, Commodity: p.Commodity, Quantity: q}.Build()`) -/
def rebook (t : Transaction) (date : Int) (desc : String) (acc : Account) (p : Posting) (q : Rat) : Transaction :=
  { date := date, description := desc, postings := postingBuild acc p.account p.commodity q, targets := t.targets }

/-- `fmt.Sprintf("%s (accrual %d/%d)", t.Description, i+1, partition.Size())` -/
def partDesc (desc : String) (i n : Nat) : String := s!"{desc} (accrual {i + 1}/{n})"

/-- the loop `for i, dt := range partition.EndDates()` from index `i` on -/
def ieLoop (t : Transaction) (acc : Account) (p : Posting) (n : Nat) (amount rem : Rat) :
    Nat → List Int → List Transaction
  | _, [] => []
  | i, dt :: rest =>
    rebook t dt (partDesc t.description i n) acc p (if i = 0 then amount + rem else amount)
      :: ieLoop t acc p n amount rem (i + 1) rest

/-- outcome of the loop body of `expand` for one posting -/
inductive Step where
  | ok : List Transaction → Step
  | panic : String → Step

/-- body of `for _, p := range t.Postings` in `expand` -/
def expandPosting (t : Transaction) (a : Addon) (p : Posting) : Step :=
  if !p.account.isIE then
    .ok [rebook t t.date t.description a.account p p.quantity]
  else
    match newPartition ⟨a.start, a.stop⟩ a.interval 0 with
    | .panic s => .panic s
    | .ok part =>
      match quoRem p.quantity ((part.size : Int) : Rat) quoRemPlaces with
      | none => .panic "decimal division by 0"
      | some (amount, rem) => .ok (ieLoop t a.account p part.size amount rem 0 part.endDates)

/-- the loop of `expand` over all postings -/
def expandLoop (t : Transaction) (a : Addon) : List Posting → Step
  | [] => .ok []
  | p :: ps =>
    match expandPosting t a p with
    | .panic s => .panic s
    | .ok txs =>
      match expandLoop t a ps with
      | .panic s => .panic s
      | .ok rest => .ok (txs ++ rest)

/-- `transaction.expand` -/
def expand (t : Transaction) (a : Addon) : Result :=
  if !a.account.wf then .error                      -- reg.Accounts().Create(accrual.Account)
  else if a.stop < a.start then .error               -- "accrual period ends before it starts"
  else
    match expandLoop t a t.postings with
    | .panic s => .panic s
    | .ok txs => .ok txs

/-- `transaction.Create` -/
def create (t : TxInput) : Result :=
  if !(t.bookings.all (fun b => b.credit.wf && b.debit.wf)) then .error   -- posting.Create: invalid account
  else
    let res : Transaction :=
      { date := t.date, description := t.description, postings := postingsOf t.bookings, targets := t.targets }
    match t.accrual with
    | none => .ok [res]
    | some a => expand res a

end Knut.Accrual
