import Knut.Generated.TransJournal
import Knut.FactsAgree.TransProcess
import Knut.Model.Journal
/-!
# The translated journal builder agrees with `Model/Journal.lean`

`lib/journal/journal.go`: `New`, `Builder.Day`, `Builder.Add`, `Builder.Period`, `Builder.Build`, `CompareDays`, regenerated into
`Knut/Generated/TransJournal.lean` on every run (harness/trans_alias.go: `dict.GetDefault` with a constructor literal; `d := j.Day(x)`
is a POINTER INTO the map `j.days`, so every assignment through `d` is followed by the write-back `j.days[x] = d`; `model.Directive`
is the inductive type of its declared implementers plus `other`; the type switch of `Add` is a `match`).

The Go builder keeps a map from dates to days, the model a list of days sorted by date: `BEquiv` is agreement of every lookup by
date (plus sortedness of the model's list and absence of stale keys in the Go map).

| Go | theorem | model |
|---|---|---|
| `New` | `New_agrees` | `{}` (`min` = 9999-12-31 = `maxDate`, `max` = 0001-01-01) |
| `Builder.Day` | `Day_agrees` | `insertDay` / `dayAt` |
| `Builder.Add` | `Add_agrees`, `Add_other` | `Builder.add` (per kind: the append, the `max` update for prices and transactions, the `min` update for transactions) |
| `Builder.Period` | `Period_agrees` | `min`, `max` |
| `Builder.Build` (`dict.SortedValues(j.days, CompareDays)`) | `Build_agrees` | `Builder.build`: the days in order of date, for every iteration order of the map and every behaviour of `sort.Slice` (the dates are distinct) |
| `New` + `Add`… + `Build` | `journal_agrees` | `Builder.ofList` |
-/
namespace Knut.FactsAgree.TransJournal
open Knut Knut.GoSem
open Knut.Generated.Go
open Knut.FactsAgree.TransAccount Knut.FactsAgree.TransPosting Knut.FactsAgree.TransTransaction
open Knut.FactsAgree.TransProcess (AllRel TRel PRel PriceRel priceGo AllRel_append AllRel_length)
open Knut.FactsAgree.TransCheck (openGo closeGo balanceGo)

def OpenRel (g : open_.Open) (o : Knut.Open) : Prop := g = openGo g.Src o
def CloseRel (g : close.Close) (c : Knut.Close) : Prop := g = closeGo g.Src c
def BalRel (cur : String → Bool) (g : assertion.Balance) (b : Knut.Balance) : Prop := g = balanceGo cur g.Src b
def AssertRel (cur : String → Bool) (g : assertion.Assertion) (a : Knut.Assertion) : Prop :=
  g.Date = a.date ∧ AllRel (BalRel cur) g.Balances a.balances

/-- a Go day stands for the model day (`Src` pointers arbitrary; `Normalized` and `Performance` belong to the processors) -/
structure DayRel (cur : String → Bool) (g : journal.Day) (d : Knut.Day) : Prop where
  date : g.Date = d.date
  prices : AllRel (PriceRel cur) g.Prices d.prices
  assertions : AllRel (AssertRel cur) g.Assertions d.assertions
  openings : AllRel OpenRel g.Openings d.openings
  transactions : AllRel (TRel cur) g.Transactions d.transactions
  closings : AllRel CloseRel g.Closings d.closings

/-- a Go directive (the dynamic type of the `model.Directive`) stands for the model directive -/
def DirRel (cur : String → Bool) : model.Directive → Knut.Directive → Prop
  | .Price g, .price p => PriceRel cur g p
  | .Open g, .opening o => OpenRel g o
  | .Transaction g, .tx t => TRel cur g t
  | .Assertion g, .assertion a => AssertRel cur g a
  | .Close g, .closing c => CloseRel g c
  | _, _ => False

/-- the model's day of a date -/
def dayAt (ds : List Knut.Day) (k : Int) : Option Knut.Day := ds.find? (fun d => d.date = k)

def Sorted (ds : List Knut.Day) : Prop := ds.Pairwise (fun a b => a.date < b.date)

theorem dayAt_date {ds : List Knut.Day} {k : Int} {d : Knut.Day} (h : dayAt ds k = some d) : d.date = k := by
  have := List.find?_some h
  simpa using this

theorem insertDay_dates (ds : List Knut.Day) (t : Int) : ∀ d ∈ insertDay ds t, d.date = t ∨ d ∈ ds := by
  induction ds with
  | nil => intro d hd; simp [insertDay] at hd; left; rw [hd]
  | cons x rest ih =>
    intro d hd
    unfold insertDay at hd
    split at hd
    · rcases List.mem_cons.mp hd with h | h
      · left; rw [h]
      · right; exact h
    · split at hd
      · right; exact hd
      · rcases List.mem_cons.mp hd with h | h
        · right; rw [h]; exact List.mem_cons_self ..
        · rcases ih d h with h | h
          · left; exact h
          · right; exact List.mem_cons_of_mem _ h

theorem insertDay_sorted (ds : List Knut.Day) (t : Int) (h : Sorted ds) : Sorted (insertDay ds t) := by
  induction ds with
  | nil => simp [insertDay, Sorted]
  | cons x rest ih =>
    unfold insertDay
    have hx := List.pairwise_cons.mp h
    split
    · rename_i hlt
      refine List.pairwise_cons.mpr ⟨?_, h⟩
      intro y hy
      rcases List.mem_cons.mp hy with e | e
      · rw [e]; exact hlt
      · exact Int.lt_trans hlt (hx.1 y e)
    · split
      · exact h
      · rename_i h1 h2
        refine List.pairwise_cons.mpr ⟨?_, ih hx.2⟩
        intro y hy
        rcases insertDay_dates rest t y hy with e | e
        · rw [e]; omega
        · exact hx.1 y e

theorem dayAt_insertDay (ds : List Knut.Day) (t k : Int) (h : Sorted ds) :
    dayAt (insertDay ds t) k = if k = t then some ((dayAt ds t).getD { date := t }) else dayAt ds k := by
  induction ds with
  | nil =>
    by_cases hk : k = t
    · subst hk; simp [insertDay, dayAt]
    · have : ¬ t = k := fun e => hk e.symm
      simp [insertDay, dayAt, hk, this]
  | cons x rest ih =>
    have hx := List.pairwise_cons.mp h
    unfold insertDay
    split
    · rename_i hlt
      -- t is smaller than every date of the list: not found
      have hnone : dayAt (x :: rest) t = none := by
        unfold dayAt
        rw [List.find?_eq_none]
        intro y hy
        rcases List.mem_cons.mp hy with e | e
        · rw [e]; simp; omega
        · have := hx.1 y e; simp; omega
      by_cases hk : k = t
      · subst hk
        rw [hnone]
        simp [dayAt]
      · have : ¬ t = k := fun e => hk e.symm
        simp [dayAt, hk, this]
    · split
      · rename_i h1 h2
        by_cases hk : k = t
        · subst hk; simp [dayAt, h2]
        · simp [hk]
      · rename_i h1 h2
        have hxt : x.date < t := by omega
        by_cases hk : k = t
        · subst hk
          have hne : ¬ x.date = k := by omega
          simp only [dayAt, List.find?_cons, hne, decide_false, if_true] at ih ⊢
          have := ih hx.2
          simpa using this
        · have := ih hx.2
          simp only [hk, if_false] at this ⊢
          simp only [dayAt, List.find?_cons] at this ⊢
          rw [this]

theorem dayAt_map (ds : List Knut.Day) (f : Knut.Day → Knut.Day) (hf : ∀ d, (f d).date = d.date) (k : Int) :
    dayAt (ds.map f) k = (dayAt ds k).map f := by
  induction ds with
  | nil => rfl
  | cons x rest ih =>
    simp only [dayAt, List.map_cons, List.find?_cons, hf] at ih ⊢
    by_cases h : x.date = k <;> simp [h, ih]

theorem Day_add_date (d : Knut.Day) (x : Knut.Directive) : (d.add x).date = d.date := by
  cases x <;> rfl

theorem dayAt_addToDays (ds : List Knut.Day) (x : Knut.Directive) (h : Sorted ds) (k : Int) :
    dayAt (addToDays ds x) k =
      if k = x.date then some (((dayAt ds k).getD { date := k }).add x) else dayAt ds k := by
  unfold addToDays
  rw [dayAt_map _ _ (by intro d; split <;> simp [Day_add_date])]
  rw [dayAt_insertDay ds x.date k h]
  by_cases hk : k = x.date
  · subst hk
    simp only [if_true, Option.map_some]
    have : ((dayAt ds x.date).getD { date := x.date }).date = x.date := by
      cases hd : dayAt ds x.date with
      | none => rfl
      | some d => exact dayAt_date hd
    simp [this]
  · simp only [hk, if_false]
    cases hd : dayAt ds k with
    | none => rfl
    | some d =>
      have := dayAt_date hd
      have : ¬ d.date = x.date := by omega
      simp [this]

theorem addToDays_sorted (ds : List Knut.Day) (x : Knut.Directive) (h : Sorted ds) : Sorted (addToDays ds x) := by
  unfold addToDays Sorted
  rw [List.pairwise_map]
  refine (insertDay_sorted ds x.date h).imp ?_
  intro a b hab
  have e1 : (if a.date = x.date then a.add x else a).date = a.date := by split <;> simp [Day_add_date]
  have e2 : (if b.date = x.date then b.add x else b).date = b.date := by split <;> simp [Day_add_date]
  rw [e1, e2]; exact hab

/-! ## The Go builder against the model builder -/

/-- the Go builder (a map from dates to days, `min`, `max`) against the model builder (days sorted by date): every lookup by date
agrees; the model's days are strictly sorted; the Go map has no stale entries -/
structure BEquiv (cur : String → Bool) (g : journal.Builder) (b : Knut.Builder) : Prop where
  min : g.min_ = b.min
  max : g.max_ = b.max
  lookup : ∀ k : Int, match Knut.AMap.find? g.days k, dayAt b.days k with
    | some gd, some d => DayRel cur gd d
    | none, none => True
    | _, _ => False
  sorted : Sorted b.days
  nodup : (g.days.map Prod.fst).Nodup

/-- `journal.New()` -/
theorem New_agrees (cur : String → Bool) : BEquiv cur journal.New {} := by
  refine ⟨?_, rfl, ?_, ?_, ?_⟩
  · show date.Date 9999 12 31 = maxDate
    decide +kernel
  · intro k; simp [journal.New, dayAt]
  · simp [Sorted]
  · simp [journal.New]

/-- `Builder.Period()` -/
theorem Period_agrees (cur : String → Bool) {g : journal.Builder} {b : Knut.Builder} (h : BEquiv cur g b) :
    journal.Builder.Period g = ⟨b.min, b.max⟩ := by
  simp [journal.Builder.Period, h.min, h.max]

def emptyDay (k : Int) : journal.Day :=
  { Date := k, Prices := [], Assertions := [], Openings := [], Transactions := [], Closings := [], Normalized := GoZero.zero,
    Performance := GoZero.zero }

theorem DayRel_empty (cur : String → Bool) (k : Int) : DayRel cur (emptyDay k) { date := k } :=
  ⟨rfl, .nil, .nil, .nil, .nil, .nil⟩

/-- `Builder.Day(k)`: the day of the date, created empty when missing — on both sides -/
theorem Day_agrees (cur : String → Bool) {g : journal.Builder} {b : Knut.Builder} (h : BEquiv cur g b) (k : Int) :
    ∃ gd, journal.Builder.Day g k = ({ g with days := Knut.AMap.set g.days k gd }, gd) ∧
      DayRel cur gd ((dayAt b.days k).getD { date := k }) ∧
      (Knut.AMap.find? g.days k = some gd ∨ (Knut.AMap.find? g.days k = none ∧ gd = emptyDay k)) := by
  unfold journal.Builder.Day getDefault
  have hl := h.lookup k
  cases hg : Knut.AMap.find? g.days k with
  | none =>
    cases hd : dayAt b.days k with
    | none => exact ⟨emptyDay k, rfl, by simpa using DayRel_empty cur k, Or.inr ⟨rfl, rfl⟩⟩
    | some d => simp [hg, hd] at hl
  | some gd =>
    cases hd : dayAt b.days k with
    | none => simp [hg, hd] at hl
    | some d =>
      simp only [hg, hd] at hl
      exact ⟨gd, rfl, by simpa using hl, Or.inl rfl⟩

/-- after `d := j.Day(k)` and the write-back of an updated day `gd'`, the builders agree again when the new day stands for the
model's updated day -/
theorem BEquiv_update (cur : String → Bool) {g : journal.Builder} {b : Knut.Builder} (h : BEquiv cur g b) (x : Knut.Directive)
    (gd gd' : journal.Day) (mn mx : Int)
    (hrel : DayRel cur gd' (((dayAt b.days x.date).getD { date := x.date }).add x)) :
    BEquiv cur { days := Knut.AMap.set (Knut.AMap.set g.days x.date gd) x.date gd', min_ := mn, max_ := mx }
      { days := addToDays b.days x, min := mn, max := mx } := by
  refine ⟨rfl, rfl, ?_, addToDays_sorted _ _ h.sorted, ?_⟩
  · intro k
    simp only [Knut.AMap.find?_set, dayAt_addToDays _ _ h.sorted]
    by_cases hk : x.date = k
    · subst hk; simpa using hrel
    · have hk' : ¬ k = x.date := fun e => hk e.symm
      simp only [hk, hk', if_false]
      exact h.lookup k
  · exact TransCheck.keys_set_nodup _ _ _ (TransCheck.keys_set_nodup _ _ _ h.nodup)

theorem DayRel_add_date {cur : String → Bool} {gd : journal.Day} {d : Knut.Day} (h : DayRel cur gd d) : gd.Date = d.date := h.date

theorem ite_max (c : Prop) [Decidable c] (j : journal.Builder) (x : Int) :
    (if c then { j with max_ := x } else j) = { j with max_ := if c then x else j.max_ } := by
  split <;> rfl

theorem ite_min (c : Prop) [Decidable c] (j : journal.Builder) (x : Int) :
    (if c then { j with min_ := x } else j) = { j with min_ := if c then x else j.min_ } := by
  split <;> rfl

theorem Day_date_of_rel {cur : String → Bool} {b : Knut.Builder} {gd : journal.Day} {k : Int}
    (hrel : DayRel cur gd ((dayAt b.days k).getD { date := k })) : gd.Date = k := by
  rw [hrel.date]
  cases hd : dayAt b.days k with
  | none => rfl
  | some d => simpa [hd] using dayAt_date hd

/-- **`Builder.Add`**: the directive is appended to the day of its date (created when missing), `max` follows prices and
transactions, `min` follows transactions -/
theorem Add_agrees (cur : String → Bool) {g : journal.Builder} {b : Knut.Builder} (h : BEquiv cur g b)
    (gx : model.Directive) (x : Knut.Directive) (hx : DirRel cur gx x) :
    ∃ g', journal.Builder.Add g gx = (g', none) ∧ BEquiv cur g' (b.add x) := by
  cases gx <;> cases x <;> simp only [DirRel] at hx
  case Price.price gp p =>
    have hdate : gp.Date = p.date := by rw [hx]; rfl
    obtain ⟨gd, e, hrel, _⟩ := Day_agrees cur h gp.Date
    have hgd := Day_date_of_rel hrel
    obtain ⟨gd', hgd'⟩ : ∃ gd', gd' = { gd with Prices := gd.Prices ++ [gp] } := ⟨_, rfl⟩
    have hrel' : DayRel cur gd' (((dayAt b.days gp.Date).getD { date := gp.Date }).add (.price p)) := by
      rw [hgd']
      exact ⟨hrel.date, AllRel_append hrel.prices (.cons hx .nil), hrel.assertions, hrel.openings, hrel.transactions, hrel.closings⟩
    have hAdd : journal.Builder.Add g (.Price gp) =
        ({ days := Knut.AMap.set (Knut.AMap.set g.days gp.Date gd) gp.Date gd', min_ := g.min_,
           max_ := if g.max_ < gd.Date then gd.Date else g.max_ }, none) := by
      simp only [journal.Builder.Add, e, Time.Before, decide_eq_true_eq, ← hgd']
      by_cases hc : g.max_ < gd.Date <;> simp [hc]
    rw [hAdd, hgd, h.min, h.max, hdate] at *
    exact ⟨_, rfl, BEquiv_update cur h (.price p) gd gd' b.min _ hrel'⟩
  case Open.opening go o =>
    have hdate : go.Date = o.date := by rw [hx]; rfl
    obtain ⟨gd, e, hrel, _⟩ := Day_agrees cur h go.Date
    obtain ⟨gd', hgd'⟩ : ∃ gd', gd' = { gd with Openings := gd.Openings ++ [go] } := ⟨_, rfl⟩
    have hrel' : DayRel cur gd' (((dayAt b.days go.Date).getD { date := go.Date }).add (.opening o)) := by
      rw [hgd']
      exact ⟨hrel.date, hrel.prices, hrel.assertions, AllRel_append hrel.openings (.cons hx .nil), hrel.transactions, hrel.closings⟩
    have hAdd : journal.Builder.Add g (.Open go) =
        ({ days := Knut.AMap.set (Knut.AMap.set g.days go.Date gd) go.Date gd', min_ := g.min_, max_ := g.max_ }, none) := by
      simp only [journal.Builder.Add, e, ← hgd']
    rw [hAdd, h.min, h.max, hdate] at *
    exact ⟨_, rfl, BEquiv_update cur h (.opening o) gd gd' b.min b.max hrel'⟩
  case Transaction.tx gt t =>
    have hdate : gt.Date = t.date := hx.1
    obtain ⟨gd, e, hrel, _⟩ := Day_agrees cur h gt.Date
    have hgd := Day_date_of_rel hrel
    obtain ⟨gd', hgd'⟩ : ∃ gd', gd' = { gd with Transactions := gd.Transactions ++ [gt] } := ⟨_, rfl⟩
    have hrel' : DayRel cur gd' (((dayAt b.days gt.Date).getD { date := gt.Date }).add (.tx t)) := by
      rw [hgd']
      exact ⟨hrel.date, hrel.prices, hrel.assertions, hrel.openings, AllRel_append hrel.transactions (.cons hx .nil), hrel.closings⟩
    have hAdd : journal.Builder.Add g (.Transaction gt) =
        ({ days := Knut.AMap.set (Knut.AMap.set g.days gt.Date gd) gt.Date gd',
           min_ := if g.min_ > gt.Date then gd.Date else g.min_,
           max_ := if g.max_ < gd.Date then gd.Date else g.max_ }, none) := by
      simp only [journal.Builder.Add, e, Time.Before, Time.After, decide_eq_true_eq, ← hgd']
      by_cases hc : g.max_ < gd.Date <;> by_cases hm : g.min_ > gt.Date <;> simp [hc, hm]
    rw [hAdd, hgd, h.min, h.max, hdate] at *
    exact ⟨_, rfl, BEquiv_update cur h (.tx t) gd gd' _ _ hrel'⟩
  case Assertion.assertion ga a =>
    have hdate : ga.Date = a.date := hx.1
    obtain ⟨gd, e, hrel, _⟩ := Day_agrees cur h ga.Date
    obtain ⟨gd', hgd'⟩ : ∃ gd', gd' = { gd with Assertions := gd.Assertions ++ [ga] } := ⟨_, rfl⟩
    have hrel' : DayRel cur gd' (((dayAt b.days ga.Date).getD { date := ga.Date }).add (.assertion a)) := by
      rw [hgd']
      exact ⟨hrel.date, hrel.prices, AllRel_append hrel.assertions (.cons hx .nil), hrel.openings, hrel.transactions, hrel.closings⟩
    have hAdd : journal.Builder.Add g (.Assertion ga) =
        ({ days := Knut.AMap.set (Knut.AMap.set g.days ga.Date gd) ga.Date gd', min_ := g.min_, max_ := g.max_ }, none) := by
      simp only [journal.Builder.Add, e, ← hgd']
    rw [hAdd, h.min, h.max, hdate] at *
    exact ⟨_, rfl, BEquiv_update cur h (.assertion a) gd gd' b.min b.max hrel'⟩
  case Close.closing gc c =>
    have hdate : gc.Date = c.date := by rw [hx]; rfl
    obtain ⟨gd, e, hrel, _⟩ := Day_agrees cur h gc.Date
    obtain ⟨gd', hgd'⟩ : ∃ gd', gd' = { gd with Closings := gd.Closings ++ [gc] } := ⟨_, rfl⟩
    have hrel' : DayRel cur gd' (((dayAt b.days gc.Date).getD { date := gc.Date }).add (.closing c)) := by
      rw [hgd']
      exact ⟨hrel.date, hrel.prices, hrel.assertions, hrel.openings, hrel.transactions, AllRel_append hrel.closings (.cons hx .nil)⟩
    have hAdd : journal.Builder.Add g (.Close gc) =
        ({ days := Knut.AMap.set (Knut.AMap.set g.days gc.Date gd) gc.Date gd', min_ := g.min_, max_ := g.max_ }, none) := by
      simp only [journal.Builder.Add, e, ← hgd']
    rw [hAdd, h.min, h.max, hdate] at *
    exact ⟨_, rfl, BEquiv_update cur h (.closing c) gd gd' b.min b.max hrel'⟩

/-- a value of a dynamic type that is none of the five directive types is rejected -/
theorem Add_other (g : journal.Builder) : journal.Builder.Add g .other = (g, some ⟨"unknown: %v (%T)"⟩) := rfl

/-! ## `Builder.Build`: the days sorted by date -/

theorem dayAt_of_mem_sorted {ds : List Knut.Day} (h : Sorted ds) {d : Knut.Day} (hd : d ∈ ds) : dayAt ds d.date = some d := by
  induction ds with
  | nil => simp at hd
  | cons x rest ih =>
    have hx := List.pairwise_cons.mp h
    rcases List.mem_cons.mp hd with e | e
    · subst e; simp [dayAt]
    · have hlt := hx.1 d e
      have hne : ¬ x.date = d.date := by omega
      simp only [dayAt, List.find?_cons, hne, decide_false]
      exact ih hx.2 e

theorem CompareDays_le (a b : journal.Day) : decide (journal.CompareDays a b ≠ 1) = decide (a.Date ≤ b.Date) := by
  unfold journal.CompareDays
  rw [TransPrice.compare_Time_eq]
  by_cases h1 : a.Date < b.Date
  · have : a.Date ≤ b.Date := by omega
    simp [h1, this]
  · by_cases h2 : a.Date = b.Date
    · simp [h2]
    · have : ¬ a.Date ≤ b.Date := by omega
      simp [h1, h2, this]

/-- **`Builder.Build`**: the days of the Go map sorted by `CompareDays` stand, one by one, for the model's (sorted) days — whatever
the iteration order of the map and whatever `sort.Slice` does, because the dates are distinct -/
theorem Build_agrees (cur : String → Bool) {g : journal.Builder} {b : Knut.Builder} (h : BEquiv cur g b) :
    AllRel (DayRel cur) (journal.Builder.Build g).Days b.days := by
  -- facts about the entries of the Go map
  have hfind : ∀ k gd, (k, gd) ∈ g.days → Knut.AMap.find? g.days k = some gd := fun k gd hm =>
    TransCheck.find?_of_mem_nodup h.nodup hm
  have hkey : ∀ k gd, Knut.AMap.find? g.days k = some gd → ∃ d, dayAt b.days k = some d ∧ DayRel cur gd d := by
    intro k gd hf
    have := h.lookup k
    rw [hf] at this
    cases hd : dayAt b.days k with
    | none => simp [hd] at this
    | some d => simp only [hd] at this; exact ⟨d, rfl, this⟩
  have hdate : ∀ k gd, Knut.AMap.find? g.days k = some gd → gd.Date = k := by
    intro k gd hf
    obtain ⟨d, hd, hr⟩ := hkey k gd hf
    rw [hr.date]; exact dayAt_date hd
  -- the model's days looked up in the Go map
  let pick : Knut.Day → journal.Day := fun d => (Knut.AMap.find? g.days d.date).getD (emptyDay d.date)
  have hpick : ∀ d ∈ b.days, Knut.AMap.find? g.days d.date = some (pick d) ∧ DayRel cur (pick d) d := by
    intro d hd
    have hat := dayAt_of_mem_sorted h.sorted hd
    have := h.lookup d.date
    rw [hat] at this
    cases hf : Knut.AMap.find? g.days d.date with
    | none => simp [hf] at this
    | some gd => simp only [hf] at this; exact ⟨by simp [pick, hf], by simpa [pick, hf] using this⟩
  have hrel : AllRel (DayRel cur) (b.days.map pick) b.days := by
    have : ∀ l : List Knut.Day, (∀ d ∈ l, DayRel cur (pick d) d) → AllRel (DayRel cur) (l.map pick) l := by
      intro l
      induction l with
      | nil => intro _; exact .nil
      | cons x rest ih => intro hl; exact .cons (hl x (List.mem_cons_self ..)) (ih (fun d hd => hl d (List.mem_cons_of_mem _ hd)))
    exact this _ (fun d hd => (hpick d hd).2)
  suffices hL : (journal.Builder.Build g).Days = b.days.map pick by rw [hL]; exact hrel
  unfold journal.Builder.Build sortedValues
  simp only
  have hle : (fun a b : journal.Day => decide (journal.CompareDays a b ≠ 1)) = (fun a b => decide (a.Date ≤ b.Date)) := by
    funext a b; exact CompareDays_le a b
  rw [hle]
  have htrans : ∀ a b c : journal.Day, decide (a.Date ≤ b.Date) = true → decide (b.Date ≤ c.Date) = true →
      decide (a.Date ≤ c.Date) = true := by
    intro a b c h1 h2
    simp only [decide_eq_true_eq] at h1 h2 ⊢
    omega
  have htotal : ∀ a b : journal.Day, (decide (a.Date ≤ b.Date) || decide (b.Date ≤ a.Date)) = true := by
    intro a b
    simp only [Bool.or_eq_true, decide_eq_true_eq]
    omega
  -- the values of the Go map do not repeat, and they are exactly the picked days
  have hvals_mem : ∀ gd, gd ∈ g.days.map Prod.snd ↔ gd ∈ b.days.map pick := by
    intro gd
    constructor
    · intro hm
      obtain ⟨⟨k, gd'⟩, hm', rfl⟩ := List.mem_map.mp hm
      have hf := hfind k gd' hm'
      obtain ⟨d, hd, _⟩ := hkey k gd' hf
      have hdm : d ∈ b.days := List.mem_of_find?_eq_some hd
      have hdk := dayAt_date hd
      refine List.mem_map.mpr ⟨d, hdm, ?_⟩
      simp [pick, hdk, hf]
    · intro hm
      obtain ⟨d, hd, rfl⟩ := List.mem_map.mp hm
      have := (hpick d hd).1
      exact List.mem_map.mpr ⟨(d.date, pick d), TransCheck.mem_of_find? this, rfl⟩
  have hvals_nodup : (g.days.map Prod.snd).Nodup := by
    have hnd := h.nodup
    rw [List.Nodup, List.pairwise_map] at hnd ⊢
    refine hnd.imp_of_mem ?_
    intro e1 e2 h1 h2 hne heq
    apply hne
    have d1 := hdate e1.1 e1.2 (hfind e1.1 e1.2 h1)
    have d2 := hdate e2.1 e2.2 (hfind e2.1 e2.2 h2)
    rw [← d1, ← d2, heq]
  have hpick_nodup : (b.days.map pick).Nodup := by
    rw [List.Nodup, List.pairwise_map]
    refine h.sorted.imp_of_mem ?_
    intro d1 d2 h1 h2 hlt heq
    have e1 := hdate _ _ (hpick d1 h1).1
    have e2 := hdate _ _ (hpick d2 h2).1
    rw [heq] at e1
    omega
  have hperm : ((g.days.map Prod.snd).mergeSort (fun a b => decide (a.Date ≤ b.Date))).Perm (b.days.map pick) :=
    (List.mergeSort_perm _ _).trans ((List.perm_ext_iff_of_nodup hvals_nodup hpick_nodup).mpr hvals_mem)
  apply List.Perm.eq_of_pairwise (le := fun a b : journal.Day => decide (a.Date ≤ b.Date) = true) _ _ _ hperm
  · intro x y hx hy h1 h2
    have hx' : x ∈ b.days.map pick := hperm.mem_iff.mp hx
    obtain ⟨d1, hd1, rfl⟩ := List.mem_map.mp hx'
    obtain ⟨d2, hd2, rfl⟩ := List.mem_map.mp hy
    have e1 := hdate _ _ (hpick d1 hd1).1
    have e2 := hdate _ _ (hpick d2 hd2).1
    simp only [decide_eq_true_eq] at h1 h2
    have hdd : d1.date = d2.date := by omega
    have a1 := dayAt_of_mem_sorted h.sorted hd1
    have a2 := dayAt_of_mem_sorted h.sorted hd2
    rw [hdd] at a1
    have : d1 = d2 := Option.some.inj (a1.symm.trans a2)
    rw [this]
  · exact List.pairwise_mergeSort htrans htotal _
  · rw [List.pairwise_map]
    refine h.sorted.imp_of_mem ?_
    intro d1 d2 h1 h2 hlt
    have e1 := hdate _ _ (hpick d1 h1).1
    have e2 := hdate _ _ (hpick d2 h2).1
    simp only [decide_eq_true_eq]
    omega

/-- the directives of a journal added one by one (`FromModelStream`: `j := New(); for … j.Add(d)`) -/
theorem addAll_agrees (cur : String → Bool) :
    ∀ (xs : List Knut.Directive) (gxs : List model.Directive) {g : journal.Builder} {b : Knut.Builder}, BEquiv cur g b →
      AllRel (DirRel cur) gxs xs →
      ∃ g', gxs.foldl (fun j d => (journal.Builder.Add j d).1) g = g' ∧ BEquiv cur g' (xs.foldl Knut.Builder.add b) := by
  intro xs
  induction xs with
  | nil => intro gxs g b h hr; cases hr; exact ⟨g, rfl, h⟩
  | cons x rest ih =>
    intro gxs g b h hr
    cases hr with
    | cons hx hrest =>
      obtain ⟨g1, e1, h1⟩ := Add_agrees cur h _ x hx
      obtain ⟨g2, e2, h2⟩ := ih _ h1 hrest
      exact ⟨g2, by simp [List.foldl_cons, e1, e2], h2⟩

/-- **the whole builder**: a journal built from related directives has days that stand for `Builder.ofList`'s days, the same
period, and `Build` delivers them sorted by date -/
theorem journal_agrees (cur : String → Bool) (xs : List Knut.Directive) (gxs : List model.Directive)
    (hr : AllRel (DirRel cur) gxs xs) :
    let g := gxs.foldl (fun j d => (journal.Builder.Add j d).1) journal.New
    AllRel (DayRel cur) (journal.Builder.Build g).Days (Knut.Builder.ofList xs).build ∧
      journal.Builder.Period g = ⟨(Knut.Builder.ofList xs).min, (Knut.Builder.ofList xs).max⟩ := by
  obtain ⟨g', e, h⟩ := addAll_agrees cur xs gxs (New_agrees cur) hr
  simp only [e]
  exact ⟨Build_agrees cur h, Period_agrees cur h⟩

/-- non-vacuity: two transactions and a price on three days, added out of order: the period and the dates held -/
example :
    let t (d : Int) : transaction.Transaction := ⟨⟨0⟩, d, "x", [], none⟩
    let g := ([model.Directive.Transaction (t 20), model.Directive.Price ⟨⟨0⟩, 30, ⟨"USD", false⟩, 2, ⟨"CHF", false⟩⟩,
      model.Directive.Transaction (t 10)]).foldl (fun j d => (journal.Builder.Add j d).1) journal.New
    journal.Builder.Period g = ⟨10, 30⟩ ∧
      g.days.map (fun e => (e.1, e.2.Date, e.2.Transactions.length, e.2.Prices.length)) = [(20, 20, 1, 0), (30, 30, 0, 1), (10, 10, 1, 0)] := by
  decide +kernel

/-- non-vacuity: the hypothesis of `journal_agrees` is satisfiable (every model directive has a Go counterpart) -/
example (cur : String → Bool) (t : Knut.Transaction) (p : Knut.Price) :
    AllRel (DirRel cur) [model.Directive.Transaction (txGo cur ⟨1⟩ ⟨2⟩ t), model.Directive.Price (priceGo cur ⟨3⟩ p)] [.tx t, .price p] :=
  .cons (TransProcess.TRel_txGo cur _ _ t) (.cons rfl .nil)

end Knut.FactsAgree.TransJournal
