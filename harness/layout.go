package main

// Byte layout of generated journal files, shared by the include-tree writers of C05 (c05WriteTree) and C14 (c14Text).
//
// What a file's directives mean must not depend on the bytes around them: how the file begins, what stands between two
// directives, how the file ends (no final newline after a directive of any kind, an include among them), where in the
// file an include stands, how its path is spelled. A writer hands over the directives of one file as items (text
// without the final line end); a layFile drawn for the file says which bytes go around them. The loader stream of C19
// has the same freedom for its own tree type (lLayout in c19.go; added after seed C19-h, which dropped the subtree of
// an include that is the last directive of a file without a final newline). The tables are copies, so that a change
// to one generator does not move the cases of the other.

import (
	"fmt"
	"strings"
)

// layItem is one directive of a file.
type layItem struct {
	Text    string // without the final line end
	Block   bool   // ends only at a blank line or at the end of the file (transaction, multi-line assertion)
	Include bool   // an include line (Text is the path as spelled; the line is built by render)
}

// layFile is the drawn layout of one file.
type layFile struct {
	Head  string   // before the first item
	Seps  []string // after item k (k < last)
	Tail  string   // after the last item (after Head in a file without items)
	IncSp []string // per item: the blanks between `include` and the quote
	Move  int      // 0: includes stay where they are; 1: moved to the end of the file; 2: to the beginning
}

var (
	layHeads = []string{"", "", "", "\n", "\n\n\n", " \n", "\t\r\n", "\r\n", "# head\n", "* heading\r\n\r\n", "// c\n\n", "#\n", "  \t \n\n"}
	laySeps  = []string{"\n", "\n", "\n\n", "\n\n", "\r\n", "\r\n\r\n", " \n", "\t \r\n \n", "\n# c\n", "\n\n\n\n\n", "  \n// x\r\n* y\n", "\n#\n\n"}
	// file ends: nothing at all after the last directive, blanks only, one line end, many, a comment with and without line end
	layTails = []string{"", "", "", "", " ", "\t", "\r", "  \t ", "\n", "\n", "\r\n", "\n\n\n", "\n \n\t", "\n# end", "\n// end\r\n", "\n* end\r", " \n#", "\r\n\r\n "}
	layIncSp = []string{" ", " ", " ", "  ", "\t", " \t "}
)

// layDraw draws the layout of a file of n items.
func layDraw(r *RNG, n int) *layFile {
	l := &layFile{Head: Pick(r, layHeads), Tail: Pick(r, layTails)}
	switch r.Intn(8) {
	case 0, 1:
		l.Move = 1
	case 2:
		l.Move = 2
	}
	plain := r.Chance(1, 4) // a quarter of the files: one line end between the items, the file end still varies
	for k := 0; k < n; k++ {
		if plain {
			l.Seps = append(l.Seps, "\n")
		} else {
			l.Seps = append(l.Seps, Pick(r, laySeps))
		}
		l.IncSp = append(l.IncSp, Pick(r, layIncSp))
	}
	return l
}

// layCanon is the layout the writers used before: nothing before the first item, a blank line after every item.
func layCanon(n int) *layFile {
	l := &layFile{}
	for k := 0; k < n; k++ {
		l.Seps = append(l.Seps, "\n\n")
		l.IncSp = append(l.IncSp, " ")
	}
	l.Tail = "\n\n"
	return l
}

// layAfter is what follows an item whose text ends without a line end: sep as it is, except that a block ends only
// at a line that is empty or begins with a blank, or at the end of the file (the line after the last booking is read
// as another booking otherwise), so a blank line is put in where sep has none.
func layAfter(block, last bool, sep string) string {
	if !block {
		return sep
	}
	nl := strings.IndexByte(sep, '\n')
	if nl < 0 {
		if last {
			return sep // blanks up to the end of the file
		}
		return sep + "\n\n"
	}
	rest := sep[nl+1:]
	if rest == "" {
		if last {
			return sep
		}
		return sep + "\n"
	}
	line := rest
	if k := strings.IndexByte(rest, '\n'); k >= 0 {
		line = rest[:k]
	}
	if strings.Trim(line, " \t\r") == "" {
		return sep
	}
	return sep[:nl+1] + "\n" + rest
}

// arrange returns the items in the order the layout writes them (includes moved to the end or the beginning; items
// from index `fixed` on stay last, e.g. raw text that is not a directive list).
func (l *layFile) arrange(items []layItem, fixed int) []layItem {
	if l.Move == 0 {
		return items
	}
	var incs, rest []layItem
	for _, it := range items[:fixed] {
		if it.Include {
			incs = append(incs, it)
		} else {
			rest = append(rest, it)
		}
	}
	var res []layItem
	if l.Move == 1 {
		res = append(append(res, rest...), incs...)
	} else {
		res = append(append(res, incs...), rest...)
	}
	return append(res, items[fixed:]...)
}

// render is the text of a file with the given items (already arranged) in the layout.
func (l *layFile) render(items []layItem) string {
	var b strings.Builder
	b.WriteString(l.Head)
	for k, it := range items {
		last := k == len(items)-1
		sep := "\n"
		if last {
			sep = l.Tail
		} else if k < len(l.Seps) {
			sep = l.Seps[k]
		}
		if it.Include {
			sp := " "
			if k < len(l.IncSp) {
				sp = l.IncSp[k]
			}
			fmt.Fprintf(&b, "include%s\"%s\"", sp, it.Text)
		} else {
			b.WriteString(it.Text)
		}
		b.WriteString(layAfter(it.Block, last, sep))
	}
	if len(items) == 0 {
		b.WriteString(l.Tail)
	}
	return b.String()
}

// field renders the layout for the recorded input of a case.
func (l *layFile) field() string {
	return fmt.Sprintf("head %q seps %q tail %q includes %s", l.Head, strings.Join(l.Seps, "|"), l.Tail, []string{"in place", "last", "first"}[l.Move])
}

// layDir is a directive of the journal generator as an item.
func layDir(d JDir) layItem {
	return layItem{Text: strings.TrimSuffix(d.Text(), "\n"), Block: d.Kind == 't' || (d.Kind == 'a' && (len(d.Balances) != 1 || d.MultiLine))}
}
