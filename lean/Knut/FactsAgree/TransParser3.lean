import Knut.FactsAgree.TransParser2
/-!
# The translated parser agrees with the model parser, part 3: keywords, addons, transactions, the dated directives, `include`

* `Range.Extract` of the range a keyword was read into gives the keyword back (`readString_extract`, `readAlternative_extract`: ASCII
  keywords; the text between the offsets is the keyword's bytes) — Go switches on `r.Extract()`, the model on the alternative that
  `readAlternative` reports.
* `parseAddons` with its loop (`addonsLoop`).  An annotation that is absent is Go's zero struct (empty `Path`/`Text` in its ranges), in
  the model `Performance.zero` / `Accrual.zero`: the conversions `goPerfZ`, `goAccrZ`, `goAddonsZ` say so.
* `parseTransaction` with its loop (`bookingsLoop`), `parseOpen`, `parseClose`, `parseAssertion` with its loop (`balancesLoop`),
  `parsePrice`, `parseInclude`.
-/
set_option linter.unusedSimpArgs false
namespace Knut.FactsAgree.TransParser
open Knut Knut.GoSem Knut.Syntax Knut.Utf8
open Knut.Generated.Go
open Knut.FactsAgree.TransScanner

/-! ### keywords: what `Range.Extract` returns -/

/-- an ASCII string constant is one byte per character -/
theorem lit_ascii : ∀ (cs : List Char), (∀ c ∈ cs, c.toNat < 128) →
    cs.flatMap (fun c => Syn.encodeRune c.toNat) = cs.map (fun c => UInt8.ofNat c.toNat)
  | [], _ => rfl
  | c :: cs, h => by
    have hc : c.toNat < 0x80 := h c List.mem_cons_self
    have e : Syn.encodeRune c.toNat = [UInt8.ofNat c.toNat] := by simp [Syn.encodeRune, hc]
    simp only [List.flatMap_cons, List.map_cons, e, lit_ascii cs (fun c hc => h c (List.mem_cons_of_mem _ hc))]
    rfl

/-- an ASCII rune at the head of the unread tokens is the next byte of the text -/
theorem SimOK.head_ascii {text : Bytes} {s : St} {t : Tok} {rest : List Tok} (h : SimOK text s) (ht : s.toks = t :: rest)
    (hr : t.r < 128) : ∃ tl, text.drop s.off = UInt8.ofNat t.r :: tl ∧ t.bytes = [UInt8.ofNat t.r] := by
  rcases h.2 with hk | ⟨hk, _⟩
  · rw [ht] at hk
    have hwf := decodeAll_wf (text.drop s.off) t (by rw [← hk]; exact List.mem_cons_self)
    have hb := hwf.1 hr
    have hf := flat_decodeAll (text.drop s.off)
    rw [← hk, flat_cons, hb] at hf
    exact ⟨flat rest, hf.symm, hb⟩
  · rw [ht] at hk
    injection hk with hk1 _
    rw [hk1] at hr
    simp [eofTok, runeError] at hr

/-- `ReadString` of an ASCII string: the range read, the offset reached, and the bytes of the text in between -/
theorem readStringL_ascii {text : Bytes} (str : String) (start : Nat) :
    ∀ (chs : List Char) (s : St), SimOK text s → (∀ c ∈ chs, c.toNat < 128) → ∀ (r : Syntax.Range) (s' : St),
      readStringL str start (chs.map Char.toNat) s = .ok r s' →
      r = ⟨start, s'.off⟩ ∧ s'.off = s.off + chs.length ∧ s'.off ≤ text.length ∧
        (text.drop s.off).take chs.length = chs.map (fun c => UInt8.ofNat c.toNat) := by
  intro chs
  induction chs with
  | nil =>
    intro s h _ r s' hm
    simp only [List.map_nil, readStringL] at hm
    injection hm with h1 h2
    subst h2
    exact ⟨h1.symm, by simp, h.1, by simp⟩
  | cons ch chs ih =>
    intro s h hasc r s' hm
    simp only [List.map_cons, readStringL] at hm
    split at hm
    · cases hm
    · rename_i hc
      have hc' : ch.toNat = cur s := by simpa using hc
      have hch : ch.toNat < 128 := hasc ch List.mem_cons_self
      have hE : atEOF s = false := cur_ne_eof_of_eq hc'
      obtain ⟨t, rest, ht⟩ := (atEOF_false_iff s).mp hE
      have htr : t.r = ch.toNat := by rw [hc']; simp [cur, ht]
      obtain ⟨tl, hdrop, hbytes⟩ := SimOK.head_ascii h ht (by omega)
      have hx := advance_extS s hE
      have hst : (advance s).st = ⟨s.off + 1, rest⟩ := by
        have := advanceTok_st s.off t rest
        simp only [advance, ht]
        rw [this, hbytes]; rfl
      split at hm
      · rename_i u s1 heq
        rw [heq] at hx hst
        simp only [Res.st_ok] at hx hst
        have h1 : SimOK text s1 := SimOK.ext h hx.ext
        have hoff : s1.off = s.off + 1 := by rw [hst]
        obtain ⟨e1, e2, e3, e4⟩ := ih s1 h1 (fun c hc => hasc c (List.mem_cons_of_mem _ hc)) r s' hm
        have hd1 : text.drop (s.off + 1) = tl := by
          rw [← List.drop_drop, hdrop]; rfl
        refine ⟨e1, by rw [e2, hoff, List.length_cons]; omega, e3, ?_⟩
        rw [hoff, hd1] at e4
        rw [hdrop, List.length_cons, List.take_succ_cons, e4, htr, List.map_cons]
      · cases hm

/-- the keyword read by `ReadString` is what `Extract` returns for its range -/
theorem readString_extract {text : Bytes} {path : String} {s : St} (h : SimOK text s) (kw : String)
    (hasc : ∀ c ∈ kw.toList, c.toNat < 128) {r : Syntax.Range} {s' : St} (hm : readString kw s = .ok r s') :
    directives.Range.Extract (goRange text path r) = .ok (goStr kw) ∧ r = ⟨s.off, s'.off⟩ ∧ s'.off = s.off + kw.toList.length := by
  obtain ⟨e1, e2, e3, e4⟩ := readStringL_ascii (text := text) kw s.off kw.toList s h hasc r s' hm
  refine ⟨?_, e1, e2⟩
  subst e1
  unfold directives.Range.Extract goRange slice
  simp only
  have hb : ¬ ((s.off : Int) < 0 ∨ (s'.off : Int) < (s.off : Int) ∨ (text.length : Int) < (s'.off : Int)) := by omega
  rw [if_neg hb]
  simp only [Outcome.bind, Int.toNat_natCast]
  congr 1
  rw [List.drop_take, e2, Nat.add_sub_cancel_left, e4]
  exact (lit_ascii kw.toList hasc).symm

/-- the same for `ReadAlternative` -/
theorem readAlternative_extract {text : Bytes} {path : String} {s : St} (h : SimOK text s) (ss : List String)
    (hasc : ∀ t ∈ ss, ∀ c ∈ t.toList, c.toNat < 128) {r : Syntax.Range} {kw : String} {s' : St}
    (hm : readAlternative ss s = .ok (r, kw) s') :
    kw ∈ ss ∧ directives.Range.Extract (goRange text path r) = .ok (goStr kw) ∧ r = ⟨s.off, s'.off⟩ ∧
      s'.off = s.off + kw.toList.length := by
  obtain ⟨hmem, hrs⟩ := readAlternative_ok ss s r kw s' hm
  exact ⟨hmem, readString_extract h kw (hasc kw hmem) hrs⟩


/-! ### ranges: `Empty`, `Extend`; the zero structs of absent annotations -/

/-- an absent `@performance` is Go's zero struct -/
def goPerfZ (text : Bytes) (path : String) (p : Syntax.Performance) : directives.Performance :=
  if p = Performance.zero then GoZero.zero else goPerformance text path p

/-- an absent `@accrue` is Go's zero struct -/
def goAccrZ (text : Bytes) (path : String) (a : Syntax.Accrual) : directives.Accrual :=
  if a = Accrual.zero then GoZero.zero else goAccrual text path a

def goAddons (text : Bytes) (path : String) (a : Syntax.Addons) : directives.Addons :=
  ⟨goRange text path a.range, goPerfZ text path a.performance, goAccrZ text path a.accrual⟩

/-- a directive without annotations carries Go's zero `Addons` -/
def goAddonsZ (text : Bytes) (path : String) (a : Syntax.Addons) : directives.Addons :=
  if a = Addons.zero then GoZero.zero else goAddons text path a

theorem Empty_goRange (text : Bytes) (path : String) (r : Syntax.Range) :
    directives.Range.Empty (goRange text path r) = r.empty := by
  unfold directives.Range.Empty goRange Syntax.Range.empty
  have e : ((r.start : Int) = (r.stop : Int)) ↔ r.start = r.stop := by omega
  simp only [e, nat_beq]

theorem Empty_goPerfZ (text : Bytes) (path : String) (p : Syntax.Performance) :
    directives.Range.Empty (goPerfZ text path p).Range = p.range.empty := by
  unfold goPerfZ
  split
  · rename_i h; subst h; rfl
  · exact Empty_goRange text path p.range

theorem Empty_goAccrZ (text : Bytes) (path : String) (a : Syntax.Accrual) :
    directives.Range.Empty (goAccrZ text path a).Range = a.range.empty := by
  unfold goAccrZ
  split
  · rename_i h; subst h; rfl
  · exact Empty_goRange text path a.range

theorem Extend_goRange (text : Bytes) (path : String) (a b : Syntax.Range) :
    directives.Range.Extend (goRange text path a) (goRange text path b) = goRange text path (a.extend b) := by
  unfold directives.Range.Extend goRange Syntax.Range.extend
  have e1 : ((a.start : Int) > (b.start : Int)) ↔ a.start > b.start := by omega
  have e2 : ((a.stop : Int) < (b.stop : Int)) ↔ a.stop < b.stop := by omega
  by_cases h1 : a.start > b.start <;> by_cases h2 : a.stop < b.stop <;> simp [e1, e2, h1, h2]

theorem extend_stop_ne (a b : Syntax.Range) (hb : b.stop ≠ 0) : (a.extend b).stop ≠ 0 := by
  unfold Syntax.Range.extend
  simp only
  split <;> omega

theorem goPerfZ_extend (text : Bytes) (path : String) (p : Syntax.Performance) (r : Syntax.Range) (hr : r.stop ≠ 0) :
    goPerfZ text path { p with range := p.range.extend r } =
      { goPerformance text path p with Range := directives.Range.Extend (goRange text path p.range) (goRange text path r) } := by
  unfold goPerfZ
  rw [if_neg]
  · simp only [goPerformance, Extend_goRange]
  · intro heq
    have := congrArg (fun q => q.range.stop) heq
    exact extend_stop_ne p.range r hr this

theorem goAccrZ_extend (text : Bytes) (path : String) (a : Syntax.Accrual) (r : Syntax.Range) (hr : r.stop ≠ 0) :
    goAccrZ text path { a with range := a.range.extend r } =
      { goAccrual text path a with Range := directives.Range.Extend (goRange text path a.range) (goRange text path r) } := by
  unfold goAccrZ
  rw [if_neg]
  · simp only [goAccrual, Extend_goRange]
  · intro heq
    have := congrArg (fun q => q.range.stop) heq
    exact extend_stop_ne a.range r hr this

theorem goAddonsZ_of_stop (text : Bytes) (path : String) (a : Syntax.Addons) (h : a.range.stop ≠ 0) :
    goAddonsZ text path a = goAddons text path a := by
  unfold goAddonsZ
  rw [if_neg]
  intro heq
  exact h (congrArg (fun q => q.range.stop) heq)

theorem goErr_at (text : Bytes) (path : String) (msg : String) (r : Syntax.Range) :
    directives.GoError.Error (goRange text path r) (Syn.lit msg) .nil = goErr text path [Frame.at msg r] := by
  simp [goErr_single, goFrame]

theorem goErr_zero (text : Bytes) (path : String) :
    directives.GoError.Error (GoZero.zero : directives.Range) (GoZero.zero : Syn.GoString) .nil = goErr text path [Frame.zero] := by
  simp [goErr_single, goFrame]

@[simp] theorem go_UpdateDesc (d d' : Syn.GoString) (start : Int) : scanner.Scope.UpdateDesc ⟨d, start⟩ d' = ⟨d', start⟩ := rfl

section
variable {text : Bytes} {path : String} {cb : Syn.Proc} {fuel : Nat} {s : St}

/-! ### parseAddons -/

/-- the loop of `parseAddons` is `addonsLoop` -/
theorem parseAddons_loop_agrees (start : Nat) :
    ∀ (n : Nat) (perf : Syntax.Performance) (accr : Syntax.Accrual) (s1 : St), Inv text fuel s1 → s1.toks.length < n →
      Agree text path cb (goAddonsZ text path)
        (parser.Parser.parseAddons.loop1 fuel ⟨Syn.lit "parsing addons", (start : Int)⟩ n (goParser text path cb s1)
          ⟨GoZero.zero, goPerfZ text path perf, goAccrZ text path accr⟩)
        (addonsLoop start perf accr s1) := by
  intro n
  induction n with
  | zero => intro _ _ s1 _ hn; omega
  | succ n ih =>
    intro perf accr s1 h1 hn
    unfold parser.Parser.parseAddons.loop1
    rw [addonsLoop_eq]
    simp only [goParser_Scanner]
    have hq : ∀ t ∈ ["@performance", "@accrue"], Plain t := by decide
    have hA := ReadAlternative_agrees (path := path) h1.1 ["@performance", "@accrue"] hq
    simp only [List.map_cons, List.map_nil] at hA
    rw [hA.1]
    cases hm : readAlternative ["@performance", "@accrue"] s1 with
    | err e s2 =>
      have hne := hA.2.2 e s2 hm
      simp only [Res.map, goResR]
      call_err hne
    | ok rt s2 =>
      obtain ⟨r, kw⟩ := rt
      have h2 : Inv text fuel s2 := h1.ext (ext_of_ok (readAlternative_ext _ _) hm)
      have l2 := ((readAlternative_prog _ (by decide) s1).of_ok hm).length_lt
      obtain ⟨hmem, hex, hr, hoff⟩ := readAlternative_extract (path := path) h1.1 _ (by decide) hm
      simp only [Res.map, goResR]
      go_ok
      rw [hex]
      simp only [obind_ok]
      refine agree_flow (fuel := fuel) (emb := fun (pa : Syntax.Performance × Syntax.Accrual) s' =>
          (goParser text path cb s', (⟨GoZero.zero, goPerfZ text path pa.1, goAccrZ text path pa.2⟩ : directives.Addons),
            directives.GoError.nil)) ?_ ?_ (fun _ => rfl)
      · -- the switch on the keyword
        have hkw : kw = "@performance" ∨ kw = "@accrue" := by simpa using hmem
        unfold addonStep
        rcases hkw with rfl | rfl
        · have hstop : r.stop ≠ 0 := by
            have hl : "@performance".toList.length = 12 := by decide
            rw [hr]; show s2.off ≠ 0; rw [hoff, hl]; omega
          simp only [eq_self, decide_true, if_true, beq_self_eq_true, Empty_goPerfZ]
          by_cases hemp : perf.range.empty = true
          · simp only [hemp, Bool.not_true, Bool.false_eq_true, if_false]
            pcall (parsePerformance_agrees (path := path) (cb := cb) h2), h2, (parsePerformance_prog _).ext => p4 s4 hm4 h4
            refine flow_ok ?_ h4
            simp only [goPerfZ_extend text path p4 r hstop]
            rfl
          · simp only [hemp, Bool.not_false, if_true, goErr_at, go_Annotate]
            exact flow_err (annotate_ne _ _ _ _) rfl rfl
        · have hstop : r.stop ≠ 0 := by
            have hl : "@accrue".toList.length = 7 := by decide
            rw [hr]; show s2.off ≠ 0; rw [hoff, hl]; omega
          have hk1 : (Syn.lit "@accrue" = Syn.lit "@performance") = False := by decide
          have hk2 : ("@accrue" == "@performance") = false := by decide
          simp only [hk1, hk2, eq_self, decide_true, decide_false, if_true, if_false, Bool.false_eq_true, beq_self_eq_true, Empty_goAccrZ]
          by_cases hemp : accr.range.empty = true
          · simp only [hemp, Bool.not_true, Bool.false_eq_true, if_false]
            pcall (parseAccrual_agrees (path := path) (cb := cb) h2), h2, (parseAccrual_ext _) => p4 s4 hm4 h4
            refine flow_ok ?_ h4
            simp only [goAccrZ_extend text path p4 r hstop]
            rfl
          · simp only [hemp, Bool.not_false, if_true, goErr_at, go_Annotate]
            exact flow_err (annotate_ne _ _ _ _) rfl rfl
      · intro pa s3 h3 hm3
        obtain ⟨perf', accr'⟩ := pa
        have l3 := (ext_of_ok (addonStep_ext _ _ _ _ _ _) hm3).length_le
        have o3 := (ext_of_ok (addonStep_ext _ _ _ _ _ _) hm3).off_le
        simp only [goParser_Scanner]
        rcases parse_step (readRestOfWhitespaceLine_agrees (path := path) (cb := cb) h3) h3 (readRestOfWhitespaceLine_ext _) with
          ⟨x4, s4, hm4, hc4, h4⟩ | ⟨e, s4, pv, hm4, hne, hc4⟩
        · rw [hc4, hm4]
          go_ok
          have l4 := (ext_of_ok (readRestOfWhitespaceLine_ext _) hm4).length_le
          have o4 := (ext_of_ok (readRestOfWhitespaceLine_ext _) hm4).off_le
          simp only [decide_eq_true_eq, cur_eq_lit h4.1 64 64 rfl (by decide)]
          by_cases hd : cur s4 = 64
          · have hb : (cur s4 != 64) = false := by simp [hd]
            simp only [hd, not_true_eq_false, decide_false, Bool.false_eq_true, if_false, hb]
            exact ih perf' accr' s4 h4 (by omega)
          · have hb : (cur s4 != 64) = true := by simpa using hd
            simp only [hd, not_false_eq_true, decide_true, if_true, hb]
            have hpos : (⟨rng start s4, perf', accr'⟩ : Syntax.Addons).range.stop ≠ 0 := by
              have : 0 < kw.toList.length := by
                have hkw : kw = "@performance" ∨ kw = "@accrue" := by simpa using hmem
                rcases hkw with rfl | rfl <;> decide
              simp only [rng]; omega
            refine agree_ok rfl ?_ rfl
            rw [goAddonsZ_of_stop _ _ _ hpos]
            rfl
        · rw [hc4, hm4]
          simp only [obind_ok, rbind_err, goParser_Scanner, decide_eq_true_eq, goErr_ne_nil _ _ hne, not_false_eq_true, decide_true,
            if_true, go_Range]
          rw [goErr_zero text path, go_Annotate]
          exact agree_err (annotate_ne _ _ _ _) rfl rfl

/-- `Parser.parseAddons` -/
theorem parseAddons_agrees (h : Inv text fuel s) :
    Agree text path cb (goAddonsZ text path) (parser.Parser.parseAddons fuel (goParser text path cb s)) (parseAddons s) := by
  unfold parser.Parser.parseAddons parseAddons
  simp only [goParser_Scanner, go_Scope]
  have := parseAddons_loop_agrees (text := text) (path := path) (cb := cb) (fuel := fuel) s.off fuel Performance.zero Accrual.zero s h h.2
  simp only [goPerfZ, goAccrZ, if_true] at this
  exact this


/-! ### parseTransaction -/

theorem obind_reflow {σ ρ : Type} (X : Outcome (Flow σ ρ)) (J : Flow σ ρ → Outcome (Flow σ ρ)) (hJ : ∀ r, J r = .ok r) :
    X.bind J = X := by
  cases X with
  | ok r => exact hJ r
  | panic m => rfl
  | outOfFuel => rfl

theorem Res.bind_ok_id {α} (r : Res α) : r.bind (fun e _ => e) (fun a s => .ok a s) = r := by
  cases r <;> rfl

/-- the loop of `parseTransaction` is `bookingsLoop`; `trx` is the transaction under construction -/
theorem parseTransaction_loop_agrees (start : Nat) (trx : directives.Transaction) :
    ∀ (n : Nat) (acc : List Syntax.Booking) (s1 : St), Inv text fuel s1 → s1.toks.length < n →
      FlowAgree (β := directives.Transaction) text path cb fuel
        (fun (bs : List Syntax.Booking) s' => (goParser text path cb s', { trx with Bookings := bs.map (goBooking text path) }))
        (parser.Parser.parseTransaction.loop1 fuel ⟨Syn.lit "parsing transaction", (start : Int)⟩ n (goParser text path cb s1)
          { trx with Bookings := acc.reverse.map (goBooking text path) })
        (bookingsLoop start acc s1) := by
  intro n
  induction n with
  | zero => intro _ s1 _ hn; omega
  | succ n ih =>
    intro acc s1 h1 hn
    unfold parser.Parser.parseTransaction.loop1
    rw [bookingsLoop_eq]
    pcall (parseBooking_agrees (path := path) (cb := cb) h1), h1, (parseBooking_prog _).ext => b2 s2 hm2 h2
    pcall (readRestOfWhitespaceLine_agrees (path := path) (cb := cb) h2), h2, (readRestOfWhitespaceLine_ext _) => x3 s3 hm3 h3
    have l2 := ((parseBooking_prog s1).of_ok hm2).length_lt
    have l3 := (ext_of_ok (readRestOfWhitespaceLine_ext _) hm3).length_le
    simp only [go_isWhitespaceOrNewline h3.1.cur_dom, cur_eof' h3, Bool.decide_eq_true]
    by_cases hc : (isWhitespaceOrNewline (cur s3) || atEOF s3) = true
    · simp only [hc, if_true]
      refine flow_ok ?_ h3
      simp only [List.reverse_cons, List.map_append, List.map_cons, List.map_nil]
    · simp only [hc, if_false, Bool.false_eq_true]
      have := ih (b2 :: acc) s3 h3 (by omega)
      simp only [List.reverse_cons, List.map_append, List.map_cons, List.map_nil] at this
      exact this

def goTransaction (text : Bytes) (path : String) (t : Syntax.Transaction) : directives.Transaction :=
  ⟨goRange text path t.range, goDate text path t.date, goQuoted text path t.description, t.bookings.map (goBooking text path),
    goAddonsZ text path t.addons⟩

/-- `Parser.parseTransaction`; `d0`/`start` is the scope of `parseDirective` -/
theorem parseTransaction_agrees (h : Inv text fuel s) (d0 : Syn.GoString) (start : Nat) (date : Syntax.Date) (addons : Syntax.Addons) :
    Agree text path cb (goTransaction text path)
      (parser.Parser.parseTransaction fuel (goParser text path cb s) ⟨d0, (start : Int)⟩ (goDate text path date) (goAddonsZ text path addons))
      (parseTransaction start date addons s) := by
  unfold parser.Parser.parseTransaction parseTransaction
  simp only [go_UpdateDesc]
  pcall (parseQuotedString_agrees (path := path) (cb := cb) h), h, (parseQuotedString_prog _).ext => q1 s1 hm1 h1
  pcall (readRestOfWhitespaceLine_agrees (path := path) (cb := cb) h1), h1, (readRestOfWhitespaceLine_ext _) => x2 s2 hm2 h2
  refine agree_flow (parseTransaction_loop_agrees (text := text) (path := path) (cb := cb) (fuel := fuel) start
    ⟨GoZero.zero, goDate text path date, goQuoted text path q1, GoZero.zero, goAddonsZ text path addons⟩ fuel [] s2 h2 h2.2) ?_ (fun _ => rfl)
  intro bs s3 h3 _
  simp only [goParser_Scanner, go_Range]
  exact agree_ok rfl rfl rfl

/-! ### parseOpen, parseClose -/

def goOpen (text : Bytes) (path : String) (o : Syntax.Open) : directives.Open :=
  ⟨goRange text path o.range, goDate text path o.date, goAccount text path o.account⟩

def goClose (text : Bytes) (path : String) (c : Syntax.Close) : directives.Close :=
  ⟨goRange text path c.range, goDate text path c.date, goAccount text path c.account⟩

/-- `Parser.parseOpen` -/
theorem parseOpen_agrees (h : Inv text fuel s) (d0 : Syn.GoString) (start : Nat) (date : Syntax.Date) :
    Agree text path cb (goOpen text path)
      (parser.Parser.parseOpen fuel (goParser text path cb s) ⟨d0, (start : Int)⟩ (goDate text path date)) (parseOpen start date s) := by
  unfold parser.Parser.parseOpen parseOpen
  simp only [go_UpdateDesc]
  pcall (parseAccount_agrees (path := path) (cb := cb) h), h, (parseAccount_prog _).ext => a1 s1 hm1 h1
  exact agree_ok rfl rfl rfl

/-- `Parser.parseClose` -/
theorem parseClose_agrees (h : Inv text fuel s) (d0 : Syn.GoString) (start : Nat) (date : Syntax.Date) :
    Agree text path cb (goClose text path)
      (parser.Parser.parseClose fuel (goParser text path cb s) ⟨d0, (start : Int)⟩ (goDate text path date)) (parseClose start date s) := by
  unfold parser.Parser.parseClose parseClose
  simp only [go_UpdateDesc]
  pcall (parseAccount_agrees (path := path) (cb := cb) h), h, (parseAccount_prog _).ext => a1 s1 hm1 h1
  exact agree_ok rfl rfl rfl

/-! ### parseAssertion -/

/-- the loop of `parseAssertion` is `balancesLoop` -/
theorem parseAssertion_loop_agrees (start : Nat) (asr : directives.Assertion) :
    ∀ (n : Nat) (acc : List Syntax.Balance) (s1 : St), Inv text fuel s1 → s1.toks.length < n →
      FlowAgree (β := directives.Assertion) text path cb fuel
        (fun (bs : List Syntax.Balance) s' => (goParser text path cb s', { asr with Balances := bs.map (goBalance text path) }))
        (parser.Parser.parseAssertion.loop1 fuel ⟨Syn.lit "parsing `balance` directive", (start : Int)⟩ n (goParser text path cb s1)
          { asr with Balances := acc.reverse.map (goBalance text path) })
        (balancesLoop start acc s1) := by
  intro n
  induction n with
  | zero => intro _ s1 _ hn; omega
  | succ n ih =>
    intro acc s1 h1 hn
    unfold parser.Parser.parseAssertion.loop1
    rw [balancesLoop_eq]
    pcall (parseBalance_agrees (path := path) (cb := cb) h1), h1, (parseBalance_prog _).ext => b2 s2 hm2 h2
    pcall (readRestOfWhitespaceLine_agrees (path := path) (cb := cb) h2), h2, (readRestOfWhitespaceLine_ext _) => x3 s3 hm3 h3
    have l2 := ((parseBalance_prog s1).of_ok hm2).length_lt
    have l3 := (ext_of_ok (readRestOfWhitespaceLine_ext _) hm3).length_le
    simp only [go_isWhitespaceOrNewline h3.1.cur_dom, cur_eof' h3, Bool.decide_eq_true]
    by_cases hc : (isWhitespaceOrNewline (cur s3) || atEOF s3) = true
    · simp only [hc, if_true]
      refine flow_ok ?_ h3
      simp only [List.reverse_cons, List.map_append, List.map_cons, List.map_nil]
    · simp only [hc, if_false, Bool.false_eq_true]
      have := ih (b2 :: acc) s3 h3 (by omega)
      simp only [List.reverse_cons, List.map_append, List.map_cons, List.map_nil] at this
      exact this

/-- `parseAssertion` with its two branches joined as in the Go code -/
theorem parseAssertion_eq (start : Nat) (date : Syntax.Date) (s : St) : parseAssertion start date s =
    (if isNewline (cur s) then
        (readRestOfWhitespaceLine s).bind (annotate "parsing `balance` directive" start) fun _ s => balancesLoop start [] s
      else (parseBalance s).bind (annotate "parsing `balance` directive" start) fun b s => .ok [b] s).bind (fun e _ => e)
      fun balances s => .ok ⟨rng start s, date, balances⟩ s := by
  unfold parseAssertion
  by_cases hc : isNewline (cur s) = true
  · simp only [hc, if_true, Res.bind_assoc_id]
  · simp only [hc, if_false, Bool.false_eq_true, Res.bind_assoc_id, rbind_ok]

def goAssertion (text : Bytes) (path : String) (a : Syntax.Assertion) : directives.Assertion :=
  ⟨goRange text path a.range, goDate text path a.date, a.balances.map (goBalance text path)⟩

/-- `Parser.parseAssertion` -/
theorem parseAssertion_agrees (h : Inv text fuel s) (d0 : Syn.GoString) (start : Nat) (date : Syntax.Date) :
    Agree text path cb (goAssertion text path)
      (parser.Parser.parseAssertion fuel (goParser text path cb s) ⟨d0, (start : Int)⟩ (goDate text path date))
      (parseAssertion start date s) := by
  rw [parseAssertion_eq]
  unfold parser.Parser.parseAssertion
  simp only [go_UpdateDesc]
  refine agree_flow (fuel := fuel) (emb := fun (bs : List Syntax.Balance) s' =>
      (goParser text path cb s',
        ({ Range := GoZero.zero, Date := goDate text path date, Balances := bs.map (goBalance text path) } : directives.Assertion)))
    ?_ ?_ (fun _ => rfl)
  · simp only [goParser_Scanner, go_Current, go_isNewline h.1.cur_dom]
    by_cases hc : isNewline (cur s) = true
    · simp only [hc, if_true]
      pcall (readRestOfWhitespaceLine_agrees (path := path) (cb := cb) h), h, (readRestOfWhitespaceLine_ext _) => x1 s1 hm1 h1
      rw [obind_reflow _ _ (by intro r; cases r <;> rfl)]
      exact parseAssertion_loop_agrees (text := text) (path := path) (cb := cb) (fuel := fuel) start
        ⟨GoZero.zero, goDate text path date, GoZero.zero⟩ fuel [] s1 h1 h1.2
    · simp only [hc, if_false, Bool.false_eq_true]
      pcall (parseBalance_agrees (path := path) (cb := cb) h), h, (parseBalance_prog _).ext => b1 s1 hm1 h1
      exact flow_ok rfl h1
  · intro bs s1 h1 _
    simp only [goParser_Scanner, go_Range]
    exact agree_ok rfl rfl rfl

/-! ### parsePrice, parseInclude -/

def goPrice (text : Bytes) (path : String) (p : Syntax.Price) : directives.Price :=
  ⟨goRange text path p.range, goDate text path p.date, goCommodity text path p.commodity, goCommodity text path p.target,
    goDecimal text path p.price⟩

/-- `Parser.parsePrice` (the error of the target commodity is returned undecorated, as in Go) -/
theorem parsePrice_agrees (h : Inv text fuel s) (d0 : Syn.GoString) (start : Nat) (date : Syntax.Date) :
    Agree text path cb (goPrice text path)
      (parser.Parser.parsePrice fuel (goParser text path cb s) ⟨d0, (start : Int)⟩ (goDate text path date)) (parsePrice start date s) := by
  unfold parser.Parser.parsePrice parsePrice
  simp only [go_UpdateDesc]
  pcall (parseCommodity_agrees (path := path) (cb := cb) h), h, (parseCommodity_prog _).ext => a1 s1 hm1 h1
  pcall (readWhitespace1_agrees (path := path) (cb := cb) h1), h1, (readWhitespace1_ext _) => x2 s2 hm2 h2
  pcall (parseDecimal_agrees (path := path) (cb := cb) h2), h2, (parseDecimal_prog _).ext => a3 s3 hm3 h3
  pcall (readWhitespace1_agrees (path := path) (cb := cb) h3), h3, (readWhitespace1_ext _) => x4 s4 hm4 h4
  pcall (parseCommodity_agrees (path := path) (cb := cb) h4), h4, (parseCommodity_prog _).ext => a5 s5 hm5 h5
  exact agree_ok rfl rfl rfl

def goInclude (text : Bytes) (path : String) (i : Syntax.Include) : directives.Include :=
  ⟨goRange text path i.range, goQuoted text path i.includePath⟩

/-- `Parser.parseInclude` -/
theorem parseInclude_agrees (h : Inv text fuel s) :
    Agree text path cb (goInclude text path) (parser.Parser.parseInclude fuel (goParser text path cb s)) (parseInclude s) := by
  unfold parser.Parser.parseInclude parseInclude
  simp only [goParser_Scanner, go_Scope]
  scall (ReadString_agrees (path := path) h.1 "include" (by decide)), h, (readString_ext _ _) => x1 s1 hm1 h1
  pcall (readWhitespace1_agrees (path := path) (cb := cb) h1), h1, (readWhitespace1_ext _) => x2 s2 hm2 h2
  pcall (parseQuotedString_agrees (path := path) (cb := cb) h2), h2, (parseQuotedString_prog _).ext => q3 s3 hm3 h3
  exact agree_ok rfl rfl rfl

end

end Knut.FactsAgree.TransParser
