import Knut.Properties.C04
import Knut.Properties.C05
import Knut.Proofs.LifecyclePerm
/-!
# C05 — the checker's verdict does not depend on the order of the directives

`C05_verdict_perm`: two directive lists that are permutations of each other (any include-tree layout,
any arrival order) are both accepted or both rejected by the checker.  The directive NAMED in a rejection
may differ between the two orders (`C05_offender_may_differ`); only the accept/reject verdict is claimed.
Route: `C04_accept_iff_strict` (checker = strict lifecycle specification), `C05_same_dates` and
`C05_same_day_content` (same days, per day and kind the same directives up to order), and
`Spec.verdict_perm` (the specification's verdict is invariant under reordering within a (day, kind) block).
-/
namespace Knut.C05
open Knut Knut.Spec

/-- the days built from two permutations of a directive list correspond one to one -/
theorem C05_days_equiv (ds ds' : List Directive) (hp : ds.Perm ds') :
    List.Forall₂ DayEquiv (Builder.ofList ds).build (Builder.ofList ds').build := by
  unfold Builder.build
  apply forall₂_of_dates _ _ (C05_same_dates ds ds' hp)
  intro d hd d' hd' hdate
  have hs := (ofList_spec txKind ds).1
  have hs' := (ofList_spec txKind ds').1
  have key : ∀ {α : Type} (k : Kind α), (k.proj d).Perm (k.proj d') := by
    intro α k
    have := C05_same_day_content k ds ds' hp d.date
    rw [contentOn_self k _ hs d hd, hdate, contentOn_self k _ hs' d' hd'] at this
    exact this
  exact ⟨hdate, key openKind, key txKind, key assertKind, key closeKind⟩

/-- the lifecycle specification's verdict (strict or as the property text reads) is invariant under
reordering within a (day, kind) block; prices are ignored -/
theorem C05_spec_verdict_perm (strict : Bool) (days days' : List Day) (h : List.Forall₂ DayEquiv days days') :
    (Spec.verdict strict days).isOk = (Spec.verdict strict days').isOk := verdict_perm strict days days' h

/-- **check verdict is order-independent**: permuting the directives of a journal (and hence any
re-arrangement of them over files) does not change whether the checker accepts. -/
theorem C05_verdict_perm (ds ds' : List Directive) (hp : ds.Perm ds') :
    (Check.run (Builder.ofList ds).build).isOk = (Check.run (Builder.ofList ds').build).isOk := by
  rw [C04.C04_accept_iff_strict, C04.C04_accept_iff_strict]
  exact verdict_perm true _ _ (C05_days_equiv ds ds' hp)

/-! ### Witnesses -/

def wA : Account := ⟨["Assets", "A"]⟩
def wE : Account := ⟨["Equity", "E"]⟩

/-- open, book, assert, book back, close -/
def okDirectives : List Directive :=
  [.opening ⟨1, wA⟩, .opening ⟨1, wE⟩, .tx ⟨1, "t", postingBuild wE wA "CHF" 5, none⟩,
   .assertion ⟨1, [⟨wA, 5, "CHF"⟩]⟩, .tx ⟨2, "u", postingBuild wA wE "CHF" 5, none⟩, .closing ⟨2, wA⟩]

/-- non-vacuity: an accepted journal, delivered in file order and in reverse order -/
example : okDirectives.Perm okDirectives.reverse ∧
    (Check.run (Builder.ofList okDirectives).build).isOk = true ∧
    (Check.run (Builder.ofList okDirectives.reverse).build).isOk = true :=
  ⟨(List.reverse_perm _).symm, by decide +kernel, by decide +kernel⟩

def badT1 : Transaction := ⟨1, "first", postingBuild wE wA "CHF" 1, none⟩
def badT2 : Transaction := ⟨1, "second", postingBuild wE wA "CHF" 2, none⟩

/-- the directive a rejecting run names -/
def offender (r : Except CheckErr CheckState) : Option Directive :=
  match r with | .error e => some e.directive | .ok _ => none

/-- only the verdict is order-independent: two bookings on unopened accounts on one day are rejected in
either order, and the checker names whichever comes first. -/
theorem C05_offender_may_differ :
    [Directive.tx badT1, .tx badT2].Perm [.tx badT2, .tx badT1] ∧
    offender (Check.run (Builder.ofList [.tx badT1, .tx badT2]).build) = some (.tx badT1) ∧
    offender (Check.run (Builder.ofList [.tx badT2, .tx badT1]).build) = some (.tx badT2) :=
  ⟨List.Perm.swap _ _ _, by decide +kernel, by decide +kernel⟩

end Knut.C05
