package main

// C04, stream "trees": the journal is an include TREE.
//
// `knut check` accepts exactly the well-formed journals - also when the journal is spread over many files: the verdict is
// that of the specification on the UNION of the directives of all members, and a tree one of whose members cannot be
// loaded (missing, unreadable, a directory, an include cycle, a directive the loader rejects) is no journal at all and must
// be rejected.  The other streams of C04 write one file per case; here the generated (well-formed or mutated) journal is
// distributed over 1-40 (thorough: -120) files - wide fans, fans below a hub, nested fans, chains, random trees, a file
// included twice -, members carry hundreds of KB to a few MB of comments, price declarations and bookings between
// accounts of their own (so that many parsers are busy for a long time while others finish at once), placed before /
// after / around the member that matters, and the commands run under schedule perturbation (KNUT_VERIF_SEED of the cpr
// hooks, GOMAXPROCS 1 / 2 / 16 / default).  A "presence tie" (every member books on one account whose total is asserted
// at the end) makes the absence of ANY member visible in the verdict.
//
// (Seeded change C04-h bounded the loader's errgroup and dropped the error of an include that was loaded inline while all
// slots were busy: a tree with a missing or rejected member was accepted when enough parsers were in flight.)

import (
	"crypto/sha256"
	"fmt"
	"os"
	"path"
	"path/filepath"
	"sort"
	"strings"
	"sync"
	"time"
)

type c04TInc struct {
	node   int    // the included member; -1: an include that names no member (missing file, directory, ancestor, ...)
	target string // the include path as written (relative to the directory of the including file)
}

type c04TNode struct {
	rel       string
	parent    int
	incs      []c04TInc
	dirs      []JDir // directives of the journal (and of the frame: presence tie, bulk accounts) that live here
	bulkBytes int    // filler: bytes of comments / price declarations / bulk bookings
	bulkDirs  int    //         of which so many directives (all of them part of the union)
	rawFirst  string // text the loader rejects: first thing in the file / somewhere between two items / last thing in the file
	rawMid    string
	rawLast   string
	special   string // "": regular file; "symlink": the member is a symbolic link to `link`; "mode000": unreadable
	link      string
	data      string   // the rendered text
	wire      []string // wire tokens of all directives written into this file
}

type c04Tree struct {
	shape, dist, incMode, fault, layout, style string
	mustReject                                 bool // a member cannot be loaded: whatever the directives say, this is no journal
	nodes                                      []*c04TNode
	mkdirs                                     []string // directories to create (an include names one of them)
	faultPos                                   int      // number of includes listed before the offending one in its includer (-1: n/a)
	faultIn                                    int      // the member whose list of includes holds the offending one (-1: n/a)
	tags                                       []string
	bytes                                      int
}

type c04TRun struct {
	cmd          string
	sched, procs int
	code         int
	stdout       string
	stderr       string
}

func (ru *c04TRun) env() []string {
	var env []string
	if ru.sched != 0 {
		env = append(env, fmt.Sprintf("KNUT_VERIF_SEED=%d", ru.sched))
	}
	if ru.procs != 0 {
		env = append(env, fmt.Sprintf("GOMAXPROCS=%d", ru.procs))
	}
	return env
}

func (ru *c04TRun) String() string {
	return fmt.Sprintf("knut %s main.knut [KNUT_VERIF_SEED=%d GOMAXPROCS=%d]", ru.cmd, ru.sched, ru.procs)
}

// c04TreeBoundary: counts of includes around the sizes worker pools and buffers usually have.
var c04TreeBoundary = []int{3, 4, 5, 7, 8, 9, 15, 16, 17, 31, 32, 33, 63, 64, 65}

// c04GenTree builds case i of the stream.  The tree is a function of (seed, index, tier, withBulk); with withBulk = false
// the same tree comes without its filler (used to report a small input when the failure does not need the filler).
func c04GenTree(c *Ctx, i int, withBulk bool) *c04Tree {
	r := c.Rng("trees", i)
	rb := c.Rng("trees-bulk", i)
	t := &c04Tree{faultPos: -1, faultIn: -1}

	// ---- the journal
	var j *Journal
	var jtags []string
	switch r.Intn(6) {
	case 0:
		j, jtags = c04ReopenJournal(r)
	case 1:
		j, jtags = c04TimelineJournal(r)
	default:
		j, jtags = GenJournal(r, JGenOpts{MaxAccounts: r.Range(2, 8), MaxDays: r.Range(2, 10), Mutate: r.Chance(2, 3), Unicode: true, Prices: r.Chance(1, 3), Valuation: "CHF",
			Accruals: r.Chance(1, 5), BaseDay: 737000 + r.Intn(2000), SpanDays: r.Range(1, 40)})
	}
	for _, tg := range jtags {
		if strings.HasPrefix(tg, "mutated:") {
			t.tags = append(t.tags, tg)
		}
	}
	t.tags = append(t.tags, c04Reshape(r, j)...)
	lo, hi := 737000, 737000
	for k, d := range j.Dirs {
		if k == 0 || d.Date < lo {
			lo = d.Date
		}
		if k == 0 || d.Date > hi {
			hi = d.Date
		}
	}
	taken := map[string]bool{}
	for _, a := range c04Accounts(j) {
		taken[a] = true
	}
	fresh := func(name string) string {
		for taken[name] {
			name += "z"
		}
		taken[name] = true
		return name
	}

	// ---- the shape of the tree
	wmax := c.N(40, 120)
	parent := []int{-1}
	add := func(p int) int { parent = append(parent, p); return len(parent) - 1 }
	t.shape = Pick(r, []string{"wide", "wide", "wide", "wide-nested", "wide-nested", "hub", "two-hubs", "chain", "random", "random", "small"})
	switch t.shape {
	case "wide": // one file that lists many
		for k := r.Range(8, wmax); k > 0; k-- {
			add(0)
		}
	case "wide-nested": // many included files that each include a few more
		w := r.Range(3, 14)
		for k := 0; k < w; k++ {
			add(0)
		}
		per := r.Range(1, 6)
		for k := 1; k <= w; k++ {
			for q := r.Range(0, per); q > 0; q-- {
				add(k)
			}
		}
	case "hub": // the fan is not at the root
		for k := r.Range(0, 3); k > 0; k-- {
			add(0)
		}
		h := add(r.Intn(len(parent)))
		for k := r.Range(8, wmax); k > 0; k-- {
			add(h)
		}
	case "two-hubs":
		nh := r.Range(2, 4)
		for k := 0; k < nh; k++ {
			add(0)
		}
		for k := 1; k <= nh; k++ {
			for q := r.Range(5, wmax/2); q > 0; q-- {
				add(k)
			}
		}
	case "chain":
		last := 0
		for k := r.Range(3, 12); k > 0; k-- {
			last = add(last)
		}
		for k := r.Range(0, 20); k > 0; k-- {
			add(r.Intn(last + 1))
		}
	case "random":
		for k := r.Range(1, wmax); k > 0; k-- {
			add(r.Intn(len(parent)))
		}
	default: // small: one to five files (one file = the shape of the other streams)
		for k := r.Range(0, 4); k > 0; k-- {
			add(r.Intn(len(parent)))
		}
	}
	n := len(parent)
	fdirs := []string{".", ".", "inc", "inc/deep", "other", "2020"}
	for k := 0; k < n; k++ {
		nd := &c04TNode{parent: parent[k], rel: "main.knut"}
		if k > 0 {
			nd.rel = path.Join(Pick(r, fdirs), fmt.Sprintf("f%02d.knut", k))
			if r.Chance(1, 40) {
				nd.rel = path.Join(Pick(r, []string{"sub dir", "日本", "-dash"}), fmt.Sprintf("f ü%02d.knut", k))
			}
		}
		t.nodes = append(t.nodes, nd)
	}
	relTo := func(from int, target string) string {
		rel, err := filepath.Rel(path.Dir(t.nodes[from].rel), target)
		if err != nil {
			return target
		}
		return rel
	}
	spell := func(from int, rel string) string {
		switch r.Intn(8) {
		case 0:
			return "./" + rel
		case 1:
			return strings.ReplaceAll(rel, "/", "//")
		case 2:
			if d := path.Dir(t.nodes[from].rel); d != "." {
				return strings.Repeat("../", strings.Count(d, "/")+1) + d + "/" + rel
			}
		}
		return rel
	}
	for k := 1; k < n; k++ {
		p := parent[k]
		t.nodes[p].incs = append(t.nodes[p].incs, c04TInc{node: k, target: spell(p, relTo(p, t.nodes[k].rel))})
	}
	isAncestor := func(a, k int) bool { // a is k or an ancestor of k
		for ; k >= 0; k = parent[k] {
			if k == a {
				return true
			}
		}
		return false
	}
	var includers []int
	widest := 0
	for k, nd := range t.nodes {
		if len(nd.incs) > 0 {
			includers = append(includers, k)
		}
		if len(nd.incs) > len(t.nodes[widest].incs) {
			widest = k
		}
	}

	// ---- the directives over the members
	t.dist = Pick(r, []string{"uniform", "uniform", "chunks", "by-kind", "leaves-only", "root-heavy"})
	if n == 1 {
		t.dist = "uniform"
	}
	var leaves []int
	for k, nd := range t.nodes {
		if len(nd.incs) == 0 {
			leaves = append(leaves, k)
		}
	}
	switch t.dist {
	case "chunks": // consecutive parts of the file, one after the other (a file per year)
		perm := make([]int, n)
		for k := range perm {
			perm[k] = k
		}
		for k := n - 1; k > 0; k-- {
			q := r.Intn(k + 1)
			perm[k], perm[q] = perm[q], perm[k]
		}
		parts := r.Range(1, n)
		for k, d := range j.Dirs {
			nd := t.nodes[perm[k*parts/max(1, len(j.Dirs))]]
			nd.dirs = append(nd.dirs, d)
		}
	case "by-kind": // an accounts file, a prices file, ...
		home := map[byte]int{}
		for _, kd := range []byte{'o', 'c', 'p', 'a', 't'} {
			home[kd] = r.Intn(n)
		}
		if r.Bool() {
			home['c'] = home['o']
		}
		for _, d := range j.Dirs {
			k := home[d.Kind]
			if d.Kind == 't' && r.Chance(2, 3) {
				k = r.Intn(n)
			}
			t.nodes[k].dirs = append(t.nodes[k].dirs, d)
		}
	case "leaves-only": // files that include hold nothing else
		for _, d := range j.Dirs {
			k := Pick(r, leaves)
			t.nodes[k].dirs = append(t.nodes[k].dirs, d)
		}
	case "root-heavy":
		for _, d := range j.Dirs {
			k := 0
			if r.Chance(1, 3) {
				k = r.Intn(n)
			}
			t.nodes[k].dirs = append(t.nodes[k].dirs, d)
		}
	default:
		for _, d := range j.Dirs {
			k := r.Intn(n)
			t.nodes[k].dirs = append(t.nodes[k].dirs, d)
		}
	}

	// ---- a file included twice (its directives, and those of the files it includes, count twice)
	mult := make([]int, n) // how often the loader reads member k
	for k := range mult {
		mult[k] = 1
	}
	if n > 2 && r.Chance(1, 8) {
		y := 1 + r.Intn(n-1)
		x := r.Intn(n)
		if !isAncestor(y, x) {
			t.nodes[x].incs = append(t.nodes[x].incs, c04TInc{node: y, target: spell(x, relTo(x, t.nodes[y].rel))})
			t.tags = append(t.tags, "included-twice")
			keepAll := r.Chance(1, 3)
			for k := 1; k < n; k++ {
				if !isAncestor(y, k) {
					continue
				}
				mult[k] = 2
				if keepAll {
					continue
				}
				// opens and closes cannot be repeated: they move to the root, bookings and prices stay (the specification decides anyway)
				var keep []JDir
				for _, d := range t.nodes[k].dirs {
					if d.Kind == 't' || d.Kind == 'p' {
						keep = append(keep, d)
					} else {
						t.nodes[0].dirs = append(t.nodes[0].dirs, d)
					}
				}
				t.nodes[k].dirs = keep
			}
		}
	}

	// ---- presence tie: every member books on one asset account, the total is asserted after everything else
	day0 := lo - 30 - r.Intn(300)
	if r.Chance(3, 4) {
		tieA, tieE, com := fresh("Assets:Ztie"), fresh("Equity:Ztie"), "TIE"
		k1, k2 := r.Intn(n), r.Intn(n)
		if mult[k1] > 1 || mult[k2] > 1 {
			k1, k2 = 0, 0
		}
		t.nodes[k1].dirs = append(t.nodes[k1].dirs, JDir{Kind: 'o', Date: day0, Account: tieA})
		t.nodes[k2].dirs = append(t.nodes[k2].dirs, JDir{Kind: 'o', Date: day0, Account: tieE})
		cents := 0
		for k := 0; k < n; k++ {
			for q := r.Range(1, 2); q > 0; q-- {
				x := r.Range(1, 99999)
				cents += x * mult[k]
				t.nodes[k].dirs = append(t.nodes[k].dirs, JDir{Kind: 't', Date: day0 + r.Intn(hi-day0+1), Desc: fmt.Sprintf("member %d", k),
					Bookings: []JBook{{Credit: tieE, Debit: tieA, Qty: fmt.Sprintf("%d.%02d", x/100, x%100), Com: com}}})
			}
		}
		ka := r.Intn(n)
		if mult[ka] > 1 {
			ka = 0
		}
		t.nodes[ka].dirs = append(t.nodes[ka].dirs, JDir{Kind: 'a', Date: hi + r.Range(0, 3), Balances: []JBal{{Account: tieA, Qty: fmt.Sprintf("%d.%02d", cents/100, cents%100), Com: com}}})
		t.tags = append(t.tags, "presence-tie")
	}

	// ---- the fault
	incPos := func(k int) int { // where in the list of includes of member k
		m := len(t.nodes[k].incs)
		if r.Chance(2, 5) {
			var cand []int
			for _, b := range c04TreeBoundary {
				if b <= m {
					cand = append(cand, b)
				}
			}
			if len(cand) > 0 {
				return Pick(r, cand)
			}
		}
		return r.Intn(m + 1)
	}
	extraInclude := func(k int, target string) {
		pos := incPos(k)
		nd := t.nodes[k]
		nd.incs = append(nd.incs[:pos:pos], append([]c04TInc{{node: -1, target: target}}, nd.incs[pos:]...)...)
		t.faultPos, t.faultIn = pos, k
	}
	someIncluder := func() int {
		if len(includers) == 0 || r.Chance(1, 8) {
			return r.Intn(n)
		}
		if r.Chance(2, 3) {
			return widest
		}
		return Pick(r, includers)
	}
	memberAt := func() int { // a member that is included from somewhere, chosen by its place in the list of its includer
		if n == 1 {
			return 0
		}
		p := someIncluder()
		if len(t.nodes[p].incs) == 0 {
			return 1 + r.Intn(n-1)
		}
		pos := incPos(p)
		if pos >= len(t.nodes[p].incs) {
			pos = len(t.nodes[p].incs) - 1
		}
		if k := t.nodes[p].incs[pos].node; k > 0 {
			t.faultPos, t.faultIn = pos, p
			return k
		}
		return 1 + r.Intn(n-1)
	}
	t.fault = "none"
	if r.Chance(1, 2) {
		t.fault = Pick(r, []string{"missing", "missing", "missing", "dir-as-file", "unreadable", "unreadable", "cycle", "self-include", "empty-include",
			"rejected-last", "rejected-last", "rejected-last", "rejected-first", "rejected-mid", "bad-date", "bad-account-type", "lifecycle-last", "lifecycle-last"})
	}
	garbage := []string{"2020-01-01 open\n", "2020-01-01 opne Assets:A\n", "include\n", "2020-01-01 balance Assets:A CHF\n", "2020-01-01 price CHF\n", "@accrue\n", "20200101 open Assets:A\n", "\xff\xfe\x00"}
	switch t.fault {
	case "missing":
		extraInclude(someIncluder(), Pick(r, []string{"nothere.knut", "inc/nothere.knut", "nodir/nothere.knut", "main.knut/x.knut", strings.Repeat("n", 300) + ".knut", "f01.knut.bak"}))
		t.mustReject = true
	case "dir-as-file":
		t.mkdirs = append(t.mkdirs, "adir")
		k := someIncluder()
		extraInclude(k, Pick(r, []string{relTo(k, "adir"), relTo(k, "adir") + "/", ".", "./"}))
		t.mustReject = true
	case "empty-include":
		extraInclude(someIncluder(), "")
		t.mustReject = true
	case "cycle":
		k := someIncluder()
		a := k
		for q := r.Intn(4); q > 0 && parent[a] >= 0; q-- {
			a = parent[a]
		}
		extraInclude(k, spell(k, relTo(k, t.nodes[a].rel)))
		t.mustReject = true
	case "self-include":
		k := r.Intn(n)
		extraInclude(k, spell(k, path.Base(t.nodes[k].rel)))
		t.mustReject = true
	case "unreadable":
		if n == 1 {
			extraInclude(0, "gone.knut")
		} else {
			k := memberAt()
			nd := t.nodes[k]
			if os.Geteuid() == 0 {
				// chmod 000 does not stop root: a dangling symbolic link or a symbolic link to itself instead
				nd.special, nd.link = "symlink", Pick(r, []string{"gone.knut", path.Base(nd.rel)})
			} else {
				nd.special = "mode000"
			}
		}
		t.mustReject = true
	case "rejected-last", "rejected-first", "rejected-mid":
		nd := t.nodes[memberAt()]
		txt := Pick(r, garbage)
		switch t.fault {
		case "rejected-first":
			nd.rawFirst = txt
		case "rejected-mid":
			nd.rawMid = txt
		default:
			if r.Chance(1, 4) {
				txt = "2020-01-01 \"unterminated\nAssets:A Expenses:B 1 CHF\n"
			}
			if r.Chance(1, 3) {
				txt = strings.TrimSuffix(txt, "\n")
			}
			nd.rawLast = txt
		}
		t.mustReject = true
	case "bad-date":
		nd := t.nodes[memberAt()]
		nd.rawLast = Pick(r, []string{"2020-13-45 open Assets:Q\n", "2021-02-30 price AAA 1 CHF\n", "2020-00-10 close Assets:Q\n"})
		t.mustReject = true
	case "bad-account-type":
		nd := t.nodes[memberAt()]
		nd.rawLast = Pick(r, []string{"2020-01-01 open Foo:Bar\n", "2020-01-01 open assets:Bar\n", "2020-01-05 \"x\"\nAsset:A Expense:B 1 CHF\n"})
		t.mustReject = true
	case "lifecycle-last":
		// the last directive of a member breaks the lifecycle (the specification decides; it is part of the union)
		nd := t.nodes[memberAt()]
		never := fresh("Assets:Znever")
		other := never
		if accs := c04Accounts(j); len(accs) > 0 {
			other = Pick(r, accs)
		}
		var d JDir
		switch r.Intn(4) {
		case 0:
			d = JDir{Kind: 't', Date: hi + r.Intn(3), Desc: "late", Bookings: []JBook{{Credit: other, Debit: never, Qty: Pick(r, []string{"1", "0", "-2.5"}), Com: "CHF"}}}
		case 1:
			d = JDir{Kind: 'a', Date: lo + r.Intn(hi-lo+1), Balances: []JBal{{Account: never, Qty: "0", Com: "CHF"}}}
		case 2:
			d = JDir{Kind: 'c', Date: hi + r.Intn(3), Account: Pick(r, []string{never, other})}
		default:
			d = JDir{Kind: 'o', Date: hi + r.Intn(3), Account: other}
		}
		nd.dirs = append(nd.dirs, d)
	}

	// ---- the filler
	t.layout, t.style = "none", "none"
	bulkLo, bulkHi := day0, hi+30
	if withBulk {
		t.layout = Pick(rb, []string{"big-first", "big-first", "big-first", "big-last", "big-random", "big-random", "all-medium", "one-huge", "before-fault", "before-fault", "after-fault"})
		if !rb.Chance(1, 8) {
			t.layout = "none" // seven trees in eight are light (they cost a few milliseconds, so there are many of them)
		}
		if t.faultPos < 0 && (t.layout == "before-fault" || t.layout == "after-fault") {
			t.layout = "big-first"
		}
		if n == 1 && t.layout != "none" {
			t.layout = "one-huge"
		}
	}
	if t.layout != "none" {
		type span struct{ lo, hi int }
		sz := Pick(rb, []span{{100 << 10, 400 << 10}, {100 << 10, 400 << 10}, {400 << 10, 1200 << 10}, {1200 << 10, 3 << 20}})
		big := func(k int) { t.nodes[k].bulkBytes = rb.Range(sz.lo, sz.hi) }
		// "first", "last", "before", "after" are places in the list of includes that holds the offending one (else: the longest list)
		ref := widest
		if t.faultIn >= 0 {
			ref = t.faultIn
		}
		var kids []int
		for _, inc := range t.nodes[ref].incs {
			kids = append(kids, inc.node)
		}
		switch t.layout {
		case "big-first":
			b := rb.Range(1, 14)
			for q, k := range kids {
				if q < b && k > 0 {
					big(k)
				}
			}
		case "big-last":
			b := rb.Range(1, 14)
			for q, k := range kids {
				if q >= len(kids)-b && k > 0 {
					big(k)
				}
			}
		case "big-random":
			den := rb.Range(2, 5)
			for k := 0; k < n; k++ {
				if rb.Chance(1, den) {
					big(k)
				}
			}
		case "all-medium":
			sz = span{60 << 10, 300 << 10}
			for k := 0; k < n; k++ {
				big(k)
			}
		case "one-huge":
			sz = span{2 << 20, 6 << 20}
			big(rb.Intn(n))
		case "before-fault":
			for q, k := range kids {
				if q < t.faultPos && k > 0 {
					big(k)
				}
			}
		case "after-fault":
			for q, k := range kids {
				if q > t.faultPos && k > 0 {
					big(k)
				}
			}
		}
		if rb.Chance(1, 6) {
			big(0) // the root itself is long: its later includes are reached late
		}
		total := 0
		for _, nd := range t.nodes {
			total += nd.bulkBytes
		}
		if limit := c.N(16<<20, 32<<20); total > limit {
			for _, nd := range t.nodes {
				nd.bulkBytes = int(int64(nd.bulkBytes) * int64(limit) / int64(total))
			}
			total = limit
		}
		if total == 0 {
			t.layout = "none"
		} else {
			// so many of the filler lines are directives (part of the union the specification reads), the rest are comments
			t.style = Pick(rb, []string{"comments", "prices", "prices", "bookings", "mixed", "mixed"})
			budget := Pick(rb, []int{200, 1000, 1000, 4000, 4000, 12000}) * c.N(1, 3)
			if t.style == "comments" {
				budget = 0
			}
			for _, nd := range t.nodes {
				nd.bulkDirs = int(int64(budget) * int64(nd.bulkBytes) / int64(total))
				if most := nd.bulkBytes / 40; nd.bulkDirs > most {
					nd.bulkDirs = most
				}
			}
		}
	}
	bulkI, bulkE := "", ""
	if t.style == "bookings" || t.style == "mixed" {
		bulkI, bulkE = fresh("Income:Zbulk"), fresh("Expenses:Zbulk")
		k := rb.Intn(n)
		if mult[k] > 1 {
			k = 0
		}
		t.nodes[k].dirs = append(t.nodes[k].dirs, JDir{Kind: 'o', Date: bulkLo, Account: bulkI})
		if k = rb.Intn(n); mult[k] > 1 {
			k = 0
		}
		t.nodes[k].dirs = append(t.nodes[k].dirs, JDir{Kind: 'o', Date: bulkLo, Account: bulkE})
	}

	// ---- the text of the members
	t.incMode = Pick(r, []string{"top", "top", "scattered", "scattered", "bottom"})
	for k, nd := range t.nodes {
		var body []string
		for _, d := range nd.dirs {
			body = append(body, d.Text()+"\n")
			nd.wire = append(nd.wire, d.Wire())
		}
		if nd.bulkBytes > 0 {
			blocks := rb.Range(1, 3)
			for q := 0; q < blocks; q++ {
				nb, ndr := nd.bulkBytes/blocks, nd.bulkDirs/blocks
				txt := c04BulkBlock(rb, k, nb, ndr, t.style, bulkLo, bulkHi, bulkI, bulkE, &nd.wire)
				pos := rb.Intn(len(body) + 1)
				body = append(body[:pos:pos], append([]string{txt}, body[pos:]...)...)
			}
		}
		if nd.rawMid != "" {
			pos := r.Intn(len(body) + 1)
			body = append(body[:pos:pos], append([]string{nd.rawMid + "\n"}, body[pos:]...)...)
		}
		incLine := func(inc c04TInc) string { return "include \"" + inc.target + "\"\n\n" }
		var items []string
		switch t.incMode {
		case "top":
			for _, inc := range nd.incs {
				items = append(items, incLine(inc))
			}
			items = append(items, body...)
		case "bottom":
			items = append(items, body...)
			for _, inc := range nd.incs {
				items = append(items, incLine(inc))
			}
		default:
			pos := make([]int, len(nd.incs))
			for q := range pos {
				pos[q] = r.Intn(len(body) + 1)
			}
			sort.Ints(pos)
			q := 0
			for b := 0; b <= len(body); b++ {
				for q < len(pos) && pos[q] == b {
					items = append(items, incLine(nd.incs[q]))
					q++
				}
				if b < len(body) {
					items = append(items, body[b])
				}
			}
		}
		var sb strings.Builder
		sb.WriteString(nd.rawFirst)
		if nd.rawFirst != "" {
			sb.WriteString("\n")
		}
		for _, it := range items {
			sb.WriteString(it)
		}
		sb.WriteString(nd.rawLast)
		nd.data = sb.String()
		t.bytes += len(nd.data)
	}
	return t
}

// c04BulkBlock writes about nbytes of filler for member k, ndirs lines of which are directives (price declarations of
// commodities of their own, bookings between two income/expense accounts of their own; their wire tokens are appended to
// wire), the others comments.
func c04BulkBlock(rb *RNG, k, nbytes, ndirs int, style string, lo, hi int, accI, accE string, wire *[]string) string {
	var sb strings.Builder
	sb.Grow(nbytes + 256)
	marks := []string{"// ", "# ", "* "}
	mark := Pick(rb, marks)
	line := 0
	comment := func() {
		line++
		fmt.Fprintf(&sb, "%smember %d note %d: nothing was bought, nothing was sold, the cat slept all day\n", mark, k, line)
	}
	for q := 0; q < ndirs; q++ {
		var d JDir
		day := lo + (q*7+k)%(hi-lo+1)
		if style == "prices" || (style == "mixed" && q%2 == 0) {
			d = JDir{Kind: 'p', Date: day, Com: fmt.Sprintf("BLK%d", (q+k)%8), Price: fmt.Sprintf("%d.%02d", 100+(q*k)%50, (q*7)%100), Target: "CHF"}
			sb.WriteString(d.Text())
		} else {
			d = JDir{Kind: 't', Date: day, Desc: fmt.Sprintf("bulk %d/%d", k, q), Bookings: []JBook{{Credit: accI, Debit: accE, Qty: fmt.Sprintf("%d.%02d", 1+q%900, (q*3)%100), Com: "CHF"}}}
			sb.WriteString(d.Text())
			sb.WriteString("\n")
		}
		*wire = append(*wire, d.Wire())
		for sb.Len() < int(int64(nbytes)*int64(q+1)/int64(ndirs)) {
			comment()
		}
	}
	for sb.Len() < nbytes {
		comment()
	}
	sb.WriteString("\n")
	return sb.String()
}

// unionWire: the directives of all members as the loader collects them - every include followed, a file included twice
// counted twice (includes that name no member are faults and contribute nothing).
func (t *c04Tree) unionWire() string {
	var toks []string
	var walk func(k, depth int)
	walk = func(k, depth int) {
		if depth > len(t.nodes) {
			return
		}
		toks = append(toks, t.nodes[k].wire...)
		for _, inc := range t.nodes[k].incs {
			if inc.node >= 0 {
				walk(inc.node, depth+1)
			}
		}
	}
	walk(0, 0)
	if len(toks) == 0 {
		return "-"
	}
	return strings.Join(toks, "|")
}

// materialize writes the tree into the (emptied) directory and returns the path of the root file.
func (t *c04Tree) materialize(dir string) string {
	filepath.Walk(dir, func(p string, info os.FileInfo, err error) error {
		if err == nil && info.Mode()&os.ModeSymlink == 0 {
			os.Chmod(p, 0o755)
		}
		return nil
	})
	os.RemoveAll(dir)
	os.MkdirAll(dir, 0o755)
	for _, d := range t.mkdirs {
		os.MkdirAll(filepath.Join(dir, d), 0o755)
	}
	for _, nd := range t.nodes {
		full := filepath.Join(dir, nd.rel)
		os.MkdirAll(filepath.Dir(full), 0o755)
		switch nd.special {
		case "symlink":
			if err := os.Symlink(nd.link, full); err != nil {
				fatalf("%v", err)
			}
		case "mode000":
			os.WriteFile(full, []byte(nd.data), 0o644)
			os.Chmod(full, 0)
		default:
			if err := os.WriteFile(full, []byte(nd.data), 0o644); err != nil {
				fatalf("%v", err)
			}
		}
	}
	return filepath.Join(dir, "main.knut")
}

// input is the concrete input of a finding: the files (long ones by head, tail and checksum; the whole tree is a
// function of seed, stream, index and tier and is rebuilt by the replay), the command, the schedule.
func (t *c04Tree) input(ru *c04TRun, wire string, shrunk bool) map[string]any {
	var files []map[string]any
	for _, nd := range t.nodes {
		f := map[string]any{"rel": nd.rel, "bytes": len(nd.data)}
		switch {
		case nd.special == "symlink":
			f["symlink_to"] = nd.link
		case nd.special == "mode000":
			f["mode"] = "000"
		case len(nd.data) <= 24<<10:
			f["data"] = nd.data
		default:
			f["head"], f["tail"] = nd.data[:4<<10], nd.data[len(nd.data)-(4<<10):]
			f["sha256"] = fmt.Sprintf("%x", sha256.Sum256([]byte(nd.data)))
			f["filler"] = fmt.Sprintf("%d bytes of filler (%s), %d of its lines are directives", nd.bulkBytes, t.style, nd.bulkDirs)
		}
		files = append(files, f)
	}
	in := map[string]any{"shape": t.shape, "fault": t.fault, "layout": t.layout, "files": files, "directories": t.mkdirs, "must_reject": t.mustReject,
		"how":            "write the files into an empty directory and run the command on main.knut; the tree is rebuilt from (seed, stream, index, tier) by bin/check --replay",
		"filler_removed": shrunk}
	if ru != nil {
		in["command"], in["sched_seed"], in["gomaxprocs"] = "knut "+ru.cmd+" main.knut", ru.sched, ru.procs
	}
	if len(wire) <= 200<<10 {
		in["wire"] = wire
	} else {
		in["wire"] = fmt.Sprintf("(%d bytes, rebuilt by the replay)", len(wire))
	}
	return in
}

// c04TreeExec runs the commands (concurrently: they are separate processes) and fills in the observations.  A run
// that does not end within the watchdog time is repeated once, alone, with three times the time.
func c04TreeExec(bin, root string, runs []*c04TRun) {
	var wg sync.WaitGroup
	for _, ru := range runs {
		wg.Add(1)
		go func(ru *c04TRun) {
			defer wg.Done()
			ru.code, ru.stdout, ru.stderr = runKnut(bin, 60*time.Second, ru.env(), ru.cmd, root)
		}(ru)
	}
	wg.Wait()
	for _, ru := range runs {
		if ru.code == -2 {
			ru.code, ru.stdout, ru.stderr = runKnut(bin, 180*time.Second, ru.env(), ru.cmd, root)
		}
	}
}

// c04TreeJudge evaluates the statement on one observation: an unloadable tree is rejected; otherwise the verdict is the
// specification's verdict on the union of the directives.  spec(verdict) asks the Lean monitor.
func c04TreeJudge(t *c04Tree, cmd string, code int, stdout, stderr string, inproc string, spec func(string) string) (bool, string) {
	obs := fmt.Sprintf("exit %d, stdout %d bytes, stderr %q", code, len(stdout), clip2(stderr, 600))
	if code != 0 && code != 1 {
		return false, obs + ": neither accepted nor rejected"
	}
	if code == 1 && (strings.TrimSpace(stderr) == "" || stdout != "") {
		return false, obs + ": rejected without a diagnostic, or with output"
	}
	if t.mustReject {
		if code == 0 {
			return false, obs + ": accepted although a member of the include tree cannot be loaded (" + t.fault + ")"
		}
		return true, obs
	}
	cv := "ok"
	if code == 1 {
		cv = "error"
		if inproc == "load-error" {
			cv = "load-error"
		}
	}
	if m := spec(cv); m != "ok" && !strings.HasPrefix(m, "known ") {
		return false, obs + " => " + m
	}
	return true, obs
}

func clip2(s string, n int) string {
	if len(s) > n {
		return s[:n] + "…"
	}
	return s
}

func runC04Trees(c *Ctx) {
	if c.KnutBin == "" {
		return
	}
	n := c.N(300, 1600)
	base := filepath.Join(c.WorkDir, "c04", "trees")
	t0 := time.Now()
	defer func() { c.Extra["trees_wall_s"] = fmt.Sprintf("%.1f", time.Since(t0).Seconds()) }()
	for i := 0; i < n; i++ {
		if !c.Want("trees", i) {
			continue
		}
		c.Evals++
		t := c04GenTree(c, i, true)
		rr := c.Rng("trees-run", i)
		for _, tg := range t.tags {
			c.Tag(tg)
		}
		c.Tag("tree:" + t.shape)
		c.Tag("tree-fault:" + t.fault)
		c.Tag("tree-layout:" + t.layout)
		c.Tag("tree-filler:" + t.style)
		if t.faultPos >= 0 {
			c.Tag("tree-fault-after-includes:" + bucket(t.faultPos))
		}
		// the runs: check twice or three times under different schedules, print and balance on a third of the cases
		sched := func() int { return Pick(rr, []int{0, 1 + rr.Intn(1000), 1 + rr.Intn(1000)}) }
		procs := func() int { return Pick(rr, []int{0, 1, 2, 16}) }
		runs := []*c04TRun{{cmd: "check", sched: sched(), procs: procs()}, {cmd: "check", sched: sched(), procs: procs()}}
		if rr.Chance(1, 3) {
			runs = append(runs, &c04TRun{cmd: "print", sched: sched(), procs: procs()}, &c04TRun{cmd: "balance", sched: sched(), procs: procs()})
		} else if rr.Chance(1, 2) {
			runs = append(runs, &c04TRun{cmd: "check", sched: 1 + rr.Intn(1000), procs: procs()})
		}
		if c.Replay {
			// the schedule is not a function of the input: every run five times
			var more []*c04TRun
			for q := 0; q < 5; q++ {
				for _, ru := range runs {
					cp := *ru
					more = append(more, &cp)
				}
			}
			runs = more
		}
		failed := c04TreeCase(c, i, t, filepath.Join(base, fmt.Sprintf("t%d", i%4)), runs, false)
		verdictClass := "accepted-or-rejected-by-spec"
		if t.mustReject {
			verdictClass = "unloadable"
		}
		c.Class(fmt.Sprintf("c04/trees/%s/%s/%s/%s/files%s/bytes%s", t.shape, verdictClass, t.fault, t.layout, bucket(len(t.nodes)), bucket(t.bytes>>18)))
		if i < 2 {
			c.Sample(map[string]any{"stream": "trees", "shape": t.shape, "fault": t.fault, "layout": t.layout, "filler": t.style, "files": len(t.nodes), "bytes": t.bytes, "must_reject": t.mustReject, "failed": failed})
		}
	}
	os.RemoveAll(base)
}

// c04TreeCase writes the tree, runs the loader in-process and the commands, and evaluates the statement on every
// observation.  When an observation fails on a tree with filler, the same tree without filler is tried first: if it fails
// too the small tree is the reported input.  Returns whether anything failed.
func c04TreeCase(c *Ctx, i int, t *c04Tree, dir string, runs []*c04TRun, shrunk bool) bool {
	root := t.materialize(dir)
	wire := ""
	answers := map[string]string{}
	spec := func(verdict string) string {
		if a, ok := answers[verdict]; ok {
			return a
		}
		if wire == "" {
			wire = t.unionWire()
		}
		a := c.Drv.Ask("c04mon", wire, verdict, "-")
		answers[verdict] = a
		return a
	}
	inproc, _, msg := implCheck(root, nil)
	if !shrunk {
		c.Tag("tree-inprocess-verdict:" + inproc)
	}
	c04TreeExec(c.KnutBin, root, runs)
	type failure struct {
		pred, detail string
		run          *c04TRun
	}
	var fails []failure
	// in-process: journal.FromPath + check.Check
	{
		ok, detail := true, "in-process verdict "+inproc+" "+clip2(msg, 300)
		switch {
		case inproc == "panic":
			ok = false
		case t.mustReject:
			ok = inproc != "ok"
			if !ok {
				detail += ": accepted although a member of the include tree cannot be loaded (" + t.fault + ")"
			}
		default:
			if m := spec(inproc); m != "ok" && !strings.HasPrefix(m, "known ") {
				ok, detail = false, detail+" => "+m
			}
		}
		if !ok {
			fails = append(fails, failure{"tree_inprocess_accept_iff_wellformed", detail, nil})
		}
	}
	for _, ru := range runs {
		ok, detail := c04TreeJudge(t, ru.cmd, ru.code, ru.stdout, ru.stderr, inproc, spec)
		if !ok {
			pred := "tree_accept_iff_wellformed_" + ru.cmd
			if t.mustReject {
				pred = "tree_unloadable_rejected_" + ru.cmd
			}
			fails = append(fails, failure{pred, ru.String() + ": " + detail, ru})
		}
	}
	if len(fails) == 0 {
		c.Monitored += 1 + len(runs)
		return false
	}
	if !shrunk && t.layout != "none" {
		// does the failure need the filler?  the same tree without it, the failing commands four times each
		small := c04GenTree(c, i, false)
		var again []*c04TRun
		for _, f := range fails {
			if f.run != nil {
				for q := 0; q < 4; q++ {
					again = append(again, &c04TRun{cmd: f.run.cmd, sched: f.run.sched, procs: f.run.procs})
				}
			}
		}
		if len(again) == 0 {
			again = append(again, &c04TRun{cmd: "check"})
		}
		if c04TreeCase(c, i, small, dir+"-small", again, true) {
			os.RemoveAll(dir + "-small")
			return true
		}
		os.RemoveAll(dir + "-small")
	}
	if wire == "" && !t.mustReject {
		wire = t.unionWire()
	}
	c.Monitored += 1 + len(runs) - len(fails)
	seen := map[string]bool{}
	for _, f := range fails {
		if seen[f.pred] {
			c.Monitored++
			continue
		}
		seen[f.pred] = true
		c.Monitor("trees", i, f.pred, t.input(f.run, wire, shrunk), false, f.detail)
	}
	return true
}
