import Knut.GoSem.Syntax
import Knut.Model.Infer
/-!
# Meaning of the Go primitives that the translation of `lib/syntax/bayes` adds to the syntax layer (`harness/trans_syntax_bayes.go`)

* `map[K]V` is an association list `AMap K V` (`Basic/AMap.lean`), exactly as in the first translator: lookups read the first entry of a
  key (a missing entry reads as the zero value), `m[k] = v` replaces the entry in place or appends one.  A nil map reads as the empty
  map; that a store into a nil map panics is **not** modelled (the maps of a `bayes.Model` are made by `NewModel`).
* `for k := range m`: Go fixes no iteration order.  The translated function takes the order as a parameter `order : List K` and walks
  `rangeKeys order m`; the agreement theorems hold for every order that lists each key of the map once.
* `float64` is **uninterpreted**: a type parameter `F` with the operations the translated code uses, passed as a record `F64 F`.
  Nothing about floating point arithmetic is assumed; the agreement theorems hold for every such record.
* `strings.Fields`, `strings.ToLower` on byte strings are the definitions of `Model/Infer.lean` (`fields`: `FieldsFunc(unicode.IsSpace)`
  over the decoding steps; `toLower`: `strings.Map(unicode.ToLower)`, an invalid byte becomes U+FFFD).  They are compared with the Go
  functions on all code points and on random byte strings by the streams `unicode` and `tokens` of C15.
* `compare.Ordered` on strings (`cmp.Compare`) is `GoSem.cmpOrdered` on `List UInt8`, whose `<` is the lexicographic order of the
  bytes — Go's string order (stream `gosembayes` of C11; `FactsAgree/TransBayes.lean`: `cmpOrdered_bytes` ties it to the model's `bytesLt`).
-/
namespace Knut.GoSem.Syn

/-- the operations on `float64` that the translated code uses, uninterpreted -/
structure F64 (F : Type) where
  /-- `math.Inf(-1)` -/
  negInf : F
  /-- `math.Inf(1)` -/
  posInf : F
  /-- `float64(n)` -/
  ofInt : Int → F
  /-- a constant, as the fraction `num/den` of its exact value (`1.0` is `lit 1 1`) -/
  lit : Int → Int → F
  /-- `x + y` -/
  add : F → F → F
  /-- `x / y` -/
  div : F → F → F
  /-- `math.Log(x)` -/
  log : F → F
  /-- `x > y` -/
  gt : F → F → Bool

/-- the keys a `for k := range m` visits when Go happens to walk the map in the order `order`: the keys of the order that have an
entry (for an order that lists every key of `m` once: `order` itself) -/
def rangeKeys {κ ν : Type} [DecidableEq κ] (order : List κ) (m : AMap κ ν) : List κ :=
  order.filter fun k => (AMap.find? m k).isSome

namespace Strings
/-- `strings.Fields` -/
def Fields (s : GoString) : List GoString := Knut.Infer.fields s
/-- `strings.ToLower` -/
def ToLower (s : GoString) : GoString := Knut.Infer.toLower s
end Strings

end Knut.GoSem.Syn
