package main

import (
	"fmt"
	"sort"
	"strings"
	"sync"

	"github.com/sboehler/knut/lib/common/date"
)

// ---------------------------------------------------------------- flags of `knut balance`

type MapRuleF struct {
	Level, Suffix int
	Regex         string // "" = no regex (matches everything)
}

type BalFlags struct {
	Val       string
	From, To  int // 0 = absent
	Last      int
	Interval  int // index into intervals (0 = once / no flag)
	Diff      bool
	NoClose   bool
	SortAlpha bool
	Show      []string
	Map       []MapRuleF
	Remap     []string
	Acc       []string
	Com       []string
	CSV       bool
	Thousands bool
	Digits    int
}

var intervalFlag = []string{"", "--days", "--weeks", "--months", "--quarters", "--years"}

func (f BalFlags) Args() []string {
	a := []string{"--color=false"}
	if f.Val != "" {
		a = append(a, "-v", f.Val)
	}
	if f.From != 0 {
		a = append(a, "--from", fmtDate(f.From))
	}
	if f.To != 0 {
		a = append(a, "--to", fmtDate(f.To))
	}
	if f.Last != 0 {
		a = append(a, "--last", itoa(f.Last))
	}
	if f.Interval > 0 {
		a = append(a, intervalFlag[f.Interval])
	}
	if f.Diff {
		a = append(a, "--diff")
	}
	if f.NoClose {
		a = append(a, "--close=false")
	}
	if f.SortAlpha {
		a = append(a, "-a")
	}
	for _, s := range f.Show {
		a = append(a, "-s", s)
	}
	for _, m := range f.Map {
		v := fmt.Sprintf("%d", m.Level)
		if m.Suffix != 0 {
			v = fmt.Sprintf("%d:%d", m.Level, m.Suffix)
		}
		if m.Regex != "" {
			v += "," + m.Regex
		}
		a = append(a, "-m", v)
	}
	for _, s := range f.Remap {
		a = append(a, "--remap", s)
	}
	for _, s := range f.Acc {
		a = append(a, "--account", s)
	}
	for _, s := range f.Com {
		a = append(a, "--commodity", s)
	}
	if f.CSV {
		a = append(a, "--csv")
	}
	if f.Thousands {
		a = append(a, "-k")
	}
	if f.Digits != 0 {
		a = append(a, "--digits", itoa(f.Digits))
	}
	return a
}

func hexList(xs []string) string {
	parts := make([]string, len(xs))
	for i, x := range xs {
		parts[i] = Hex(x)
	}
	return strings.Join(parts, ",")
}

func b2s(b bool) string {
	if b {
		return "1"
	}
	return "0"
}

// Wire is the flag vector in the driver's form; `today` replaces an absent --to.
func (f BalFlags) Wire(today int) string {
	var kv []string
	if f.Val != "" {
		kv = append(kv, "val="+f.Val)
	}
	if f.From != 0 {
		kv = append(kv, "from="+itoa(f.From))
	}
	to := f.To
	if to == 0 {
		to = today
	}
	kv = append(kv, "to="+itoa(to), "last="+itoa(f.Last), "iv="+itoa(f.Interval), "diff="+b2s(f.Diff), "close="+b2s(!f.NoClose),
		"sort="+b2s(f.SortAlpha), "csv="+b2s(f.CSV), "k="+b2s(f.Thousands), "digits="+itoa(f.Digits))
	if len(f.Show) > 0 {
		kv = append(kv, "show="+hexList(f.Show))
	}
	if len(f.Remap) > 0 {
		kv = append(kv, "remap="+hexList(f.Remap))
	}
	if len(f.Acc) > 0 {
		kv = append(kv, "acc="+hexList(f.Acc))
	}
	if len(f.Com) > 0 {
		kv = append(kv, "com="+hexList(f.Com))
	}
	if len(f.Map) > 0 {
		parts := make([]string, len(f.Map))
		for i, m := range f.Map {
			p := "*"
			if m.Regex != "" {
				p = Hex(m.Regex)
			}
			parts[i] = fmt.Sprintf("%d:%d:%s", m.Level, m.Suffix, p)
		}
		kv = append(kv, "map="+strings.Join(parts, ","))
	}
	return strings.Join(kv, ";")
}

func today() int { return dayNum(date.Today()) }

// journalNames collects account names, segments and commodities for pattern generation.
func journalNames(j *Journal) (accounts, coms []string) {
	as, cs := map[string]bool{}, map[string]bool{}
	for _, d := range j.Dirs {
		if d.Account != "" {
			as[d.Account] = true
		}
		for _, b := range d.Bookings {
			as[b.Credit], as[b.Debit], cs[b.Com] = true, true, true
		}
		if d.Com != "" {
			cs[d.Com], cs[d.Target] = true, true
		}
	}
	for a := range as {
		accounts = append(accounts, a)
	}
	for c := range cs {
		coms = append(coms, c)
	}
	sort.Strings(accounts)
	sort.Strings(coms)
	return
}

// genPattern makes a regex out of the simple family the model implements.
func genPattern(r *RNG, names []string) string {
	if len(names) == 0 {
		return "X"
	}
	one := func() string {
		n := Pick(r, names)
		segs := strings.Split(n, ":")
		switch r.Intn(5) {
		case 0:
			return "^" + segs[0]
		case 1:
			return Pick(r, segs)
		case 2:
			return "^" + n + "$"
		case 3:
			return segs[len(segs)-1] + "$"
		default:
			return "^" + strings.Join(segs[:r.Range(1, len(segs))], ":")
		}
	}
	p := one()
	if r.Chance(1, 4) {
		p += "|" + one()
	}
	return p
}

type BalGenOpts struct {
	Valued    bool // allow -v
	NoFilters bool // C01: no account/commodity filter, no hiding map level 0
}

// GenBalFlags draws a flag vector for the journal (dates around its span).
func GenBalFlags(r *RNG, j *Journal, val string, o BalGenOpts) BalFlags {
	var f BalFlags
	lo, hi := 1<<30, 0
	for _, d := range j.Dirs {
		if d.Date < lo {
			lo = d.Date
		}
		if d.Date > hi {
			hi = d.Date
		}
	}
	if hi == 0 {
		lo, hi = 737000, 737100
	}
	accounts, coms := journalNames(j)
	if o.Valued && val != "" {
		f.Val = val
	}
	if r.Chance(1, 3) {
		f.From = lo + r.Range(-5, (hi-lo)/2+3)
	}
	if r.Chance(2, 3) {
		f.To = hi + r.Range(-(hi-lo)/2-3, 40)
	}
	if f.From > 0 && f.To > 0 && r.Chance(1, 20) {
		f.From, f.To = f.To+1, f.From // inverted window
	}
	f.Interval = Pick(r, []int{0, 0, 1, 2, 3, 3, 4, 5})
	if r.Chance(1, 4) {
		f.Last = r.Range(1, 4)
	}
	f.Diff = r.Chance(1, 4)
	f.NoClose = r.Chance(1, 3)
	f.SortAlpha = r.Chance(1, 2)
	if f.Val != "" && r.Chance(1, 3) {
		f.Show = []string{genPattern(r, accounts)}
		if r.Chance(1, 3) {
			f.Show = append(f.Show, genPattern(r, accounts))
		}
	}
	if r.Chance(1, 3) {
		nr := r.Range(1, 2)
		for k := 0; k < nr; k++ {
			m := MapRuleF{Level: r.Range(1, 3)}
			if !o.NoFilters && r.Chance(1, 5) {
				m.Level = 0
			}
			if r.Chance(1, 2) {
				m.Suffix = r.Range(1, 3)
			}
			if r.Chance(2, 3) {
				m.Regex = genPattern(r, accounts)
			}
			f.Map = append(f.Map, m)
		}
	}
	// every pattern flag may be repeated (the patterns are alternatives): seeded change C02-c made only the last
	// of several --account / --commodity patterns count
	several := func(one func() string) []string {
		ps := []string{one()}
		for r.Chance(1, 3) && len(ps) < 3 {
			ps = append(ps, one())
		}
		return ps
	}
	if r.Chance(1, 6) {
		f.Remap = several(func() string { return genPattern(r, accounts) })
	}
	if !o.NoFilters {
		if r.Chance(1, 4) {
			f.Acc = several(func() string { return genPattern(r, accounts) })
		}
		if r.Chance(1, 5) && len(coms) > 0 {
			f.Com = several(func() string { return "^" + Pick(r, coms) + "$" })
		}
	}
	f.CSV = r.Chance(1, 2)
	if !f.CSV {
		f.Thousands = r.Chance(1, 5)
		f.Digits = Pick(r, []int{0, 0, 2, 2, 4, 8})
	}
	return f
}

// ---------------------------------------------------------------- parallel subprocess runs

// parallelFor runs f(0..n-1) on up to `workers` goroutines.
func parallelFor(n, workers int, f func(i int)) {
	var wg sync.WaitGroup
	ch := make(chan int)
	for w := 0; w < workers; w++ {
		wg.Add(1)
		go func() {
			defer wg.Done()
			for i := range ch {
				f(i)
			}
		}()
	}
	for i := 0; i < n; i++ {
		ch <- i
	}
	close(ch)
	wg.Wait()
}
