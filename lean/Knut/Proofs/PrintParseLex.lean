import Knut.Proofs.PrintParseLoad
/-!
# The printed fields of model values are well-formed tokens and elaborate back to the values
-/
namespace Knut.FromSyntax
open Knut Knut.Syntax Knut.Utf8 Knut.Dec
set_option linter.unusedVariables false

/-- non-empty, letters and digits only (what the scanner reads as one account segment / commodity) -/
def okName (s : String) : Bool := !s.toList.isEmpty && s.toList.all (fun c => isAlphanumeric c.toNat)

theorem strToks_ne_nil {s : String} (h : s.toList ≠ []) : strToks s ≠ [] := by
  simp [strToks, charsToks, h]

theorem all_strToks {p : Nat → Bool} {cs : List Char} (h : ∀ c ∈ cs, p c.toNat = true) : All p (charsToks cs) := by
  intro t ht
  simp only [charsToks, List.mem_map] at ht
  obtain ⟨c, hc, rfl⟩ := ht
  exact h c hc

theorem okName_spec {s : String} (h : okName s = true) :
    s.toList ≠ [] ∧ ∀ c ∈ s.toList, isAlphanumeric c.toNat = true := by
  simp only [okName, Bool.and_eq_true, Bool.not_eq_true', List.isEmpty_eq_false_iff, List.all_eq_true] at h
  exact h

theorem commodityOK_of_okName {s : String} (h : okName s = true) : CommodityOK (strToks s) := by
  obtain ⟨h1, h2⟩ := okName_spec h
  exact ⟨⟨strToks_ne_nil h1, all_strToks h2⟩, valid_charsToks _⟩

/-! ### dates -/

theorem digit_table {c : Char} (h : Dec.isDigit c = true) : Syntax.isDigit c.toNat = true := by
  have ⟨a, b⟩ := digit_range h
  have := asciiDigits_eq
  have hm : c.toNat ∈ (List.range 128).filter Syntax.isDigit := by
    rw [this]; simp; omega
  exact (List.mem_filter.mp hm).2

theorem dateOK (z : Int) (h0 : minDate ≤ z) (h1 : z ≤ maxDate) : DateOK (charsToks (dateChars z)) := by
  have ⟨y1, y2⟩ := year_bounds z h0 h1
  have ⟨m1, m2⟩ := Date.month_bounds z
  have d1 := Date.day_pos z
  have d2 := day_le_daysIn z
  have d3 : daysIn (Date.year z) (Date.month z) ≤ 31 := by unfold daysIn; split <;> (try split) <;> (try split) <;> omega
  have ly := fracDigits_length (k := 4) (fp := (Date.year z).toNat) (by decide) (by simp; omega)
  have lm := fracDigits_length (k := 2) (fp := (Date.month z).toNat) (by decide) (by simp; omega)
  have ld := fracDigits_length (k := 2) (fp := (Date.day z).toNat) (by decide) (by simp; omega)
  have dy : ∀ c ∈ fracDigits 4 (Date.year z).toNat, Dec.isDigit c = true := fun c hc => fracDigits_isDigit hc
  have dm : ∀ c ∈ fracDigits 2 (Date.month z).toNat, Dec.isDigit c = true := fun c hc => fracDigits_isDigit hc
  have dd : ∀ c ∈ fracDigits 2 (Date.day z).toNat, Dec.isDigit c = true := fun c hc => fracDigits_isDigit hc
  refine ⟨?_, valid_charsToks _⟩
  unfold dateChars
  match hy : fracDigits 4 (Date.year z).toNat, ly with
  | [a1, a2, a3, a4], _ =>
    match hm : fracDigits 2 (Date.month z).toNat, lm with
    | [b1, b2], _ =>
      match hd : fracDigits 2 (Date.day z).toNat, ld with
      | [c1, c2], _ =>
        rw [hy] at dy; rw [hm] at dm; rw [hd] at dd
        refine ⟨charTok a1, charTok a2, charTok a3, charTok a4, charTok '-', charTok b1, charTok b2, charTok '-', charTok c1,
          charTok c2, rfl, ?_, ?_, ?_, ?_, rfl, ?_, ?_, rfl, ?_, ?_⟩
        · exact digit_table (dy a1 (by simp))
        · exact digit_table (dy a2 (by simp))
        · exact digit_table (dy a3 (by simp))
        · exact digit_table (dy a4 (by simp))
        · exact digit_table (dm b1 (by simp))
        · exact digit_table (dm b2 (by simp))
        · exact digit_table (dd c1 (by simp))
        · exact digit_table (dd c2 (by simp))

/-! ### accounts -/

/-- an account the printer writes and the parser reads back: a type name first, every segment non-empty and
made of letters and digits -/
def PrintableAccount (a : Account) : Bool := a.wf && a.segments.all okName

theorem alnum_not_colon {c : Char} (h : isAlphanumeric c.toNat = true) : c ≠ ':' := by
  intro e; subst e
  have : isAlphanumeric (':' : Char).toNat = false := alnum_colon
  rw [this] at h; cases h

theorem accountV_name (a : Account) (h : PrintableAccount a = true) : accountV (flat (strToks a.name)) = some a := by
  simp only [PrintableAccount, Bool.and_eq_true, List.all_eq_true] at h
  obtain ⟨hwf, hs⟩ := h
  have hne : a.segments ≠ [] := by
    intro e
    simp [Account.wf, Account.type?, e] at hwf
  have hcol : ∀ s ∈ a.segments, ':' ∉ s.toList := by
    intro s hs' hm
    exact alnum_not_colon ((okName_spec (hs s hs')).2 ':' hm) rfl
  have hof : Account.ofName a.name = a := by
    cases a with
    | mk segs =>
      unfold Account.ofName Account.name
      congr 1
      have e1 : ∀ sl : String.Slice, sl.toString = sl.copy := fun _ => rfl
      simp only [e1]
      rw [String.toList_split_bool]
      simp only [String.toList_intercalate]
      have : (":" : String).toList = [':'] := rfl
      rw [this]
      have key := List.splitOn_intercalate (ls := segs.map String.toList) ':' (by simpa using hcol) (by simpa using hne)
      unfold List.splitOn at key
      rw [key]
      simp
  simp [accountV, utf8_str, hof, hwf]

theorem segTail_of (segs : List String) (hs : ∀ s ∈ segs, okName s = true) :
    SegTail (charsToks ((segs.map (fun s => ':' :: s.toList)).flatten)) := by
  induction segs with
  | nil => exact SegTail.nil
  | cons s rest ih =>
    have ⟨h1, h2⟩ := okName_spec (hs s List.mem_cons_self)
    simp only [List.map_cons, List.flatten_cons, List.cons_append, charsToks, List.map_append] at ih ⊢
    exact SegTail.cons (charTok ':') (s.toList.map charTok) _ rfl (by simp [h1]) (all_strToks h2)
      (ih (fun x hx => hs x (List.mem_cons_of_mem _ hx)))

theorem name_toList (segs : List String) (s : String) :
    (Account.name ⟨s :: segs⟩).toList = s.toList ++ (segs.map (fun x => ':' :: x.toList)).flatten := by
  unfold Account.name
  simp only [String.toList_intercalate]
  have : (":" : String).toList = [':'] := rfl
  rw [this]
  induction segs generalizing s with
  | nil => simp
  | cons t rest ih =>
    simp only [List.map_cons, List.flatten_cons]
    rw [List.intercalate_cons_cons]
    have := ih t
    simp only [List.map_cons] at this
    rw [this]
    simp

theorem accountOK_name (a : Account) (h : PrintableAccount a = true) : AccountOK (strToks a.name) := by
  simp only [PrintableAccount, Bool.and_eq_true, List.all_eq_true] at h
  obtain ⟨hwf, hs⟩ := h
  cases a with
  | mk segs =>
    cases segs with
    | nil => simp [Account.wf, Account.type?] at hwf
    | cons s rest =>
      have ⟨h1, h2⟩ := okName_spec (hs s List.mem_cons_self)
      refine ⟨⟨false, ?_⟩, valid_charsToks _⟩
      simp only [IsAccount, Bool.false_eq_true, if_false, strToks, name_toList, charsToks_append]
      exact ⟨charsToks s.toList, _, rfl, by simp [charsToks, h1], all_strToks h2,
        segTail_of rest (fun x hx => hs x (List.mem_cons_of_mem _ hx))⟩

/-! ### amounts -/

theorem showDec_chars (q : Rat) : ∃ (m : Int) (k : Nat), (showDec q).toList =
    signPart m ++ digitsOf (m.natAbs / 10 ^ k) ++ fracPart k (m.natAbs % 10 ^ k) :=
  ⟨_, _, showScaled_toList _ _⟩

theorem decChar_cases {m : Int} {k : Nat} {c : Char}
    (h : c ∈ signPart m ++ digitsOf (m.natAbs / 10 ^ k) ++ fracPart k (m.natAbs % 10 ^ k)) :
    Dec.isDigit c = true ∨ c = '-' ∨ c = '.' := by
  simp only [List.mem_append] at h
  rcases h with (h | h) | h
  · unfold signPart at h
    split at h
    · simp at h; exact Or.inr (Or.inl h)
    · cases h
  · exact Or.inl (digitsOf_isDigit h)
  · rw [fracPart_eq] at h
    split at h
    · cases h
    · rcases List.mem_cons.mp h with h | h
      · exact Or.inr (Or.inr h)
      · exact Or.inl (fracDigits_isDigit h)

theorem decimalV_showDec (q : Rat) (K : Nat) (hq : q.den ∣ 10 ^ K) : decimalV (flat (strToks (showDec q))) = some q := by
  obtain ⟨m, k, hc⟩ := showDec_chars q
  have asc : ∀ c ∈ (showDec q).toList, c.toNat < 128 := by
    intro c hcm
    rw [hc] at hcm
    rcases decChar_cases hcm with h | h | h
    · have := digit_range h; omega
    · subst h; decide
    · subst h; decide
  have hall : (flat (strToks (showDec q))).all (fun b => asciiDigit b || b = 45 || b = 46) = true := by
    unfold strToks
    rw [flat_ascii _ asc, List.all_eq_true]
    intro b hb
    simp only [List.mem_map] at hb
    obtain ⟨c, hcm, rfl⟩ := hb
    rw [hc] at hcm
    rcases decChar_cases hcm with h | h | h
    · simp [(byte_of_digit h).1]
    · subst h; decide
    · subst h; decide
  unfold decimalV
  rw [hall]
  simp only [if_true, utf8_str, Option.bind_some]
  exact parseDec_showDec q K hq

theorem decimalOK_showDec (q : Rat) : DecimalOK (strToks (showDec q)) := by
  obtain ⟨m, k, hc⟩ := showDec_chars q
  refine ⟨?_, valid_charsToks _⟩
  unfold strToks
  rw [hc, charsToks_append, charsToks_append]
  refine ⟨_, _, _, rfl, ?_, ?_, ?_, ?_⟩
  · unfold signPart
    split
    · exact Or.inr ⟨charTok '-', rfl, rfl⟩
    · exact Or.inl rfl
  · simp [charsToks, digitsOf_ne_nil]
  · exact all_strToks (fun c hcm => digit_table (digitsOf_isDigit hcm))
  · rw [fracPart_eq]
    split
    · exact Or.inl rfl
    · rename_i hk
      refine Or.inr ⟨charTok '.', charsToks (fracDigits k (m.natAbs % 10 ^ k)), rfl, rfl, ?_,
        all_strToks (fun c hcm => digit_table (fracDigits_isDigit hcm))⟩
      have := fracDigits_length (k := k) (fp := m.natAbs % 10 ^ k) (by omega) (Nat.mod_lt _ (Nat.pow_pos (by decide)))
      intro e
      simp only [charsToks, List.map_eq_nil_iff] at e
      rw [e] at this
      simp at this
      omega

end Knut.FromSyntax
