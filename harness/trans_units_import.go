package main

// Units "Import…" of the Go→Lean translator: the per-record functions of the importers (cmd/importer/*).
//
//   p.reader.Read()        (encoding/csv.Reader, listed in trExtStd) like a call of an untranslated function of /repo: its RESULT
//                          `([]string, error)` is an extra parameter `ext<N> : List String × Option Error` — the record as encoding/csv
//                          decoded it (or its error); the reader, the file and the loop around the per-record function stay outside
//   p.registry.…           the registry field is omitted from the translated `parser` (untranslatable type); the calls through it
//                          (`Commodities().MustGet(x)`, `Accounts().TBDAccount()`) are `ext` parameters as everywhere
//   time.Parse("02.01.2006", s)   prelude `Time.ParseDMYdot` (GoSem/ParseLayout.lean: the model's layout interpreter on `layoutDMYdot`)

import (
	"go/ast"
	"strings"
)

// trExtStd: functions outside /repo whose calls are external calls (result = an `ext` parameter), by full name
var trExtStd = map[string]bool{}

func init() {
	trUnits = append(trUnits,
		&trUnit{pkg: "cmd/importer/swisscard2", mod: "ImportSwisscard2", funcs: []string{"parser.readBooking"},
			agree: map[string]string{"parser.readBooking": "ImportSwisscard2"}},
	)
	trStubEnsure("encoding/csv", "type Reader struct", "type Reader struct{ _ int }")
	trStubEnsure("encoding/csv", "func (r *Reader) Read(", "func (r *Reader) Read() (record []string, err error)")
	trExtStd["(*encoding/csv.Reader).Read"] = true
	// time.Parse: the constant layout selects the prelude function (ISO as in the Create units: trans_units_create.go)
	trPrims["time.Parse"] = trPrim{lean: "Time.ParseISO",
		args: func(c *trCtx, call *ast.CallExpr) []ast.Expr {
			trTimeLayout(c, call)
			return call.Args[1:]
		},
		leanOf: trTimeLayout}
}

// trTimeLayouts: the constant layouts of time.Parse that have a meaning in the prelude
var trTimeLayouts = map[string]string{
	`"2006-01-02"`: "Time.ParseISO",    // GoSem/Parse.lean
	`"02.01.2006"`: "Time.ParseDMYdot", // GoSem/ParseLayout.lean
}

func trTimeLayout(c *trCtx, call *ast.CallExpr) string {
	tv := c.info().Types[call.Args[0]]
	if tv.Value != nil {
		if n, ok := trTimeLayouts[tv.Value.ExactString()]; ok {
			return n
		}
	}
	trFail(call.Args[0].Pos(), "time.Parse with a layout other than the constants \"2006-01-02\", \"02.01.2006\" is outside the subset")
	return ""
}

func trImportImports(text string) string {
	if strings.Contains(text, "Time.ParseDMYdot") {
		return "import Knut.GoSem.ParseLayout\n"
	}
	return ""
}
