import Knut.GoSem.Fmt
import Knut.Model.Table
/-!
# `encoding/csv.Writer` for the translated code (`CSVRenderer.Render`; `harness/trans_units_tablerender.go`)

A `*csv.Writer` created by `csv.NewWriter(w)` (default comma, `UseCRLF = false`) is the text of its sink `w` (an in-memory text, as
every `io.Writer` of the translated code) and the text that is PENDING in its `bufio.Writer`.  `Write(record)` appends one line to
the pending text and returns no error (the default comma is valid; the sink does not fail); `Flush()` passes the pending text on;
`Error()` — the sticky error of the sink — is therefore `none`.
The line of a record — which fields are quoted, how quotes are doubled — is the hand model's `Knut.Table.csvLine`
(`Model/Table.lean`), compared with the real `encoding/csv` by the stream `gosemtable` of C11 (`harness/gosem_table.go`).

When the function that owns the writer returns, the sink holds `Writer.dropped`: its text without the pending part.  That is exact
while at most one buffer (4096 bytes) is pending; beyond that `bufio` has passed a part on — which part depends on the writer
underneath (`io.StringWriter` or not) — and nothing is claimed: the distinct outcome `droppedBeyond`.
-/
namespace Knut.GoSem.Csv

structure Writer where
  sink : String
  pending : String
  deriving DecidableEq, Repr

/-- `csv.NewWriter(w)` -/
def NewWriter (w : String) : Writer := ⟨w, ""⟩

/-- one record as `csv.Writer.Write` emits it -/
def line (record : List String) : String := String.ofList (Knut.Table.csvLine (record.map String.toList))

/-- `w.Write(record)` -/
def Writer.Write (w : Writer) (record : List String) : Writer × Option Error :=
  ({ w with pending := w.pending ++ line record }, none)

/-- `w.Flush()` -/
def Writer.Flush (w : Writer) : Writer := ⟨w.sink ++ w.pending, ""⟩

/-- `w.Error()`: the sticky error of the buffered writer — the first error a `Write` or `Flush` met in its sink.  The sink of the
translated code is an in-memory text that does not fail (so `Write` above returns no error either): there is none.  What the real
`Render` returns when the sink DOES fail is the business of the stream `fault` of C17. -/
def Writer.Error (_w : Writer) : Option Error := none

def droppedBeyond : String := "csv.Writer dropped with more than one buffer pending: what reached its sink is outside the reading"

/-- the text of the sink when the `csv.Writer` is dropped -/
def Writer.dropped (w : Writer) : Outcome String :=
  if Strings.byteLen w.pending ≤ 4096 then .ok w.sink else .panic droppedBeyond

theorem dropped_Flush (w : Writer) : (Writer.Flush w).dropped = .ok (w.sink ++ w.pending) := by
  simp [Writer.dropped, Writer.Flush, Strings.byteLen]

end Knut.GoSem.Csv
